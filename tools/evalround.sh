#!/bin/bash
# usage: tools/evalround.sh <OUT dir> : confirm and evaluate every m<k>.diff of a seeded-change round (property from m<k>.json)
out=$(readlink -f "$1")
for j in $(ls $out/m*.json | sort -V); do
  k=$(basename $j .json); k=${k#m}
  prop=$(python3 -c "import json;print(json.load(open('$j'))['property'])")
  pkg=$(python3 -c "import json;print(json.load(open('$j'))['demo_package'])")
  echo "== m$k $prop $pkg"
  /verif/tools/confirm_mut.sh $out $k $pkg 2>&1 | tail -n 1 | cut -c1-400
  /verif/tools/evalmut.sh $out/m$k.diff $prop 2>&1 | tail -n 2 | cut -c1-400
done
