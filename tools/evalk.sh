#!/bin/bash
# usage: evalk.sh <OUT> <k>...   (confirm + evaluate selected seeded changes of a round)
out=$(readlink -f "$1"); shift
for k in "$@"; do
  j=$out/m$k.json
  prop=$(python3 -c "import json;print(json.load(open('$j'))['property'])")
  pkg=$(python3 -c "import json;print(json.load(open('$j'))['demo_package'])")
  echo "== m$k $prop $pkg"
  /verif/tools/confirm_mut.sh $out $k $pkg 2>&1 | tail -n 1 | cut -c1-400
  /verif/tools/evalmut.sh $out/m$k.diff $prop 2>&1 | tail -n 2 | cut -c1-400
done
