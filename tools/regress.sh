#!/bin/bash
# usage: regress.sh <seeded dir names...> : re-evaluates stored seeded changes against their property's quick check
cd /verif
for d in "$@"; do
  p=$(python3 -c "import json;print(json.load(open('seeded/$d/meta.json'))['property'])")
  tools/evalmut.sh seeded/$d/patch.diff $p 2>&1 | grep "^MUTANT\|PATCH" | cut -c1-200
done
