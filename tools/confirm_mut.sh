#!/bin/bash
# usage: tools/confirm_mut.sh <OUT dir> <k> <package dir relative to repo, e.g. bcs/ledger/xledger/ledger>
# Confirms a seeded change: demo passes on HEAD, change applies + builds, demo fails with it, package tests as on HEAD.
out=$(readlink -f "$1"); k=$2; pkg=$3
export GOFLAGS=-mod=mod GOPROXY=off GOSUMDB=off GOTOOLCHAIN=local
wt=$(mktemp -d /tmp/confmut.XXXXXX); rmdir $wt
git -C /repo worktree add -q --detach $wt HEAD || exit 3
cp $out/m${k}_demo_test.go $wt/$pkg/zz_mutant_demo_test.go
cd $wt
run=$(grep -o 'func Test[A-Za-z0-9_]*' $pkg/zz_mutant_demo_test.go | sed 's/func //' | paste -sd'|')
go test -vet=off -count=1 ./$pkg/ -run "^($run)\$" > /tmp/conf_a.txt 2>&1; a=$?
if ! git apply --3way $out/m$k.diff 2>/dev/null && ! git apply $out/m$k.diff 2>/dev/null; then echo "m$k: PATCH DOES NOT APPLY on HEAD"; cd /; git -C /repo worktree remove --force $wt; exit 4; fi
go build ./bcs/... ./kernel/... > /tmp/conf_b.txt 2>&1; b=$?
go test -vet=off -count=1 ./$pkg/ -run "^($run)\$" > /tmp/conf_c.txt 2>&1; c=$?
rm $pkg/zz_mutant_demo_test.go
go test -vet=off -count=1 ./$pkg/ 2>&1 | grep -- "^--- FAIL\|^ok\|^FAIL" | sort | uniq > /tmp/conf_d.txt
echo "m$k: demo_on_HEAD_exit=$a build_exit=$b demo_with_change_exit=$c existing_tests: $(tr '\n' ' ' < /tmp/conf_d.txt)"
cd /; git -C /repo worktree remove --force $wt; git -C /repo worktree prune
