#!/usr/bin/env python3
"""Run the repository's pinned test suite with the verif build tag OFF and compare with the stable
baseline (/root/.vp/BASELINE.json, or the copy kept in /verif/tools/baseline_stable.txt)."""
import json, os, subprocess, sys
REPO = os.environ.get("VERIF_REPO", "/repo")
here = os.path.dirname(os.path.abspath(__file__))
stable = [l.strip() for l in open(os.path.join(here, "baseline_stable.txt")) if l.strip()]
env = dict(os.environ, GOFLAGS="-mod=mod", GOPROXY="off", GOSUMDB="off", GOTOOLCHAIN="local")
p = subprocess.run(["go", "test", "-mod=mod", "-json", "-vet=off", "-count=1", "-timeout", "25m", "./..."],
                   cwd=REPO, env=env, stdout=subprocess.PIPE, stderr=subprocess.DEVNULL, text=True)
passed = set()
for line in p.stdout.splitlines():
    try:
        e = json.loads(line)
    except Exception:
        continue
    if e.get("Action") == "pass" and e.get("Test"):
        passed.add("%s::%s" % (e["Package"], e["Test"]))
missing = [t for t in stable if t not in passed]
print("baseline: %d stable tests, %d passed now, %d missing" % (len(stable), len(stable) - len(missing), len(missing)))
for t in missing:
    print("MISSING", t)
sys.exit(1 if missing else 0)
