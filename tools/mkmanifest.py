#!/usr/bin/env python3
"""Regenerates /verif/MANIFEST.json from the table below (kept in one place so it is always valid)."""
import json, os, subprocess
here = os.path.dirname(os.path.dirname(os.path.abspath(__file__)))
props = [json.loads(l) for l in open(os.path.join(here, "properties.jsonl"))]
ids = [p["id"] for p in props]

MC = "model_checking"
CHECKS = {
 "C04": dict(level=MC, design="7/C04",
   text="TLC enumerates every block tree, confirmation order, duplicate / invalid submission and truncation within the constants of spec/Ledger.tla (quick: 6 blocks, thorough: 7 blocks = 6.0M distinct states) against the main-chain invariants; TLC-generated behaviours are replayed on the real ledger and the recorded answers of every query the property names are validated step by step against the same actions (Trace_Ledger.tla).",
   note="Trusted: TLC/SANY, the in-memory kv engine replacing goleveldb, the ledger driver's projection (abstract ids = arrival order). Small-scope: trees of <= 8..14 blocks, 3 tx ids. Generator precondition: a tx occurs at most once on a root-to-leaf path.",
   technique="TLA+ spec + TLC exhaustive MC; TLC-generated behaviours replayed on real code; TLC trace validation"),
 "C01": dict(level=MC, design="7/C01",
   text="TLC model-checks spec/XState.tla (block trees x submit / peer block / play / mine / walk / restart orders over a 15-transaction catalogue; invariant PureFn: state minus pool effects = what a fresh node obtains by replaying the pointer's chain, with do / undo written as the code writes them) exhaustively within small constants; TLC-simulated behaviours are replayed on the real ledger + state machine with real signed transactions and every observable (balances, raw UTXO table, total, key values / versions, pool, pointer, snapshots) is validated after every step against the same actions (Trace_XState.tla).",
   note="Trusted: TLC, in-memory kv engine, the xstate driver's concretiser / projector, the harness's $vprog kernel contract for key writes. Small scope: <= 5 blocks exhaustively, 7-9 blocks and 18-26 operations in simulation. Known deviation KF_PoolMasksBlockOrder (PlayAndRepost validates against pool-affected storage) is accepted as listed in KNOWN_FINDINGS.txt; the rest of such a behaviour is not judged.",
   technique="TLA+ spec + TLC exhaustive MC; TLC-generated behaviours replayed on real code; TLC trace validation"),
 "C02": dict(level=MC, design="7/C02",
   text="Invariant Conservation of XState.tla (sum of unspent outputs + pending fee outputs = total = genesis + awards of applied blocks) model-checked; generated behaviours replayed on the real state machine in three amount concretisations (x1, x(2^70+3), the latter also with leading-zero output encodings); GetTotal, GetBalance of every address and the raw UTXO table scan validated after every step.",
   note="math/big is trusted; spec amounts are small integers (scale invariance is exercised by the concretisation variants, not proved). Known deviation KF_PoolMasksBlockOrder as for C01.",
   technique="TLA+ spec + TLC exhaustive MC; TLC-generated behaviours replayed on real code in 3 amount encodings; TLC trace validation"),
 "C03": dict(level=MC, design="7/C03",
   text="Submit of XState.tla admits exactly when every token input is unspent / unfrozen and every read key is at the cited version; Play undoes conflicting pool members with descendants as processUnconfirmTxs does; invariants NoDoubleSpend / PoolValid over main chain + pool model-checked; conflict-biased behaviours replayed on the real code, accept / refuse classes and pool validated after every step.",
   note="Refusal classes by sentinel errors (stale vs other). Known deviation KF_PoolMasksBlockOrder as for C01.",
   technique="TLA+ spec + TLC exhaustive MC; TLC-generated behaviours replayed on real code; TLC trace validation"),
 "C05": dict(level=MC, design="7/C05",
   text="Every refusing disjunct of Ledger.tla / XState.tla leaves the observable state unchanged (model-checked); behaviours interleaving valid operations with failing ones are replayed on the real code and after EVERY step (a) the live answers are validated against the specification and (b) a second Ledger / State pair opened on a copy of the data must answer every query identically; the behaviour continues so that poisoned caches surface later.",
   note="Granularity of a failed Walk per DESIGN R6. Storage write faults are exercised through C06's cut points. Deviations concerning acceptance of invalid peer blocks are outside this property (enabled silently).",
   technique="TLA+ specs + TLC MC; generated failing/valid histories replayed on real code with live-vs-reopened differential; TLC trace validation"),
 "C17": dict(level=MC, design="7/C17",
   text="XState.tla with window w > 0: IrrDef (irr = max(0, max applied height - w)), IrrMonotone, IrrKept (no non-pruning walk drops a chain block at or below irr) model-checked for w = 1, 2; behaviours with w = 0..3, walks trying to cross the irreversible height, pruning walks and restarts replayed on the real state machine; GetMeta's irreversible height, walk results and pointer validated after every step.",
   note="Window is fixed by genesis (changing it through governance proposals is not exercised).",
   technique="TLA+ spec + TLC exhaustive MC; TLC-generated behaviours replayed on real code; TLC trace validation"),
 "C18": dict(level=MC, design="7/C18",
   text="SnapGet in XState.tla transcribes xModSnapshot.Get (version chain walk skipping unconfirmed writers); invariant SnapshotOK (snapshot at every chain block = what replaying to that block leaves) model-checked over key create / overwrite / delete / re-create / delete-of-missing histories with pending writes and reorganisations; on the real code CreateSnapshot(B).Get for every block B of the pointer's chain and every key is validated after every step.",
   note="Snapshots are specified only while the state machine is on the ledger's main chain. Two keys, one bucket.",
   technique="TLA+ spec + TLC exhaustive MC; TLC-generated behaviours replayed on real code; TLC trace validation"),
 "C06": dict(level=MC, design="7/C06",
   text="XState.tla describes every operation as its sequence of atomic storage writes (WalkSteps: pool roll-back batch, one batch per undone / redone block, one per re-admitted transaction; a mined block = ledger confirmation then PlayForMiner as two steps); CrashSpec adds a crash + restart after the j-th write of a walk and TLC checks the C01 / C02 / C03 / C18 invariants in every post-crash state. On the real code the in-memory kv engine logs every atomic write of both databases; for every operation of every generated behaviour and EVERY prefix of the writes it issued the image is materialised, a real ledger + state machine is opened on it, all observables are validated against the specification's persisted state after that many writes, then the state is synchronised to the ledger tip and must equal the replay of the ledger's main chain.",
   note="A storage write (put / delete / batch) is assumed atomic and durable; crashes inside goleveldb are out of scope. Exhaustive over the crash points of the scenarios run, not over scenarios. The surviving pool is not compared (R3).",
   technique="TLA+ spec with per-write steps + TLC MC with crash action; write-log prefixes of real executions reopened on real code; TLC trace validation"),
 "C08": dict(level=MC, design="7/C08", engine="tlc+c08",
   text="TLC enumerates every base block of spec/BlockId.tla (0..6 transactions incl. non-powers of two and repeated ids, with/without quorum certificate, failed-tx map, PoW bits) x every single mutation (28 kinds over every schema field, failed-tx entries, justify parts, tx add/drop/reorder/alter/duplicate-suffix, merkle-tree array, id, signature) x 8 repair strategies (quick 43k, thorough 1.11M distinct states) against: Verify(Format)=ok; Verify => id=H(header) and root=MerkleRoot(exactly the list, count=length, tree array=body) and signer key hashes to proposer; a differing block verifies only if newly signed by its proposer's key. Every enumerated case (11k / 332k) is concretised through FormatMinerBlock, mutated on the real protobuf and sent to Ledger.VerifyBlock, single/pow CheckMinerMatch and the public primitives; the recorded verdicts are validated by TLC against the same actions.",
   note="Trusted: TLC/SANY, the concretiser (abstract value -> real bytes), hash/signature assumptions (injective term hashes). Small scope: <= 6 txs, 2-symbol alphabet, single mutations. Permissive (either verdict) for fields outside id/signature and for consensus rules beyond id/address/signature. A reflection walk over the InternalBlock schema must match the spec's 29-entry field table (exit 2 otherwise). A panicking verifier counts as rejection (reported).",
   technique="TLA+ spec + TLC exhaustive MC (IDEAL) + TLC counterexamples on ACTUAL(KF); TLC-enumerated case table replayed on real code; TLC trace validation; protobuf schema reflection walk"),
}
NA = {}

commits = []
try:
    out = subprocess.run(["git", "-C", "/repo", "log", "--format=%h %s"], stdout=subprocess.PIPE, text=True).stdout
    commits = [l.split()[0] for l in out.splitlines() if l.split(" ", 1)[1].startswith("verif:")]
except Exception:
    pass

m = {
 "version": 1,
 "setup_cmd": "./setup.sh",
 "hooks": {"guard": "verif", "enable": "go build -tags verif (the harness module /verif/harness replaces github.com/xuperchain/xupercore by /repo)",
           "baseline_off_cmd": "python3 /verif/tools/baseline_off.py", "source_commits": commits, "add_only": True},
 "engines": [
   {"name": "tlc", "path": "spec/", "serves_properties": sorted(CHECKS), "kind_free_text": "TLA+ specifications: exhaustive model checking (MC_*.cfg), behaviour generation by simulation (Gen_*), trace validation (Trace_*)"},
   {"name": "vh", "path": "harness/", "serves_properties": sorted(CHECKS), "kind_free_text": "Go harness built from /repo's working tree with -tags verif: executes abstract operations on the real packages over an in-memory kv engine and records ndjson traces"},
 ],
 "checks": [],
 "not_applicable": [],
 "notes": "Every check is `./check <ID> --tier quick|thorough`; exit 0 held / 1 violation / 2 undecided. Known findings: KNOWN_FINDINGS.txt.",
}
for i in ids:
    if i in CHECKS:
        c = CHECKS[i]
        m["checks"].append({
          "property_id": i, "quick_cmd": "./check %s --tier quick" % i, "thorough_cmd": "./check %s --tier thorough" % i,
          "evidence_file": "/verif/evidence/%s.json" % i, "replay_cmd_template": "./check %s --replay {path}" % i,
          "engine": c.get("engine", "tlc+vh"), "level_claimed": {"category": c["level"], "text": c["text"], "design_ref": c["design"]},
          "level_note": c["note"], "technique": c["technique"]})
    else:
        m["not_applicable"].append({"property_id": i, "reason": NA.get(i, "not built yet in this round; see DESIGN.md section 7 for the planned specification and binding")})
json.dump(m, open(os.path.join(here, "MANIFEST.json"), "w"), indent=1)
print("checks:", len(m["checks"]), "not_applicable:", len(m["not_applicable"]))
