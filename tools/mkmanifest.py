#!/usr/bin/env python3
"""Regenerates /verif/MANIFEST.json from the table below (kept in one place so it is always valid)."""
import json, os, subprocess
here = os.path.dirname(os.path.dirname(os.path.abspath(__file__)))
props = [json.loads(l) for l in open(os.path.join(here, "properties.jsonl"))]
ids = [p["id"] for p in props]

MC = "model_checking"
CHECKS = {
 "C04": dict(level=MC, design="7/C04",
   text="TLC enumerates every block tree, confirmation order, duplicate / invalid submission and truncation within the constants of spec/Ledger.tla (quick: 6 blocks, thorough: 7 blocks = 6.0M distinct states) against the main-chain invariants; TLC-generated behaviours are replayed on the real ledger and the recorded answers of every query the property names are validated step by step against the same actions (Trace_Ledger.tla).",
   note="Trusted: TLC/SANY, the in-memory kv engine replacing goleveldb, the ledger driver's projection (abstract ids = arrival order). Small-scope: trees of <= 8..14 blocks, 3 tx ids. Generator precondition: a tx occurs at most once on a root-to-leaf path.",
   technique="TLA+ spec + TLC exhaustive MC; TLC-generated behaviours replayed on real code; TLC trace validation"),
}
NA = {}

commits = []
try:
    out = subprocess.run(["git", "-C", "/repo", "log", "--format=%h %s"], stdout=subprocess.PIPE, text=True).stdout
    commits = [l.split()[0] for l in out.splitlines() if l.split(" ", 1)[1].startswith("verif:")]
except Exception:
    pass

m = {
 "version": 1,
 "setup_cmd": "./setup.sh",
 "hooks": {"guard": "verif", "enable": "go build -tags verif (the harness module /verif/harness replaces github.com/xuperchain/xupercore by /repo)",
           "baseline_off_cmd": "python3 /verif/tools/baseline_off.py", "source_commits": commits, "add_only": True},
 "engines": [
   {"name": "tlc", "path": "spec/", "serves_properties": sorted(CHECKS), "kind_free_text": "TLA+ specifications: exhaustive model checking (MC_*.cfg), behaviour generation by simulation (Gen_*), trace validation (Trace_*)"},
   {"name": "vh", "path": "harness/", "serves_properties": sorted(CHECKS), "kind_free_text": "Go harness built from /repo's working tree with -tags verif: executes abstract operations on the real packages over an in-memory kv engine and records ndjson traces"},
 ],
 "checks": [],
 "not_applicable": [],
 "notes": "Every check is `./check <ID> --tier quick|thorough`; exit 0 held / 1 violation / 2 undecided. Known findings: KNOWN_FINDINGS.txt.",
}
for i in ids:
    if i in CHECKS:
        c = CHECKS[i]
        m["checks"].append({
          "property_id": i, "quick_cmd": "./check %s --tier quick" % i, "thorough_cmd": "./check %s --tier thorough" % i,
          "evidence_file": "/verif/evidence/%s.json" % i, "replay_cmd_template": "./check %s --replay {path}" % i,
          "engine": "tlc+vh", "level_claimed": {"category": c["level"], "text": c["text"], "design_ref": c["design"]},
          "level_note": c["note"], "technique": c["technique"]})
    else:
        m["not_applicable"].append({"property_id": i, "reason": NA.get(i, "not built yet in this round; see DESIGN.md section 7 for the planned specification and binding")})
json.dump(m, open(os.path.join(here, "MANIFEST.json"), "w"), indent=1)
print("checks:", len(m["checks"]), "not_applicable:", len(m["not_applicable"]))
