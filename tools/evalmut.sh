#!/bin/bash
# usage: tools/evalmut.sh <patch.diff> <check id> [<check id> ...]
# Applies the patch to a scratch worktree of /repo HEAD (plus untracked *_verif.go hook files), runs the checks
# against it with VERIF_REPO, prints one line per check, removes the worktree.
set -u
patch=$(readlink -f "$1"); shift
wt=$(mktemp -d /tmp/evalmut.XXXXXX)
rmdir "$wt"
git -C /repo worktree add -q --detach "$wt" HEAD || exit 3
( cd /repo && git ls-files --others --exclude-standard | grep '_verif\.go$' | while read f; do mkdir -p "$wt/$(dirname $f)"; cp "$f" "$wt/$f"; done )
if ! git -C "$wt" apply --3way "$patch" 2>/dev/null && ! git -C "$wt" apply "$patch" 2>/dev/null && ! (cd "$wt" && patch -p1 -s < "$patch"); then
  echo "PATCH-DOES-NOT-APPLY $patch"; git -C /repo worktree remove --force "$wt"; exit 4
fi
cd /verif
for c in "$@"; do
  out=$(VERIF_REPO="$wt" timeout 3000 ./check "$c" --tier "${VERIF_TIER:-quick}" 2>&1); rc=$?
  echo "MUTANT $(basename $(dirname $patch))/$(basename $patch) check=$c exit=$rc $(echo "$out" | grep -m1 '^VIOLATION\|^UNDECIDED' | cut -c1-160)"
  echo "$out" | grep -A1 '^VIOLATION' | tail -1 | cut -c1-300
done
git -C /repo worktree remove --force "$wt"
git -C /repo worktree prune
