package main

import (
	"encoding/hex"
	"encoding/json"
	"fmt"
	"math/big"

	"github.com/golang/protobuf/proto"
	"github.com/xuperchain/xupercore/bcs/ledger/xledger/state/utxo/txhash"
	"github.com/xuperchain/xupercore/bcs/ledger/xledger/state/xmodel"
	pb "github.com/xuperchain/xupercore/bcs/ledger/xledger/xldgpb"
	"github.com/xuperchain/xupercore/kernel/contract"
	"github.com/xuperchain/xupercore/protos"

	"verif/harness/fx"
)

// ---------------------------------------------------------------------------------------------
// Block 1 of every node: [award aw1, $acl.NewAccount(x; rule: key a alone)]. The account's rule is
// then "in force on the confirmed chain": the real ACL manager of the fixture node reads it through
// the tip snapshot whenever a transaction that spends the account's output is verified (VerifyTx of a
// submission; the verification of a played / walked block under utxo.Mutex).
// ---------------------------------------------------------------------------------------------

// acctCreateTx builds (once per process) the signed NewAccount transaction by executing the kernel contract in a
// sandbox over a node that has played the root block only; the read/write set is the same on every such node.
func (w *world) acctCreateTx(node *fx.Node) (*pb.Transaction, error) {
	if w.acctTx != nil {
		return w.acctTx, nil
	}
	k := fx.GetKey(acctKey)
	rule, _ := json.Marshal(&protos.Acl{Pm: &protos.PermissionModel{Rule: protos.PermissionRule_SIGN_THRESHOLD, AcceptValue: 1},
		AksWeight: map[string]float64{k.Address: 1}})
	args := map[string][]byte{"account_name": []byte(acctName[2:18]), "acl": rule}
	mg := node.Contract
	sb, err := mg.NewStateSandbox(&contract.SandboxConfig{XMReader: node.State.CreateXMReader(), UTXOReader: node.State.CreateUtxoReader()})
	if err != nil {
		return nil, err
	}
	ctx, err := mg.NewContext(&contract.ContextConfig{State: sb, Initiator: k.Address, AuthRequire: []string{k.Address},
		Module: "xkernel", ContractName: "$acl", ResourceLimits: contract.MaxLimits})
	if err != nil {
		return nil, err
	}
	resp, err := ctx.Invoke("NewAccount", args)
	used := ctx.ResourceUsed()
	ctx.Release()
	if err != nil {
		return nil, fmt.Errorf("$acl.NewAccount: %v", err)
	}
	if resp.Status >= contract.StatusErrorThreshold {
		return nil, fmt.Errorf("$acl.NewAccount: status %d: %s", resp.Status, resp.Message)
	}
	if err := sb.Flush(); err != nil {
		return nil, err
	}
	rw := sb.RWSet()
	tx := &pb.Transaction{Version: 3, Nonce: "c12-account", Timestamp: 1, Initiator: k.Address, AuthRequire: []string{k.Address}}
	tx.ContractRequests = []*protos.InvokeRequest{{ModuleName: "xkernel", ContractName: "$acl", MethodName: "NewAccount",
		Args: args, ResourceLimits: contract.ToPbLimits(used)}}
	tx.TxInputsExt = xmodel.GetTxInputs(rw.RSet)
	tx.TxOutputsExt = xmodel.GetTxOutputs(rw.WSet)
	sig, err := txhash.ProcessSignTx(fx.Crypto, tx, []byte(k.PrivStr))
	if err != nil {
		return nil, err
	}
	si := &protos.SignatureInfo{PublicKey: k.PubStr, Sign: sig}
	tx.InitiatorSigns = []*protos.SignatureInfo{si}
	tx.AuthRequireSigns = []*protos.SignatureInfo{si}
	if tx.Txid, err = txhash.MakeTransactionID(tx); err != nil {
		return nil, err
	}
	w.acctTx = tx
	return tx, nil
}

// setupAccount confirms and plays block 1; the requests of the run start on it.
func (s *sim) setupAccount() error {
	tx, err := s.w.acctCreateTx(s.node)
	if err != nil {
		return err
	}
	tx = proto.Clone(tx).(*pb.Transaction)
	if err := s.node.State.DoTx(tx); err != nil {
		return fmt.Errorf("account transaction: %v", err)
	}
	aw := &pb.Transaction{Version: 3, Coinbase: true, Desc: []byte("aw1"), Timestamp: 1001}
	aw.TxOutputs = []*protos.TxOutput{{ToAddr: []byte(addrOf("m")), Amount: big.NewInt(s.w.cat.Award).Bytes()}}
	aw.Txid, _ = txhash.MakeTransactionID(aw)
	s.w.names[hex.EncodeToString(aw.Txid)] = "aw1"
	m := fx.GetKey("m")
	root := s.node.RootBlk
	blk, err := s.node.Ledger.FormatMinerBlock([]*pb.Transaction{aw, tx}, []byte(m.Address), m.Priv, 1, 0, 0, root.Blockid, 0,
		s.node.State.GetTotal(), nil, nil, root.Height+1)
	if err != nil {
		return err
	}
	if st := s.node.Ledger.ConfirmBlock(blk, false); !st.Succ {
		return fmt.Errorf("the ledger refused block 1: %v", st.Error)
	}
	if err := s.node.State.PlayForMiner(blk.Blockid); err != nil {
		return fmt.Errorf("block 1: %v", err)
	}
	s.base = blk
	// driver sanity (not a verdict): the rule is readable through the real manager
	if a, err := s.node.Acl.GetAccountACL(acctName); err != nil || a == nil {
		return fmt.Errorf("the account's rule is not readable after block 1: %v", err)
	}
	return nil
}
