// Command c12 is the Go side of check C12 (concurrent submissions are serialisable). It executes scenarios of
// spec/SpinLock.tla (concurrent State.DoTx / SelectUtxos / PlayAndRepost calls with real signed transactions) on
// the real state machine of /repo and records what happened as ndjson; it never decides whether an outcome is
// right (spec/Trace_SpinLock.tla does).
//
//	c12 info   -catalog catalog.json
//	c12 replay -catalog catalog.json -in <dir of behaviours> -out trace.ndjson [-from i -to j]
//	           gated: each behaviour's schedule (TLC) is replayed step by step on real goroutines
//	c12 stress -catalog catalog.json -out trace.ndjson -runs N -procs K
//	           free running: K goroutines per run, no gates, seeded choice of the requests
//	c12 unit   -in <dir of behaviours of spec/LockTable.tla> -out trace.ndjson
//	           whole TryLock / Unlock calls on one real utxo.SpinLock
package main

import (
	"encoding/json"
	"flag"
	"fmt"
	"math/big"
	"math/rand"
	"os"
	"strconv"
	"sync"
	"time"

	"github.com/xuperchain/xupercore/bcs/ledger/xledger/state/utxo"

	"verif/harness/fx"
)

func seed() int64 {
	s, err := strconv.ParseInt(os.Getenv("VERIF_SEED"), 10, 64)
	if err != nil {
		return 1
	}
	return s
}

func bigInt(x int64) *big.Int { return big.NewInt(x) }

var timeAfter = time.After

func stats(m map[string]interface{}) {
	b, _ := json.Marshal(m)
	fmt.Println(string(b))
}

func main() {
	subs := map[string]func([]string) error{"info": infoMain, "replay": replayMain, "stress": stressMain, "unit": unitMain}
	if len(os.Args) < 2 || subs[os.Args[1]] == nil {
		fmt.Fprintln(os.Stderr, "usage: c12 info|replay|stress|unit [flags]")
		os.Exit(64)
	}
	work := os.Getenv("VERIF_WORK")
	if work == "" {
		var err error
		work, err = os.MkdirTemp("", "c12")
		if err != nil {
			panic(err)
		}
		defer os.RemoveAll(work)
	}
	fx.Init(work)
	if err := subs[os.Args[1]](os.Args[2:]); err != nil {
		fmt.Fprintln(os.Stderr, "c12:", err)
		os.Exit(3)
	}
}

func world0(catf string) (*world, error) {
	cat, err := loadCatalog(catf)
	if err != nil {
		return nil, err
	}
	return newWorld(cat, true)
}

// info: facts about the tree under test that select the instantiation of the specification:
//
//	gfirst  - the lock keys of genesis outputs sort before those of the other transactions (constant GFirst; a
//	          property of the root transaction's id, fixed by the genesis configuration);
//	twostep - a shared key is locked in two steps (the yield point between LoadOrStore and refCounter.Add is
//	          reached): the code's protocol (KF_SharedLockRefCountRace = TRUE) or an atomic one (FALSE).
func infoMain(args []string) error {
	fs := flag.NewFlagSet("info", flag.ExitOnError)
	catf := fs.String("catalog", "catalog.json", "catalogue written by Gen_SpinLock")
	fs.Parse(args)
	cat, err := loadCatalog(*catf)
	if err != nil {
		return err
	}
	w, err := newWorld(cat, false)
	if err != nil {
		return err
	}
	s, err := newSim(w, "info", []string{"p5"})
	if err != nil {
		return err
	}
	sites := []string{}
	utxo.VerifYield = func(site, key string) { sites = append(sites, site) }
	c, e := s.submit("p5", nil)
	utxo.VerifYield = nil
	if c != "admit" {
		return fmt.Errorf("probe transaction p5 was not admitted: %s %s", c, e)
	}
	two := false
	for _, x := range sites {
		if x == "trylock_first_before_add" {
			two = true
		}
	}
	if len(sites) == 0 {
		return fmt.Errorf("no yield point of the spin lock was reached: is the harness built with -tags verif?")
	}
	stats(map[string]interface{}{"gfirst": w.gFirst, "twostep": two, "sites": sites})
	return nil
}

func strsOf(v interface{}) []string {
	out := []string{}
	if a, ok := v.([]interface{}); ok {
		for _, x := range a {
			if s, ok := x.(string); ok {
				out = append(out, s)
			}
		}
	}
	return out
}

func schedOf(v interface{}) []step {
	out := []step{}
	if a, ok := v.([]interface{}); ok {
		for _, x := range a {
			if t, ok := x.([]interface{}); ok && len(t) == 3 {
				p, _ := t[0].(float64)
				s, _ := t[1].(string)
				k, _ := t[2].(string)
				out = append(out, step{int(p), s, k})
			}
		}
	}
	return out
}

func stepsJSON(ss []step) [][]interface{} {
	out := [][]interface{}{}
	for _, s := range ss {
		out = append(out, s.json())
	}
	return out
}

func replayMain(args []string) error {
	fs := flag.NewFlagSet("replay", flag.ExitOnError)
	catf := fs.String("catalog", "catalog.json", "catalogue written by Gen_SpinLock")
	in := fs.String("in", "", "directory of behaviours [{sc, sched, pred}]")
	out := fs.String("out", "trace.ndjson", "ndjson trace to write")
	from := fs.Int("from", 0, "first behaviour (index in file order)")
	to := fs.Int("to", -1, "behaviour after the last one (-1: all)")
	maxHangs := fs.Int("maxhangs", 1, "stop after this many runs in which a request never returned (each costs the time-outs)")
	fs.Parse(args)
	w, err := world0(*catf)
	if err != nil {
		return err
	}
	behs, err := fx.LoadBehaviours(*in)
	if err != nil {
		return err
	}
	tw, err := fx.NewTraceWriter(*out)
	if err != nil {
		return err
	}
	defer tw.Close()
	installHooks()
	defer removeHooks()
	if *to < 0 || *to > len(behs) {
		*to = len(behs)
	}
	runs, nsteps, unbound, hangs := 0, 0, 0, 0
	for k := *from; k < *to; k++ {
		if len(behs[k]) != 1 {
			return fmt.Errorf("behaviour %d: expected one record {sc, sched, pred}", k)
		}
		b := behs[k][0]
		sc := strsOf(b["sc"])
		sched := schedOf(b["sched"])
		s, err := newSim(w, fmt.Sprintf("G%d", k), sc)
		if err != nil {
			return fmt.Errorf("behaviour %d: %v", k, err)
		}
		sch := newScheduler(s, sc, k)
		if err := sch.run(sched); err != nil {
			return fmt.Errorf("behaviour %d: %v", k, err)
		}
		res := sch.results()
		ev := fx.Ev{"op": "run", "tr": k, "i": 0, "mode": "gated", "sc": sc, "sched": b["sched"], "pred": b["pred"],
			"steps": stepsJSON(sch.steps), "res": res, "bind": sch.bind, "why": sch.bindWhy, "bal0": s.bal0}
		hung := false
		for _, r := range res {
			if r.C == "hang" {
				hung = true
			}
		}
		if hung {
			hangs++
			ev["obs"] = s.projectAfterHang()
			ev["epi"] = []string{}
			ev["obs2"] = ev["obs"]
		} else {
			ev["obs"] = s.project()
			ev["epi"] = s.epilogue(sc)
			ev["obs2"] = s.project()
		}
		tw.Emit(ev)
		runs++
		nsteps += len(sch.steps)
		if sch.bind >= 0 {
			unbound++
		}
		if !hung {
			s.node.Drop()
		}
		if hangs >= *maxHangs {
			break
		}
	}
	stats(map[string]interface{}{"runs": runs, "steps": nsteps, "unbound": unbound, "hangs": hangs, "sign_tries": w.tries, "lockkeys": w.lockKeysDiffer,
		"truncated": runs < *to-*from})
	return nil
}

// stress: free-running goroutines, no gates. The requests of a run are drawn (seeded) from one family's pool.
func stressMain(args []string) error {
	fs := flag.NewFlagSet("stress", flag.ExitOnError)
	catf := fs.String("catalog", "catalog.json", "catalogue written by Gen_SpinLock")
	out := fs.String("out", "trace.ndjson", "ndjson trace to write")
	nruns := fs.Int("runs", 100, "number of runs")
	procs := fs.Int("procs", 5, "goroutines per run")
	shard := fs.Int("shard", 0, "shard number (enters the seed)")
	maxWalkProcs := fs.Int("maxwalkprocs", 4, "goroutines per run when one of the requests is a walk")
	fs.Parse(args)
	w, err := world0(*catf)
	if err != nil {
		return err
	}
	tw, err := fx.NewTraceWriter(*out)
	if err != nil {
		return err
	}
	defer tw.Close()
	removeHooks()
	rng := rand.New(rand.NewSource(seed()*104729 + int64(*shard)*7907 + 17))
	hangs := 0
	for k := 0; k < *nruns; k++ {
		pool := w.cat.KvPool
		switch rng.Intn(5) {
		case 0, 1:
			pool = w.cat.TokPool
		case 2:
			if len(w.cat.MixPool) > 0 {
				pool = w.cat.MixPool // mixed transactions: the window between VerifyTx and DoTx is hit by chance
			}
		}
		sc := []string{}
		excl := map[string]int{} // at most one play and one walk (they may meet: the walk's recovery beside the play)
		np := *procs
		for len(sc) < np {
			n := pool[rng.Intn(len(pool))]
			if ty := w.cat.Req[n].Ty; exclusive(ty) {
				if excl[ty] > 0 {
					continue
				}
				excl[ty]++
				if ty == "walk" && np > *maxWalkProcs {
					// the one-at-a-time reading of a walk places every re-submission on its own: keep the search small
					np = *maxWalkProcs
					if len(sc) >= np {
						sc = sc[:np-1]
					}
				}
			}
			sc = append(sc, n)
		}
		s, err := newSim(w, fmt.Sprintf("S%d_%d", *shard, k), sc)
		if err != nil {
			return fmt.Errorf("run %d: %v", k, err)
		}
		res := make([]result, len(sc))
		var start, done sync.WaitGroup
		start.Add(1)
		fin := make(chan int, len(sc))
		for i, n := range sc {
			done.Add(1)
			go func(i int, rq catReq) {
				defer done.Done()
				start.Wait()
				r := s.call(rq, nil)
				res[i] = r
				fin <- i
			}(i, w.cat.Req[n])
		}
		start.Done()
		finished := map[int]bool{}
		hung := false
		for len(finished) < len(sc) && !hung {
			select {
			case i := <-fin:
				finished[i] = true
			case <-timeAfter(arriveTimeout):
				hung = true
			}
		}
		out := make([]result, len(sc))
		for i := range sc {
			if finished[i] {
				out[i] = res[i]
			} else {
				out[i] = result{C: "hang", Outs: [][]interface{}{}}
			}
		}
		ev := fx.Ev{"op": "run", "tr": k, "i": 0, "mode": "free", "sc": sc, "steps": [][]interface{}{}, "res": out, "bind": -1, "bal0": s.bal0}
		if hung {
			hangs++
			ev["obs"] = s.projectAfterHang()
			ev["epi"] = []string{}
			ev["obs2"] = ev["obs"]
		} else {
			ev["obs"] = s.project()
			ev["epi"] = s.epilogue(sc)
			ev["obs2"] = s.project()
			s.node.Drop()
		}
		tw.Emit(ev)
		if hangs >= 1 {
			break // the goroutines that hang stay behind: nothing recorded after them would be clean
		}
	}
	stats(map[string]interface{}{"runs": *nruns, "hangs": hangs, "sign_tries": w.tries, "lockkeys": w.lockKeysDiffer})
	return nil
}
