package main

import (
	"bytes"
	"encoding/hex"
	"encoding/json"
	"fmt"
	"io/ioutil"
	"math/big"
	"sort"
	"strconv"
	"strings"
	"time"

	"github.com/golang/protobuf/proto"
	"github.com/xuperchain/xupercore/bcs/ledger/xledger/state"
	"github.com/xuperchain/xupercore/bcs/ledger/xledger/state/utxo"
	"github.com/xuperchain/xupercore/bcs/ledger/xledger/state/utxo/txhash"
	txn "github.com/xuperchain/xupercore/bcs/ledger/xledger/tx"
	pb "github.com/xuperchain/xupercore/bcs/ledger/xledger/xldgpb"
	"github.com/xuperchain/xupercore/protos"

	"verif/harness/fx"
)

// ---------------------------------------------------------------------------------------------
// The catalogue (transactions, requests, families, lock keys) is exported by spec/Gen_SpinLock.tla;
// the Go side has no copy of its own. world = the concretisation shared by all runs of a process:
// the genesis configuration, the real signed transactions, the peer block of the play requests.
// ---------------------------------------------------------------------------------------------

const kvBucket = "vb"
const acctKey = "a" // the key in the account's rule

type catOut struct {
	To  string `json:"to"`
	Amt int64  `json:"amt"`
}
type catTx struct {
	Ins    [][]interface{}   `json:"ins"`
	Outs   []catOut          `json:"outs"`
	Reads  map[string]string `json:"reads"`
	Writes map[string]string `json:"writes"`
}
type catReq struct {
	Ty   string   `json:"ty"`
	T    string   `json:"t"`
	A    string   `json:"a"`
	Need int64    `json:"need"`
	Lk   bool     `json:"lk"`
	B    []string `json:"b"`
}
type catLock struct {
	K string `json:"k"`
	M string `json:"m"`
	R int    `json:"r"`
}
type catalog struct {
	Tx      map[string]catTx  `json:"tx"`
	Genesis []catOut          `json:"genesis"`
	Award   int64             `json:"award"`
	Keys    []string          `json:"keys"`
	Addrs   []string          `json:"addrs"`
	Req     map[string]catReq `json:"req"`
	Fam     map[string]struct {
		Pre []string `json:"pre"`
	} `json:"fam"`
	Lk      map[string][]catLock `json:"lk"`
	Kvnames  []string             `json:"kvnames"`
	Mixnames []string             `json:"mixnames"`
	KvPool   []string             `json:"kvpool"`
	TokPool  []string             `json:"tokpool"`
	MixPool  []string             `json:"mixpool"`
}

func loadCatalog(path string) (*catalog, error) {
	b, err := ioutil.ReadFile(path)
	if err != nil {
		return nil, err
	}
	var arr []catalog
	if err := json.Unmarshal(b, &arr); err == nil && len(arr) == 1 {
		return &arr[0], nil
	}
	var c catalog
	if err := json.Unmarshal(b, &c); err != nil {
		return nil, err
	}
	return &c, nil
}

func (c *catalog) famOf(sc []string) string {
	for _, r := range sc { // SpinLock!FamOf: a mixed transaction among the requests makes the family
		for _, n := range c.Mixnames {
			if n == r {
				return "mix"
			}
		}
	}
	for _, n := range c.Kvnames {
		if n == sc[0] {
			return "kv"
		}
	}
	return "tok"
}

type txRef struct {
	name string
	off  int
}

func (c catTx) refs() []txRef {
	out := []txRef{}
	for _, in := range c.Ins {
		out = append(out, txRef{in[0].(string), int(in[1].(float64))})
	}
	sort.Slice(out, func(i, j int) bool {
		if out[i].name != out[j].name {
			return out[i].name < out[j].name
		}
		return out[i].off < out[j].off
	})
	return out
}

type world struct {
	cat            *catalog
	genesis        []byte
	rootTx         *pb.Transaction
	gFirst         bool
	txs            map[string]*pb.Transaction
	names          map[string]string // hex txid -> abstract name
	order          []string          // token transactions in rank order (raw txid order)
	tries          int
	lockKeysDiffer string
	acctTx         *pb.Transaction // $acl.NewAccount of the account x (block 1 of every node)
}

// acctName is the contract account "x" of the catalogue: created on every node by a real $acl NewAccount
// transaction confirmed in block 1 (rule: key a alone), owner of one genesis output.
const (
	acctAddr = "x"
	acctName = "XC1111111111111111@xuper"
)

func addrOf(name string) string {
	if name == acctAddr {
		return acctName
	}
	return fx.GetKey(name).Address
}

// tokenRank is the order in which the lock keys of token transactions sort in the specification
// (SpinLock!TxRank); the concretiser signs each of them until the raw txids are ordered alike, so that
// ExtractLockKeys (sorted by the raw key string) yields the specification's order.
var tokenRank = []string{"t0", "t1", "t2", "t3", "t4", "t8", "ta", "m1", "m2", "m3", "m4", "m5"}

// kvFirstByte: the raw lock key of a contract key is "<bucket>/<key>"; the transactions with outputs get ids on ONE
// side of it (SpinLock!KvRank): root id < keys < other ids (gFirst), or other ids < keys < root id.
var kvFirstByte = int(kvBucket[0])

func newWorld(cat *catalog, checkKeys bool) (*world, error) {
	pre := map[string]string{}
	order := []string{}
	for _, o := range cat.Genesis {
		pre[o.To] = strconv.FormatInt(o.Amt, 10)
		order = append(order, o.To)
	}
	g := fx.Genesis(fx.GenesisOpts{Predist: pre, PredistList: order, Award: strconv.FormatInt(cat.Award, 10), Window: 0, Miner: "m"})
	// the genesis output of the account is predistributed to the account's name (fx.Genesis knows keys only)
	var gm map[string]interface{}
	if err := json.Unmarshal(g, &gm); err != nil {
		return nil, err
	}
	for _, pd := range gm["predistribution"].([]interface{}) {
		if m := pd.(map[string]interface{}); m["address"] == fx.GetKey(acctAddr).Address {
			m["address"] = acctName
		}
	}
	g, _ = json.Marshal(gm)
	w := &world{cat: cat, genesis: g, txs: map[string]*pb.Transaction{}, names: map[string]string{}}
	rtx, err := txn.GenerateRootTx(g)
	if err != nil {
		return nil, err
	}
	w.rootTx = rtx
	w.txs["g"] = rtx
	w.names[hex.EncodeToString(rtx.Txid)] = "g"
	w.gFirst = int(rtx.Txid[0]) < kvFirstByte
	if int(rtx.Txid[0]) == kvFirstByte {
		return nil, fmt.Errorf("the root transaction's id starts with the byte of the contract bucket: lock key order not modelled")
	}
	for _, n := range tokenRank {
		if _, ok := cat.Tx[n]; !ok {
			return nil, fmt.Errorf("catalogue lacks token transaction %s", n)
		}
		if _, err := w.tx(n); err != nil {
			return nil, err
		}
	}
	names := []string{}
	for n := range cat.Tx {
		names = append(names, n)
	}
	sort.Strings(names)
	for _, n := range names {
		if _, err := w.tx(n); err != nil {
			return nil, err
		}
	}
	if checkKeys {
		// a difference is reported, not fatal: the runs are still judged by their outcomes
		if err := w.checkLockKeys(); err != nil {
			w.lockKeysDiffer = err.Error()
		}
	}
	return w, nil
}

// slot returns the range of first txid bytes allowed for the token transaction of rank i (0-based).
func (w *world) slot(i int) (lo, hi int) {
	n := len(tokenRank)
	if w.gFirst {
		width := (255 - kvFirstByte) / n
		return kvFirstByte + 1 + i*width, kvFirstByte + (i+1)*width
	}
	width := kvFirstByte / n
	return i * width, (i+1)*width - 1
}

func sortedKeys(m map[string]string) []string {
	ks := []string{}
	for k, v := range m {
		if v != "-" {
			ks = append(ks, k)
		}
	}
	sort.Strings(ks)
	return ks
}

func (w *world) outOf(name string, off int) catOut {
	if name == "g" {
		return w.cat.Genesis[off]
	}
	return w.cat.Tx[name].Outs[off]
}

// tx builds (once) the real signed transaction standing for the abstract transaction name.
func (w *world) tx(name string) (*pb.Transaction, error) {
	if t, ok := w.txs[name]; ok {
		return t, nil
	}
	c, ok := w.cat.Tx[name]
	if !ok {
		return nil, fmt.Errorf("transaction %q is not in the catalogue", name)
	}
	rank := -1
	for i, n := range tokenRank {
		if n == name {
			rank = i
		}
	}
	for try := 0; try < 100000; try++ {
		tx, err := w.build(name, c, try)
		if err != nil {
			return nil, err
		}
		w.tries++
		if rank >= 0 {
			lo, hi := w.slot(rank)
			if b := int(tx.Txid[0]); b < lo || b > hi {
				continue
			}
		}
		w.txs[name] = tx
		w.names[hex.EncodeToString(tx.Txid)] = name
		return tx, nil
	}
	return nil, fmt.Errorf("no txid of %s falls into its slot", name)
}

func (w *world) build(name string, c catTx, try int) (*pb.Transaction, error) {
	tx := &pb.Transaction{Version: 3, Nonce: fmt.Sprintf("n-%s-%d", name, try), Timestamp: 1, Desc: []byte(name)}
	signers := []string{}
	byAcct := false
	addSigner := func(a string) {
		for _, x := range signers {
			if x == a {
				return
			}
		}
		signers = append(signers, a)
	}
	for _, r := range c.refs() {
		ref, err := w.tx(r.name)
		if err != nil {
			return nil, err
		}
		o := w.outOf(r.name, r.off)
		tx.TxInputs = append(tx.TxInputs, &protos.TxInput{RefTxid: ref.Txid, RefOffset: int32(r.off),
			FromAddr: []byte(addrOf(o.To)), Amount: big.NewInt(o.Amt).Bytes()})
		if o.To == acctAddr {
			byAcct = true
			addSigner(acctKey) // the account's rule: key a alone; the signature is made for "<account>/<address of a>"
		} else {
			addSigner(o.To)
		}
	}
	for _, o := range c.Outs {
		tx.TxOutputs = append(tx.TxOutputs, &protos.TxOutput{ToAddr: []byte(addrOf(o.To)), Amount: big.NewInt(o.Amt).Bytes()})
	}
	prog := []fx.VOp{}
	for _, k := range sortedKeys(c.Reads) {
		in := &protos.TxInputExt{Bucket: kvBucket, Key: []byte(k)}
		if v := c.Reads[k]; v != "none" {
			ref, err := w.tx(v)
			if err != nil {
				return nil, err
			}
			in.RefTxid = ref.Txid
			off := -1
			for i, o := range ref.TxOutputsExt {
				if string(o.Key) == k {
					off = i
				}
			}
			if off < 0 {
				return nil, fmt.Errorf("catalogue: %s reads %s@%s but %s does not write it", name, k, v, v)
			}
			in.RefOffset = int32(off)
		}
		tx.TxInputsExt = append(tx.TxInputsExt, in)
		prog = append(prog, fx.VOp{"get", kvBucket, k})
	}
	for _, k := range sortedKeys(c.Writes) {
		v := c.Writes[k]
		tx.TxOutputsExt = append(tx.TxOutputsExt, &protos.TxOutputExt{Bucket: kvBucket, Key: []byte(k), Value: []byte(v)})
		prog = append(prog, fx.VOp{"put", kvBucket, k, v})
	}
	if len(prog) > 0 {
		pj, _ := json.Marshal(prog)
		tx.ContractRequests = []*protos.InvokeRequest{{ModuleName: "xkernel", ContractName: fx.VProgName, MethodName: "run",
			Args: map[string][]byte{"prog": pj}}}
	}
	if len(signers) == 0 {
		signers = []string{"a"}
	}
	tx.Initiator = addrOf(signers[0])
	for _, a := range signers {
		if byAcct && a == acctKey {
			tx.AuthRequire = append(tx.AuthRequire, acctName+"/"+addrOf(a))
		} else {
			tx.AuthRequire = append(tx.AuthRequire, addrOf(a))
		}
	}
	for i, a := range signers {
		k := fx.GetKey(a)
		sig, err := txhash.ProcessSignTx(fx.Crypto, tx, []byte(k.PrivStr))
		if err != nil {
			return nil, err
		}
		si := &protos.SignatureInfo{PublicKey: k.PubStr, Sign: sig}
		if i == 0 {
			tx.InitiatorSigns = []*protos.SignatureInfo{si}
		}
		tx.AuthRequireSigns = append(tx.AuthRequireSigns, si)
	}
	var err error
	tx.Txid, err = txhash.MakeTransactionID(tx)
	return tx, err
}

// absKey maps a raw lock key of the spin lock ("<raw txid>_<offset>" or "<bucket>/<key>") to the
// specification's name ("t1_0", "k1").
func (w *world) absKey(raw string) string {
	if strings.HasPrefix(raw, kvBucket+"/") {
		return raw[len(kvBucket)+1:]
	}
	if i := strings.LastIndex(raw, "_"); i > 0 {
		if n, ok := w.names[hex.EncodeToString([]byte(raw[:i]))]; ok {
			return n + raw[i:]
		}
	}
	return "?" + hex.EncodeToString([]byte(raw))
}

// checkLockKeys binds the specification's lock keys (SpinLock!LK) to the real ExtractLockKeys.
func (w *world) checkLockKeys() error {
	sp := utxo.NewSpinLock()
	for name, want := range w.cat.Lk {
		tx := w.txs[name]
		got := sp.ExtractLockKeys(tx)
		if len(got) != len(want) {
			return fmt.Errorf("binding: %s has %d real lock keys, the specification %d", name, len(got), len(want))
		}
		for i, lk := range got {
			s := lk.String() // "<raw key>:S" / ":X"
			raw, mode := s[:len(s)-2], s[len(s)-1:]
			if a := w.absKey(raw); a != want[i].K || mode != want[i].M {
				return fmt.Errorf("binding: lock key %d of %s is %s:%s, the specification says %s:%s", i, name, a, mode, want[i].K, want[i].M)
			}
		}
	}
	return nil
}

func (w *world) txName(txid []byte) string {
	if len(txid) == 0 {
		return "none"
	}
	if n, ok := w.names[hex.EncodeToString(txid)]; ok {
		return n
	}
	return "?" + hex.EncodeToString(txid)[:8]
}

// ---------------------------------------------------------------------------------------------
// one node per run
// ---------------------------------------------------------------------------------------------

type sim struct {
	w       *world
	node    *fx.Node
	base    *pb.InternalBlock // block 1 = [award, account creation]: the tip the requests start on
	blk2    *pb.InternalBlock
	recDone chan struct{} // one token per finished recovery of a walk
	bal0    []int64       // State.GetBalance of every party BEFORE the requests (fills the node's balance cache)
}

func staleErr(err error) bool {
	switch err {
	case utxo.ErrUTXONotFound, utxo.ErrUTXOFrozen, utxo.ErrUnexpected, utxo.ErrUTXODuplicated,
		state.ErrRWSetInvalid, state.ErrUTXODuplicated, state.ErrUnexpected, state.ErrAlreadyInUnconfirmed:
		return true
	}
	return false
}

// submit = Chain.SubmitTx: VerifyTx, then DoTx. between is called between the two (gate of the scheduler).
func (s *sim) submit(name string, between func()) (string, string) {
	t := s.w.txs[name]
	tx := proto.Clone(t).(*pb.Transaction)
	ok, verr := s.node.State.VerifyTx(tx)
	if !ok || verr != nil {
		if staleErr(verr) {
			return "stale", ""
		}
		return "other", fmt.Sprint(verr)
	}
	if between != nil {
		between()
	}
	return s.dotx(tx)
}

func (s *sim) dotx(tx *pb.Transaction) (string, string) {
	err := s.node.State.DoTx(tx)
	switch {
	case err == nil:
		return "admit", ""
	case err == state.ErrDoubleSpent: // only returned when TryLock failed
		return "busy", ""
	case staleErr(err):
		return "stale", ""
	}
	return "other", err.Error()
}

func newSim(w *world, name string, sc []string) (*sim, error) {
	node, err := fx.NewNode(name, w.genesis)
	if err != nil {
		return nil, err
	}
	s := &sim{w: w, node: node, recDone: make(chan struct{}, 16)}
	recDone.Store(s.recDone)
	if err := s.setupAccount(); err != nil {
		return nil, err
	}
	for _, p := range w.cat.Fam[w.cat.famOf(sc)].Pre {
		if c, e := s.submit(p, nil); c != "admit" {
			return nil, fmt.Errorf("prelude transaction %s was not admitted: %s %s", p, c, e)
		}
	}
	s.bal0 = s.balances()
	for _, r := range sc {
		if rq := w.cat.Req[r]; exclusive(rq.Ty) && s.blk2 == nil {
			if err := s.mkBlock(rq.B); err != nil {
				return nil, err
			}
		}
	}
	return s, nil
}

// mkBlock formats the peer block 2 = [award, txs...] on block 1 and confirms it in the ledger.
func (s *sim) mkBlock(names []string) error {
	aw := &pb.Transaction{Version: 3, Coinbase: true, Desc: []byte("aw2"), Timestamp: 1002}
	aw.TxOutputs = []*protos.TxOutput{{ToAddr: []byte(addrOf("m")), Amount: big.NewInt(s.w.cat.Award).Bytes()}}
	aw.Txid, _ = txhash.MakeTransactionID(aw)
	s.w.names[hex.EncodeToString(aw.Txid)] = "aw2"
	list := []*pb.Transaction{aw}
	for _, n := range names {
		list = append(list, proto.Clone(s.w.txs[n]).(*pb.Transaction))
	}
	m := fx.GetKey("m")
	root := s.base
	blk, err := s.node.Ledger.FormatMinerBlock(list, []byte(m.Address), m.Priv, 2, 0, 0, root.Blockid, 0, s.node.State.GetTotal(), nil, nil, root.Height+1)
	if err != nil {
		return err
	}
	pristine := proto.Clone(blk).(*pb.InternalBlock)
	if st := s.node.Ledger.ConfirmBlock(blk, false); !st.Succ {
		return fmt.Errorf("the ledger refused block 2: %v", st.Error)
	}
	s.blk2 = pristine
	return nil
}

type obs struct {
	Utxo  [][]interface{}   `json:"utxo"`
	Ver   map[string]string `json:"ver"`
	Pool  []string          `json:"pool"`
	Total int64             `json:"total"`
	Ptr   int               `json:"ptr"`
	Bal   []int64           `json:"bal"`
	Free  [][]interface{}   `json:"free"` // outputs a selection without locking is offered (not selection-locked)
}

// projectAfterHang: the queries themselves may wait for a lock that a hanging request holds.
func (s *sim) projectAfterHang() obs {
	c := make(chan obs, 1)
	go func() { c <- s.project() }()
	select {
	case o := <-c:
		return o
	case <-time.After(stuckTimeout):
	}
	o := obs{Utxo: [][]interface{}{}, Ver: map[string]string{}, Pool: []string{"err"}, Bal: []int64{}, Free: [][]interface{}{}, Total: -1, Ptr: -1}
	for _, k := range s.w.cat.Keys {
		o.Ver[k] = "err"
	}
	for range s.w.cat.Addrs {
		o.Bal = append(o.Bal, -1)
	}
	return o
}

// balances: State.GetBalance of every party of the catalogue (answered from the node's balance cache once filled).
func (s *sim) balances() []int64 {
	out := []int64{}
	for _, a := range s.w.cat.Addrs {
		b, err := s.node.State.GetBalance(addrOf(a))
		if err != nil || !b.IsInt64() {
			out = append(out, -1)
		} else {
			out = append(out, b.Int64())
		}
	}
	return out
}

// project issues the public queries the property names.
func (s *sim) project() obs {
	st := s.node.State
	o := obs{Utxo: [][]interface{}{}, Ver: map[string]string{}, Pool: []string{}, Bal: []int64{}, Free: [][]interface{}{}}
	switch {
	case bytes.Equal(st.GetLatestBlockid(), s.base.Blockid):
		o.Ptr = 1
	case s.blk2 != nil && bytes.Equal(st.GetLatestBlockid(), s.blk2.Blockid):
		o.Ptr = 2
	default:
		o.Ptr = -1
	}
	o.Total = -1
	if t := st.GetTotal(); t.IsInt64() && st.GetMeta().UtxoTotal == t.String() {
		o.Total = t.Int64()
	}
	o.Bal = s.balances()
	addrName := map[string]string{}
	for _, a := range s.w.cat.Addrs {
		addrName[addrOf(a)] = a
		if ins, _, _, err := st.SelectUtxosBySize(addrOf(a), false, false); err == nil {
			for _, in := range ins {
				o.Free = append(o.Free, []interface{}{s.w.txName(in.RefTxid), int(in.RefOffset)})
			}
		}
	}
	it := st.GetLDB().NewIteratorWithPrefix([]byte(pb.UTXOTablePrefix))
	for it.Next() {
		key := string(it.Key())[len(pb.UTXOTablePrefix):]
		parts := strings.Split(key, "_")
		if len(parts) < 3 {
			continue
		}
		item := &utxo.UtxoItem{}
		if err := item.Loads(it.Value()); err != nil {
			continue
		}
		txid, _ := hex.DecodeString(parts[len(parts)-2])
		off, _ := strconv.Atoi(parts[len(parts)-1])
		name := s.w.txName(txid)
		// owner and amount must be the catalogue's: otherwise the row is reported as foreign
		if an := addrName[strings.Join(parts[:len(parts)-2], "_")]; !s.known(name, off, an, item.Amount) {
			name = "?" + name
		}
		o.Utxo = append(o.Utxo, []interface{}{name, off})
	}
	it.Release()
	rd := st.CreateXMReader()
	for _, k := range s.w.cat.Keys {
		vd, err := rd.Get(kvBucket, []byte(k))
		switch {
		case err != nil:
			o.Ver[k] = "err"
		case vd == nil || len(vd.RefTxid) == 0:
			o.Ver[k] = "none"
		default:
			o.Ver[k] = s.w.txName(vd.RefTxid)
		}
	}
	pending, err := st.GetUnconfirmedTx(false)
	if err != nil {
		o.Pool = append(o.Pool, "err")
	}
	for _, t := range pending {
		o.Pool = append(o.Pool, s.w.txName(t.Txid))
	}
	sort.Strings(o.Pool)
	return o
}

func (s *sim) known(name string, off int, owner string, amt *big.Int) bool {
	var outs []catOut
	switch {
	case name == "g":
		outs = s.w.cat.Genesis
	case name == "aw1" || name == "aw2":
		outs = []catOut{{"m", s.w.cat.Award}}
	default:
		c, ok := s.w.cat.Tx[name]
		if !ok {
			return false
		}
		outs = c.Outs
	}
	return off >= 0 && off < len(outs) && outs[off].To == owner && amt.IsInt64() && amt.Int64() == outs[off].Amt
}
