package main

import (
	"encoding/json"
	"flag"
	"fmt"
	"io/ioutil"
	"path/filepath"
	"sort"
	"strings"
	"sync"

	aclBase "github.com/xuperchain/xupercore/kernel/permission/acl/base"
	aclu "github.com/xuperchain/xupercore/kernel/permission/acl/utils"
	pb "github.com/xuperchain/xupercore/protos"

	"verif/harness/fx"
)

// ---------------------------------------------------------------- universe (written by TLC, Gen_Acl.tla)

// rule is one abstract rule of spec/Acl.tla: kind "N" (none), "T" (threshold, integer weights standing for
// halves), "S" (key sets).
type rule struct {
	Kind string         `json:"kind"`
	Acc  int            `json:"acc"`
	W    map[string]int `json:"w"`
	Sets [][]string     `json:"sets"`
}

type slice struct {
	Sl   int               `json:"sl"`
	Name string            `json:"name"`
	Tgt  string            `json:"tgt"`
	Uris [][]string        `json:"uris"`
	Envs []json.RawMessage `json:"envs"`
	Nms  int               `json:"nms"`
	Max  int               `json:"max"`
}

func loadUniverse(dir string) ([]slice, error) {
	fs, err := filepath.Glob(filepath.Join(dir, "*.json"))
	if err != nil || len(fs) == 0 {
		return nil, fmt.Errorf("no universe file in %s (%v)", dir, err)
	}
	b, err := ioutil.ReadFile(fs[0])
	if err != nil {
		return nil, err
	}
	var u []slice
	if err := json.Unmarshal(b, &u); err != nil {
		return nil, err
	}
	return u, nil
}

// multisets enumerates all non-decreasing index sequences over 1..n of length 0..max in the canonical
// order of Acl!Enum: a prefix before its extensions, extensions by increasing next entry.
func multisets(n, max int) [][]int {
	out := [][]int{}
	var rec func(prefix []int)
	rec = func(prefix []int) {
		out = append(out, append([]int{}, prefix...))
		if len(prefix) == max {
			return
		}
		lo := 1
		if len(prefix) > 0 {
			lo = prefix[len(prefix)-1]
		}
		for u := lo; u <= n; u++ {
			rec(append(prefix, u))
		}
	}
	rec(nil)
	return out
}

// ---------------------------------------------------------------- concretiser

const (
	ctrName    = "c11ctr" // the contract whose method rule is evaluated
	methodName = "act"
	ghostMeth  = "noacl" // a method that never gets a rule (abstract rule "N" of M)
)

// names maps abstract names to real ones, seeded by VERIF_SEED: keys are real addresses of deterministic
// key pairs, accounts are well-formed account names of the fixture chain. An abstract account whose rule is
// "N" in an environment is mapped to a name that is never created (ghost), because a created account cannot
// be removed from a real chain.
type names struct {
	key   map[string]*fx.Key
	acct  map[string]string
	ghost map[string]string
	// axLike: when set ("A1" / "A2"), the unknown account AX is spelled as that account's full name followed by one more
	// character (an account of a chain whose name extends this chain's name): still another, unknown account
	axLike string
}

func newNames(sd int64) *names {
	n := &names{key: map[string]*fx.Key{}, acct: map[string]string{}, ghost: map[string]string{}}
	for _, k := range []string{"K1", "K2", "K3"} {
		n.key[k] = fx.GetKey(fmt.Sprintf("c11/%d/%s", sd, k))
	}
	for i, a := range []string{"A1", "A2", "A3", "AX"} {
		d := int((sd+int64(i)*3)%9) + 1
		n.acct[a] = fmt.Sprintf("XC%d%d%014d@%s", i+1, d, sd%1000, fx.BCName)
		n.ghost[a] = fmt.Sprintf("XC%d%d%014d@%s", i+5, d, sd%1000+7, fx.BCName)
	}
	return n
}

// of returns the real name of an abstract name under environment env.
func (n *names) of(env map[string]rule, a string) string {
	if k, ok := n.key[a]; ok {
		return k.Address
	}
	if a == "AX" {
		if n.axLike != "" {
			return n.acct[n.axLike] + "2"
		}
		return n.ghost[a]
	}
	if r, ok := env[a]; ok && r.Kind == "N" {
		return n.ghost[a]
	}
	if c, ok := n.acct[a]; ok {
		return c
	}
	return a
}

// toACL renders an abstract rule as the protobuf ACL. listZero: members of weight 0 are listed with weight
// 0 (true) or left out of the rule (false) - the code treats both alike.
func (n *names) toACL(env map[string]rule, r rule, listZero bool) *pb.Acl {
	switch r.Kind {
	case "T":
		a := &pb.Acl{Pm: &pb.PermissionModel{Rule: pb.PermissionRule_SIGN_THRESHOLD, AcceptValue: float64(r.Acc) / 2},
			AksWeight: map[string]float64{}}
		for m, w := range r.W {
			if w == 0 && !listZero {
				continue
			}
			a.AksWeight[n.of(env, m)] = float64(w) / 2
		}
		return a
	case "S":
		a := &pb.Acl{Pm: &pb.PermissionModel{Rule: pb.PermissionRule_SIGN_AKSET}, AkSets: &pb.AkSets{Sets: map[string]*pb.AkSet{}}}
		for i, s := range r.Sets {
			set := &pb.AkSet{}
			for _, m := range s {
				set.Aks = append(set.Aks, n.of(env, m))
			}
			a.AkSets.Sets[fmt.Sprint(i+1)] = set
		}
		return a
	}
	return nil
}

func (n *names) uri(env map[string]rule, path []string) string {
	parts := make([]string, len(path))
	for i, p := range path {
		parts[i] = n.of(env, p)
	}
	return strings.Join(parts, "/")
}

// ---------------------------------------------------------------- stub manager (quick binding)

// stubMgr implements base.AclManager and answers with the rules of the environment under test.
type stubMgr struct {
	acct   map[string]*pb.Acl
	method map[string]*pb.Acl
}

func (s *stubMgr) GetAccountACL(name string) (*pb.Acl, error) { return s.acct[name], nil }
func (s *stubMgr) GetContractMethodACL(c, m string) (*pb.Acl, error) {
	return s.method[c+"\x01"+m], nil
}
func (s *stubMgr) GetAccountAddresses(string) ([]string, error) { return nil, nil }

func (n *names) stubFor(env map[string]rule, listZero bool) *stubMgr {
	s := &stubMgr{acct: map[string]*pb.Acl{}, method: map[string]*pb.Acl{}}
	for a, r := range env {
		if r.Kind == "N" {
			continue
		}
		if a == "M" {
			s.method[ctrName+"\x01"+methodName] = n.toACL(env, r, listZero)
		} else {
			s.acct[n.of(env, a)] = n.toACL(env, r, listZero)
		}
	}
	return s
}

// ---------------------------------------------------------------- evaluation on the real code

type evalStats struct {
	mu     sync.Mutex
	Pairs  int `json:"pairs"`
	Accept int `json:"accepted"`
	Reject int `json:"rejected"`
	Errors int `json:"errors"`
}

// verdict calls the real evaluation: IdentifyAccount for an account target, CheckContractMethodPerm for
// the method target. 1 = accepted, 0 = not accepted (with or without error).
func verdict(mgr aclBase.AclManager, n *names, env map[string]rule, tgt string, uris []string, st *evalStats) int {
	var ok bool
	var err error
	if tgt == "M" {
		m := methodName
		if env["M"].Kind == "N" {
			m = ghostMeth
		}
		ok, err = aclu.CheckContractMethodPerm(mgr, uris, ctrName, m)
	} else {
		ok, err = aclu.IdentifyAccount(mgr, n.of(env, tgt), uris)
	}
	st.mu.Lock()
	st.Pairs++
	if err != nil {
		st.Errors++
	}
	if ok {
		st.Accept++
	} else {
		st.Reject++
	}
	st.mu.Unlock()
	if ok {
		return 1
	}
	return 0
}

// column evaluates every multiset of the slice; order: "canon" (as enumerated), "rev" (URI list reversed).
func column(mgr aclBase.AclManager, n *names, env map[string]rule, sl *slice, ms [][]int, order string, st *evalStats, par int) []int {
	out := make([]int, len(ms))
	curis := make([]string, len(sl.Uris))
	for i, p := range sl.Uris {
		curis[i] = n.uri(env, p)
	}
	work := func(lo, hi int) {
		for k := lo; k < hi; k++ {
			uris := make([]string, len(ms[k]))
			for j, u := range ms[k] {
				if order == "rev" {
					uris[len(ms[k])-1-j] = curis[u-1]
				} else {
					uris[j] = curis[u-1]
				}
			}
			out[k] = verdict(mgr, n, env, sl.Tgt, uris, st)
		}
	}
	if par <= 1 {
		work(0, len(ms))
		return out
	}
	var wg sync.WaitGroup
	step := (len(ms) + par - 1) / par
	for lo := 0; lo < len(ms); lo += step {
		hi := lo + step
		if hi > len(ms) {
			hi = len(ms)
		}
		wg.Add(1)
		go func(lo, hi int) { defer wg.Done(); work(lo, hi) }(lo, hi)
	}
	wg.Wait()
	return out
}

type colLine struct {
	Tr   int             `json:"tr"`
	I    int             `json:"i"`
	Op   string          `json:"op"`
	Sl   int             `json:"sl"`
	E    int             `json:"e"`
	Env  json.RawMessage `json:"env"`
	Srcs []string        `json:"srcs"`
	Cols [][]int         `json:"cols"`
}

// evalCmd: every (environment, multiset) pair of the universe on the real code. One ndjson line per
// (slice, environment): the verdict columns over all multisets in canonical order, one column per source
// ("stub", "stub_rev", with -chain also "chain": the real acl.Manager over rules installed on a real chain).
func evalCmd(args []string) error {
	fs := flag.NewFlagSet("eval", flag.ExitOnError)
	in := fs.String("in", "", "directory with the universe file written by Gen_Acl")
	out := fs.String("out", "", "ndjson trace to write")
	useChain := fs.Bool("chain", false, "additionally install every environment on a real chain through the $acl kernel contract")
	par := fs.Int("par", 8, "goroutines evaluating one column")
	only := fs.String("only", "", "evaluate only environment SL:E (replay of one case column)")
	fs.Parse(args)
	u, err := loadUniverse(*in)
	if err != nil {
		return err
	}
	tw, err := fx.NewTraceWriter(*out)
	if err != nil {
		return err
	}
	defer tw.Close()
	sd := seed()
	n := newNames(sd)
	st := &evalStats{}
	var ch *aclChain
	if *useChain {
		if ch, err = newACLChain(fmt.Sprintf("c11eval%d", sd), n); err != nil {
			return err
		}
	}
	lines, chainEnvs, chainSkipped := 0, 0, 0
	for si := range u {
		sl := &u[si]
		ms := multisets(len(sl.Uris), sl.Max)
		if len(ms) != sl.Nms {
			return fmt.Errorf("slice %s: %d multisets enumerated, the specification has %d", sl.Name, len(ms), sl.Nms)
		}
		for ei, raw := range sl.Envs {
			if *only != "" && *only != fmt.Sprintf("%d:%d", sl.Sl, ei+1) {
				continue
			}
			var env map[string]rule
			if err := json.Unmarshal(raw, &env); err != nil {
				return err
			}
			line := colLine{Tr: sl.Sl, I: ei + 1, Op: "column", Sl: sl.Sl, E: ei + 1, Env: raw}
			// weight-0 members are listed or left out depending on seed and index
			listZero := (int(sd)+ei)%2 == 0
			line.Srcs = append(line.Srcs, "stub")
			line.Cols = append(line.Cols, column(n.stubFor(env, listZero), n, env, sl, ms, "canon", st, *par))
			line.Srcs = append(line.Srcs, "stub_rev")
			n.axLike = []string{"A1", "A2"}[ei%2]
			line.Cols = append(line.Cols, column(n.stubFor(env, !listZero), n, env, sl, ms, "rev", st, *par))
			n.axLike = ""
			if ch != nil {
				ok, err := ch.install(env)
				if err != nil {
					return fmt.Errorf("slice %s env %d: %v", sl.Name, ei+1, err)
				}
				if ok {
					chainEnvs++
					line.Srcs = append(line.Srcs, "chain")
					line.Cols = append(line.Cols, column(ch.node.Acl, n, env, sl, ms, "canon", st, *par))
				} else {
					chainSkipped++
				}
			}
			tw.Emit(line)
			lines++
		}
	}
	stats := map[string]interface{}{"lines": lines, "pairs": st.Pairs, "accepted": st.Accept, "rejected": st.Reject,
		"errors": st.Errors, "chain_envs": chainEnvs, "chain_envs_not_installable": chainSkipped}
	if ch != nil {
		stats["chain_height"] = ch.height()
	}
	b, _ := json.Marshal(stats)
	fmt.Println(string(b))
	return nil
}

func sortedKeys(m map[string]rule) []string {
	ks := []string{}
	for k := range m {
		ks = append(ks, k)
	}
	sort.Strings(ks)
	return ks
}
