package main

import (
	"encoding/json"
	"flag"
	"fmt"
	"math/big"

	"github.com/xuperchain/xupercore/bcs/ledger/xledger/state/utxo/txhash"
	pb "github.com/xuperchain/xupercore/bcs/ledger/xledger/xldgpb"
	"github.com/xuperchain/xupercore/kernel/contract"
	aclu "github.com/xuperchain/xupercore/kernel/permission/acl/utils"
	"github.com/xuperchain/xupercore/protos"

	"verif/harness/fx"
)

// hist: replay behaviours of spec/AclHist.tla as REAL transactions. Every new / set / bind / setm / call
// operation is pre-executed in a sandbox over the live state (pool included), assembled into a signed
// version-3 transaction and handed to State.VerifyTx; an admitted transaction is applied with State.DoTx
// (it stays in the pool until a "mine" operation confirms it in a block). After every step the rule tables
// are projected twice: as acl.Manager answers (tip snapshot = confirmed chain) and as the live reader
// answers (confirmed + pool).

const (
	appName  = "$c11app"  // a kernel contract registered by this driver: "bind" and "act"
	app2Name = "$c11app2" // a second one, bound to account A2 from the start
	appMeth  = "act"
)

type histSim struct {
	node *fx.Node
	n    *names
	seq  int64
}

func ruleEnv() map[string]rule { return map[string]rule{} }

// ruleACL: abstract rule r in 1..3 = "key Kr alone" (weight 1, accept 1).
func (h *histSim) ruleACL(r int) []byte {
	k := h.n.key[fmt.Sprintf("K%d", r)]
	return aclJSON(&protos.Acl{Pm: &protos.PermissionModel{Rule: protos.PermissionRule_SIGN_THRESHOLD, AcceptValue: 1},
		AksWeight: map[string]float64{k.Address: 1}})
}

func (h *histSim) ruleID(a *protos.Acl) int {
	if a == nil {
		return 0
	}
	for r := 1; r <= 3; r++ {
		if w, ok := a.AksWeight[h.n.key[fmt.Sprintf("K%d", r)].Address]; ok && w == 1 && len(a.AksWeight) == 1 && a.Pm != nil && a.Pm.AcceptValue == 1 {
			return r
		}
	}
	return -1
}

func newHistSim(name string, n *names) (*histSim, error) {
	node, err := newNode(name)
	if err != nil {
		return nil, err
	}
	h := &histSim{node: node, n: n}
	reg := node.Contract.GetKernRegistry()
	// bind: writes the contract -> account mapping the way a deployment does
	for _, an := range []string{appName, app2Name} {
		an := an
		reg.RegisterKernMethod(an, "bind", func(ctx contract.KContext) (*contract.Response, error) {
			if err := ctx.Put(aclu.GetContract2AccountBucket(), []byte(an), ctx.Args()["account"]); err != nil {
				return nil, err
			}
			return &contract.Response{Status: 200, Message: "ok"}, nil
		})
		reg.RegisterKernMethod(an, appMeth, func(ctx contract.KContext) (*contract.Response, error) {
			return &contract.Response{Status: 200, Message: "ok"}, nil
		})
	}
	// fund both account names (a name can hold funds before the account exists) and confirm the transfers
	bank := fx.GetKey("c11/bank")
	for _, a := range []string{"A1", "A2"} {
		if err := h.transfer(bank, bank.Address, nil, bank.Address, h.acct(a), 1000); err != nil {
			return nil, fmt.Errorf("funding: %v", err)
		}
	}
	// the second contract belongs to A2 from the start (A2 has no rule yet: nothing to satisfy)
	if res, why, err := h.submit(bank, bank.Address, call{app2Name, "bind", map[string][]byte{"account": []byte(h.acct("A2"))}}); err != nil || res != "accept" {
		return nil, fmt.Errorf("binding the second contract: %s %s %v", res, why, err)
	}
	h.seq++
	if err := mine(node, fx.GetKey("m"), h.seq); err != nil {
		return nil, err
	}
	return h, nil
}

// transferTx builds a signed plain transfer of amount from `from` (an address or an account name).
func (h *histSim) transferTx(signer *fx.Key, authURI string, from, to string, amount int64) (*pb.Transaction, error) {
	ins, _, total, err := h.node.State.SelectUtxos(from, big.NewInt(amount), false, false)
	if err != nil {
		return nil, err
	}
	h.seq++
	tx := &pb.Transaction{Version: 3, Nonce: fmt.Sprintf("c11-t-%d", h.seq), Timestamp: h.seq, Initiator: signer.Address, AuthRequire: []string{authURI}}
	tx.TxInputs = ins
	tx.TxOutputs = []*protos.TxOutput{{ToAddr: []byte(to), Amount: big.NewInt(amount).Bytes()}}
	if rest := new(big.Int).Sub(total, big.NewInt(amount)); rest.Sign() > 0 {
		tx.TxOutputs = append(tx.TxOutputs, &protos.TxOutput{ToAddr: []byte(from), Amount: rest.Bytes()})
	}
	sig, err := txhash.ProcessSignTx(fx.Crypto, tx, []byte(signer.PrivStr))
	if err != nil {
		return nil, err
	}
	tx.InitiatorSigns = []*protos.SignatureInfo{{PublicKey: signer.PubStr, Sign: sig}}
	tx.AuthRequireSigns = []*protos.SignatureInfo{{PublicKey: signer.PubStr, Sign: sig}}
	tx.Txid, err = txhash.MakeTransactionID(tx)
	return tx, err
}

// transfer (setup only): build, verify, apply.
func (h *histSim) transfer(signer *fx.Key, authURI string, _ []string, from, to string, amount int64) error {
	tx, err := h.transferTx(signer, authURI, from, to, amount)
	if err != nil {
		return err
	}
	if ok, err := h.node.State.VerifyTx(tx); !ok || err != nil {
		return fmt.Errorf("VerifyTx: %v %v", ok, err)
	}
	return h.node.State.DoTx(tx)
}

func (h *histSim) acct(a string) string { return h.n.acct[a] }

func (h *histSim) uri(a string, k, via int) string {
	s := h.acct(a)
	if via != 0 {
		s += "/" + h.n.key[fmt.Sprintf("K%d", via)].Address
	}
	return s + "/" + h.n.key[fmt.Sprintf("K%d", k)].Address
}

// submit: pre-execute, build, VerifyTx, DoTx. Result class: "pre_fail" (the contract refuses: no
// transaction exists), "reject" (VerifyTx refuses), "accept" (verified and applied to the pool).
func (h *histSim) submit(signer *fx.Key, authURI string, cs ...call) (string, string, error) {
	auth := []string{authURI}
	reqs, rw, err := preExec(h.node, signer.Address, auth, cs)
	if err != nil {
		return "pre_fail", err.Error(), nil
	}
	h.seq++
	tx, err := buildTx(fmt.Sprintf("c11-h-%d", h.seq), h.seq, signer, []authEntry{{authURI, signer}}, reqs, rw)
	if err != nil {
		return "", "", err
	}
	ok, verr := h.node.State.VerifyTx(tx)
	if !ok || verr != nil {
		return "reject", fmt.Sprint(verr), nil
	}
	if err := h.node.State.DoTx(tx); err != nil {
		return "", "", fmt.Errorf("DoTx of a verified transaction: %v", err)
	}
	return "accept", "", nil
}

func (h *histSim) step(op fx.Ev) (string, string, error) {
	key := func(f string) *fx.Key { return h.n.key[fmt.Sprintf("K%d", op.Int(f))] }
	switch op.Str("op") {
	case "new":
		k := key("k")
		return h.submit(k, k.Address, call{"$acl", "NewAccount", map[string][]byte{
			"account_name": []byte(rawAccount(h.acct(op.Str("a")))), "acl": h.ruleACL(op.Int("r"))}})
	case "set":
		return h.submit(key("k"), h.uri(op.Str("a"), op.Int("k"), op.Int("via")), call{"$acl", "SetAccountAcl", map[string][]byte{
			"account_name": []byte(h.acct(op.Str("a"))), "acl": h.ruleACL(op.Int("r"))}})
	case "bind":
		return h.submit(key("k"), h.uri("A1", op.Int("k"), 0), call{appName, "bind", map[string][]byte{"account": []byte(h.acct("A1"))}})
	case "setm":
		return h.submit(key("k"), h.uri("A1", op.Int("k"), op.Int("via")), call{"$acl", "SetMethodAcl", map[string][]byte{
			"contract_name": []byte(appName), "method_name": []byte(appMeth), "acl": h.ruleACL(op.Int("r"))}})
	case "setm2": // one transaction, two SetMethodAcl requests: the contract of A1 and the contract of A2
		c1 := call{"$acl", "SetMethodAcl", map[string][]byte{"contract_name": []byte(appName), "method_name": []byte(appMeth), "acl": h.ruleACL(op.Int("r"))}}
		c2 := call{"$acl", "SetMethodAcl", map[string][]byte{"contract_name": []byte(app2Name), "method_name": []byte(appMeth), "acl": h.ruleACL(op.Int("r"))}}
		if op.Int("ord") == 2 {
			c1, c2 = c2, c1
		}
		return h.submit(key("k"), h.uri("A1", op.Int("k"), op.Int("via")), c1, c2)
	case "call":
		k := key("k")
		return h.submit(k, k.Address, call{appName, appMeth, map[string][]byte{}})
	case "spend":
		// one unit out of the account's funds to the signer, AuthRequire = [account/(Kvia/)Kk]
		k := key("k")
		tx, err := h.transferTx(k, h.uri(op.Str("a"), op.Int("k"), op.Int("via")), h.acct(op.Str("a")), k.Address, 1)
		if err != nil {
			return "", "", fmt.Errorf("building the transfer: %v", err)
		}
		ok, verr := h.node.State.VerifyTx(tx)
		if !ok || verr != nil {
			return "reject", fmt.Sprint(verr), nil
		}
		if err := h.node.State.DoTx(tx); err != nil {
			return "", "", fmt.Errorf("DoTx of a verified transfer: %v", err)
		}
		return "accept", "", nil
	case "mine":
		h.seq++
		if err := mine(h.node, fx.GetKey("m"), h.seq); err != nil {
			return "", "", err
		}
		return "ok", "", nil
	}
	return "", "", fmt.Errorf("unknown op %q", op.Str("op"))
}

// obs: the projection AclHist!Obs - confirmed rules through the real acl.Manager, pending rules through
// the live reader, the state of the contract -> account binding.
func (h *histSim) obs() (map[string]interface{}, error) {
	conf, pend := map[string]int{}, map[string]int{}
	rd := h.node.State.CreateXMReader()
	liveACL := func(bucket, key string) (*protos.Acl, []byte, error) {
		vd, err := rd.Get(bucket, []byte(key))
		if err != nil {
			return nil, nil, err
		}
		if vd == nil || vd.PureData == nil || len(vd.PureData.Value) == 0 {
			return nil, nil, nil
		}
		a := &protos.Acl{}
		if err := json.Unmarshal(vd.PureData.Value, a); err != nil {
			return nil, nil, err
		}
		return a, vd.RefTxid, nil
	}
	for _, a := range []string{"A1", "A2"} {
		c, err := h.node.Acl.GetAccountACL(h.acct(a))
		if err != nil {
			return nil, err
		}
		conf[a] = h.ruleID(c)
		p, _, err := liveACL(aclu.GetAccountBucket(), h.acct(a))
		if err != nil {
			return nil, err
		}
		pend[a] = h.ruleID(p)
	}
	mc, err := h.node.Acl.GetContractMethodACL(appName, appMeth)
	if err != nil {
		return nil, err
	}
	mp, _, err := liveACL(aclu.GetContractBucket(), aclu.MakeContractMethodKey(appName, appMeth))
	if err != nil {
		return nil, err
	}
	m2c, err := h.node.Acl.GetContractMethodACL(app2Name, appMeth)
	if err != nil {
		return nil, err
	}
	m2p, _, err := liveACL(aclu.GetContractBucket(), aclu.MakeContractMethodKey(app2Name, appMeth))
	if err != nil {
		return nil, err
	}
	own := "none"
	vd, err := rd.Get(aclu.GetContract2AccountBucket(), []byte(appName))
	if err != nil {
		return nil, err
	}
	if vd != nil && vd.PureData != nil && len(vd.PureData.Value) > 0 {
		own = "pending"
		if ok, _ := h.node.Ledger.HasTransaction(vd.RefTxid); ok {
			own = "confirmed"
		}
	}
	return map[string]interface{}{"conf": conf, "pend": pend, "mconf": h.ruleID(mc), "mpend": h.ruleID(mp),
		"m2conf": h.ruleID(m2c), "m2pend": h.ruleID(m2p), "own": own}, nil
}

func histCmd(args []string) error {
	fs := flag.NewFlagSet("hist", flag.ExitOnError)
	in := fs.String("in", "", "directory with behaviours b_*.json")
	out := fs.String("out", "", "ndjson trace to write")
	fs.Parse(args)
	behs, err := fx.LoadBehaviours(*in)
	if err != nil {
		return err
	}
	tw, err := fx.NewTraceWriter(*out)
	if err != nil {
		return err
	}
	defer tw.Close()
	n := newNames(seed())
	cnt := map[string]int{}
	reasons := map[string]int{}
	for bi, beh := range behs {
		tw.Emit(map[string]interface{}{"op": "reset", "tr": bi})
		h, err := newHistSim(fmt.Sprintf("c11h%d", bi), n)
		if err != nil {
			return err
		}
		for i, op := range beh {
			res, why, err := h.step(op)
			if err != nil {
				return fmt.Errorf("behaviour %d step %d (%v): %v", bi, i, op, err)
			}
			o, err := h.obs()
			if err != nil {
				return fmt.Errorf("behaviour %d step %d projection: %v", bi, i, err)
			}
			ev := map[string]interface{}{"tr": bi, "i": i, "res": res, "obs": o}
			for k, v := range op {
				if k != "res" {
					ev[k] = v
				}
			}
			tw.Emit(ev)
			cnt[op.Str("op")+"_"+res]++
			if why != "" && len(reasons) < 40 {
				reasons[op.Str("op")+": "+why]++
			}
		}
		h.node.Drop()
	}
	b, _ := json.Marshal(map[string]interface{}{"behaviours": len(behs), "events": tw.N, "classes": cnt, "refusal_texts": reasons})
	fmt.Println(string(b))
	return nil
}
