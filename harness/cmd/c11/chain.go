package main

import (
	"bytes"
	"encoding/json"
	"fmt"
	"io/ioutil"
	"os"
	"path/filepath"
	"strings"

	"github.com/xuperchain/xupercore/bcs/ledger/xledger/state/utxo/txhash"
	"github.com/xuperchain/xupercore/bcs/ledger/xledger/state/xmodel"
	txn "github.com/xuperchain/xupercore/bcs/ledger/xledger/tx"
	pb "github.com/xuperchain/xupercore/bcs/ledger/xledger/xldgpb"
	"github.com/xuperchain/xupercore/kernel/contract"
	"github.com/xuperchain/xupercore/protos"

	"verif/harness/fx"
)

// aclChain is one fixture node (real ledger, state machine, contract manager with the kernel contracts,
// real acl.Manager reading through the tip snapshot) driven like a single-miner node. Rules are written by
// invoking the $acl kernel contract (NewAccount / SetAccountAcl / SetMethodAcl) in a sandbox over the live
// state; the resulting read/write set becomes a real signed transaction that is applied with State.DoTx and
// confirmed by a block (FormatMinerBlock, Ledger.ConfirmBlock, State.PlayForMiner) - so the rules the
// evaluation reads are rules "in force on the confirmed chain".
type aclChain struct {
	node    *fx.Node
	n       *names
	miner   *fx.Key
	seq     int64
	created map[string]bool   // real account name -> created on this chain
	current map[string]string // real account name / method key -> acl JSON currently in force
}

func newNode(name string) (*fx.Node, error) {
	g := fx.Genesis(fx.GenesisOpts{Predist: map[string]string{"c11/bank": "1000000"}, NoFee: true, Award: "0", Miner: "m"})
	conf := filepath.Join(fx.DataPrefix(name), "conf")
	if err := os.MkdirAll(conf, 0o755); err != nil {
		return nil, err
	}
	if err := ioutil.WriteFile(filepath.Join(conf, "contract.yaml"), []byte(
		"enableUpgrade: false\nwasm:\n  enable: false\nnative:\n  enable: false\nevm:\n  enable: false\nxkernel:\n  enable: true\n  driver: default\n"), 0o644); err != nil {
		return nil, err
	}
	return fx.NewNode(name, g)
}

func newACLChain(name string, n *names) (*aclChain, error) {
	node, err := newNode(name)
	if err != nil {
		return nil, err
	}
	return &aclChain{node: node, n: n, miner: fx.GetKey("m"), created: map[string]bool{}, current: map[string]string{}}, nil
}

type call struct {
	contract, method string
	args             map[string][]byte
}

// preExec runs kernel-contract calls one after the other in ONE sandbox over the live state (pool
// included) and returns the requests with the resources used and the read/write set.
func preExec(node *fx.Node, initiator string, auth []string, calls []call) ([]*protos.InvokeRequest, *contract.RWSet, error) {
	mg := node.Contract
	sb, err := mg.NewStateSandbox(&contract.SandboxConfig{XMReader: node.State.CreateXMReader(), UTXOReader: node.State.CreateUtxoReader()})
	if err != nil {
		return nil, nil, err
	}
	reqs := []*protos.InvokeRequest{}
	for _, c := range calls {
		ctx, err := mg.NewContext(&contract.ContextConfig{State: sb, Initiator: initiator, AuthRequire: auth,
			Module: "xkernel", ContractName: c.contract, ResourceLimits: contract.MaxLimits})
		if err != nil {
			return nil, nil, err
		}
		resp, err := ctx.Invoke(c.method, c.args)
		used := ctx.ResourceUsed()
		ctx.Release()
		if err != nil {
			return nil, nil, err
		}
		if resp.Status >= contract.StatusErrorThreshold {
			return nil, nil, fmt.Errorf("status %d: %s", resp.Status, resp.Message)
		}
		reqs = append(reqs, &protos.InvokeRequest{ModuleName: "xkernel", ContractName: c.contract, MethodName: c.method,
			Args: c.args, ResourceLimits: contract.ToPbLimits(used)})
	}
	if err := sb.Flush(); err != nil {
		return nil, nil, err
	}
	return reqs, sb.RWSet(), nil
}

// signer of one AuthRequire entry: the URI as written and the key that really signs (nil: a signature made
// for another transaction is attached).
type authEntry struct {
	uri string
	key *fx.Key
}

// buildTx assembles and signs a version-3 transaction carrying contract requests and their read/write set.
func buildTx(nonce string, ts int64, initiator *fx.Key, auth []authEntry, reqs []*protos.InvokeRequest, rw *contract.RWSet) (*pb.Transaction, error) {
	tx := &pb.Transaction{Version: 3, Nonce: nonce, Timestamp: ts, Initiator: initiator.Address}
	for _, a := range auth {
		tx.AuthRequire = append(tx.AuthRequire, a.uri)
	}
	tx.ContractRequests = reqs
	if rw != nil {
		tx.TxInputsExt = xmodel.GetTxInputs(rw.RSet)
		tx.TxOutputsExt = xmodel.GetTxOutputs(rw.WSet)
	}
	sign := func(k *fx.Key) (*protos.SignatureInfo, error) {
		sig, err := txhash.ProcessSignTx(fx.Crypto, tx, []byte(k.PrivStr))
		if err != nil {
			return nil, err
		}
		return &protos.SignatureInfo{PublicKey: k.PubStr, Sign: sig}, nil
	}
	si, err := sign(initiator)
	if err != nil {
		return nil, err
	}
	tx.InitiatorSigns = []*protos.SignatureInfo{si}
	for _, a := range auth {
		s, err := sign(a.key)
		if err != nil {
			return nil, err
		}
		tx.AuthRequireSigns = append(tx.AuthRequireSigns, s)
	}
	tx.Txid, err = txhash.MakeTransactionID(tx)
	return tx, err
}

// mine packs the pool into the next block (award tx, timer tx of that height if it writes anything,
// unconfirmed transactions), confirms it on the ledger and plays it.
func mine(node *fx.Node, miner *fx.Key, seq int64) error {
	st, l := node.State, node.Ledger
	height := l.GetMeta().TrunkHeight + 1
	auto, err := st.GetTimerTx(height)
	if err != nil {
		return fmt.Errorf("GetTimerTx(%d): %v", height, err)
	}
	unconf, err := st.GetUnconfirmedTx(false)
	if err != nil {
		return err
	}
	aw, err := txn.GenerateAwardTx(miner.Address, "0", []byte(fmt.Sprintf("award-%d", seq)))
	if err != nil {
		return err
	}
	list := []*pb.Transaction{aw}
	if auto != nil && len(auto.TxOutputsExt) > 0 {
		list = append(list, auto)
	}
	list = append(list, unconf...)
	blk, err := l.FormatMinerBlock(list, []byte(miner.Address), miner.Priv, seq, 0, 0, st.GetLatestBlockid(), 0, st.GetTotal(), nil, nil, height)
	if err != nil {
		return err
	}
	if cs := l.ConfirmBlock(blk, false); !cs.Succ {
		return fmt.Errorf("ConfirmBlock: %v", cs.Error)
	}
	if err := st.PlayForMiner(blk.Blockid); err != nil {
		return fmt.Errorf("PlayForMiner: %v", err)
	}
	return nil
}

func (c *aclChain) height() int { return int(c.node.Ledger.GetMeta().TrunkHeight) }

func aclJSON(a *protos.Acl) []byte {
	b, err := json.Marshal(a)
	if err != nil {
		panic(err)
	}
	return b
}

func rawAccount(full string) string {
	s := strings.TrimPrefix(full, "XC")
	if i := strings.Index(s, "@"); i >= 0 {
		s = s[:i]
	}
	return s
}

// install makes the rules of env the rules in force on the confirmed chain: one transaction with one $acl
// call per rule that differs from the one in force, confirmed by one block. Returns false if the $acl
// contract itself refuses a rule of env (validACL: a key-set rule without sets, a threshold rule without
// weight table) - such environments exist only for the stub manager.
func (c *aclChain) install(env map[string]rule) (bool, error) {
	calls := []call{}
	next := map[string]string{}
	for _, a := range sortedKeys(env) {
		r := env[a]
		if r.Kind == "N" {
			continue
		}
		if r.Kind == "S" && len(r.Sets) == 0 {
			return false, nil
		}
		acl := aclJSON(c.n.toACL(env, r, true))
		if a == "M" {
			key := ctrName + "\x01" + methodName
			if c.current[key] != string(acl) {
				calls = append(calls, call{"$acl", "SetMethodAcl", map[string][]byte{"contract_name": []byte(ctrName), "method_name": []byte(methodName), "acl": acl}})
				next[key] = string(acl)
			}
			continue
		}
		full := c.n.acct[a]
		if c.current[full] == string(acl) {
			continue
		}
		if !c.created[full] {
			calls = append(calls, call{"$acl", "NewAccount", map[string][]byte{"account_name": []byte(rawAccount(full)), "acl": acl}})
		} else {
			calls = append(calls, call{"$acl", "SetAccountAcl", map[string][]byte{"account_name": []byte(full), "acl": acl}})
		}
		next[full] = string(acl)
	}
	if len(calls) == 0 {
		return true, nil
	}
	admin := fx.GetKey("c11/admin")
	reqs, rw, err := preExec(c.node, admin.Address, []string{admin.Address}, calls)
	if err != nil {
		return false, fmt.Errorf("pre-execution of $acl calls: %v", err)
	}
	c.seq++
	tx, err := buildTx(fmt.Sprintf("c11-install-%d", c.seq), c.seq, admin, []authEntry{{admin.Address, admin}}, reqs, rw)
	if err != nil {
		return false, err
	}
	if err := c.node.State.DoTx(tx); err != nil {
		return false, fmt.Errorf("DoTx: %v", err)
	}
	c.seq++
	if err := mine(c.node, c.miner, c.seq); err != nil {
		return false, err
	}
	for k, v := range next {
		c.current[k] = v
		c.created[k] = true
	}
	// the rules must now be readable through the real manager (driver sanity, not a verdict)
	for k, v := range next {
		if strings.Contains(k, "\x01") {
			continue
		}
		got, err := c.node.Acl.GetAccountACL(k)
		if err != nil || got == nil {
			return false, fmt.Errorf("rule of %s not readable after its block: %v", k, err)
		}
		var want protos.Acl
		json.Unmarshal([]byte(v), &want)
		if !bytes.Equal(aclJSON(got), aclJSON(&want)) {
			return false, fmt.Errorf("rule of %s differs after its block", k)
		}
	}
	return true, nil
}
