// Command c11 is the Go side of check C11 (access-control evaluation). It concretises the cases that TLC
// enumerates from spec/Acl.tla (rule environments x signer-URI multisets) and the behaviours TLC generates
// from spec/AclHist.tla (rule changes over pending / confirmed state), runs them on the real code
// (acl/utils.IdentifyAccount, CheckContractMethodPerm, State.VerifyTx) and records what happened as ndjson.
// It never judges: the TLA+ trace specifications do.
package main

import (
	"fmt"
	"os"
	"strconv"

	"verif/harness/fx"
)

func seed() int64 {
	s, err := strconv.ParseInt(os.Getenv("VERIF_SEED"), 10, 64)
	if err != nil {
		return 1
	}
	return s
}

func main() {
	if len(os.Args) < 2 {
		fmt.Fprintln(os.Stderr, "usage: c11 eval -in DIR -out FILE [-chain] | c11 hist -in DIR -out FILE | c11 probe")
		os.Exit(64)
	}
	work := os.Getenv("VERIF_WORK")
	if work == "" {
		var err error
		work, err = os.MkdirTemp("", "c11")
		if err != nil {
			panic(err)
		}
		defer os.RemoveAll(work)
	}
	fx.Init(work)
	var err error
	switch os.Args[1] {
	case "eval":
		err = evalCmd(os.Args[2:])
	case "hist":
		err = histCmd(os.Args[2:])
	case "probe":
		err = probeCmd(os.Args[2:])
	default:
		fmt.Fprintln(os.Stderr, "unknown sub-command", os.Args[1])
		os.Exit(64)
	}
	if err != nil {
		fmt.Fprintln(os.Stderr, "c11:", err)
		os.Exit(3)
	}
}
