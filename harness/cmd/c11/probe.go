package main

import (
	"encoding/json"
	"fmt"

	aclu "github.com/xuperchain/xupercore/kernel/permission/acl/utils"
)

// probeCmd: minimal reproduction of the finding KF_IntermediateAKCounts on the real IdentifyAccount (stub
// manager): account A1 with the rule "K1 alone" (weight 1, accept 1); K1 never appears as a signer.
func probeCmd(args []string) error {
	n := newNames(seed())
	env := map[string]rule{"A1": {Kind: "T", Acc: 2, W: map[string]int{"K1": 2}}}
	mgr := n.stubFor(env, true)
	a1 := n.of(env, "A1")
	out := map[string]interface{}{}
	for name, path := range map[string][]string{
		"member_signs":            {"A1", "K1"},
		"outsider_signs":          {"A1", "K2"},
		"outsider_names_member":   {"A1", "K1", "K2"},
		"outsider_names_member_2": {"A1", "K1", "K3"},
	} {
		ok, err := aclu.IdentifyAccount(mgr, a1, []string{n.uri(env, path)})
		out[name] = map[string]interface{}{"uri": path, "accepted": ok, "err": fmt.Sprint(err)}
	}
	b, _ := json.Marshal(out)
	fmt.Println(string(b))
	return nil
}
