package main

import (
	"encoding/json"
	"fmt"

	aclu "github.com/xuperchain/xupercore/kernel/permission/acl/utils"

	"verif/harness/fx"
)

// probeCmd: minimal reproduction of the finding KF_IntermediateAKCounts on the real IdentifyAccount (stub
// manager): account A1 with the rule "K1 alone" (weight 1, accept 1); K1 never appears as a signer.
func probeCmd(args []string) error {
	n := newNames(seed())
	env := map[string]rule{"A1": {Kind: "T", Acc: 2, W: map[string]int{"K1": 2}}}
	mgr := n.stubFor(env, true)
	a1 := n.of(env, "A1")
	out := map[string]interface{}{}
	for name, path := range map[string][]string{
		"member_signs":            {"A1", "K1"},
		"outsider_signs":          {"A1", "K2"},
		"outsider_names_member":   {"A1", "K1", "K2"},
		"outsider_names_member_2": {"A1", "K1", "K3"},
	} {
		ok, err := aclu.IdentifyAccount(mgr, a1, []string{n.uri(env, path)})
		out[name] = map[string]interface{}{"uri": path, "accepted": ok, "err": fmt.Sprint(err)}
	}
	// KF_UnconfirmedAccountOpen through State.VerifyTx on a real chain: K2 creates A1 with the rule "K1 alone";
	// while that transaction is in the pool the stranger K3 replaces the rule (AuthRequire A1/K3, signed by K3).
	h, err := newHistSim(fmt.Sprintf("c11probe%d", seed()), n)
	if err != nil {
		return err
	}
	steps := []map[string]interface{}{}
	for _, op := range []fx.Ev{
		{"op": "new", "a": "A1", "r": 1.0, "k": 2.0},
		{"op": "set", "a": "A1", "r": 3.0, "k": 3.0, "via": 0.0},
		{"op": "mine"},
		{"op": "set", "a": "A1", "r": 2.0, "k": 1.0, "via": 0.0}, // the intended owner K1 is locked out
		{"op": "spend", "a": "A1", "k": 2.0, "via": 3.0},         // KF_IntermediateAKCounts: K2 spends, naming K3
	} {
		res, why, err := h.step(op)
		if err != nil {
			return err
		}
		o, err := h.obs()
		if err != nil {
			return err
		}
		steps = append(steps, map[string]interface{}{"op": op, "res": res, "why": why, "conf": o["conf"], "pend": o["pend"]})
	}
	out["unconfirmed_account_history"] = steps
	b, _ := json.Marshal(out)
	fmt.Println(string(b))
	return nil
}
