// Command c14 is the Go side of check C14 (quorum certificates): it concretises abstract signature
// entries of spec/QC.tla with real ECDSA keys and signatures, submits them to the real
// DefaultSaftyRules.CheckProposal / CheckVote / CalVotesThreshold and to the real vote collection
// (Smr.handleReceivedVoteMsg through the verif export shim) and records what happened as ndjson.
// It never decides whether a verdict is right (spec/Trace_QC.tla does).
package main

import (
	"bytes"
	"encoding/hex"
	"encoding/json"
	"flag"
	"fmt"
	"hash/fnv"
	"os"
	"strconv"
	"sync"

	ccommon "github.com/xuperchain/xupercore/kernel/consensus/base/common"
	bft "github.com/xuperchain/xupercore/kernel/consensus/base/driver/chained-bft"
	bftpb "github.com/xuperchain/xupercore/kernel/consensus/base/driver/chained-bft/pb"
	"github.com/xuperchain/xupercore/kernel/network/p2p"
	xpb "github.com/xuperchain/xupercore/protos"

	"verif/harness/cbft"
	"verif/harness/fx"
)

// Entry is an abstract signature entry of QC.tla: claimed address a, attached key k (members 1..n,
// 0 = an outsider, -1 = an unparsable key), s = good | other | bad.
type Entry struct {
	A int    `json:"a"`
	K int    `json:"k"`
	S string `json:"s"`
}

var (
	idR = []byte("verif-c14-root")
	idP = []byte("verif-c14-certified-proposal")
	idC = []byte("verif-c14-child")
	idU = []byte("verif-c14-unknown-parent")
	idQ = []byte("verif-c14-another-proposal")
)

func seed() uint64 {
	s, err := strconv.ParseUint(os.Getenv("VERIF_SEED"), 10, 64)
	if err != nil {
		return 1
	}
	return s
}

func mix(parts ...uint64) uint64 {
	h := fnv.New64a()
	var b [8]byte
	for _, p := range parts {
		for i := 0; i < 8; i++ {
			b[i] = byte(p >> (8 * uint(i)))
		}
		h.Write(b[:])
	}
	x := h.Sum64()
	x ^= x >> 33
	x *= 0xff51afd7ed558ccd
	x ^= x >> 33
	return x
}

// signature cache: (key name, message) -> valid signature (shared by all goroutines)
var (
	sigMu    sync.Mutex
	sigCache = map[string][]byte{}
)

func signWith(k *fx.Key, msg []byte) []byte {
	ck := k.Name + "|" + string(msg)
	sigMu.Lock()
	if s, ok := sigCache[ck]; ok {
		sigMu.Unlock()
		return s
	}
	sigMu.Unlock()
	s, err := fx.Crypto.SignECDSA(k.Priv, msg)
	if err != nil {
		panic(err)
	}
	sigMu.Lock()
	sigCache[ck] = s
	sigMu.Unlock()
	return s
}

// sim is the concretisation state of one behaviour.
type sim struct {
	n       int
	rules   *bft.DefaultSaftyRules // fresh rules over a tree root <- P
	low     *bft.DefaultSaftyRules // same, after a vote for view 10 (lastVoteRound = 10)
	node    *cbft.Node             // collector (vote collection)
	back    map[string]Entry       // concrete sign -> abstract entry actually realised
	verifs  int
	variant uint64
}

func signKey(s *bftpb.QuorumCertSign) string {
	return s.Address + "|" + s.PublicKey + "|" + hex.EncodeToString(s.Sign)
}

func keyOf(k int, v uint64) *fx.Key {
	if k >= 1 {
		return cbft.Member(k)
	}
	return cbft.Outsider(int(v % 2))
}

// concretise realises one abstract entry over the certified id; it returns the concrete signature
// entry and the abstract entry it actually realises (a refinement of e: a mismatching key may be an
// outsider's, another member's or an unparsable one).
func (s *sim) concretise(e Entry, id []byte, v uint64) (*bftpb.QuorumCertSign, Entry) {
	out := e
	addrKey := keyOf(e.A, v)
	pubKey := keyOf(e.K, v)
	if e.A == 0 && e.K == 0 {
		pubKey = addrKey
	}
	pubStr := pubKey.PubStr
	if e.A >= 1 && e.K == 0 { // key / address mismatch: choose whose key is attached
		switch (v >> 8) % 3 {
		case 1:
			if s.n >= 2 {
				j := e.A%s.n + 1
				pubKey, pubStr, out.K = cbft.Member(j), cbft.Member(j).PubStr, j
			}
		case 2:
			pubStr, out.K = `{"Curvname":"P-256","X":12,`, -1
		}
	}
	var sig []byte
	switch e.S {
	case "good":
		sig = signWith(pubKey, id)
		if (v>>32)%4 == 0 { // a fresh signature: repeated entries of one member need not be byte-identical
			var err error
			if sig, err = fx.Crypto.SignECDSA(pubKey.Priv, id); err != nil {
				panic(err)
			}
		}
	case "other":
		switch (v >> 16) % 3 {
		case 0:
			sig = signWith(pubKey, idQ)
		case 1:
			sig = signWith(pubKey, append(append([]byte{}, id...), 'x'))
		default:
			if bytes.Equal(id, idR) { // "another id" must differ from the certified one
				sig = signWith(pubKey, idP)
			} else {
				sig = signWith(pubKey, idR)
			}
		}
	default: // "bad": corrupted; well-formed (verification fails) or unparsable (verification errors)
		good := signWith(pubKey, id)
		switch (v >> 24) % 6 {
		case 0, 1:
			sig = append([]byte{}, good...)
			sig[len(sig)-1] ^= 0x01
		case 2:
			sig = signWith(cbft.Outsider(2), id) // a valid signature, but of another key
		case 3:
			sig, out.S = append([]byte{}, good[:len(good)-3]...), "malformed"
		case 4:
			sig, out.S = []byte{}, "malformed"
		default:
			sig, out.S = []byte{1, 2, 3}, "malformed"
		}
	}
	c := &bftpb.QuorumCertSign{Address: addrKey.Address, PublicKey: pubStr, Sign: sig}
	s.back[signKey(c)] = out
	return c, out
}

func (s *sim) concretiseAll(es []Entry, id []byte, v uint64) ([]*bftpb.QuorumCertSign, []Entry) {
	cs := make([]*bftpb.QuorumCertSign, 0, len(es))
	as := make([]Entry, 0, len(es))
	for i, e := range es {
		c, a := s.concretise(e, id, mix(v, uint64(i)))
		cs = append(cs, c)
		as = append(as, a)
	}
	s.verifs += len(es)
	return cs, as
}

func (s *sim) abstract(cs []*bftpb.QuorumCertSign) []Entry {
	out := []Entry{}
	for _, c := range cs {
		if e, ok := s.back[signKey(c)]; ok {
			out = append(out, e)
		} else {
			out = append(out, Entry{A: -9, K: -9, S: "unknown"})
		}
	}
	return out
}

func newRules() *bft.DefaultSaftyRules {
	tree := cbft.NewTree(idR, 0)
	r := &bft.DefaultSaftyRules{Crypto: cbft.Crypto(cbft.Member(1)), QcTree: tree, Log: cbft.NopLogger{}}
	if err := tree.VerifUpdateQcStatus(&bft.ProposalNode{In: cbft.NewQC(idP, 1, idR, 0)}); err != nil {
		panic(err)
	}
	return r
}

func (s *sim) setup(n int) {
	s.n = n
	s.rules = newRules()
	s.low = newRules()
	s.low.VoteProposal([]byte("verif-c14-voted"), 10, cbft.NewQC(idP, 1, idR, 0))
}

var proposalErrs = map[error]string{
	bft.TooLowProposalView: "TooLowProposalView", bft.EmptyValidators: "EmptyValidators", bft.EmptyParentQC: "EmptyParentQC",
	bft.EmptyParentNode: "EmptyParentNode", bft.InvalidVoteSign: "InvalidVoteSign", bft.NoEnoughVotes: "NoEnoughVotes",
	bft.EmptyVoteSignErr: "EmptyVoteSignErr", bft.InvalidVoteAddr: "InvalidVoteAddr", bft.TooLowVoteView: "TooLowVoteView",
	bft.TooLowVParentView: "TooLowVParentView", bft.EmptyTarget: "EmptyTarget",
}

func why(err error) string {
	if err == nil {
		return ""
	}
	if w, ok := proposalErrs[err]; ok {
		return w
	}
	return "other"
}

func verdict(err error) string {
	if err == nil {
		return "accept"
	}
	return "reject"
}

// viaStorage sends a certificate through the block's consensus-storage encoding, the way tdpos / xpoa
// CheckMinerMatch obtain the justify they hand to CheckProposal (common.NewToOldQC / OldQCToNew).
func viaStorage(qc *bft.QuorumCert) (*bft.QuorumCert, error) {
	old, err := ccommon.NewToOldQC(qc)
	if err != nil {
		return nil, err
	}
	b, err := json.Marshal(ccommon.ConsensusStorage{Justify: old, CurTerm: 1, CurBlockNum: 1})
	if err != nil {
		return nil, err
	}
	return ccommon.OldQCToNew(b)
}

func entries(op fx.Ev) []Entry {
	out := []Entry{}
	b, _ := json.Marshal(op["signs"])
	json.Unmarshal(b, &out)
	return out
}

type collObs struct {
	Cert bool    `json:"cert"`
	View int     `json:"view"`
	Qc   []Entry `json:"qc"`
	Hq   []Entry `json:"hq"`
}

func (s *sim) observe() collObs {
	o := collObs{Qc: []Entry{}, Hq: []Entry{}}
	o.View = int(s.node.Smr.GetCurrentView())
	o.Qc = s.abstract(s.node.Smr.VerifVotes(idP))
	if string(s.node.Smr.GetHighQC().GetProposalId()) == string(idP) {
		o.Cert = true
		o.Hq = s.abstract(s.node.Smr.GetCompleteHighQC().GetSignsInfo())
	}
	return o
}

func (s *sim) step(op fx.Ev, v uint64) (fx.Ev, error) {
	ev := fx.Ev{}
	for k, x := range op {
		if k != "res" {
			ev[k] = x
		}
	}
	switch op.Str("op") {
	case "setup":
		s.setup(op.Int("n"))
		ev["res"] = "ok"
	case "proposal":
		if s.rules == nil || s.n != op.Int("n") {
			s.setup(op.Int("n"))
		}
		frame := op.Str("frame")
		id, pview := idP, int64(2)
		rules := s.rules
		vals := cbft.Addresses(s.n)
		switch frame {
		case "orphan_near":
			id, pview = idU, 3+int64(v%4)
		case "orphan_far":
			id, pview = idU, 7+int64(v%3)
		case "highqc": // the certificate is for the local HighQC (the root of a freshly started tree)
			id, pview = idR, 1
		case "lowview":
			rules = s.low
		case "nilvals":
			vals = nil
		}
		if (v>>40)%2 == 1 && len(vals) > 1 { // the order of the validator list is irrelevant
			vals[0], vals[len(vals)-1] = vals[len(vals)-1], vals[0]
		}
		if frame == "std" && (v>>44)%3 == 1 {
			// the certificate arrives in a block: real xpoa CheckMinerMatch -> CheckProposal
			x, err := getXpoa(s.n)
			if err != nil {
				return nil, err
			}
			cs, as := s.concretiseAll(entries(op), idBlock2, v)
			ok, cerr, err := x.checkMinerMatch(cs)
			if err != nil {
				return nil, err
			}
			ev["signs"], ev["why"], ev["route"] = as, why(cerr), "xpoa"
			ev["res"] = "reject"
			if ok && cerr == nil {
				ev["res"] = "accept"
			}
			break
		}
		cs, as := s.concretiseAll(entries(op), id, v)
		justify := cbft.NewQC(id, pview-1, idR, 0)
		justify.SignInfos = cs
		route := "direct"
		if frame == "nilpid" {
			justify.VoteInfo.ProposalId = nil
		} else if (v>>44)%3 == 0 {
			j2, err := viaStorage(justify)
			if err != nil {
				return nil, fmt.Errorf("storage round trip: %v", err)
			}
			justify, route = j2, "storage"
		}
		err := rules.CheckProposal(cbft.NewQC(idC, pview, id, pview-1), justify, vals)
		ev["signs"], ev["res"], ev["why"], ev["route"] = as, verdict(err), why(err), route
	case "receive":
		// the certificate is the justify of a proposal received while the validator set changes: vc is in force for
		// the certified view, vp for the view of the proposal (recv.go)
		s.n = op.Int("n")
		vc, vp := ints(op, "vc"), ints(op, "vp")
		if len(vc) == 0 || len(vp) == 0 {
			return nil, fmt.Errorf("receive with an empty validator set")
		}
		if (v>>44)%3 == 1 {
			// the certificate arrives in a block: real xpoa CheckMinerMatch over a ledger that recorded both sets
			res, as, w, err := s.receiveXpoa(entries(op), vc, vp, v)
			if err != nil {
				return nil, err
			}
			ev["signs"], ev["res"], ev["why"], ev["route"] = as, res, w, "xpoa"
			break
		}
		res, as, err := s.receiveSmr(entries(op), vc, vp, v)
		if err != nil {
			return nil, err
		}
		ev["signs"], ev["res"], ev["route"] = as, res, "smr"
	case "vote":
		if s.rules == nil || s.n != op.Int("n") {
			s.setup(op.Int("n"))
		}
		cs, as := s.concretiseAll(entries(op), idP, v)
		qc := cbft.NewQC(idP, 1, idR, 0)
		qc.SignInfos = cs
		err := s.rules.CheckVote(qc, "verif", cbft.Addresses(s.n))
		ev["signs"], ev["res"], ev["why"] = as, verdict(err), why(err)
	case "thr":
		r := (&bft.DefaultSaftyRules{}).CalVotesThreshold(op.Int("input"), op.Int("sum"))
		ev["res"] = "reject"
		if r {
			ev["res"] = "accept"
		}
	case "collect":
		s.n = op.Int("n")
		s.node = cbft.NewNode(cbft.Member(1), cbft.Addresses(s.n), idR, 0)
		if (v>>48)%2 == 1 {
			// members 1..n are the validators of the collected proposal's view (1) only: the set changes before and after it
			s.node.Smr.Election = changingAround(1, cbft.Addresses(s.n))
		}
		jb, err := json.Marshal(&bft.QuorumCert{VoteInfo: &bft.VoteInfo{ProposalId: idR, ProposalView: 0}})
		if err != nil {
			return nil, err
		}
		pm, err := cbft.Crypto(cbft.Member(1)).SignProposalMsg(&bftpb.ProposalMsg{ProposalView: 1, ProposalId: idP, Timestamp: 1, JustifyQC: jb})
		if err != nil {
			return nil, err
		}
		s.node.Smr.VerifHandleReceivedProposal(p2p.NewMessage(xpb.XuperMessage_CHAINED_BFT_NEW_PROPOSAL_MSG, pm, p2p.WithBCName(cbft.BCName)))
		if s.node.Tree.DFSQueryNode(idP) == nil || !s.node.Smr.VerifKnowsProposal(idP) {
			return nil, fmt.Errorf("collector did not take the proposal")
		}
		ev["res"], ev["obs"] = "ok", s.observe()
	case "votemsg":
		if s.node == nil {
			return nil, fmt.Errorf("votemsg without collect")
		}
		cs, as := s.concretiseAll(entries(op), idP, v)
		vb, _ := json.Marshal(&bft.VoteInfo{ProposalId: idP, ProposalView: 1, ParentId: idR, ParentView: 0})
		lb, _ := json.Marshal(&bft.LedgerCommitInfo{VoteInfoHash: idP})
		msg := p2p.NewMessage(xpb.XuperMessage_CHAINED_BFT_VOTE_MSG, &bftpb.VoteMsg{VoteInfo: vb, LedgerCommitInfo: lb, Signature: cs}, p2p.WithBCName(cbft.BCName))
		err := s.node.Smr.VerifHandleReceivedVoteMsg(msg)
		ev["signs"], ev["why"], ev["obs"] = as, why(err), s.observe()
		ev["res"] = "ok"
		if err != nil {
			ev["res"] = "reject"
		}
	default:
		return nil, fmt.Errorf("unknown op %q", op.Str("op"))
	}
	return ev, nil
}

// selfCheck establishes the facts the concretiser relies on: how the crypto client classifies the
// corrupted signatures it builds (verification fails without error / errors).
func selfCheck() error {
	k := cbft.Member(1)
	s := &sim{n: 3, back: map[string]Entry{}}
	for v := uint64(0); v < 6; v++ {
		c, a := s.concretise(Entry{A: 1, K: 1, S: "bad"}, idP, v<<24)
		ok, err := fx.Crypto.VerifyECDSA(&k.Priv.PublicKey, c.Sign, idP)
		if ok || (a.S == "bad") != (err == nil) {
			return fmt.Errorf("self-check: corrupted signature variant %d classified %q but verifier returned (%v, %v)", v, a.S, ok, err)
		}
	}
	for v := uint64(0); v < 3; v++ {
		c, _ := s.concretise(Entry{A: 1, K: 1, S: "other"}, idP, v<<16)
		if ok, err := fx.Crypto.VerifyECDSA(&k.Priv.PublicKey, c.Sign, idP); ok || err != nil {
			return fmt.Errorf("self-check: wrong-id signature variant %d: verifier returned (%v, %v)", v, ok, err)
		}
	}
	c, _ := s.concretise(Entry{A: 1, K: 1, S: "good"}, idP, 0)
	if ok, err := fx.Crypto.VerifyECDSA(&k.Priv.PublicKey, c.Sign, idP); !ok || err != nil {
		return fmt.Errorf("self-check: valid signature: verifier returned (%v, %v)", ok, err)
	}
	return nil
}

func replay(args []string) error {
	fs := flag.NewFlagSet("replay", flag.ExitOnError)
	in := fs.String("in", "", "directory of behaviours")
	out := fs.String("out", "trace.ndjson", "ndjson trace to write")
	par := fs.Int("par", 8, "goroutines")
	fs.Parse(args)
	if err := selfCheck(); err != nil {
		return err
	}
	if err := selfCheckReceive(); err != nil {
		return err
	}
	if err := selfCheckReceiveXpoa(); err != nil {
		return err
	}
	behs, err := fx.LoadBehaviours(*in)
	if err != nil {
		return err
	}
	res := make([][]fx.Ev, len(behs))
	errs := make([]error, len(behs))
	verifs := make([]int, len(behs))
	var wg sync.WaitGroup
	sem := make(chan struct{}, *par)
	sd := seed()
	for k := range behs {
		wg.Add(1)
		sem <- struct{}{}
		go func(k int) {
			defer wg.Done()
			defer func() { <-sem }()
			s := &sim{back: map[string]Entry{}}
			evs := []fx.Ev{{"op": "reset", "tr": k}}
			for i, op := range behs[k] {
				ev, err := s.step(op, mix(sd, uint64(k), uint64(i)))
				if err != nil {
					errs[k] = fmt.Errorf("behaviour %d step %d: %v", k, i, err)
					return
				}
				ev["tr"], ev["i"] = k, i
				evs = append(evs, ev)
			}
			res[k], verifs[k] = evs, s.verifs
		}(k)
	}
	wg.Wait()
	for _, e := range errs {
		if e != nil {
			return e
		}
	}
	tw, err := fx.NewTraceWriter(*out)
	if err != nil {
		return err
	}
	ops, nv := 0, 0
	acc := map[string]int{}
	for k := range res {
		for _, ev := range res[k] {
			tw.Emit(ev)
			if ev["res"] == "accept" {
				acc[ev.Str("op")]++
			}
			if ev.Str("op") == "receive" {
				acc["receive_cases"]++
				if ev.Str("route") == "xpoa" {
					acc["receive_xpoa_cases"]++
					if ev["res"] == "accept" {
						acc["receive_xpoa_accept"]++
					}
				}
				continue
			}
			if ev.Str("route") == "xpoa" {
				acc["xpoa_cases"]++
				if ev["res"] == "accept" {
					acc["xpoa_accept"]++
				}
			}
			if o, ok := ev["obs"].(collObs); ok && o.Cert && ev.Str("op") == "votemsg" {
				acc["certified"]++
			}
		}
		ops += len(res[k]) - 1
		nv += verifs[k]
	}
	tw.Close()
	fmt.Printf("{\"behaviours\":%d,\"ops\":%d,\"entries\":%d,\"accept_proposal\":%d,\"accept_vote\":%d,\"accept_thr\":%d,\"certified_events\":%d,\"xpoa_cases\":%d,\"accept_xpoa\":%d,\"receive_cases\":%d,\"accept_receive\":%d,\"receive_xpoa_cases\":%d,\"accept_receive_xpoa\":%d}\n",
		len(behs), ops, nv, acc["proposal"], acc["vote"], acc["thr"], acc["certified"], acc["xpoa_cases"], acc["xpoa_accept"], acc["receive_cases"], acc["receive"], acc["receive_xpoa_cases"], acc["receive_xpoa_accept"])
	return nil
}

func main() {
	if len(os.Args) < 2 || os.Args[1] != "replay" {
		fmt.Fprintln(os.Stderr, "usage: c14 replay -in DIR -out FILE [-par N]")
		os.Exit(64)
	}
	work := os.Getenv("VERIF_WORK")
	if work == "" {
		var err error
		if work, err = os.MkdirTemp("", "c14"); err != nil {
			panic(err)
		}
		defer os.RemoveAll(work)
	}
	fx.Init(work)
	if err := replay(os.Args[2:]); err != nil {
		fmt.Fprintln(os.Stderr, "c14:", err)
		os.Exit(3)
	}
}
