package main

import (
	"encoding/json"
	"fmt"
	"sync"

	"github.com/xuperchain/xupercore/bcs/consensus/xpoa"
	"github.com/xuperchain/xupercore/kernel/common/xcontext"
	cbase "github.com/xuperchain/xupercore/kernel/consensus/base"
	ccommon "github.com/xuperchain/xupercore/kernel/consensus/base/common"
	bft "github.com/xuperchain/xupercore/kernel/consensus/base/driver/chained-bft"
	bftpb "github.com/xuperchain/xupercore/kernel/consensus/base/driver/chained-bft/pb"
	cctx "github.com/xuperchain/xupercore/kernel/consensus/context"
	"github.com/xuperchain/xupercore/kernel/consensus/def"
	kmock "github.com/xuperchain/xupercore/kernel/consensus/mock"
	"github.com/xuperchain/xupercore/kernel/contract"
	"github.com/xuperchain/xupercore/lib/timer"

	"verif/harness/cbft"
	"verif/harness/fx"
)

// xpoaInst is a real xpoa consensus instance (chained-BFT enabled) over the stub ledger of
// kernel/consensus/mock (blocks 0..2) whose initial validator set is members 1..n. A case is block 3,
// produced by the validator scheduled at its timestamp, whose consensus storage carries the justify
// (the certificate of block 2): the real CheckMinerMatch decodes it (common.OldQCToNew), determines the
// validator set in force for the previous block and calls CheckProposal.
type xpoaInst struct {
	mu   sync.Mutex
	cons cbase.ConsensusImplInterface
	vals []string
}

var (
	xpoaMu    sync.Mutex
	xpoaInsts = map[int]*xpoaInst{}
	idBlock2  = []byte{2} // id of the stub ledger's block 2: the certified id on this route
)

func getXpoa(n int) (*xpoaInst, error) {
	xpoaMu.Lock()
	defer xpoaMu.Unlock()
	if x, ok := xpoaInsts[n]; ok {
		return x, nil
	}
	vals := cbft.Addresses(n)
	cfg, err := json.Marshal(map[string]interface{}{"period": 3000, "block_num": 10,
		"init_proposer": map[string]interface{}{"address": vals}, "bft_config": map[string]bool{}})
	if err != nil {
		return nil, err
	}
	self := cbft.Member(1)
	ctx := cctx.ConsensusCtx{
		BaseCtx: xcontext.BaseCtx{XLog: cbft.NopLogger{}, Timer: timer.NewXTimer()},
		BcName:  cbft.BCName,
		Address: &cctx.Address{Address: self.Address, PrivateKey: self.Priv, PrivateKeyStr: self.PrivStr,
			PublicKey: &self.Priv.PublicKey, PublicKeyStr: self.PubStr},
		Crypto:   fx.Crypto,
		Contract: &kmock.FakeManager{R: &kmock.FakeRegistry{M: map[string]contract.KernMethod{}}},
		Ledger:   kmock.NewFakeLedger(cfg),
		Network:  &cbft.StubNet{Account: self.Address},
	}
	cons := xpoa.NewXpoaConsensus(ctx, def.ConsensusConfig{ConsensusName: "xpoa", Config: string(cfg), StartHeight: 1, Index: 0})
	if cons == nil {
		return nil, fmt.Errorf("NewXpoaConsensus returned nil")
	}
	x := &xpoaInst{cons: cons, vals: vals}
	xpoaInsts[n] = x
	return x, nil
}

// checkMinerMatch returns CheckMinerMatch's answer (ok, its error) and a driver error.
func (x *xpoaInst) checkMinerMatch(signs []*bftpb.QuorumCertSign) (bool, error, error) {
	justify := &bft.QuorumCert{VoteInfo: &bft.VoteInfo{ProposalId: idBlock2, ProposalView: 2, ParentId: []byte{1}, ParentView: 1}, SignInfos: signs}
	old, err := ccommon.NewToOldQC(justify)
	if err != nil {
		return false, nil, err
	}
	st, err := json.Marshal(ccommon.ConsensusStorage{Justify: old})
	if err != nil {
		return false, nil, err
	}
	// timestamp 1 ms: term 1, position 0, block position 1 -> the scheduled producer is validator 0
	blk := &kmock.FakeBlock{Proposer: x.vals[0], Height: 3, Blockid: []byte{3}, PreHash: idBlock2, Timestamp: 1000000, ConsensusStorage: st}
	x.mu.Lock()
	defer x.mu.Unlock()
	ok, cerr := x.cons.CheckMinerMatch(&xcontext.BaseCtx{XLog: cbft.NopLogger{}, Timer: timer.NewXTimer()}, blk)
	return ok, cerr, nil
}
