package main

import (
	"encoding/json"
	"fmt"

	bft "github.com/xuperchain/xupercore/kernel/consensus/base/driver/chained-bft"
	bftpb "github.com/xuperchain/xupercore/kernel/consensus/base/driver/chained-bft/pb"
	"github.com/xuperchain/xupercore/kernel/network/p2p"
	xpb "github.com/xuperchain/xupercore/protos"

	"verif/harness/cbft"
	"verif/harness/fx"
)

// viewElection is an election whose validator set depends on the view: `at` is in force for exactly the
// view `view`, `before` for the views below it and `after` for the views above it (TDPoS term changes /
// XPoA validator updates seen from the Smr). No next leader is named, so the replica never sends its
// vote itself.
type viewElection struct {
	view              int64
	before, at, after []string
}

func (e *viewElection) GetLeader(round int64) string { return "" }
func (e *viewElection) GetValidators(round int64) []string {
	switch {
	case round < e.view:
		return e.before
	case round == e.view:
		return e.at
	}
	return e.after
}
func (e *viewElection) GetIntAddress(a string) string { return a }

func ints(op fx.Ev, k string) []int {
	out := []int{}
	b, _ := json.Marshal(op[k])
	json.Unmarshal(b, &out)
	return out
}

func complement(ids []int, n int) []int {
	in := map[int]bool{}
	for _, i := range ids {
		in[i] = true
	}
	out := []int{}
	for i := 1; i <= n; i++ {
		if !in[i] {
			out = append(out, i)
		}
	}
	return out
}

// changingAround is an election in which `set` is in force for exactly `view`: the neighbouring views have
// a set that keeps only the first half of its members but the first and adds the identities that sign the
// non-member entries the drivers build - outsiders for the view in question, validators of the views around
// it - (so a lookup for a neighbouring view differs in membership and in size).
func changingAround(view int64, set []string) *viewElection {
	other := append(append([]string{}, set[1:(len(set)+1)/2]...), cbft.Outsider(0).Address, cbft.Outsider(1).Address)
	if len(set) > 4 {
		other = append(other, cbft.Outsider(3).Address)
	}
	return &viewElection{view: view, before: other, at: set, after: other}
}

func addrsOf(ids []int, v uint64) []string {
	out := make([]string, 0, len(ids))
	for _, i := range ids {
		out = append(out, cbft.Member(i).Address)
	}
	if v%2 == 1 && len(out) > 1 { // the order of the validator list is irrelevant
		out[0], out[len(out)-1] = out[len(out)-1], out[0]
	}
	return out
}

// receiveSmr delivers the certificate as the justify of a proposal to the real Smr.handleReceivedProposal of a
// replica whose election answers GetValidators with vc for the certified view and with vp for the view of the
// proposal. The replica's tree is root (view 0) <- P (view cv); the proposal C (view cv+1 or cv+2) extends P and its
// justify certifies P. Accepted = the proposal was stored in the replica's tree (the step that follows every check).
func (s *sim) receiveSmr(es []Entry, vc, vp []int, v uint64) (string, []Entry, error) {
	cv := int64(1)
	pv := cv + 1 + int64((v>>4)%2)
	// the replica itself: a member of either set or of none (its own membership is irrelevant to the justify)
	self := cbft.Outsider(2)
	switch (v >> 8) % 3 {
	case 1:
		self = cbft.Member(vc[int(v>>12)%len(vc)])
	case 2:
		self = cbft.Member(vp[int(v>>12)%len(vp)])
	}
	node := cbft.NewNode(self, nil, idR, 0)
	// the views below the certified one: the new set again, or exactly the identities outside the certified view's set
	before := addrsOf(vp, v>>18)
	if rest := complement(vc, s.n); (v>>24)%2 == 1 && len(rest) > 0 {
		before = addrsOf(rest, v>>18)
	}
	node.Smr.Election = &viewElection{view: cv, before: before, at: addrsOf(vc, v>>16), after: addrsOf(vp, v>>17)}
	if err := node.Tree.VerifUpdateQcStatus(&bft.ProposalNode{In: cbft.NewQC(idP, cv, idR, 0)}); err != nil {
		return "", nil, err
	}
	cs, as := s.concretiseAll(es, idP, v)
	justify := cbft.NewQC(idP, cv, idR, 0)
	justify.SignInfos = cs
	jb, err := json.Marshal(justify)
	if err != nil {
		return "", nil, err
	}
	// the proposer: a validator of the proposal's view
	proposer := cbft.Member(vp[int(v>>20)%len(vp)])
	pm, err := cbft.Crypto(proposer).SignProposalMsg(&bftpb.ProposalMsg{ProposalView: pv, ProposalId: idC, Timestamp: 1, JustifyQC: jb})
	if err != nil {
		return "", nil, err
	}
	node.Smr.VerifHandleReceivedProposal(p2p.NewMessage(xpb.XuperMessage_CHAINED_BFT_NEW_PROPOSAL_MSG, pm, p2p.WithBCName(cbft.BCName)))
	if node.Tree.DFSQueryNode(idC) != nil {
		return "accept", as, nil
	}
	return "reject", as, nil
}

// selfCheckReceive: a certificate signed by every member of a fixed set is accepted by the receive route (the
// other checks of handleReceivedProposal - ledger state, pacemaker, voting rule - do not stand in the way).
func selfCheckReceive() error {
	s := &sim{n: 4, back: map[string]Entry{}}
	all := []Entry{{1, 1, "good"}, {2, 2, "good"}, {3, 3, "good"}, {4, 4, "good"}}
	for v := uint64(0); v < 64; v++ {
		res, _, err := s.receiveSmr(all, []int{1, 2, 3, 4}, []int{1, 2, 3, 4}, v<<4)
		if err != nil || res != "accept" {
			return fmt.Errorf("self-check: fully signed certificate over a fixed set not accepted by handleReceivedProposal (variant %d): %v %v", v, res, err)
		}
	}
	return nil
}
