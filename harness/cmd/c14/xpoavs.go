package main

import (
	"encoding/json"
	"fmt"
	"sync"

	"github.com/xuperchain/xupercore/bcs/consensus/xpoa"
	"github.com/xuperchain/xupercore/kernel/common/xcontext"
	cbase "github.com/xuperchain/xupercore/kernel/consensus/base"
	ccommon "github.com/xuperchain/xupercore/kernel/consensus/base/common"
	bft "github.com/xuperchain/xupercore/kernel/consensus/base/driver/chained-bft"
	bftpb "github.com/xuperchain/xupercore/kernel/consensus/base/driver/chained-bft/pb"
	cctx "github.com/xuperchain/xupercore/kernel/consensus/context"
	"github.com/xuperchain/xupercore/kernel/consensus/def"
	kmock "github.com/xuperchain/xupercore/kernel/consensus/mock"
	"github.com/xuperchain/xupercore/kernel/contract"
	"github.com/xuperchain/xupercore/kernel/ledger"
	"github.com/xuperchain/xupercore/lib/timer"

	"verif/harness/cbft"
	"verif/harness/fx"
)

// The validator-set change seen by the real xpoa CheckMinerMatch.
//
// vsLedger is a stub ledger (consensus context LedgerRely) with the chain B0..B7 (id of Bh = {h}) that serves, per
// block, the validator set recorded by the xpoa contract in the state after that block (CreateSnapshot(id).Get);
// nothing recorded = the initial set. xpoa lets a recorded set come into force three blocks later, so for the
// candidate block B8 (justify = certificate of B7, view 7):
//
//	producer of B8             <- set in force at height 7 = recorded after B4   (vp: the carrying block's view)
//	justify's validators       <- set in force at height 6 = recorded after B3   (vc: the certified view; what
//	                              CheckMinerMatch hands to CheckProposal)
//
// One real xpoa instance per universe size; the two recorded sets are swapped in per case (the plugin reads them from
// the ledger at every call).
type vsLedger struct {
	blocks []*kmock.FakeBlock
	conf   []byte
	rec    map[int][]string // height -> recorded validator set (nil: nothing recorded)
}

type vsReader struct{ val []byte }

func (r *vsReader) Get(bucket string, key []byte) (*ledger.VersionedData, error) {
	if r.val == nil {
		return nil, nil
	}
	return &ledger.VersionedData{PureData: &ledger.PureData{Bucket: bucket, Key: key, Value: r.val}}, nil
}
func (r *vsReader) Select(bucket string, startKey []byte, endKey []byte) (ledger.XMIterator, error) {
	return nil, nil
}

type vsTipReader struct{}

func (vsTipReader) Get(bucket string, key []byte) ([]byte, error) { return nil, nil }

func (l *vsLedger) GetConsensusConf() ([]byte, error) { return l.conf, nil }
func (l *vsLedger) QueryBlock(id []byte) (ledger.BlockHandle, error) {
	if len(id) == 1 && int(id[0]) < len(l.blocks) {
		return l.blocks[id[0]], nil
	}
	return nil, fmt.Errorf("block not found")
}
func (l *vsLedger) QueryBlockByHeight(h int64) (ledger.BlockHandle, error) {
	if h < 0 || int(h) >= len(l.blocks) {
		return nil, fmt.Errorf("block not found")
	}
	return l.blocks[h], nil
}
func (l *vsLedger) GetTipBlock() ledger.BlockHandle { return l.blocks[len(l.blocks)-1] }
func (l *vsLedger) GetTipXMSnapshotReader() (ledger.XMSnapshotReader, error) {
	return vsTipReader{}, nil
}
func (l *vsLedger) CreateSnapshot(id []byte) (ledger.XMReader, error) {
	if len(id) != 1 || int(id[0]) >= len(l.blocks) {
		return nil, fmt.Errorf("block not found")
	}
	// the state after block h holds the latest set recorded at or below h
	for h := int(id[0]); h >= 0; h-- {
		if set := l.rec[h]; set != nil {
			b, _ := json.Marshal(map[string][]string{"address": set})
			return &vsReader{val: b}, nil
		}
	}
	return &vsReader{}, nil
}
func (l *vsLedger) GetTipSnapshot() (ledger.XMReader, error) { return &vsReader{}, nil }

type xpoaVS struct {
	mu   sync.Mutex
	cons cbase.ConsensusImplInterface
	led  *vsLedger
}

var (
	xpoaVSMu    sync.Mutex
	xpoaVSInsts = map[int]*xpoaVS{}
	idBlock7    = []byte{7}
)

func getXpoaVS(n int) (*xpoaVS, error) {
	xpoaVSMu.Lock()
	defer xpoaVSMu.Unlock()
	if x, ok := xpoaVSInsts[n]; ok {
		return x, nil
	}
	vals := cbft.Addresses(n)
	cfg, err := json.Marshal(map[string]interface{}{"period": 3000, "block_num": 10,
		"init_proposer": map[string]interface{}{"address": vals}, "bft_config": map[string]bool{}})
	if err != nil {
		return nil, err
	}
	led := &vsLedger{conf: cfg, rec: map[int][]string{}}
	for h := 0; h <= 7; h++ {
		b := &kmock.FakeBlock{Proposer: vals[0], Height: int64(h), Blockid: []byte{byte(h)}, Timestamp: int64(h)}
		if h > 0 {
			b.PreHash = []byte{byte(h - 1)}
		}
		led.blocks = append(led.blocks, b)
	}
	self := cbft.Member(1)
	ctx := cctx.ConsensusCtx{
		BaseCtx: xcontext.BaseCtx{XLog: cbft.NopLogger{}, Timer: timer.NewXTimer()},
		BcName:  cbft.BCName,
		Address: &cctx.Address{Address: self.Address, PrivateKey: self.Priv, PrivateKeyStr: self.PrivStr,
			PublicKey: &self.Priv.PublicKey, PublicKeyStr: self.PubStr},
		Crypto:   fx.Crypto,
		Contract: &kmock.FakeManager{R: &kmock.FakeRegistry{M: map[string]contract.KernMethod{}}},
		Ledger:   led,
		Network:  &cbft.StubNet{Account: self.Address},
	}
	cons := xpoa.NewXpoaConsensus(ctx, def.ConsensusConfig{ConsensusName: "xpoa", Config: string(cfg), StartHeight: 1, Index: 0})
	if cons == nil {
		return nil, fmt.Errorf("NewXpoaConsensus returned nil")
	}
	x := &xpoaVS{cons: cons, led: led}
	xpoaVSInsts[n] = x
	return x, nil
}

// checkMinerMatch: candidate B8 produced by the first validator of vp (the producer scheduled at 1 ms), carrying the
// certificate of B7 with the given signatures, while vc is in force for B7's view and vp for B8's.
func (x *xpoaVS) checkMinerMatch(vc, vp []string, signs []*bftpb.QuorumCertSign) (bool, error, error) {
	justify := &bft.QuorumCert{VoteInfo: &bft.VoteInfo{ProposalId: idBlock7, ProposalView: 7, ParentId: []byte{6}, ParentView: 6}, SignInfos: signs}
	old, err := ccommon.NewToOldQC(justify)
	if err != nil {
		return false, nil, err
	}
	st, err := json.Marshal(ccommon.ConsensusStorage{Justify: old})
	if err != nil {
		return false, nil, err
	}
	blk := &kmock.FakeBlock{Proposer: vp[0], Height: 8, Blockid: []byte{8}, PreHash: idBlock7, Timestamp: 1000000, ConsensusStorage: st}
	x.mu.Lock()
	defer x.mu.Unlock()
	x.led.rec[3], x.led.rec[4] = vc, vp
	ok, cerr := x.cons.CheckMinerMatch(&xcontext.BaseCtx{XLog: cbft.NopLogger{}, Timer: timer.NewXTimer()}, blk)
	return ok, cerr, nil
}

// receiveXpoa: the set-change case through the real xpoa CheckMinerMatch.
func (s *sim) receiveXpoa(es []Entry, vc, vp []int, v uint64) (string, []Entry, string, error) {
	x, err := getXpoaVS(s.n)
	if err != nil {
		return "", nil, "", err
	}
	cs, as := s.concretiseAll(es, idBlock7, v)
	ok, cerr, err := x.checkMinerMatch(addrsOf(vc, v>>16), addrsOf(vp, v>>17), cs)
	if err != nil {
		return "", nil, "", err
	}
	if ok && cerr == nil {
		return "accept", as, "", nil
	}
	return "reject", as, why(cerr), nil
}

// selfCheckReceiveXpoa: a certificate signed by the whole old set passes, whatever the new set is (the producer
// check and the tree lookup of CheckMinerMatch do not stand in the way). Which recorded set the plugin uses for the
// justify is NOT established here: that is the property's business (Trace_QC judges it).
func selfCheckReceiveXpoa() error {
	s := &sim{n: 4, back: map[string]Entry{}}
	all := []Entry{{1, 1, "good"}, {2, 2, "good"}, {3, 3, "good"}, {4, 4, "good"}}
	for v := uint64(0); v < 8; v++ {
		for _, vp := range [][]int{{1, 2, 3, 4}, {2}, {4, 3}} {
			if res, _, w, err := s.receiveXpoa(all, []int{1, 2, 3, 4}, vp, v<<16); err != nil || res != "accept" {
				return fmt.Errorf("self-check: fully signed certificate not accepted by xpoa CheckMinerMatch (new set %v): %v %v %v", vp, res, w, err)
			}
		}
	}
	return nil
}
