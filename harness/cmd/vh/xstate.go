package main

import (
	"bytes"
	"encoding/hex"
	"encoding/json"
	"flag"
	"fmt"
	"io/ioutil"
	"math/big"
	"math/rand"
	"sort"
	"strconv"
	"strings"
	"time"

	"github.com/golang/protobuf/proto"
	"github.com/xuperchain/xupercore/bcs/ledger/xledger/state"
	"github.com/xuperchain/xupercore/bcs/ledger/xledger/state/utxo"
	"github.com/xuperchain/xupercore/bcs/ledger/xledger/state/utxo/txhash"
	txn "github.com/xuperchain/xupercore/bcs/ledger/xledger/tx"
	pb "github.com/xuperchain/xupercore/bcs/ledger/xledger/xldgpb"
	"github.com/xuperchain/xupercore/kernel/engines/xuperos/miner"
	kledger "github.com/xuperchain/xupercore/kernel/ledger"
	"github.com/xuperchain/xupercore/protos"

	"verif/harness/fx"
)

// xstate-replay: execute behaviours of spec/XState.tla against the real ledger + state machine and
// record the projection after every step (C01, C02, C03, C05, C17, C18; C06 and C13 reuse the sim).

func init() {
	register("xstate-replay", "replay XState.tla behaviours on the real state machine, record ndjson", xstateReplay)
}

const kvBucket = "vb"

// aliasBucket + "b" + key == kvBucket + key
const aliasBucket = "v"

// padding writes of big transactions (unobserved bucket)
const (
	padBucket = "vbpad"
	padCount  = 1800
)

// amount concretisation variants (C02): every abstract amount is multiplied by amtScale; outputs may
// carry a leading zero byte (non-canonical but equal big-endian encoding)
var (
	amtScale    = big.NewInt(1)
	amtLeadZero = false
	maxBlockMB  = 0 // 0 = fixture default (16 MB)
)

func amtBytes(a int64, output bool) []byte {
	b := new(big.Int).Mul(big.NewInt(a), amtScale).Bytes()
	if output && amtLeadZero { // a zero amount is spelled 0x00 instead of the empty string
		return append([]byte{0}, b...)
	}
	return b
}

func unscale(x *big.Int) string {
	q, r := new(big.Int).QuoRem(x, amtScale, new(big.Int))
	if r.Sign() != 0 {
		return "raw:" + x.String()
	}
	return q.String()
}

type catOut struct {
	To  string `json:"to"`
	Amt int64  `json:"amt"`
	Fz  int64  `json:"fz"`
}
type catTx struct {
	Ins    [][]interface{}   `json:"ins"`
	Outs   []catOut          `json:"outs"`
	Reads  map[string]string `json:"reads"`
	Writes map[string]string `json:"writes"`
	Bad    string            `json:"bad"`
	Big    bool              `json:"big"`
	Alias  bool              `json:"alias"`
}
type catalog struct {
	Tx      map[string]catTx `json:"tx"`
	Genesis []catOut         `json:"genesis"`
	Award   catAward         `json:"award"`
	Awards  []int64          `json:"awards"` // award of a block at height h = Awards[h-1] (computed by the specification)
	Keys    []string         `json:"keys"`
	Addrs   []string         `json:"addrs"`
}

// catAward is the award schedule of the chain: base, multiplied by num/den every gap blocks (gap 0: no decay).
type catAward struct {
	Base int64 `json:"base"`
	Gap  int64 `json:"gap"`
	Num  int64 `json:"num"`
	Den  int64 `json:"den"`
}

// awardAt is the award the specification prescribes for a block at height h.
func (c *catalog) awardAt(h int64) int64 {
	if c.Award.Gap == 0 {
		return c.Award.Base
	}
	if h >= 1 && int(h) <= len(c.Awards) {
		return c.Awards[h-1]
	}
	return -1
}

func loadCatalog(path string) (*catalog, error) {
	b, err := ioutil.ReadFile(path)
	if err != nil {
		return nil, err
	}
	var arr []catalog
	if err := json.Unmarshal(b, &arr); err == nil && len(arr) == 1 {
		return &arr[0], nil
	}
	var c catalog
	if err := json.Unmarshal(b, &c); err != nil {
		return nil, err
	}
	return &c, nil
}

type txRef struct {
	name string
	off  int
}

func (c catTx) refs() []txRef {
	out := []txRef{}
	for _, in := range c.Ins {
		out = append(out, txRef{in[0].(string), int(in[1].(float64))})
	}
	sort.Slice(out, func(i, j int) bool {
		if out[i].name != out[j].name {
			return out[i].name < out[j].name
		}
		return out[i].off < out[j].off
	})
	return out
}

// xsim is the concretisation of one behaviour.
type xsim struct {
	cat     *catalog
	node    *fx.Node
	name    string
	window  int
	genesis []byte
	txs     map[string]*pb.Transaction // abstract tx name -> pristine real tx
	names   map[string]string          // hex txid -> abstract name (incl. "g" and awards "awN")
	ids     map[string]int             // block id -> abstract id
	blocks  map[int]*pb.InternalBlock  // abstract id -> pristine block
	n       int
	uniq    int
	recover chan struct{}
	params0 string // chain-governed parameters of the freshly created node
}

func txid(tx *pb.Transaction) ([]byte, error) { return txhash.MakeTransactionID(tx) }

func addrOf(name string) string {
	if name == "$" {
		return "$"
	}
	return fx.GetKey(name).Address
}

func newXSim(name string, cat *catalog, window int) (*xsim, error) {
	pre := map[string]string{}
	order := []string{}
	for _, o := range cat.Genesis {
		pre[o.To] = new(big.Int).Mul(big.NewInt(o.Amt), amtScale).String()
		order = append(order, o.To)
	}
	g := fx.Genesis(fx.GenesisOpts{Predist: pre, PredistList: order, Award: new(big.Int).Mul(big.NewInt(cat.Award.Base), amtScale).String(), Window: window, Miner: "m", MaxBlockMB: maxBlockMB,
		NoDecay:  amtScale.Cmp(big.NewInt(1)) != 0, // CalcAward's decay path works on int64: scaled awards need the exact path
		DecayGap: cat.Award.Gap, DecayNum: cat.Award.Num, DecayDen: cat.Award.Den})
	if cat.Award.Gap != 0 && amtScale.Cmp(big.NewInt(1)) != 0 {
		return nil, fmt.Errorf("a decaying award schedule cannot be combined with -scale")
	}
	s := &xsim{cat: cat, name: name, window: window, genesis: g, txs: map[string]*pb.Transaction{}, names: map[string]string{},
		ids: map[string]int{}, blocks: map[int]*pb.InternalBlock{}, n: 1, recover: make(chan struct{}, 16)}
	node, err := fx.NewNode(name, g)
	if err != nil {
		return nil, err
	}
	s.node = node
	s.params0 = paramsOf(node.State.GetMeta())
	s.ids[string(node.RootBlk.Blockid)] = 1
	s.blocks[1] = proto.Clone(node.RootBlk).(*pb.InternalBlock)
	rtx, err := txn.GenerateRootTx(g)
	if err != nil {
		return nil, err
	}
	s.txs["g"] = rtx
	s.names[hex.EncodeToString(rtx.Txid)] = "g"
	state.VerifHook = func(site string) {
		if site == "recover_done" {
			s.recover <- struct{}{}
		}
	}
	return s, nil
}

func (s *xsim) outOf(name string, off int) catOut {
	if name == "g" {
		return s.cat.Genesis[off]
	}
	return s.cat.Tx[name].Outs[off]
}

func sortedKeys(m map[string]string) []string {
	ks := []string{}
	for k, v := range m {
		if v != "-" {
			ks = append(ks, k)
		}
	}
	sort.Strings(ks)
	return ks
}

// tx builds (once) the real transaction standing for abstract transaction name.
func (s *xsim) tx(name string) (*pb.Transaction, error) {
	if t, ok := s.txs[name]; ok {
		return t, nil
	}
	c, ok := s.cat.Tx[name]
	if !ok {
		return nil, fmt.Errorf("transaction %q is not in the catalogue", name)
	}
	tx := &pb.Transaction{Version: 3, Nonce: "n-" + name, Timestamp: 1, Desc: []byte(name)}
	if c.Big { // 300 KB description: three of them exceed the pool budget of a 1 MB block (0.8 MB)
		tx.Desc = append(tx.Desc, bytes.Repeat([]byte{'#'}, 300*1024)...)
	}
	signers := []string{}
	addSigner := func(a string) {
		for _, x := range signers {
			if x == a {
				return
			}
		}
		signers = append(signers, a)
	}
	for _, r := range c.refs() {
		ref, err := s.tx(r.name)
		if err != nil {
			return nil, err
		}
		o := s.outOf(r.name, r.off)
		cited := o.Amt
		if c.Bad == "amount" {
			cited-- // the input cites less than the output holds
		}
		tx.TxInputs = append(tx.TxInputs, &protos.TxInput{RefTxid: ref.Txid, RefOffset: int32(r.off),
			FromAddr: []byte(addrOf(o.To)), Amount: amtBytes(cited, false), FrozenHeight: o.Fz})
		addSigner(o.To)
		if c.Bad == "dupin" { // the same output listed twice
			tx.TxInputs = append(tx.TxInputs, proto.Clone(tx.TxInputs[len(tx.TxInputs)-1]).(*protos.TxInput))
		}
	}
	if c.Bad == "dupfar" && len(tx.TxInputs) > 1 { // the first input once more after the others
		tx.TxInputs = append(tx.TxInputs, proto.Clone(tx.TxInputs[0]).(*protos.TxInput))
	}
	if c.Bad == "mbsum" { // an annotation anybody can attach: it must not switch any check off
		tx.ModifyBlock = &pb.ModifyBlock{}
	}
	if c.Bad == "coinbase" { // submitted on its own it claims to be a coinbase
		tx.Coinbase = true
	}
	for _, o := range c.Outs {
		tx.TxOutputs = append(tx.TxOutputs, &protos.TxOutput{ToAddr: []byte(addrOf(o.To)), Amount: amtBytes(o.Amt, true), FrozenHeight: o.Fz})
	}
	prog := []fx.VOp{}
	if c.Alias {
		// first in the read / write lists: a never-written key of bucket "v" named "b"+k, so that bucket + key
		// concatenated equals kvBucket + k (records are identified by (bucket, key), not by the concatenation)
		for _, k := range sortedKeys(c.Writes) {
			tx.TxInputsExt = append(tx.TxInputsExt, &protos.TxInputExt{Bucket: aliasBucket, Key: []byte("b" + k)})
			tx.TxOutputsExt = append(tx.TxOutputsExt, &protos.TxOutputExt{Bucket: aliasBucket, Key: []byte("b" + k), Value: []byte("a")})
			prog = append(prog, fx.VOp{"put", aliasBucket, "b" + k, "a"})
		}
	}
	for _, k := range sortedKeys(c.Reads) {
		in := &protos.TxInputExt{Bucket: kvBucket, Key: []byte(k)}
		if v := c.Reads[k]; v != "none" {
			ref, err := s.tx(v)
			if err != nil {
				return nil, err
			}
			in.RefTxid = ref.Txid
			off := -1
			for i, o := range ref.TxOutputsExt {
				if string(o.Key) == k {
					off = i
				}
			}
			if off < 0 {
				return nil, fmt.Errorf("catalogue: %s reads %s@%s but %s does not write it", name, k, v, v)
			}
			in.RefOffset = int32(off)
		}
		tx.TxInputsExt = append(tx.TxInputsExt, in)
		prog = append(prog, fx.VOp{"get", kvBucket, k})
	}
	for _, k := range sortedKeys(c.Writes) {
		v := c.Writes[k]
		if v == "DEL" {
			tx.TxOutputsExt = append(tx.TxOutputsExt, &protos.TxOutputExt{Bucket: kvBucket, Key: []byte(k), Value: []byte("\x00")})
			prog = append(prog, fx.VOp{"del", kvBucket, k})
		} else {
			tx.TxOutputsExt = append(tx.TxOutputsExt, &protos.TxOutputExt{Bucket: kvBucket, Key: []byte(k), Value: []byte(v)})
			prog = append(prog, fx.VOp{"put", kvBucket, k, v})
		}
	}
	if c.Big {
		// a big transaction also writes padCount keys of an unobserved bucket, so that the state effects of its block
		// exceed 100 KB (a block's effects and its pointer move are ONE storage write however big the block)
		for i := 0; i < padCount; i++ {
			k := []byte(fmt.Sprintf("%s-%04d", name, i))
			tx.TxInputsExt = append(tx.TxInputsExt, &protos.TxInputExt{Bucket: padBucket, Key: k})
			tx.TxOutputsExt = append(tx.TxOutputsExt, &protos.TxOutputExt{Bucket: padBucket, Key: k, Value: []byte("x")})
		}
		prog = append(prog, fx.VOp{"pad", padBucket, name, strconv.Itoa(padCount)})
	}
	if len(prog) > 0 {
		pj, _ := json.Marshal(prog)
		tx.ContractRequests = []*protos.InvokeRequest{{ModuleName: "xkernel", ContractName: fx.VProgName, MethodName: "run",
			Args: map[string][]byte{"prog": pj}}}
	}
	if len(signers) == 0 {
		signers = []string{"a"}
	}
	tx.Initiator = addrOf(signers[0])
	for _, a := range signers {
		tx.AuthRequire = append(tx.AuthRequire, addrOf(a))
	}
	for i, a := range signers {
		k := fx.GetKey(a)
		sig, err := txhash.ProcessSignTx(fx.Crypto, tx, []byte(k.PrivStr))
		if err != nil {
			return nil, err
		}
		si := &protos.SignatureInfo{PublicKey: k.PubStr, Sign: sig}
		if i == 0 {
			tx.InitiatorSigns = []*protos.SignatureInfo{si}
		}
		tx.AuthRequireSigns = append(tx.AuthRequireSigns, si)
	}
	var err error
	tx.Txid, err = txhash.MakeTransactionID(tx)
	if err != nil {
		return nil, err
	}
	s.txs[name] = tx
	s.names[hex.EncodeToString(tx.Txid)] = name
	return tx, nil
}

func (s *xsim) award(b int, height int64) *pb.Transaction {
	name := "aw" + strconv.Itoa(b)
	tx := &pb.Transaction{Version: 3, Coinbase: true, Desc: []byte(name), Timestamp: int64(1000 + b)}
	tx.TxOutputs = []*protos.TxOutput{{ToAddr: []byte(addrOf("m")), Amount: amtBytes(s.cat.awardAt(height), true)}}
	tx.Txid, _ = txhash.MakeTransactionID(tx)
	s.names[hex.EncodeToString(tx.Txid)] = name
	return tx
}

func (s *xsim) txName(txid []byte) string {
	if len(txid) == 0 {
		return "none"
	}
	if n, ok := s.names[hex.EncodeToString(txid)]; ok {
		return n
	}
	return "?" + hex.EncodeToString(txid)[:8]
}

func (s *xsim) abs(id []byte) int {
	if a, ok := s.ids[string(id)]; ok {
		return a
	}
	return -1
}

// build formats the block that becomes abstract block s.n+1 on parent p with the given user txs.
func (s *xsim) build(p int, names []string) (*pb.InternalBlock, error) {
	pb0 := s.blocks[p]
	if pb0 == nil {
		return nil, fmt.Errorf("unknown parent %d", p)
	}
	b := s.n + 1
	aw := s.award(b, pb0.Height+1)
	list := []*pb.Transaction{aw}
	for _, nm := range names {
		t, err := s.tx(nm)
		if err != nil {
			return nil, err
		}
		if c := s.cat.Tx[nm]; c.Bad == "coinbase" {
			// folded into the block's coinbase: its inputs and outputs ride on the award transaction (no signature)
			aw.TxInputs = append(aw.TxInputs, t.TxInputs...)
			aw.TxOutputs = append(aw.TxOutputs, t.TxOutputs...)
			delete(s.names, hex.EncodeToString(aw.Txid))
			aw.Txid, _ = txhash.MakeTransactionID(aw)
			s.names[hex.EncodeToString(aw.Txid)] = "aw" + strconv.Itoa(b)
			continue
		}
		list = append(list, proto.Clone(t).(*pb.Transaction))
	}
	m := fx.GetKey("m")
	return s.node.Ledger.FormatMinerBlock(list, []byte(m.Address), m.Priv, int64(b), 0, 0, pb0.Blockid, 0, s.node.State.GetTotal(), nil, nil, pb0.Height+1)
}

func (s *xsim) confirm(blk *pb.InternalBlock) (bool, error) {
	pristine := proto.Clone(blk).(*pb.InternalBlock)
	st := s.node.Ledger.ConfirmBlock(blk, false)
	if !st.Succ {
		return false, nil
	}
	s.n++
	s.ids[string(pristine.Blockid)] = s.n
	s.blocks[s.n] = pristine
	return true, nil
}

func staleErr(err error) bool {
	switch err {
	case utxo.ErrUTXONotFound, utxo.ErrUTXOFrozen, utxo.ErrUnexpected, utxo.ErrUTXODuplicated,
		state.ErrRWSetInvalid, state.ErrDoubleSpent, state.ErrUTXODuplicated, state.ErrUnexpected:
		return true
	}
	return false
}

func strs(v interface{}) []string {
	out := []string{}
	if a, ok := v.([]interface{}); ok {
		for _, x := range a {
			if str, ok := x.(string); ok {
				out = append(out, str)
			}
		}
	}
	return out
}

// step executes one abstract operation; it returns the result class and extra fields to record.
// directPct: percentage of submissions handed to State.DoTx without a preceding VerifyTx (the path of the
// re-admission after a walk and of any caller of the public DoTx); the result classes are the same.
var directPct int
var directRng *rand.Rand

func (s *xsim) step(op fx.Ev) (res string, extra fx.Ev, err error) {
	defer func() {
		if r := recover(); r != nil {
			res, extra, err = "panic", fx.Ev{"panic": fmt.Sprint(r)}, nil
		}
	}()
	st := s.node.State
	extra = fx.Ev{}
	// A generated operation may name a block the real node never stored (see ledger.go): record and go on.
	for _, f := range []string{"p", "b", "d"} {
		if op.Has(f) && s.blocks[op.Int(f)] == nil {
			return "noblock", extra, nil
		}
	}
	switch op.Str("op") {
	case "submit":
		t, err := s.tx(op.Str("t"))
		if err != nil {
			return "", nil, err
		}
		tx := proto.Clone(t).(*pb.Transaction)
		if directPct > 0 && directRng != nil && directRng.Intn(100) < directPct {
			extra["direct"] = true
		} else {
			ok, verr := st.VerifyTx(tx)
			if !ok || verr != nil {
				if staleErr(verr) {
					return "stale", extra, nil
				}
				extra["err"] = fmt.Sprint(verr)
				return "other", extra, nil
			}
		}
		err = st.DoTx(tx)
		if err == nil {
			return "admit", extra, nil
		}
		if err == state.ErrAlreadyInUnconfirmed {
			// a pending transaction has consumed its own inputs: refused like any stale one
			return "stale", extra, nil
		}
		if staleErr(err) {
			return "stale", extra, nil
		}
		extra["err"] = err.Error()
		return "other", extra, nil
	case "mkblock":
		var blk *pb.InternalBlock
		var err error
		if mined, _ := op["mined"].(bool); mined {
			var names []interface{}
			blk, names, err = s.pack()
			extra["txs"] = names
		} else {
			blk, err = s.build(op.Int("p"), strs(op["txs"]))
		}
		if err != nil {
			return "", nil, err
		}
		ok, err := s.confirm(blk)
		if err != nil {
			return "", nil, err
		}
		if !ok {
			return "fail", extra, nil
		}
		return "ok", extra, nil
	case "play":
		blk := s.blocks[op.Int("b")]
		if blk == nil {
			return "", nil, fmt.Errorf("unknown block %d", op.Int("b"))
		}
		if err := st.PlayAndRepost(blk.Blockid, false, false); err != nil {
			extra["err"] = err.Error()
			return "fail", extra, nil
		}
		return "ok", extra, nil
	case "mine":
		// A mined block is two storage writes (ledger confirmation, then PlayForMiner); it is recorded as
		// two events ("mkblock" on the pointer, then "pfm") by expand(); step never sees "mine".
		return "", nil, fmt.Errorf("mine must be expanded")
	case "pfm":
		blk := s.blocks[op.Int("b")]
		if blk == nil {
			return "", nil, fmt.Errorf("unknown block %d", op.Int("b"))
		}
		if err := st.PlayForMiner(blk.Blockid); err != nil {
			extra["err"] = err.Error()
			return "fail", extra, nil
		}
		return "ok", extra, nil
	case "walk":
		blk := s.blocks[op.Int("d")]
		if blk == nil {
			return "", nil, fmt.Errorf("unknown block %d", op.Int("d"))
		}
		prune, _ := op["prune"].(bool)
		for len(s.recover) > 0 {
			<-s.recover
		}
		if err := st.Walk(blk.Blockid, prune); err != nil {
			extra["err"] = err.Error()
			return "fail", extra, nil
		}
		select {
		case <-s.recover:
		case <-time.After(20 * time.Second):
			return "", nil, fmt.Errorf("recoverUnconfirmedTx did not signal completion")
		}
		return "ok", extra, nil
	case "restart":
		node, err := fx.OpenNode(s.name)
		if err != nil {
			extra["err"] = err.Error()
			return "fail", extra, nil
		}
		node.RootBlk = s.node.RootBlk
		s.node = node
		return "ok", extra, nil
	}
	return "", nil, fmt.Errorf("unknown op %q", op.Str("op"))
}

// expand turns a generated "mine" into the two recorded operations: the block is packed by the engine's own
// Miner.packBlock (award from the genesis schedule, timer transaction, the pool in the pool's own order under the
// size limit; recorded, not chosen) on the pointer, then played for the miner.
func (s *xsim) expand(op fx.Ev) ([]fx.Ev, error) {
	if op.Str("op") != "mine" {
		return []fx.Ev{op}, nil
	}
	p := s.abs(s.node.State.GetLatestBlockid())
	return []fx.Ev{{"op": "mkblock", "p": p, "mined": true}, {"op": "pfm", "b": s.n + 1}}, nil
}

// pack calls the real packBlock of the engine's miner for the next height of the pointer's chain.
func (s *xsim) pack() (*pb.InternalBlock, []interface{}, error) {
	m := miner.NewMiner(s.node.Ctx)
	ph, err := s.node.Ledger.QueryBlockHeader(s.node.State.GetLatestBlockid())
	if err != nil {
		return nil, nil, err
	}
	blk, err := m.PackBlockForVerif(s.node.Ctx, ph.Height+1, time.Unix(0, int64(s.n+1)), nil)
	if err != nil {
		return nil, nil, err
	}
	names := []interface{}{}
	for _, t := range blk.Transactions {
		if t.Coinbase {
			s.names[hex.EncodeToString(t.Txid)] = "aw" + strconv.Itoa(s.n+1)
			continue
		}
		if t.Autogen {
			return nil, nil, fmt.Errorf("unexpected timer transaction in a packed block")
		}
		names = append(names, s.txName(t.Txid))
	}
	return blk, names, nil
}

// cuts reopens a node on the image after every prefix of the storage writes [a, b) the last operation issued
// (crash points, C06): the projection of the reopened node, then of the same node after "sync to the ledger
// tip" (Walk) followed by a roll-back of its pool.
func (s *xsim) cuts(base string, a, b int) ([]fx.Ev, error) {
	out := []fx.Ev{}
	log := fx.LogSnapshot()
	for j := 1; j <= b-a; j++ {
		cname := s.name + "cut"
		fx.CloneTree(fx.DataPrefix(base), fx.DataPrefix(cname))
		fx.ApplyLog(log[:a+j], s.node.Root, fx.DataPrefix(cname))
		c := fx.Ev{"j": j}
		nd, err := fx.OpenNode(cname)
		if err != nil {
			c["obs"] = xObs{Total: "open failed: " + err.Error()}
			out = append(out, c)
			fx.DropTree(fx.DataPrefix(cname))
			continue
		}
		c["obs"] = s.project(nd)
		// sync to the ledger tip
		for len(s.recover) > 0 {
			<-s.recover
		}
		if err := nd.State.Walk(nd.Ledger.GetMeta().TipBlockid, false); err != nil {
			c["syncres"] = "fail"
		} else {
			c["syncres"] = "ok"
			select {
			case <-s.recover:
			case <-time.After(20 * time.Second):
				return nil, fmt.Errorf("recoverUnconfirmedTx did not signal completion (cut)")
			}
		}
		if _, _, err := nd.State.RollBackUnconfirmedTx(); err != nil {
			c["syncres"] = "rollback failed: " + err.Error()
		}
		c["sync"] = s.project(nd)
		out = append(out, c)
		nd.Drop()
	}
	return out, nil
}

// replica builds a node that never saw the pool: it confirms the chain of abstract block b in order, walks to it
// and is projected; the block's own validity checks (VerifyBlock, award amount) are recorded too (C13).
func (s *xsim) replica(b int) (fx.Ev, error) {
	rname := s.name + "rep"
	nd, err := fx.NewNode(rname, s.genesis)
	if err != nil {
		return nil, err
	}
	defer nd.Drop()
	chain := []int{}
	for x := b; x > 1; x = s.abs(s.blocks[x].PreHash) {
		chain = append([]int{x}, chain...)
	}
	// the replica follows the chain either by one walk to its tip (the engine's sync path) or block by block with
	// PlayAndRepost right after each confirmation (alternating with the block number)
	playMode := b%2 == 1
	out := fx.Ev{"blockvalid": true, "mode": map[bool]string{true: "play", false: "walk"}[playMode]}
	for _, x := range chain {
		blk := proto.Clone(s.blocks[x]).(*pb.InternalBlock)
		if x == b {
			ok, _ := nd.Ledger.VerifyBlock(blk, "replica")
			for i, tx := range blk.Transactions {
				if !nd.Ledger.IsValidTx(i, tx, blk) {
					ok = false
				}
			}
			out["blockvalid"] = ok
		}
		if st := nd.Ledger.ConfirmBlock(blk, false); !st.Succ {
			out["res"] = "confirm_fail"
			out["obs"] = s.project(nd)
			return out, nil
		}
		if playMode {
			if err := nd.State.PlayAndRepost(s.blocks[x].Blockid, false, false); err != nil {
				out["res"] = "fail"
				out["failed_at"] = x
				out["obs"] = s.project(nd)
				return out, nil
			}
		}
	}
	if playMode {
		out["res"] = "ok"
		out["obs"] = s.project(nd)
		return out, nil
	}
	for len(s.recover) > 0 {
		<-s.recover
	}
	if err := nd.State.Walk(s.blocks[b].Blockid, false); err != nil {
		out["res"] = "fail"
	} else {
		out["res"] = "ok"
		select {
		case <-s.recover:
		case <-time.After(20 * time.Second):
			return nil, fmt.Errorf("recoverUnconfirmedTx did not signal completion (replica)")
		}
	}
	out["obs"] = s.project(nd)
	return out, nil
}

type keyObs struct {
	Ver string `json:"ver"`
	Val string `json:"val"`
}
type xObs struct {
	Ptr   int                 `json:"ptr"`
	Ltip  int                 `json:"ltip"`
	Irr   int64               `json:"irr"`
	Total string              `json:"total"`
	Bal   []string            `json:"bal"`
	Utxo  [][]interface{}     `json:"utxo"`
	Keys  map[string]keyObs   `json:"keys"`
	Pool  []string            `json:"pool"`
	Snap  []map[string]keyObs `json:"snap"`
	// frozen / unfrozen split per address (GetBalanceDetail), range scan of the whole bucket through the live
	// reader (Select), chain-governed parameters ("genesis" while they are what the genesis block configured)
	// the pool as the miner asks for it (GetUnconfirmedTx(true): without transactions already on the main chain) and the
	// order in which the pool yields its transactions (GetUnconfirmedTx(false), unsorted)
	Poold   []string `json:"poold"`
	Poolseq []string `json:"poolseq"`
	Bald    [][]string `json:"bald"`
	Scan   [][]string `json:"scan"`
	Params string     `json:"params"`
}

// paramsOf renders the chain-governed parameters of the state meta.
func paramsOf(m *pb.UtxoMeta) string {
	return fmt.Sprintf("maxblock=%d newacct=%d window=%d gas=%v reserved=%v forbidden=%v group=%v", m.GetMaxBlockSize(), m.GetNewAccountResourceAmount(),
		m.GetIrreversibleSlideWindow(), m.GetGasPrice(), m.GetReservedContracts(), m.GetForbiddenContract(), m.GetGroupChainContract())
}

func (s *xsim) keyObs(vd *kledger.VersionedData, err error) keyObs {
	if err != nil {
		return keyObs{Ver: "err", Val: err.Error()}
	}
	if vd == nil || len(vd.RefTxid) == 0 {
		return keyObs{Ver: "none", Val: "none"}
	}
	val := "none"
	if vd.PureData != nil {
		if bytes.Equal(vd.PureData.Value, []byte("\x00")) {
			val = "DEL"
		} else {
			val = string(vd.PureData.Value)
		}
	}
	return keyObs{Ver: s.txName(vd.RefTxid), Val: val}
}

// project issues the public queries the properties name on node nd.
func (s *xsim) project(nd *fx.Node) (o xObs) {
	// a query that panics is an answer like any other: it is recorded (and cannot equal the specification's)
	defer func() {
		if r := recover(); r != nil {
			o = xObs{Total: fmt.Sprintf("panic in a query: %v", r)}
		}
	}()
	st := nd.State
	o = xObs{Keys: map[string]keyObs{}, Utxo: [][]interface{}{}, Pool: []string{}, Snap: []map[string]keyObs{}, Bal: []string{}, Bald: [][]string{}, Scan: [][]string{}}
	o.Ptr = s.abs(st.GetLatestBlockid())
	o.Ltip = s.abs(nd.Ledger.GetMeta().TipBlockid)
	meta := st.GetMeta()
	o.Irr = meta.IrreversibleBlockHeight
	o.Total = unscale(st.GetTotal())
	if meta.UtxoTotal != st.GetTotal().String() {
		o.Total = "meta:" + meta.UtxoTotal + "/total:" + o.Total
	}
	if p := paramsOf(meta); s.params0 == "" || p == s.params0 {
		o.Params = "genesis"
	} else {
		o.Params = p
	}
	addrName := map[string]string{}
	for _, a := range s.cat.Addrs {
		addrName[addrOf(a)] = a
		b, err := st.GetBalance(addrOf(a))
		if err != nil {
			o.Bal = append(o.Bal, "err")
		} else {
			o.Bal = append(o.Bal, unscale(b))
		}
		row := []string{"err", "err"}
		if det, err := st.GetBalanceDetail(addrOf(a)); err == nil {
			row = []string{"0", "0"}
			for _, d := range det {
				v, ok := new(big.Int).SetString(d.Balance, 10)
				if !ok {
					row = []string{"bad:" + d.Balance, "bad"}
					break
				}
				if d.IsFrozen {
					row[1] = unscale(v)
				} else {
					row[0] = unscale(v)
				}
			}
		}
		o.Bald = append(o.Bald, row)
	}
	// raw scan of the UTXO table
	it := st.GetLDB().NewIteratorWithPrefix([]byte(pb.UTXOTablePrefix))
	for it.Next() {
		key := string(it.Key())[len(pb.UTXOTablePrefix):]
		parts := strings.Split(key, "_")
		if len(parts) < 3 {
			continue
		}
		item := &utxo.UtxoItem{}
		if err := item.Loads(it.Value()); err != nil {
			continue
		}
		addr := strings.Join(parts[:len(parts)-2], "_")
		txid, _ := hex.DecodeString(parts[len(parts)-2])
		off, _ := strconv.Atoi(parts[len(parts)-1])
		an := addrName[addr]
		if an == "" {
			an = "?" + addr
		}
		amt, aerr := strconv.Atoi(unscale(item.Amount))
		if aerr != nil {
			amt = -1
		}
		o.Utxo = append(o.Utxo, []interface{}{an, s.txName(txid), off, amt, item.FrozenHeight})
	}
	it.Release()
	rd := st.CreateXMReader()
	for _, k := range s.cat.Keys {
		o.Keys[k] = s.keyObs(rd.Get(kvBucket, []byte(k)))
	}
	if xit, err := rd.Select(kvBucket, []byte(""), []byte("")); err != nil {
		o.Scan = append(o.Scan, []string{"err", err.Error()})
	} else {
		for xit.Next() {
			ko := s.keyObs(xit.Value(), nil)
			o.Scan = append(o.Scan, []string{string(xit.Key()), ko.Ver})
		}
		if xit.Error() != nil {
			o.Scan = append(o.Scan, []string{"err", xit.Error().Error()})
		}
		xit.Close()
	}
	pending, err := st.GetUnconfirmedTx(false)
	if err != nil {
		o.Pool = append(o.Pool, "err")
	}
	o.Poold, o.Poolseq = []string{}, []string{}
	for _, t := range pending {
		o.Pool = append(o.Pool, s.txName(t.Txid))
		o.Poolseq = append(o.Poolseq, s.txName(t.Txid))
	}
	sort.Strings(o.Pool)
	if dd, err := st.GetUnconfirmedTx(true); err != nil {
		o.Poold = append(o.Poold, "err")
	} else {
		for _, t := range dd {
			o.Poold = append(o.Poold, s.txName(t.Txid))
		}
	}
	sort.Strings(o.Poold)
	// snapshots at every block of the pointer's chain, oldest first
	chain := []int{}
	cur := st.GetLatestBlockid()
	for len(cur) > 0 {
		a := s.abs(cur)
		if a < 0 {
			break
		}
		chain = append([]int{a}, chain...)
		cur = s.blocks[a].PreHash
	}
	if hdr, err := nd.Ledger.QueryBlockHeader(st.GetLatestBlockid()); err != nil || !hdr.InTrunk {
		chain = nil // snapshots are only specified for main-chain blocks (C18)
	}
	// the same observable through the other snapshot readers: when they disagree both answers are shown
	rawVal := func(v []byte, err error) string {
		if err != nil {
			return "err:" + err.Error()
		}
		if len(v) == 0 {
			return "none"
		}
		if bytes.Equal(v, []byte("\x00")) {
			return "DEL"
		}
		return string(v)
	}
	for i, a := range chain {
		row := map[string]keyObs{}
		snap, err := st.CreateSnapshot(s.blocks[a].Blockid)
		xsr, xerr := st.CreateXMSnapshotReader(s.blocks[a].Blockid)
		for _, k := range s.cat.Keys {
			if err != nil {
				row[k] = keyObs{Ver: "err", Val: err.Error()}
				continue
			}
			ko := s.keyObs(snap.Get(kvBucket, []byte(k)))
			if xerr != nil {
				ko.Val = "CreateXMSnapshotReader: " + xerr.Error()
			} else if v := rawVal(xsr.Get(kvBucket, []byte(k))); v != ko.Val {
				ko.Val = "CreateSnapshot:" + ko.Val + " / CreateXMSnapshotReader:" + v
			}
			if i == len(chain)-1 { // the tip readers
				if ts, err := st.GetTipSnapshot(); err != nil {
					ko.Val = "GetTipSnapshot: " + err.Error()
				} else if t := s.keyObs(ts.Get(kvBucket, []byte(k))); t != s.keyObs(snap.Get(kvBucket, []byte(k))) {
					ko.Val = fmt.Sprintf("CreateSnapshot:%v / GetTipSnapshot:%v", ko, t)
				}
				if tr, err := st.GetTipXMSnapshotReader(); err != nil {
					ko.Val = "GetTipXMSnapshotReader: " + err.Error()
				} else if v := rawVal(tr.Get(kvBucket, []byte(k))); v != rawVal(xsr.Get(kvBucket, []byte(k))) {
					ko.Val = "CreateXMSnapshotReader / GetTipXMSnapshotReader:" + v
				}
			}
			row[k] = ko
		}
		o.Snap = append(o.Snap, row)
	}
	return o
}

func xstateReplay(args []string) error {
	fs := flag.NewFlagSet("xstate-replay", flag.ExitOnError)
	in := fs.String("in", "", "directory of generated behaviours")
	out := fs.String("out", "trace.ndjson", "ndjson trace to write")
	catf := fs.String("catalog", "", "catalogue JSON written by the Gen module")
	window := fs.Int("window", 0, "irreversible slide window of the chain")
	reopen := fs.Bool("reopen", false, "also project a node reopened on a copy of the data after every step")
	faultPct := fs.Int("faults", 0, "percentage of operations whose (j+1)-th storage write is made to fail (C05)")
	replicaOn := fs.Bool("replica", false, "after every mined block replay its chain on a fresh replica (C13)")
	cutsOn := fs.Bool("cuts", false, "reopen a node after every prefix of each operation's storage writes (crash points)")
	fs.IntVar(&maxBlockMB, "maxmb", 0, "max block size of the chain in MB (0 = 16)")
	fs.IntVar(&directPct, "direct", 0, "percentage of submissions that go to State.DoTx without VerifyTx")
	scale := fs.String("scale", "1", "factor applied to every abstract amount (decimal)")
	enc := fs.String("enc", "", "lz = outputs carry a leading zero byte")
	fs.Parse(args)
	if _, ok := amtScale.SetString(*scale, 10); !ok || amtScale.Sign() <= 0 {
		return fmt.Errorf("bad -scale %q", *scale)
	}
	amtLeadZero = *enc == "lz"
	cat, err := loadCatalog(*catf)
	if err != nil {
		return err
	}
	behs, err := fx.LoadBehaviours(*in)
	if err != nil {
		return err
	}
	tw, err := fx.NewTraceWriter(*out)
	if err != nil {
		return err
	}
	defer tw.Close()
	ops, ncuts, nfaults, nreplicas := 0, 0, 0, 0
	for k, beh := range behs {
		s, err := newXSim(fmt.Sprintf("X%d", k), cat, *window)
		if err != nil {
			return err
		}
		tw.Emit(fx.Ev{"op": "reset", "tr": k})
		base := s.name + "base"
		if *cutsOn || *faultPct > 0 {
			fx.CloneTree(s.node.Root, fx.DataPrefix(base))
			fx.StartLog()
		}
		rng := rand.New(rand.NewSource(seed()*7919 + int64(k)))
		directRng = rand.New(rand.NewSource(seed()*104729 + int64(k)))
		i := 0
		for _, gop := range beh {
			sub, err := s.expand(gop)
			if err != nil {
				return fmt.Errorf("behaviour %d (%v): %v", k, gop, err)
			}
			for _, op := range sub {
				// C05: with probability faultPct the (j+1)-th storage write of the operation is made to fail; the
				// failed attempt is recorded (live and reopened projection), then the operation is run again.
				if *faultPct > 0 && op.Str("op") != "restart" && rng.Intn(100) < *faultPct {
					j := rng.Intn(4)
					a0 := fx.LogLen()
					fx.FailAfter(j)
					res, extra, err := s.step(op)
					triggered := !fx.FailPending()
					fx.FailAfter(-1)
					if err != nil {
						return fmt.Errorf("behaviour %d step %d (%v, fault %d): %v", k, i, op, j, err)
					}
					if triggered {
						if res == "ok" && (op.Str("op") == "mkblock") {
							return fmt.Errorf("behaviour %d step %d: ledger stored a block although its write failed", k, i)
						}
						ev := fx.Ev{"tr": k, "i": i, "fault": j, "done": fx.LogLen() - a0}
						for kk, v := range op {
							ev[kk] = v
						}
						for kk, v := range extra {
							ev[kk] = v
						}
						ev["res"] = res
						ev["obs"] = s.project(s.node)
						if r, err := s.node.Clone(s.name + "r"); err != nil {
							ev["reopen_err"] = err.Error()
						} else {
							ev["robs"] = s.project(r)
							r.Drop()
						}
						tw.Emit(ev)
						ops++
						i++
						nfaults++
					} else {
						// the operation issued fewer writes: it ran normally; record it as such
						ev := fx.Ev{"tr": k, "i": i}
						for kk, v := range op {
							ev[kk] = v
						}
						for kk, v := range extra {
							ev[kk] = v
						}
						ev["res"] = res
						ev["obs"] = s.project(s.node)
						tw.Emit(ev)
						ops++
						i++
						continue
					}
				}
				a := fx.LogLen()
				res, extra, err := s.step(op)
				if err != nil {
					return fmt.Errorf("behaviour %d step %d (%v): %v", k, i, op, err)
				}
				ev := fx.Ev{"tr": k, "i": i}
				for kk, v := range op {
					ev[kk] = v
				}
				for kk, v := range extra {
					ev[kk] = v
				}
				ev["res"] = res
				ev["obs"] = s.project(s.node)
				if *reopen {
					r, err := s.node.Clone(s.name + "r")
					if err != nil {
						ev["reopen_err"] = err.Error()
					} else {
						ev["robs"] = s.project(r)
						r.Drop()
					}
				}
				if *replicaOn && op.Str("op") == "pfm" && res == "ok" {
					rep, err := s.replica(op.Int("b"))
					if err != nil {
						return err
					}
					ev["replica"] = rep
					nreplicas++
				}
				if *cutsOn {
					b := fx.LogLen()
					if op.Str("op") == "walk" {
						// order in which rolled-back transactions were re-admitted: each re-admission is one
						// write that puts the transaction into the unconfirmed table
						order := []string{}
						for _, e := range fx.LogSnapshot()[a:b] {
							for _, o := range e.Ops {
								if !o.Del && strings.HasPrefix(string(o.K), pb.UnconfirmedTablePrefix) && strings.HasSuffix(e.Path, "/utxoVM") {
									order = append(order, s.txName(o.K[len(pb.UnconfirmedTablePrefix):]))
								}
							}
						}
						ev["readmit"] = order
					}
					cs, err := s.cuts(base, a, b)
					if err != nil {
						return err
					}
					if len(cs) > 0 {
						ev["cuts"] = cs
						ncuts += len(cs)
					}
					state.VerifHook = func(site string) {
						if site == "recover_done" {
							s.recover <- struct{}{}
						}
					}
				}
				tw.Emit(ev)
				ops++
				i++
			}
		}
		if *cutsOn || *faultPct > 0 {
			fx.StopLog()
			fx.DropTree(fx.DataPrefix(base))
		}
		s.node.Drop()
	}
	tw.Emit(fx.Ev{"op": "reset", "tr": len(behs)}) // closing line: the last operation's cut is judged one step later
	fmt.Printf("{\"behaviours\":%d,\"ops\":%d,\"cuts\":%d,\"faults\":%d,\"replicas\":%d}\n", len(behs), ops, ncuts, nfaults, nreplicas)
	return nil
}
