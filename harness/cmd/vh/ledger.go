package main

import (
	"crypto/sha256"
	"encoding/hex"
	"flag"
	"fmt"
	"math/big"
	"math/rand"
	"regexp"
	"sort"

	"github.com/golang/protobuf/proto"
	"github.com/xuperchain/xupercore/bcs/ledger/xledger/ledger"
	"github.com/xuperchain/xupercore/bcs/ledger/xledger/state/utxo/txhash"
	pb "github.com/xuperchain/xupercore/bcs/ledger/xledger/xldgpb"
	"github.com/xuperchain/xupercore/protos"

	"verif/harness/fx"
)

// ledger-replay: execute TLC-generated behaviours of spec/Ledger.tla against the real ledger and
// record the projection after every step (C04; also the ledger half of C05/C06).

func init() {
	register("ledger-replay", "replay Ledger.tla behaviours on the real ledger, record ndjson", ledgerReplay)
}

// ledgerSim holds the concretisation of one behaviour.
type ledgerSim struct {
	node    *fx.Node
	ntx     int
	ids     map[string]int       // concrete block id -> abstract id
	blocks  map[int]*pb.InternalBlock // abstract id -> pristine copy of the submitted block
	n       int                  // abstract ids handed out
	counter int                  // unique counter for coinbase descs / timestamps
}

func newLedgerSim(name string, ntx int) (*ledgerSim, error) {
	g := fx.Genesis(fx.GenesisOpts{Predist: map[string]string{"a": "100"}, Award: "1"})
	node, err := fx.LedgerOnly(name, g)
	if err != nil {
		return nil, err
	}
	s := &ledgerSim{node: node, ntx: ntx, ids: map[string]int{}, blocks: map[int]*pb.InternalBlock{}, n: 1}
	s.ids[string(node.RootBlk.Blockid)] = 1
	s.blocks[1] = proto.Clone(node.RootBlk).(*pb.InternalBlock)
	return s, nil
}

// userTx is the (ledger-level) transaction standing for abstract tx id t: the ledger does not look
// inside transactions, only at their ids.
func userTx(t int) *pb.Transaction {
	h := sha256.Sum256([]byte(fmt.Sprintf("verif-ledger-tx-%d", t)))
	return &pb.Transaction{Version: 1, Txid: h[:], Desc: []byte(fmt.Sprintf("t%d", t)), Nonce: fmt.Sprint(t), Timestamp: int64(t)}
}

func awardTx(addr string, amount int64, uniq int) *pb.Transaction {
	tx := &pb.Transaction{Version: 1, Coinbase: true, Desc: []byte(fmt.Sprintf("award-%d", uniq)), Timestamp: int64(1000 + uniq)}
	tx.TxOutputs = []*protos.TxOutput{{ToAddr: []byte(addr), Amount: big.NewInt(amount).Bytes()}}
	tx.Txid, _ = txhash.MakeTransactionID(tx)
	return tx
}

func (s *ledgerSim) mkBlock(parent []byte, height int64, txs []int, coinbases int) (*pb.InternalBlock, error) {
	s.counter++
	m := fx.GetKey("m")
	list := []*pb.Transaction{}
	for i := 0; i < coinbases; i++ {
		list = append(list, awardTx(m.Address, 1, s.counter*10+i))
	}
	for _, t := range txs {
		list = append(list, userTx(t))
	}
	return s.node.Ledger.FormatMinerBlock(list, []byte(m.Address), m.Priv, int64(s.counter), 0, 0, parent, 0, big.NewInt(0), nil, nil, height)
}

func confirmClass(st ledger.ConfirmStatus) string {
	if !st.Succ {
		return "fail"
	}
	if st.TrunkSwitch {
		return "ok_switch"
	}
	if st.Orphan {
		return "ok_side"
	}
	return "ok"
}

func (s *ledgerSim) submit(b *pb.InternalBlock) string {
	l := s.node.Ledger
	existed := l.ExistBlock(b.Blockid)
	pristine := proto.Clone(b).(*pb.InternalBlock)
	st := l.ConfirmBlock(b, false)
	if !existed && l.ExistBlock(pristine.Blockid) {
		s.n++
		s.ids[string(pristine.Blockid)] = s.n
		s.blocks[s.n] = pristine
	}
	return confirmClass(st)
}

func (s *ledgerSim) step(op fx.Ev) (res string, err error) {
	defer func() {
		if r := recover(); r != nil {
			res, err = "panic", nil
		}
	}()
	l := s.node.Ledger
	// A generated operation may name a block the real ledger never stored (it refused a block the specification
	// accepts): that earlier divergence is what the validation reports; the driver just records and goes on.
	for _, f := range []string{"p", "b", "t"} {
		if op.Has(f) && s.blocks[op.Int(f)] == nil {
			return "noblock", nil
		}
	}
	switch op.Str("op") {
	case "confirm":
		p := s.blocks[op.Int("p")]
		if p == nil {
			return "", fmt.Errorf("unknown abstract parent %d", op.Int("p"))
		}
		// heights come from the harness's own copies: the driver must not depend on the ledger answering correctly
		b, err := s.mkBlock(p.Blockid, p.Height+1, op.Ints("txs"), 1)
		if err != nil {
			return "", err
		}
		return s.submit(b), nil
	case "confirm_dup":
		b := s.blocks[op.Int("b")]
		if b == nil {
			return "", fmt.Errorf("unknown abstract block %d", op.Int("b"))
		}
		return s.submit(proto.Clone(b).(*pb.InternalBlock)), nil
	case "confirm_badparent":
		h := sha256.Sum256([]byte(fmt.Sprintf("no-such-parent-%d", s.counter)))
		b, err := s.mkBlock(h[:], 3, nil, 1)
		if err != nil {
			return "", err
		}
		return s.submit(b), nil
	case "confirm_twocb":
		p := s.blocks[op.Int("p")]
		b, err := s.mkBlock(p.Blockid, p.Height+1, nil, 2)
		if err != nil {
			return "", err
		}
		return s.submit(b), nil
	case "confirm_removed":
		p := s.blocks[op.Int("p")]
		b, err := s.mkBlock(p.Blockid, p.Height+1, nil, 1)
		if err != nil {
			return "", err
		}
		return s.submit(b), nil
	case "restart":
		nd, err := fx.OpenLedgerOnly(s.node.Name)
		if err != nil {
			return "fail", nil
		}
		nd.RootBlk = s.node.RootBlk
		s.node = nd
		return "ok", nil
	case "truncate":
		t := s.blocks[op.Int("t")]
		if err := l.Truncate(t.Blockid); err != nil {
			return "fail", nil
		}
		return "ok", nil
	}
	return "", fmt.Errorf("unknown op %q", op.Str("op"))
}

func (s *ledgerSim) abs(id []byte) int {
	if len(id) == 0 {
		return 0
	}
	if a, ok := s.ids[string(id)]; ok {
		return a
	}
	return -1
}

type blkObs struct {
	Ex    bool `json:"ex"`
	Trunk bool `json:"trunk"`
	Next  int  `json:"next"`
	H     int  `json:"h"`
	Par   int  `json:"par"`
}
type txObs struct {
	Trunk bool `json:"trunk"`
	Blk   int  `json:"blk"`
}
type pathObs struct {
	U []int `json:"u"`
	T []int `json:"t"`
}
type ledgerObs struct {
	Tip     int         `json:"tip"`
	Th      int         `json:"th"`
	Blocks  []blkObs    `json:"blocks"`
	HBlocks []blkObs    `json:"hblocks"`
	Byh     []int       `json:"byh"`
	Txs     []txObs     `json:"txs"`
	Tips    []int       `json:"tips"`
	Paths   [][]pathObs `json:"paths"`
	// GetCommonParentBlockid of every pair of stored blocks; Dump(): per height the stored blocks (id, in-trunk flag)
	Lca  [][]int           `json:"lca"`
	Dump [][][]interface{} `json:"dump"`
}

// projectLedger issues every query the property names on ledger l and maps the answers back to
// abstract ids (shared by the live instance and reopened instances).
func (s *ledgerSim) projectLedger(l *ledger.Ledger) ledgerObs { return s.projectLedgerN(l, s.n) }

// projectLedgerN projects with respect to the first n abstract blocks only (crash images are judged against the
// state before the operation, whose numbering does not know the block being submitted, and the state after it).
func (s *ledgerSim) projectLedgerN(l *ledger.Ledger, n int) (o ledgerObs) {
	// a query that panics is an answer like any other: it is recorded (and cannot equal the specification's)
	defer func() {
		if r := recover(); r != nil {
			o.Tip, o.Th = -99, -99
			o.Tips = []int{-99}
		}
	}()
	o = ledgerObs{}
	meta := l.GetMeta()
	o.Tip = s.abs(meta.TipBlockid)
	o.Th = int(meta.TrunkHeight)
	conv := func(b *pb.InternalBlock, err error) blkObs {
		if err != nil || b == nil {
			return blkObs{}
		}
		return blkObs{Ex: true, Trunk: b.InTrunk, Next: s.abs(b.NextHash), H: int(b.Height), Par: s.abs(b.PreHash)}
	}
	alive := map[int]bool{}
	for a := 1; a <= n; a++ {
		id := s.blocks[a].Blockid
		if !l.ExistBlock(id) {
			o.Blocks = append(o.Blocks, blkObs{})
			o.HBlocks = append(o.HBlocks, blkObs{})
			continue
		}
		alive[a] = true
		o.Blocks = append(o.Blocks, conv(l.QueryBlock(id)))
		o.HBlocks = append(o.HBlocks, conv(l.QueryBlockHeader(id)))
	}
	for h := 0; h < n; h++ {
		b, err := l.QueryBlockByHeight(int64(h))
		if err != nil {
			o.Byh = append(o.Byh, 0)
		} else {
			o.Byh = append(o.Byh, s.abs(b.Blockid))
		}
	}
	for t := 1; t <= s.ntx; t++ {
		id := userTx(t).Txid
		x := txObs{Trunk: l.IsTxInTrunk(id)}
		if x.Trunk {
			if b, err := l.QueryBlockByTxid(id); err == nil {
				x.Blk = s.abs(b.Blockid)
			} else {
				x.Blk = -1
			}
			// the transaction record itself must name the same block
			if tx, err := l.QueryTransaction(id); err != nil || s.abs(tx.Blockid) != x.Blk {
				x.Blk = -2
			}
		}
		o.Txs = append(o.Txs, x)
	}
	tips, err := l.GetBranchInfo([]byte{}, -1)
	o.Tips = []int{}
	if err == nil {
		for _, t := range tips {
			o.Tips = append(o.Tips, s.abs([]byte(t)))
		}
	} else {
		o.Tips = append(o.Tips, -1)
	}
	sort.Ints(o.Tips)
	for a := 1; a <= n; a++ {
		row := []pathObs{}
		for b := 1; b <= n; b++ {
			p := pathObs{U: []int{}, T: []int{}}
			if alive[a] && alive[b] {
				u, t, err := l.FindUndoAndTodoBlocks(s.blocks[a].Blockid, s.blocks[b].Blockid)
				if err != nil {
					p.U = []int{-1}
				} else {
					for _, x := range u {
						p.U = append(p.U, s.abs(x.Blockid))
					}
					for _, x := range t {
						p.T = append(p.T, s.abs(x.Blockid))
					}
				}
			}
			row = append(row, p)
		}
		o.Paths = append(o.Paths, row)
	}
	s.projectExtra(l, n, alive, &o)
	return o
}

var dumpRe = regexp.MustCompile(`^\{ID:([0-9a-f]*),TxCount:\d+,InTrunk:(true|false),`)

// projectExtra adds the lowest-common-ancestor query and Dump to the projection.
func (s *ledgerSim) projectExtra(l *ledger.Ledger, n int, alive map[int]bool, o *ledgerObs) {
	for a := 1; a <= n; a++ {
		row := []int{}
		for b := 1; b <= n; b++ {
			x := 0
			if alive[a] && alive[b] {
				if id, err := l.GetCommonParentBlockid(s.blocks[a].Blockid, s.blocks[b].Blockid); err != nil {
					x = -1
				} else {
					x = s.abs(id)
				}
			}
			row = append(row, x)
		}
		o.Lca = append(o.Lca, row)
	}
	o.Dump = [][][]interface{}{}
	d, err := func() (d [][]string, err error) {
		defer func() {
			if r := recover(); r != nil {
				err = fmt.Errorf("panic: %v", r)
			}
		}()
		return l.Dump()
	}()
	if err != nil {
		o.Dump = append(o.Dump, [][]interface{}{{-1, false}})
		return
	}
	for _, level := range d {
		row := [][]interface{}{}
		for _, str := range level {
			m := dumpRe.FindStringSubmatch(str)
			if m == nil {
				row = append(row, []interface{}{-2, false})
				continue
			}
			id, _ := hex.DecodeString(m[1])
			row = append(row, []interface{}{s.abs(id), m[2] == "true"})
		}
		sort.Slice(row, func(i, j int) bool { return row[i][0].(int) < row[j][0].(int) })
		o.Dump = append(o.Dump, row)
	}
}

func ledgerReplay(args []string) error {
	fs := flag.NewFlagSet("ledger-replay", flag.ExitOnError)
	in := fs.String("in", "", "directory of generated behaviours")
	out := fs.String("out", "trace.ndjson", "ndjson trace to write")
	ntx := fs.Int("ntx", 3, "number of abstract tx ids (NTx of the spec)")
	reopen := fs.Bool("reopen", false, "also project a ledger reopened on a copy of the image after every step")
	faultPct := fs.Int("faults", 0, "percentage of operations whose first storage write is made to fail first (C05); the operation is then run again")
	cutsOn := fs.Bool("cuts", false, "reopen a ledger on the image after every prefix of each operation's storage writes (crash points, C06)")
	fs.Parse(args)
	behs, err := fx.LoadBehaviours(*in)
	if err != nil {
		return err
	}
	tw, err := fx.NewTraceWriter(*out)
	if err != nil {
		return err
	}
	defer tw.Close()
	ops, ncuts, nfaults := 0, 0, 0
	for k, beh := range behs {
		s, err := newLedgerSim(fmt.Sprintf("L%d", k), *ntx)
		if err != nil {
			return err
		}
		tw.Emit(fx.Ev{"op": "reset", "tr": k})
		base := fmt.Sprintf("L%dbase", k)
		if *cutsOn {
			fx.CloneTree(s.node.Root, fx.DataPrefix(base))
			fx.StartLog()
		}
		rng := rand.New(rand.NewSource(seed()*6007 + int64(k)))
		for i, op := range beh {
			// C05: the operation's first storage write fails: it must report failure and leave no trace, live and reopened
			if *faultPct > 0 && rng.Intn(100) < *faultPct {
				fx.FailAfter(0)
				fres, ferr := s.step(op)
				if ferr != nil {
					return fmt.Errorf("behaviour %d step %d (faulted): %v", k, i, ferr)
				}
				if fx.FailPending() { // the operation issued no write: nothing was injected
					fx.FailAfter(-1)
				} else {
					fev := fx.Ev{"tr": k, "i": i, "fault": true, "res": fres, "obs": s.projectLedger(s.node.Ledger)}
					for kk, v := range op {
						if kk != "res" {
							fev[kk] = v
						}
					}
					if r, err := s.node.CloneLedgerOnly(fmt.Sprintf("L%dr", k)); err != nil {
						fev["reopen_err"] = err.Error()
					} else {
						fev["robs"] = s.projectLedger(r.Ledger)
						r.Drop()
					}
					tw.Emit(fev)
					nfaults++
				}
			}
			nPre, wa := s.n, fx.LogLen()
			res, err := s.step(op)
			if err != nil {
				return fmt.Errorf("behaviour %d step %d: %v", k, i, err)
			}
			var cutList []fx.Ev
			if *cutsOn {
				log := fx.LogSnapshot()
				for j := 0; j <= len(log)-wa; j++ {
					cname := fmt.Sprintf("L%dcut", k)
					fx.CloneTree(fx.DataPrefix(base), fx.DataPrefix(cname))
					fx.ApplyLog(log[:wa+j], s.node.Root, fx.DataPrefix(cname))
					c := fx.Ev{"j": j}
					if nd, err := fx.OpenLedgerOnly(cname); err != nil {
						c["pre"], c["post"] = "open failed: "+err.Error(), "open failed"
					} else {
						c["pre"], c["post"] = s.projectLedgerN(nd.Ledger, nPre), s.projectLedgerN(nd.Ledger, s.n)
					}
					fx.DropTree(fx.DataPrefix(cname))
					cutList = append(cutList, c)
					ncuts++
				}
			}
			ev := fx.Ev{"tr": k, "i": i, "res": res, "obs": s.projectLedger(s.node.Ledger)}
			if cutList != nil {
				ev["cuts"] = cutList
			}
			for kk, v := range op {
				if kk != "res" {
					ev[kk] = v
				}
			}
			if *reopen {
				r, err := s.node.CloneLedgerOnly(fmt.Sprintf("L%dr", k))
				if err != nil {
					ev["reopen_err"] = err.Error()
				} else {
					ev["robs"] = s.projectLedger(r.Ledger)
					r.Drop()
				}
			}
			tw.Emit(ev)
			ops++
		}
		s.node.Drop()
		if *cutsOn {
			fx.StopLog()
			fx.DropTree(fx.DataPrefix(base))
		}
	}
	fmt.Printf("{\"behaviours\":%d,\"ops\":%d,\"cuts\":%d,\"faults\":%d}\n", len(behs), ops, ncuts, nfaults)
	return nil
}
