package main

import (
	"bytes"
	"flag"
	"fmt"
	"sync/atomic"
	"time"

	"github.com/golang/protobuf/proto"
	"github.com/xuperchain/xupercore/bcs/ledger/xledger/state"
	pb "github.com/xuperchain/xupercore/bcs/ledger/xledger/xldgpb"

	"verif/harness/fx"
)

// net-replay: behaviours of spec/Net.tla on a network of real engines in one process. Every node has its own ledger,
// state machine, contract manager, single consensus and Miner; a mined block is taken from the announcement the
// miner hands to its network (decoded from the SENDBLOCK / NEW_BLOCKID message) and delivered by calling the
// destination's Miner.ProcBlock, whose GET_BLOCK requests are answered from the blocks the network has produced;
// transactions are delivered by State.VerifyTx + DoTx. After every step every node is projected.

func init() {
	register("net-replay", "replay Net.tla behaviours on a network of real engines, record ndjson", netReplay)
}

type nsim struct {
	nodes   []*esim // node id k is nodes[k-1]
	store   *peerNet
	walks   int64
	recover int64
}

func newNSim(name string, cat *catalog, nn int) (*nsim, error) {
	ns := &nsim{store: &peerNet{store: map[string]*pb.InternalBlock{}}}
	for k := 1; k <= nn; k++ {
		xs, err := newXSim(fmt.Sprintf("%sn%d", name, k), cat, 0)
		if err != nil {
			return nil, err
		}
		if k > 1 { // one concretisation for the whole network: transactions, blocks and their names are shared
			first := ns.nodes[0].xsim
			if !bytes.Equal(first.node.RootBlk.Blockid, xs.node.RootBlk.Blockid) {
				return nil, fmt.Errorf("nodes disagree on the root block")
			}
			xs.txs, xs.names, xs.ids, xs.blocks = first.txs, first.names, first.ids, first.blocks
		}
		// every node has its own network endpoint (announcements are per node) over the shared block store
		e := &esim{xsim: xs, net: &peerNet{store: ns.store.store}, walks: &ns.walks, recover: &ns.recover}
		if err := e.attach(); err != nil {
			return nil, err
		}
		ns.nodes = append(ns.nodes, e)
	}
	state.VerifHook = func(site string) {
		switch site {
		case "walk_recover_start":
			atomic.AddInt64(&ns.walks, 1)
		case "recover_done":
			atomic.AddInt64(&ns.recover, 1)
		}
	}
	return ns, nil
}

func (ns *nsim) syncN() {
	m := 0
	for _, e := range ns.nodes {
		if e.n > m {
			m = e.n
		}
	}
	for _, e := range ns.nodes {
		e.n = m
	}
}

func (ns *nsim) node(k int) *esim {
	if k < 1 || k > len(ns.nodes) {
		return nil
	}
	return ns.nodes[k-1]
}

func (ns *nsim) step(op fx.Ev) (string, fx.Ev, error) {
	extra := fx.Ev{}
	ns.syncN()
	switch op.Str("op") {
	case "nsubmit", "ndelivertx":
		k := op.Int("i")
		if op.Str("op") == "ndelivertx" {
			k = op.Int("to")
		}
		e := ns.node(k)
		if e == nil {
			return "", nil, fmt.Errorf("no node %d", k)
		}
		return e.estep(fx.Ev{"op": "submit", "t": op.Str("t")})
	case "ndroptx", "ndropblk":
		return "-", extra, nil
	case "nmine":
		e := ns.node(op.Int("i"))
		if e == nil {
			return "", nil, fmt.Errorf("no node %d", op.Int("i"))
		}
		e.net.mu.Lock()
		before := len(e.net.sent)
		e.net.mu.Unlock()
		res, ex, err := e.estep(fx.Ev{"op": "mine"})
		if err != nil {
			return "", nil, err
		}
		if res == "ok" {
			// the announcement is sent by a goroutine of the miner: wait for it, it is what the peers receive
			deadline := time.Now().Add(10 * time.Second)
			for {
				e.net.mu.Lock()
				got := len(e.net.sent)
				e.net.mu.Unlock()
				if got > before {
					break
				}
				if time.Now().After(deadline) {
					ex["announce"] = "none"
					break
				}
				time.Sleep(200 * time.Microsecond)
			}
			e.net.mu.Lock()
			if len(e.net.sent) > before {
				ann := e.net.sent[len(e.net.sent)-1]
				tipBlk := e.blocks[e.n]
				if tipBlk == nil || !bytes.Equal(ann.Blockid, tipBlk.Blockid) {
					ex["announce"] = "other block"
				} else if len(ann.Transactions) > 0 {
					// full broadcast: what travels is the announced copy
					ns.store.store[string(ann.Blockid)] = proto.Clone(ann).(*pb.InternalBlock)
				} else {
					ns.store.store[string(ann.Blockid)] = proto.Clone(tipBlk).(*pb.InternalBlock)
				}
			}
			e.net.mu.Unlock()
		}
		return res, ex, nil
	case "ndeliverblk":
		e := ns.node(op.Int("to"))
		if e == nil {
			return "", nil, fmt.Errorf("no node %d", op.Int("to"))
		}
		b := e.blocks[op.Int("b")]
		if b == nil {
			return "noblock", extra, nil
		}
		ns.store.mu.Lock()
		wire := ns.store.store[string(b.Blockid)]
		ns.store.mu.Unlock()
		if wire == nil {
			return "noblock", extra, nil
		}
		perr := e.miner.ProcBlock(ectx(), proto.Clone(wire).(*pb.InternalBlock))
		if perr != nil {
			extra["err"] = perr.Error()
		}
		if err := e.quiesce(); err != nil {
			return "", nil, err
		}
		return classify(perr), extra, nil
	case "nrestart":
		e := ns.node(op.Int("i"))
		if e == nil {
			return "", nil, fmt.Errorf("no node %d", op.Int("i"))
		}
		return e.estep(fx.Ev{"op": "restart"})
	}
	return "", nil, fmt.Errorf("unknown net op %q", op.Str("op"))
}

func netReplay(args []string) error {
	fs := flag.NewFlagSet("net-replay", flag.ExitOnError)
	in := fs.String("in", "", "directory of generated behaviours")
	out := fs.String("out", "trace.ndjson", "ndjson trace to write")
	catf := fs.String("catalog", "", "catalogue JSON written by the Gen module")
	nn := fs.Int("nodes", 3, "number of nodes (constant Nodes = 1..n of the specification)")
	fs.Parse(args)
	cat, err := loadCatalog(*catf)
	if err != nil {
		return err
	}
	behs, err := fx.LoadBehaviours(*in)
	if err != nil {
		return err
	}
	tw, err := fx.NewTraceWriter(*out)
	if err != nil {
		return err
	}
	defer tw.Close()
	ops, deliveries := 0, 0
	for k, beh := range behs {
		ns, err := newNSim(fmt.Sprintf("N%d", k), cat, *nn)
		if err != nil {
			return err
		}
		tw.Emit(fx.Ev{"op": "reset", "tr": k})
		for i, op := range beh {
			res, extra, err := ns.step(op)
			if err != nil {
				return fmt.Errorf("behaviour %d step %d (%v): %v", k, i, op, err)
			}
			ev := fx.Ev{"tr": k}
			for kk, v := range op {
				ev[kk] = v
			}
			for kk, v := range extra {
				ev[kk] = v
			}
			ev["step"] = i
			ev["res"] = res
			obs := []xObs{}
			for _, e := range ns.nodes {
				obs = append(obs, e.project(e.node))
			}
			ev["obs"] = obs
			tw.Emit(ev)
			ops++
			if op.Str("op") == "ndeliverblk" {
				deliveries++
			}
		}
		for _, e := range ns.nodes {
			e.node.Drop()
		}
	}
	tw.Emit(fx.Ev{"op": "reset", "tr": len(behs)})
	fmt.Printf("{\"behaviours\":%d,\"ops\":%d,\"pushes\":%d}\n", len(behs), ops, deliveries)
	return nil
}
