package main

import (
	"flag"
	"fmt"
	"math/big"
	"strconv"
	"sync"
	"sync/atomic"
	"time"

	"github.com/golang/protobuf/proto"
	_ "github.com/xuperchain/xupercore/bcs/consensus/single"
	"github.com/xuperchain/xupercore/bcs/ledger/xledger/state"
	pb "github.com/xuperchain/xupercore/bcs/ledger/xledger/xldgpb"
	xctx "github.com/xuperchain/xupercore/kernel/common/xcontext"
	"github.com/xuperchain/xupercore/kernel/consensus"
	cctx "github.com/xuperchain/xupercore/kernel/consensus/context"
	"github.com/xuperchain/xupercore/kernel/engines/xuperos"
	"github.com/xuperchain/xupercore/kernel/engines/xuperos/agent"
	"github.com/xuperchain/xupercore/kernel/engines/xuperos/common"
	engconf "github.com/xuperchain/xupercore/kernel/engines/xuperos/config"
	"github.com/xuperchain/xupercore/kernel/engines/xuperos/miner"
	"github.com/xuperchain/xupercore/kernel/engines/xuperos/xpb"
	nctx "github.com/xuperchain/xupercore/kernel/network/context"
	"github.com/xuperchain/xupercore/kernel/network/p2p"
	"github.com/xuperchain/xupercore/lib/logs"
	"github.com/xuperchain/xupercore/lib/timer"
	"github.com/xuperchain/xupercore/protos"

	"verif/harness/fx"
)

// engine-replay: behaviours of spec/Engine.tla on the engine's real block pipeline: Miner.ProcBlock (size /
// in-sync / award checks, trySyncBlock, downloadMissBlock through a stub network that serves the pushed chain,
// batchConfirmBlock with the real single consensus, Walk), Miner.mining, State.Walk as the miner loop does.

func init() {
	register("engine-replay", "replay Engine.tla behaviours on the real Miner pipeline, record ndjson", engineReplay)
}

// peerNet is the network stub: it answers GET_BLOCK from the store of pushed blocks.
type peerNet struct {
	mu    sync.Mutex
	store map[string]*pb.InternalBlock
	// blocks the node's miner announced (SENDBLOCK carries the block, NEW_BLOCKID its id), decoded from the message
	sent []*pb.InternalBlock
}

func (n *peerNet) Start() {}
func (n *peerNet) Stop()  {}
func (n *peerNet) SendMessage(_ xctx.XContext, msg *protos.XuperMessage, _ ...p2p.OptionFunc) error {
	switch msg.GetHeader().GetType() {
	case protos.XuperMessage_SENDBLOCK, protos.XuperMessage_NEW_BLOCKID:
		blk := &pb.InternalBlock{}
		if err := p2p.Unmarshal(msg, blk); err != nil {
			return err
		}
		n.mu.Lock()
		n.sent = append(n.sent, blk)
		n.mu.Unlock()
	}
	return nil
}
func (n *peerNet) SendMessageWithResponse(ctx xctx.XContext, msg *protos.XuperMessage, opts ...p2p.OptionFunc) ([]*protos.XuperMessage, error) {
	if msg.GetHeader().GetType() != protos.XuperMessage_GET_BLOCK {
		return nil, fmt.Errorf("peerNet: unsupported request %v", msg.GetHeader().GetType())
	}
	var req xpb.BlockID
	if err := p2p.Unmarshal(msg, &req); err != nil {
		return nil, err
	}
	n.mu.Lock()
	blk := n.store[string(req.Blockid)]
	n.mu.Unlock()
	info := &xpb.BlockInfo{}
	if blk != nil {
		info.Block = proto.Clone(blk).(*pb.InternalBlock)
	}
	resp := p2p.NewMessage(protos.XuperMessage_GET_BLOCK_RES, info, p2p.WithBCName(fx.BCName), p2p.WithErrorType(protos.XuperMessage_SUCCESS))
	return []*protos.XuperMessage{resp}, nil
}
func (n *peerNet) NewSubscriber(protos.XuperMessage_MessageType, interface{}, ...p2p.SubscriberOption) p2p.Subscriber {
	return nil
}
func (n *peerNet) Register(p2p.Subscriber) error   { return nil }
func (n *peerNet) UnRegister(p2p.Subscriber) error { return nil }
func (n *peerNet) Context() *nctx.NetCtx           { return nil }
func (n *peerNet) PeerInfo() protos.PeerInfo       { return protos.PeerInfo{} }

type esim struct {
	*xsim
	net     *peerNet
	miner   *miner.Miner
	walks   *int64 // successful walks whose re-admission goroutine has started
	recover *int64 // re-admission goroutines finished
	trunc   []byte // truncate target the consensus hands to the next mining round (nil: none)
	chain   *xuperos.Chain // the engine's own entry point for submissions (Chain.SubmitTx)
	subs    int
}

// truncCons is the node's consensus with one addition: ProcessBeforeMiner asks for the truncation the behaviour
// prescribes (what tdpos / xpoa do when their bft layer rolls back).
type truncCons struct {
	consensus.ConsensusInterface
	e *esim
}

func (c *truncCons) ProcessBeforeMiner(ts int64) ([]byte, []byte, error) {
	t, st, err := c.ConsensusInterface.ProcessBeforeMiner(ts)
	if c.e.trunc != nil {
		t, c.e.trunc = c.e.trunc, nil
	}
	return t, st, err
}

func (e *esim) attach() error {
	nd := e.node
	nd.Ctx.EngCtx.EngCfg = engconf.GetDefEngineConf()
	nd.Ctx.EngCtx.Net = e.net
	lg, err := logs.NewLogger("", "consensus")
	if err != nil {
		return err
	}
	cc := cctx.ConsensusCtx{BcName: fx.BCName, Address: (*cctx.Address)(nd.Ctx.Address), Crypto: fx.Crypto,
		Contract: nd.Contract, Ledger: agent.NewLedgerAgent(nd.Ctx), Network: e.net}
	cc.XLog = lg
	cc.Timer = timer.NewXTimer()
	cons, err := consensus.NewPluggableConsensus(cc)
	if err != nil {
		return fmt.Errorf("consensus: %v", err)
	}
	nd.Ctx.Consensus = &truncCons{ConsensusInterface: cons, e: e}
	e.miner = miner.NewMiner(nd.Ctx)
	e.chain = xuperos.NewChainForVerif(nd.Ctx)
	return nil
}

// submitViaChain hands every second submission to the engine's Chain.SubmitTx (duplicate cache, "inputs required"
// rule, VerifyTx, DoTx; it decides on the error alone). Result classes: admitted; refused by verification or by
// DoTx = "stale"; refused for a reason that has nothing to do with input currency (duplicate cache, a transaction
// without token inputs on a chain with fees) = "other".
func (e *esim) submitViaChain(name string) (string, fx.Ev, error) {
	t, err := e.tx(name)
	if err != nil {
		return "", nil, err
	}
	extra := fx.Ev{"via": "chain"}
	serr := e.chain.SubmitTx(ectx(), proto.Clone(t).(*pb.Transaction))
	if serr == nil {
		return "admit", extra, nil
	}
	extra["err"] = serr.Error()
	ce := common.CastError(serr)
	if ce.Equal(common.ErrTxVerifyFailed) || ce.Equal(common.ErrSubmitTxFailed) {
		return "stale", extra, nil
	}
	return "other", extra, nil
}

func (e *esim) hook() {
	state.VerifHook = func(site string) {
		switch site {
		case "walk_recover_start":
			atomic.AddInt64(e.walks, 1)
		case "recover_done":
			atomic.AddInt64(e.recover, 1)
		}
	}
}

// quiesce waits until every re-admission goroutine started by a walk has finished.
func (e *esim) quiesce() error {
	deadline := time.Now().Add(20 * time.Second)
	for atomic.LoadInt64(e.walks) != atomic.LoadInt64(e.recover) {
		if time.Now().After(deadline) {
			return fmt.Errorf("re-admission goroutine did not finish")
		}
		time.Sleep(200 * time.Microsecond)
	}
	return nil
}

func ectx() xctx.XContext {
	lg, _ := logs.NewLogger("", "verif")
	return &xctx.BaseCtx{XLog: lg, Timer: timer.NewXTimer()}
}

// chainBlock formats a peer block on an explicit parent (which need not be in the ledger).
func (e *esim) chainBlock(parent *pb.InternalBlock, uniq int, names []string, award int64) (*pb.InternalBlock, error) {
	aw := e.award(uniq, parent.Height+1)
	if award != e.cat.awardAt(parent.Height+1) {
		aw.TxOutputs[0].Amount = amtBytes(award, true)
		aw.Desc = []byte("badaward" + strconv.Itoa(uniq))
		aw.Txid = nil
		id, err := txid(aw)
		if err != nil {
			return nil, err
		}
		aw.Txid = id
	}
	list := []*pb.Transaction{aw}
	for _, nm := range names {
		t, err := e.tx(nm)
		if err != nil {
			return nil, err
		}
		list = append(list, proto.Clone(t).(*pb.Transaction))
	}
	m := fx.GetKey("m")
	return e.node.Ledger.FormatMinerBlock(list, []byte(m.Address), m.Priv, int64(uniq), 0, 0, parent.Blockid, 0, big.NewInt(0), nil, nil, parent.Height+1)
}

func classify(err error) string {
	if err == nil {
		return "ok"
	}
	if ce, ok := err.(*common.Error); ok && ce.Code == common.ErrForbidden.Code {
		return "forbidden"
	}
	return "error"
}

func seqsOf(v interface{}) [][]string {
	out := [][]string{}
	if a, ok := v.([]interface{}); ok {
		for _, x := range a {
			out = append(out, strs(x))
		}
	}
	return out
}

func (e *esim) estep(op fx.Ev) (string, fx.Ev, error) {
	extra := fx.Ev{}
	switch op.Str("op") {
	case "push":
		parent := e.blocks[op.Int("p")]
		if parent == nil {
			return "noblock", extra, nil
		}
		kind := op.Str("kind")
		seqs := seqsOf(op["seqs"])
		chain := []*pb.InternalBlock{}
		for i, names := range seqs {
			award := e.cat.awardAt(parent.Height + 1)
			if kind == "badaward" && i == len(seqs)-1 {
				award++
			}
			e.uniq++
			b, err := e.chainBlock(parent, 5000+e.uniq, names, award)
			if err != nil {
				return "", nil, err
			}
			if kind == "badsig"+strconv.Itoa(i+1) && len(b.Sign) > 8 {
				b.Sign[len(b.Sign)/2] ^= 0x40
			}
			chain = append(chain, b)
			parent = b
		}
		e.net.mu.Lock()
		for _, b := range chain {
			e.net.store[string(b.Blockid)] = proto.Clone(b).(*pb.InternalBlock)
		}
		e.net.mu.Unlock()
		last := proto.Clone(chain[len(chain)-1]).(*pb.InternalBlock)
		perr := e.miner.ProcBlock(ectx(), last)
		res := classify(perr)
		if perr != nil {
			extra["err"] = perr.Error()
		}
		if err := e.quiesce(); err != nil {
			return "", nil, err
		}
		// blocks of the chain that the ledger stored get the next abstract ids, in chain order
		for _, b := range chain {
			if e.node.Ledger.ExistBlock(b.Blockid) {
				if _, known := e.ids[string(b.Blockid)]; !known {
					e.n++
					e.ids[string(b.Blockid)] = e.n
					e.blocks[e.n] = proto.Clone(b).(*pb.InternalBlock)
					e.names[fmt.Sprintf("%x", b.Transactions[0].Txid)] = "aw" + strconv.Itoa(e.n)
				}
			}
		}
		return res, extra, nil
	case "repush":
		b := e.blocks[op.Int("b")]
		if b == nil {
			return "noblock", extra, nil
		}
		res := classify(e.miner.ProcBlock(ectx(), proto.Clone(b).(*pb.InternalBlock)))
		if err := e.quiesce(); err != nil {
			return "", nil, err
		}
		return res, extra, nil
	case "tick":
		tip := e.node.Ledger.GetMeta().TipBlockid
		if string(tip) == string(e.node.State.GetLatestBlockid()) {
			return "ok", extra, nil
		}
		err := e.node.State.Walk(tip, false)
		if qerr := e.quiesce(); qerr != nil {
			return "", nil, qerr
		}
		if err != nil {
			return "fail", extra, nil
		}
		return "ok", extra, nil
	case "mine", "minetrunc":
		if op.Str("op") == "minetrunc" {
			d := e.blocks[op.Int("d")]
			if d == nil {
				return "noblock", extra, nil
			}
			e.trunc = d.Blockid
		}
		before := e.node.Ledger.GetMeta().TipBlockid
		err := e.miner.MiningForVerif(ectx())
		if qerr := e.quiesce(); qerr != nil {
			return "", nil, qerr
		}
		names := []interface{}{}
		e.trunc = nil
		tip := e.node.Ledger.GetMeta().TipBlockid
		if _, known := e.ids[string(tip)]; !known && string(tip) != string(before) {
			if blk, qerr := e.node.Ledger.QueryBlock(tip); qerr == nil {
				e.n++
				e.ids[string(tip)] = e.n
				cp := proto.Clone(blk).(*pb.InternalBlock)
				e.blocks[e.n] = cp
				for _, t := range blk.Transactions {
					if t.Coinbase {
						e.names[fmt.Sprintf("%x", t.Txid)] = "aw" + strconv.Itoa(e.n)
					} else if !t.Autogen {
						names = append(names, e.txName(t.Txid))
					}
				}
			}
		}
		extra["txs"] = names
		if err != nil {
			extra["err"] = err.Error()
			return "fail", extra, nil
		}
		return "ok", extra, nil
	case "restart":
		node, err := fx.OpenNode(e.name)
		if err != nil {
			return "fail", extra, nil
		}
		node.RootBlk = e.node.RootBlk
		e.node = node
		if err := e.attach(); err != nil {
			return "", nil, err
		}
		return "ok", extra, nil
	case "submit":
		e.subs++
		if e.subs%2 == 0 {
			return e.submitViaChain(op.Str("t"))
		}
		return e.step(op)
	}
	return "", nil, fmt.Errorf("unknown engine op %q", op.Str("op"))
}

func engineReplay(args []string) error {
	fs := flag.NewFlagSet("engine-replay", flag.ExitOnError)
	in := fs.String("in", "", "directory of generated behaviours")
	out := fs.String("out", "trace.ndjson", "ndjson trace to write")
	catf := fs.String("catalog", "", "catalogue JSON written by the Gen module")
	window := fs.Int("window", 0, "irreversible slide window of the chain")
	fs.Parse(args)
	cat, err := loadCatalog(*catf)
	if err != nil {
		return err
	}
	behs, err := fx.LoadBehaviours(*in)
	if err != nil {
		return err
	}
	tw, err := fx.NewTraceWriter(*out)
	if err != nil {
		return err
	}
	defer tw.Close()
	ops, pushes := 0, 0
	for k, beh := range behs {
		xs, err := newXSim(fmt.Sprintf("E%d", k), cat, *window)
		if err != nil {
			return err
		}
		e := &esim{xsim: xs, net: &peerNet{store: map[string]*pb.InternalBlock{}}, walks: new(int64), recover: new(int64)}
		e.hook()
		if err := e.attach(); err != nil {
			return err
		}
		tw.Emit(fx.Ev{"op": "reset", "tr": k})
		i := 0
		inPush := false
		for _, op := range beh {
			// the generated history also contains the specification's own micro-steps of a push: skip them
			switch op.Str("op") {
			case "push", "repush", "minetrunc":
				inPush = true
			case "pushend":
				inPush = false
				continue
			default:
				if inPush {
					continue
				}
			}
			if op.Str("op") == "walk" { // Tick is logged by the specification as the walk it performs
				op = fx.Ev{"op": "tick"}
			}
			if op.Str("op") == "mkblock" || op.Str("op") == "pfm" || op.Str("op") == "play" {
				continue
			}
			res, extra, err := e.estep(op)
			if err != nil {
				return fmt.Errorf("behaviour %d step %d (%v): %v", k, i, op, err)
			}
			ev := fx.Ev{"tr": k, "i": i}
			for kk, v := range op {
				ev[kk] = v
			}
			for kk, v := range extra {
				ev[kk] = v
			}
			ev["res"] = res
			ev["obs"] = e.project(e.node)
			tw.Emit(ev)
			ops++
			i++
			if op.Str("op") == "push" {
				pushes++
			}
		}
		e.node.Drop()
	}
	tw.Emit(fx.Ev{"op": "reset", "tr": len(behs)})
	fmt.Printf("{\"behaviours\":%d,\"ops\":%d,\"pushes\":%d}\n", len(behs), ops, pushes)
	return nil
}
