// Command c09 is the Go side of check C09 (contract effects: what was pre-executed is what is verified and
// committed).
//
// Every generated case (spec/Contract.tla: prior state of three keys, a program of the harness's own kernel
// contract, optionally another client's interleaved write, one tampering of the assembled transaction) is run
// on a REAL node (fx.NewNode: ledger + state machine + contract manager + acl on the in-memory kv engine):
//
//	setup       real transactions (State.DoTx) produce the prior state and fund the accounts
//	preexec     the engine's own Chain.PreExec (a Chain built over the fixture's ChainCtx by
//	            kernel/engines/xuperos/export_verif.go) with the request a client would send
//	interleave  another real transaction overwrites one key
//	submit      the transaction is assembled from the PreExec response exactly as a client does (inputs ext,
//	            outputs ext, requests with the returned resource limits, '$' fee output = gas used, contract utxo
//	            inputs / outputs, output to the contract), the tampering is applied, the transaction is signed,
//	            then State.VerifyTx and State.DoTx (= Chain.SubmitTx without its duplicate cache)
//
// After every step the three keys (value + version through State.CreateXMReader().Get) and the balances of
// initiator, contract, vault and recipient are projected.  The keys are read four ways: on the node that executed
// the steps (its version cache is warm), on a second node opened on the same stored data that executes nothing
// (every new version is resolved from the stored tables and the stored transaction, as after a restart, by a
// snapshot reader or after a cache eviction; for every n-th case additionally on a node reopened on a copy of the
// data), by a range read (Select) on both, and by following the stored version (QueryTx, TxOutputsExt[offset]).
// Odd cases keep the contract's keys in a bucket that sorts after "$transient", so that the records of the
// transient bucket precede the contract's writes in TxOutputsExt.  The driver never judges: spec/Trace_Contract.tla does.
package main

import (
	"encoding/json"
	"flag"
	"fmt"
	"os"
	"sort"
	"strings"

	"verif/harness/fx"
)

var reopenEvery int

func progOf(v interface{}) ([]step, error) {
	var prog []step
	b, _ := json.Marshal(v)
	err := json.Unmarshal(b, &prog)
	return prog, err
}

func strsOf(v interface{}) []string {
	out := []string{}
	if a, ok := v.([]interface{}); ok {
		for _, x := range a {
			s, _ := x.(string)
			out = append(out, s)
		}
	}
	return out
}

// runCase executes one behaviour and emits its trace lines.
func (w *world) runCase(tw *fx.TraceWriter, k int, beh []fx.Ev) error {
	c := newKase(w, k)
	tw.Emit(fx.Ev{"op": "reset", "tr": k, "res": "ok"})
	for i, op := range beh {
		ev := fx.Ev{"tr": k, "i": i}
		for kk, v := range op {
			ev[kk] = v
		}
		switch op.Str("op") {
		case "setup":
			if err := c.setup(strsOf(op["kv"]), op.Int("nu")); err != nil {
				return err
			}
			ev["res"] = "ok"
		case "preexec":
			prog, err := progOf(op["prog"])
			if err != nil {
				return err
			}
			res, msg := c.preexec(prog, op.Int("amt"))
			ev["res"] = res
			if msg != "" {
				ev["err"] = msg
			}
			w.stats["preexec_"+res]++
			for _, s := range prog {
				w.stats["step_"+s.Op]++
			}
		case "interleave":
			// every second case: the coming submission passes VerifyTx BEFORE this write lands and goes on with DoTx after it
			if k%2 == 1 {
				for _, nx := range beh[i+1:] {
					if nx.Str("op") == "submit" {
						c.prepareEarly(nx)
						w.stats["early_verified_submissions"]++
						break
					}
				}
			}
			if err := c.interleave(op.Int("n")); err != nil {
				return err
			}
			ev["res"] = "ok"
			w.stats["interleaves"]++
		case "submit":
			c.reopen = reopenEvery > 0 && k%reopenEvery == 0
			res, extra, err := c.submit(op)
			if err != nil {
				return err
			}
			for kk, v := range extra {
				ev[kk] = v
			}
			ev["res"] = res
			w.stats["submit_"+res]++
			w.stats["tk_"+op.Str("tk")+"_"+res]++
			if st, _ := extra["stage"].(string); st != "" {
				w.stats["reject_at_"+st]++
			}
		default:
			return fmt.Errorf("unknown op %q", op.Str("op"))
		}
		ev["obs"] = c.project()
		tw.Emit(ev)
		w.stats["ops"]++
	}
	w.stats["cases"]++
	return nil
}

func replay(args []string) error {
	fs := flag.NewFlagSet("replay", flag.ExitOnError)
	in := fs.String("in", "", "directory of generated behaviours")
	out := fs.String("out", "trace.ndjson", "ndjson trace to write")
	base := fs.Int("base", 0, "index of the first behaviour")
	perNode := fs.Int("per-node", 400, "cases run on one node before a fresh one is created")
	fs.IntVar(&reopenEvery, "reopen-every", 3, "after the submission of every n-th case the keys are also read on a node reopened on a copy of the data (0 = never)")
	fs.Parse(args)
	behs, err := fx.LoadBehaviours(*in)
	if err != nil {
		return err
	}
	tw, err := fx.NewTraceWriter(*out)
	if err != nil {
		return err
	}
	defer tw.Close()
	// the code under test prints utxo outputs on stdout in Flush; keep our own stdout for the stats line
	stdout := os.Stdout
	null, _ := os.OpenFile(os.DevNull, os.O_WRONLY, 0)
	os.Stdout = null
	defer func() { os.Stdout = stdout }()
	stats := map[string]int{}
	var w *world
	for i, beh := range behs {
		if w == nil || i%*perNode == 0 {
			if w != nil {
				w.node.Drop()
			}
			w, err = newWorld(fmt.Sprintf("c09-%d", i / *perNode))
			if err != nil {
				return err
			}
			w.stats = stats
		}
		if err := w.runCase(tw, *base+i, beh); err != nil {
			return fmt.Errorf("behaviour %d: %v", *base+i, err)
		}
	}
	if w != nil {
		w.node.Drop()
	}
	os.Stdout = stdout
	keys := []string{}
	for k := range stats {
		keys = append(keys, k)
	}
	sort.Strings(keys)
	parts := []string{}
	for _, k := range keys {
		parts = append(parts, fmt.Sprintf("%q:%d", k, stats[k]))
	}
	fmt.Printf("{%s}\n", strings.Join(parts, ","))
	return nil
}

func main() {
	if len(os.Args) < 2 || (os.Args[1] != "replay" && os.Args[1] != "probe") {
		fmt.Fprintln(os.Stderr, "usage: c09 replay -in <dir of behaviours> -out <trace.ndjson> | c09 probe")
		os.Exit(64)
	}
	work := os.Getenv("VERIF_WORK")
	if work == "" {
		var err error
		work, err = os.MkdirTemp("", "c09")
		if err != nil {
			panic(err)
		}
		defer os.RemoveAll(work)
	}
	fx.Init(work)
	var err error
	if os.Args[1] == "probe" {
		err = probe(os.Args[2:])
	} else {
		err = replay(os.Args[2:])
	}
	if err != nil {
		fmt.Fprintln(os.Stderr, "c09:", err)
		os.Exit(3)
	}
}
