package main

import (
	"encoding/hex"
	"encoding/json"
	"fmt"
	"math/big"
	"sort"
	"strconv"

	"github.com/golang/protobuf/proto"
	"github.com/xuperchain/xupercore/bcs/ledger/xledger/state"
	"github.com/xuperchain/xupercore/bcs/ledger/xledger/state/utxo/txhash"
	"github.com/xuperchain/xupercore/bcs/ledger/xledger/state/xmodel"
	pb "github.com/xuperchain/xupercore/bcs/ledger/xledger/xldgpb"
	xctx "github.com/xuperchain/xupercore/kernel/common/xcontext"
	"github.com/xuperchain/xupercore/kernel/contract/sandbox"
	"github.com/xuperchain/xupercore/kernel/engines/xuperos"
	kledger "github.com/xuperchain/xupercore/kernel/ledger"
	"github.com/xuperchain/xupercore/lib/timer"
	"github.com/xuperchain/xupercore/protos"

	"verif/harness/fx"
)

const (
	uAmt     = 2   // Contract!UAmt: every utxo of the contract's vault account is worth 2
	iniFunds = 100 // Contract!IniFunds: the initiator owns one utxo of 100
)

type utxoRef struct {
	addr   string
	txid   []byte
	offset int32
	amount *big.Int
}

func (u utxoRef) input() *protos.TxInput {
	return &protos.TxInput{RefTxid: u.txid, RefOffset: u.offset, FromAddr: []byte(u.addr), Amount: u.amount.Bytes()}
}

// world is one real node (ledger + state machine + contract manager + acl ...) with the engine's Chain on top.
type world struct {
	node *fx.Node
	// cold: a second node opened on the SAME stored data (the in-memory kv engine hands out one image per path) that executes
	// nothing: its caches know no version this world's transactions create, so it reads every new version the way a restarted
	// node, a snapshot reader or a node whose cache entry was evicted does - from the stored tables and the stored transaction
	cold  *fx.Node
	chain *xuperos.Chain
	ctx   xctx.XContext
	fund  utxoRef
	seq   int
	stats map[string]int
}

func newWorld(name string) (*world, error) {
	g := fx.Genesis(fx.GenesisOpts{Predist: map[string]string{"a": "1000000000000"}, Award: "1"})
	n, err := fx.NewNode(name, g)
	if err != nil {
		return nil, err
	}
	w := &world{node: n, stats: map[string]int{}}
	if w.cold, err = fx.OpenNode(name); err != nil {
		return nil, fmt.Errorf("second node on the same data: %v", err)
	}
	// the engine's own Chain over the fixture's chain context (export_verif.go in kernel/engines/xuperos)
	w.chain = xuperos.NewChainForVerif(n.Ctx)
	w.ctx = &xctx.BaseCtx{XLog: n.Ctx.XLog, Timer: timer.NewXTimer()}
	a := fx.GetKey("a").Address
	for _, tx := range n.RootBlk.Transactions {
		for i, o := range tx.TxOutputs {
			if string(o.ToAddr) == a {
				w.fund = utxoRef{addr: a, txid: tx.Txid, offset: int32(i), amount: new(big.Int).SetBytes(o.Amount)}
			}
		}
	}
	if w.fund.txid == nil {
		return nil, fmt.Errorf("no root output for the funding account")
	}
	return w, nil
}

// doSetupTx admits a hand-built transaction through State.DoTx (no contract request, so nothing to re-execute;
// the real xmodel version checks and table updates, the real utxo bookkeeping).
func (w *world) doSetupTx(tx *pb.Transaction) error {
	w.seq++
	tx.Version = 1
	tx.Nonce = fmt.Sprint(w.seq)
	tx.Timestamp = int64(w.seq)
	tx.Desc = []byte("c09-setup")
	id, err := txhash.MakeTransactionID(tx)
	if err != nil {
		return err
	}
	tx.Txid = id
	return w.node.State.DoTx(tx)
}

// kase is the concretisation of one generated case.
type kase struct {
	w      *world
	k      int
	name   string // contract name = address receiving transfers into the contract
	bucket string // bucket of the contract's keys: sorts before the transient bucket (even cases) or after it (odd cases)
	vault  string // account the contract transfers from
	rcpt   string // recipient of the contract's transfers
	ini    *fx.Key
	iniU   utxoRef
	txs    map[string]*pb.Transaction // abstract version name -> setup transaction
	names  map[string]string          // hex txid -> abstract version name
	amt    int
	reopen bool // the next projection also reads on a node reopened on a copy of the data
	resp   *protos.InvokeResponse
	robs   respObs
	setupN int
	// early: the transaction of the coming submission, assembled and handed to VerifyTx BEFORE another client's
	// interleaved write lands (the window between VerifyTx and DoTx of Chain.SubmitTx); the submission then goes on
	// with DoTx alone
	early    *earlySubmit
	lastWire *pb.Transaction
}

type earlySubmit struct {
	wire  *pb.Transaction
	res   string // "" = verified, go on with DoTx
	extra fx.Ev
}

func newKase(w *world, k int) *kase { return newKaseOwn(w, k, false) }

// newKaseOwn: own = the contract pays from the account that carries its own name (probes only).
func newKaseOwn(w *world, k int, own bool) *kase {
	c := &kase{w: w, k: k, name: fmt.Sprintf("$c9n%d", k), vault: fmt.Sprintf("c9v%d", k), rcpt: fmt.Sprintf("c9x%d", k),
		ini: fx.GetKey(fmt.Sprintf("c9a%d", k)), txs: map[string]*pb.Transaction{}, names: map[string]string{}, robs: noResp("none")}
	if own {
		c.vault = c.name
	}
	// the write set is ordered by bucket and key: "$c9n.." < "$transient" < "c9b..", so in odd cases the records of the transient
	// bucket (contract utxo inputs / outputs, events) precede the contract's writes in TxOutputsExt
	c.bucket = c.name
	if k%2 == 1 {
		c.bucket = fmt.Sprintf("c9b%d", k)
	}
	register(w.node.Contract.GetKernRegistry(), c.name, c.bucket, c.vault, c.rcpt)
	return c
}

// foreign: the bucket of another contract, ordered like the case's own with respect to the transient bucket.
func (c *kase) foreign() string { return c.bucket + "f" }

func (c *kase) remember(name string, tx *pb.Transaction) {
	c.txs[name] = tx
	c.names[hex.EncodeToString(tx.Txid)] = name
}

// setup: funds the initiator (one utxo of 100) and the vault (nu utxos of 2) and produces the prior state of the
// three keys with two real transactions: "s0" writes an old value "x" to every key that is not "never", "s"
// overwrites it with "o" (live) or deletes it (del).  So every such key has an older version besides its current one.
func (c *kase) setup(kv []string, nu int) error {
	w := c.w
	rd := w.node.State.CreateXMReader()
	s0 := &pb.Transaction{}
	f := &w.fund
	s0.TxInputs = []*protos.TxInput{f.input()}
	s0.TxOutputs = append(s0.TxOutputs, &protos.TxOutput{ToAddr: []byte(c.ini.Address), Amount: big.NewInt(iniFunds).Bytes()})
	for i := 0; i < nu; i++ {
		s0.TxOutputs = append(s0.TxOutputs, &protos.TxOutput{ToAddr: []byte(c.vault), Amount: big.NewInt(uAmt).Bytes()})
	}
	rest := new(big.Int).Sub(f.amount, big.NewInt(int64(iniFunds+nu*uAmt)))
	s0.TxOutputs = append(s0.TxOutputs, &protos.TxOutput{ToAddr: []byte(f.addr), Amount: rest.Bytes()})
	for i, st := range kv {
		if st == "never" {
			continue
		}
		s0.TxInputsExt = append(s0.TxInputsExt, &protos.TxInputExt{Bucket: c.bucket, Key: keyName(i + 1)})
		s0.TxOutputsExt = append(s0.TxOutputsExt, &protos.TxOutputExt{Bucket: c.bucket, Key: keyName(i + 1), Value: []byte("x")})
	}
	if err := w.doSetupTx(s0); err != nil {
		return fmt.Errorf("setup tx s0: %v", err)
	}
	f.txid, f.offset, f.amount = s0.Txid, int32(nu+1), rest
	c.iniU = utxoRef{addr: c.ini.Address, txid: s0.Txid, offset: 0, amount: big.NewInt(iniFunds)}
	c.remember("s0", s0)
	s := &pb.Transaction{}
	for i, st := range kv {
		if st == "never" {
			continue
		}
		vd, err := rd.Get(c.bucket, keyName(i+1))
		if err != nil {
			return err
		}
		val := []byte("o")
		if st == "del" {
			val = []byte(sandbox.DelFlag)
		}
		s.TxInputsExt = append(s.TxInputsExt, &protos.TxInputExt{Bucket: c.bucket, Key: keyName(i + 1), RefTxid: vd.RefTxid, RefOffset: vd.RefOffset})
		s.TxOutputsExt = append(s.TxOutputsExt, &protos.TxOutputExt{Bucket: c.bucket, Key: keyName(i + 1), Value: val})
	}
	if len(s.TxOutputsExt) > 0 {
		if err := w.doSetupTx(s); err != nil {
			return fmt.Errorf("setup tx s: %v", err)
		}
		c.remember("s", s)
	}
	return nil
}

// interleave: another client's transaction overwrites key n with "i" between pre-execution and submission.
func (c *kase) interleave(n int) error {
	vd, err := c.w.node.State.CreateXMReader().Get(c.bucket, keyName(n))
	if err != nil {
		return err
	}
	tx := &pb.Transaction{}
	tx.TxInputsExt = []*protos.TxInputExt{{Bucket: c.bucket, Key: keyName(n), RefTxid: vd.RefTxid, RefOffset: vd.RefOffset}}
	tx.TxOutputsExt = []*protos.TxOutputExt{{Bucket: c.bucket, Key: keyName(n), Value: []byte("i")}}
	if err := c.w.doSetupTx(tx); err != nil {
		return err
	}
	c.remember("i", tx)
	return nil
}

// ------------------------------------------------------------------ projections (public queries only)

type keyObs struct {
	Val string `json:"val"`
	Ver string `json:"ver"`
}
type balObs struct {
	A int64 `json:"a"`
	C int64 `json:"c"`
	V int64 `json:"v"`
	X int64 `json:"x"`
}
type readObs struct {
	N   int    `json:"n"`
	Ver string `json:"ver"`
}
type writeObs struct {
	N int    `json:"n"`
	V string `json:"v"`
}
type evObs struct {
	Name string `json:"name"`
	Body string `json:"body"`
}
type outObs struct {
	To  string `json:"to"`
	Amt int64  `json:"amt"`
}
type limObs struct {
	C int64 `json:"c"`
	X int64 `json:"x"`
}
type respObs struct {
	Res   string     `json:"res"` // none | ok | ok500 | fail
	Reads []readObs  `json:"reads"`
	Wr    []writeObs `json:"wr"`
	Ev    []evObs    `json:"ev"`
	Cin   int        `json:"cin"`
	Cout  []outObs   `json:"cout"`
	Tcin  int        `json:"tcin"`  // the same two sets as Flush wrote them into the transient bucket
	Tcout []outObs   `json:"tcout"` //
	Gas   int64      `json:"gas"`
	Lim   limObs     `json:"lim"`
	Other []string   `json:"other"` // anything a response should not contain (unknown buckets, keys, limits)
}
type obs struct {
	Keys      []keyObs `json:"keys"`    // read on the node that executed the steps (warm version cache)
	Cold      []keyObs `json:"cold"`    // read on the second node, which has nothing but the stored data
	Ref       []int    `json:"ref"`     // key of the write record each key's stored version refers to
	Scan      []int    `json:"scan"`    // range read over the bucket, first node
	Cscan     []int    `json:"cscan"`   // range read over the bucket, second node
	Foreign   []string `json:"foreign"` // versions of the same three keys in another contract's bucket
	Bal       balObs   `json:"bal"`
	Transient []string `json:"transient"` // versions of the three records of the transient bucket in the stored state
	Resp      respObs  `json:"resp"`
}

func noResp(res string) respObs {
	return respObs{Res: res, Reads: []readObs{}, Wr: []writeObs{}, Ev: []evObs{}, Cout: []outObs{}, Tcout: []outObs{}, Other: []string{}}
}

func (c *kase) verName(txid []byte) string {
	if len(txid) == 0 {
		return "none"
	}
	if n, ok := c.names[hex.EncodeToString(txid)]; ok {
		return n
	}
	return "?" + hex.EncodeToString(txid)[:8]
}

func (c *kase) keyIndex(bucket string, key []byte) int {
	if bucket != c.bucket || len(key) != 2 || key[0] != 'k' {
		return 0
	}
	n, err := strconv.Atoi(string(key[1:]))
	if err != nil || n < 1 || n > 3 {
		return 0
	}
	return n
}

func absVal(v []byte) string {
	if string(v) == sandbox.DelFlag {
		return "D"
	}
	return string(v)
}

func (c *kase) addrName(a []byte) string {
	switch string(a) {
	case c.ini.Address:
		return "a"
	case c.name:
		return "c"
	case c.vault:
		return "v"
	case c.rcpt:
		return "x"
	}
	return "?" + string(a)
}

func (c *kase) outs(os []*protos.TxOutput) []outObs {
	out := []outObs{}
	for _, o := range os {
		out = append(out, outObs{c.addrName(o.ToAddr), new(big.Int).SetBytes(o.Amount).Int64()})
	}
	return out
}

// readKeys: the three keys (value + version) through the public reader of one node.
func (c *kase) readKeys(rd kledger.XMReader) []keyObs {
	out := []keyObs{}
	for n := 1; n <= 3; n++ {
		vd, err := rd.Get(c.bucket, keyName(n))
		switch {
		case err != nil:
			out = append(out, keyObs{"err", err.Error()})
		case vd == nil || len(vd.RefTxid) == 0:
			out = append(out, keyObs{"-", "none"})
		case c.keyIndex(vd.GetPureData().GetBucket(), vd.GetPureData().GetKey()) != n:
			// the reader answered with a record of another key
			out = append(out, keyObs{"record " + vd.GetPureData().GetBucket() + "/" + string(vd.GetPureData().GetKey()), c.verName(vd.RefTxid)})
		case string(vd.GetPureData().GetValue()) == sandbox.DelFlag:
			out = append(out, keyObs{"-", c.verName(vd.RefTxid)})
		default:
			out = append(out, keyObs{string(vd.GetPureData().GetValue()), c.verName(vd.RefTxid)})
		}
	}
	return out
}

// scanKeys: the keys a range read over the whole bucket returns on one node: n = key n, -n = key n with the delete mark as
// its value, 0 = a record of no key of the case, -9 = the iterator failed.
func (c *kase) scanKeys(rd kledger.XMReader) []int {
	out := []int{}
	it, err := rd.Select(c.bucket, nil, nil)
	if err != nil {
		return []int{-9}
	}
	defer it.Close()
	for it.Next() {
		n := c.keyIndex(it.Value().GetPureData().GetBucket(), it.Key())
		if string(it.Value().GetPureData().GetValue()) == sandbox.DelFlag {
			n = -n
		}
		out = append(out, n)
	}
	if it.Error() != nil {
		out = append(out, -9)
	}
	return out
}

// refKeys: for every key, the key of the write record its stored version (transaction id, offset) refers to, as any client
// resolves it (QueryTx, TxOutputsExt[offset]): 0 = no version, -1 = no such transaction / record, -2 = a record of the transient
// bucket, -3 = a record of no key of the case.
func (c *kase) refKeys(st *state.State) []int {
	out := []int{}
	rd := st.CreateXMReader()
	for n := 1; n <= 3; n++ {
		vd, err := rd.Get(c.bucket, keyName(n))
		if err != nil {
			out = append(out, -1)
			continue
		}
		if vd == nil || len(vd.RefTxid) == 0 {
			out = append(out, 0)
			continue
		}
		tx, _, err := st.QueryTx(vd.RefTxid)
		if err != nil || tx == nil || int(vd.RefOffset) >= len(tx.TxOutputsExt) || vd.RefOffset < 0 {
			out = append(out, -1)
			continue
		}
		rec := tx.TxOutputsExt[vd.RefOffset]
		switch m := c.keyIndex(rec.Bucket, rec.Key); {
		case m != 0:
			out = append(out, m)
		case rec.Bucket == sandbox.TransientBucket:
			out = append(out, -2)
		default:
			out = append(out, -3)
		}
	}
	return out
}

func (c *kase) project() (o obs) {
	// a query that panics is an answer like any other: it is recorded (and cannot equal the specification's)
	defer func() {
		if r := recover(); r != nil {
			o = obs{Keys: []keyObs{}, Cold: []keyObs{}, Ref: []int{}, Scan: []int{}, Cscan: []int{}, Foreign: []string{}, Transient: []string{fmt.Sprintf("panic in a query: %v", r)}, Resp: c.robs}
		}
	}()
	st := c.w.node.State
	o = obs{Transient: []string{}, Resp: c.robs}
	rd := st.CreateXMReader()
	for _, k := range []string{"ContractUtxo.Inputs", "ContractUtxo.Outputs", "contractEvent"} {
		vd, err := rd.Get(sandbox.TransientBucket, []byte(k))
		switch {
		case err != nil:
			o.Transient = append(o.Transient, "err")
		case vd == nil || len(vd.RefTxid) == 0:
			o.Transient = append(o.Transient, "none")
		default:
			o.Transient = append(o.Transient, c.verName(vd.RefTxid))
		}
	}
	// the same three keys of another contract's bucket, which nothing may ever write
	o.Foreign = []string{}
	for n := 1; n <= 3; n++ {
		vd, err := rd.Get(c.foreign(), keyName(n))
		switch {
		case err != nil:
			o.Foreign = append(o.Foreign, "err")
		case vd == nil || len(vd.RefTxid) == 0:
			o.Foreign = append(o.Foreign, "none")
		default:
			o.Foreign = append(o.Foreign, c.verName(vd.RefTxid))
		}
	}
	crd := c.w.cold.State.CreateXMReader()
	o.Keys, o.Scan, o.Ref = c.readKeys(rd), c.scanKeys(rd), c.refKeys(st)
	o.Cold, o.Cscan = c.readKeys(crd), c.scanKeys(crd)
	c.w.stats["cold_reads"] += len(o.Cold)
	if c.reopen {
		// a third reader: a node opened NOW on a copy of the stored data (what a restart gives).  Its answers are merged into
		// those of the second node: where the two differ the recorded value shows both.
		c.reopen = false
		r, err := c.w.node.Clone(c.w.node.Name + "r")
		if err != nil {
			o.Cold = append(o.Cold, keyObs{"reopen failed", err.Error()})
		} else {
			rrd := r.State.CreateXMReader()
			rk, rs := c.readKeys(rrd), c.scanKeys(rrd)
			for i := range o.Cold {
				if i < len(rk) && rk[i] != o.Cold[i] {
					o.Cold[i] = keyObs{o.Cold[i].Val + " | reopened: " + rk[i].Val, o.Cold[i].Ver + " | reopened: " + rk[i].Ver}
				}
			}
			if fmt.Sprint(rs) != fmt.Sprint(o.Cscan) {
				o.Cscan = append(append(o.Cscan, -8), rs...)
			}
			r.Drop()
			c.w.stats["reopened_reads"] += len(rk)
		}
	}
	bal := func(a string) int64 {
		b, err := st.GetBalance(a)
		if err != nil {
			return -1
		}
		return b.Int64()
	}
	o.Bal = balObs{bal(c.ini.Address), bal(c.name), bal(c.vault), bal(c.rcpt)}
	return o
}

// projectResp turns the pre-execution response into the abstract record the specification speaks about.
func (c *kase) projectResp(r *protos.InvokeResponse) respObs {
	o := noResp("ok")
	if len(r.Responses) != 1 || len(r.Requests) != 1 {
		o.Other = append(o.Other, fmt.Sprintf("responses=%d requests=%d", len(r.Responses), len(r.Requests)))
	}
	for _, x := range r.Responses {
		if x.Status >= 400 {
			o.Res = "ok500"
		}
	}
	for _, in := range r.Inputs {
		n := c.keyIndex(in.Bucket, in.Key)
		if n == 0 {
			o.Other = append(o.Other, "read "+in.Bucket+"/"+string(in.Key))
			continue
		}
		o.Reads = append(o.Reads, readObs{n, c.verName(in.RefTxid)})
	}
	sort.Slice(o.Reads, func(i, j int) bool { return o.Reads[i].N < o.Reads[j].N })
	for _, out := range r.Outputs {
		if out.Bucket == sandbox.TransientBucket {
			switch string(out.Key) {
			case "ContractUtxo.Inputs":
				var ins []*protos.TxInput
				if err := xmodel.UnmsarshalMessages(out.Value, &ins); err != nil {
					o.Other = append(o.Other, "transient inputs: "+err.Error())
				}
				o.Tcin = len(ins)
			case "ContractUtxo.Outputs":
				var outs []*protos.TxOutput
				if err := xmodel.UnmsarshalMessages(out.Value, &outs); err != nil {
					o.Other = append(o.Other, "transient outputs: "+err.Error())
				}
				o.Tcout = c.outs(outs)
			case "contractEvent":
				var evs []*protos.ContractEvent
				if err := xmodel.UnmsarshalMessages(out.Value, &evs); err != nil {
					o.Other = append(o.Other, "transient events: "+err.Error())
				}
				for _, e := range evs {
					if e.Contract != c.name {
						o.Other = append(o.Other, "event of "+e.Contract)
					}
					o.Ev = append(o.Ev, evObs{e.Name, string(e.Body)})
				}
			default:
				o.Other = append(o.Other, "transient "+string(out.Key))
			}
			continue
		}
		n := c.keyIndex(out.Bucket, out.Key)
		if n == 0 {
			o.Other = append(o.Other, "write "+out.Bucket+"/"+string(out.Key))
			continue
		}
		o.Wr = append(o.Wr, writeObs{n, absVal(out.Value)})
	}
	sort.SliceStable(o.Wr, func(i, j int) bool { return o.Wr[i].N < o.Wr[j].N })
	for _, in := range r.UtxoInputs {
		if string(in.FromAddr) != c.vault || new(big.Int).SetBytes(in.Amount).Int64() != uAmt {
			o.Other = append(o.Other, fmt.Sprintf("utxo input of %s worth %s", in.FromAddr, new(big.Int).SetBytes(in.Amount)))
		}
	}
	o.Cin = len(r.UtxoInputs)
	o.Cout = c.outs(r.UtxoOutputs)
	o.Gas = r.GasUsed
	for _, q := range r.Requests {
		for _, l := range q.ResourceLimits {
			switch l.Type {
			case protos.ResourceType_CPU:
				o.Lim.C = l.Limit
			case protos.ResourceType_XFEE:
				o.Lim.X = l.Limit
			default:
				if l.Limit != 0 {
					o.Other = append(o.Other, fmt.Sprintf("limit %v=%d", l.Type, l.Limit))
				}
			}
		}
	}
	return o
}

// ------------------------------------------------------------------ pre-execution

func (c *kase) request(prog []step, amt int) *protos.InvokeRequest {
	pj, _ := json.Marshal(prog)
	req := &protos.InvokeRequest{ModuleName: "xkernel", ContractName: c.name, MethodName: "run", Args: map[string][]byte{"prog": pj}}
	if amt > 0 {
		req.Amount = strconv.Itoa(amt)
	}
	return req
}

// preexec calls the engine's own Chain.PreExec as an RPC client would.
func (c *kase) preexec(prog []step, amt int) (res string, msg string) {
	// a panic of the code under test is a result class of its own, which the specification never produces
	defer func() {
		if r := recover(); r != nil {
			c.resp, c.robs = nil, noResp("panic")
			res, msg = "panic", fmt.Sprint(r)
		}
	}()
	c.amt = amt
	resp, err := c.w.chain.PreExec(c.w.ctx, []*protos.InvokeRequest{c.request(prog, amt)}, c.ini.Address, []string{c.ini.Address})
	if err != nil {
		c.resp = nil
		c.robs = noResp("fail")
		return "fail", err.Error()
	}
	c.resp = resp
	c.robs = c.projectResp(resp)
	return c.robs.Res, ""
}

// ------------------------------------------------------------------ transaction assembly, tampering, submission

// parts are the pieces a client puts together from the pre-execution response.
type parts struct {
	reqs    []*protos.InvokeRequest
	insExt  []*protos.TxInputExt
	outsExt []*protos.TxOutputExt
	cIns    []*protos.TxInput  // contract-originated utxo inputs
	cOuts   []*protos.TxOutput // contract-originated utxo outputs
	toC     int64              // amount sent to the contract
	fee     int64              // amount of the '$' output; < 0: no such output
}

func (c *kase) honest() *parts {
	r := proto.Clone(c.resp).(*protos.InvokeResponse)
	p := &parts{reqs: r.Requests, insExt: r.Inputs, outsExt: r.Outputs, cIns: r.UtxoInputs, cOuts: r.UtxoOutputs, toC: int64(c.amt), fee: -1}
	if r.GasUsed > 0 {
		p.fee = r.GasUsed
	}
	return p
}

func (c *kase) setVersion(in *protos.TxInputExt, ver string) {
	if ver == "off" { // the same transaction, another offset
		in.RefOffset++
		return
	}
	in.RefTxid, in.RefOffset = nil, 0
	if ver == "none" {
		return
	}
	tx := c.txs[ver]
	if tx == nil {
		tx = c.txs["s0"] // a version name without a transaction of its own: any foreign version will do
	}
	in.RefTxid = tx.Txid
	for i, o := range tx.TxOutputsExt {
		if string(o.Key) == string(in.Key) {
			in.RefOffset = int32(i)
		}
	}
}

func (p *parts) transient(key string) *protos.TxOutputExt {
	for _, o := range p.outsExt {
		if o.Bucket == sandbox.TransientBucket && string(o.Key) == key {
			return o
		}
	}
	return nil
}

func concVal(v string) []byte {
	if v == "D" {
		return []byte(sandbox.DelFlag)
	}
	return []byte(v)
}

// tamper applies one abstract mutation (spec/Contract.tla, "Tampered") to the assembled pieces.
func (c *kase) tamper(p *parts, op fx.Ev) error {
	n, j, v, d := op.Int("n"), op.Int("j"), op.Str("v"), op.Str("d")
	switch op.Str("tk") {
	case "none":
	case "read_ver":
		for _, in := range p.insExt {
			if c.keyIndex(in.Bucket, in.Key) == n {
				c.setVersion(in, v)
				return nil
			}
		}
		return fmt.Errorf("read_ver: key %d is not in the read set", n)
	case "read_drop":
		for i, in := range p.insExt {
			if c.keyIndex(in.Bucket, in.Key) == n {
				p.insExt = append(p.insExt[:i], p.insExt[i+1:]...)
				return nil
			}
		}
		return fmt.Errorf("read_drop: key %d is not in the read set", n)
	case "read_add":
		vd, err := c.w.node.State.CreateXMReader().Get(c.bucket, keyName(n))
		if err != nil {
			return err
		}
		p.insExt = append(p.insExt, &protos.TxInputExt{Bucket: c.bucket, Key: keyName(n), RefTxid: vd.RefTxid, RefOffset: vd.RefOffset})
	case "write_drop", "write_val":
		at := -1
		for i, o := range p.outsExt {
			if c.keyIndex(o.Bucket, o.Key) == n {
				at = i
			}
		}
		if at < 0 {
			return fmt.Errorf("%s: key %d is not in the write set", op.Str("tk"), n)
		}
		if op.Str("tk") == "write_val" && v == "!" {
			// another value of the same length
			b := append([]byte{}, p.outsExt[at].Value...)
			if len(b) == 0 {
				return fmt.Errorf("write_val: the value of key %d is empty", n)
			}
			b[0] ^= 1
			p.outsExt[at].Value = b
		} else if op.Str("tk") == "write_val" {
			p.outsExt[at].Value = concVal(v)
		} else {
			p.outsExt = append(p.outsExt[:at], p.outsExt[at+1:]...)
		}
	case "write_bucket":
		// the record of key n names the same key in another contract's bucket; a read of that key (never written, so the
		// empty version is current) is declared with it, as xmodel.verifyOutputs demands for every written key
		for _, o := range p.outsExt {
			if c.keyIndex(o.Bucket, o.Key) == n {
				o.Bucket = c.foreign()
				p.insExt = append(p.insExt, &protos.TxInputExt{Bucket: c.foreign(), Key: keyName(n)})
				return nil
			}
		}
		return fmt.Errorf("write_bucket: key %d is not in the write set", n)
	case "write_add", "write_app", "write_rep":
		// one more record at the end of the write set (write_app: for a key that has a record already; write_rep: a copy of it)
		p.outsExt = append(p.outsExt, &protos.TxOutputExt{Bucket: c.bucket, Key: keyName(n), Value: concVal(v)})
	case "write_dup", "write_swap":
		// write_dup: the record of key n becomes a copy of the record of key j (the number of records stays);
		// write_swap: the two records change places
		at, from := -1, -1
		for i, o := range p.outsExt {
			switch c.keyIndex(o.Bucket, o.Key) {
			case n:
				at = i
			case j:
				from = i
			}
		}
		if at < 0 || from < 0 || at == from {
			return fmt.Errorf("%s: keys %d and %d are not both in the write set", op.Str("tk"), n, j)
		}
		if op.Str("tk") == "write_swap" {
			p.outsExt[at], p.outsExt[from] = p.outsExt[from], p.outsExt[at]
		} else {
			p.outsExt[at] = proto.Clone(p.outsExt[from]).(*protos.TxOutputExt)
		}
	case "read_dup":
		// one more record for a declared read, with version v, before the first record of the read set or after the last
		at := -1
		for i, in := range p.insExt {
			if c.keyIndex(in.Bucket, in.Key) == n {
				at = i
			}
		}
		if at < 0 {
			return fmt.Errorf("read_dup: key %d is not in the read set", n)
		}
		dup := proto.Clone(p.insExt[at]).(*protos.TxInputExt)
		c.setVersion(dup, v)
		if d == "first" {
			p.insExt = append([]*protos.TxInputExt{dup}, p.insExt...)
		} else {
			p.insExt = append(p.insExt, dup)
		}
	case "arg":
		var prog []step
		b, _ := json.Marshal(op["prog"])
		if err := json.Unmarshal(b, &prog); err != nil {
			return err
		}
		pj, _ := json.Marshal(prog)
		p.reqs[0].Args["prog"] = pj
	case "limit_below", "limit_above":
		typ, delta := protos.ResourceType_XFEE, int64(1)
		if d == "c" {
			typ = protos.ResourceType_CPU
		}
		if op.Str("tk") == "limit_below" {
			delta = -1
		} else {
			if d == "c" {
				delta = 1000 // one more unit of gas at cpu_rate 1000
			}
			if p.fee < 0 {
				p.fee = 0
			}
			p.fee++ // the client pays for the limit it declares
		}
		for _, l := range p.reqs[0].ResourceLimits {
			if l.Type == typ {
				l.Limit += delta
				return nil
			}
		}
		return fmt.Errorf("no limit of type %v in the request", typ)
	case "fee_below":
		if v == "absent" {
			p.fee = -1
		} else {
			p.fee--
		}
	case "fee_above":
		if p.fee < 0 {
			p.fee = 0
		}
		p.fee++
	case "req2_paid", "req2_unpaid":
		// a second request of the same contract: no reads, no writes, uses one cpu unit (= 1 gas) and declares exactly that
		r2 := c.request([]step{{Op: "use", V: "c", A: 1}}, 0)
		r2.ResourceLimits = []*protos.ResourceLimit{{Type: protos.ResourceType_CPU, Limit: cpuUnit}}
		p.reqs = append(p.reqs, r2)
		if op.Str("tk") == "req2_paid" {
			if p.fee < 0 {
				p.fee = 0
			}
			p.fee++
		}
	case "amt_req":
		p.reqs[0].Amount = strconv.Itoa(c.amt + 1)
	case "amt_out":
		p.toC++
	case "ev_alter", "ev_drop":
		t := p.transient("contractEvent")
		if t == nil {
			return fmt.Errorf("no event record in the write set")
		}
		var evs []*protos.ContractEvent
		if err := xmodel.UnmsarshalMessages(t.Value, &evs); err != nil {
			return err
		}
		if j < 1 || j > len(evs) {
			return fmt.Errorf("no event %d", j)
		}
		if op.Str("tk") == "ev_alter" {
			evs[j-1].Body = []byte(string(evs[j-1].Body) + "z")
		} else {
			evs = append(evs[:j-1], evs[j:]...)
		}
		if len(evs) == 0 {
			for i, o := range p.outsExt {
				if o == t {
					p.outsExt = append(p.outsExt[:i], p.outsExt[i+1:]...)
					break
				}
			}
			return nil
		}
		b, err := xmodel.MarshalMessages(evs)
		if err != nil {
			return err
		}
		t.Value = b
	case "ctr_alter":
		t := p.transient("ContractUtxo.Outputs")
		if t == nil {
			return fmt.Errorf("no utxo output record in the write set")
		}
		var outs []*protos.TxOutput
		if err := xmodel.UnmsarshalMessages(t.Value, &outs); err != nil {
			return err
		}
		outs[0].ToAddr = []byte(c.ini.Address)
		b, err := xmodel.MarshalMessages(outs)
		if err != nil {
			return err
		}
		t.Value = b
	case "redirect":
		sum := new(big.Int)
		for _, o := range p.cOuts {
			sum.Add(sum, new(big.Int).SetBytes(o.Amount))
		}
		p.cOuts = []*protos.TxOutput{{ToAddr: []byte(c.ini.Address), Amount: sum.Bytes()}}
	case "cout_drop":
		// one of the contract's outputs is left out of the real outputs; its amount stays with the client (change)
		if j < 1 || j > len(p.cOuts) {
			return fmt.Errorf("cout_drop: no contract output %d", j)
		}
		p.cOuts = append(append([]*protos.TxOutput{}, p.cOuts[:j-1]...), p.cOuts[j:]...)
	case "cout_less", "cout_freeze":
		// one of the contract's outputs differs among the real outputs: 1 less (the rest is the client's change) / frozen
		if j < 1 || j > len(p.cOuts) {
			return fmt.Errorf("%s: no contract output %d", op.Str("tk"), j)
		}
		o := proto.Clone(p.cOuts[j-1]).(*protos.TxOutput)
		if op.Str("tk") == "cout_less" {
			o.Amount = new(big.Int).Sub(new(big.Int).SetBytes(o.Amount), big.NewInt(1)).Bytes()
		} else {
			o.FrozenHeight = 1000000
		}
		p.cOuts = append(append(append([]*protos.TxOutput{}, p.cOuts[:j-1]...), o), p.cOuts[j:]...)
	case "cin_omit":
		p.cIns = nil
	case "cin_extra", "cin_steal":
		// one more utxo of the vault really spent; cin_extra: also declared as a contract input (transient bucket)
		var extra *protos.TxInput
		s0 := c.txs["s0"]
		for off, o := range s0.TxOutputs {
			if string(o.ToAddr) != c.vault {
				continue
			}
			used := false
			for _, in := range p.cIns {
				if string(in.RefTxid) == string(s0.Txid) && int(in.RefOffset) == off {
					used = true
				}
			}
			if !used {
				extra = &protos.TxInput{RefTxid: s0.Txid, RefOffset: int32(off), FromAddr: []byte(c.vault), Amount: o.Amount}
				break
			}
		}
		if extra == nil {
			return fmt.Errorf("%s: the vault has no further utxo", op.Str("tk"))
		}
		p.cIns = append(p.cIns, extra)
		if op.Str("tk") == "cin_steal" {
			return nil
		}
		b, err := xmodel.MarshalMessages(p.cIns)
		if err != nil {
			return err
		}
		if t := p.transient("ContractUtxo.Inputs"); t != nil {
			t.Value = b
		} else {
			p.outsExt = append(p.outsExt, &protos.TxOutputExt{Bucket: sandbox.TransientBucket, Key: []byte("ContractUtxo.Inputs"), Value: b})
		}
	case "req_drop":
		p.reqs = nil
	default:
		return fmt.Errorf("unknown tampering %q", op.Str("tk"))
	}
	return nil
}

// build assembles and signs the transaction as a client would.
func (c *kase) build(p *parts) (*pb.Transaction, error) {
	c.w.seq++
	tx := &pb.Transaction{Version: 3, Nonce: fmt.Sprintf("c09-%d", c.w.seq), Timestamp: int64(c.w.seq), Desc: []byte("c09"),
		Initiator: c.ini.Address, AuthRequire: []string{c.ini.Address}}
	tx.ContractRequests = p.reqs
	tx.TxInputsExt = p.insExt
	tx.TxOutputsExt = p.outsExt
	tx.TxInputs = append([]*protos.TxInput{c.iniU.input()}, p.cIns...)
	change := big.NewInt(iniFunds)
	for _, in := range p.cIns {
		change.Add(change, new(big.Int).SetBytes(in.Amount))
	}
	if p.toC > 0 {
		tx.TxOutputs = append(tx.TxOutputs, &protos.TxOutput{ToAddr: []byte(c.name), Amount: big.NewInt(p.toC).Bytes()})
		change.Sub(change, big.NewInt(p.toC))
	}
	if p.fee >= 0 {
		tx.TxOutputs = append(tx.TxOutputs, &protos.TxOutput{ToAddr: []byte("$"), Amount: big.NewInt(p.fee).Bytes()})
		change.Sub(change, big.NewInt(p.fee))
	}
	for _, o := range p.cOuts {
		change.Sub(change, new(big.Int).SetBytes(o.Amount))
	}
	if change.Sign() < 0 {
		return nil, fmt.Errorf("the case spends more than the initiator owns")
	}
	if change.Sign() > 0 {
		tx.TxOutputs = append(tx.TxOutputs, &protos.TxOutput{ToAddr: []byte(c.ini.Address), Amount: change.Bytes()})
	}
	tx.TxOutputs = append(tx.TxOutputs, p.cOuts...)
	sig, err := txhash.ProcessSignTx(fx.Crypto, tx, []byte(c.ini.PrivStr))
	if err != nil {
		return nil, err
	}
	si := &protos.SignatureInfo{PublicKey: c.ini.PubStr, Sign: sig}
	tx.InitiatorSigns = []*protos.SignatureInfo{si}
	tx.AuthRequireSigns = []*protos.SignatureInfo{si}
	tx.Txid, err = txhash.MakeTransactionID(tx)
	if err != nil {
		return nil, err
	}
	return tx, nil
}

// submit: State.VerifyTx then State.DoTx, exactly what Chain.SubmitTx does; reports the outcome class.
func (c *kase) submit(op fx.Ev) (res string, extra fx.Ev, err error) { return c.submitX(op, false) }

// prepareEarly assembles the transaction of the coming submission and hands it to VerifyTx now (before an interleaved write).
func (c *kase) prepareEarly(op fx.Ev) {
	res, extra, err := c.submitX(op, true)
	if err != nil {
		return // the submission will be assembled again at its own line and report the error there
	}
	if res == "inapplicable" {
		return
	}
	c.early = &earlySubmit{wire: c.lastWire, res: res, extra: extra}
}

// submitX: verifyNow = stop after VerifyTx (prepareEarly).
func (c *kase) submitX(op fx.Ev, verifyNow bool) (res string, extra fx.Ev, err error) {
	defer func() {
		if r := recover(); r != nil {
			res, extra, err = "panic", fx.Ev{"err": fmt.Sprintf("panic: %v", r)}, nil
		}
	}()
	extra = fx.Ev{}
	if c.resp == nil {
		extra["err"] = "submit without a pre-execution response"
		return "inapplicable", extra, nil
	}
	p := c.honest()
	// A tampering that cannot be applied, or a transaction that cannot be assembled, means that the response is not the
	// one the case was generated for (the preexec line has recorded that): reported as a class of its own, never judged here.
	if err := c.tamper(p, op); err != nil {
		extra["err"] = err.Error()
		return "inapplicable", extra, nil
	}
	tx, err := c.build(p)
	if err != nil {
		extra["err"] = err.Error()
		return "inapplicable", extra, nil
	}
	c.names[hex.EncodeToString(tx.Txid)] = "t"
	// the node receives the transaction over the wire
	raw, err := proto.Marshal(tx)
	if err != nil {
		return "", nil, err
	}
	wire := &pb.Transaction{}
	if err := proto.Unmarshal(raw, wire); err != nil {
		return "", nil, err
	}
	c.lastWire = wire
	st := c.w.node.State
	if c.early != nil && !verifyNow {
		// assembled and verified before the interleaved write (see prepareEarly)
		e := c.early
		c.early = nil
		wire, extra = e.wire, e.extra
		extra["early_verify"] = true
		c.names[hex.EncodeToString(wire.Txid)] = "t"
		if e.res != "" {
			return e.res, extra, nil
		}
	} else {
		ok, verr := st.VerifyTx(wire)
		if !ok || verr != nil {
			extra["stage"] = "verify"
			extra["err"] = fmt.Sprint(verr)
			return "reject", extra, nil
		}
		if verifyNow {
			return "", extra, nil
		}
	}
	if derr := st.DoTx(wire); derr != nil {
		extra["stage"] = "dotx"
		extra["err"] = derr.Error()
		return "reject", extra, nil
	}
	// exercise counter: committed write sets in which a record of the transient bucket precedes a write of the contract
	// (the offset part of a stored version is the index in the whole list)
	seenTransient := false
	for _, o := range wire.TxOutputsExt {
		if o.Bucket == sandbox.TransientBucket {
			seenTransient = true
		} else if seenTransient {
			c.w.stats["admit_write_after_transient"]++
			break
		}
	}
	return "admit", extra, nil
}
