package main

import (
	"encoding/json"
	"errors"
	"fmt"
	"math/big"
	"strconv"

	"github.com/xuperchain/xupercore/kernel/contract"
	"github.com/xuperchain/xupercore/kernel/contract/sandbox"
	"github.com/xuperchain/xupercore/protos"
)

// step is one step of a program of the harness's own kernel contract (spec/Contract.tla, "Step").
// The record is uniform so that TLC can keep steps in one set; which fields matter depends on Op:
//
//	get  N            read key N; the value seen ("-" = absent) is appended to the accumulator
//	put  N V          write V + ":" + accumulator to key N   (every write depends on every earlier read)
//	del  N            delete key N
//	scan A B          range scan [kA, kB), consumed to the end; "[n=value,...]" is appended to the accumulator
//	call Subp         nested ctx.Call of the second contract with program Subp; "(its accumulator)" is appended
//	xfer A            ctx.Transfer(vault account of the contract -> recipient, A)
//	emit V            ctx.AddEvent(name V, body = accumulator)
//	use  V A          ctx.AddResourceUsed: V = "x": XFee += A; V = "c": Cpu += 600*A
//	fail              the method returns a Go error
//	fail500           the method returns Response{Status: 500} and no error (what a failing wasm contract does)
type step struct {
	Op   string `json:"op"`
	N    int    `json:"n"`
	V    string `json:"v"`
	A    int    `json:"a"`
	B    int    `json:"b"`
	Sub  int    `json:"sub"`
	Subp []step `json:"subp,omitempty"`
}

const cpuUnit = 600 // Contract!CpuUnit

func keyName(n int) []byte { return []byte("k" + strconv.Itoa(n)) }

// ctr is one registered instance of the contract: its name, the bucket of its keys, the account it pays from,
// the recipient of its transfers and the name of the second contract it may call.
type ctr struct {
	name   string
	bucket string
	vault  string
	rcpt   string
	sub    string
}

func seen(v []byte, err error) string {
	if err == nil {
		return string(v)
	}
	if err == sandbox.ErrNotFound || err == sandbox.ErrHasDel {
		return "-" // R1: "not found" and "marked deleted" are one class: the key is absent
	}
	return "!"
}

func (c *ctr) run(ctx contract.KContext) (*contract.Response, error) {
	var prog []step
	if err := json.Unmarshal(ctx.Args()["prog"], &prog); err != nil {
		return nil, fmt.Errorf("c09: bad program: %v", err)
	}
	acc := ""
	for _, s := range prog {
		switch s.Op {
		case "get":
			acc += seen(ctx.Get(c.bucket, keyName(s.N)))
		case "put":
			if err := ctx.Put(c.bucket, keyName(s.N), []byte(s.V+":"+acc)); err != nil {
				return nil, err
			}
		case "del":
			if err := ctx.Del(c.bucket, keyName(s.N)); err != nil {
				return nil, err
			}
		case "scan":
			it, err := ctx.Select(c.bucket, keyName(s.A), keyName(s.B))
			if err != nil {
				return nil, err
			}
			acc += "["
			for it.Next() {
				acc += string(it.Key()[1:]) + "=" + string(it.Value()) + ","
			}
			err = it.Error()
			it.Close()
			if err != nil {
				return nil, err
			}
			acc += "]"
		case "call":
			if c.sub == "" {
				return nil, errors.New("c09: nested call inside a nested call")
			}
			pj, _ := json.Marshal(s.Subp)
			resp, err := ctx.Call("xkernel", c.sub, "run", map[string][]byte{"prog": pj})
			if err != nil {
				return nil, err
			}
			if resp.Status >= contract.StatusErrorThreshold {
				return nil, fmt.Errorf("c09: nested call failed with status %d", resp.Status)
			}
			acc += "(" + string(resp.Body) + ")"
		case "xfer":
			if err := ctx.Transfer(c.vault, c.rcpt, big.NewInt(int64(s.A))); err != nil {
				return nil, err
			}
		case "emit":
			ctx.AddEvent(&protos.ContractEvent{Contract: c.name, Name: s.V, Body: []byte(acc)})
		case "use":
			switch s.V {
			case "x":
				ctx.AddResourceUsed(contract.Limits{XFee: int64(s.A)})
			case "c":
				ctx.AddResourceUsed(contract.Limits{Cpu: int64(cpuUnit * s.A)})
			default:
				return nil, fmt.Errorf("c09: unknown resource %q", s.V)
			}
		case "fail":
			return nil, errors.New("c09: fail")
		case "fail500":
			return &contract.Response{Status: 500, Message: "c09: fail500", Body: []byte(acc)}, nil
		default:
			return nil, fmt.Errorf("c09: unknown step %q", s.Op)
		}
	}
	return &contract.Response{Status: 200, Message: "ok", Body: []byte(acc)}, nil
}

// register makes the contract (and its callee) known to the node's kernel-contract registry.
func register(reg contract.KernRegistry, name, bucket, vault, rcpt string) {
	top := &ctr{name: name, bucket: bucket, vault: vault, rcpt: rcpt, sub: name + "s"}
	sub := &ctr{name: name, bucket: bucket, vault: vault, rcpt: rcpt}
	reg.RegisterKernMethod(name, "run", top.run)
	reg.RegisterKernMethod(name+"s", "run", sub.run)
}
