package main

import (
	"encoding/json"
	"flag"
	"fmt"
	"os"

	"verif/harness/fx"
)

// probe: minimal reproductions of the findings of C09 against the real code (findings/C09.md); prints what
// happened, one JSON line per step.  `c09 probe` runs all, `c09 probe -only <name>` one.
type probeCase struct {
	name string
	what string
	own  bool // the contract pays from the account that carries its own name
	beh  string
}

var probes = []probeCase{
	{"honest", "control: get k1, put k2, emit; honest transaction", false,
		`[{"op":"setup","kv":["live","never","del"],"nu":2},
		  {"op":"preexec","amt":1,"prog":[{"op":"get","n":1},{"op":"put","n":2,"v":"p"},{"op":"use","v":"x","a":3},{"op":"emit","v":"e"}]},
		  {"op":"submit","tk":"none"}]`},
	{"redirect", "KF_ContractUtxoUnbound: the contract pays 1 to x (input 2, change 1 to its vault); the client sends both outputs to itself", false,
		`[{"op":"setup","kv":["never","never","never"],"nu":2},
		  {"op":"preexec","amt":0,"prog":[{"op":"xfer","a":1}]},
		  {"op":"submit","tk":"redirect"}]`},
	{"cin_omit", "KF_ContractUtxoUnbound: the declared contract inputs are not among the transaction's inputs", false,
		`[{"op":"setup","kv":["never","never","never"],"nu":2},
		  {"op":"preexec","amt":0,"prog":[{"op":"xfer","a":1}]},
		  {"op":"submit","tk":"cin_omit"}]`},
	{"status500", "KF_FailedStatusAccepted: the call writes k1 and then fails with status 500; the response is submitted all the same", false,
		`[{"op":"setup","kv":["live","never","never"],"nu":0},
		  {"op":"preexec","amt":0,"prog":[{"op":"put","n":1,"v":"p"},{"op":"fail500"}]},
		  {"op":"submit","tk":"none"}]`},
	{"nested_use", "KF_NestedUseUncounted: the callee uses XFee 2; PreExec reports gas 0 / limit 0, verification gives the callee limit 0", false,
		`[{"op":"setup","kv":["never","never","never"],"nu":0},
		  {"op":"preexec","amt":0,"prog":[{"op":"call","subp":[{"op":"use","v":"x","a":2},{"op":"put","n":1,"v":"q"}]}]},
		  {"op":"submit","tk":"none"}]`},
	{"nested_use_free", "KF_NestedUseUncounted: callee uses 2 before the caller uses 5: accepted, pays 5 for 7", false,
		`[{"op":"setup","kv":["never","never","never"],"nu":0},
		  {"op":"preexec","amt":0,"prog":[{"op":"call","subp":[{"op":"use","v":"x","a":2}]},{"op":"use","v":"x","a":5}]},
		  {"op":"submit","tk":"none"}]`},
	{"nested_use_after", "KF_NestedUseUncounted: caller uses 5 before the callee uses 2: the honest transaction is refused", false,
		`[{"op":"setup","kv":["never","never","never"],"nu":0},
		  {"op":"preexec","amt":0,"prog":[{"op":"use","v":"x","a":5},{"op":"call","subp":[{"op":"use","v":"x","a":2}]}]},
		  {"op":"submit","tk":"none"}]`},
	{"own_change", "observation: a contract paying from the account named like itself while 1 is sent to it: the change output counts as a transfer into the contract", true,
		`[{"op":"setup","kv":["never","never","never"],"nu":2},
		  {"op":"preexec","amt":1,"prog":[{"op":"xfer","a":1}]},
		  {"op":"submit","tk":"none"}]`},
	{"own_nochange", "control for own_change: amount 2 leaves no change", true,
		`[{"op":"setup","kv":["never","never","never"],"nu":2},
		  {"op":"preexec","amt":1,"prog":[{"op":"xfer","a":2}]},
		  {"op":"submit","tk":"none"}]`},
	{"event", "control: an altered event is refused (events travel in the transient bucket of the write set)", false,
		`[{"op":"setup","kv":["live","never","never"],"nu":0},
		  {"op":"preexec","amt":0,"prog":[{"op":"get","n":1},{"op":"emit","v":"e"}]},
		  {"op":"submit","tk":"ev_alter","j":1}]`},
	{"cin_extra", "control: one more utxo of the vault declared as contract input and spent", false,
		`[{"op":"setup","kv":["never","never","never"],"nu":2},
		  {"op":"preexec","amt":0,"prog":[{"op":"xfer","a":1}]},
		  {"op":"submit","tk":"cin_extra"}]`},
	{"event_offset", "control: a write next to an event (odd case number: the event record precedes it in the write set) reads the same on a node without warm cache (cold) and through its version reference (ref)", false,
		`[{"op":"setup","kv":["live","never","never"],"nu":2},
		  {"op":"preexec","amt":0,"prog":[{"op":"put","n":2,"v":"p"},{"op":"emit","v":"e"},{"op":"xfer","a":1}]},
		  {"op":"submit","tk":"none"}]`},
	{"write_dup", "control: the record of k2 replaced by a copy of the record of k1 (two records, as executed) is refused", false,
		`[{"op":"setup","kv":["live","never","never"],"nu":0},
		  {"op":"preexec","amt":0,"prog":[{"op":"put","n":1,"v":"p"},{"op":"put","n":2,"v":"q"}]},
		  {"op":"submit","tk":"write_dup","n":2,"j":1}]`},
	{"phantom", "observation: a key inserted into a scanned range after pre-execution is not a declared read", false,
		`[{"op":"setup","kv":["live","never","never"],"nu":0},
		  {"op":"preexec","amt":0,"prog":[{"op":"scan","a":1,"b":4},{"op":"put","n":3,"v":"p"}]},
		  {"op":"interleave","n":2},
		  {"op":"submit","tk":"none"}]`},
}

func probe(args []string) error {
	fs := flag.NewFlagSet("probe", flag.ExitOnError)
	only := fs.String("only", "", "run only this probe")
	fs.Parse(args)
	stdout := os.Stdout
	null, _ := os.OpenFile(os.DevNull, os.O_WRONLY, 0)
	w, err := newWorld("c09probe")
	if err != nil {
		return err
	}
	defer w.node.Drop()
	for k, p := range probes {
		if *only != "" && *only != p.name {
			continue
		}
		var beh []fx.Ev
		if err := json.Unmarshal([]byte(p.beh), &beh); err != nil {
			return fmt.Errorf("probe %s: %v", p.name, err)
		}
		fmt.Fprintf(stdout, "# %s: %s\n", p.name, p.what)
		c := newKaseOwn(w, 9000+k, p.own)
		for _, op := range beh {
			os.Stdout = null
			line := fx.Ev{"op": op.Str("op")}
			switch op.Str("op") {
			case "setup":
				err = c.setup(strsOf(op["kv"]), op.Int("nu"))
			case "preexec":
				var prog []step
				prog, err = progOf(op["prog"])
				if err == nil {
					line["res"], line["err"] = c.preexec(prog, op.Int("amt"))
					line["prog"] = op["prog"]
				}
			case "interleave":
				err = c.interleave(op.Int("n"))
			case "submit":
				var extra fx.Ev
				line["res"], extra, err = c.submit(op)
				line["tk"] = op.Str("tk")
				for kk, v := range extra {
					line[kk] = v
				}
			}
			os.Stdout = stdout
			if err != nil {
				return fmt.Errorf("probe %s: %v", p.name, err)
			}
			o := c.project()
			line["keys"], line["bal"], line["cold"], line["ref"], line["scan"], line["cscan"] = o.Keys, o.Bal, o.Cold, o.Ref, o.Scan, o.Cscan
			if op.Str("op") == "preexec" {
				line["resp"] = o.Resp
			}
			b, _ := json.Marshal(line)
			fmt.Fprintln(stdout, string(b))
		}
	}
	return nil
}
