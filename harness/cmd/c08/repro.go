package main

import (
	"bytes"
	"encoding/json"
	"fmt"
	"math/big"

	"github.com/xuperchain/xupercore/bcs/ledger/xledger/ledger"
	"github.com/xuperchain/xupercore/bcs/ledger/xledger/state"
	"github.com/xuperchain/xupercore/bcs/ledger/xledger/state/utxo/txhash"
	pb "github.com/xuperchain/xupercore/bcs/ledger/xledger/xldgpb"
	"github.com/xuperchain/xupercore/protos"
)

func plainTx(tag string) *pb.Transaction {
	tx := &pb.Transaction{Version: 1, Desc: []byte("c08-" + tag), Nonce: tag, Timestamp: 7}
	tx.Txid, _ = txhash.MakeTransactionID(tx)
	return tx
}

func coinbaseTx(addr string, tag string) *pb.Transaction {
	tx := &pb.Transaction{Version: 1, Coinbase: true, Desc: []byte("c08-award-" + tag), Timestamp: 9}
	tx.TxOutputs = []*protos.TxOutput{{ToAddr: []byte(addr), Amount: big.NewInt(1).Bytes()}}
	tx.Txid, _ = txhash.MakeTransactionID(tx)
	return tx
}

// repro: minimal reproductions of the deviations of C08 on the real code.  Every entry reports
// plain facts (verdicts, equalities) - the classification is done by the check / the findings file.
func repro(args []string) error {
	e, err := newEnv("repro")
	if err != nil {
		return err
	}
	defer e.close()
	l := e.ledger
	root := e.node.RootBlk.Blockid
	out := map[string]interface{}{}
	format := func(txs []*pb.Transaction, failed map[string]string, qc *pb.QuorumCert, ts int64) *pb.InternalBlock {
		b, err := l.FormatMinerBlock(txs, []byte(e.k1.Address), e.k1.Priv, ts, 0, 0, root, 0, big.NewInt(0), qc, failed, 1)
		if err != nil {
			panic(err)
		}
		return b
	}
	verify := func(b *pb.InternalBlock) bool {
		w, err := wire(b)
		if err != nil {
			panic(err)
		}
		ok, _ := l.VerifyBlock(w, "repro")
		return ok
	}
	a, b, c := coinbaseTx(e.k1.Address, "a"), plainTx("b"), plainTx("c")

	// KF_MerkleDupLastTx: [a,b,c] and [a,b,c,c] share a merkle root; the tx count is read from the header.
	{
		blk := format([]*pb.Transaction{a, b, c}, nil, nil, 1)
		mut := clone(blk)
		mut.Transactions = append(mut.Transactions, clone(blk).Transactions[2])
		t3 := ledger.MakeMerkleTree(blk.Transactions)
		t4 := ledger.MakeMerkleTree(mut.Transactions)
		out["dup_last_tx"] = map[string]interface{}{
			"base_verifies": verify(blk), "body_len": len(mut.Transactions), "header_tx_count": mut.TxCount,
			"same_id": bytes.Equal(blk.Blockid, mut.Blockid), "same_root": bytes.Equal(t3[len(t3)-1], t4[len(t4)-1]),
			"mutated_verifies": verify(mut)}
		// 5 -> 6, 7, 8 entries: every padding position can be filled
		d, x := plainTx("d"), plainTx("e")
		b5 := format([]*pb.Transaction{a, b, c, d, x}, nil, nil, 2)
		acc := []int{}
		m := clone(b5)
		for n := 6; n <= 9; n++ {
			m.Transactions = append(m.Transactions, clone(b5).Transactions[4])
			if verify(m) {
				acc = append(acc, n)
			}
		}
		out["dup_last_tx_5"] = map[string]interface{}{"base_verifies": verify(b5), "accepted_body_lengths": acc}
	}
	// KF_MerkleTreeUnchecked: the merkle_tree array is neither hashed nor verified, but QueryBlock rebuilds
	// the body of a stored block from merkle_tree[:tx_count].
	{
		blk := format([]*pb.Transaction{a, b, c}, nil, nil, 3)
		mut := clone(blk)
		mut.MerkleTree[2] = append([]byte{}, mut.MerkleTree[1]...) // third leaf := second leaf
		r := map[string]interface{}{"mutated_verifies": verify(mut)}
		w, _ := wire(mut)
		sok, _ := e.single.CheckMinerMatch(e.xctx, state.NewBlockAgent(clone(w)))
		r["single_check_miner_match"] = sok
		st := l.ConfirmBlock(w, false)
		r["confirm_succ"] = st.Succ
		if st.Succ {
			// a node restarted on the same data (the live node still answers from its block cache)
			re, err := e.node.CloneLedgerOnly("repro-reopen1")
			if err != nil {
				return err
			}
			q, err := re.Ledger.QueryBlock(blk.Blockid)
			re.Drop()
			if err != nil {
				r["query_block_error"] = err.Error()
			} else {
				ids := []string{}
				for _, tx := range q.Transactions {
					ids = append(ids, fmt.Sprintf("%x", tx.Txid[:4]))
				}
				want := []string{}
				for _, tx := range blk.Transactions {
					want = append(want, fmt.Sprintf("%x", tx.Txid[:4]))
				}
				r["verified_body"] = want
				r["body_read_back"] = ids
			}
		}
		out["merkle_tree_array"] = r
		// empty array with tx_count 3: QueryBlock slices merkle_tree[:3]
		mut2 := format([]*pb.Transaction{a, plainTx("b2"), plainTx("c2")}, nil, nil, 4)
		id2 := append([]byte{}, mut2.Blockid...)
		mut2.MerkleTree = nil
		r2 := map[string]interface{}{"mutated_verifies": verify(mut2)}
		w2, _ := wire(mut2)
		st2 := l.ConfirmBlock(w2, false)
		r2["confirm_succ"] = st2.Succ
		func() {
			defer func() {
				if p := recover(); p != nil {
					r2["query_block_panic"] = fmt.Sprint(p)
				}
			}()
			re, err := e.node.CloneLedgerOnly("repro-reopen2")
			if err != nil {
				panic(err)
			}
			defer re.Drop()
			_, err = re.Ledger.QueryBlock(id2)
			if err != nil {
				r2["query_block_error"] = err.Error()
			} else {
				r2["query_block_error"] = ""
			}
		}()
		out["merkle_tree_array_empty"] = r2
	}
	// KF_EmptyBlockRejected: a block formatted by the node itself with no transaction does not verify.
	{
		blk := format(nil, nil, nil, 5)
		out["empty_block"] = map[string]interface{}{"formatted": blk != nil, "root_len": len(blk.MerkleRoot), "verifies": verify(blk)}
	}
	// KF_HeaderConcat: variable-length parts of one header field are concatenated without length prefix.
	{
		blk := format([]*pb.Transaction{a}, map[string]string{"k1": "ab", "k2": "c"}, nil, 6)
		m1 := clone(blk)
		m1.FailedTxs = map[string]string{"k1": "a", "k2": "bc"}
		m2 := clone(blk)
		m2.FailedTxs = map[string]string{"k1": "ab", "k2": "c", "k3": ""}
		m3 := clone(blk)
		m3.FailedTxs = map[string]string{"k0": "ab", "k9": "c"}
		m4 := clone(blk)
		m4.FailedTxs = map[string]string{"k1": "abc"}
		qc := &pb.QuorumCert{ProposalId: []byte("pq"), ProposalMsg: []byte("r"), ViewNumber: 3,
			SignInfos: &pb.QCSignInfos{QCSignInfos: []*pb.SignInfo{{Address: "ad", PublicKey: "pk", Sign: []byte("sg")}}}}
		bq := format([]*pb.Transaction{a}, nil, qc, 7)
		q1 := clone(bq)
		q1.Justify.ProposalId, q1.Justify.ProposalMsg = []byte("p"), []byte("qr")
		q2 := clone(bq)
		q2.Justify.SignInfos.QCSignInfos[0].Address, q2.Justify.SignInfos.QCSignInfos[0].PublicKey = "a", "dpk"
		q3 := clone(bq)
		q3.Justify.SignInfos.QCSignInfos = append(q3.Justify.SignInfos.QCSignInfos, &pb.SignInfo{})
		out["header_concat"] = map[string]interface{}{
			"base_verifies": verify(blk), "failed_msg_boundary_shift_verifies": verify(m1), "failed_empty_entry_added_verifies": verify(m2),
			"failed_keys_renamed_verifies": verify(m3), "failed_entries_merged_verifies": verify(m4),
			"qc_base_verifies": verify(bq), "qc_id_msg_boundary_shift_verifies": verify(q1),
			"qc_sign_addr_pk_boundary_shift_verifies": verify(q2), "qc_empty_sign_entry_added_verifies": verify(q3)}
	}
	// target bits are hashed only when positive
	{
		blk := format([]*pb.Transaction{a}, nil, nil, 8)
		m := clone(blk)
		m.TargetBits = -5
		out["target_bits_nonpositive"] = map[string]interface{}{"base_verifies": verify(blk), "minus5_verifies": verify(m)}
	}
	// single.CheckMinerMatch: BlockAgent.MakeBlockId overwrites the id before it is compared
	{
		blk := format([]*pb.Transaction{a}, nil, nil, 9)
		m := clone(blk)
		m.Blockid[0] ^= 1
		ag := state.NewBlockAgent(clone(m))
		sok, _ := e.single.CheckMinerMatch(e.xctx, ag)
		ag2 := state.NewBlockAgent(clone(m))
		wok, _ := e.pow.CheckMinerMatch(e.xctx, ag2)
		out["single_id_check"] = map[string]interface{}{"verify_block": verify(m), "single_accepts_wrong_id": sok,
			"id_repaired_in_place": bytes.Equal(ag.GetBlockid(), blk.Blockid), "pow_accepts_wrong_id": wok}
	}
	// outside C08 (robustness): a public key whose point is not on the curve makes VerifyBlock panic
	// (crypto/elliptic panics on invalid points since Go 1.19); the id is recomputable by anybody
	{
		blk := format([]*pb.Transaction{a}, nil, nil, 10)
		m := clone(blk)
		m.Pubkey = bytes.Replace(m.Pubkey, []byte(`"X":`), []byte(`"X":1`), 1)
		m.Blockid, _ = ledger.MakeBlockID(m)
		r := map[string]interface{}{}
		func() {
			defer func() {
				if p := recover(); p != nil {
					r["verify_block_panic"] = fmt.Sprint(p)
				}
			}()
			ok, _ := l.VerifyBlock(m, "repro")
			r["verify_block"] = ok
		}()
		out["pubkey_off_curve"] = r
	}
	js, _ := json.MarshalIndent(out, "", " ")
	fmt.Println(string(js))
	return nil
}
