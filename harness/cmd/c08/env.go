package main

import (
	"encoding/json"
	"fmt"

	"github.com/golang/protobuf/proto"
	"github.com/xuperchain/xupercore/bcs/consensus/pow"
	"github.com/xuperchain/xupercore/bcs/consensus/single"
	"github.com/xuperchain/xupercore/bcs/ledger/xledger/ledger"
	"github.com/xuperchain/xupercore/bcs/ledger/xledger/state"
	pb "github.com/xuperchain/xupercore/bcs/ledger/xledger/xldgpb"
	"github.com/xuperchain/xupercore/kernel/common/xcontext"
	"github.com/xuperchain/xupercore/kernel/consensus/base"
	cctx "github.com/xuperchain/xupercore/kernel/consensus/context"
	"github.com/xuperchain/xupercore/kernel/consensus/def"
	"github.com/xuperchain/xupercore/kernel/engines/xuperos/agent"
	"github.com/xuperchain/xupercore/kernel/engines/xuperos/common"
	"github.com/xuperchain/xupercore/lib/logs"
	"github.com/xuperchain/xupercore/lib/timer"

	"verif/harness/fx"
)

// PowBits is the PoW target of the fixture chain ("original xuperchain" rule: the id must not exceed
// 2^(256-bits)); one bit keeps mining at two attempts on average.
const PowBits = 1

// env is the real code under test: a ledger (root block confirmed) and the two consensus plugins
// whose CheckMinerMatch repeats id / signature checks, wired to that ledger through the engine's
// real LedgerAgent and the real state.BlockAgent.
type env struct {
	node   *fx.Node
	ledger *ledger.Ledger
	single base.ConsensusImplInterface
	pow    base.ConsensusImplInterface
	xctx   *xcontext.BaseCtx
	k1, k2 *fx.Key
	nPow   int
}

func newEnv(name string) (*env, error) {
	e := &env{k1: fx.GetKey("m"), k2: fx.GetKey("c08-other")}
	g := fx.Genesis(fx.GenesisOpts{Predist: map[string]string{"a": "100"}, Award: "1"})
	node, err := fx.LedgerOnly(name, g)
	if err != nil {
		return nil, err
	}
	e.node, e.ledger = node, node.Ledger
	lg, err := logs.NewLogger("", "c08")
	if err != nil {
		return nil, err
	}
	e.xctx = &xcontext.BaseCtx{XLog: lg, Timer: timer.NewXTimer()}
	if err := e.newConsensus(); err != nil {
		return nil, err
	}
	return e, nil
}

func (e *env) consCtx() cctx.ConsensusCtx {
	chain := &common.ChainCtx{BCName: fx.BCName, Ledger: e.ledger, Crypto: fx.Crypto}
	chain.XLog = e.xctx.XLog
	chain.Timer = timer.NewXTimer()
	c := cctx.ConsensusCtx{BcName: fx.BCName, Crypto: fx.Crypto, Ledger: agent.NewLedgerAgent(chain)}
	c.XLog = e.xctx.XLog
	c.Timer = timer.NewXTimer()
	c.Address = &cctx.Address{Address: e.k1.Address, PrivateKey: e.k1.Priv, PrivateKeyStr: e.k1.PrivStr,
		PublicKey: &e.k1.Priv.PublicKey, PublicKeyStr: e.k1.PubStr}
	return c
}

func (e *env) newConsensus() error {
	scfg, _ := json.Marshal(map[string]string{"miner": e.k1.Address, "period": "3000"})
	e.single = single.NewSingleConsensus(e.consCtx(), def.ConsensusConfig{ConsensusName: "single", Config: string(scfg), StartHeight: 1})
	if e.single == nil {
		return fmt.Errorf("NewSingleConsensus returned nil")
	}
	return e.newPow()
}

// newPow (re)creates the pow instance.  A successful CheckMinerMatch pushes into a bounded channel
// that only the instance's own mining loop drains; the loop is started so that it never fills.
func (e *env) newPow() error {
	if e.pow != nil {
		e.pow.Stop()
	}
	pcfg, _ := json.Marshal(map[string]string{"defaultTarget": fmt.Sprint(PowBits), "adjustHeightGap": "1000000",
		"expectedPeriod": "15", "maxTarget": "10"})
	e.pow = pow.NewPoWConsensus(e.consCtx(), def.ConsensusConfig{ConsensusName: "pow", Config: string(pcfg), StartHeight: 1})
	if e.pow == nil {
		return fmt.Errorf("NewPoWConsensus returned nil")
	}
	return e.pow.Start()
}

func (e *env) close() {
	if e.pow != nil {
		e.pow.Stop()
	}
	e.node.Drop()
}

func clone(b *pb.InternalBlock) *pb.InternalBlock { return proto.Clone(b).(*pb.InternalBlock) }

// wire sends a block through the protobuf encoding, as a block received from a peer is.
func wire(b *pb.InternalBlock) (*pb.InternalBlock, error) {
	buf, err := proto.Marshal(b)
	if err != nil {
		return nil, err
	}
	out := &pb.InternalBlock{}
	if err := proto.Unmarshal(buf, out); err != nil {
		return nil, err
	}
	return out, nil
}

func class(ok bool) string {
	if ok {
		return "ok"
	}
	return "rej"
}

// verdicts sends one block (three private copies) to the three verifiers.  A panic of a verifier is
// reported as its own class; the driver does not judge.
func (e *env) verdicts(b *pb.InternalBlock) (v, s, w string) {
	call := func(f func() bool) (res string) {
		defer func() {
			if r := recover(); r != nil {
				res = "panic"
			}
		}()
		return class(f())
	}
	v = call(func() bool { ok, _ := e.ledger.VerifyBlock(clone(b), "c08"); return ok })
	s = call(func() bool { ok, _ := e.single.CheckMinerMatch(e.xctx, state.NewBlockAgent(clone(b))); return ok })
	w = call(func() bool { ok, _ := e.pow.CheckMinerMatch(e.xctx, state.NewBlockAgent(clone(b))); return ok })
	return
}
