// Command c08 is the Go side of check C08 (block integrity: id, merkle root and proposer signature
// bind header and body).  Sub-commands:
//
//	replay -in DIR -out FILE   execute the cases enumerated by TLC (spec/Gen_BlockId.tla) on the real
//	                           code: blocks are formatted by Ledger.FormatMinerBlock, mutated on the real
//	                           protobuf and sent to Ledger.VerifyBlock and to the single / pow
//	                           CheckMinerMatch; verdicts are recorded as ndjson (the driver never judges).
//	repro                      minimal reproductions of the known findings of C08 against the real code
//	                           (prints one JSON object; used for evidence and for findings/C08.md).
//
// Exit codes of the driver: 0 done, 2 the protobuf schema has a field the specification's field table
// does not know (or vice versa) - the check cannot decide mechanically, 3 any other failure.
package main

import (
	"fmt"
	"os"
	"strconv"

	"verif/harness/fx"
)

func seed() int64 {
	s, err := strconv.ParseInt(os.Getenv("VERIF_SEED"), 10, 64)
	if err != nil {
		return 1
	}
	return s
}

type schemaError struct{ msg string }

func (e *schemaError) Error() string { return e.msg }

func main() {
	if len(os.Args) < 2 {
		fmt.Fprintln(os.Stderr, "usage: c08 replay|repro [flags]")
		os.Exit(64)
	}
	work := os.Getenv("VERIF_WORK")
	if work == "" {
		var err error
		work, err = os.MkdirTemp("", "c08")
		if err != nil {
			panic(err)
		}
		defer os.RemoveAll(work)
	}
	fx.Init(work)
	var err error
	switch os.Args[1] {
	case "replay":
		err = replay(os.Args[2:])
	case "repro":
		err = repro(os.Args[2:])
	default:
		fmt.Fprintln(os.Stderr, "unknown sub-command", os.Args[1])
		os.Exit(64)
	}
	if err != nil {
		fmt.Fprintln(os.Stderr, "c08:", err)
		if _, ok := err.(*schemaError); ok {
			os.Exit(2)
		}
		os.Exit(3)
	}
}
