package main

func replay(args []string) error { return nil }
