// Command bftnet is the Go side of the multi-replica phase of check C15 (spec/BftNet.tla): NR real Smr
// instances of kernel/consensus/base/driver/chained-bft in one process (real keys, real signatures,
// the real handlers through the verif shim's synchronous wrappers), connected by a stub network that
// only records what every instance sends.  It executes TLC-generated schedules (which replica produces
// a block, which recorded message is delivered to whom next, which block is confirmed where, rollbacks,
// injections of the byzantine validator) step by step and after EVERY step projects EVERY replica
// (tree, markers, views, vote bookkeeping) and the messages the acting replica sent into ndjson.
// It never decides whether a result is right (spec/Trace_BftNet.tla does).
package main

import (
	"encoding/json"
	"flag"
	"fmt"
	"os"
	"runtime"
	"sort"
	"sync"
	"time"

	xctx "github.com/xuperchain/xupercore/kernel/common/xcontext"
	bft "github.com/xuperchain/xupercore/kernel/consensus/base/driver/chained-bft"
	bftpb "github.com/xuperchain/xupercore/kernel/consensus/base/driver/chained-bft/pb"
	nctx "github.com/xuperchain/xupercore/kernel/network/context"
	"github.com/xuperchain/xupercore/kernel/network/p2p"
	xpb "github.com/xuperchain/xupercore/protos"

	"verif/harness/cbft"
	"verif/harness/fx"
)

// ---------------------------------------------------------------------------------------------
// the stub network: records (message, target accounts) of every SendMessage of one instance

type sent struct {
	msg *xpb.XuperMessage
	to  []string
}

type recNet struct {
	mu   sync.Mutex
	self string
	out  []sent
}

func (n *recNet) Start() {}
func (n *recNet) Stop()  {}
func (n *recNet) SendMessage(_ xctx.XContext, m *xpb.XuperMessage, opts ...p2p.OptionFunc) error {
	o := p2p.Apply(opts)
	n.mu.Lock()
	n.out = append(n.out, sent{msg: m, to: append([]string{}, o.Accounts...)})
	n.mu.Unlock()
	return nil
}
func (n *recNet) SendMessageWithResponse(c xctx.XContext, m *xpb.XuperMessage, opts ...p2p.OptionFunc) ([]*xpb.XuperMessage, error) {
	return nil, n.SendMessage(c, m, opts...)
}
func (n *recNet) NewSubscriber(xpb.XuperMessage_MessageType, interface{}, ...p2p.SubscriberOption) p2p.Subscriber {
	return nil
}
func (n *recNet) Register(p2p.Subscriber) error   { return nil }
func (n *recNet) UnRegister(p2p.Subscriber) error { return nil }
func (n *recNet) Context() *nctx.NetCtx           { return nil }
func (n *recNet) PeerInfo() xpb.PeerInfo          { return xpb.PeerInfo{Account: n.self} }
func (n *recNet) take() []sent {
	n.mu.Lock()
	defer n.mu.Unlock()
	o := n.out
	n.out = nil
	return o
}

// election: fixed validator set, the leader of a round is validator (round mod NR) + 1
type election struct{ vals []string }

func (e *election) GetLeader(round int64) string {
	n := int64(len(e.vals))
	return e.vals[((round%n)+n)%n]
}
func (e *election) GetValidators(int64) []string  { return e.vals }
func (e *election) GetIntAddress(a string) string { return a }

// ---------------------------------------------------------------------------------------------

type replica struct {
	idx   int
	key   *fx.Key
	smr   *bft.Smr
	tree  *bft.QCPendingTree
	rules *bft.DefaultSaftyRules
	net   *recNet
}

type proposal struct {
	id      []byte
	view    int64
	par     int // abstract id of the parent (the justify's proposal)
	src     int
	justify *bft.QuorumCert
}

type world struct {
	nr    int
	vals  []string
	reps  []*replica // 1-based
	addr  map[string]int
	props []*proposal // 1-based (index 0: genesis)
	back  map[string]int
	pm    map[[2]int]*xpb.XuperMessage // ProposalMsg in flight: (to, p)
	vm    map[[3]int]*xpb.XuperMessage // VoteMsg in flight: (to, p, src)
	tr    int
	stats map[string]int
}

var genesisID = []byte("verif-bftnet-genesis")

func newWorld(nr, tr int, stats map[string]int) *world {
	w := &world{nr: nr, vals: cbft.Addresses(nr), addr: map[string]int{}, back: map[string]int{string(genesisID): 0},
		pm: map[[2]int]*xpb.XuperMessage{}, vm: map[[3]int]*xpb.XuperMessage{}, tr: tr, stats: stats}
	w.reps = make([]*replica, nr+1)
	w.props = []*proposal{{id: genesisID, view: 0, par: -1}}
	for i := 1; i <= nr; i++ {
		k := cbft.Member(i)
		w.addr[k.Address] = i
		tree := cbft.NewTree(genesisID, 0)
		cr := cbft.Crypto(k)
		rules := &bft.DefaultSaftyRules{Crypto: cr, QcTree: tree, Log: cbft.NopLogger{}}
		net := &recNet{self: k.Address}
		smr := bft.NewSmr(cbft.BCName, k.Address, cbft.NopLogger{}, net, cr, &bft.DefaultPaceMaker{}, rules, &election{vals: w.vals}, tree)
		w.reps[i] = &replica{idx: i, key: k, smr: smr, tree: tree, rules: rules, net: net}
	}
	return w
}

func (w *world) np() int { return len(w.props) - 1 }

func (w *world) abs(id []byte) int {
	if id == nil {
		return -1
	}
	if a, ok := w.back[string(id)]; ok {
		return a
	}
	return -2
}
func (w *world) absNode(n *bft.ProposalNode) int {
	if n == nil || n.In == nil {
		return -1
	}
	return w.abs(n.In.GetProposalId())
}

// quiesce waits until the goroutines a handler started for its sends (`go s.p2p.SendMessage(...)`) have run.
func quiesce(base int) error {
	for i := 0; runtime.NumGoroutine() > base; i++ {
		if i > 200000 {
			return fmt.Errorf("goroutines started by a handler did not finish (%d > %d)", runtime.NumGoroutine(), base)
		}
		runtime.Gosched()
		if i > 100 {
			time.Sleep(20 * time.Microsecond)
		}
	}
	return nil
}

// ---------------------------------------------------------------------------------------------
// projection

type treeObs struct {
	Root    int   `json:"root"`
	High    int   `json:"high"`
	Generic int   `json:"generic"`
	Locked  int   `json:"locked"`
	Commit  int   `json:"commit"`
	Tree    []int `json:"tree"`
	Oroots  []int `json:"oroots"`
	Otree   []int `json:"otree"`
	Cnt     []int `json:"cnt"`
	Pview   int   `json:"pview"`
}

type repObs struct {
	T        treeObs `json:"t"`
	Known    []bool  `json:"known"`
	Ledger   int     `json:"ledger"`
	Votes    [][]int `json:"votes"`
	LastVote int     `json:"lastVote"`
	Pref     int     `json:"pref"`
}

func (w *world) walk(n *bft.ProposalNode, holder, cnt []int, seen map[*bft.ProposalNode]bool) {
	for _, c := range n.Sons {
		if c == nil || seen[c] {
			continue
		}
		seen[c] = true
		if a := w.absNode(c); a >= 1 {
			cnt[a-1]++
			holder[a-1] = w.absNode(n)
		}
		w.walk(c, holder, cnt, seen)
	}
}

func (w *world) project(r *replica) repObs {
	t, np := r.tree, w.np()
	o := treeObs{Root: w.absNode(t.GetRootQC()), High: w.absNode(t.GetHighQC()), Generic: w.absNode(t.GetGenericQC()),
		Locked: w.absNode(t.GetLockedQC()), Commit: w.absNode(t.GetCommitQC()), Oroots: []int{}, Pview: int(r.smr.GetCurrentView())}
	o.Tree, o.Otree, o.Cnt = make([]int, np), make([]int, np), make([]int, np)
	for i := range o.Tree {
		o.Tree[i], o.Otree[i] = -1, -1
	}
	seen := map[*bft.ProposalNode]bool{t.Root: true}
	if a := w.absNode(t.Root); a >= 1 {
		o.Cnt[a-1]++
	}
	w.walk(t.Root, o.Tree, o.Cnt, seen)
	rootView := t.Root.In.GetProposalView()
	for _, n := range t.VerifOrphanRoots() {
		if n.In.GetProposalView() <= rootView { // stale trees are dropped lazily and never consulted
			continue
		}
		if a := w.absNode(n); a >= 1 {
			o.Oroots = append(o.Oroots, a)
			o.Cnt[a-1]++
		}
		w.walk(n, o.Otree, o.Cnt, map[*bft.ProposalNode]bool{n: true})
	}
	sort.Ints(o.Oroots)
	ro := repObs{T: o, Ledger: int(r.smr.VerifLedgerState()), LastVote: int(r.rules.VerifLastVoteRound()),
		Pref: int(r.rules.VerifPreferredRound()), Known: make([]bool, np), Votes: make([][]int, np)}
	for p := 1; p <= np; p++ {
		ro.Known[p-1] = r.smr.VerifKnowsProposal(w.props[p].id)
		vs := []int{}
		for _, s := range r.smr.VerifVotes(w.props[p].id) {
			vs = append(vs, w.addr[s.GetAddress()])
		}
		sort.Ints(vs)
		ro.Votes[p-1] = vs
	}
	return ro
}

func (w *world) projectAll() []repObs {
	out := make([]repObs, 0, w.nr)
	for i := 1; i <= w.nr; i++ {
		out = append(out, w.project(w.reps[i]))
	}
	return out
}

// ---------------------------------------------------------------------------------------------
// messages as abstract records

type propWire struct {
	To  int   `json:"to"`
	P   int   `json:"p"`
	V   int   `json:"v"`
	Q   int   `json:"q"`
	Jv  int   `json:"jv"`
	Src int   `json:"src"`
	Js  []int `json:"js"`
	Cf  bool  `json:"cf"`
}
type voteWire struct {
	To  int `json:"to"`
	P   int `json:"p"`
	V   int `json:"v"`
	Q   int `json:"q"`
	Src int `json:"src"`
}

func (w *world) signers(signs []*bftpb.QuorumCertSign) []int {
	out := []int{}
	for _, s := range signs {
		out = append(out, w.addr[s.GetAddress()])
	}
	sort.Ints(out)
	return out
}

// collect turns what replica r sent during the step into abstract records and puts the real messages in flight.
// newID: the id of the block r has just been asked to propose (registered as the next proposal when it appears).
func (w *world) collect(r *replica, newID []byte) ([]propWire, []voteWire, error) {
	ps, vs := []propWire{}, []voteWire{}
	for _, s := range r.net.take() {
		switch s.msg.GetHeader().GetType() {
		case xpb.XuperMessage_CHAINED_BFT_NEW_PROPOSAL_MSG:
			pmsg := &bftpb.ProposalMsg{}
			if err := p2p.Unmarshal(s.msg, pmsg); err != nil {
				return nil, nil, err
			}
			j := &bft.QuorumCert{}
			if err := json.Unmarshal(pmsg.GetJustifyQC(), j); err != nil || j.VoteInfo == nil {
				return nil, nil, fmt.Errorf("a replica sent a proposal whose justify does not parse: %v", err)
			}
			if newID != nil && string(pmsg.GetProposalId()) == string(newID) && w.abs(newID) == -2 {
				w.props = append(w.props, &proposal{id: newID, view: pmsg.GetProposalView(), par: w.abs(j.GetProposalId()),
					src: w.addr[pmsg.GetSign().GetAddress()], justify: j})
				w.back[string(newID)] = w.np()
			}
			rec := propWire{P: w.abs(pmsg.GetProposalId()), V: int(pmsg.GetProposalView()), Q: w.abs(j.GetProposalId()),
				Jv: int(j.GetProposalView()), Src: w.addr[pmsg.GetSign().GetAddress()], Js: w.signers(j.SignInfos),
				Cf: j.LedgerCommitInfo != nil && j.LedgerCommitInfo.CommitStateId != nil}
			for _, acc := range s.to {
				if acc == r.key.Address { // the real network has no connection from a node to itself
					continue
				}
				rec.To = w.addr[acc]
				ps = append(ps, rec)
				if rec.P >= 1 {
					w.pm[[2]int{rec.To, rec.P}] = s.msg
				}
			}
		case xpb.XuperMessage_CHAINED_BFT_VOTE_MSG:
			vmsg := &bftpb.VoteMsg{}
			if err := p2p.Unmarshal(s.msg, vmsg); err != nil {
				return nil, nil, err
			}
			vi := &bft.VoteInfo{}
			if err := json.Unmarshal(vmsg.GetVoteInfo(), vi); err != nil {
				return nil, nil, err
			}
			src := 0
			if len(vmsg.GetSignature()) > 0 {
				src = w.addr[vmsg.GetSignature()[0].GetAddress()]
			}
			rec := voteWire{P: w.abs(vi.ProposalId), V: int(vi.ProposalView), Q: w.abs(vi.ParentId), Src: src}
			for _, acc := range s.to {
				if acc == r.key.Address {
					continue
				}
				rec.To = w.addr[acc]
				vs = append(vs, rec)
				if rec.P >= 1 {
					w.vm[[3]int{rec.To, rec.P, rec.Src}] = s.msg
				}
			}
		default:
			return nil, nil, fmt.Errorf("a replica sent a message of unexpected type %v", s.msg.GetHeader().GetType())
		}
	}
	sort.SliceStable(ps, func(i, j int) bool { return ps[i].To < ps[j].To || (ps[i].To == ps[j].To && ps[i].P < ps[j].P) })
	sort.SliceStable(vs, func(i, j int) bool {
		a, b := vs[i], vs[j]
		return a.To < b.To || (a.To == b.To && (a.P < b.P || (a.P == b.P && a.Src < b.Src)))
	})
	return ps, vs, nil
}

func (w *world) nodeOf(p int) *bft.ProposalNode {
	pr := w.props[p]
	q := w.props[pr.par]
	return &bft.ProposalNode{In: &bft.QuorumCert{VoteInfo: &bft.VoteInfo{ProposalId: pr.id, ProposalView: pr.view, ParentId: q.id, ParentView: q.view},
		LedgerCommitInfo: &bft.LedgerCommitInfo{CommitStateId: pr.id}}}
}

// ---------------------------------------------------------------------------------------------
// one step of a schedule

type result struct {
	res string
	sp  []propWire
	sv  []voteWire
}

func (w *world) rep(i int) (*replica, error) {
	if i < 1 || i > w.nr {
		return nil, fmt.Errorf("replica %d out of range", i)
	}
	return w.reps[i], nil
}

func (w *world) step(op fx.Ev) (result, error) {
	out := result{res: "ok", sp: []propWire{}, sv: []voteWire{}}
	base := runtime.NumGoroutine()
	var actor *replica
	var newID []byte
	var err error
	switch op.Str("op") {
	case "propose":
		// the plugin's ProcessConfirmBlock of the producer: ProcessProposal(height of the new block = view of HighQC + 1, ...)
		if actor, err = w.rep(op.Int("r")); err != nil {
			return out, err
		}
		newID = []byte(fmt.Sprintf("verif-bftnet-%d-%03d", w.tr, w.np()+1))
		view := actor.smr.GetHighQC().GetProposalView() + 1
		switch e := actor.smr.ProcessProposal(view, newID, w.vals); e {
		case nil:
		case bft.TooLowNewProposal:
			out.res = "toolow"
		case bft.JustifyVotesEmpty:
			out.res = "novotes"
		default:
			out.res = "other"
		}
	case "confirm":
		if actor, err = w.rep(op.Int("r")); err != nil {
			return out, err
		}
		p := op.Int("p")
		if p < 1 || p > w.np() {
			out.res = "noblock"
			break
		}
		pr := w.props[p]
		node := w.nodeOf(p)
		// CheckMinerMatch of a block somebody else produced (not for the first block after genesis)
		if pr.src != actor.idx && pr.par != 0 {
			if e := actor.rules.CheckProposal(node.In, pr.justify, w.vals); e != nil {
				out.res = "refused"
				break
			}
		}
		actor.smr.UpdateJustifyQcStatus(pr.justify)
		if e := actor.smr.UpdateQcStatus(node); e != nil {
			out.res = "err"
		}
	case "dprop":
		if actor, err = w.rep(op.Int("to")); err != nil {
			return out, err
		}
		m := w.pm[[2]int{actor.idx, op.Int("p")}]
		if m == nil {
			out.res = "nomsg"
			break
		}
		actor.smr.VerifHandleReceivedProposal(m)
	case "dvote":
		if actor, err = w.rep(op.Int("to")); err != nil {
			return out, err
		}
		m := w.vm[[3]int{actor.idx, op.Int("p"), op.Int("src")}]
		if m == nil {
			out.res = "nomsg"
			break
		}
		if e := actor.smr.VerifHandleReceivedVoteMsg(m); e != nil {
			out.res = "reject"
		}
	case "rollback":
		if actor, err = w.rep(op.Int("r")); err != nil {
			return out, err
		}
		t := op.Int("t")
		var id []byte
		if t >= 0 && t <= w.np() {
			id = w.props[t].id
		}
		if e := actor.smr.EnforceUpdateHighQC(id); e != nil {
			out.res = "err"
		}
	case "byzvote":
		// the byzantine validator signs a vote for proposal p (as itself) and sends it to `to`
		byz, to, p := op.Int("byz"), op.Int("to"), op.Int("p")
		if byz < 1 || byz > w.nr || to < 1 || to > w.nr || p < 1 || p > w.np() {
			return out, fmt.Errorf("byzvote out of range")
		}
		pr := w.props[p]
		q := w.props[pr.par]
		sg, e := cbft.Crypto(cbft.Member(byz)).SignVoteMsg(pr.id)
		if e != nil {
			return out, e
		}
		vb, _ := json.Marshal(&bft.VoteInfo{ProposalId: pr.id, ProposalView: pr.view, ParentId: q.id, ParentView: q.view})
		lb, _ := json.Marshal(&bft.LedgerCommitInfo{VoteInfoHash: pr.id})
		w.vm[[3]int{to, p, byz}] = p2p.NewMessage(xpb.XuperMessage_CHAINED_BFT_VOTE_MSG,
			&bftpb.VoteMsg{VoteInfo: vb, LedgerCommitInfo: lb, Signature: []*bftpb.QuorumCertSign{sg}}, p2p.WithBCName(cbft.BCName))
	case "byzprop":
		// the byzantine validator produces a block below q, justified by the signatures of the votes for q that exist in
		// the network plus its own, and sends it to everybody else
		byz, qa := op.Int("byz"), op.Int("q")
		if byz < 1 || byz > w.nr || qa < 0 || qa > w.np() {
			return out, fmt.Errorf("byzprop out of range")
		}
		q := w.props[qa]
		j := &bft.QuorumCert{VoteInfo: &bft.VoteInfo{ProposalId: q.id, ProposalView: q.view}}
		if qa > 0 {
			qq := w.props[q.par]
			j.VoteInfo.ParentId, j.VoteInfo.ParentView = qq.id, qq.view
			seen := map[int]bool{}
			keys := make([][3]int, 0, len(w.vm))
			for k := range w.vm {
				keys = append(keys, k)
			}
			sort.Slice(keys, func(a, b int) bool {
				return keys[a][0] < keys[b][0] || (keys[a][0] == keys[b][0] && (keys[a][1] < keys[b][1] || (keys[a][1] == keys[b][1] && keys[a][2] < keys[b][2])))
			})
			for _, k := range keys {
				if k[1] != qa || seen[k[2]] || k[2] == byz {
					continue
				}
				vmsg := &bftpb.VoteMsg{}
				if e := p2p.Unmarshal(w.vm[k], vmsg); e != nil || len(vmsg.GetSignature()) == 0 {
					continue
				}
				seen[k[2]] = true
				j.SignInfos = append(j.SignInfos, vmsg.GetSignature()[0])
			}
			sg, e := cbft.Crypto(cbft.Member(byz)).SignVoteMsg(q.id)
			if e != nil {
				return out, e
			}
			j.SignInfos = append(j.SignInfos, sg)
			cf, _ := op["cf"].(bool)
			if cf {
				j.LedgerCommitInfo = &bft.LedgerCommitInfo{CommitStateId: genesisID}
			} else {
				j.LedgerCommitInfo = &bft.LedgerCommitInfo{}
			}
		}
		jb, e := json.Marshal(j)
		if e != nil {
			return out, e
		}
		id := []byte(fmt.Sprintf("verif-bftnet-%d-%03d", w.tr, w.np()+1))
		pmsg, e := cbft.Crypto(cbft.Member(byz)).SignProposalMsg(&bftpb.ProposalMsg{ProposalView: q.view + 1, ProposalId: id, Timestamp: int64(w.np() + 1), JustifyQC: jb})
		if e != nil {
			return out, e
		}
		j2 := &bft.QuorumCert{}
		if e := json.Unmarshal(jb, j2); e != nil {
			return out, e
		}
		w.props = append(w.props, &proposal{id: id, view: q.view + 1, par: qa, src: byz, justify: j2})
		w.back[string(id)] = w.np()
		m := p2p.NewMessage(xpb.XuperMessage_CHAINED_BFT_NEW_PROPOSAL_MSG, pmsg, p2p.WithBCName(cbft.BCName))
		for i := 1; i <= w.nr; i++ {
			if i != byz {
				w.pm[[2]int{i, w.np()}] = m
			}
		}
	default:
		return out, fmt.Errorf("unknown op %q", op.Str("op"))
	}
	if err := quiesce(base); err != nil {
		return out, err
	}
	if actor != nil {
		out.sp, out.sv, err = w.collect(actor, newID)
		if err != nil {
			return out, err
		}
	}
	for i := 1; i <= w.nr; i++ {
		if w.reps[i] != actor && len(w.reps[i].net.take()) > 0 {
			return out, fmt.Errorf("replica %d sent a message although it took no step", i)
		}
	}
	return out, nil
}

// ---------------------------------------------------------------------------------------------

func replay(args []string) error {
	fs := flag.NewFlagSet("replay", flag.ExitOnError)
	in := fs.String("in", "", "directory of schedules")
	out := fs.String("out", "trace.ndjson", "ndjson trace to write")
	nr := fs.Int("nr", 4, "number of validators")
	fs.Parse(args)
	behs, err := fx.LoadBehaviours(*in)
	if err != nil {
		return err
	}
	tw, err := fx.NewTraceWriter(*out)
	if err != nil {
		return err
	}
	defer tw.Close()
	stats := map[string]int{}
	for k, beh := range behs {
		w := newWorld(*nr, k, stats)
		tw.Emit(fx.Ev{"op": "init", "tr": k, "i": 0, "res": "ok", "sp": []propWire{}, "sv": []voteWire{}, "obs": w.projectAll()})
		for i, op := range beh {
			before := w.projectAll()
			r, err := w.step(op)
			if err != nil {
				return fmt.Errorf("schedule %d step %d (%v): %v", k, i+1, op.Str("op"), err)
			}
			after := w.projectAll()
			ev := fx.Ev{"tr": k, "i": i + 1}
			for kk, v := range op {
				if kk != "res" && kk != "sp" && kk != "sv" {
					ev[kk] = v
				}
			}
			ev["res"], ev["sp"], ev["sv"], ev["obs"] = r.res, r.sp, r.sv, after
			tw.Emit(ev)
			stats["ops"]++
			stats["votes_sent"] += len(r.sv)
			stats["proposal_msgs_sent"] += len(r.sp)
			for j := range after {
				b, a := before[j], after[j]
				if op.Str("op") == "dvote" && a.T.High != b.T.High {
					stats["qcs_formed"]++
				}
				if a.T.Root != b.T.Root {
					stats["root_moves"]++
				}
				if a.T.Commit != b.T.Commit && a.T.Commit > 0 {
					stats["commit_marker_moves"]++
				}
				if a.T.High != b.T.High {
					stats["high_moves"]++
				}
				if len(a.T.Oroots) > 0 {
					stats["steps_with_orphans"]++
				}
				if op.Str("op") == "dprop" && a.LastVote != b.LastVote {
					stats["votes_cast"]++
				}
			}
			if r.res != "ok" {
				stats["res_"+r.res]++
			}
		}
		stats["behaviours"]++
	}
	js, _ := json.Marshal(stats)
	fmt.Println(string(js))
	return nil
}

func main() {
	if len(os.Args) < 2 || os.Args[1] != "replay" {
		fmt.Fprintln(os.Stderr, "usage: bftnet replay -in DIR -out FILE [-nr N]")
		os.Exit(64)
	}
	work := os.Getenv("VERIF_WORK")
	if work == "" {
		var err error
		if work, err = os.MkdirTemp("", "bftnet"); err != nil {
			panic(err)
		}
		defer os.RemoveAll(work)
	}
	fx.Init(work)
	if err := replay(os.Args[2:]); err != nil {
		fmt.Fprintln(os.Stderr, "bftnet:", err)
		os.Exit(3)
	}
}
