package main

import (
	"fmt"
	"io/ioutil"
	"math/big"
	"os"
	"path/filepath"

	"github.com/xuperchain/xupercore/bcs/ledger/xledger/state/utxo/txhash"
	"github.com/xuperchain/xupercore/bcs/ledger/xledger/state/xmodel"
	txn "github.com/xuperchain/xupercore/bcs/ledger/xledger/tx"
	pb "github.com/xuperchain/xupercore/bcs/ledger/xledger/xldgpb"
	"github.com/xuperchain/xupercore/kernel/contract"
	"github.com/xuperchain/xupercore/protos"

	"verif/harness/fx"
)

// chain drives one fixture node the way a single-miner xuperos node is driven: every contract call is
// pre-executed in a fresh sandbox over the state readers (like Chain.PreExec); a successful call becomes a
// signed transaction (contract request + read/write set) that goes through State.VerifyTx (which
// re-executes the kernel contracts) and State.DoTx, and is then packed into a block together with the
// award transaction and the timer transaction of that height (State.GetTimerTx, like Miner.packBlock);
// the block is confirmed by the ledger and played with PlayForMiner. A refused call leaves no trace.
type chain struct {
	node  *fx.Node
	miner *fx.Key
	seq   int64
}

// predist: ordered list of (abstract account name, quota); the genesis is a "nofee" chain (gas price 0,
// award 0, transactions without UTXO inputs are admitted) - the configuration the governance token is
// documented for (genesis.go: "nofee ... 治理代币，会从此配置中进行初始代币发行").
func newChain(name string, keys []*fx.Key, quotas []string) (*chain, error) {
	// fx.Genesis resolves predistribution names through fx.GetKey, so the keys are passed by their names
	quota := map[string]string{}
	names := []string{}
	for i, k := range keys {
		quota[k.Name] = quotas[i]
		names = append(names, k.Name)
	}
	g := fx.Genesis(fx.GenesisOpts{Predist: quota, PredistList: names, NoFee: true, Award: "0", Miner: "m"})
	// the contract manager of the fixture reads <node root>/conf/contract.yaml: kernel contracts only
	conf := filepath.Join(fx.DataPrefix(name), "conf")
	if err := os.MkdirAll(conf, 0o755); err != nil {
		return nil, err
	}
	if err := ioutil.WriteFile(filepath.Join(conf, "contract.yaml"), []byte(
		"enableUpgrade: false\nwasm:\n  enable: false\nnative:\n  enable: false\nevm:\n  enable: false\nxkernel:\n  enable: true\n  driver: default\n"), 0o644); err != nil {
		return nil, err
	}
	node, err := fx.NewNode(name, g)
	if err != nil {
		return nil, err
	}
	return &chain{node: node, miner: fx.GetKey("m")}, nil
}

type callResult struct {
	resp *contract.Response
	rw   *contract.RWSet
	used contract.Limits
	err  error
}

// preExec runs one kernel-contract method in a fresh sandbox over the current state (no effect on state).
func (c *chain) preExec(initiator, contractName, method string, args map[string][]byte) callResult {
	mg := c.node.Contract
	sb, err := mg.NewStateSandbox(&contract.SandboxConfig{XMReader: c.node.State.CreateXMReader(), UTXOReader: c.node.State.CreateUtxoReader()})
	if err != nil {
		panic(err)
	}
	auth := []string{}
	if initiator != "" {
		auth = []string{initiator}
	}
	ctx, err := mg.NewContext(&contract.ContextConfig{State: sb, Initiator: initiator, AuthRequire: auth,
		Module: "xkernel", ContractName: contractName, ResourceLimits: contract.MaxLimits})
	if err != nil {
		return callResult{err: err}
	}
	resp, err := ctx.Invoke(method, args)
	used := ctx.ResourceUsed()
	ctx.Release()
	if err != nil {
		return callResult{err: err}
	}
	if resp.Status >= contract.StatusErrorThreshold {
		return callResult{resp: resp, err: fmt.Errorf("status %d: %s", resp.Status, resp.Message)}
	}
	if err := sb.Flush(); err != nil {
		return callResult{err: err}
	}
	return callResult{resp: resp, rw: sb.RWSet(), used: used}
}

// submit turns a successful pre-execution into a signed transaction and passes it through VerifyTx + DoTx.
func (c *chain) submit(k *fx.Key, contractName, method string, args map[string][]byte, r callResult) error {
	c.seq++
	tx := &pb.Transaction{Version: 3, Nonce: fmt.Sprintf("c19-%d", c.seq), Timestamp: c.seq, Initiator: k.Address, AuthRequire: []string{k.Address}}
	tx.ContractRequests = []*protos.InvokeRequest{{ModuleName: "xkernel", ContractName: contractName, MethodName: method,
		Args: args, ResourceLimits: contract.ToPbLimits(r.used)}}
	tx.TxInputsExt = xmodel.GetTxInputs(r.rw.RSet)
	tx.TxOutputsExt = xmodel.GetTxOutputs(r.rw.WSet)
	sig, err := txhash.ProcessSignTx(fx.Crypto, tx, []byte(k.PrivStr))
	if err != nil {
		return err
	}
	tx.InitiatorSigns = []*protos.SignatureInfo{{PublicKey: k.PubStr, Sign: sig}}
	tx.AuthRequireSigns = tx.InitiatorSigns
	tx.Txid, err = txhash.MakeTransactionID(tx)
	if err != nil {
		return err
	}
	if ok, err := c.node.State.VerifyTx(tx); !ok || err != nil {
		return fmt.Errorf("VerifyTx: %v %v", ok, err)
	}
	if err := c.node.State.DoTx(tx); err != nil {
		return fmt.Errorf("DoTx: %v", err)
	}
	return nil
}

// mine packs the next block like Miner.packBlock: award tx, timer tx of that height (if it writes
// anything), unconfirmed transactions.
func (c *chain) mine() error {
	st, l := c.node.State, c.node.Ledger
	height := l.GetMeta().TrunkHeight + 1
	auto, err := st.GetTimerTx(height)
	if err != nil {
		return fmt.Errorf("GetTimerTx(%d): %v", height, err)
	}
	unconf, err := st.GetUnconfirmedTx(false)
	if err != nil {
		return err
	}
	c.seq++
	aw, err := txn.GenerateAwardTx(c.miner.Address, "0", []byte(fmt.Sprintf("award-%d", c.seq)))
	if err != nil {
		return err
	}
	list := []*pb.Transaction{aw}
	if auto != nil && len(auto.TxOutputsExt) > 0 {
		list = append(list, auto)
	}
	list = append(list, unconf...)
	blk, err := l.FormatMinerBlock(list, []byte(c.miner.Address), c.miner.Priv, c.seq, 0, 0, st.GetLatestBlockid(), 0, st.GetTotal(), nil, nil, height)
	if err != nil {
		return err
	}
	if cs := l.ConfirmBlock(blk, false); !cs.Succ {
		return fmt.Errorf("ConfirmBlock: %v", cs.Error)
	}
	if err := st.PlayForMiner(blk.Blockid); err != nil {
		return fmt.Errorf("PlayForMiner: %v", err)
	}
	return nil
}

// call = pre-execute; on success commit as a transaction in its own block. Returns the result class
// ("ok"/"fail"), the error of a refused call (statistics only) and a driver error.
func (c *chain) call(k *fx.Key, contractName, method string, args map[string][]byte) (string, error, error) {
	r := c.preExec(k.Address, contractName, method, args)
	if r.err != nil {
		return "fail", r.err, nil
	}
	if err := c.submit(k, contractName, method, args, r); err != nil {
		return "", nil, err
	}
	if err := c.mine(); err != nil {
		return "", nil, err
	}
	return "ok", nil, nil
}

// query = pre-execute a read-only method, nothing is committed.
func (c *chain) query(contractName, method string, args map[string][]byte) ([]byte, error) {
	r := c.preExec(fx.GetKey("q").Address, contractName, method, args)
	if r.err != nil {
		return nil, r.err
	}
	return r.resp.Body, nil
}

func (c *chain) height() int { return int(c.node.Ledger.GetMeta().TrunkHeight) }

func bigOf(s string) *big.Int {
	b, ok := new(big.Int).SetString(s, 10)
	if !ok {
		return big.NewInt(-999999)
	}
	return b
}
