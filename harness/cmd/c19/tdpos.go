package main

import (
	"fmt"
	"strconv"

	"github.com/xuperchain/xupercore/kernel/contract"
	"github.com/xuperchain/xupercore/kernel/contract/proposal/utils"
)

// Stand-in for the TDPoS consensus kernel contract "$tdpos" (bcs/consensus/tdpos/kernel_contract.go).
// The fixture chain runs the "single" consensus, so the real TDPoS contract (which needs a TDPoS
// consensus instance, its election state and ledger snapshots three blocks back) is not registered.
// The subject of C19 is $govern_token: what matters is that Lock / UnLock are reached from a kernel
// contract named "$tdpos" with lock_type "tdpos". The two methods below issue exactly the nested calls
// of runVote (kernel_contract.go:198-206) and runRevokeVote (:271-279, :292-298), in the same order
// (revokeVote unlocks first and then checks the ballot, failing the whole call if it is too small),
// with the ballot kept in the contract's own bucket instead of the election snapshot.
func registerTdposStandIn(mg contract.Manager) {
	reg := mg.GetKernRegistry()
	bucket := utils.TDPOSKernelContract
	amountOf := func(ctx contract.KContext) (int64, error) {
		amount, err := strconv.ParseInt(string(ctx.Args()["amount"]), 10, 64)
		if amount <= 0 || err != nil {
			return 0, fmt.Errorf("amount in contract can not be empty or negative")
		}
		return amount, nil
	}
	ballot := func(ctx contract.KContext) int64 {
		b, err := ctx.Get(bucket, []byte("vote_"+ctx.Initiator()))
		if err != nil {
			return 0
		}
		v, _ := strconv.ParseInt(string(b), 10, 64)
		return v
	}
	tokenArgs := func(ctx contract.KContext, amount int64) map[string][]byte {
		return map[string][]byte{
			"from":      []byte(ctx.Initiator()),
			"amount":    []byte(fmt.Sprintf("%d", amount)),
			"lock_type": []byte(utils.GovernTokenTypeTDPOS),
		}
	}
	ok := &contract.Response{Status: 200, Message: "success", Body: []byte("ok")}
	reg.RegisterKernMethod(bucket, "voteCandidate", func(ctx contract.KContext) (*contract.Response, error) {
		amount, err := amountOf(ctx)
		if err != nil {
			return nil, err
		}
		if _, err := ctx.Call("xkernel", utils.GovernTokenKernelContract, "Lock", tokenArgs(ctx, amount)); err != nil {
			return nil, err
		}
		v := ballot(ctx) + amount
		if err := ctx.Put(bucket, []byte("vote_"+ctx.Initiator()), []byte(strconv.FormatInt(v, 10))); err != nil {
			return nil, err
		}
		return ok, nil
	})
	reg.RegisterKernMethod(bucket, "revokeVote", func(ctx contract.KContext) (*contract.Response, error) {
		amount, err := amountOf(ctx)
		if err != nil {
			return nil, err
		}
		if _, err := ctx.Call("xkernel", utils.GovernTokenKernelContract, "UnLock", tokenArgs(ctx, amount)); err != nil {
			return nil, err
		}
		v := ballot(ctx)
		if v < amount {
			return nil, fmt.Errorf("Your vote amount is less than have.")
		}
		if err := ctx.Put(bucket, []byte("vote_"+ctx.Initiator()), []byte(strconv.FormatInt(v-amount, 10))); err != nil {
			return nil, err
		}
		return ok, nil
	})
}
