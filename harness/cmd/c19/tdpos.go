package main

import (
	"fmt"

	"github.com/xuperchain/xupercore/bcs/consensus/tdpos"
	xctx "github.com/xuperchain/xupercore/kernel/common/xcontext"
	cctx "github.com/xuperchain/xupercore/kernel/consensus/context"
	cdef "github.com/xuperchain/xupercore/kernel/consensus/def"
	"github.com/xuperchain/xupercore/kernel/engines/xuperos/agent"
	nctx "github.com/xuperchain/xupercore/kernel/network/context"
	"github.com/xuperchain/xupercore/kernel/network/p2p"
	"github.com/xuperchain/xupercore/lib/logs"
	"github.com/xuperchain/xupercore/lib/timer"
	pb "github.com/xuperchain/xupercore/protos"

	"verif/harness/fx"
)

// The real TDPoS kernel contract (bcs/consensus/tdpos/kernel_contract.go: nominateCandidate,
// revokeNominate, voteCandidate, revokeVote) is registered on the fixture's contract manager by
// constructing a real TDPoS consensus instance over the fixture's ledger (tdpos.NewTdposConsensus, the
// same constructor the pluggable consensus uses; chained-bft off). The chain itself keeps producing
// blocks the way the harness does (the consensus instance is used for its kernel contract only): the
// contract reads its election records through ledger snapshots at the height passed by the caller and
// writes them, and calls $govern_token.Lock / UnLock, through the transaction's sandbox.

type stubNet struct{ account string }

func (stubNet) Start()                                                               {}
func (stubNet) Stop()                                                                {}
func (stubNet) SendMessage(xctx.XContext, *pb.XuperMessage, ...p2p.OptionFunc) error { return nil }
func (stubNet) SendMessageWithResponse(xctx.XContext, *pb.XuperMessage, ...p2p.OptionFunc) ([]*pb.XuperMessage, error) {
	return nil, nil
}
func (stubNet) NewSubscriber(pb.XuperMessage_MessageType, interface{}, ...p2p.SubscriberOption) p2p.Subscriber {
	return nil
}
func (stubNet) Register(p2p.Subscriber) error   { return nil }
func (stubNet) UnRegister(p2p.Subscriber) error { return nil }
func (stubNet) Context() *nctx.NetCtx           { return nil }
func (s stubNet) PeerInfo() pb.PeerInfo         { return pb.PeerInfo{Account: s.account} }

func registerTdpos(node *fx.Node) error {
	lg, err := logs.NewLogger("", "consensus")
	if err != nil {
		return err
	}
	miner := node.Ctx.Address.Address
	cc := cctx.ConsensusCtx{BcName: fx.BCName, Address: (*cctx.Address)(node.Ctx.Address), Crypto: fx.Crypto,
		Contract: node.Contract, Ledger: agent.NewLedgerAgent(node.Ctx), Network: stubNet{miner}}
	cc.XLog = lg
	cc.Timer = timer.NewXTimer()
	conf := fmt.Sprintf(`{"timestamp":"1559021720000000000","proposer_num":"1","period":"3000","alternate_interval":"3000",`+
		`"term_interval":"6000","block_num":"20","vote_unit_price":"1","init_proposer":{"1":["%s"]}}`, miner)
	if c := tdpos.NewTdposConsensus(cc, cdef.ConsensusConfig{ConsensusName: "tdpos", Config: conf, StartHeight: 0, Index: 0}); c == nil {
		return fmt.Errorf("tdpos.NewTdposConsensus returned nil")
	}
	if _, err := node.Contract.GetKernRegistry().GetKernMethod("$tdpos", "voteCandidate"); err != nil {
		return err
	}
	return nil
}
