package main

import (
	"encoding/json"
	"flag"
	"fmt"
	"math/big"
	"strconv"
	"strings"

	"github.com/xuperchain/xupercore/kernel/contract/proposal/utils"

	"verif/harness/fx"
)

// Abstract accounts of spec/GovToken.tla: a and b hold governance tokens after Init (they are in the
// genesis predistribution, the source of the initial governance-token balances), c is fresh.
var accNames = []string{"a", "b", "c"}

const (
	govC  = utils.GovernTokenKernelContract
	propC = utils.ProposalKernelContract
	timeC = utils.TimerTaskKernelContract
	tdpC  = utils.TDPOSKernelContract
)

type sim struct {
	c      *chain
	nprops int
	names  map[string]string // address -> abstract name
	stats  map[string]int
}

func newSim(name string, balA, balB, nprops int, stats map[string]int) (*sim, error) {
	c, err := newChain(name, []*fx.Key{key("a"), key("b")}, []string{strconv.Itoa(balA), strconv.Itoa(balB)})
	if err != nil {
		return nil, err
	}
	if err := registerTdpos(c.node); err != nil {
		return nil, err
	}
	s := &sim{c: c, nprops: nprops, names: map[string]string{}, stats: stats}
	for _, n := range accNames {
		s.names[addr(n)] = n
	}
	return s, nil
}

// Concretisation of the abstract accounts: deterministic key pairs whose address starts with a lowercase
// letter for the accounts listed in -low and with a digit / uppercase letter for the others (the first
// byte of the address decides on which side of the end key "lock_<id>_`" of the proposal unlock scan the
// account's lock record sorts).
var keyOf = map[string]*fx.Key{}

func chooseKeys(low map[string]bool) {
	for _, n := range accNames {
		for i := 0; ; i++ {
			k := fx.GetKey(fmt.Sprintf("c19-%s-%d", n, i))
			if (k.Address[0] >= '`') == low[n] {
				keyOf[n] = k
				break
			}
		}
	}
}

func key(name string) *fx.Key {
	if k, ok := keyOf[name]; ok {
		return k
	}
	return fx.GetKey(name)
}

func addr(name string) string { return key(name).Address }

func itoa(i int) []byte { return []byte(strconv.Itoa(i)) }

// proposalJSON renders the proposal document of a Propose call. trig = 0 means "no trigger height"
// (the code skips the trigger > stop check for 0). tok selects the trigger target: "ok" = a harmless
// existing kernel method, "bad" = a method that does not exist (the trigger call fails).
func proposalJSON(stop, trig, pct int, tok string) []byte {
	method := "TotalSupply"
	if tok != "ok" {
		method = "NoSuchMethod"
	}
	p := map[string]interface{}{
		"args": map[string]interface{}{"min_vote_percent": strconv.Itoa(pct), "stop_vote_height": strconv.Itoa(stop)},
		"trigger": map[string]interface{}{"height": trig, "module": "xkernel", "contract": govC, "method": method,
			"args": map[string]interface{}{}},
	}
	b, err := json.Marshal(p)
	if err != nil {
		panic(err)
	}
	return b
}

// timerCallArgs builds the argument map the timer passes to $proposal.CheckVoteResult / Trigger.
func timerCallArgs(pid int) map[string][]byte {
	b, _ := json.Marshal(map[string]interface{}{"proposal_id": []byte(strconv.Itoa(pid))}) // []byte -> base64, like the timer's
	return map[string][]byte{"args": b}
}

// step executes one abstract operation; returns the result class.
func (s *sim) step(op fx.Ev) (string, error) {
	k := key(op.Str("by"))
	var res string
	var cerr, derr error
	switch op.Str("op") {
	case "init":
		res, cerr, derr = s.c.call(k, govC, "Init", map[string][]byte{})
	case "transfer":
		res, cerr, derr = s.c.call(k, govC, "Transfer", map[string][]byte{"to": []byte(addr(op.Str("to"))), "amount": itoa(op.Int("amt"))})
		if res == "fail" && cerr != nil && strings.Contains(cerr.Error(), "insufficient balance") {
			s.stats["transfer_refused_insufficient"]++
		}
	case "lock", "unlock": // direct call by a user: must be refused (caller restriction)
		m := "Lock"
		if op.Str("op") == "unlock" {
			m = "UnLock"
		}
		res, cerr, derr = s.c.call(k, govC, m, map[string][]byte{"from": []byte(addr(op.Str("acct"))), "amount": itoa(op.Int("amt")), "lock_type": []byte(op.Str("lt"))})
	case "propose":
		res, cerr, derr = s.c.call(k, propC, "Propose", map[string][]byte{"proposal": proposalJSON(op.Int("stop"), op.Int("trig"), op.Int("pct"), op.Str("tok"))})
	case "vote":
		res, cerr, derr = s.c.call(k, propC, "Vote", map[string][]byte{"proposal_id": itoa(op.Int("pid")), "amount": itoa(op.Int("amt"))})
	case "thaw":
		res, cerr, derr = s.c.call(k, propC, "Thaw", map[string][]byte{"proposal_id": itoa(op.Int("pid"))})
	case "check", "trigger": // direct call by a user: must be refused (only the timer may call)
		m := "CheckVoteResult"
		if op.Str("op") == "trigger" {
			m = "Trigger"
		}
		res, cerr, derr = s.c.call(k, propC, m, timerCallArgs(op.Int("pid")))
	// the real TDPoS kernel contract; "height" = the ledger height whose snapshot the contract reads: the
	// current tip, as an up-to-date client passes it (the generated behaviours never set "hd"; the probe
	// uses it to pass an older height)
	case "tnom": // nominateCandidate(candidate = initiator): Lock(lock_type tdpos)
		res, cerr, derr = s.c.call(k, tdpC, "nominateCandidate", map[string][]byte{"candidate": []byte(k.Address), "amount": itoa(op.Int("amt")), "height": itoa(s.c.height() - op.Int("hd"))})
	case "trevnom": // revokeNominate(candidate = initiator): UnLock of the nomination ballot
		res, cerr, derr = s.c.call(k, tdpC, "revokeNominate", map[string][]byte{"candidate": []byte(k.Address), "height": itoa(s.c.height() - op.Int("hd"))})
	case "tvote": // voteCandidate: Lock(lock_type tdpos)
		res, cerr, derr = s.c.call(k, tdpC, "voteCandidate", map[string][]byte{"candidate": []byte(addr(op.Str("cand"))), "amount": itoa(op.Int("amt")), "height": itoa(s.c.height() - op.Int("hd"))})
	case "trevoke": // revokeVote: UnLock(lock_type tdpos)
		res, cerr, derr = s.c.call(k, tdpC, "revokeVote", map[string][]byte{"candidate": []byte(addr(op.Str("cand"))), "amount": itoa(op.Int("amt")), "height": itoa(s.c.height() - op.Int("hd"))})
	case "tick": // an empty block: only the timer transaction of that height (if any)
		derr = s.c.mine()
		res = "ok"
	default:
		return "", fmt.Errorf("unknown op %q", op.Str("op"))
	}
	_ = cerr
	return res, derr
}

type accObs struct {
	Ex  bool `json:"ex"`
	Bal int  `json:"bal"`
	Lo  int  `json:"lo"`
	Lt  int  `json:"lt"`
	Gb  int  `json:"gb"`
}
type propObs struct {
	Ex    bool   `json:"ex"`
	St    string `json:"st"`
	Votes int    `json:"votes"`
	By    string `json:"by"`
}
type govObs struct {
	H     int       `json:"h"`
	Ts    int       `json:"ts"`
	Acc   []accObs  `json:"acc"`
	Props []propObs `json:"props"`
}

func toInt(b *big.Int) int {
	if b == nil {
		return -999999
	}
	if !b.IsInt64() || b.Int64() > 1<<30 || b.Int64() < -(1<<30) {
		return -999998
	}
	return int(b.Int64())
}

// project asks the public queries: $govern_token.TotalSupply / Query, GovManager.GetGovTokenBalance (the
// engine's QueryAccountGovernTokenBalance), $proposal.Query, ledger height.
func (s *sim) project() govObs {
	o := govObs{H: s.c.height(), Ts: -1}
	if b, err := s.c.query(govC, "TotalSupply", map[string][]byte{}); err == nil {
		o.Ts = toInt(bigOf(string(b)))
	}
	for _, n := range accNames {
		a := accObs{Gb: -1}
		if b, err := s.c.query(govC, "Query", map[string][]byte{"account": []byte(addr(n))}); err == nil {
			bal := &utils.GovernTokenBalance{}
			if err := json.Unmarshal(b, bal); err == nil {
				a.Ex = true
				a.Bal = toInt(bal.TotalBalance)
				a.Lo = toInt(bal.LockedBalance[utils.GovernTokenTypeOrdinary])
				a.Lt = toInt(bal.LockedBalance[utils.GovernTokenTypeTDPOS])
			}
		}
		if gb, err := s.c.node.Gov.GetGovTokenBalance(addr(n)); err == nil {
			a.Gb = toInt(bigOf(gb.TotalBalance))
		}
		// the state machine's public query must agree with the manager's (same code path; sanity)
		if sb, err := s.c.node.State.QueryAccountGovernTokenBalance(addr(n)); err == nil {
			if toInt(bigOf(sb.TotalBalance)) != a.Gb {
				a.Gb = -2
			}
		} else if a.Gb != -1 {
			a.Gb = -2
		}
		o.Acc = append(o.Acc, a)
	}
	for pid := 1; pid <= s.nprops; pid++ {
		p := propObs{}
		if b, err := s.c.query(propC, "Query", map[string][]byte{"proposal_id": itoa(pid)}); err == nil {
			pr := &utils.Proposal{}
			if err := json.Unmarshal(b, pr); err == nil {
				p.Ex = true
				p.St = pr.Status
				p.Votes = toInt(pr.VoteAmount)
				p.By = s.names[pr.Proposer]
				if p.By == "" {
					p.By = "?"
				}
			}
		}
		o.Props = append(o.Props, p)
	}
	return o
}

func replay(args []string) error {
	fs := flag.NewFlagSet("replay", flag.ExitOnError)
	in := fs.String("in", "", "directory of generated behaviours")
	out := fs.String("out", "trace.ndjson", "ndjson trace to write")
	balA := fs.Int("bal-a", 3500, "genesis quota of account a (InitBal of the spec)")
	balB := fs.Int("bal-b", 1000, "genesis quota of account b")
	nprops := fs.Int("props", 2, "number of proposal ids projected (MaxProps of the spec)")
	lowf := fs.String("low", "", "comma separated abstract accounts that get an address starting with a lowercase letter (LowAcc of the spec)")
	fs.Parse(args)
	low := map[string]bool{}
	for _, n := range strings.Split(*lowf, ",") {
		if n != "" {
			low[n] = true
		}
	}
	chooseKeys(low)
	behs, err := fx.LoadBehaviours(*in)
	if err != nil {
		return err
	}
	tw, err := fx.NewTraceWriter(*out)
	if err != nil {
		return err
	}
	defer tw.Close()
	stats := map[string]int{}
	ops := 0
	for k, beh := range behs {
		s, err := newSim(fmt.Sprintf("G%d", k), *balA, *balB, *nprops, stats)
		if err != nil {
			return err
		}
		tw.Emit(fx.Ev{"op": "reset", "tr": k})
		for i, op := range beh {
			res, err := s.step(op)
			if err != nil {
				return fmt.Errorf("behaviour %d step %d (%v): %v", k, i, op, err)
			}
			ev := fx.Ev{"tr": k, "i": i, "res": res, "obs": s.project()}
			for kk, v := range op {
				if kk != "res" {
					ev[kk] = v
				}
			}
			tw.Emit(ev)
			ops++
		}
		s.c.node.Drop()
	}
	stats["behaviours"] = len(behs)
	stats["ops"] = ops
	b, _ := json.Marshal(stats)
	fmt.Println(string(b))
	return nil
}
