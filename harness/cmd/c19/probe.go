package main

import (
	"encoding/json"
	"fmt"

	"verif/harness/fx"
)

// probe: minimal reproductions of the C19 findings on the real kernel contracts (prints what happens;
// `c19 probe`). Not used by the check's verdict; the same histories occur in the generated behaviours.
func probe(args []string) error {
	chooseKeys(map[string]bool{"b": true})
	lower := 0
	for i := 0; i < 300; i++ {
		if fx.GetKey(fmt.Sprintf("c19-sample-%d", i)).Address[0] >= '`' {
			lower++
		}
	}
	fmt.Printf("addresses starting with a lowercase letter: %d of 300 sampled keys; a=%s b=%s c=%s\n", lower, addr("a"), addr("b"), addr("c"))
	run := func(title string, prog []fx.Ev) error {
		s, err := newSim("probe", 3500, 1000, 2, map[string]int{})
		if err != nil {
			return err
		}
		defer s.c.node.Drop()
		fmt.Println("==", title)
		for _, op := range prog {
			res, err := s.step(op)
			if err != nil {
				return err
			}
			o, _ := json.Marshal(s.project())
			a, _ := json.Marshal(op)
			fmt.Printf("  %s -> %s\n     %s\n", a, res, o)
		}
		return nil
	}
	progs := []struct {
		t string
		p []fx.Ev
	}{
		{"KF_SelfTransferMints: a transfer to oneself credits the amount without debiting it", []fx.Ev{
			{"op": "init", "by": "a"},
			{"op": "transfer", "by": "a", "to": "a", "amt": 1000},
		}},
		{"KF_TransferResetsReceiverLocks: a transfer zeroes the receiver's locked amounts", []fx.Ev{
			{"op": "init", "by": "a"},
			{"op": "propose", "by": "b", "stop": 9, "trig": 0, "pct": 51, "tok": "ok"},
			{"op": "transfer", "by": "a", "to": "b", "amt": 0},
			{"op": "transfer", "by": "b", "to": "a", "amt": 1000},
		}},
		{"KF_UnlockSkipsLowercaseAddr: b (lowercase-initial address) keeps its proposal lock after the proposal is rejected", []fx.Ev{
			{"op": "init", "by": "a"},
			{"op": "propose", "by": "b", "stop": 4, "trig": 0, "pct": 51, "tok": "ok"},
			{"op": "vote", "by": "a", "pid": 1, "amt": 500},
			{"op": "tick"},
			{"op": "tick"},
		}},
		{"observation (outside the C19 statement): $tdpos reads its records at the snapshot height chosen by the caller", []fx.Ev{
			{"op": "init", "by": "a"},
			{"op": "tnom", "by": "a", "amt": 500},
			{"op": "tnom", "by": "b", "amt": 1000},
			{"op": "trevnom", "by": "a"},
			{"op": "trevnom", "by": "a", "hd": 1},
			{"op": "transfer", "by": "a", "to": "c", "amt": 2500},
			{"op": "transfer", "by": "a", "to": "c", "amt": 1000},
			{"op": "transfer", "by": "a", "to": "c", "amt": 500},
		}},
		{"proposal life cycle", []fx.Ev{
			{"op": "init", "by": "b"},
			{"op": "lock", "by": "a", "acct": "a", "amt": 500, "lt": "ordinary"},
			{"op": "propose", "by": "a", "stop": 5, "trig": 7, "pct": 51, "tok": "ok"},
			{"op": "vote", "by": "a", "pid": 1, "amt": 2500},
			{"op": "vote", "by": "b", "pid": 1, "amt": 500},
			{"op": "check", "by": "a", "pid": 1},
			{"op": "tick"},
			{"op": "tick"},
			{"op": "tick"},
			{"op": "tvote", "by": "b", "cand": "a", "amt": 500},
			{"op": "tnom", "by": "a", "amt": 500},
			{"op": "tnom", "by": "a", "amt": 500},
			{"op": "tvote", "by": "b", "cand": "a", "amt": 500},
			{"op": "trevoke", "by": "b", "cand": "a", "amt": 1000},
			{"op": "trevoke", "by": "b", "cand": "a", "amt": 500},
			{"op": "trevoke", "by": "b", "cand": "a", "amt": 500},
			{"op": "trevnom", "by": "b"},
			{"op": "trevnom", "by": "a"},
			{"op": "trevnom", "by": "a"},
			{"op": "tvote", "by": "b", "cand": "a", "amt": 500},
		}},
	}
	for _, p := range progs {
		if err := run(p.t, p.p); err != nil {
			return err
		}
	}
	return nil
}
