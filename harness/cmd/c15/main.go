// Command c15 is the Go side of check C15 (pending-proposal tree): it replays behaviours of
// spec/QCTree.tla on the real QCPendingTree (package-private mutators through the verif export shim)
// and on the real DefaultPaceMaker, and records the projection after every step as ndjson.
// It never decides whether a result is right (spec/Trace_QCTree.tla does).
package main

import (
	"encoding/json"
	"flag"
	"fmt"
	"os"
	"sort"

	bft "github.com/xuperchain/xupercore/kernel/consensus/base/driver/chained-bft"
	bftpb "github.com/xuperchain/xupercore/kernel/consensus/base/driver/chained-bft/pb"
	"github.com/xuperchain/xupercore/kernel/network/p2p"
	xpb "github.com/xuperchain/xupercore/protos"

	"verif/harness/cbft"
	"verif/harness/fx"
)

type sim struct {
	node *cbft.Node // Smr level only
	np   int
	par  []int // par[p] for p in 1..np (index 0 unused)
	view []int
	tree *bft.QCPendingTree
	pace *bft.DefaultPaceMaker
	back map[string]int
}

func idOf(p int) []byte {
	if p < 0 {
		return nil
	}
	return []byte(fmt.Sprintf("verif-c15-proposal-%03d", p))
}

func newSim(par []int) *sim {
	s := &sim{np: len(par), par: append([]int{-1}, par...), back: map[string]int{}}
	s.view = make([]int, s.np+1)
	for p := 1; p <= s.np; p++ {
		s.view[p] = s.view[s.par[p]] + 1
	}
	for p := 0; p <= s.np; p++ {
		s.back[string(idOf(p))] = p
	}
	s.tree = cbft.NewTree(idOf(0), 0)
	s.pace = &bft.DefaultPaceMaker{}
	return s
}

// node builds a fresh ProposalNode for proposal p, the way a handler does for every arriving message.
func (s *sim) node_(p int) *bft.ProposalNode {
	q := cbft.NewQC(idOf(p), int64(s.view[p]), idOf(s.par[p]), int64(s.view[s.par[p]]))
	return &bft.ProposalNode{In: q}
}

func (s *sim) abs(n *bft.ProposalNode) int {
	if n == nil || n.In == nil {
		return -1
	}
	if a, ok := s.back[string(n.In.GetProposalId())]; ok {
		return a
	}
	return -2
}

type obs struct {
	Root    int   `json:"root"`
	High    int   `json:"high"`
	Generic int   `json:"generic"`
	Locked  int   `json:"locked"`
	Commit  int   `json:"commit"`
	Tree    []int `json:"tree"`
	Oroots  []int `json:"oroots"`
	Otree   []int `json:"otree"`
	Cnt     []int `json:"cnt"`
	Pview   int   `json:"pview"`
}

// walk visits the structure below n (Sons), recording for every node the abstract id of its holder.
func (s *sim) walk(n *bft.ProposalNode, holder []int, cnt []int, seen map[*bft.ProposalNode]bool) {
	for _, c := range n.Sons {
		if c == nil || seen[c] {
			continue
		}
		seen[c] = true
		if a := s.abs(c); a >= 1 {
			cnt[a-1]++
			holder[a-1] = s.abs(n)
		}
		s.walk(c, holder, cnt, seen)
	}
}

func (s *sim) project() obs {
	t := s.tree
	o := obs{Root: s.abs(t.GetRootQC()), High: s.abs(t.GetHighQC()), Generic: s.abs(t.GetGenericQC()),
		Locked: s.abs(t.GetLockedQC()), Commit: s.abs(t.GetCommitQC()), Oroots: []int{}, Pview: int(s.pace.GetCurrentView())}
	if s.node != nil {
		o.Pview = int(s.node.Smr.GetCurrentView())
	}
	o.Tree, o.Otree, o.Cnt = make([]int, s.np), make([]int, s.np), make([]int, s.np)
	for i := range o.Tree {
		o.Tree[i], o.Otree[i] = -1, -1
	}
	seen := map[*bft.ProposalNode]bool{t.Root: true}
	if a := s.abs(t.Root); a >= 1 {
		o.Cnt[a-1]++
	}
	s.walk(t.Root, o.Tree, o.Cnt, seen)
	rootView := t.Root.In.GetProposalView()
	for e := t.OrphanList.Front(); e != nil; e = e.Next() {
		n, ok := e.Value.(*bft.ProposalNode)
		if !ok || n.In.GetProposalView() <= rootView { // stale trees are dropped lazily and never consulted
			continue
		}
		if a := s.abs(n); a >= 1 {
			o.Oroots = append(o.Oroots, a)
			o.Cnt[a-1]++
		}
		oseen := map[*bft.ProposalNode]bool{n: true}
		s.walk(n, o.Otree, o.Cnt, oseen)
	}
	sort.Ints(o.Oroots)
	return o
}

func (s *sim) step(op fx.Ev) (string, error) {
	p := op.Int("p")
	if p < 0 || p > s.np {
		return "", fmt.Errorf("proposal %d out of range", p)
	}
	switch op.Str("op") {
	case "insert":
		if err := s.tree.VerifUpdateQcStatus(s.node_(p)); err != nil {
			return "err", nil
		}
	case "certify":
		s.tree.VerifUpdateHighQC(idOf(p))
	case "enforce":
		if err := s.tree.VerifEnforceUpdateHighQC(idOf(p)); err != nil {
			return "err", nil
		}
	case "commit":
		s.tree.VerifUpdateCommit(idOf(p))
	case "advance":
		s.pace.AdvanceView(cbft.NewQC(idOf(p), int64(s.view[p]), nil, 0))
	default:
		return "", fmt.Errorf("unknown op %q", op.Str("op"))
	}
	return "ok", nil
}

func replay(args []string) error {
	fs := flag.NewFlagSet("replay", flag.ExitOnError)
	in := fs.String("in", "", "directory of behaviours")
	out := fs.String("out", "trace.ndjson", "ndjson trace to write")
	fs.Parse(args)
	behs, err := fx.LoadBehaviours(*in)
	if err != nil {
		return err
	}
	tw, err := fx.NewTraceWriter(*out)
	if err != nil {
		return err
	}
	defer tw.Close()
	ops := 0
	stats := map[string]int{}
	for k, beh := range behs {
		if len(beh) == 0 || beh[0].Str("op") != "tree" {
			return fmt.Errorf("behaviour %d does not start with its tree", k)
		}
		s := newSim(beh[0].Ints("par"))
		tw.Emit(fx.Ev{"op": "tree", "tr": k, "i": 0, "par": beh[0].Ints("par"), "res": "ok", "obs": s.project()})
		for i, op := range beh[1:] {
			before := s.project()
			res, err := s.step(op)
			if err != nil {
				return fmt.Errorf("behaviour %d step %d: %v", k, i+1, err)
			}
			o := s.project()
			tw.Emit(fx.Ev{"tr": k, "i": i + 1, "op": op.Str("op"), "p": op.Int("p"), "res": res, "obs": o})
			ops++
			if o.Root != before.Root {
				stats["root_moves"]++
			}
			if len(o.Oroots) < len(before.Oroots) && op.Str("op") == "insert" {
				stats["adoptions"]++
			}
			if len(o.Oroots) > 0 {
				stats["steps_with_orphans"]++
			}
			if o.High != before.High {
				stats["high_moves"]++
			}
		}
	}
	fmt.Printf("{\"behaviours\":%d,\"ops\":%d,\"root_moves\":%d,\"adoptions\":%d,\"steps_with_orphans\":%d,\"high_moves\":%d}\n",
		len(behs), ops, stats["root_moves"], stats["adoptions"], stats["steps_with_orphans"], stats["high_moves"])
	return nil
}

// ---------------------------------------------------------------------------------------------
// Smr level: the same proposals arrive as real signed p2p messages at the real handlers.

const nValidators = 4

func newSmrSim(par []int) *sim {
	s := newSim(par)
	s.node = cbft.NewNode(cbft.Member(1), cbft.Addresses(nValidators), idOf(0), 0)
	s.tree = s.node.Tree
	return s
}

// signs returns valid signatures of members 2..4 over id.
func signs(id []byte, members ...int) []*bftpb.QuorumCertSign {
	out := []*bftpb.QuorumCertSign{}
	for _, m := range members {
		sg, err := cbft.Crypto(cbft.Member(m)).SignVoteMsg(id)
		if err != nil {
			panic(err)
		}
		out = append(out, sg)
	}
	return out
}

// certOf builds the certificate of proposal q as a peer would carry it.
func (s *sim) certOf(q int) *bft.QuorumCert {
	c := &bft.QuorumCert{VoteInfo: &bft.VoteInfo{ProposalId: idOf(q), ProposalView: int64(s.view[q])}}
	if q > 0 {
		c.VoteInfo.ParentId, c.VoteInfo.ParentView = idOf(s.par[q]), int64(s.view[s.par[q]])
		c.SignInfos = signs(idOf(q), 2, 3, 4)
	}
	return c
}

type smrObs struct {
	T      obs    `json:"t"`
	Known  []bool `json:"known"`
	Ledger int    `json:"ledger"`
	Nvotes []int  `json:"nvotes"`
}

func (s *sim) projectSmr() smrObs {
	o := smrObs{T: s.project(), Ledger: int(s.node.Smr.VerifLedgerState())}
	for p := 1; p <= s.np; p++ {
		o.Known = append(o.Known, s.node.Smr.VerifKnowsProposal(idOf(p)))
		o.Nvotes = append(o.Nvotes, len(s.node.Smr.VerifVotes(idOf(p))))
	}
	return o
}

func (s *sim) stepSmr(op fx.Ev) (string, error) {
	p := op.Int("p")
	if p < 0 || p > s.np {
		return "", fmt.Errorf("proposal %d out of range", p)
	}
	smr := s.node.Smr
	switch op.Str("op") {
	case "confirm":
		if err := smr.UpdateQcStatus(s.node_(p)); err != nil {
			return "err", nil
		}
	case "propose":
		cf, _ := op["cf"].(bool)
		justify := s.certOf(s.par[p])
		if cf {
			justify.LedgerCommitInfo = &bft.LedgerCommitInfo{CommitStateId: idOf(0)}
		}
		jb, err := json.Marshal(justify)
		if err != nil {
			return "", err
		}
		pm, err := cbft.Crypto(s.node.Self).SignProposalMsg(&bftpb.ProposalMsg{ProposalView: int64(s.view[p]), ProposalId: idOf(p), Timestamp: int64(p), JustifyQC: jb})
		if err != nil {
			return "", err
		}
		smr.VerifHandleReceivedProposal(p2p.NewMessage(xpb.XuperMessage_CHAINED_BFT_NEW_PROPOSAL_MSG, pm, p2p.WithBCName(cbft.BCName)))
	case "vote":
		m := op.Int("m")
		vb, _ := json.Marshal(&bft.VoteInfo{ProposalId: idOf(p), ProposalView: int64(s.view[p]), ParentId: idOf(s.par[p]), ParentView: int64(s.view[s.par[p]])})
		lb, _ := json.Marshal(&bft.LedgerCommitInfo{VoteInfoHash: idOf(p)})
		msg := p2p.NewMessage(xpb.XuperMessage_CHAINED_BFT_VOTE_MSG, &bftpb.VoteMsg{VoteInfo: vb, LedgerCommitInfo: lb, Signature: signs(idOf(p), m)}, p2p.WithBCName(cbft.BCName))
		if err := smr.VerifHandleReceivedVoteMsg(msg); err != nil {
			return "reject", nil
		}
	case "justify":
		smr.UpdateJustifyQcStatus(s.certOf(p))
	case "rollback":
		if err := smr.EnforceUpdateHighQC(idOf(p)); err != nil {
			return "err", nil
		}
	default:
		return "", fmt.Errorf("unknown op %q", op.Str("op"))
	}
	return "ok", nil
}

func replaySmr(args []string) error {
	fs := flag.NewFlagSet("smr", flag.ExitOnError)
	in := fs.String("in", "", "directory of behaviours")
	out := fs.String("out", "trace.ndjson", "ndjson trace to write")
	fs.Parse(args)
	behs, err := fx.LoadBehaviours(*in)
	if err != nil {
		return err
	}
	tw, err := fx.NewTraceWriter(*out)
	if err != nil {
		return err
	}
	defer tw.Close()
	ops := 0
	stats := map[string]int{}
	for k, beh := range behs {
		if len(beh) == 0 || beh[0].Str("op") != "tree" {
			return fmt.Errorf("behaviour %d does not start with its tree", k)
		}
		s := newSmrSim(beh[0].Ints("par"))
		tw.Emit(fx.Ev{"op": "tree", "tr": k, "i": 0, "par": beh[0].Ints("par"), "res": "ok", "obs": s.projectSmr()})
		for i, op := range beh[1:] {
			before := s.projectSmr()
			res, err := s.stepSmr(op)
			if err != nil {
				return fmt.Errorf("behaviour %d step %d: %v", k, i+1, err)
			}
			o := s.projectSmr()
			ev := fx.Ev{"tr": k, "i": i + 1, "res": res, "obs": o}
			for kk, v := range op {
				if kk != "res" {
					ev[kk] = v
				}
			}
			tw.Emit(ev)
			ops++
			if o.T.Root != before.T.Root {
				stats["root_moves"]++
			}
			if op.Str("op") == "propose" && sum(o.T.Cnt) > sum(before.T.Cnt) {
				stats["inserted"]++
			}
			if op.Str("op") == "vote" && o.T.Pview > before.T.Pview {
				stats["quorums"]++
			}
			if o.T.High != before.T.High {
				stats["high_moves"]++
			}
		}
		if s.node.Net.Sent != 0 {
			return fmt.Errorf("behaviour %d: the node sent %d messages (the driver expects none)", k, s.node.Net.Sent)
		}
	}
	fmt.Printf("{\"behaviours\":%d,\"ops\":%d,\"root_moves\":%d,\"inserted\":%d,\"quorums\":%d,\"high_moves\":%d}\n",
		len(behs), ops, stats["root_moves"], stats["inserted"], stats["quorums"], stats["high_moves"])
	return nil
}

func sum(a []int) int {
	t := 0
	for _, x := range a {
		t += x
	}
	return t
}

func main() {
	if len(os.Args) < 2 || (os.Args[1] != "replay" && os.Args[1] != "smr") {
		fmt.Fprintln(os.Stderr, "usage: c15 replay|smr -in DIR -out FILE")
		os.Exit(64)
	}
	work := os.Getenv("VERIF_WORK")
	if work == "" {
		var err error
		if work, err = os.MkdirTemp("", "c15"); err != nil {
			panic(err)
		}
		defer os.RemoveAll(work)
	}
	fx.Init(work)
	run := replay
	if os.Args[1] == "smr" {
		run = replaySmr
	}
	if err := run(os.Args[2:]); err != nil {
		fmt.Fprintln(os.Stderr, "c15:", err)
		os.Exit(3)
	}
}
