// Command c15 is the Go side of check C15 (pending-proposal tree): it replays behaviours of
// spec/QCTree.tla on the real QCPendingTree (package-private mutators through the verif export shim)
// and on the real DefaultPaceMaker, and records the projection after every step as ndjson.
// It never decides whether a result is right (spec/Trace_QCTree.tla does).
package main

import (
	"flag"
	"fmt"
	"os"
	"sort"

	bft "github.com/xuperchain/xupercore/kernel/consensus/base/driver/chained-bft"

	"verif/harness/cbft"
	"verif/harness/fx"
)

type sim struct {
	np   int
	par  []int // par[p] for p in 1..np (index 0 unused)
	view []int
	tree *bft.QCPendingTree
	pace *bft.DefaultPaceMaker
	back map[string]int
}

func idOf(p int) []byte {
	if p < 0 {
		return nil
	}
	return []byte(fmt.Sprintf("verif-c15-proposal-%03d", p))
}

func newSim(par []int) *sim {
	s := &sim{np: len(par), par: append([]int{-1}, par...), back: map[string]int{}}
	s.view = make([]int, s.np+1)
	for p := 1; p <= s.np; p++ {
		s.view[p] = s.view[s.par[p]] + 1
	}
	for p := 0; p <= s.np; p++ {
		s.back[string(idOf(p))] = p
	}
	s.tree = cbft.NewTree(idOf(0), 0)
	s.pace = &bft.DefaultPaceMaker{}
	return s
}

// node builds a fresh ProposalNode for proposal p, the way a handler does for every arriving message.
func (s *sim) node(p int) *bft.ProposalNode {
	q := cbft.NewQC(idOf(p), int64(s.view[p]), idOf(s.par[p]), int64(s.view[s.par[p]]))
	return &bft.ProposalNode{In: q}
}

func (s *sim) abs(n *bft.ProposalNode) int {
	if n == nil || n.In == nil {
		return -1
	}
	if a, ok := s.back[string(n.In.GetProposalId())]; ok {
		return a
	}
	return -2
}

type obs struct {
	Root    int   `json:"root"`
	High    int   `json:"high"`
	Generic int   `json:"generic"`
	Locked  int   `json:"locked"`
	Commit  int   `json:"commit"`
	Tree    []int `json:"tree"`
	Oroots  []int `json:"oroots"`
	Otree   []int `json:"otree"`
	Cnt     []int `json:"cnt"`
	Pview   int   `json:"pview"`
}

// walk visits the structure below n (Sons), recording for every node the abstract id of its holder.
func (s *sim) walk(n *bft.ProposalNode, holder []int, cnt []int, seen map[*bft.ProposalNode]bool) {
	for _, c := range n.Sons {
		if c == nil || seen[c] {
			continue
		}
		seen[c] = true
		if a := s.abs(c); a >= 1 {
			cnt[a-1]++
			holder[a-1] = s.abs(n)
		}
		s.walk(c, holder, cnt, seen)
	}
}

func (s *sim) project() obs {
	t := s.tree
	o := obs{Root: s.abs(t.GetRootQC()), High: s.abs(t.GetHighQC()), Generic: s.abs(t.GetGenericQC()),
		Locked: s.abs(t.GetLockedQC()), Commit: s.abs(t.GetCommitQC()), Oroots: []int{}, Pview: int(s.pace.GetCurrentView())}
	o.Tree, o.Otree, o.Cnt = make([]int, s.np), make([]int, s.np), make([]int, s.np)
	for i := range o.Tree {
		o.Tree[i], o.Otree[i] = -1, -1
	}
	seen := map[*bft.ProposalNode]bool{t.Root: true}
	if a := s.abs(t.Root); a >= 1 {
		o.Cnt[a-1]++
	}
	s.walk(t.Root, o.Tree, o.Cnt, seen)
	rootView := t.Root.In.GetProposalView()
	for e := t.OrphanList.Front(); e != nil; e = e.Next() {
		n, ok := e.Value.(*bft.ProposalNode)
		if !ok || n.In.GetProposalView() <= rootView { // stale trees are dropped lazily and never consulted
			continue
		}
		if a := s.abs(n); a >= 1 {
			o.Oroots = append(o.Oroots, a)
			o.Cnt[a-1]++
		}
		oseen := map[*bft.ProposalNode]bool{n: true}
		s.walk(n, o.Otree, o.Cnt, oseen)
	}
	sort.Ints(o.Oroots)
	return o
}

func (s *sim) step(op fx.Ev) (string, error) {
	p := op.Int("p")
	if p < 0 || p > s.np {
		return "", fmt.Errorf("proposal %d out of range", p)
	}
	switch op.Str("op") {
	case "insert":
		if err := s.tree.VerifUpdateQcStatus(s.node(p)); err != nil {
			return "err", nil
		}
	case "certify":
		s.tree.VerifUpdateHighQC(idOf(p))
	case "enforce":
		if err := s.tree.VerifEnforceUpdateHighQC(idOf(p)); err != nil {
			return "err", nil
		}
	case "commit":
		s.tree.VerifUpdateCommit(idOf(p))
	case "advance":
		s.pace.AdvanceView(cbft.NewQC(idOf(p), int64(s.view[p]), nil, 0))
	default:
		return "", fmt.Errorf("unknown op %q", op.Str("op"))
	}
	return "ok", nil
}

func replay(args []string) error {
	fs := flag.NewFlagSet("replay", flag.ExitOnError)
	in := fs.String("in", "", "directory of behaviours")
	out := fs.String("out", "trace.ndjson", "ndjson trace to write")
	fs.Parse(args)
	behs, err := fx.LoadBehaviours(*in)
	if err != nil {
		return err
	}
	tw, err := fx.NewTraceWriter(*out)
	if err != nil {
		return err
	}
	defer tw.Close()
	ops := 0
	stats := map[string]int{}
	for k, beh := range behs {
		if len(beh) == 0 || beh[0].Str("op") != "tree" {
			return fmt.Errorf("behaviour %d does not start with its tree", k)
		}
		s := newSim(beh[0].Ints("par"))
		tw.Emit(fx.Ev{"op": "tree", "tr": k, "i": 0, "par": beh[0].Ints("par"), "res": "ok", "obs": s.project()})
		for i, op := range beh[1:] {
			before := s.project()
			res, err := s.step(op)
			if err != nil {
				return fmt.Errorf("behaviour %d step %d: %v", k, i+1, err)
			}
			o := s.project()
			tw.Emit(fx.Ev{"tr": k, "i": i + 1, "op": op.Str("op"), "p": op.Int("p"), "res": res, "obs": o})
			ops++
			if o.Root != before.Root {
				stats["root_moves"]++
			}
			if len(o.Oroots) < len(before.Oroots) && op.Str("op") == "insert" {
				stats["adoptions"]++
			}
			if len(o.Oroots) > 0 {
				stats["steps_with_orphans"]++
			}
			if o.High != before.High {
				stats["high_moves"]++
			}
		}
	}
	fmt.Printf("{\"behaviours\":%d,\"ops\":%d,\"root_moves\":%d,\"adoptions\":%d,\"steps_with_orphans\":%d,\"high_moves\":%d}\n",
		len(behs), ops, stats["root_moves"], stats["adoptions"], stats["steps_with_orphans"], stats["high_moves"])
	return nil
}

func main() {
	if len(os.Args) < 2 || os.Args[1] != "replay" {
		fmt.Fprintln(os.Stderr, "usage: c15 replay -in DIR -out FILE")
		os.Exit(64)
	}
	work := os.Getenv("VERIF_WORK")
	if work == "" {
		var err error
		if work, err = os.MkdirTemp("", "c15"); err != nil {
			panic(err)
		}
		defer os.RemoveAll(work)
	}
	fx.Init(work)
	if err := replay(os.Args[2:]); err != nil {
		fmt.Fprintln(os.Stderr, "c15:", err)
		os.Exit(3)
	}
}
