package main

import (
	"encoding/json"
	"flag"
	"fmt"

	"github.com/golang/protobuf/proto"
	"github.com/xuperchain/xupercore/bcs/ledger/xledger/state/utxo/txhash"
	txn "github.com/xuperchain/xupercore/bcs/ledger/xledger/tx"
	pb "github.com/xuperchain/xupercore/bcs/ledger/xledger/xldgpb"
	"github.com/xuperchain/xupercore/protos"

	"verif/harness/fx"
)

type absMut struct {
	F   string `json:"f"`
	Loc string `json:"loc"`
	I   int    `json:"i"`
	Var string `json:"var"`
	St  string `json:"st"`
}

type opLine struct {
	Op   string          `json:"op"`
	T    json.RawMessage `json:"t"`
	M    json.RawMessage `json:"m"`
	R    string          // rider of a "cb" op
	Hon  bool
	Pool string // plan of a "blk" op
	Via  string
	Mh   string // ... height of the block relative to the effective height of the mark on the transaction the entry refers to
}

type caseOut struct {
	Tr  int             `json:"tr"`
	I   int             `json:"i"`
	Op  string          `json:"op"`
	T   json.RawMessage `json:"t"`
	Res string          `json:"res"`
	Sub string          `json:"sub"` // Chain.SubmitTx: ok | rej | "-" (not asked)
}

type blkOut struct {
	Tr      int             `json:"tr"`
	I       int             `json:"i"`
	Op      string          `json:"op"`
	T       json.RawMessage `json:"t"`
	M       json.RawMessage `json:"m"`
	Pool    string          `json:"pool"`
	Via     string          `json:"via"`
	Mh      string          `json:"mh"`
	Applied bool            `json:"applied"` // the mutation changed the protobuf (true without mutation)
	Same    bool            `json:"same"`
	SameC   bool            `json:"samec"` // the entry is the pooled transaction (equal up to block id and reception time)
	Pooled  string          `json:"pooled"`
	Res     string          `json:"res"`
	Fl      []string        `json:"fl"`
}

type fixtureOut struct {
	Tr     int        `json:"tr"`
	I      int        `json:"i"`
	Op     string     `json:"op"`
	Rules  []ruleLine `json:"rules"`
	NoRule []string   `json:"norule"`
}

type mutOut struct {
	Tr      int             `json:"tr"`
	I       int             `json:"i"`
	Op      string          `json:"op"`
	T       json.RawMessage `json:"t"`
	M       json.RawMessage `json:"m"`
	Res     string          `json:"res"`
	Sub     string          `json:"sub"`
	Applied bool            `json:"applied"`
}

type cbOut struct {
	Tr  int    `json:"tr"`
	I   int    `json:"i"`
	Op  string `json:"op"`
	R   string `json:"r"`
	Res string `json:"res"`
}

// coinbaseRider: on a fresh fixture chain a peer block [award transaction + rider] is confirmed and played.
// rider "write": the award transaction also carries a read / write set that rewrites the rule of account A
// (k2 and k3) to "kx alone". "ok": the block was played (and, with a rider, the rule changed).
func coinbaseRider(name, rider string) (string, error) {
	w, err := newWorld(name)
	if err != nil {
		return "", err
	}
	defer w.node.Drop()
	l, s := w.node.Ledger, w.node.State
	const acctBucket = "XCAccount"
	a := w.name("A")
	w.seq++
	aw, err := txn.GenerateAwardTx(w.miner.Address, "0", []byte("award-rider"))
	if err != nil {
		return "", err
	}
	want := thresholdACL(map[string]float64{w.key["kx"].Address: 1}, 1)
	if rider == "write" {
		cur, err := s.CreateXMReader().Get(acctBucket, []byte(a))
		if err != nil {
			return "", err
		}
		aw.TxInputsExt = []*protos.TxInputExt{{Bucket: acctBucket, Key: []byte(a), RefTxid: cur.RefTxid, RefOffset: cur.RefOffset}}
		aw.TxOutputsExt = []*protos.TxOutputExt{{Bucket: acctBucket, Key: []byte(a), Value: want}}
		if aw.Txid, err = txhash.MakeTransactionID(aw); err != nil {
			return "", err
		}
	}
	blk, err := l.FormatMinerBlock([]*pb.Transaction{aw}, []byte(w.miner.Address), w.miner.Priv, w.seq, 0, 0, s.GetLatestBlockid(), 0, s.GetTotal(), nil, nil, l.GetMeta().TrunkHeight+1)
	if err != nil {
		return "", err
	}
	if cs := l.ConfirmBlock(blk, false); !cs.Succ {
		return "rej", nil
	}
	if err := s.PlayAndRepost(blk.Blockid, false, false); err != nil {
		return "rej", nil
	}
	if rider == "write" {
		after, err := w.node.Acl.GetAccountACL(a)
		if err != nil || after.GetAksWeight()[w.key["kx"].Address] != 1 {
			return "rej", nil
		}
	}
	return "ok", nil
}

func whyClass(why string) string {
	if len(why) > 48 {
		why = why[:48]
	}
	return why
}

func formOf(t *aTx) string {
	switch {
	case t.Xs.On:
		return fmt.Sprintf("xsign%d", len(t.Auth))
	case len(t.Init) == 1:
		if len(t.Auth) == 0 {
			return "account-initiator"
		}
		return "account-initiator+signers"
	case len(t.Auth) == 0:
		return "address"
	case len(t.Auth[0]) == 2:
		return "multi-account-uris"
	}
	return "multi-address"
}

// families names the case families of the signer-list / account dimensions an abstract transaction belongs to.
func families(t *aTx) []string {
	out := []string{}
	seenURI, seenKey := map[string]bool{}, map[string]string{}
	dupURI, alias := false, false
	for _, u := range t.Auth {
		s := fmt.Sprint(u)
		if seenURI[s] {
			dupURI = true
		}
		seenURI[s] = true
		last := u[len(u)-1]
		if prev, ok := seenKey[last]; ok && prev != s {
			alias = true
		}
		seenKey[last] = s
	}
	if dupURI {
		out = append(out, "signer_uri_listed_twice")
	}
	if alias {
		out = append(out, "key_through_two_uris")
	}
	acctInit := len(t.Init) == 1
	if acctInit && !t.Xs.On {
		pk := map[string]bool{}
		for _, sg := range t.Isigs {
			if pk[sg.Pk] {
				out = append(out, "account_initiator_signed_twice_by_one_key")
				break
			}
			pk[sg.Pk] = true
		}
	}
	acctIn := false
	for _, in := range t.Ins {
		if len(in.Own) == 1 && in.Own != "C" && !in.Cj {
			acctIn = true
			if in.Own != "A" && in.Own != "B" && in.Own != "G" {
				out = append(out, "input_of_account_"+in.Own)
			}
		}
	}
	if t.Xs.On && acctInit {
		out = append(out, "xsign_account_initiator")
		if len(t.Auth) > 0 && len(t.Auth[0]) == 2 {
			out = append(out, "xsign_account_initiator_named_in_signers")
		} else {
			out = append(out, "xsign_account_initiator_not_named")
		}
	}
	if t.Xs.On && acctIn {
		out = append(out, "xsign_account_owned_input")
	}
	if (dupURI || alias) && acctIn {
		out = append(out, "repeated_signer_and_account_owned_input")
	}
	return out
}

func refsMarked(t *aTx) bool {
	if t.Ctr == "mread" {
		return true
	}
	for _, in := range t.Ins {
		if in.Mk {
			return true
		}
	}
	return false
}

// kindOfFailure names, for the statistics only, what is wrong with an entry that refers to a marked transaction.
func kindOfFailure(t *aTx, m *absMut) string {
	switch {
	case m.Var != "none" && m.F == "Transaction.txid":
		return "id-field-changed"
	case m.Var != "none" && m.F == "SignatureInfo.Sign":
		return "signature-bytes-changed"
	case m.Var != "none":
		return "field-changed:" + m.St
	case t.Id == "stale":
		return "stale-id"
	}
	for _, sg := range append(append([]aSig{}, t.Isigs...), t.Asigs...) {
		if sg.By != sg.Pk || sg.Dg != "this" {
			return "signature-" + sg.By + "-" + sg.Dg
		}
	}
	return "signatures-valid"
}

// mutate applies the field mutation m to a copy of base; applied: the wire form differs from the base's.
func mutate(base *pb.Transaction, m *absMut) (mtx *pb.Transaction, applied bool, err error) {
	mtx = proto.Clone(base).(*pb.Transaction)
	msg, found, err := resolve(mtx, m.Loc, m.I)
	if err != nil {
		return nil, false, err
	}
	if found {
		if applied, err = applyVar(msg, m.F[len(msg.Type().Name())+1:], m.Var); err != nil {
			return nil, false, fmt.Errorf("mutation %+v: %v", m, err)
		}
	}
	if applied && m.St == "fixid" {
		if mtx.Txid, err = txhash.MakeTransactionID(mtx); err != nil {
			return nil, false, err
		}
	}
	if applied {
		// what arrives at a node went through the wire: compare after normalisation
		wm, err := wire(mtx)
		if err != nil {
			return nil, false, err
		}
		applied = !proto.Equal(wm, base)
	}
	return mtx, applied, nil
}

// submitRejected asks the engine entry Chain.SubmitTx about a transaction State.VerifyTx did not accept, on the
// fixture node itself: a refusal leaves the node as it was. If the engine admits it the node is no longer the
// fixture: the world is built anew (dirty).
func (w *world) submitRejected(tx *pb.Transaction, st *stats) (res string, dirty bool) {
	res, _ = submitClass(w.node, tx, st)
	return res, res == "ok"
}

// casesCmd: every op of every behaviour file of -in on the real code.
//
//	case: concretise the abstract transaction, State.VerifyTx
//	mut : concretise the (accepted) base, apply the field mutation to the real protobuf, optionally recompute
//	      the id, State.VerifyTx
func casesCmd(args []string) error {
	fs := flag.NewFlagSet("cases", flag.ExitOnError)
	in := fs.String("in", "", "directory with behaviour files (lists of case / mut ops)")
	out := fs.String("out", "", "ndjson trace to write")
	tag := fs.String("tag", "", "distinguishes the node names of driver processes that run side by side")
	fs.Parse(args)
	behs, err := loadOps(*in)
	if err != nil {
		return err
	}
	worlds := 0
	var w *world
	bases := map[string]*pb.Transaction{}
	renew := func() error {
		if w != nil {
			w.node.Drop()
		}
		worlds++
		bases = map[string]*pb.Transaction{}
		w, err = newWorld(fmt.Sprintf("c07cases%d%s-%d", seed(), *tag, worlds))
		return err
	}
	if err := renew(); err != nil {
		return err
	}
	tw, err := fx.NewTraceWriter(*out)
	if err != nil {
		return err
	}
	defer tw.Close()
	st := newStats()
	rules, err := w.fixtureRules()
	if err != nil {
		return err
	}
	tw.Emit(fixtureOut{0, 0, "fixture", rules, []string{"G"}})
	n := 0
	for tr, beh := range behs {
		for i, op := range beh {
			n++
			if op.Op == "cb" {
				res, err := coinbaseRider(fmt.Sprintf("c07cb%d%s-%d", seed(), *tag, n), op.R)
				if err != nil {
					return err
				}
				st.ByRes["cb:"+op.R+":"+res]++
				tw.Emit(cbOut{tr, i, "cb", op.R, res})
				continue
			}
			var t aTx
			if err := json.Unmarshal(op.T, &t); err != nil {
				return fmt.Errorf("behaviour %d op %d: %v", tr, i, err)
			}
			switch op.Op {
			case "case":
				tx, err := w.concretise(&t, fmt.Sprintf("%d-%d-%d", w.sd, tr, i))
				if err != nil {
					return fmt.Errorf("behaviour %d op %d: concretise: %v", tr, i, err)
				}
				res, why := w.verdict(tx, st)
				st.Cases++
				st.ByForm[formOf(&t)]++
				st.ByRes[res]++
				for _, f := range families(&t) {
					st.Fam[f]++
					st.Fam[f+":"+res]++
				}
				if op.Hon && res == "ok" {
					st.HonestOK++
				}
				sub := "-"
				if res != "ok" {
					st.Why[whyClass(why)]++
					var dirty bool
					sub, dirty = w.submitRejected(tx, st)
					st.Sub[res+"->"+sub]++
					if dirty {
						if err := renew(); err != nil {
							return err
						}
					}
				}
				tw.Emit(caseOut{tr, i, "case", op.T, res, sub})
			case "blk":
				var m absMut
				if err := json.Unmarshal(op.M, &m); err != nil {
					return err
				}
				mh := op.Mh
				if mh == "" {
					mh = "above"
				}
				base, err := w.concretiseAt(&t, fmt.Sprintf("%d-blk-%d-%d", w.sd, tr, i), mh)
				if err != nil {
					return fmt.Errorf("behaviour %d op %d: concretise: %v", tr, i, err)
				}
				if base, err = wire(base); err != nil {
					return err
				}
				entry, applied := base, true
				if m.Var != "none" {
					if entry, applied, err = mutate(base, &m); err != nil {
						return err
					}
				}
				o := blkOut{Tr: tr, I: i, Op: "blk", T: op.T, M: op.M, Pool: op.Pool, Via: op.Via, Mh: mh, Applied: applied, Pooled: "-", Res: "-", Fl: []string{}}
				if applied {
					var pooled *pb.Transaction
					if op.Pool == "base" {
						pooled = base
					}
					kmark := ""
					if t.Ctr == "mread" {
						kmark = mh
					}
					f, err := w.blockOp(entry, pooled, op.Via, kmark, st)
					if err != nil {
						return fmt.Errorf("behaviour %d op %d: block: %v", tr, i, err)
					}
					o.Same, o.SameC, o.Pooled, o.Res = f.Same, f.SameC, f.Pooled, f.Res
					for _, c := range f.Flags {
						o.Fl = append(o.Fl, string(c))
					}
					kind := "case"
					if m.Var != "none" {
						kind = "mut"
					}
					st.Blk++
					key := fmt.Sprintf("%s/%s/%s", kind, op.Pool, op.Via)
					st.BlkBy[key]++
					st.BlkBy[key+":"+f.Res+":"+f.Flags]++
					if f.Pooled == "in" {
						st.BlkBy["pooled_in"]++
						if f.Same && m.Var != "none" {
							st.BlkBy["changed_entry_under_pooled_id/"+op.Via]++
							st.BlkBy["changed_entry_under_pooled_id/"+op.Via+":"+f.Res]++
						}
					} else if f.Pooled == "refused" {
						st.BlkBy["pooled_refused"]++
					}
					if f.Res == "rej" {
						st.Why["blk: "+f.Stage+": "+whyClass(f.Why)]++
					}
					if refsMarked(&t) {
						// the family "the entry refers to a marked transaction": facts for the vacuity thresholds
						mk := fmt.Sprintf("mk/%s/%s/%s/%s", mh, op.Via, op.Pool, f.Ordinary)
						st.BlkBy[mk]++
						st.BlkBy[mk+":"+f.Res+":"+f.Flags]++
						st.BlkBy[fmt.Sprintf("mkwhy/%s/%s", f.Ordinary, kindOfFailure(&t, &m))]++
						ref := "token"
						if t.Ctr == "mread" {
							ref = "key"
						}
						st.BlkBy[fmt.Sprintf("mkref/%s/%s/%s/%s:%s", ref, mh, op.Via, f.Ordinary, f.Res)]++
					}
				} else {
					st.MutsNA++
				}
				tw.Emit(o)
			case "mut":
				var m absMut
				if err := json.Unmarshal(op.M, &m); err != nil {
					return err
				}
				base, ok := bases[string(op.T)]
				if !ok {
					base, err = w.concretise(&t, fmt.Sprintf("%d-base-%d", w.sd, len(bases)))
					if err != nil {
						return fmt.Errorf("behaviour %d op %d: concretise base: %v", tr, i, err)
					}
					if base, err = wire(base); err != nil {
						return err
					}
					bases[string(op.T)] = base
					res, why := w.verdict(base, st)
					if res == "ok" {
						st.HonestOK++
					} else {
						st.Why["base: "+whyClass(why)]++
					}
					tw.Emit(caseOut{tr, i, "case", op.T, res, "-"})
				}
				mtx, applied, err := mutate(base, &m)
				if err != nil {
					return err
				}
				res, sub := "-", "-"
				if applied {
					var why string
					res, why = w.verdict(mtx, st)
					st.Muts++
					st.MutRes[res]++
					st.MutByVar[m.Var+"/"+m.St]++
					st.Touched[m.F]++
					if res != "ok" {
						st.Why["mut: "+whyClass(why)]++
						var dirty bool
						sub, dirty = w.submitRejected(mtx, st)
						st.Sub["mut:"+res+"->"+sub]++
						if dirty {
							tw.Emit(mutOut{tr, i, "mut", op.T, op.M, res, sub, applied})
							if err := renew(); err != nil {
								return err
							}
							continue
						}
					}
				} else {
					st.MutsNA++
				}
				tw.Emit(mutOut{tr, i, "mut", op.T, op.M, res, sub, applied})
			default:
				return fmt.Errorf("unknown op %q", op.Op)
			}
		}
	}
	st.Schema = len(schema())
	st.print()
	return nil
}

// loadOps reads every *.json file of dir (each a JSON array of ops) in numeric file order.
func loadOps(dir string) ([][]opLine, error) {
	raw, err := fx.LoadBehaviours(dir)
	if err != nil {
		return nil, err
	}
	out := [][]opLine{}
	for _, beh := range raw {
		ops := []opLine{}
		for _, e := range beh {
			o := opLine{Op: e.Str("op")}
			if o.Op == "cb" {
				o.R = e.Str("r")
				ops = append(ops, o)
				continue
			}
			if o.Op != "case" && o.Op != "mut" && o.Op != "blk" {
				continue
			}
			o.Pool, o.Via = e.Str("pool"), e.Str("via")
			if _, ok := e["mh"]; ok {
				o.Mh = e.Str("mh")
			}
			o.T, _ = json.Marshal(e["t"])
			if m, ok := e["m"]; ok {
				o.M, _ = json.Marshal(m)
			}
			o.Hon, _ = e["hon"].(bool)
			ops = append(ops, o)
		}
		out = append(out, ops)
	}
	return out, nil
}
