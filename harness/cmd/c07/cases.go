package main

import (
	"encoding/json"
	"flag"
	"fmt"

	"github.com/golang/protobuf/proto"
	"github.com/xuperchain/xupercore/bcs/ledger/xledger/state/utxo/txhash"
	txn "github.com/xuperchain/xupercore/bcs/ledger/xledger/tx"
	pb "github.com/xuperchain/xupercore/bcs/ledger/xledger/xldgpb"
	"github.com/xuperchain/xupercore/protos"

	"verif/harness/fx"
)

type absMut struct {
	F   string `json:"f"`
	Loc string `json:"loc"`
	I   int    `json:"i"`
	Var string `json:"var"`
	St  string `json:"st"`
}

type opLine struct {
	Op  string          `json:"op"`
	T   json.RawMessage `json:"t"`
	M   json.RawMessage `json:"m"`
	R   string // rider of a "cb" op
	Hon bool
}

type caseOut struct {
	Tr  int             `json:"tr"`
	I   int             `json:"i"`
	Op  string          `json:"op"`
	T   json.RawMessage `json:"t"`
	Res string          `json:"res"`
}

type mutOut struct {
	Tr      int             `json:"tr"`
	I       int             `json:"i"`
	Op      string          `json:"op"`
	T       json.RawMessage `json:"t"`
	M       json.RawMessage `json:"m"`
	Res     string          `json:"res"`
	Applied bool            `json:"applied"`
}

type cbOut struct {
	Tr  int    `json:"tr"`
	I   int    `json:"i"`
	Op  string `json:"op"`
	R   string `json:"r"`
	Res string `json:"res"`
}

// coinbaseRider: on a fresh fixture chain a peer block [award transaction + rider] is confirmed and played.
// rider "write": the award transaction also carries a read / write set that rewrites the rule of account A
// (k2 and k3) to "kx alone". "ok": the block was played (and, with a rider, the rule changed).
func coinbaseRider(name, rider string) (string, error) {
	w, err := newWorld(name)
	if err != nil {
		return "", err
	}
	defer w.node.Drop()
	l, s := w.node.Ledger, w.node.State
	const acctBucket = "XCAccount"
	a := w.name("A")
	w.seq++
	aw, err := txn.GenerateAwardTx(w.miner.Address, "0", []byte("award-rider"))
	if err != nil {
		return "", err
	}
	want := thresholdACL(map[string]float64{w.key["kx"].Address: 1}, 1)
	if rider == "write" {
		cur, err := s.CreateXMReader().Get(acctBucket, []byte(a))
		if err != nil {
			return "", err
		}
		aw.TxInputsExt = []*protos.TxInputExt{{Bucket: acctBucket, Key: []byte(a), RefTxid: cur.RefTxid, RefOffset: cur.RefOffset}}
		aw.TxOutputsExt = []*protos.TxOutputExt{{Bucket: acctBucket, Key: []byte(a), Value: want}}
		if aw.Txid, err = txhash.MakeTransactionID(aw); err != nil {
			return "", err
		}
	}
	blk, err := l.FormatMinerBlock([]*pb.Transaction{aw}, []byte(w.miner.Address), w.miner.Priv, w.seq, 0, 0, s.GetLatestBlockid(), 0, s.GetTotal(), nil, nil, l.GetMeta().TrunkHeight+1)
	if err != nil {
		return "", err
	}
	if cs := l.ConfirmBlock(blk, false); !cs.Succ {
		return "rej", nil
	}
	if err := s.PlayAndRepost(blk.Blockid, false, false); err != nil {
		return "rej", nil
	}
	if rider == "write" {
		after, err := w.node.Acl.GetAccountACL(a)
		if err != nil || after.GetAksWeight()[w.key["kx"].Address] != 1 {
			return "rej", nil
		}
	}
	return "ok", nil
}

func whyClass(why string) string {
	if len(why) > 48 {
		why = why[:48]
	}
	return why
}

func formOf(t *aTx) string {
	switch {
	case t.Xs.On:
		return fmt.Sprintf("xsign%d", len(t.Auth))
	case len(t.Init) == 1:
		if len(t.Auth) == 0 {
			return "account-initiator"
		}
		return "account-initiator+signers"
	case len(t.Auth) == 0:
		return "address"
	case len(t.Auth[0]) == 2:
		return "multi-account-uris"
	}
	return "multi-address"
}

// casesCmd: every op of every behaviour file of -in on the real code.
//
//	case: concretise the abstract transaction, State.VerifyTx
//	mut : concretise the (accepted) base, apply the field mutation to the real protobuf, optionally recompute
//	      the id, State.VerifyTx
func casesCmd(args []string) error {
	fs := flag.NewFlagSet("cases", flag.ExitOnError)
	in := fs.String("in", "", "directory with behaviour files (lists of case / mut ops)")
	out := fs.String("out", "", "ndjson trace to write")
	fs.Parse(args)
	behs, err := loadOps(*in)
	if err != nil {
		return err
	}
	w, err := newWorld(fmt.Sprintf("c07cases%d", seed()))
	if err != nil {
		return err
	}
	tw, err := fx.NewTraceWriter(*out)
	if err != nil {
		return err
	}
	defer tw.Close()
	st := newStats()
	bases := map[string]*pb.Transaction{}
	n := 0
	for tr, beh := range behs {
		for i, op := range beh {
			n++
			if op.Op == "cb" {
				res, err := coinbaseRider(fmt.Sprintf("c07cb%d-%d", seed(), n), op.R)
				if err != nil {
					return err
				}
				st.ByRes["cb:"+op.R+":"+res]++
				tw.Emit(cbOut{tr, i, "cb", op.R, res})
				continue
			}
			var t aTx
			if err := json.Unmarshal(op.T, &t); err != nil {
				return fmt.Errorf("behaviour %d op %d: %v", tr, i, err)
			}
			switch op.Op {
			case "case":
				tx, err := w.concretise(&t, fmt.Sprintf("%d-%d-%d", w.sd, tr, i))
				if err != nil {
					return fmt.Errorf("behaviour %d op %d: concretise: %v", tr, i, err)
				}
				res, why := w.verdict(tx, st)
				st.Cases++
				st.ByForm[formOf(&t)]++
				st.ByRes[res]++
				if op.Hon && res == "ok" {
					st.HonestOK++
				}
				if res != "ok" {
					st.Why[whyClass(why)]++
				}
				tw.Emit(caseOut{tr, i, "case", op.T, res})
			case "mut":
				var m absMut
				if err := json.Unmarshal(op.M, &m); err != nil {
					return err
				}
				base, ok := bases[string(op.T)]
				if !ok {
					base, err = w.concretise(&t, fmt.Sprintf("%d-base-%d", w.sd, len(bases)))
					if err != nil {
						return fmt.Errorf("behaviour %d op %d: concretise base: %v", tr, i, err)
					}
					if base, err = wire(base); err != nil {
						return err
					}
					bases[string(op.T)] = base
					res, why := w.verdict(base, st)
					if res == "ok" {
						st.HonestOK++
					} else {
						st.Why["base: "+whyClass(why)]++
					}
					tw.Emit(caseOut{tr, i, "case", op.T, res})
				}
				mtx := proto.Clone(base).(*pb.Transaction)
				applied := false
				msg, found, err := resolve(mtx, m.Loc, m.I)
				if err != nil {
					return err
				}
				if found {
					if applied, err = applyVar(msg, m.F[len(msg.Type().Name())+1:], m.Var); err != nil {
						return fmt.Errorf("mutation %+v: %v", m, err)
					}
				}
				if applied && m.St == "fixid" {
					if mtx.Txid, err = txhash.MakeTransactionID(mtx); err != nil {
						return err
					}
				}
				if applied {
					// what arrives at a node went through the wire: compare after normalisation
					wm, err := wire(mtx)
					if err != nil {
						return err
					}
					applied = !proto.Equal(wm, base)
				}
				res := "-"
				if applied {
					var why string
					res, why = w.verdict(mtx, st)
					st.Muts++
					st.MutRes[res]++
					st.MutByVar[m.Var+"/"+m.St]++
					st.Touched[m.F]++
					if res != "ok" {
						st.Why["mut: "+whyClass(why)]++
					}
				} else {
					st.MutsNA++
				}
				tw.Emit(mutOut{tr, i, "mut", op.T, op.M, res, applied})
			default:
				return fmt.Errorf("unknown op %q", op.Op)
			}
		}
	}
	st.Schema = len(schema())
	st.print()
	return nil
}

// loadOps reads every *.json file of dir (each a JSON array of ops) in numeric file order.
func loadOps(dir string) ([][]opLine, error) {
	raw, err := fx.LoadBehaviours(dir)
	if err != nil {
		return nil, err
	}
	out := [][]opLine{}
	for _, beh := range raw {
		ops := []opLine{}
		for _, e := range beh {
			o := opLine{Op: e.Str("op")}
			if o.Op == "cb" {
				o.R = e.Str("r")
				ops = append(ops, o)
				continue
			}
			if o.Op != "case" && o.Op != "mut" {
				continue
			}
			o.T, _ = json.Marshal(e["t"])
			if m, ok := e["m"]; ok {
				o.M, _ = json.Marshal(m)
			}
			o.Hon, _ = e["hon"].(bool)
			ops = append(ops, o)
		}
		out = append(out, ops)
	}
	return out, nil
}
