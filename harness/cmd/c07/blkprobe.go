package main

import (
	"encoding/json"
	"fmt"
	"time"

	"github.com/golang/protobuf/proto"
	pb "github.com/xuperchain/xupercore/bcs/ledger/xledger/xldgpb"
)

func blkProbeCmd(args []string) error {
	t0 := time.Now()
	w, err := newWorld(fmt.Sprintf("c07blkprobe%d", seed()))
	if err != nil {
		return err
	}
	fmt.Println("newWorld", time.Since(t0))
	st := newStats()
	t := &aTx{Ver: 3, Init: "k1", Isigs: []aSig{valid("k1")}, Id: "ok", Ins: []aIn{{Own: "k1"}}, Ctr: "none"}
	h, err := w.concretise(t, "blkprobe-h")
	if err != nil {
		return err
	}
	forged := proto.Clone(h).(*pb.Transaction)
	forged.TxOutputs[0].ToAddr = []byte(w.name("kx"))
	out := map[string]interface{}{}
	for _, via := range []string{"walk", "play"} {
		for _, sc := range []struct {
			name   string
			e, p   *pb.Transaction
		}{{"honest_fresh", h, nil}, {"honest_pooled", h, h}, {"forged_fresh", forged, nil}, {"forged_pooled", forged, h}} {
			t1 := time.Now()
			f, err := w.blockOp(sc.e, sc.p, via, st)
			if err != nil {
				return err
			}
			out[via+"_"+sc.name] = f
			fmt.Println(via, sc.name, time.Since(t1))
		}
	}
	t2 := time.Now()
	for i := 0; i < 50; i++ {
		if _, err := w.blockOp(h, h, "walk", st); err != nil {
			return err
		}
	}
	fmt.Println("50 walk ops", time.Since(t2))
	b, _ := json.MarshalIndent(out, "", " ")
	fmt.Println(string(b))
	return nil
}
