package main

import (
	"bytes"
	"crypto/sha256"
	"encoding/base64"
	"encoding/binary"
	"encoding/json"
	"flag"
	"fmt"
	"io/ioutil"
	"path/filepath"
	"reflect"
	"sort"
	"strings"

	"github.com/xuperchain/xupercore/bcs/ledger/xledger/state/utxo/txhash"
	pb "github.com/xuperchain/xupercore/bcs/ledger/xledger/xldgpb"
	"github.com/xuperchain/xupercore/protos"

	"verif/harness/fx"
)

// ---------------------------------------------------------------- grammar as written by Gen_TxAuth (b_3.json)

type gSlot struct {
	F   string `json:"f"`
	Ty  string `json:"ty"`
	Opt bool   `json:"opt"`
}

type gSec struct {
	Name    string    `json:"name"`
	List    bool      `json:"list"`
	F       string    `json:"f"`
	Signs   bool      `json:"signs"`
	Slots   []gSlot   `json:"slots"`
	Structs [][][]int `json:"structs"`
}

type gram struct {
	V      int                `json:"v"`
	Secs   []gSec             `json:"secs"`
	Wholes []map[string][][]int `json:"wholes"`
}

func flex(ty string) bool { return ty == "l" || ty == "s" || ty == "j" }

// valuer hands out the value of the k-th non-empty flexible token: three raw bytes whose base64 text is the
// JSON string both a bytes field (raw) and a string field (the text itself) put into a version-1/2 stream.
type valuer struct{ pos int }

func (v *valuer) next() (raw []byte, text string) {
	raw = []byte{byte('A' + v.pos%26), byte('a' + (v.pos/26)%26), 'z'}
	v.pos++
	return raw, base64.StdEncoding.EncodeToString(raw)
}

// holder returns the message that holds the slot's field: the transaction, or its singular sub-message of the
// slot's message type (allocated when alloc is set).
func holder(tx *pb.Transaction, msgName string, alloc bool) (reflect.Value, bool) {
	txv := reflect.ValueOf(tx).Elem()
	if msgName == "Transaction" {
		return txv, true
	}
	schema()
	for _, fi := range schemaOf["Transaction"] {
		if fi.Kind == "msg" && fi.Sub == msgName {
			fv := txv.Field(fi.index)
			if fv.IsNil() {
				if !alloc {
					return reflect.Value{}, false
				}
				fv.Set(reflect.New(fv.Type().Elem()))
			}
			return fv.Elem(), true
		}
	}
	panic("no singular field of type " + msgName)
}

func splitF(f string) (string, string) {
	i := strings.Index(f, ".")
	return f[:i], f[i+1:]
}

// setFlex sets a string / bytes / repeated / message field to "a value carrying val" (present) or leaves it empty.
func setFlex(fv reflect.Value, raw []byte, text string) {
	switch {
	case fv.Kind() == reflect.String:
		fv.SetString(text)
	case fv.Kind() == reflect.Slice && fv.Type().Elem().Kind() == reflect.Uint8:
		fv.SetBytes(raw)
	case fv.Kind() == reflect.Slice: // repeated: one element carrying the value
		e := freshElem(fv.Type().Elem())
		switch {
		case e.Kind() == reflect.String:
			e = reflect.ValueOf(text)
		case e.Kind() == reflect.Slice:
			e = reflect.ValueOf(raw)
		default:
			setFirst(e.Elem(), raw, text)
		}
		fv.Set(reflect.Append(reflect.Zero(fv.Type()), e))
	case fv.Kind() == reflect.Ptr:
		n := reflect.New(fv.Type().Elem())
		setFirst(n.Elem(), raw, text)
		fv.Set(n)
	default:
		panic("setFlex: " + fv.Type().String())
	}
}

func setFirst(m reflect.Value, raw []byte, text string) {
	for i := 0; i < m.NumField(); i++ {
		if _, ok := m.Type().Field(i).Tag.Lookup("protobuf"); !ok {
			continue
		}
		f := m.Field(i)
		if f.Kind() == reflect.String {
			f.SetString(text)
			return
		}
		if f.Kind() == reflect.Slice && f.Type().Elem().Kind() == reflect.Uint8 {
			f.SetBytes(raw)
			return
		}
	}
}

// populate writes one section of a structure into tx. fixed: values by slot index instead of token position
// (shift pairs).
func populate(tx *pb.Transaction, sec *gSec, items [][]int, vals *valuer, fixed map[[2]int]string) error {
	for it, pat := range items {
		var item reflect.Value // the message (or scalar element) of this item
		if sec.List {
			cm, cf := splitF(sec.F)
			h, _ := holder(tx, cm, true)
			cv, _, err := fieldByProto(h, cf)
			if err != nil {
				return err
			}
			et := cv.Type().Elem()
			var e reflect.Value
			if et.Kind() == reflect.Ptr {
				e = reflect.New(et.Elem())
			} else {
				e = reflect.New(et).Elem()
			}
			cv.Set(reflect.Append(cv, e))
			item = cv.Index(cv.Len() - 1)
		}
		for si, sl := range sec.Slots {
			present := pat[si] == 1
			var fv reflect.Value
			if sec.List && sl.F == sec.F { // list of scalars: the element is the slot
				fv = item
			} else {
				mn, fn := splitF(sl.F)
				var h reflect.Value
				if sec.List {
					h = item.Elem()
				} else {
					var ok bool
					if h, ok = holder(tx, mn, present && flex(sl.Ty)); !ok {
						continue
					}
				}
				var err error
				if fv, _, err = fieldByProto(h, fn); err != nil {
					return err
				}
			}
			switch {
			case flex(sl.Ty):
				if !present {
					continue
				}
				if s, ok := fixed[[2]int{it, si}]; ok {
					setFlex(fv, []byte(s), s)
				} else {
					raw, text := vals.next()
					setFlex(fv, raw, text)
				}
			case sl.Ty == "m":
				fv.Set(reflect.ValueOf(map[string][]byte{"k": []byte("v"), "a": nil}))
			case sl.Ty == "r":
				fv.Set(reflect.ValueOf([]*protos.ResourceLimit{{Type: protos.ResourceType_MEMORY, Limit: 9}}))
			}
		}
	}
	return nil
}

func (g *gram) build(whole map[string][][]int) (*pb.Transaction, error) {
	tx := &pb.Transaction{Version: int32(g.V)}
	vals := &valuer{}
	for i := range g.Secs {
		if err := populate(tx, &g.Secs[i], whole[g.Secs[i].Name], vals, nil); err != nil {
			return nil, err
		}
	}
	tx.Version = int32(g.V)
	return tx, nil
}

// tokens of the real version-1/2 pre-image
func tokenise(stream []byte) ([]string, error) {
	dec := json.NewDecoder(bytes.NewReader(stream))
	out := []string{}
	for dec.More() {
		var raw json.RawMessage
		if err := dec.Decode(&raw); err != nil {
			return nil, err
		}
		switch c := raw[0]; {
		case c == '"':
			if string(raw) == `""` {
				out = append(out, "s0")
			} else {
				out = append(out, "s+")
			}
		case c == 't' || c == 'f':
			out = append(out, "b")
		case c == 'n':
			out = append(out, "j0")
		case c == '[' || c == '{':
			out = append(out, "j+")
		default:
			out = append(out, "n")
		}
	}
	return out, nil
}

// refEncode3 writes the version-3 pre-image the GRAMMAR describes (counts, 8-byte integers, length-prefixed
// bytes, sorted maps) for the real field values of tx; its double SHA-256 must be the real digest / id.
func (g *gram) refEncode3(tx *pb.Transaction, signs bool) ([]byte, error) {
	var buf bytes.Buffer
	i64 := func(x int64) {
		var b [8]byte
		binary.BigEndian.PutUint64(b[:], uint64(x))
		buf.Write(b[:])
	}
	lp := func(b []byte) { i64(int64(len(b))); buf.Write(b) }
	scalar := func(fv reflect.Value, ty string) error {
		switch ty {
		case "l":
			if fv.Kind() == reflect.String {
				lp([]byte(fv.String()))
			} else {
				lp(fv.Bytes())
			}
		case "i":
			switch fv.Kind() {
			case reflect.Bool:
				if fv.Bool() {
					i64(1)
				} else {
					i64(0)
				}
			default:
				i64(fv.Int())
			}
		case "m":
			keys := []string{}
			for _, k := range fv.MapKeys() {
				keys = append(keys, k.String())
			}
			sort.Strings(keys)
			i64(int64(len(keys)))
			for _, k := range keys {
				lp([]byte(k))
				lp(fv.MapIndex(reflect.ValueOf(k)).Bytes())
			}
		case "r":
			i64(int64(fv.Len()))
			for j := 0; j < fv.Len(); j++ {
				rl := fv.Index(j).Interface().(*protos.ResourceLimit)
				i64(int64(rl.Type))
				i64(rl.Limit)
			}
		default:
			return fmt.Errorf("token type %s in a version-3 grammar", ty)
		}
		return nil
	}
	for si := range g.Secs {
		sec := &g.Secs[si]
		if sec.Signs && !signs {
			continue
		}
		if sec.List {
			cm, cf := splitF(sec.F)
			n := 0
			var cv reflect.Value
			if h, ok := holder(tx, cm, false); ok {
				cv, _, _ = fieldByProto(h, cf)
				n = cv.Len()
			}
			i64(int64(n))
			for it := 0; it < n; it++ {
				for _, sl := range sec.Slots {
					fv := cv.Index(it)
					if sl.F != sec.F {
						_, fn := splitF(sl.F)
						var err error
						if fv, _, err = fieldByProto(fv.Elem(), fn); err != nil {
							return nil, err
						}
					}
					if err := scalar(fv, sl.Ty); err != nil {
						return nil, err
					}
				}
			}
			continue
		}
		for _, sl := range sec.Slots {
			mn, fn := splitF(sl.F)
			h, ok := holder(tx, mn, false)
			if !ok { // absent singular message: its fields read as empty
				if sl.Ty == "l" {
					lp(nil)
				} else {
					i64(0)
				}
				continue
			}
			fv, _, err := fieldByProto(h, fn)
			if err != nil {
				return nil, err
			}
			if err := scalar(fv, sl.Ty); err != nil {
				return nil, err
			}
		}
	}
	return buf.Bytes(), nil
}

func dsha(b []byte) []byte {
	h := sha256.Sum256(b)
	h = sha256.Sum256(h[:])
	return h[:]
}

type tokOut struct {
	Op    string             `json:"op"`
	V     int                `json:"v"`
	Signs bool               `json:"signs"`
	St    map[string][][]int `json:"st"`
	Toks  []string           `json:"toks"`
}

type refOut struct {
	Op    string             `json:"op"`
	V     int                `json:"v"`
	Signs bool               `json:"signs"`
	St    map[string][][]int `json:"st"`
	Eq    bool               `json:"eq"`
}

type pairOut struct {
	Op   string  `json:"op"`
	V    int     `json:"v"`
	Sec  string  `json:"sec"`
	A    [][]int `json:"a"`
	B    [][]int `json:"b"`
	Deq  bool    `json:"deq"`
	Ideq bool    `json:"ideq"`
}

type shiftOut struct {
	Op   string `json:"op"`
	V    int    `json:"v"`
	Sec  string `json:"sec"`
	J    int    `json:"j"`
	Deq  bool   `json:"deq"`
	Ideq bool   `json:"ideq"`
}

func hashes(tx *pb.Transaction) ([]byte, []byte, error) {
	wtx, err := wire(tx)
	if err != nil {
		return nil, nil, err
	}
	d, err := txhash.MakeTxDigestHash(wtx)
	if err != nil {
		return nil, nil, err
	}
	id, err := txhash.MakeTransactionID(wtx)
	return d, id, err
}

func normItems(x [][]int) [][]int {
	if x == nil {
		return [][]int{}
	}
	return x
}

// gramCmd: binding of the encoder grammars to the code and digest pairs.
//
//	tok   (v1/v2) the token types of the real pre-image of a whole-transaction structure
//	ref   (v3)    does the pre-image the grammar describes hash to the real digest / id
//	pair          two structures of one section with position-assigned values: are the real digests / ids equal
//	shift         a byte moved across the boundary of two adjacent variable-length fields: are they equal
func gramCmd(args []string) error {
	fs := flag.NewFlagSet("gram", flag.ExitOnError)
	in := fs.String("in", "", "directory with the grammar file written by Gen_TxAuth")
	out := fs.String("out", "", "ndjson trace to write")
	fs.Parse(args)
	files, _ := filepath.Glob(filepath.Join(*in, "*.json"))
	if len(files) == 0 {
		return fmt.Errorf("no grammar file in %s", *in)
	}
	b, err := ioutil.ReadFile(files[0])
	if err != nil {
		return err
	}
	var grams []gram
	if err := json.Unmarshal(b, &grams); err != nil {
		return err
	}
	tw, err := fx.NewTraceWriter(*out)
	if err != nil {
		return err
	}
	defer tw.Close()
	st := newStats()
	for gi := range grams {
		g := &grams[gi]
		for _, whole := range g.Wholes {
			for k := range whole {
				whole[k] = normItems(whole[k])
			}
			tx, err := g.build(whole)
			if err != nil {
				return err
			}
			wtx, err := wire(tx)
			if err != nil {
				return err
			}
			for _, signs := range []bool{false, true} {
				if g.V < 3 {
					stream, err := txhash.EncodeTxDataForVerif(wtx, signs)
					if err != nil {
						return err
					}
					toks, err := tokenise(stream)
					if err != nil {
						return err
					}
					tw.Emit(tokOut{"tok", g.V, signs, whole, toks})
					st.GramToks++
				} else {
					ref, err := g.refEncode3(wtx, signs)
					if err != nil {
						return err
					}
					var real []byte
					if signs {
						real, err = txhash.MakeTransactionID(wtx)
					} else {
						real, err = txhash.MakeTxDigestHash(wtx)
					}
					if err != nil {
						return err
					}
					tw.Emit(refOut{"ref", g.V, signs, whole, bytes.Equal(dsha(ref), real)})
					st.GramRefs++
				}
			}
		}
		for si := range g.Secs {
			sec := &g.Secs[si]
			type hh struct{ d, id []byte }
			hs := make([]hh, len(sec.Structs))
			for k, items := range sec.Structs {
				tx := &pb.Transaction{Version: int32(g.V)}
				if err := populate(tx, sec, items, &valuer{}, nil); err != nil {
					return err
				}
				tx.Version = int32(g.V)
				d, id, err := hashes(tx)
				if err != nil {
					return err
				}
				hs[k] = hh{d, id}
			}
			for a := 0; a < len(sec.Structs); a++ {
				for c := a + 1; c < len(sec.Structs); c++ {
					deq, ideq := bytes.Equal(hs[a].d, hs[c].d), bytes.Equal(hs[a].id, hs[c].id)
					tw.Emit(pairOut{"pair", g.V, sec.Name, normItems(sec.Structs[a]), normItems(sec.Structs[c]), deq, ideq})
					st.GramPairs++
					if ideq {
						st.PairsEq++
					}
				}
			}
			// shift pairs: adjacent variable-length slots inside an item, and the last one of an item with the
			// first one of the next item
			flexIdx := []int{}
			for i, sl := range sec.Slots {
				if sl.Ty == "l" || sl.Ty == "s" {
					flexIdx = append(flexIdx, i)
				}
			}
			full := make([]int, len(sec.Slots))
			for i := range full {
				full[i] = 1
			}
			mk := func(fixed map[[2]int]string, items int) ([]byte, []byte, error) {
				tx := &pb.Transaction{Version: int32(g.V)}
				its := [][]int{}
				for i := 0; i < items; i++ {
					its = append(its, full)
				}
				if err := populate(tx, sec, its, &valuer{}, fixed); err != nil {
					return nil, nil, err
				}
				tx.Version = int32(g.V)
				return hashes(tx)
			}
			for k := 0; k < len(flexIdx); k++ {
				x := [2]int{0, flexIdx[k]}
				var y [2]int
				items := 1
				if k+1 < len(flexIdx) {
					y = [2]int{0, flexIdx[k+1]}
				} else if sec.List {
					y = [2]int{1, flexIdx[0]}
					items = 2
				} else {
					continue
				}
				d1, i1, err := mk(map[[2]int]string{x: "QUJD", y: "RA=="}, items)
				if err != nil {
					return err
				}
				d2, i2, err := mk(map[[2]int]string{x: "QUJ", y: "DRA=="}, items)
				if err != nil {
					return err
				}
				tw.Emit(shiftOut{"shift", g.V, sec.Name, flexIdx[k] + 1, bytes.Equal(d1, d2), bytes.Equal(i1, i2)})
				st.GramPairs++
			}
		}
	}
	st.print()
	return nil
}
