package main

import (
	"bytes"
	"encoding/hex"
	"fmt"
	"math/big"
	"sort"
	"sync"
	"time"

	"github.com/golang/protobuf/proto"
	"github.com/xuperchain/xupercore/bcs/ledger/xledger/state"
	txn "github.com/xuperchain/xupercore/bcs/ledger/xledger/tx"
	pb "github.com/xuperchain/xupercore/bcs/ledger/xledger/xldgpb"
	xctx "github.com/xuperchain/xupercore/kernel/common/xcontext"
	"github.com/xuperchain/xupercore/kernel/engines/xuperos"
	"github.com/xuperchain/xupercore/lib/timer"

	"verif/harness/fx"
)

// ---------------------------------------------------------------- block-borne transactions and the engine entry
//
// A block op: the transaction under test (the "entry") arrives inside a peer block [award, entry] on a node
// opened on a copy of the fixture chain
//
//	pool "none": the node has never seen the entry,
//	pool "base": the node's unconfirmed pool holds an accepted transaction (admitted through the engine's own
//	             Chain.SubmitTx) - the entry itself, or the base the entry was derived from by a field mutation:
//	             the entry then claims the pooled transaction's id (id not recomputed) or spends the same outputs
//	             under another id;
//	via "walk":  Ledger.ConfirmBlock, then State.Walk to the new tip (the engine's sync path: Miner.syncBlock),
//	via "play":  Ledger.ConfirmBlock, then State.PlayAndRepost.
//	mh:          where the entry spends an output of a transaction the regulator marked (Ledger.UpdateBlockChainData),
//	             the block's height is "above" / "at" / "below" the effective height of that mark (three marked
//	             transactions on the fixture chain; world.concretiseAt names the one wanted): State.verifyMarked /
//	             checkRelyOnMarkedTxid, the fall-back of PlayAndRepost's verifyDAGTxs for an entry that FAILED
//	             ImmediateVerifyTx, lets a reference pass iff the block is not higher than the effective height.
//
// Reported are facts: whether the state machine arrived at the block, and WHICH content is in effect
// afterwards (balances of every address and values of every key either transaction touches):
// "e" the entry's, "p" the pooled transaction's, "n" nothing (the fixture's values) - a set, since the three
// may coincide.

type effects struct {
	bal map[string]*big.Int
	kv  map[string]string
}

func newEffects() *effects { return &effects{bal: map[string]*big.Int{}, kv: map[string]string{}} }

func (e *effects) add(addr []byte, amt []byte, sign int) {
	a := string(addr)
	if e.bal[a] == nil {
		e.bal[a] = new(big.Int)
	}
	v := new(big.Int).SetBytes(amt)
	if sign < 0 {
		v.Neg(v)
	}
	e.bal[a].Add(e.bal[a], v)
}

// effectsOf: what applying tx (and nothing else) changes: balance deltas and the values of the keys written.
func effectsOf(tx *pb.Transaction) *effects {
	e := newEffects()
	if tx == nil {
		return e
	}
	for _, in := range tx.TxInputs {
		e.add(in.FromAddr, in.Amount, -1)
	}
	for _, o := range tx.TxOutputs {
		e.add(o.ToAddr, o.Amount, 1)
	}
	for _, o := range tx.TxOutputsExt {
		if o.Bucket == transientBucket {
			continue
		}
		e.kv[o.Bucket+"\x00"+string(o.Key)] = string(o.Value)
	}
	return e
}

type snapshot struct {
	bal map[string]*big.Int
	kv  map[string]string
}

func takeSnapshot(n *fx.Node, addrs, keys []string) *snapshot {
	s := &snapshot{bal: map[string]*big.Int{}, kv: map[string]string{}}
	for _, a := range addrs {
		b, err := n.State.GetBalance(a)
		if err != nil || b == nil {
			b = big.NewInt(0)
		}
		s.bal[a] = new(big.Int).Set(b)
	}
	rd := n.State.CreateXMReader()
	for _, k := range keys {
		i := bytes.IndexByte([]byte(k), 0)
		vd, err := rd.Get(k[:i], []byte(k[i+1:]))
		if err == nil && vd != nil && vd.PureData != nil {
			s.kv[k] = string(vd.PureData.Value)
		} else {
			s.kv[k] = ""
		}
	}
	return s
}

// matches: after = before + eff on every address / key of the union.
func matches(before, after *snapshot, eff *effects) bool {
	for a, b := range before.bal {
		want := new(big.Int).Set(b)
		if d := eff.bal[a]; d != nil {
			want.Add(want, d)
		}
		if want.Cmp(after.bal[a]) != 0 {
			return false
		}
	}
	for k, v := range before.kv {
		want := v
		if nv, ok := eff.kv[k]; ok {
			want = nv
		}
		if want != after.kv[k] {
			return false
		}
	}
	return true
}

func unionKeys(es ...*effects) (addrs, keys []string) {
	sa, sk := map[string]bool{}, map[string]bool{}
	for _, e := range es {
		for a := range e.bal {
			sa[a] = true
		}
		for k := range e.kv {
			sk[k] = true
		}
	}
	for a := range sa {
		addrs = append(addrs, a)
	}
	for k := range sk {
		keys = append(keys, k)
	}
	sort.Strings(addrs)
	sort.Strings(keys)
	return
}

// recoverGate lets the driver wait for the goroutine State.Walk starts to re-admit rolled back pool
// transactions (sites "walk_recover_start" / "recover_done" of the state machine's verification hook).
var recoverGate struct {
	sync.Mutex
	started, done int
}

func init() {
	state.VerifHook = func(site string) {
		switch site {
		case "walk_recover_start":
			recoverGate.Lock()
			recoverGate.started++
			recoverGate.Unlock()
		case "recover_done":
			recoverGate.Lock()
			recoverGate.done++
			recoverGate.Unlock()
		}
	}
}

func waitRecover() bool {
	for i := 0; i < 20000; i++ {
		recoverGate.Lock()
		ok := recoverGate.done >= recoverGate.started
		recoverGate.Unlock()
		if ok {
			return true
		}
		time.Sleep(100 * time.Microsecond)
	}
	return false
}

// submitClass: the engine's entry Chain.SubmitTx (a fresh Chain wrapper each time: its txid cache would
// otherwise answer for a transaction that claims an id seen before). The engine decides on the error alone.
func submitClass(n *fx.Node, tx *pb.Transaction, st *stats) (res string, why string) {
	defer func() {
		if r := recover(); r != nil {
			st.Panics++
			res, why = "rej", fmt.Sprint("panic: ", r)
		}
	}()
	wtx, err := wire(tx)
	if err != nil {
		return "rej", "wire: " + err.Error()
	}
	ch := xuperos.NewChainForVerif(n.Ctx)
	if err := ch.SubmitTx(&xctx.BaseCtx{XLog: n.Ctx.XLog, Timer: timer.NewXTimer()}, wtx); err != nil {
		return "rej", err.Error()
	}
	return "ok", ""
}

type blkFacts struct {
	Res    string // ok: the state machine's tip is the block | rej
	Flags  string // which content is in effect: subset of "e" "n" "p" (sorted), "x": none of them
	Pooled string // "-" no pool wanted | "in" the pooled transaction was admitted by Chain.SubmitTx | "refused"
	Same   bool   // the entry claims the id of the pooled transaction
	SameC  bool   // the entry is the pooled transaction: the protobufs are equal up to block id and reception time
	Stage  string // where a refusal happened: confirm | apply | tip
	Why    string
	// Ordinary: what State.ImmediateVerifyTx (signatures, owners, id; no marked-transaction fall-back) says about the
	// entry on the node before the block arrives: "passes" | "fails" (a fact for the statistics, not judged)
	Ordinary string
}

var blkSeq int

// blockOp runs one block op on a copy of the fixture chain.
//
// kmark "above" | "at" | "below": the entry reads the key world.kmark wrote; the copy reads the key once (a running
// node has the version in its cache), then the regulator's call marks world.kmark on the copy with an effective height
// in that relation to the coming block's height; "": nothing is marked here.
func (w *world) blockOp(entry, pooled *pb.Transaction, via string, kmark string, st *stats) (out blkFacts, err error) {
	blkSeq++
	n, err := w.node.Clone(fmt.Sprintf("%s-blk%d", w.node.Name, blkSeq))
	if err != nil {
		return out, fmt.Errorf("clone of the fixture node: %v", err)
	}
	defer n.Drop()
	defer n.State.Close()
	entry, err = wire(entry)
	if err != nil {
		return blkFacts{Res: "rej", Flags: "n", Pooled: "-", Stage: "wire", Why: err.Error()}, nil
	}
	if kmark != "" {
		if err := w.markKeyWriter(n, kmark); err != nil {
			return out, err
		}
	}
	effE, effP := effectsOf(entry), effectsOf(pooled)
	addrs, keys := unionKeys(effE, effP)
	before := takeSnapshot(n, addrs, keys)
	out.Pooled = "-"
	out.Ordinary = ordinary(n, entry)
	if pooled != nil {
		out.Same = bytes.Equal(entry.Txid, pooled.Txid)
		if wp, werr := wire(pooled); werr == nil {
			x, y := proto.Clone(entry).(*pb.Transaction), wp
			x.Blockid, y.Blockid = nil, nil
			x.ReceivedTimestamp, y.ReceivedTimestamp = 0, 0
			out.SameC = proto.Equal(x, y)
		}
		if res, why := submitClass(n, pooled, st); res != "ok" {
			out.Pooled, out.Res, out.Flags, out.Why = "refused", "-", "n", why
			return out, nil
		}
		out.Pooled = "in"
	}
	defer func() {
		if r := recover(); r != nil {
			st.Panics++
			out.Res, out.Stage, out.Why = "rej", "panic", fmt.Sprint(r)
			out.Flags = flagsOf(before, takeSnapshot(n, addrs, keys), effE, effP, pooled != nil)
		}
	}()
	l, s := n.Ledger, n.State
	aw, err := txn.GenerateAwardTx(w.miner.Address, "0", []byte(fmt.Sprintf("award-blk-%d", blkSeq)))
	if err != nil {
		return out, err
	}
	blk, err := l.FormatMinerBlock([]*pb.Transaction{aw, entry}, []byte(w.miner.Address), w.miner.Priv, int64(1000+blkSeq), 0, 0,
		s.GetLatestBlockid(), 0, s.GetTotal(), nil, nil, l.GetMeta().TrunkHeight+1)
	if err != nil {
		return out, fmt.Errorf("FormatMinerBlock: %v", err)
	}
	out.Res = "ok"
	if via == "play" && verifyPanics(n, entry) {
		// PlayAndRepost verifies in goroutines of its own (verifyBlockTxs): a panic there cannot be recovered from
		// here and would end the driver. A verifier that panics counts as a refusal (as for State.VerifyTx).
		st.Panics++
		out.Res, out.Stage, out.Why = "rej", "panic", "State.VerifyTx panics on the entry"
		out.Flags = flagsOf(before, takeSnapshot(n, addrs, keys), effE, effP, pooled != nil)
		return out, nil
	}
	if cs := l.ConfirmBlock(blk, false); !cs.Succ {
		out.Res, out.Stage, out.Why = "rej", "confirm", fmt.Sprint(cs.Error)
	} else {
		var aerr error
		if via == "walk" {
			aerr = s.Walk(blk.Blockid, false)
			if !waitRecover() {
				return out, fmt.Errorf("the goroutine that re-admits pool transactions after Walk did not finish")
			}
		} else {
			aerr = s.PlayAndRepost(blk.Blockid, false, false)
		}
		if aerr != nil {
			out.Res, out.Stage, out.Why = "rej", "apply", aerr.Error()
		} else if !bytes.Equal(s.GetLatestBlockid(), blk.Blockid) {
			out.Res, out.Stage = "rej", "tip"
		}
	}
	out.Flags = flagsOf(before, takeSnapshot(n, addrs, keys), effE, effP, pooled != nil)
	return out, nil
}

func (w *world) markKeyWriter(n *fx.Node, mh string) error {
	vd, err := n.State.CreateXMReader().Get(markedBucket, []byte(markedKey))
	if err != nil || vd == nil || string(vd.RefTxid) != string(w.kmark.Txid) {
		return fmt.Errorf("the copy of the fixture node does not read the key of the transaction to be marked: %v", err)
	}
	eff := n.Ledger.GetMeta().TrunkHeight + map[string]int64{"above": 0, "at": 1, "below": 2}[mh]
	if err := n.Ledger.UpdateBlockChainData(hex.EncodeToString(w.kmark.Txid), "00ff", "", "", eff); err != nil {
		return fmt.Errorf("UpdateBlockChainData on the copy: %v", err)
	}
	q, err := n.Ledger.QueryTransaction(w.kmark.Txid)
	if err != nil || q.GetModifyBlock() == nil || !q.ModifyBlock.Marked || q.ModifyBlock.EffectiveHeight != eff {
		return fmt.Errorf("the key writer does not read back as marked on the copy: %v", err)
	}
	return nil
}

// verifyPanics: State.VerifyTx on a copy of tx panics (read-only on the node).
func verifyPanics(n *fx.Node, tx *pb.Transaction) (panicked bool) {
	defer func() {
		if r := recover(); r != nil {
			panicked = true
		}
	}()
	n.State.VerifyTx(proto.Clone(tx).(*pb.Transaction))
	return false
}

// ordinary: State.ImmediateVerifyTx on a copy of tx (read-only on the node).
func ordinary(n *fx.Node, tx *pb.Transaction) (res string) {
	defer func() {
		if r := recover(); r != nil {
			res = "fails"
		}
	}()
	if ok, err := n.State.ImmediateVerifyTx(proto.Clone(tx).(*pb.Transaction), false); ok && err == nil {
		return "passes"
	}
	return "fails"
}

func flagsOf(before, after *snapshot, effE, effP *effects, pool bool) string {
	f := ""
	if matches(before, after, effE) {
		f += "e"
	}
	if matches(before, after, newEffects()) {
		f += "n"
	}
	if pool && matches(before, after, effP) {
		f += "p"
	}
	if f == "" {
		f = "x"
	}
	return f
}
