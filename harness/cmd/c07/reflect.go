package main

import (
	"encoding/json"
	"fmt"
	"reflect"
	"sort"
	"strings"

	"github.com/golang/protobuf/proto"
	pb "github.com/xuperchain/xupercore/bcs/ledger/xledger/xldgpb"
)

// ---------------------------------------------------------------- schema walk (protobuf struct tags)

type fieldInfo struct {
	Name  string `json:"name"`  // Message.proto_field_name
	Msg   string `json:"msg"`   // message type
	Field string `json:"field"` // proto field name
	Kind  string `json:"kind"`  // bytes string int bool msg rmsg rstr rbytes map
	Sub   string `json:"sub"`   // message type of msg / rmsg fields
	index int
}

var (
	msgType  = reflect.TypeOf((*proto.Message)(nil)).Elem()
	schemaOf = map[string][]fieldInfo{} // message type name -> fields
)

func protoName(tag string) string {
	for _, p := range strings.Split(tag, ",") {
		if strings.HasPrefix(p, "name=") {
			return p[5:]
		}
	}
	return ""
}

func kindOf(t reflect.Type) (kind, sub string, subT reflect.Type) {
	switch t.Kind() {
	case reflect.String:
		return "string", "", nil
	case reflect.Bool:
		return "bool", "", nil
	case reflect.Int32, reflect.Int64, reflect.Uint32, reflect.Uint64:
		return "int", "", nil
	case reflect.Float32, reflect.Float64:
		return "float", "", nil
	case reflect.Map:
		return "map", "", nil
	case reflect.Ptr:
		if t.Implements(msgType) {
			return "msg", t.Elem().Name(), t.Elem()
		}
	case reflect.Slice:
		e := t.Elem()
		switch {
		case e.Kind() == reflect.Uint8:
			return "bytes", "", nil
		case e.Kind() == reflect.String:
			return "rstr", "", nil
		case e.Kind() == reflect.Slice && e.Elem().Kind() == reflect.Uint8:
			return "rbytes", "", nil
		case e.Kind() == reflect.Ptr && e.Implements(msgType):
			return "rmsg", e.Elem().Name(), e.Elem()
		}
	}
	return "unknown:" + t.String(), "", nil
}

// walkSchema lists every field reachable from message type t (depth first, each message type once).
func walkSchema(t reflect.Type, out *[]fieldInfo) {
	if _, seen := schemaOf[t.Name()]; seen {
		return
	}
	schemaOf[t.Name()] = nil
	var subs []reflect.Type
	fields := []fieldInfo{}
	for i := 0; i < t.NumField(); i++ {
		f := t.Field(i)
		tag, ok := f.Tag.Lookup("protobuf")
		if !ok {
			if _, oneof := f.Tag.Lookup("protobuf_oneof"); oneof {
				fields = append(fields, fieldInfo{Name: t.Name() + "." + f.Name, Msg: t.Name(), Field: f.Name, Kind: "oneof", index: i})
			}
			continue
		}
		kind, sub, subT := kindOf(f.Type)
		fields = append(fields, fieldInfo{Name: t.Name() + "." + protoName(tag), Msg: t.Name(), Field: protoName(tag), Kind: kind, Sub: sub, index: i})
		if subT != nil {
			subs = append(subs, subT)
		}
	}
	schemaOf[t.Name()] = fields
	*out = append(*out, fields...)
	for _, s := range subs {
		walkSchema(s, out)
	}
}

func schema() []fieldInfo {
	out := []fieldInfo{}
	walkSchema(reflect.TypeOf(pb.Transaction{}), &out)
	return out
}

func schemaCmd(args []string) error {
	b, _ := json.Marshal(schema())
	fmt.Println(string(b))
	return nil
}

// ---------------------------------------------------------------- access by proto names

func fieldByProto(v reflect.Value, name string) (reflect.Value, *fieldInfo, error) {
	if len(schemaOf) == 0 {
		schema()
	}
	fs := schemaOf[v.Type().Name()]
	for i := range fs {
		if fs[i].Field == name {
			return v.Field(fs[i].index), &fs[i], nil
		}
	}
	return reflect.Value{}, nil, fmt.Errorf("message %s has no field %s", v.Type().Name(), name)
}

// resolve finds the message a location names: "" the transaction itself, "tx_inputs" its idx-th element
// (1-based), "contract_requests.resource_limits" the first limit of the idx-th request, "HD_info" the
// singular message. ok = false: no such instance in this transaction.
func resolve(tx *pb.Transaction, loc string, idx int) (reflect.Value, bool, error) {
	cur := reflect.ValueOf(tx).Elem()
	if loc == "" {
		return cur, true, nil
	}
	for step, name := range strings.Split(loc, ".") {
		fv, _, err := fieldByProto(cur, name)
		if err != nil {
			return cur, false, err
		}
		switch fv.Kind() {
		case reflect.Slice:
			i := 0
			if step == 0 {
				i = idx - 1
			}
			if i < 0 || i >= fv.Len() {
				return cur, false, nil
			}
			cur = fv.Index(i).Elem()
		case reflect.Ptr:
			if fv.IsNil() {
				return cur, false, nil
			}
			cur = fv.Elem()
		default:
			return cur, false, fmt.Errorf("location %s: %s is not a message", loc, name)
		}
	}
	return cur, true, nil
}

func flipBytes(b []byte) []byte {
	if len(b) == 0 {
		return []byte("x")
	}
	c := append([]byte{}, b...)
	c[len(c)-1] ^= 0x01
	return c
}

// freshElem makes a new element for a repeated field: a message with its first string / bytes field set.
func freshElem(t reflect.Type) reflect.Value {
	switch {
	case t.Kind() == reflect.String:
		return reflect.ValueOf("x")
	case t.Kind() == reflect.Slice:
		return reflect.ValueOf([]byte("x"))
	}
	n := reflect.New(t.Elem())
	for i := 0; i < t.Elem().NumField(); i++ {
		f := n.Elem().Field(i)
		if _, ok := t.Elem().Field(i).Tag.Lookup("protobuf"); !ok {
			continue
		}
		if f.Kind() == reflect.String {
			f.SetString("x")
			break
		}
		if f.Kind() == reflect.Slice && f.Type().Elem().Kind() == reflect.Uint8 {
			f.SetBytes([]byte("x"))
			break
		}
	}
	return n
}

// applyVar applies one variation to field `field` of message msg. false: not applicable here.
func applyVar(msg reflect.Value, field, variation string) (bool, error) {
	fv, fi, err := fieldByProto(msg, field)
	if err != nil {
		return false, err
	}
	switch fi.Kind {
	case "bytes", "string":
		var cur []byte
		if fi.Kind == "string" {
			cur = []byte(fv.String())
		} else {
			cur = fv.Bytes()
		}
		var nv []byte
		switch variation {
		case "flip":
			nv = flipBytes(cur)
		case "clear":
			if len(cur) == 0 {
				return false, nil
			}
		case "append":
			nv = append(append([]byte{}, cur...), 'x')
		default:
			return false, fmt.Errorf("variation %s on %s", variation, fi.Kind)
		}
		if fi.Kind == "string" {
			fv.SetString(string(nv))
		} else {
			fv.SetBytes(nv)
		}
	case "int":
		fv.SetInt(fv.Int() + 1)
	case "bool":
		fv.SetBool(!fv.Bool())
	case "rmsg", "rstr", "rbytes":
		n := fv.Len()
		switch variation {
		case "drop":
			if n == 0 {
				return false, nil
			}
			fv.Set(fv.Slice(0, n-1))
		case "dup":
			if n == 0 {
				return false, nil
			}
			last := fv.Index(n - 1)
			if fi.Kind == "rmsg" {
				last = reflect.ValueOf(proto.Clone(last.Interface().(proto.Message)))
			}
			fv.Set(reflect.Append(fv, last))
		case "swap":
			if n < 2 {
				return false, nil
			}
			a, b := fv.Index(0).Interface(), fv.Index(1).Interface()
			fv.Index(0).Set(reflect.ValueOf(b))
			fv.Index(1).Set(reflect.ValueOf(a))
		case "add":
			fv.Set(reflect.Append(fv, freshElem(fv.Type().Elem())))
		default:
			return false, fmt.Errorf("variation %s on %s", variation, fi.Kind)
		}
	case "msg":
		if variation != "nil" {
			return false, fmt.Errorf("variation %s on msg", variation)
		}
		if fv.IsNil() {
			return false, nil
		}
		fv.Set(reflect.Zero(fv.Type()))
	case "map":
		keys := []string{}
		for _, k := range fv.MapKeys() {
			keys = append(keys, k.String())
		}
		sort.Strings(keys)
		switch variation {
		case "addkey":
			if fv.IsNil() {
				fv.Set(reflect.MakeMap(fv.Type()))
			}
			fv.SetMapIndex(reflect.ValueOf("zz"), reflect.ValueOf([]byte("x")))
		case "delkey":
			if len(keys) == 0 {
				return false, nil
			}
			fv.SetMapIndex(reflect.ValueOf(keys[0]), reflect.Value{})
		case "chval":
			if len(keys) == 0 {
				return false, nil
			}
			old := fv.MapIndex(reflect.ValueOf(keys[0])).Bytes()
			fv.SetMapIndex(reflect.ValueOf(keys[0]), reflect.ValueOf(append(append([]byte{}, old...), 'x')))
		default:
			return false, fmt.Errorf("variation %s on map", variation)
		}
	default:
		return false, fmt.Errorf("field %s has kind %s", fi.Name, fi.Kind)
	}
	return true, nil
}
