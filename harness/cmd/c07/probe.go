package main

import (
	"bytes"
	"encoding/hex"
	"encoding/json"
	"fmt"
	"math/big"

	"github.com/golang/protobuf/proto"
	"github.com/xuperchain/xupercore/bcs/ledger/xledger/state/utxo/txhash"
	txn "github.com/xuperchain/xupercore/bcs/ledger/xledger/tx"
	pb "github.com/xuperchain/xupercore/bcs/ledger/xledger/xldgpb"
	"github.com/xuperchain/xupercore/protos"

	"verif/harness/fx"
)

func valid(k string) aSig { return aSig{Pk: k, By: k, Dg: "this"} }

func (w *world) balance(a string) string {
	b, err := w.node.State.GetBalance(w.name(a))
	if err != nil {
		return "err:" + err.Error()
	}
	return b.String()
}

// submit does what Chain.SubmitTx does with a transaction (chain.go:258-265): State.VerifyTx, and DoTx
// unless VerifyTx returned an ERROR (the boolean is ignored there).
func (w *world) submit(tx *pb.Transaction) map[string]interface{} {
	wtx, _ := wire(tx)
	ok, err := w.node.State.VerifyTx(wtx)
	out := map[string]interface{}{"VerifyTx_ok": ok, "VerifyTx_err": fmt.Sprint(err)}
	if err != nil {
		out["submitted"] = false
		return out
	}
	derr := w.node.State.DoTx(wtx)
	out["DoTx_err"] = fmt.Sprint(derr)
	out["submitted"] = derr == nil
	if derr == nil {
		if merr := w.mine(); merr != nil {
			out["mine_err"] = merr.Error()
		} else {
			_, qerr := w.node.Ledger.QueryTransaction(wtx.Txid)
			out["confirmed_in_block"] = qerr == nil
		}
	}
	return out
}

// probeCmd: minimal reproductions of the findings of C07 on the real code (facts, no verdicts).
func probeCmd(args []string) error {
	w, err := newWorld(fmt.Sprintf("c07probe%d", seed()))
	if err != nil {
		return err
	}
	out := map[string]interface{}{}
	st := newStats()

	// 1. KF_XuperSignSingleKey: k1 lists the outsider kx as signer (its public key is public), attaches a plain
	//    ECDSA signature of its own as XuperSign and spends kx's output. kx never signs anything.
	for _, kind := range []string{"ecdsa", "xecdsa", "schnorr", "ring", "agg"} {
		t := &aTx{Ver: 3, Init: "k1", Auth: [][]string{{"kx"}, {"k3"}}, Id: "ok", Ins: []aIn{{Own: "kx"}}, Ctr: "none",
			Xs: aXS{On: true, Pks: []string{"k1", "kx", "k3"}, Kind: kind, By: []string{"k1", "k1", "k1"}, Dg: "this"}}
		tx, err := w.concretise(t, "probe-xs-"+kind)
		if err != nil {
			return err
		}
		before := w.balance("kx")
		r := w.submit(tx)
		r["kx_balance_before"], r["kx_balance_after"] = before, w.balance("kx")
		out["xupersign_"+kind+"_by_initiator_only_spends_outsiders_output"] = r
	}

	// 2. KF_MarkedRefSoftAccept: an input that refers to a transaction marked by the regulator makes VerifyTx
	//    return (false, nil); k1 spends kx's output of the marked transaction with its own signature only.
	{
		t := &aTx{Ver: 3, Init: "k1", Isigs: []aSig{valid("k1")}, Id: "ok", Ins: []aIn{{Own: "kx", Mk: true}}, Ctr: "none"}
		tx, err := w.concretise(t, "probe-marked")
		if err != nil {
			return err
		}
		before := w.balance("kx")
		r := w.submit(tx)
		r["kx_balance_before"], r["kx_balance_after"] = before, w.balance("kx")
		out["marked_ref_unsigned_spend_submit"] = r
		// the same through a peer block on the node (verifyDAGTxs returns the nil error of verifyMarked)
		t2 := &aTx{Ver: 3, Init: "k1", Isigs: []aSig{{Pk: "k1", By: "junk", Dg: "this"}}, Id: "ok", Ins: []aIn{{Own: "k2", Mk: true}}, Ctr: "none"}
		tx2, err := w.concretise(t2, "probe-marked-block")
		if err != nil {
			return err
		}
		tx2, _ = wire(tx2)
		before = w.balance("k2")
		l, s := w.node.Ledger, w.node.State
		w.seq++
		aw, _ := txn.GenerateAwardTx(w.miner.Address, "0", []byte("award-probe"))
		blk, err := l.FormatMinerBlock([]*pb.Transaction{aw, tx2}, []byte(w.miner.Address), w.miner.Priv, w.seq, 0, 0, s.GetLatestBlockid(), 0, s.GetTotal(), nil, nil, l.GetMeta().TrunkHeight+1)
		if err != nil {
			return err
		}
		r2 := map[string]interface{}{"signature": "corrupted", "k2_balance_before": before}
		if cs := l.ConfirmBlock(blk, false); !cs.Succ {
			r2["ConfirmBlock_err"] = fmt.Sprint(cs.Error)
		} else {
			r2["PlayAndRepost_err"] = fmt.Sprint(s.PlayAndRepost(blk.Blockid, false, false))
		}
		r2["k2_balance_after"] = w.balance("k2")
		out["marked_ref_badly_signed_spend_in_peer_block"] = r2
	}

	// 3. KF_GhostAccountInitiator: the initiator is an account name that was never created; any key signs.
	{
		t := &aTx{Ver: 3, Init: "G", Isigs: []aSig{valid("kx")}, Id: "ok", Ctr: "vprog"}
		tx, err := w.concretise(t, "probe-ghost")
		if err != nil {
			return err
		}
		res, why := w.verdict(tx, st)
		out["ghost_account_initiator"] = map[string]interface{}{"initiator": w.name("G"), "signed_by": "kx", "VerifyTx": res, "why": why}
		t.Init = "A"
		tx, _ = w.concretise(t, "probe-ghost-a")
		res, why = w.verdict(tx, st)
		out["existing_account_initiator_signed_by_outsider"] = map[string]interface{}{"VerifyTx": res, "why": why}
	}

	// 4. KF_V1OmitsHDInfo: the version-1 digest and id do not cover HD_info.
	for _, ver := range []int{1, 2, 3} {
		t := &aTx{Ver: ver, Init: "k1", Isigs: []aSig{valid("k1")}, Id: "ok", Ins: []aIn{{Own: "k1"}}, Ctr: "none", Rich: true}
		tx, err := w.concretise(t, fmt.Sprintf("probe-hd-%d", ver))
		if err != nil {
			return err
		}
		r0, _ := w.verdict(tx, st)
		m := proto.Clone(tx).(*pb.Transaction)
		m.HDInfo.OriginalHash = []byte("altered")
		r1, why := w.verdict(m, st)
		id0, _ := txhash.MakeTransactionID(tx)
		id1, _ := txhash.MakeTransactionID(m)
		out[fmt.Sprintf("v%d_hdinfo_altered", ver)] = map[string]interface{}{"base": r0, "altered": r1, "why": why, "same_id": hex.EncodeToString(id0) == hex.EncodeToString(id1)}
	}

	// 5. KF_V12OmitsEmpty: version 1 / 2 pre-images omit empty fields
	for _, ver := range []int32{1, 2, 3} {
		a := &pb.Transaction{Version: ver, Nonce: "n", TxOutputsExt: []*protos.TxOutputExt{{Bucket: "b", Key: []byte("k")}}}
		b := &pb.Transaction{Version: ver, Nonce: "n", TxOutputsExt: []*protos.TxOutputExt{{Bucket: "b", Value: []byte("k")}}}
		da, _ := txhash.MakeTxDigestHash(a)
		db, _ := txhash.MakeTxDigestHash(b)
		ia, _ := txhash.MakeTransactionID(a)
		ib, _ := txhash.MakeTransactionID(b)
		out[fmt.Sprintf("v%d_write_key_vs_value", ver)] = map[string]interface{}{"same_digest": string(da) == string(db), "same_id": string(ia) == string(ib)}
	}
	// 6. side observation (token conservation, C02's subject): modify_block is covered by neither digest nor id,
	//    and doTxInternal skips CheckInputEqualOutput for a transaction that carries modify_block.marked = true.
	{
		t := &aTx{Ver: 3, Init: "k1", Isigs: []aSig{valid("k1")}, Id: "ok", Ins: []aIn{{Own: "k1"}}, Ctr: "none"}
		tx, err := w.concretise(t, "probe-mint")
		if err != nil {
			return err
		}
		tx.TxOutputs = []*protos.TxOutput{{ToAddr: []byte(w.name("k1")), Amount: big.NewInt(1000000).Bytes()}}
		tx.InitiatorSigns = nil
		si, _ := signInfo(tx, w.key["k1"])
		tx.InitiatorSigns = []*protos.SignatureInfo{si}
		tx.Txid, _ = txhash.MakeTransactionID(tx)
		plain := proto.Clone(tx).(*pb.Transaction)
		wplain, _ := wire(plain)
		out["side_outputs_exceed_inputs_plain_DoTx_err"] = fmt.Sprint(w.node.State.DoTx(wplain))
		tx.ModifyBlock = &pb.ModifyBlock{Marked: true}
		before := w.balance("k1")
		r := w.submit(tx)
		r["k1_balance_before"], r["k1_balance_after"] = before, w.balance("k1")
		out["side_outputs_exceed_inputs_with_marked_flag"] = r
	}
	// 7. KF_CoinbaseRider: the coinbase transaction of a block skips ImmediateVerifyTx (verifyDAGTxs:
	//    "if !tx.Autogen && !tx.Coinbase"), but its read / write set is applied by xmodel.DoTx: a block whose
	//    award transaction also rewrites account A's rule (A: k2 and k3) to "kx alone"; nobody signed for A.
	{
		l, s := w.node.Ledger, w.node.State
		acctBucket := "XCAccount"
		a := w.name("A")
		cur, err := s.CreateXMReader().Get(acctBucket, []byte(a))
		if err != nil {
			return err
		}
		w.seq++
		aw, _ := txn.GenerateAwardTx(w.miner.Address, "0", []byte("award-rider"))
		aw.TxInputsExt = []*protos.TxInputExt{{Bucket: acctBucket, Key: []byte(a), RefTxid: cur.RefTxid, RefOffset: cur.RefOffset}}
		aw.TxOutputsExt = []*protos.TxOutputExt{{Bucket: acctBucket, Key: []byte(a), Value: thresholdACL(map[string]float64{w.key["kx"].Address: 1}, 1)}}
		aw.Txid, _ = txhash.MakeTransactionID(aw)
		blk, err := l.FormatMinerBlock([]*pb.Transaction{aw}, []byte(w.miner.Address), w.miner.Priv, w.seq, 0, 0, s.GetLatestBlockid(), 0, s.GetTotal(), nil, nil, l.GetMeta().TrunkHeight+1)
		if err != nil {
			return err
		}
		r := map[string]interface{}{}
		before, _ := w.node.Acl.GetAccountACL(a)
		r["rule_of_A_before"] = before.GetAksWeight()
		if cs := l.ConfirmBlock(blk, false); !cs.Succ {
			r["ConfirmBlock_err"] = fmt.Sprint(cs.Error)
		} else {
			r["PlayAndRepost_err"] = fmt.Sprint(s.PlayAndRepost(blk.Blockid, false, false))
		}
		after, _ := w.node.Acl.GetAccountACL(a)
		r["rule_of_A_after"] = after.GetAksWeight()
		// the outsider now spends A's funds on its own signature
		t := &aTx{Ver: 3, Init: "kx", Isigs: []aSig{valid("kx")}, Auth: [][]string{{"A", "kx"}}, Asigs: []aSig{valid("kx")}, Id: "ok", Ins: []aIn{{Own: "A"}}, Ctr: "none"}
		tx, err := w.concretise(t, "probe-rider-spend")
		if err != nil {
			return err
		}
		bal := w.balance("A")
		sub := w.submit(tx)
		sub["A_balance_before"], sub["A_balance_after"] = bal, w.balance("A")
		r["outsider_spends_A"] = sub
		out["coinbase_rider_rewrites_account_rule"] = r
	}
	// 8. KF_PlayPooledIdUnchecked: a block entry that claims the id of a pooled transaction but carries other content
	{
		r, err := w.pooledIdProbe(st)
		if err != nil {
			return err
		}
		out["play_and_repost_entry_under_pooled_id"] = r
	}
	_ = fx.BCName
	b, _ := json.Marshal(out)
	fmt.Println(string(b))
	return nil
}

// pooledIdProbe: PlayAndRepost and a block entry that claims the id of a pooled transaction.
func (w *world) pooledIdProbe(st *stats) (map[string]interface{}, error) {
	r := map[string]interface{}{}
	t := &aTx{Ver: 3, Init: "k1", Isigs: []aSig{valid("k1")}, Id: "ok", Ins: []aIn{{Own: "k1"}}, Ctr: "none"}
	h, err := w.concretise(t, "probe-pooled-id")
	if err != nil {
		return nil, err
	}
	h, _ = wire(h)
	forged := proto.Clone(h).(*pb.Transaction)
	forged.TxOutputs[0].ToAddr = []byte(w.name("kx"))
	n, err := w.node.Clone(w.node.Name + "-pooledid")
	if err != nil {
		return nil, err
	}
	defer n.Drop()
	w2 := *w
	w2.node = n
	bal := func() map[string]string {
		return map[string]string{"k1": w2.balance("k1"), "k3": w2.balance("k3"), "kx": w2.balance("kx"), "utxo_total": n.State.GetTotal().String()}
	}
	r["balances_before"] = bal()
	res, why := submitClass(n, h, st)
	r["honest_tx_k1_pays_k3_SubmitTx"] = res + " " + why
	l, s := n.Ledger, n.State
	prev := s.GetLatestBlockid()
	aw, _ := txn.GenerateAwardTx(w.miner.Address, "0", []byte("award-pooled-id"))
	blk, err := l.FormatMinerBlock([]*pb.Transaction{aw, forged}, []byte(w.miner.Address), w.miner.Priv, 5000, 0, 0, prev, 0, s.GetTotal(), nil, nil, l.GetMeta().TrunkHeight+1)
	if err != nil {
		return nil, err
	}
	cs := l.ConfirmBlock(blk, false)
	r["ConfirmBlock_ok"] = cs.Succ
	r["PlayAndRepost_err"] = fmt.Sprint(s.PlayAndRepost(blk.Blockid, false, false))
	r["balances_after_block"] = bal()
	q, qerr := l.QueryTransaction(h.Txid)
	if qerr == nil {
		id, _ := txhash.MakeTransactionID(q)
		r["confirmed_tx_pays"] = map[string]bool{"k3": string(q.TxOutputs[0].ToAddr) == w.name("k3"), "kx": string(q.TxOutputs[0].ToAddr) == w.name("kx")}
		r["confirmed_tx_id_is_hash_of_its_content"] = bytes.Equal(id, q.Txid)
	} else {
		r["QueryTransaction_err"] = qerr.Error()
	}
	// a node that never saw the pooled transaction gets the same block through the sync path
	n3, err := w.node.Clone(w.node.Name + "-pooledid-peer")
	if err != nil {
		return nil, err
	}
	defer n3.Drop()
	blk2 := proto.Clone(blk).(*pb.InternalBlock)
	cs3 := n3.Ledger.ConfirmBlock(blk2, false)
	r["other_node_ConfirmBlock_ok"] = cs3.Succ
	r["other_node_Walk_err"] = fmt.Sprint(n3.State.Walk(blk2.Blockid, false))
	waitRecover()
	// the first node rolls the block back (as on a fork switch): the ledger's copy is what gets undone
	r["rollback_Walk_err"] = fmt.Sprint(s.Walk(prev, false))
	waitRecover()
	r["balances_after_rollback"] = bal()
	return r, nil
}
