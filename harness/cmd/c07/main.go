// Command c07 is the Go side of check C07 (transaction integrity and authorisation). It concretises the
// cases TLC enumerates from spec/TxAuth.tla on a real fixture chain (real keys, real signatures, accounts
// created by $acl.NewAccount in a confirmed block, a real contract that pays out of its own funds), applies
// the enumerated mutations to the real protobuf, calls the real State.VerifyTx / txhash functions and records
// what happened as ndjson. It never judges: the TLA+ trace specification does.
//
//	c07 cases  -in DIR -out FILE    part (a) decision procedure + part (b) field mutations
//	c07 gram   -in DIR -out FILE    part (c) encoder grammars: token streams, reference pre-images, digest pairs
//	c07 schema                      reflection walk over the Transaction schema (JSON on stdout)
//	c07 probe                       minimal reproductions of the findings (JSON on stdout)
package main

import (
	"fmt"
	"os"
	"strconv"

	"verif/harness/fx"
)

func seed() int64 {
	s, err := strconv.ParseInt(os.Getenv("VERIF_SEED"), 10, 64)
	if err != nil {
		return 1
	}
	return s
}

func main() {
	if len(os.Args) < 2 {
		fmt.Fprintln(os.Stderr, "usage: c07 cases|gram -in DIR -out FILE | c07 schema | c07 probe")
		os.Exit(64)
	}
	work := os.Getenv("VERIF_WORK")
	if work == "" {
		var err error
		work, err = os.MkdirTemp("", "c07")
		if err != nil {
			panic(err)
		}
		defer os.RemoveAll(work)
	}
	fx.Init(work)
	var err error
	switch os.Args[1] {
	case "cases":
		err = casesCmd(os.Args[2:])
	case "gram":
		err = gramCmd(os.Args[2:])
	case "schema":
		err = schemaCmd(os.Args[2:])
	case "probe":
		err = probeCmd(os.Args[2:])
	default:
		fmt.Fprintln(os.Stderr, "unknown sub-command", os.Args[1])
		os.Exit(64)
	}
	if err != nil {
		fmt.Fprintln(os.Stderr, "c07:", err)
		os.Exit(3)
	}
}
