package main

func casesCmd(args []string) error  { return nil }
func gramCmd(args []string) error   { return nil }
func schemaCmd(args []string) error { return nil }
