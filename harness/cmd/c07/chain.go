package main

import (
	"encoding/hex"
	"encoding/json"
	"fmt"
	"io/ioutil"
	"math/big"
	"os"
	"path/filepath"
	"sort"

	"github.com/xuperchain/xupercore/bcs/ledger/xledger/state/utxo/txhash"
	"github.com/xuperchain/xupercore/bcs/ledger/xledger/state/xmodel"
	txn "github.com/xuperchain/xupercore/bcs/ledger/xledger/tx"
	pb "github.com/xuperchain/xupercore/bcs/ledger/xledger/xldgpb"
	"github.com/xuperchain/xupercore/kernel/contract"
	"github.com/xuperchain/xupercore/protos"

	"verif/harness/fx"
)

// The fixture world of C07: one real node (ledger, state machine, contract manager with the kernel
// contracts, acl manager) driven like a single-miner node.
//
//	keys      k1 k2 k3 (parties of the transactions under test), kx (an outsider: never signs honestly, owns funds)
//	accounts  created by $acl.NewAccount in a confirmed block (weights / thresholds are the specification's, halved):
//	          A  threshold 2: k2 1, k3 1        B  threshold 2: k2 1, kx 1 (never met by k1 k2 k3)
//	          T  threshold 2: k1 1, k2 1, k3 1  L  threshold 3: k2 1, k3 1 (never met)
//	          S  threshold 2: k2 2, k3 1        K  key sets {k1, k2} or {k3}
//	          G  a well-formed account name that is never created (no rule on the chain)
//	contract  C  = $c07pay, a kernel contract registered by this driver that pays out of its own funds
//	funds     one confirmed transaction gives every owner above several outputs
const (
	payName      = "$c07pay"
	outsPer      = 4
	outAmount    = 10
	bankPart     = 1000000 // what the bank keeps aside for each transaction that is going to be marked
	markedBucket = "c07kv"
	markedKey    = "mk" // written by world.kmark
)

// markHeights: the relation of the height of the block a transaction arrives in to the effective height of the
// mark on a transaction it refers to (spec/TxAuth.tla: MarkHeights).
var markHeights = []string{"above", "at", "below"}

type utxoRef struct {
	txid []byte
	off  int32
	amt  []byte
}

type preExecd struct {
	reqs []*protos.InvokeRequest
	rw   *contract.RWSet
	urw  *contract.UTXORWSet
}

type world struct {
	node  *fx.Node
	sd    int64
	key   map[string]*fx.Key
	acct  map[string]string
	outs  map[string][]utxoRef // abstract owner -> its funded outputs
	mouts map[string][]utxoRef // ... -> its outputs of the transaction the regulator marked (Ledger.UpdateBlockChainData), effective height below the next block's
	// the same for every relation of the NEXT block's height (the peer blocks of the block ops) to the effective
	// height of the mark: "above" (next height > effective height; = mouts), "at" (equal), "below" (smaller)
	moutsAt map[string]map[string][]utxoRef
	mfunds  map[string]*pb.Transaction
	meff    map[string]int64
	fund    *pb.Transaction
	mfund   *pb.Transaction
	kmark   *pb.Transaction // wrote the key c07kv/mk; the block ops mark it on their copy of the chain (block.go: markKeyWriter)
	mread   *preExecd       // a $vprog call that reads that key (its read set names the version kmark wrote) and writes another
	pay     *preExecd       // $c07pay.pay pre-executed once (its inputs are outputs of C)
	vprog   *preExecd       // a harmless $vprog call with a read and a write
	seq     int64
	miner   *fx.Key
}

func payRun(ctx contract.KContext) (*contract.Response, error) {
	amt, ok := new(big.Int).SetString(string(ctx.Args()["amount"]), 10)
	if !ok {
		return nil, fmt.Errorf("c07pay: bad amount")
	}
	if err := ctx.Transfer(payName, string(ctx.Args()["to"]), amt); err != nil {
		return nil, err
	}
	return &contract.Response{Status: 200, Message: "ok"}, nil
}

func init() {
	fx.KernelContracts = append(fx.KernelContracts, func(reg contract.KernRegistry) {
		reg.RegisterKernMethod(payName, "pay", payRun)
	})
}

func newNode(name string) (*fx.Node, error) {
	g := fx.Genesis(fx.GenesisOpts{Predist: map[string]string{"c07/bank": "1000000000"}, NoFee: true, Award: "0", Miner: "m"})
	conf := filepath.Join(fx.DataPrefix(name), "conf")
	if err := os.MkdirAll(conf, 0o755); err != nil {
		return nil, err
	}
	if err := ioutil.WriteFile(filepath.Join(conf, "contract.yaml"), []byte(
		"enableUpgrade: false\nwasm:\n  enable: false\nnative:\n  enable: false\nevm:\n  enable: false\nxkernel:\n  enable: true\n  driver: default\n"), 0o644); err != nil {
		return nil, err
	}
	return fx.NewNode(name, g)
}

type call struct {
	contract, method string
	args             map[string][]byte
}

// preExec runs kernel-contract calls in ONE sandbox over the live state and returns the requests with the
// resources used, the read/write set and the utxo read/write set.
func preExec(node *fx.Node, initiator string, auth []string, calls []call) (*preExecd, error) {
	mg := node.Contract
	sb, err := mg.NewStateSandbox(&contract.SandboxConfig{XMReader: node.State.CreateXMReader(), UTXOReader: node.State.CreateUtxoReader()})
	if err != nil {
		return nil, err
	}
	out := &preExecd{}
	for _, c := range calls {
		ctx, err := mg.NewContext(&contract.ContextConfig{State: sb, Initiator: initiator, AuthRequire: auth,
			Module: "xkernel", ContractName: c.contract, ResourceLimits: contract.MaxLimits})
		if err != nil {
			return nil, err
		}
		resp, err := ctx.Invoke(c.method, c.args)
		used := ctx.ResourceUsed()
		ctx.Release()
		if err != nil {
			return nil, err
		}
		if resp.Status >= contract.StatusErrorThreshold {
			return nil, fmt.Errorf("status %d: %s", resp.Status, resp.Message)
		}
		out.reqs = append(out.reqs, &protos.InvokeRequest{ModuleName: "xkernel", ContractName: c.contract, MethodName: c.method,
			Args: c.args, ResourceLimits: contract.ToPbLimits(used)})
	}
	if err := sb.Flush(); err != nil {
		return nil, err
	}
	out.rw = sb.RWSet()
	out.urw = sb.UTXORWSet()
	return out, nil
}

func signInfo(tx *pb.Transaction, k *fx.Key) (*protos.SignatureInfo, error) {
	sig, err := txhash.ProcessSignTx(fx.Crypto, tx, []byte(k.PrivStr))
	if err != nil {
		return nil, err
	}
	return &protos.SignatureInfo{PublicKey: k.PubStr, Sign: sig}, nil
}

// honestTx signs tx (version 3) by its initiator and by the keys of auth (AuthRequire = their addresses).
func honestTx(tx *pb.Transaction, initiator *fx.Key, auth []*fx.Key) (*pb.Transaction, error) {
	tx.Initiator = initiator.Address
	for _, a := range auth {
		tx.AuthRequire = append(tx.AuthRequire, a.Address)
	}
	si, err := signInfo(tx, initiator)
	if err != nil {
		return nil, err
	}
	tx.InitiatorSigns = []*protos.SignatureInfo{si}
	for _, a := range auth {
		s, err := signInfo(tx, a)
		if err != nil {
			return nil, err
		}
		tx.AuthRequireSigns = append(tx.AuthRequireSigns, s)
	}
	tx.Txid, err = txhash.MakeTransactionID(tx)
	return tx, err
}

// mine packs the pool into the next block, confirms it on the ledger and plays it.
func (w *world) mine() error {
	st, l := w.node.State, w.node.Ledger
	height := l.GetMeta().TrunkHeight + 1
	auto, err := st.GetTimerTx(height)
	if err != nil {
		return fmt.Errorf("GetTimerTx(%d): %v", height, err)
	}
	unconf, err := st.GetUnconfirmedTx(false)
	if err != nil {
		return err
	}
	w.seq++
	aw, err := txn.GenerateAwardTx(w.miner.Address, "0", []byte(fmt.Sprintf("award-%d", w.seq)))
	if err != nil {
		return err
	}
	list := []*pb.Transaction{aw}
	if auto != nil && len(auto.TxOutputsExt) > 0 {
		list = append(list, auto)
	}
	list = append(list, unconf...)
	blk, err := l.FormatMinerBlock(list, []byte(w.miner.Address), w.miner.Priv, w.seq, 0, 0, st.GetLatestBlockid(), 0, st.GetTotal(), nil, nil, height)
	if err != nil {
		return err
	}
	if cs := l.ConfirmBlock(blk, false); !cs.Succ {
		return fmt.Errorf("ConfirmBlock: %v", cs.Error)
	}
	if err := st.PlayForMiner(blk.Blockid); err != nil {
		return fmt.Errorf("PlayForMiner: %v", err)
	}
	return nil
}

func thresholdACL(w map[string]float64, accept float64) []byte {
	a := &protos.Acl{Pm: &protos.PermissionModel{Rule: protos.PermissionRule_SIGN_THRESHOLD, AcceptValue: accept}, AksWeight: w}
	b, err := json.Marshal(a)
	if err != nil {
		panic(err)
	}
	return b
}

// name maps an abstract name (key, account, contract) to the real one.
func (w *world) name(a string) string {
	if k, ok := w.key[a]; ok {
		return k.Address
	}
	if n, ok := w.acct[a]; ok {
		return n
	}
	if a == "C" {
		return payName
	}
	return a
}

func (w *world) uri(path []string) string {
	s := ""
	for i, p := range path {
		if i > 0 {
			s += "/"
		}
		s += w.name(p)
	}
	return s
}

var owners = []string{"k1", "k2", "k3", "kx", "A", "B", "G", "T", "L", "S", "K", "C"} // the contract last

var keyNames = []string{"k1", "k2", "k3", "kx"}

// the rules of the fixture accounts in the specification's units (spec/TxAuth.tla: Weight, Accept, KeySets)
type ruleDef struct {
	acct string
	w    map[string]int
	acc  int
	sets [][]string
}

var ruleDefs = []ruleDef{
	{acct: "A", w: map[string]int{"k2": 1, "k3": 1}, acc: 2},
	{acct: "B", w: map[string]int{"k2": 1, "kx": 1}, acc: 2},
	{acct: "T", w: map[string]int{"k1": 1, "k2": 1, "k3": 1}, acc: 2},
	{acct: "L", w: map[string]int{"k2": 1, "k3": 1}, acc: 3},
	{acct: "S", w: map[string]int{"k2": 2, "k3": 1}, acc: 2},
	{acct: "K", sets: [][]string{{"k1", "k2"}, {"k3"}}},
}

func (w *world) aclOf(r ruleDef) []byte {
	if r.sets != nil {
		a := &protos.Acl{Pm: &protos.PermissionModel{Rule: protos.PermissionRule_SIGN_AKSET}, AkSets: &protos.AkSets{Sets: map[string]*protos.AkSet{}}}
		for i, set := range r.sets {
			ks := &protos.AkSet{}
			for _, k := range set {
				ks.Aks = append(ks.Aks, w.key[k].Address)
			}
			a.AkSets.Sets[fmt.Sprint(i+1)] = ks
		}
		a.AkSets.Expression = "1 or 2"
		b, err := json.Marshal(a)
		if err != nil {
			panic(err)
		}
		return b
	}
	m := map[string]float64{}
	for k, v := range r.w {
		m[w.key[k].Address] = float64(v) / 2
	}
	return thresholdACL(m, float64(r.acc)/2)
}

// ruleLine is one entry of the "fixture" trace line: the rule of an account as READ BACK from the chain.
type ruleLine struct {
	A    string     `json:"a"`
	Kind string     `json:"kind"`
	Acc  int        `json:"acc"`
	W    []int      `json:"w"` // weights of k1 k2 k3 kx (doubled: the specification's units)
	Sets [][]string `json:"sets"`
}

func (w *world) fixtureRules() ([]ruleLine, error) {
	nameOf := map[string]string{}
	for _, k := range keyNames {
		nameOf[w.key[k].Address] = k
	}
	out := []ruleLine{}
	for _, r := range ruleDefs {
		acl, err := w.node.Acl.GetAccountACL(w.acct[r.acct])
		if err != nil || acl == nil || acl.Pm == nil {
			return nil, fmt.Errorf("fixture: rule of account %s not readable after its block: %v", r.acct, err)
		}
		line := ruleLine{A: r.acct, W: make([]int, len(keyNames)), Sets: [][]string{}}
		switch acl.Pm.Rule {
		case protos.PermissionRule_SIGN_THRESHOLD:
			line.Kind, line.Acc = "thr", int(acl.Pm.AcceptValue*2)
			for addr, wt := range acl.AksWeight {
				k, ok := nameOf[addr]
				if !ok {
					return nil, fmt.Errorf("fixture: account %s names a foreign key", r.acct)
				}
				for i, n := range keyNames {
					if n == k {
						line.W[i] = int(wt * 2)
					}
				}
			}
		case protos.PermissionRule_SIGN_AKSET:
			line.Kind = "sets"
			ids := []string{}
			for id := range acl.GetAkSets().GetSets() {
				ids = append(ids, id)
			}
			sort.Strings(ids)
			for _, id := range ids {
				set := []string{}
				for _, addr := range acl.AkSets.Sets[id].Aks {
					set = append(set, nameOf[addr])
				}
				line.Sets = append(line.Sets, set)
			}
		default:
			return nil, fmt.Errorf("fixture: account %s has rule kind %v", r.acct, acl.Pm.Rule)
		}
		out = append(out, line)
	}
	return out, nil
}

func newWorld(name string) (*world, error) {
	node, err := newNode(name)
	if err != nil {
		return nil, err
	}
	sd := seed()
	w := &world{node: node, sd: sd, key: map[string]*fx.Key{}, acct: map[string]string{}, outs: map[string][]utxoRef{}, mouts: map[string][]utxoRef{}, miner: fx.GetKey("m")}
	for _, k := range []string{"k1", "k2", "k3", "kx"} {
		w.key[k] = fx.GetKey(fmt.Sprintf("c07/%d/%s", sd, k))
	}
	for i, a := range []string{"A", "B", "G", "T", "L", "S", "K"} {
		w.acct[a] = fmt.Sprintf("XC%d%d%014d@%s", i+1, int(sd%9)+1, sd%100000, fx.BCName)
	}
	bank, admin := fx.GetKey("c07/bank"), fx.GetKey("c07/admin")
	// accounts A and B on the confirmed chain
	raw := func(full string) string { return full[2:18] }
	calls := []call{}
	for _, r := range ruleDefs {
		calls = append(calls, call{"$acl", "NewAccount", map[string][]byte{"account_name": []byte(raw(w.acct[r.acct])), "acl": w.aclOf(r)}})
	}
	pe, err := preExec(node, admin.Address, []string{admin.Address}, calls)
	if err != nil {
		return nil, fmt.Errorf("pre-execution of $acl.NewAccount: %v", err)
	}
	tx := &pb.Transaction{Version: 3, Nonce: "c07-accounts", Timestamp: 1, ContractRequests: pe.reqs,
		TxInputsExt: xmodel.GetTxInputs(pe.rw.RSet), TxOutputsExt: xmodel.GetTxOutputs(pe.rw.WSet)}
	if tx, err = honestTx(tx, admin, []*fx.Key{admin}); err != nil {
		return nil, err
	}
	if ok, err := node.State.VerifyTx(tx); !ok || err != nil {
		return nil, fmt.Errorf("fixture: account transaction does not verify: %v", err)
	}
	if err := node.State.DoTx(tx); err != nil {
		return nil, fmt.Errorf("fixture: DoTx(accounts): %v", err)
	}
	// funds for every owner
	rtx, err := txn.GenerateRootTx(fx.Genesis(fx.GenesisOpts{Predist: map[string]string{"c07/bank": "1000000000"}, NoFee: true, Award: "0", Miner: "m"}))
	if err != nil {
		return nil, err
	}
	total := int64(1000000000)
	ftx := &pb.Transaction{Version: 3, Nonce: "c07-fund", Timestamp: 2, Desc: []byte("fund")}
	ftx.TxInputs = []*protos.TxInput{{RefTxid: rtx.Txid, RefOffset: 0, FromAddr: []byte(bank.Address), Amount: big.NewInt(total).Bytes()}}
	for _, o := range owners {
		for i := 0; i < outsPer; i++ {
			ftx.TxOutputs = append(ftx.TxOutputs, &protos.TxOutput{ToAddr: []byte(w.name(o)), Amount: big.NewInt(outAmount).Bytes()})
			total -= outAmount
		}
	}
	for range markHeights { // one output of the bank per transaction that is going to be marked
		ftx.TxOutputs = append(ftx.TxOutputs, &protos.TxOutput{ToAddr: []byte(bank.Address), Amount: big.NewInt(bankPart).Bytes()})
		total -= bankPart
	}
	ftx.TxOutputs = append(ftx.TxOutputs, &protos.TxOutput{ToAddr: []byte(bank.Address), Amount: big.NewInt(total).Bytes()})
	if ftx, err = honestTx(ftx, bank, []*fx.Key{bank}); err != nil {
		return nil, err
	}
	if ok, err := node.State.VerifyTx(ftx); !ok || err != nil {
		return nil, fmt.Errorf("fixture: funding transaction does not verify: %v", err)
	}
	if err := node.State.DoTx(ftx); err != nil {
		return nil, fmt.Errorf("fixture: DoTx(fund): %v", err)
	}
	if err := w.mine(); err != nil {
		return nil, err
	}
	w.fund = ftx
	off := int32(0)
	for _, o := range owners {
		for i := 0; i < outsPer; i++ {
			w.outs[o] = append(w.outs[o], utxoRef{ftx.Txid, off, big.NewInt(outAmount).Bytes()})
			off++
		}
	}
	// three more funding transactions, confirmed in ONE block and then marked by the regulator's ledger call with
	// effective heights below / at / above the height of the next block (the block ops build the next block):
	// checkRelyOnMarkedTxid lets a reference pass iff the referring transaction's block is not higher than that
	bankOff := off // ftx: the bank's three change outputs follow the owners' outputs
	mtxs := map[string]*pb.Transaction{}
	for j, mh := range markHeights {
		mtx := &pb.Transaction{Version: 3, Nonce: "c07-mfund-" + mh, Timestamp: 3 + int64(j), Desc: []byte("mfund " + mh)}
		mtx.TxInputs = []*protos.TxInput{{RefTxid: ftx.Txid, RefOffset: bankOff + int32(j), FromAddr: []byte(bank.Address), Amount: big.NewInt(bankPart).Bytes()}}
		left := int64(bankPart)
		for _, o := range owners[:len(owners)-1] { // not the contract: its pre-executed payment must not refer to a marked transaction
			for i := 0; i < outsPer; i++ {
				mtx.TxOutputs = append(mtx.TxOutputs, &protos.TxOutput{ToAddr: []byte(w.name(o)), Amount: big.NewInt(outAmount).Bytes()})
				left -= outAmount
			}
		}
		mtx.TxOutputs = append(mtx.TxOutputs, &protos.TxOutput{ToAddr: []byte(bank.Address), Amount: big.NewInt(left).Bytes()})
		if mtx, err = honestTx(mtx, bank, []*fx.Key{bank}); err != nil {
			return nil, err
		}
		if ok, err := node.State.VerifyTx(mtx); !ok || err != nil {
			return nil, fmt.Errorf("fixture: funding transaction (to be marked) does not verify: %v", err)
		}
		if err := node.State.DoTx(mtx); err != nil {
			return nil, fmt.Errorf("fixture: DoTx(mfund %s): %v", mh, err)
		}
		mtxs[mh] = mtx
	}
	// ... and a transaction that writes a key: the block ops whose entry reads that key mark it on their own copy of
	// the chain after the copy has read the key once (marking erases the write set in the ledger: only a node that
	// has the version in its cache - one that was running when the regulator's call came - can still read it)
	kj, _ := json.Marshal([]fx.VOp{{"put", markedBucket, markedKey, "mv"}})
	kpe, err := preExec(node, bank.Address, nil, []call{{fx.VProgName, "run", map[string][]byte{"prog": kj}}})
	if err != nil {
		return nil, fmt.Errorf("pre-execution of the key writer: %v", err)
	}
	ktx := &pb.Transaction{Version: 3, Nonce: "c07-kmark", Timestamp: 9, ContractRequests: kpe.reqs,
		TxInputsExt: xmodel.GetTxInputs(kpe.rw.RSet), TxOutputsExt: xmodel.GetTxOutputs(kpe.rw.WSet)}
	if ktx, err = honestTx(ktx, bank, []*fx.Key{bank}); err != nil {
		return nil, err
	}
	if ok, err := node.State.VerifyTx(ktx); !ok || err != nil {
		return nil, fmt.Errorf("fixture: the key writer does not verify: %v", err)
	}
	if err := node.State.DoTx(ktx); err != nil {
		return nil, fmt.Errorf("fixture: DoTx(key writer): %v", err)
	}
	w.kmark = ktx
	if err := w.mine(); err != nil {
		return nil, err
	}
	next := node.Ledger.GetMeta().TrunkHeight + 1
	w.moutsAt, w.mfunds, w.meff = map[string]map[string][]utxoRef{}, mtxs, map[string]int64{"above": next - 1, "at": next, "below": next + 1}
	for _, mh := range markHeights {
		mtx := mtxs[mh]
		if err := node.Ledger.UpdateBlockChainData(hex.EncodeToString(mtx.Txid), "00ff", "", "", w.meff[mh]); err != nil {
			return nil, fmt.Errorf("fixture: UpdateBlockChainData: %v", err)
		}
		q, err := node.Ledger.QueryTransaction(mtx.Txid)
		if err != nil || q.GetModifyBlock() == nil || !q.ModifyBlock.Marked || q.ModifyBlock.EffectiveHeight != w.meff[mh] {
			return nil, fmt.Errorf("fixture: the marked transaction (%s) does not read back as marked with its effective height: %v", mh, err)
		}
		w.moutsAt[mh] = map[string][]utxoRef{}
		off = 0
		for _, o := range owners[:len(owners)-1] {
			for i := 0; i < outsPer; i++ {
				w.moutsAt[mh][o] = append(w.moutsAt[mh][o], utxoRef{mtx.Txid, off, big.NewInt(outAmount).Bytes()})
				off++
			}
		}
	}
	w.mfund, w.mouts = mtxs["above"], w.moutsAt["above"]
	if _, err := w.fixtureRules(); err != nil {
		return nil, err
	}
	if acl, _ := node.Acl.GetAccountACL(w.acct["G"]); acl != nil {
		return nil, fmt.Errorf("fixture: ghost account has a rule")
	}
	// the contract pays 7 out of its own funds (one output of 10: payment 7, change 3)
	k1 := w.key["k1"]
	if w.pay, err = preExec(node, k1.Address, nil, []call{{payName, "pay", map[string][]byte{"to": []byte(w.key["k3"].Address), "amount": []byte("7")}}}); err != nil {
		return nil, fmt.Errorf("pre-execution of %s.pay: %v", payName, err)
	}
	if len(w.pay.urw.Rset) != 1 || string(w.pay.urw.Rset[0].FromAddr) != payName {
		return nil, fmt.Errorf("fixture: %s.pay selected %d inputs", payName, len(w.pay.urw.Rset))
	}
	mj, _ := json.Marshal([]fx.VOp{{"get", markedBucket, markedKey}, {"put", markedBucket, "mkw", "v"}})
	if w.mread, err = preExec(node, k1.Address, nil, []call{{fx.VProgName, "run", map[string][]byte{"prog": mj}}}); err != nil {
		return nil, fmt.Errorf("pre-execution of the read of the marked key: %v", err)
	}
	named := false
	for _, in := range xmodel.GetTxInputs(w.mread.rw.RSet) {
		if in.Bucket == markedBucket && string(in.Key) == markedKey && string(in.RefTxid) == string(w.kmark.Txid) {
			named = true
		}
	}
	if !named {
		return nil, fmt.Errorf("fixture: the read set of the marked-key reader does not name the transaction that wrote the key")
	}
	pj, _ := json.Marshal([]fx.VOp{{"get", "c07kv", "r"}, {"put", "c07kv", "w", "v"}})
	if w.vprog, err = preExec(node, k1.Address, nil, []call{{fx.VProgName, "run", map[string][]byte{"prog": pj}}}); err != nil {
		return nil, fmt.Errorf("pre-execution of %s.run: %v", fx.VProgName, err)
	}
	return w, nil
}
