package main

import (
	"crypto/ecdsa"
	"encoding/json"
	"fmt"
	"math/big"

	"github.com/golang/protobuf/proto"
	"github.com/xuperchain/xupercore/bcs/ledger/xledger/state/utxo/txhash"
	"github.com/xuperchain/xupercore/bcs/ledger/xledger/state/xmodel"
	pb "github.com/xuperchain/xupercore/bcs/ledger/xledger/xldgpb"
	"github.com/xuperchain/xupercore/protos"

	"verif/harness/fx"
)

// ---------------------------------------------------------------- abstract transaction (spec/TxAuth.tla, BuildTx)

// extSigner: signature schemes of the default crypto client that the CryptoClient interface does not list
// (reached by a type assertion, so that the harness module needs no further requirement).
type extSigner interface {
	SignV2ECDSA(k *ecdsa.PrivateKey, msg []byte) ([]byte, error)
	SignSchnorr(privateKey *ecdsa.PrivateKey, message []byte) ([]byte, error)
	SignSchnorrRing(keys []*ecdsa.PublicKey, privateKey *ecdsa.PrivateKey, message []byte) ([]byte, error)
}

// aSig is one SignatureInfo entry: the public key it carries (pk), the key that really produced the
// signature bytes (by; "junk": a valid signature with a corrupted byte) and the digest it was made over
// ("this" transaction or "other": the same transaction with another nonce).
type aSig struct {
	Pk string `json:"pk"`
	By string `json:"by"`
	Dg string `json:"dg"`
}

// aXS is the aggregated XuperSign field.
type aXS struct {
	On   bool     `json:"on"`
	Pks  []string `json:"pks"`
	Kind string   `json:"kind"` // agg (multi-signature of all keys in By), ecdsa / xecdsa / schnorr (By[0] alone), ring (By[0] in the ring Pks), junk
	By   []string `json:"by"`
	Dg   string   `json:"dg"`
}

type aIn struct {
	Own string `json:"own"`
	Cj  bool   `json:"cj"` // listed in the transient write-set entry ContractUtxo.Inputs
	Mk  bool   `json:"mk"` // refers to an output of the transaction the regulator has marked
}

type aTx struct {
	Ver   int        `json:"ver"`
	Init  string     `json:"init"`
	Isigs []aSig     `json:"isigs"`
	Auth  [][]string `json:"auth"`
	Asigs []aSig     `json:"asigs"`
	Xs    aXS        `json:"xs"`
	Id    string     `json:"id"`  // ok | stale
	Ins   []aIn      `json:"ins"` // owners of the inputs
	Ctr   string     `json:"ctr"` // none | vprog | pay | mread (a $vprog call that reads the key written by the transaction the regulator marks)
	Rich  bool       `json:"rich"`
}

var (
	transientBucket = "$transient"
	utxoInputsKey   = []byte("ContractUtxo.Inputs")
)

func flipByte(b []byte) []byte {
	c := append([]byte{}, b...)
	if len(c) == 0 {
		return []byte{0x30}
	}
	c[len(c)/2] ^= 0x5a
	return c
}

func (w *world) priv(k string) *ecdsa.PrivateKey { return w.key[k].Priv }

// concretise renders the abstract transaction as a real protobuf transaction on the fixture chain; an input that
// refers to "the marked transaction" names the one whose mark takes effect below the next block's height.
func (w *world) concretise(t *aTx, tag string) (*pb.Transaction, error) {
	return w.concretiseAt(t, tag, "above")
}

// concretiseAt: ... the marked transaction whose effective height stands in relation mh to the height of the next
// block ("above": the block is higher, "at", "below").
func (w *world) concretiseAt(t *aTx, tag string, mh string) (*pb.Transaction, error) {
	mouts, okMh := w.moutsAt[mh]
	if !okMh {
		return nil, fmt.Errorf("unknown relation %q of block height and effective height of the mark", mh)
	}
	tx := &pb.Transaction{Version: int32(t.Ver), Nonce: "c07-" + tag, Timestamp: 1600000000 + w.sd, Desc: []byte("c07 " + tag),
		Initiator: w.name(t.Init)}
	for _, u := range t.Auth {
		tx.AuthRequire = append(tx.AuthRequire, w.uri(u))
	}
	// inputs: the i-th input of an owner is its i-th funded output; a contract-justified input of C under
	// the pay request is the output the pre-execution selected
	used := map[string]int{}
	var cj []*protos.TxInput
	sum := int64(0)
	payIn := w.pay.urw.Rset[0]
	for _, in := range t.Ins {
		var ti *protos.TxInput
		src := w.outs
		if in.Mk {
			src = mouts
		}
		if in.Own == "C" && in.Cj && t.Ctr == "pay" && used["C!"] == 0 {
			ti = proto.Clone(payIn).(*protos.TxInput)
			used["C!"] = 1
		} else {
			list := src[in.Own]
			var pick *utxoRef
			for i := range list {
				if i >= used[in.Own] && !(in.Own == "C" && list[i].off == payIn.RefOffset && !in.Mk) {
					pick = &list[i]
					used[in.Own] = i + 1
					break
				}
			}
			if pick == nil {
				return nil, fmt.Errorf("no funded output left for owner %s", in.Own)
			}
			ti = &protos.TxInput{RefTxid: pick.txid, RefOffset: pick.off, FromAddr: []byte(w.name(in.Own)), Amount: pick.amt}
			sum += outAmount
		}
		tx.TxInputs = append(tx.TxInputs, ti)
		if in.Cj {
			cj = append(cj, ti)
		}
	}
	if sum > 0 {
		tx.TxOutputs = append(tx.TxOutputs, &protos.TxOutput{ToAddr: []byte(w.key["k3"].Address), Amount: big.NewInt(sum).Bytes()})
	}
	switch t.Ctr {
	case "vprog":
		tx.ContractRequests = w.vprog.reqs
		tx.TxInputsExt = xmodel.GetTxInputs(w.vprog.rw.RSet)
		tx.TxOutputsExt = xmodel.GetTxOutputs(w.vprog.rw.WSet)
	case "mread":
		tx.ContractRequests = w.mread.reqs
		tx.TxInputsExt = xmodel.GetTxInputs(w.mread.rw.RSet)
		tx.TxOutputsExt = xmodel.GetTxOutputs(w.mread.rw.WSet)
	case "pay":
		tx.ContractRequests = w.pay.reqs
		tx.TxInputsExt = xmodel.GetTxInputs(w.pay.rw.RSet)
		tx.TxOutputsExt = xmodel.GetTxOutputs(w.pay.rw.WSet)
		if used["C!"] == 1 {
			tx.TxOutputs = append(tx.TxOutputs, w.pay.urw.WSet...)
		}
	}
	// the transient entry ContractUtxo.Inputs lists exactly the inputs claimed as contract-justified
	ext := []*protos.TxOutputExt{}
	placed := false
	for _, o := range tx.TxOutputsExt {
		if o.Bucket == transientBucket && string(o.Key) == string(utxoInputsKey) {
			if len(cj) > 0 {
				v, err := xmodel.MarshalMessages(cj)
				if err != nil {
					return nil, err
				}
				ext = append(ext, &protos.TxOutputExt{Bucket: o.Bucket, Key: o.Key, Value: v})
			}
			placed = true
			continue
		}
		ext = append(ext, o)
	}
	if !placed && len(cj) > 0 {
		v, err := xmodel.MarshalMessages(cj)
		if err != nil {
			return nil, err
		}
		ext = append(ext, &protos.TxOutputExt{Bucket: transientBucket, Key: utxoInputsKey, Value: v})
	}
	tx.TxOutputsExt = ext
	if len(ext) == 0 {
		tx.TxOutputsExt = nil
	}
	if t.Rich {
		// every remaining field of the schema gets a value (part (b): each field must be mutable)
		tx.HDInfo = &pb.HDInfo{HdPublicKey: []byte("hdpub"), OriginalHash: []byte("orig")}
		tx.ModifyBlock = &pb.ModifyBlock{EffectiveTxid: "e", EffectiveHeight: 7, PublicKey: "p", Sign: "s"}
		tx.ReceivedTimestamp = 5
		for _, in := range tx.TxInputs {
			in.FrozenHeight = 0
		}
		if len(tx.TxOutputs) > 0 {
			tx.TxOutputs = append(tx.TxOutputs, &protos.TxOutput{ToAddr: []byte(w.key["k2"].Address), Amount: []byte{}, FrozenHeight: 3})
		}
	}
	other := proto.Clone(tx).(*pb.Transaction)
	other.Nonce += "-other"
	dThis, err := txhash.MakeTxDigestHash(tx)
	if err != nil {
		return nil, err
	}
	dOther, err := txhash.MakeTxDigestHash(other)
	if err != nil {
		return nil, err
	}
	dg := func(which string) []byte {
		if which == "other" {
			return dOther
		}
		return dThis
	}
	// equal abstract entries are ONE real entry listed again, byte for byte (ECDSA signatures are randomised: a
	// second signature would be another one) - a replayed signature is a copy, whoever lists it needs no key
	made := map[aSig]*protos.SignatureInfo{}
	mk := func(s aSig) (si *protos.SignatureInfo, err error) {
		if prev, ok := made[s]; ok {
			return proto.Clone(prev).(*protos.SignatureInfo), nil
		}
		defer func() {
			if err == nil {
				made[s] = si
			}
		}()
		pk, ok := w.key[s.Pk]
		if !ok {
			return &protos.SignatureInfo{PublicKey: "{not a key}", Sign: []byte{1}}, nil
		}
		by := s.By
		if by == "junk" {
			by = s.Pk
		}
		sg, err := fx.Crypto.SignECDSA(w.priv(by), dg(s.Dg))
		if err != nil {
			return nil, err
		}
		if s.By == "junk" {
			sg = flipByte(sg)
		}
		return &protos.SignatureInfo{PublicKey: pk.PubStr, Sign: sg}, nil
	}
	for _, s := range t.Isigs {
		si, err := mk(s)
		if err != nil {
			return nil, err
		}
		tx.InitiatorSigns = append(tx.InitiatorSigns, si)
	}
	for _, s := range t.Asigs {
		si, err := mk(s)
		if err != nil {
			return nil, err
		}
		tx.AuthRequireSigns = append(tx.AuthRequireSigns, si)
	}
	if t.Xs.On {
		xs := &pb.XuperSignature{}
		pubs := []*ecdsa.PublicKey{}
		for _, p := range t.Xs.Pks {
			xs.PublicKeys = append(xs.PublicKeys, []byte(w.key[p].PubStr))
			pubs = append(pubs, &w.key[p].Priv.PublicKey)
		}
		d := dg(t.Xs.Dg)
		var err error
		ext, okExt := fx.Crypto.(extSigner)
		if !okExt {
			return nil, fmt.Errorf("the crypto client does not offer the unified signature schemes")
		}
		switch t.Xs.Kind {
		case "agg":
			privs := []*ecdsa.PrivateKey{}
			for _, b := range t.Xs.By {
				privs = append(privs, w.priv(b))
			}
			xs.Signature, err = fx.Crypto.MultiSign(privs, d)
		case "ecdsa":
			xs.Signature, err = fx.Crypto.SignECDSA(w.priv(t.Xs.By[0]), d)
		case "xecdsa":
			xs.Signature, err = ext.SignV2ECDSA(w.priv(t.Xs.By[0]), d)
		case "schnorr":
			xs.Signature, err = ext.SignSchnorr(w.priv(t.Xs.By[0]), d)
		case "ring":
			others := []*ecdsa.PublicKey{} // the ring is the signer's key plus these
			for _, p := range t.Xs.Pks {
				if p != t.Xs.By[0] {
					others = append(others, &w.key[p].Priv.PublicKey)
				}
			}
			xs.Signature, err = ext.SignSchnorrRing(others, w.priv(t.Xs.By[0]), d)
		case "junk":
			xs.Signature = []byte("junk")
		case "empty":
		default:
			err = fmt.Errorf("unknown XuperSign kind %q", t.Xs.Kind)
		}
		if err != nil {
			return nil, fmt.Errorf("XuperSign %s: %v", t.Xs.Kind, err)
		}
		tx.XuperSign = xs
	}
	if t.Id == "stale" {
		other.InitiatorSigns, other.AuthRequireSigns, other.XuperSign = tx.InitiatorSigns, tx.AuthRequireSigns, tx.XuperSign
		tx.Txid, err = txhash.MakeTransactionID(other)
	} else {
		tx.Txid, err = txhash.MakeTransactionID(tx)
	}
	return tx, err
}

// wire sends the transaction through the protobuf wire format, as validatePostTx does with everything
// that arrives at the node (empty byte slices and empty lists become nil).
func wire(tx *pb.Transaction) (*pb.Transaction, error) {
	b, err := proto.Marshal(tx)
	if err != nil {
		return nil, err
	}
	out := &pb.Transaction{}
	if err := proto.Unmarshal(b, out); err != nil {
		return nil, err
	}
	return out, nil
}

// verdict calls the real State.VerifyTx. Classes: "ok" (true, nil), "rej" (an error), "soft" (false without
// error: Chain.SubmitTx and verifyDAGTxs only look at the error). A panic is recorded as a rejection.
func (w *world) verdict(tx *pb.Transaction, st *stats) (res string, why string) {
	defer func() {
		if r := recover(); r != nil {
			st.Panics++
			res, why = "rej", fmt.Sprint("panic: ", r)
		}
	}()
	wtx, err := wire(tx)
	if err != nil {
		return "rej", "wire: " + err.Error()
	}
	ok, err := w.node.State.VerifyTx(wtx)
	switch {
	case err != nil:
		return "rej", err.Error()
	case ok:
		return "ok", ""
	default:
		return "soft", ""
	}
}

type stats struct {
	Cases     int            `json:"cases"`
	Muts      int            `json:"mutations"`
	MutsNA    int            `json:"mutations_not_applicable"`
	Panics    int            `json:"panics"`
	ByForm    map[string]int `json:"by_form"`
	ByRes     map[string]int `json:"by_res"`
	HonestOK  int            `json:"honest_accepted"`
	MutRes    map[string]int `json:"mut_res"`
	MutByVar  map[string]int `json:"mut_by_var"`
	Touched   map[string]int `json:"touched"`
	Why       map[string]int `json:"why"`
	Fam       map[string]int `json:"families"`
	Sub       map[string]int `json:"submit"`
	Blk       int            `json:"block_ops"`
	BlkBy     map[string]int `json:"block_by"`
	Schema    int            `json:"schema_fields"`
	GramToks  int            `json:"gram_tok_lines"`
	GramRefs  int            `json:"gram_ref_lines"`
	GramPairs int            `json:"gram_pair_lines"`
	PairsEq   int            `json:"gram_pairs_equal_digest"`
}

func newStats() *stats {
	return &stats{ByForm: map[string]int{}, ByRes: map[string]int{}, MutRes: map[string]int{}, MutByVar: map[string]int{},
		Touched: map[string]int{}, Why: map[string]int{}, Fam: map[string]int{}, Sub: map[string]int{}, BlkBy: map[string]int{}}
}

func (s *stats) print() {
	b, _ := json.Marshal(s)
	fmt.Println(string(b))
}
