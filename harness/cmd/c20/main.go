// Command c20 is the Go side of check C20 (p2p codec and dispatcher). Every sub-command executes
// abstract cases / programs produced by TLC (spec/P2P.tla) against the real package
// kernel/network/p2p and records what happened as ndjson. It never decides whether a result is
// right: spec/Trace_P2P.tla does.
//
//	c20 codec     -in codec_cases.json -out trace.ndjson [-large N] [-seeded N] [-patterns N]
//	c20 resp      -out trace.ndjson
//	c20 disp-seq  -in <dir of behaviours> -out trace.ndjson
//	c20 disp-conc -in <dir of behaviours> -out trace.ndjson -mode gated|free [-reps N]
package main

import (
	"bufio"
	"encoding/json"
	"fmt"
	"os"
	"strconv"

	xconf "github.com/xuperchain/xupercore/kernel/common/xconfig"
	xctx "github.com/xuperchain/xupercore/kernel/common/xcontext"
	nctx "github.com/xuperchain/xupercore/kernel/network/context"
	"github.com/xuperchain/xupercore/lib/logs"
	"github.com/xuperchain/xupercore/lib/timer"

	"verif/harness/fx"
)

func seed() int64 {
	s, err := strconv.ParseInt(os.Getenv("VERIF_SEED"), 10, 64)
	if err != nil {
		return 1
	}
	return s
}

// netCtx builds the context object the p2p package wants (logger, env conf) without reading any
// configuration file of the repository.
func netCtx() *nctx.NetCtx {
	log, err := logs.NewLogger("", "c20")
	if err != nil {
		panic(err)
	}
	ctx := new(nctx.NetCtx)
	ctx.BaseCtx = xctx.BaseCtx{XLog: log, Timer: timer.NewXTimer()}
	ctx.EnvCfg = &xconf.EnvConf{MetricSwitch: false}
	return ctx
}

// ndw is an ndjson writer that can be flushed after every round.
type ndw struct {
	f *os.File
	w *bufio.Writer
}

func newNdw(path string) (*ndw, error) {
	f, err := os.Create(path)
	if err != nil {
		return nil, err
	}
	return &ndw{f: f, w: bufio.NewWriterSize(f, 1<<20)}, nil
}
func (t *ndw) Emit(e interface{}) {
	b, err := json.Marshal(e)
	if err != nil {
		panic(err)
	}
	t.w.Write(b)
	t.w.WriteByte('\n')
}
func (t *ndw) Flush() { t.w.Flush() }
func (t *ndw) Close() { t.w.Flush(); t.f.Close() }

func stats(m map[string]interface{}) {
	b, _ := json.Marshal(m)
	fmt.Println(string(b))
}

func main() {
	subs := map[string]func([]string) error{
		"codec":     codecMain,
		"resp":      respMain,
		"disp-seq":  dispSeqMain,
		"disp-conc": dispConcMain,
	}
	if len(os.Args) < 2 || subs[os.Args[1]] == nil {
		fmt.Fprintln(os.Stderr, "usage: c20 codec|resp|disp-seq|disp-conc [flags]")
		os.Exit(64)
	}
	work := os.Getenv("VERIF_WORK")
	if work == "" {
		var err error
		work, err = os.MkdirTemp("", "c20")
		if err != nil {
			panic(err)
		}
		defer os.RemoveAll(work)
	}
	fx.Init(work)
	if err := subs[os.Args[1]](os.Args[2:]); err != nil {
		fmt.Fprintln(os.Stderr, "c20:", err)
		os.Exit(3)
	}
}
