package main

import (
	"encoding/json"
	"flag"
	"fmt"
	"io/ioutil"
	"math/rand"
	"runtime"
	"sort"
	"sync"

	"github.com/golang/protobuf/proto"
	"github.com/xuperchain/xupercore/kernel/network/def"
	"github.com/xuperchain/xupercore/kernel/network/p2p"
	pb "github.com/xuperchain/xupercore/protos"

	"verif/harness/fx"
)

// ---------------------------------------------------------------------------------------------
// codec: every abstract case (message, corruption kind) enumerated by TLC is instantiated on the
// real NewMessage / Unmarshal / VerifyChecksum. A corruption kind stands for MANY concrete
// corruptions of the encoded payload (Data.MsgInfo as it travels):
//   bit   : every single-bit flip (payloads up to smallBits bits), else first, last and seeded bits
//   burst : every start position x every length 2..32 x {all bits, end points only, seeded interior
//           patterns} (small payloads), else seeded (position, length, pattern) triples + the edges
// ---------------------------------------------------------------------------------------------

type codecMsg struct {
	Typ  int      `json:"typ"`
	Opts []string `json:"opts"`
	Comp bool     `json:"comp"`
	Tr   string   `json:"tr"`
	Pc   string   `json:"pc"`
}

type codecCase struct {
	M codecMsg `json:"m"`
	K string   `json:"k"`
}

type codecCfg struct {
	seed      int64
	large     int // bytes of the "large" payload
	seeded    int // seeded corruptions per large case
	patterns  int // seeded interior patterns per (position, length) of a small payload
	smallBits int
}

func has(opts []string, o string) bool {
	for _, x := range opts {
		if x == o {
			return true
		}
	}
	return false
}

// payload returns the application message of a payload class (deterministic given seed and class).
func payload(cfg *codecCfg, pc string, variant int) *pb.XuperMessage_MessageData {
	r := rand.New(rand.NewSource(cfg.seed*1000003 + int64(variant)*7919 + int64(len(pc))))
	switch pc {
	case "empty":
		return &pb.XuperMessage_MessageData{}
	case "small":
		b := make([]byte, 8+r.Intn(17))
		r.Read(b)
		return &pb.XuperMessage_MessageData{MsgInfo: b}
	case "incompressible":
		b := make([]byte, 1024+r.Intn(2048))
		r.Read(b)
		return &pb.XuperMessage_MessageData{MsgInfo: b}
	default: // large: compressible text with random stretches
		b := make([]byte, 0, cfg.large)
		for len(b) < cfg.large {
			if r.Intn(4) == 0 {
				x := make([]byte, 64+r.Intn(512))
				r.Read(x)
				b = append(b, x...)
			} else {
				b = append(b, []byte(fmt.Sprintf("block-%06d:tx-payload-abcdefghijklmnopqrstuvwxyz;", r.Intn(1000)))...)
			}
		}
		return &pb.XuperMessage_MessageData{MsgInfo: b[:cfg.large]}
	}
}

type hdrWant struct {
	bc, logid, ver, from string
	errt                 pb.XuperMessage_ErrorType
}

// build is the sender: p2p.NewMessage with the options of the case; comp = false is a sender that
// does not compress (older peers): same header, raw payload, checksum by the real p2p.Checksum.
func build(cfg *codecCfg, c *codecMsg, in proto.Message, n int) (*pb.XuperMessage, hdrWant) {
	want := hdrWant{bc: def.BlockChain, ver: p2p.MessageVersion3, errt: pb.XuperMessage_NONE}
	opts := []p2p.MessageOption{}
	if has(c.Opts, "bc") {
		want.bc = fmt.Sprintf("chain%d", cfg.seed)
		opts = append(opts, p2p.WithBCName(want.bc))
	}
	if has(c.Opts, "logid") {
		want.logid = fmt.Sprintf("logid-%d-%d", cfg.seed, n)
		opts = append(opts, p2p.WithLogId(want.logid))
	}
	if has(c.Opts, "ver") {
		want.ver = []string{p2p.MessageVersion1, p2p.MessageVersion2}[int(cfg.seed)%2]
		opts = append(opts, p2p.WithVersion(want.ver))
	}
	if has(c.Opts, "err") {
		want.errt = pb.XuperMessage_ErrorType(2 + int(cfg.seed)%10)
		opts = append(opts, p2p.WithErrorType(want.errt))
	}
	typ := pb.XuperMessage_MessageType(c.Typ)
	var msg *pb.XuperMessage
	if c.Comp {
		msg = p2p.NewMessage(typ, in, opts...)
	} else {
		msg = p2p.NewMessage(typ, nil, opts...)
		raw, _ := proto.Marshal(in)
		msg.Data.MsgInfo = raw
		msg.Header.EnableCompress = false
		msg.Header.DataCheckSum = p2p.Checksum(msg)
	}
	if has(c.Opts, "from") { // the transport stamps the sender id after the message was built
		want.from = fmt.Sprintf("peer%d", cfg.seed)
		msg.Header.From = want.from
	}
	return msg, want
}

// transport hands the message to the receiver: the object itself or its protobuf wire form.
func transport(c *codecMsg, msg *pb.XuperMessage) (*pb.XuperMessage, error) {
	if c.Tr == "mem" {
		return msg, nil
	}
	w, err := proto.Marshal(msg)
	if err != nil {
		return nil, err
	}
	rx := &pb.XuperMessage{}
	if err := proto.Unmarshal(w, rx); err != nil {
		return nil, err
	}
	return rx, nil
}

func errClass(err error) string {
	switch err {
	case nil:
		return ""
	case p2p.ErrMessageChecksum:
		return "checksum"
	case p2p.ErrMessageDecompress:
		return "decompress"
	case p2p.ErrMessageUnmarshal:
		return "unmarshal"
	}
	return "other"
}

func flipBit(b []byte, pos int) { b[pos>>3] ^= 1 << uint(pos&7) }

// applyBurst flips bit p, bit p+l-1 and the interior bits selected by pat (bit i of pat <-> p+1+i).
func applyBurst(b []byte, p, l int, pat uint32) {
	flipBit(b, p)
	if l > 1 {
		flipBit(b, p+l-1)
	}
	for i := 0; i < l-2; i++ {
		if pat&(1<<uint(i)) != 0 {
			flipBit(b, p+1+i)
		}
	}
}

func runCodecCase(cfg *codecCfg, idx int, cs *codecCase) fx.Ev {
	c := &cs.M
	in := payload(cfg, c.Pc, idx%3)
	msg, want := build(cfg, c, in, idx)
	ev := fx.Ev{"op": "codec", "tr": idx, "i": idx, "m": c, "k": cs.K, "dec": "", "vc": false, "hdr": false,
		"tried": 0, "delivered": 0, "vcpass": 0, "err": "", "n": len(msg.GetData().GetMsgInfo())}
	if c.Opts == nil {
		c.Opts = []string{}
	}
	rx, err := transport(c, msg)
	if err != nil {
		ev["dec"], ev["err"] = "error", "transport"
		return ev
	}
	if cs.K == "none" {
		out := &pb.XuperMessage_MessageData{}
		err := p2p.Unmarshal(rx, out)
		switch {
		case err != nil:
			ev["dec"], ev["err"] = "error", errClass(err)
		case proto.Equal(in, out):
			ev["dec"] = "same"
		default:
			ev["dec"] = "diff"
		}
		ev["vc"] = p2p.VerifyChecksum(rx)
		h := rx.GetHeader()
		ev["hdr"] = int(h.GetType()) == c.Typ && h.GetBcname() == want.bc && h.GetVersion() == want.ver &&
			h.GetErrorType() == want.errt && h.GetFrom() == want.from &&
			((want.logid != "" && h.GetLogid() == want.logid) || (want.logid == "" && h.GetLogid() != ""))
		ev["tried"] = 1
		return ev
	}
	// corruptions of the encoded payload as it arrived
	orig := rx.Data.MsgInfo
	buf := make([]byte, len(orig))
	copy(buf, orig)
	rx.Data.MsgInfo = buf
	nbits := len(buf) * 8
	r := rand.New(rand.NewSource(cfg.seed*7_000_003 + int64(idx)))
	tried, delivered, vcpass := 0, 0, 0
	var first interface{}
	try := func(p, l int, pat uint32) {
		// one undetected corruption refutes the case; after a few of them the rest of the case is not tried (decoding
		// undetected garbage can allocate gigabytes per attempt: the driver has to survive the code it judges)
		if delivered+vcpass >= 8 {
			return
		}
		applyBurst(buf, p, l, pat)
		tried++
		bad := false
		if p2p.VerifyChecksum(rx) {
			vcpass++
			bad = true
		}
		out := &pb.XuperMessage_MessageData{}
		if err := p2p.Unmarshal(rx, out); err == nil {
			delivered++
			bad = true
		}
		if bad && first == nil {
			first = map[string]interface{}{"pos": p, "len": l, "pat": pat}
		}
		applyBurst(buf, p, l, pat) // undo
	}
	small := nbits <= cfg.smallBits
	switch cs.K {
	case "bit":
		if small {
			for p := 0; p < nbits; p++ {
				try(p, 1, 0)
			}
		} else {
			try(0, 1, 0)
			try(nbits-1, 1, 0)
			for i := 0; i < cfg.seeded; i++ {
				try(r.Intn(nbits), 1, 0)
			}
		}
	case "burst":
		if small {
			for l := 2; l <= 32 && l <= nbits; l++ {
				for p := 0; p+l <= nbits; p++ {
					try(p, l, 0xffffffff)
					if l > 2 {
						try(p, l, 0)
						for k := 0; k < cfg.patterns; k++ {
							try(p, l, r.Uint32())
						}
					}
				}
			}
		} else {
			for _, l := range []int{2, 31, 32} {
				try(0, l, 0xffffffff)
				try(nbits-l, l, 0xffffffff)
				try(nbits-l, l, 0)
			}
			for i := 0; i < cfg.seeded; i++ {
				l := 2 + r.Intn(31)
				try(r.Intn(nbits-l+1), l, r.Uint32())
			}
		}
	}
	ev["tried"], ev["delivered"], ev["vcpass"] = tried, delivered, vcpass
	if first != nil {
		ev["first"] = first
	}
	return ev
}

func codecMain(args []string) error {
	fs := flag.NewFlagSet("codec", flag.ExitOnError)
	in := fs.String("in", "", "codec_cases.json written by TLC")
	out := fs.String("out", "", "ndjson trace")
	large := fs.Int("large", 65536, "bytes of a large payload")
	seeded := fs.Int("seeded", 64, "seeded corruptions per large case")
	patterns := fs.Int("patterns", 1, "seeded interior patterns per (position, length) of a small payload")
	only := fs.Int("only", -1, "run only this case index (replay)")
	fs.Parse(args)
	b, err := ioutil.ReadFile(*in)
	if err != nil {
		return err
	}
	var cases []codecCase
	if err := json.Unmarshal(b, &cases); err != nil {
		return err
	}
	// canonical order independent of TLC's set enumeration
	key := func(c *codecCase) string {
		o := append([]string{}, c.M.Opts...)
		sort.Strings(o)
		return fmt.Sprintf("%s|%02d|%v|%v|%s|%s", c.M.Pc, c.M.Typ, o, c.M.Comp, c.M.Tr, c.K)
	}
	sort.Slice(cases, func(i, j int) bool { return key(&cases[i]) < key(&cases[j]) })
	cfg := &codecCfg{seed: seed(), large: *large, seeded: *seeded, patterns: *patterns, smallBits: 512}
	res := make([]fx.Ev, len(cases))
	var wg sync.WaitGroup
	nw := runtime.GOMAXPROCS(0)
	if nw > 8 {
		nw = 8
	}
	for w := 0; w < nw; w++ {
		wg.Add(1)
		go func(w int) {
			defer wg.Done()
			for i := w; i < len(cases); i += nw {
				if *only >= 0 && i != *only {
					continue
				}
				res[i] = runCodecCase(cfg, i, &cases[i])
			}
		}(w)
	}
	wg.Wait()
	tw, err := fx.NewTraceWriter(*out)
	if err != nil {
		return err
	}
	st := map[string]interface{}{}
	cnt := func(k string, n int) {
		v, _ := st[k].(int)
		st[k] = v + n
	}
	for _, ev := range res {
		if ev == nil {
			continue
		}
		tw.Emit(ev)
		cnt("cases", 1)
		if ev["k"] == "none" {
			cnt("roundtrips", 1)
			if ev["dec"] == "same" {
				cnt("roundtrips_same", 1)
			}
		} else {
			cnt("corruptions_tried", ev["tried"].(int))
			cnt("corruptions_detected", ev["tried"].(int)-ev["delivered"].(int))
			cnt("corruptions_delivered", ev["delivered"].(int))
			cnt("corruptions_vcpass", ev["vcpass"].(int))
		}
	}
	tw.Close()
	stats(st)
	return nil
}

// resp: the request -> response type map, for every member of the MessageType enum.
func respMain(args []string) error {
	fs := flag.NewFlagSet("resp", flag.ExitOnError)
	out := fs.String("out", "", "ndjson trace")
	fs.Parse(args)
	tw, err := fx.NewTraceWriter(*out)
	if err != nil {
		return err
	}
	vals := []int{}
	for v := range pb.XuperMessage_MessageType_name {
		vals = append(vals, int(v))
	}
	sort.Ints(vals)
	n := 0
	for i, v := range vals {
		name := pb.XuperMessage_MessageType_name[int32(v)]
		_, hasres := pb.XuperMessage_MessageType_value[name+"_RES"]
		resp := p2p.GetRespMessageType(pb.XuperMessage_MessageType(v)).String()
		tw.Emit(fx.Ev{"op": "resp", "tr": 0, "i": i, "name": name, "hasres": hasres, "resp": resp})
		if hasres {
			n++
		}
	}
	tw.Close()
	stats(map[string]interface{}{"types": len(vals), "requests": n})
	return nil
}
