package main

import (
	"fmt"
	"math/big"
	"os"

	"github.com/xuperchain/xupercore/bcs/ledger/xledger/state/utxo/txhash"
	"github.com/xuperchain/xupercore/bcs/ledger/xledger/state/xmodel"
	pb "github.com/xuperchain/xupercore/bcs/ledger/xledger/xldgpb"
	"github.com/xuperchain/xupercore/kernel/contract"
	"github.com/xuperchain/xupercore/kernel/contract/sandbox"
	"github.com/xuperchain/xupercore/protos"

	"verif/harness/fx"
)

var cnt int

func setTx(n *fx.Node, bucket, key string, val []byte) {
	r := n.State.CreateXMReader()
	vd, err := r.Get(bucket, []byte(key))
	if err != nil {
		panic(err)
	}
	cnt++
	tx := &pb.Transaction{Version: 1, Nonce: fmt.Sprint(cnt), Timestamp: int64(cnt), Desc: []byte("setup")}
	tx.TxInputsExt = []*protos.TxInputExt{{Bucket: bucket, Key: []byte(key), RefTxid: vd.RefTxid, RefOffset: vd.RefOffset}}
	tx.TxOutputsExt = []*protos.TxOutputExt{{Bucket: bucket, Key: []byte(key), Value: val}}
	tx.Txid, _ = txhash.MakeTransactionID(tx)
	if err := n.State.DoTx(tx); err != nil {
		panic(err)
	}
}

func scan(sb contract.StateSandbox, b string, lo, hi []byte, n int) (s string) {
	defer func() {
		if r := recover(); r != nil {
			s = fmt.Sprint("PANIC ", r)
		}
	}()
	it, err := sb.Select(b, lo, hi)
	if err != nil {
		return "ERR " + err.Error()
	}
	for i := 0; i < n && it.Next(); i++ {
		s += fmt.Sprintf("(%s=%q)", it.Key(), it.Value())
	}
	if it.Error() != nil {
		s += " ITERERR " + it.Error().Error()
	}
	it.Close()
	return s
}

func rw(sb contract.StateSandbox) string {
	s := "R:"
	r := sb.RWSet()
	for _, x := range r.RSet {
		s += fmt.Sprintf(" %s/%s@%s", x.PureData.Bucket, x.PureData.Key, xmodel.GetVersion(x))
		if len(x.PureData.Value) > 0 {
			s += fmt.Sprintf("=%q", x.PureData.Value)
		}
	}
	s += " W:"
	for _, x := range r.WSet {
		s += fmt.Sprintf(" %s/%s=%q", x.Bucket, x.Key, x.Value)
	}
	return s
}

func main() {
	work, _ := os.MkdirTemp("/verif/.work/c10dev", "probe")
	defer os.RemoveAll(work)
	fx.Init(work)
	g := fx.Genesis(fx.GenesisOpts{Predist: map[string]string{"a": "1000"}, Award: "1"})
	n, err := fx.NewNode("c10", g)
	if err != nil {
		panic(err)
	}
	// backing: b1: k1 live, k2 deleted, k3 never, k4 live
	setTx(n, "b1", "k1", []byte("o1"))
	setTx(n, "b1", "k2", []byte("o2"))
	setTx(n, "b1", "k2", []byte(sandbox.DelFlag))
	setTx(n, "b1", "k4", []byte("o4"))
	setTx(n, "b1", "k5", []byte(sandbox.DelFlag)) // delete of a never-written key
	newSB := func() contract.StateSandbox {
		sb, err := n.Contract.NewStateSandbox(&contract.SandboxConfig{XMReader: n.State.CreateXMReader(), UTXOReader: n.State.CreateUtxoReader()})
		if err != nil {
			panic(err)
		}
		return sb
	}
	sb := newSB()
	for _, k := range []string{"k1", "k2", "k3", "k4", "k5"} {
		v, err := sb.Get("b1", []byte(k))
		fmt.Printf("get %s -> %q %v\n", k, v, err)
	}
	fmt.Println(rw(sb))
	fmt.Println("scan after reads:", scan(sb, "b1", []byte("k1"), []byte("k9"), 9))

	sb = newSB()
	fmt.Println("fresh scan:", scan(sb, "b1", []byte("k1"), []byte("k9"), 9), rw(sb))
	sb = newSB()
	fmt.Println("fresh scan n=0:", scan(sb, "b1", []byte("k1"), []byte("k9"), 0), rw(sb))
	sb = newSB()
	fmt.Println("fresh scan n=1:", scan(sb, "b1", []byte("k1"), []byte("k9"), 1), rw(sb))
	sb = newSB()
	sb.Del("b1", []byte("k1"))
	fmt.Println("del k1; scan:", scan(sb, "b1", []byte("k1"), []byte("k9"), 9), rw(sb))
	v, err := sb.Get("b1", []byte("k1"))
	fmt.Printf("get after del -> %q %v\n", v, err)
	sb.Put("b1", []byte("k1"), []byte("p"))
	v, err = sb.Get("b1", []byte("k1"))
	fmt.Printf("get after del,put -> %q %v\n", v, err)
	// bounds
	sb = newSB()
	fmt.Println("inverted:", scan(sb, "b1", []byte("k4"), []byte("k1"), 9))
	sb = newSB()
	fmt.Println("equal:", scan(sb, "b1", []byte("k1"), []byte("k1"), 9))
	sb = newSB()
	fmt.Println("nil,nil:", scan(sb, "b1", nil, nil, 9))
	sb = newSB()
	fmt.Println("k1,nil:", scan(sb, "b1", []byte("k1"), nil, 9))
	sb = newSB()
	fmt.Println("nil,k9:", scan(sb, "b1", nil, []byte("k9"), 9))
	sb = newSB()
	fmt.Println("empty,empty:", scan(sb, "b1", []byte{}, []byte{}, 9))
	// replay reader
	sb = newSB()
	sb.Get("b1", []byte("k1"))
	sb.Get("b1", []byte("k3"))
	sb.Get("b1", []byte("k2"))
	r1 := sb.RWSet()
	sb2, _ := n.Contract.NewStateSandbox(&contract.SandboxConfig{XMReader: sandbox.XMReaderFromRWSet(r1), UTXOReader: sandbox.NewUTXOReaderFromInput(nil)})
	fmt.Println("replay fresh scan:", scan(sb2, "b1", []byte("k1"), []byte("k9"), 9), rw(sb2))
	fmt.Println("replay nil,nil:", scan(sb2, "b1", nil, nil, 9))
	v, err = sb2.Get("b1", []byte("k4"))
	fmt.Printf("replay get k4 (not in rset) -> %q %v\n", v, err)
	// transient
	sb = newSB()
	v, err = sb.Get(sandbox.TransientBucket, []byte("t1"))
	fmt.Printf("get transient -> %q %v; %s\n", v, err, rw(sb))
	sb.Put(sandbox.TransientBucket, []byte("t1"), []byte("p"))
	fmt.Println("transient scan:", scan(sb, sandbox.TransientBucket, []byte("t1"), []byte("t9"), 9), rw(sb))
	// transfer
	sb = newSB()
	a := fx.GetKey("a").Address
	err = sb.Transfer(a, "bob", big.NewInt(30))
	fmt.Println("transfer:", err)
	err = sb.Transfer(a, "bob", big.NewInt(30))
	fmt.Println("transfer2:", err)
	err = sb.Transfer(a, "bob", big.NewInt(0))
	fmt.Println("transfer0:", err)
	u := sb.UTXORWSet()
	fmt.Println(len(u.Rset), len(u.WSet))
	fmt.Println("flush:", sb.Flush(), rw(sb))
}
