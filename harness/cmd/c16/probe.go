package main

import (
	"encoding/json"
	"fmt"
	"math/big"
	"runtime"
	"time"

	"github.com/xuperchain/xupercore/bcs/consensus/pow"
	"github.com/xuperchain/xupercore/bcs/consensus/tdpos"
	"github.com/xuperchain/xupercore/bcs/consensus/xpoa"
)

// probe: minimal reproductions of the C16 findings against the real code (prints what happens;
// the verdicts are the TLA+ trace specifications', see /verif/findings/C16.md).
func init() { register("probe", "minimal reproductions of the C16 candidate findings", probe) }

func tdposConf(period, blockNum, n, alt, termInt int, initNs int64) string {
	vals := []string{}
	for i := 1; i <= n; i++ {
		vals = append(vals, valKey(i).Address)
	}
	m := map[string]interface{}{
		"timestamp": fmt.Sprint(initNs), "proposer_num": fmt.Sprint(n), "period": fmt.Sprint(period),
		"alternate_interval": fmt.Sprint(alt), "term_interval": fmt.Sprint(termInt), "block_num": fmt.Sprint(blockNum),
		"vote_unit_price": "1", "init_proposer": map[string][]string{"1": vals},
	}
	b, _ := json.Marshal(m)
	return string(b)
}

func xpoaConf(period, blockNum, n int) string {
	vals := []string{}
	for i := 1; i <= n; i++ {
		vals = append(vals, valKey(i).Address)
	}
	m := map[string]interface{}{"period": period, "block_num": blockNum, "init_proposer": map[string][]string{"address": vals}}
	b, _ := json.Marshal(m)
	return string(b)
}

func probe(args []string) error {
	// 1. tdpos: a timestamp before init_timestamp
	{
		l := newStubLedger(0)
		ctx := newCtx(l, valKey(1))
		conf := tdposConf(3000, 20, 2, 3000, 6000, 1559021720000000000)
		c := tdpos.NewTdposConsensus(ctx, consCfg("tdpos", conf))
		if c == nil {
			return fmt.Errorf("tdpos not constructed")
		}
		for _, ts := range []int64{0, 1559021719999999999, 1559021720000000000} {
			t, p, b, _ := tdpos.VerifMinerScheduling(c, ts)
			for v := 1; v <= 2; v++ {
				cb := &blk{Proposer: valKey(v).Address, Height: 2, Blockid: []byte("x"), Timestamp: ts, Storage: []byte("{}"), PreHash: l.tip().Blockid}
				fmt.Printf("tdpos ts=%d sched=(%d,%d,%d) candidate validator %d -> %s\n", ts, t, p, b, v, checkClass(c, &ctx, cb))
			}
		}
	}
	// 2. xpoa: negative timestamps
	{
		l := newStubLedger(0)
		ctx := newCtx(l, valKey(1))
		c := xpoa.NewXpoaConsensus(ctx, consCfg("xpoa", xpoaConf(3000, 10, 2)))
		if c == nil {
			return fmt.Errorf("xpoa not constructed")
		}
		for _, ms := range []int64{-1, -29999, -30000, -30001, -60000, 0} {
			ts := ms * 1000000
			t, p, b, _ := xpoa.VerifMinerScheduling(c, ts, 2)
			for v := 0; v <= 2; v++ {
				addr := ""
				if v > 0 {
					addr = valKey(v).Address
				}
				cb := &blk{Proposer: addr, Height: 2, Blockid: []byte("x"), Timestamp: ts, Storage: nil, PreHash: l.tip().Blockid}
				fmt.Printf("xpoa T=%dms sched=(%d,%d,%d) candidate validator %d -> %s\n", ms, t, p, b, v, checkClass(c, &ctx, cb))
			}
		}
	}
	// 3. pow: the target used after a retarget
	{
		l := newStubLedger(0)
		ctx := newCtx(l, valKey(1))
		conf := `{"defaultTarget":"` + fmt.Sprint(0x1f00ffff) + `","adjustHeightGap":"3","expectedPeriod":"8","maxTarget":"` + fmt.Sprint(0x1d00ffff) + `"}`
		c := pow.NewPoWConsensus(ctx, consCfg("pow", conf))
		if c == nil {
			return fmt.Errorf("pow not constructed")
		}
		for h := int64(1); h <= 13; h++ {
			_, st, err := c.ProcessBeforeMiner(0)
			if err != nil {
				return err
			}
			var s pow.PoWStorage
			json.Unmarshal(st, &s)
			tgt, _, _ := pow.SetCompact(s.TargetBits)
			id := new(big.Int).Sub(tgt, big.NewInt(h)).FillBytes(make([]byte, 32))
			b := &blk{Proposer: valKey(1).Address, Height: h, Blockid: id, Timestamp: l.tip().Timestamp + 1e9, Storage: st,
				PreHash: l.tip().Blockid, PublicKey: valKey(1).PubStr}
			b.Sign, _ = ctx.Crypto.SignECDSA(valKey(1).Priv, id)
			fmt.Printf("pow height %d: miner's target bits %#x, CheckMinerMatch -> %s\n", h, s.TargetBits, checkClass(c, &ctx, b))
			l.put(b)
		}
	}
	// 4. pow, legacy targets (defaultTarget <= 256): expectedPeriod*(gap-1) < 4 and two blocks with one timestamp
	{
		l := newStubLedger(0)
		ctx := newCtx(l, valKey(1))
		conf := `{"defaultTarget":"10","adjustHeightGap":"2","expectedPeriod":"2","maxTarget":"12"}`
		c := pow.NewPoWConsensus(ctx, consCfg("pow", conf))
		for h := int64(1); h <= 4; h++ {
			res := func() (r string) {
				defer func() {
					if e := recover(); e != nil {
						r = fmt.Sprint("panic: ", e)
					}
				}()
				_, st, err := c.ProcessBeforeMiner(0)
				if err != nil {
					return "error " + err.Error()
				}
				id := new(big.Int).Lsh(big.NewInt(1), 200)
				id.Sub(id, big.NewInt(h))
				l.put(&blk{Proposer: valKey(1).Address, Height: h, Blockid: id.FillBytes(make([]byte, 32)), Timestamp: 5e9, Storage: st, PreHash: l.tip().Blockid})
				return "storage " + string(st)
			}()
			fmt.Printf("pow legacy gap 2 period 2, equal timestamps, height %d: ProcessBeforeMiner -> %s\n", h, res)
		}
	}
	// 5. pow, legacy targets: a peer block declaring more than 256 target bits
	if len(args) > 0 && args[0] == "-big" {
		l := newStubLedger(0)
		ctx := newCtx(l, valKey(1))
		conf := `{"defaultTarget":"10","adjustHeightGap":"2","expectedPeriod":"15","maxTarget":"12"}`
		c := pow.NewPoWConsensus(ctx, consCfg("pow", conf))
		st, _ := json.Marshal(pow.PoWStorage{TargetBits: 300})
		b := &blk{Proposer: valKey(1).Address, Height: 1, Blockid: []byte{1}, Timestamp: 5e9, Storage: st, PreHash: l.tip().Blockid}
		var m0, m1 runtime.MemStats
		runtime.ReadMemStats(&m0)
		t0 := time.Now()
		r := checkClass(c, &ctx, b)
		runtime.ReadMemStats(&m1)
		fmt.Printf("pow legacy, declared targetBits 300: CheckMinerMatch -> %s after %v, %d MiB allocated\n", r, time.Since(t0).Round(time.Millisecond), (m1.TotalAlloc-m0.TotalAlloc)>>20)
	}
	// 6. tdpos: the validators of one term differ between the term's first block and its later blocks
	{
		base := schedCfg{Kind: "tdpos", Period: 3000, BlockNum: 2, N: 2, Alt: 3000, TermInt: 6000, Init: 0, U: 3, Start: 1}
		aux, err := newInstance(base, true, 2)
		if err != nil {
			return err
		}
		// the first millisecond of slot (term, 0, bp) according to the real schedule
		slot := func(term, bp int64) int64 {
			for ms := int64(0); ms < 200000; ms++ {
				t, p, b, _ := tdpos.VerifMinerScheduling(aux.c, tdposBase+ms*1000000)
				if t == term && p == 0 && b == bp {
					return ms * 1000000
				}
			}
			panic("slot not found")
		}
		// blocks 1..4 in the first slots of terms 1..4, block 5 is the first block of term 5; block 1 records the election
		// result (v2, v1), block 2 changes it to (v3, v1)
		rec := [][]int{{}, {2, 1}, {3, 1}, {3, 1}, {3, 1}, {3, 1}}
		bts := []int64{slot(1, 0), slot(2, 0), slot(3, 0), slot(4, 0), slot(5, 0)}
		for _, tip := range []int{4, 5} {
			c := base
			c.Rec, c.Bts, c.Hgt, c.NodeAt = rec[:tip+1], bts[:tip], int64(tip+1), tip
			in, err := newInstance(c, true, 2)
			if err != nil {
				return err
			}
			ts := slot(5, int64(tip-4))
			_, acc, _ := in.at(ts, 2)
			fmt.Printf("tdpos tip %d (term %d), candidate height %d in term 5 slot (pos 0, blockPos %d): validator 1 -> %s, 2 -> %s, 3 -> %s; node's own set after a restart on this tip: %v\n",
				tip, in.tipTerm, c.Hgt, tip-4, acc[1], acc[2], acc[3], short(in.node))
		}
		fmt.Printf("  (validator numbers: 1 = %s, 2 = %s, 3 = %s; election (2,1) as of block 1 = three below the tip 4 on which term 5 begins, (3,1) as of block 2)\n",
			valKey(1).Address[:6], valKey(2).Address[:6], valKey(3).Address[:6])
	}
	return nil
}

func short(a []string) []string {
	out := []string{}
	for _, x := range a {
		if len(x) > 6 {
			x = x[:6]
		}
		out = append(out, x)
	}
	return out
}
