package main

import (
	"errors"
	"fmt"

	"github.com/xuperchain/xupercore/kernel/consensus/base"
	cctx "github.com/xuperchain/xupercore/kernel/consensus/context"
	"github.com/xuperchain/xupercore/kernel/consensus/def"
	kmock "github.com/xuperchain/xupercore/kernel/consensus/mock"
	"github.com/xuperchain/xupercore/kernel/contract"
	"github.com/xuperchain/xupercore/kernel/ledger"
	"github.com/xuperchain/xupercore/kernel/network"
	"github.com/xuperchain/xupercore/lib/logs"
	pb "github.com/xuperchain/xupercore/protos"

	"verif/harness/fx"
)

// ---------------------------------------------------------------------------------------------
// A stub ledger, block and network: everything the consensus plugins ask of their environment
// (cctx.LedgerRely, ledger.BlockHandle, network.Network.PeerInfo), fully controlled by the driver.
// ---------------------------------------------------------------------------------------------

var errNoBlock = errors.New("block not found")

// blk is a candidate or stored block. MakeBlockId returns ComputedID (the "header hash"), Blockid
// is the id the block claims; the two differ only in the "id mismatch" candidates.
type blk struct {
	Proposer   string
	Height     int64
	Blockid    []byte
	ComputedID []byte
	Storage    []byte
	StorageErr error
	Timestamp  int64
	PublicKey  string
	Sign       []byte
	PreHash    []byte
}

func (b *blk) GetProposer() []byte                  { return []byte(b.Proposer) }
func (b *blk) GetHeight() int64                     { return b.Height }
func (b *blk) GetBlockid() []byte                   { return b.Blockid }
func (b *blk) GetConsensusStorage() ([]byte, error) { return b.Storage, b.StorageErr }
func (b *blk) GetTimestamp() int64                  { return b.Timestamp }
func (b *blk) SetItem(string, interface{}) error    { return errors.New("not supported") }
func (b *blk) GetPreHash() []byte                   { return b.PreHash }
func (b *blk) GetNextHash() []byte                  { return nil }
func (b *blk) GetPublicKey() string                 { return b.PublicKey }
func (b *blk) GetSign() []byte                      { return b.Sign }
func (b *blk) GetTxIDs() []string                   { return nil }
func (b *blk) GetInTrunk() bool                     { return true }
func (b *blk) MakeBlockId() ([]byte, error) {
	if b.ComputedID != nil {
		return b.ComputedID, nil
	}
	return b.Blockid, nil
}

// stubLedger is a linear main chain (height = index) plus side-branch blocks that are reachable by id only
// (QueryBlock), never by height. state holds, per block id, the contract storage as of that block (what a
// snapshot created at the block reads): bucket + "/" + key -> value.
type stubLedger struct {
	chain []*blk
	byID  map[string]*blk
	// side is the chain (heights 1..) that was the main chain before the last forkAtGenesis: a stored side branch
	side  []*blk
	conf  []byte
	state map[string]map[string][]byte
	// snapServed counts the snapshot reads that returned a recorded (non-empty) value
	snapServed int
}

func newStubLedger(genesisTs int64) *stubLedger {
	l := &stubLedger{byID: map[string]*blk{}}
	l.put(&blk{Height: 0, Blockid: []byte("verif-c16-genesis"), Timestamp: genesisTs, Storage: []byte{}})
	return l
}
func (l *stubLedger) put(b *blk) {
	l.chain = append(l.chain, b)
	l.byID[string(b.Blockid)] = b
}
func (l *stubLedger) tip() *blk { return l.chain[len(l.chain)-1] }

// forkAtGenesis makes the genesis block the tip again; the blocks stored so far stay known by id (they have become
// a side branch, kept in side), so that the next chain built is a fork.
func (l *stubLedger) forkAtGenesis() {
	l.side = append([]*blk{}, l.chain[1:]...)
	l.chain = l.chain[:1]
}

// putSide stores a block that is not on the main chain: known by id, invisible by height, never the tip.
func (l *stubLedger) putSide(b *blk) { l.byID[string(b.Blockid)] = b }

// genesis is the block every chain of this ledger starts from.
func (l *stubLedger) genesis() *blk                     { return l.chain[0] }
func (l *stubLedger) GetConsensusConf() ([]byte, error) { return l.conf, nil }
func (l *stubLedger) GetTipBlock() ledger.BlockHandle   { return l.tip() }
func (l *stubLedger) QueryBlock(id []byte) (ledger.BlockHandle, error) {
	if b, ok := l.byID[string(id)]; ok {
		return b, nil
	}
	return nil, errNoBlock
}
func (l *stubLedger) QueryBlockByHeight(h int64) (ledger.BlockHandle, error) {
	if h < 0 || h >= int64(len(l.chain)) {
		return nil, errNoBlock
	}
	return l.chain[h], nil
}

// putState records the contract storage as of block b (exactly the given entries: the walk's configuration
// says for every height what is recorded as of that block).
func (l *stubLedger) putState(b *blk, entries map[string][]byte) {
	if l.state == nil {
		l.state = map[string]map[string][]byte{}
	}
	l.state[string(b.Blockid)] = entries
}

// blockReader is the snapshot of the contract storage at one block, with the answers of the real
// xmodel snapshot (bcs/ledger/xledger/state/xmodel/xmodel_snapshot.go): a key that was never written
// reads as a versioned datum without a value, not as an error.
type blockReader struct {
	l  *stubLedger
	id string
}

func (r blockReader) Get(bucket string, key []byte) (*ledger.VersionedData, error) {
	v, ok := r.l.state[r.id][bucket+"/"+string(key)]
	if !ok || v == nil {
		return &ledger.VersionedData{PureData: &ledger.PureData{Bucket: bucket, Key: key}}, nil
	}
	r.l.snapServed++
	return &ledger.VersionedData{PureData: &ledger.PureData{Bucket: bucket, Key: key, Value: v},
		RefTxid: []byte("c16-tx-" + r.id)}, nil
}
func (blockReader) Select(string, []byte, []byte) (ledger.XMIterator, error) {
	return nil, errors.New("xmodel snapshot temporarily not supported select")
}

// tipReader is kernel/ledger.XMSnapshotReader over the tip (xmodel.NewXMSnapshotReader: PureData.Value).
type tipReader struct{ r blockReader }

func (t tipReader) Get(bucket string, key []byte) ([]byte, error) {
	v, err := t.r.Get(bucket, key)
	if err != nil {
		return nil, err
	}
	return v.PureData.Value, nil
}

func (l *stubLedger) GetTipXMSnapshotReader() (ledger.XMSnapshotReader, error) {
	return tipReader{blockReader{l, string(l.tip().Blockid)}}, nil
}
func (l *stubLedger) CreateSnapshot(id []byte) (ledger.XMReader, error) {
	if _, ok := l.byID[string(id)]; !ok {
		return nil, errNoBlock
	}
	return blockReader{l, string(id)}, nil
}
func (l *stubLedger) GetTipSnapshot() (ledger.XMReader, error) {
	return blockReader{l, string(l.tip().Blockid)}, nil
}

// stubNet answers PeerInfo only (the plugins without chained-bft use nothing else).
type stubNet struct {
	network.Network
	account string
}

func (n stubNet) PeerInfo() pb.PeerInfo { return pb.PeerInfo{Account: n.account} }

// newCtx builds a consensus context around a stub ledger; the local node is key `self`.
func newCtx(l *stubLedger, self *fx.Key) cctx.ConsensusCtx {
	lg, err := logs.NewLogger("", "c16")
	if err != nil {
		panic(err)
	}
	c := cctx.ConsensusCtx{
		BcName:   "xuper",
		Ledger:   l,
		Contract: &kmock.FakeManager{R: &kmock.FakeRegistry{M: map[string]contract.KernMethod{}}},
		Crypto:   fx.Crypto,
		Address: &cctx.Address{Address: self.Address, PrivateKeyStr: self.PrivStr, PublicKeyStr: self.PubStr,
			PrivateKey: self.Priv, PublicKey: &self.Priv.PublicKey},
		Network: stubNet{account: self.Address},
	}
	c.XLog = lg
	return c
}

func consCfg(name, conf string) def.ConsensusConfig { return consCfgAt(name, conf, 1) }

func consCfgAt(name, conf string, start int64) def.ConsensusConfig {
	return def.ConsensusConfig{ConsensusName: name, Config: conf, StartHeight: start, Index: 0}
}

// checkClass runs CheckMinerMatch and returns the result class: "ok", "rej" or "panic".
func checkClass(c base.ConsensusImplInterface, ctx *cctx.ConsensusCtx, b *blk) (class string) {
	defer func() {
		if r := recover(); r != nil {
			class = "panic"
		}
	}()
	ok, _ := c.CheckMinerMatch(&ctx.BaseCtx, b)
	if ok {
		return "ok"
	}
	return "rej"
}

func valKey(i int) *fx.Key { return fx.GetKey(fmt.Sprintf("c16-val-%d", i)) }
