// Command c16 is the Go side of property C16 (only the entitled producer's block is accepted):
// it evaluates the real slot schedules (tdpos, xpoa), the real CheckMinerMatch of tdpos / xpoa /
// single / pow and the real compact-target functions for cases enumerated by TLC and records what
// happened as ndjson. It never decides whether a result is right (spec/Trace_Schedule*.tla do).
package main

import (
	"encoding/json"
	"fmt"
	"os"
	"sort"

	"verif/harness/fx"
)

type driver struct {
	help string
	run  func(args []string) error
}

var drivers = map[string]driver{}

func register(name, help string, run func(args []string) error) { drivers[name] = driver{help, run} }

func main() {
	if len(os.Args) < 2 || drivers[os.Args[1]].run == nil {
		names := []string{}
		for n := range drivers {
			names = append(names, n)
		}
		sort.Strings(names)
		fmt.Fprintln(os.Stderr, "usage: c16 <driver> [flags]; drivers:")
		for _, n := range names {
			fmt.Fprintf(os.Stderr, "  %-14s %s\n", n, drivers[n].help)
		}
		os.Exit(64)
	}
	work := os.Getenv("VERIF_WORK")
	if work == "" {
		var err error
		work, err = os.MkdirTemp("", "c16")
		if err != nil {
			panic(err)
		}
		defer os.RemoveAll(work)
	}
	fx.Init(work)
	if err := drivers[os.Args[1]].run(os.Args[2:]); err != nil {
		fmt.Fprintln(os.Stderr, "c16:", err)
		os.Exit(3)
	}
}

// writeStats prints the exercise counters of a driver run and appends them to file (if given).
func writeStats(file string, st interface{}) error {
	b, err := json.Marshal(st)
	if err != nil {
		return err
	}
	if file != "" {
		f, err := os.OpenFile(file, os.O_APPEND|os.O_CREATE|os.O_WRONLY, 0o644)
		if err != nil {
			return err
		}
		defer f.Close()
		if _, err := f.Write(append(b, '\n')); err != nil {
			return err
		}
	}
	fmt.Println(string(b))
	return nil
}
