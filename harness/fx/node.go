package fx

import (
	"crypto/ecdsa"
	"encoding/json"
	"fmt"
	"io/ioutil"
	"os"
	"path/filepath"
	"sync"

	lconf "github.com/xuperchain/xupercore/bcs/ledger/xledger/config"
	"github.com/xuperchain/xupercore/bcs/ledger/xledger/def"
	"github.com/xuperchain/xupercore/bcs/ledger/xledger/ledger"
	"github.com/xuperchain/xupercore/bcs/ledger/xledger/state"
	sctxp "github.com/xuperchain/xupercore/bcs/ledger/xledger/state/context"
	txn "github.com/xuperchain/xupercore/bcs/ledger/xledger/tx"
	pb "github.com/xuperchain/xupercore/bcs/ledger/xledger/xldgpb"
	"github.com/xuperchain/xupercore/kernel/common/xaddress"
	xconf "github.com/xuperchain/xupercore/kernel/common/xconfig"
	"github.com/xuperchain/xupercore/kernel/contract"
	_ "github.com/xuperchain/xupercore/kernel/contract/kernel"
	_ "github.com/xuperchain/xupercore/kernel/contract/manager"
	governToken "github.com/xuperchain/xupercore/kernel/contract/proposal/govern_token"
	"github.com/xuperchain/xupercore/kernel/contract/proposal/propose"
	timerTask "github.com/xuperchain/xupercore/kernel/contract/proposal/timer"
	"github.com/xuperchain/xupercore/kernel/engines/xuperos/agent"
	"github.com/xuperchain/xupercore/kernel/engines/xuperos/common"
	"github.com/xuperchain/xupercore/kernel/permission/acl"
	aclBase "github.com/xuperchain/xupercore/kernel/permission/acl/base"
	actx "github.com/xuperchain/xupercore/kernel/permission/acl/context"
	cryptoClient "github.com/xuperchain/xupercore/lib/crypto/client"
	cryptoBase "github.com/xuperchain/xupercore/lib/crypto/client/base"
	"github.com/xuperchain/xupercore/lib/logs"
	"github.com/xuperchain/xupercore/lib/timer"
)

// BCName is the chain name used by every fixture node.
const BCName = "xuper"

var (
	workDir  string
	initOnce sync.Once
	// Crypto is the default crypto client shared by the harness.
	Crypto cryptoBase.CryptoClient
)

// Init prepares the per-process scratch root (log configuration) once. dir must be a scratch
// directory owned by the caller; only a small conf/ and logs/ directory are created below it.
func Init(dir string) {
	initOnce.Do(func() {
		workDir = dir
		conf := filepath.Join(dir, "conf")
		must(os.MkdirAll(conf, 0o755))
		level := os.Getenv("VERIF_LOGLEVEL") // diagnostics only
		if level == "" {
			level = "error"
		}
		must(ioutil.WriteFile(filepath.Join(conf, "log.yaml"),
			[]byte("module: xchain\nfilename: xchain\nfmt: logfmt\nconsole: false\nlevel: "+level+"\n"), 0o644))
		logs.InitLog(filepath.Join(conf, "log.yaml"), filepath.Join(dir, "logs"))
		c, err := cryptoClient.CreateCryptoClient(cryptoClient.CryptoTypeDefault)
		must(err)
		Crypto = c
	})
}

func must(err error) {
	if err != nil {
		panic(err)
	}
}

// Key is one deterministic account of the harness.
type Key struct {
	Name    string
	Priv    *ecdsa.PrivateKey
	PrivStr string
	PubStr  string
	Address string
}

var (
	keyMu sync.Mutex
	keys  = map[string]*Key{}
)

// GetKey returns the deterministic key pair for an abstract name.
func GetKey(name string) *Key {
	keyMu.Lock()
	defer keyMu.Unlock()
	if k, ok := keys[name]; ok {
		return k
	}
	seed := []byte("verif-harness-key-seed-0123456789abcdef-0123456789abcdef-" + name)
	for len(seed) < 64 {
		seed = append(seed, '#')
	}
	priv, err := Crypto.GenerateKeyBySeed(seed)
	must(err)
	ps, err := Crypto.GetEcdsaPrivateKeyJsonFormatStr(priv)
	must(err)
	pubs, err := Crypto.GetEcdsaPublicKeyJsonFormatStr(priv)
	must(err)
	addr, err := Crypto.GetAddressFromPublicKey(&priv.PublicKey)
	must(err)
	k := &Key{Name: name, Priv: priv, PrivStr: ps, PubStr: pubs, Address: addr}
	keys[name] = k
	return k
}

// GenesisOpts parametrises the genesis configuration of a fixture chain.
type GenesisOpts struct {
	Predist     map[string]string // abstract key name -> quota (decimal)
	PredistList []string          // order of predistribution (names); defaults to sorted keys of Predist
	Award       string
	Window      int
	Miner       string // abstract key name
	NoFee       bool
	NewAcctGas  int64
	MaxBlockMB  int
	NoDecay     bool // award_decay.height_gap = 0: CalcAward returns the configured award exactly (beyond 64 bit too)
	// a decaying award: multiplied by DecayNum / DecayDen every DecayGap blocks (DecayGap 0: the default, ratio 1)
	DecayGap, DecayNum, DecayDen int64
}

// Genesis renders the genesis JSON.
func Genesis(o GenesisOpts) []byte {
	type pd struct {
		Address string `json:"address"`
		Quota   string `json:"quota"`
	}
	names := o.PredistList
	if names == nil {
		for n := range o.Predist {
			names = append(names, n)
		}
		sortStrings(names)
	}
	pds := []pd{}
	for _, n := range names {
		pds = append(pds, pd{GetKey(n).Address, o.Predist[n]})
	}
	if o.Award == "" {
		o.Award = "1"
	}
	if o.Miner == "" {
		o.Miner = "m"
	}
	if o.MaxBlockMB == 0 {
		o.MaxBlockMB = 16
	}
	gap := int64(31536000)
	ratio := float64(1)
	if o.NoDecay {
		gap = 0
	}
	if o.DecayGap != 0 {
		gap, ratio = o.DecayGap, float64(o.DecayNum)/float64(o.DecayDen)
	}
	g := map[string]interface{}{
		"version":                      "1",
		"predistribution":              pds,
		"maxblocksize":                 fmt.Sprint(o.MaxBlockMB),
		"award":                        o.Award,
		"decimals":                     "8",
		"nofee":                        o.NoFee,
		"award_decay":                  map[string]interface{}{"height_gap": gap, "ratio": ratio},
		"gas_price":                    map[string]interface{}{"cpu_rate": 1000, "mem_rate": 1000000, "disk_rate": 1, "xfee_rate": 1},
		"new_account_resource_amount": o.NewAcctGas,
		"irreversibleslidewindow":      fmt.Sprint(o.Window),
		"genesis_consensus": map[string]interface{}{"name": "single",
			"config": map[string]interface{}{"miner": GetKey(o.Miner).Address, "period": "3000"}},
	}
	b, err := json.Marshal(g)
	must(err)
	return b
}

// Node is one real ledger + state machine (+ managers) over in-memory images.
type Node struct {
	Name     string
	Root     string
	Env      *xconf.EnvConf
	Ledger   *ledger.Ledger
	State    *state.State
	Contract contract.Manager
	Acl      aclBase.AclManager
	Gov      governToken.GovManager
	Prop     propose.ProposeManager
	Timer    timerTask.TimerManager
	Ctx      *common.ChainCtx
	RootBlk  *pb.InternalBlock
}

func envFor(name string) *xconf.EnvConf {
	e := xconf.GetDefEnvConf()
	e.RootPath = filepath.Join(workDir, "nodes", name)
	return e
}

// DataPrefix is the prefix of the image paths of node name.
func DataPrefix(name string) string {
	return filepath.Join(workDir, "nodes", name) + string(filepath.Separator)
}

func ledgerCfg() *lconf.XLedgerConf {
	c := lconf.GetDefLedgerConf()
	c.KVEngineType = EngineName
	c.StorageType = "single"
	return c
}

func newLedgerCtx(env *xconf.EnvConf) *ledger.LedgerCtx {
	lg, err := logs.NewLogger("", def.LedgerSubModName)
	must(err)
	c := &ledger.LedgerCtx{EnvCfg: env, LedgerCfg: ledgerCfg(), BCName: BCName}
	c.XLog = lg
	c.Timer = timer.NewXTimer()
	return c
}

// LedgerOnly creates a node with only a ledger (root block confirmed).
func LedgerOnly(name string, genesis []byte) (*Node, error) {
	n := &Node{Name: name, Root: DataPrefix(name), Env: envFor(name)}
	DropTree(n.Root)
	l, err := ledger.CreateLedger(newLedgerCtx(n.Env), genesis)
	if err != nil {
		return nil, err
	}
	n.Ledger = l
	rtx, err := txn.GenerateRootTx(genesis)
	if err != nil {
		return nil, err
	}
	rb, err := l.FormatRootBlock([]*pb.Transaction{rtx})
	if err != nil {
		return nil, err
	}
	st := l.ConfirmBlock(rb, true)
	if !st.Succ {
		return nil, fmt.Errorf("confirm root: %v", st.Error)
	}
	n.RootBlk = rb
	return n, nil
}

// OpenLedgerOnly opens a ledger on the existing images of node name.
func OpenLedgerOnly(name string) (*Node, error) {
	n := &Node{Name: name, Root: DataPrefix(name), Env: envFor(name)}
	l, err := ledger.OpenLedger(newLedgerCtx(n.Env))
	if err != nil {
		return nil, err
	}
	n.Ledger = l
	return n, nil
}

// CloneLedgerOnly copies the images of n under a new name and opens a ledger on them.
func (n *Node) CloneLedgerOnly(name string) (*Node, error) {
	CloneTree(n.Root, DataPrefix(name))
	return OpenLedgerOnly(name)
}

// NewNode creates a full node: ledger with confirmed root block, state machine with the root
// block played, contract manager (xkernel only), ACL, govern token, proposal and timer managers.
func NewNode(name string, genesis []byte) (*Node, error) {
	n, err := LedgerOnly(name, genesis)
	if err != nil {
		return nil, err
	}
	if err := n.attachState(); err != nil {
		return nil, err
	}
	if err := n.State.Play(n.RootBlk.Blockid); err != nil {
		return nil, fmt.Errorf("play root: %v", err)
	}
	return n, nil
}

// OpenNode opens a full node on the existing images of name.
func OpenNode(name string) (*Node, error) {
	n, err := OpenLedgerOnly(name)
	if err != nil {
		return nil, err
	}
	if err := n.attachState(); err != nil {
		return nil, err
	}
	return n, nil
}

// Clone copies the images of n under a new name and opens a full node on them.
func (n *Node) Clone(name string) (*Node, error) {
	CloneTree(n.Root, DataPrefix(name))
	return OpenNode(name)
}

// Drop forgets the images of the node.
func (n *Node) Drop() { DropTree(n.Root) }

// KernelContracts are registered on the kernel-contract registry of every node's contract manager
// (the harness's own test contracts, e.g. $vprog).
var KernelContracts []func(reg contract.KernRegistry)

func (n *Node) attachState() error {
	lg, err := logs.NewLogger("", def.StateSubModName)
	if err != nil {
		return err
	}
	sctx := &sctxp.StateCtx{EnvCfg: n.Env, LedgerCfg: ledgerCfg(), BCName: BCName, Ledger: n.Ledger, Crypt: Crypto}
	sctx.XLog = lg
	sctx.Timer = timer.NewXTimer()
	st, err := state.NewState(sctx)
	if err != nil {
		return err
	}
	n.State = st
	ectx := &common.EngineCtx{EnvCfg: n.Env}
	ectx.XLog = lg
	ectx.Timer = timer.NewXTimer()
	cctx := &common.ChainCtx{EngCtx: ectx, BCName: BCName, Ledger: n.Ledger, State: st, Crypto: Crypto}
	cctx.XLog = lg
	cctx.Timer = timer.NewXTimer()
	mk := GetKey("m")
	cctx.Address = &xaddress.Address{Address: mk.Address, PrivateKeyStr: mk.PrivStr, PublicKeyStr: mk.PubStr, PrivateKey: mk.Priv, PublicKey: &mk.Priv.PublicKey}
	n.Ctx = cctx
	basedir := filepath.Join(n.Env.GenDataAbsPath(n.Env.ChainDir), BCName)
	mg, err := contract.CreateManager("default", &contract.ManagerConfig{
		BCName: BCName, Basedir: basedir, Core: agent.NewChainCoreAgent(cctx), XMReader: st.CreateXMReader(),
		Config: &contract.ContractConfig{Xkernel: contract.XkernelConfig{Enable: true, Driver: "default"}},
	})
	if err != nil {
		return fmt.Errorf("contract manager: %v", err)
	}
	for _, reg := range KernelContracts {
		reg(mg.GetKernRegistry())
	}
	n.Contract = mg
	cctx.Contract = mg
	st.SetContractMG(mg)
	la := agent.NewLedgerAgent(cctx)
	ac, err := actx.NewAclCtx(BCName, la, mg)
	if err != nil {
		return err
	}
	am, err := acl.NewACLManager(ac)
	if err != nil {
		return err
	}
	n.Acl = am
	cctx.Acl = am
	st.SetAclMG(am)
	gc, err := governToken.NewGovCtx(BCName, la, mg)
	if err != nil {
		return err
	}
	gm, err := governToken.NewGovManager(gc)
	if err != nil {
		return err
	}
	n.Gov = gm
	cctx.GovernToken = gm
	st.SetGovernTokenMG(gm)
	pc, err := propose.NewProposeCtx(BCName, la, mg)
	if err != nil {
		return err
	}
	pm, err := propose.NewProposeManager(pc)
	if err != nil {
		return err
	}
	n.Prop = pm
	cctx.Proposal = pm
	st.SetProposalMG(pm)
	tc, err := timerTask.NewTimerTaskCtx(BCName, la, mg)
	if err != nil {
		return err
	}
	tm, err := timerTask.NewTimerTaskManager(tc)
	if err != nil {
		return err
	}
	n.Timer = tm
	cctx.TimerTask = tm
	st.SetTimerTaskMG(tm)
	return nil
}

func sortStrings(s []string) {
	for i := 1; i < len(s); i++ {
		for j := i; j > 0 && s[j] < s[j-1]; j-- {
			s[j], s[j-1] = s[j-1], s[j]
		}
	}
}
