package fx

import (
	"encoding/json"
	"fmt"

	"github.com/xuperchain/xupercore/kernel/contract"
)

// VProgName is the harness's own kernel contract: it interprets a small program of state
// operations passed in its "prog" argument, so that transactions with chosen read / write sets can
// be produced and are reproduced when the transaction is verified by re-execution.
const VProgName = "$vprog"

// VOp is one step of a $vprog program: ["get"|"put"|"del", bucket, key, value].
type VOp []string

func vprogRun(ctx contract.KContext) (*contract.Response, error) {
	var prog []VOp
	if err := json.Unmarshal(ctx.Args()["prog"], &prog); err != nil {
		return nil, fmt.Errorf("vprog: bad program: %v", err)
	}
	for _, op := range prog {
		if len(op) < 3 {
			return nil, fmt.Errorf("vprog: bad op %v", op)
		}
		switch op[0] {
		case "get":
			ctx.Get(op[1], []byte(op[2])) // missing / deleted keys are still recorded as reads
		case "put":
			if err := ctx.Put(op[1], []byte(op[2]), []byte(op[3])); err != nil {
				return nil, err
			}
		case "del":
			if err := ctx.Del(op[1], []byte(op[2])); err != nil {
				return nil, err
			}
		case "pad": // ["pad", bucket, prefix, count]: count puts of one byte under prefix-0000 ... (bulk writes of a big block)
			var n int
			if len(op) < 4 {
				return nil, fmt.Errorf("vprog: bad op %v", op)
			}
			fmt.Sscan(op[3], &n)
			for i := 0; i < n; i++ {
				if err := ctx.Put(op[1], []byte(fmt.Sprintf("%s-%04d", op[2], i)), []byte("x")); err != nil {
					return nil, err
				}
			}
		case "fail":
			return nil, fmt.Errorf("vprog: fail")
		default:
			return nil, fmt.Errorf("vprog: unknown op %q", op[0])
		}
	}
	return &contract.Response{Status: 200, Message: "ok"}, nil
}

func init() {
	KernelContracts = append(KernelContracts, func(reg contract.KernRegistry) {
		reg.RegisterKernMethod(VProgName, "run", vprogRun)
	})
}
