// Package fx is the shared fixture of the verification harness: an in-memory kvdb engine with a
// global write log (crash points, fault injection, image cloning), a node fixture that wires the
// real ledger / state machine / contract manager of /repo, a concretiser and a projector.
package fx

import (
	"bytes"
	"errors"
	"fmt"
	"sort"
	"strings"
	"sync"

	"github.com/xuperchain/xupercore/lib/storage/kvdb"
)

// EngineName is the kvEngineType under which the in-memory engine is registered.
const EngineName = "verifkv"

// ErrInjected is returned by a write that was selected for failure.
var ErrInjected = errors.New("verifkv: injected write failure")

// KVOp is one put / delete of an atomic write.
type KVOp struct {
	Del bool
	K   []byte
	V   []byte
}

// LogEntry is one atomic write (single put/delete, or a whole batch) on one database.
type LogEntry struct {
	Path string
	Ops  []KVOp
}

type world struct {
	mu     sync.Mutex
	images map[string]*MemDB
	log    []LogEntry
	logOn  bool
	// failAfter >= 0: the write issued when the counter reaches zero fails (then -1)
	failAfter int
	writes    int
}

var w = &world{images: map[string]*MemDB{}, failAfter: -1}

// MemDB is one database image.
type MemDB struct {
	path string
	mu   sync.RWMutex
	m    map[string][]byte
}

func newMem(p *kvdb.KVParameter) (kvdb.Database, error) {
	return OpenImage(p.DBPath), nil
}

// OpenImage returns (creating if needed) the image stored under path.
func OpenImage(path string) *MemDB {
	w.mu.Lock()
	defer w.mu.Unlock()
	if d, ok := w.images[path]; ok {
		return d
	}
	d := &MemDB{path: path, m: map[string][]byte{}}
	w.images[path] = d
	return d
}

func init() { kvdb.Register(EngineName, newMem) }

// ---- world control -------------------------------------------------------------------------

// StartLog clears the write log and starts recording.
func StartLog() {
	w.mu.Lock()
	defer w.mu.Unlock()
	w.log = nil
	w.logOn = true
}

// StopLog stops recording and returns the log.
func StopLog() []LogEntry {
	w.mu.Lock()
	defer w.mu.Unlock()
	w.logOn = false
	l := w.log
	w.log = nil
	return l
}

// LogSnapshot returns a copy of the log recorded so far (recording continues).
func LogSnapshot() []LogEntry {
	w.mu.Lock()
	defer w.mu.Unlock()
	return append([]LogEntry{}, w.log...)
}

// LogLen is the number of atomic writes recorded so far.
func LogLen() int {
	w.mu.Lock()
	defer w.mu.Unlock()
	return len(w.log)
}

// Writes returns the total number of atomic writes issued (successful or failed) so far.
func Writes() int {
	w.mu.Lock()
	defer w.mu.Unlock()
	return w.writes
}

// FailAfter makes the (n+1)-th atomic write from now fail (n = 0: the next one). n < 0 disables.
func FailAfter(n int) {
	w.mu.Lock()
	defer w.mu.Unlock()
	w.failAfter = n
}

// FailPending reports whether an injected failure is still armed.
func FailPending() bool {
	w.mu.Lock()
	defer w.mu.Unlock()
	return w.failAfter >= 0
}

// admit is called with the ops of every atomic write; it returns an error if the write must fail.
func admit(path string, ops []KVOp) error {
	w.mu.Lock()
	defer w.mu.Unlock()
	w.writes++
	if w.failAfter == 0 {
		w.failAfter = -1
		return ErrInjected
	}
	if w.failAfter > 0 {
		w.failAfter--
	}
	if w.logOn {
		cp := make([]KVOp, len(ops))
		for i, o := range ops {
			cp[i] = KVOp{Del: o.Del, K: append([]byte{}, o.K...), V: append([]byte{}, o.V...)}
		}
		w.log = append(w.log, LogEntry{Path: path, Ops: cp})
	}
	return nil
}

// CloneTree copies every image whose path has prefix src to the same path with prefix dst
// (overwriting what is there).
func CloneTree(src, dst string) {
	w.mu.Lock()
	defer w.mu.Unlock()
	for p := range w.images {
		if strings.HasPrefix(p, dst) {
			delete(w.images, p)
		}
	}
	for p, d := range w.images {
		if strings.HasPrefix(p, src) {
			np := dst + strings.TrimPrefix(p, src)
			nd := &MemDB{path: np, m: map[string][]byte{}}
			d.mu.RLock()
			for k, v := range d.m {
				nd.m[k] = append([]byte{}, v...)
			}
			d.mu.RUnlock()
			w.images[np] = nd
		}
	}
}

// DropTree removes every image below prefix.
func DropTree(prefix string) {
	w.mu.Lock()
	defer w.mu.Unlock()
	for p := range w.images {
		if strings.HasPrefix(p, prefix) {
			delete(w.images, p)
		}
	}
}

// ApplyLog applies entries (whose paths have prefix src) to the images below dst.
func ApplyLog(entries []LogEntry, src, dst string) {
	for _, e := range entries {
		if !strings.HasPrefix(e.Path, src) {
			continue
		}
		d := OpenImage(dst + strings.TrimPrefix(e.Path, src))
		d.mu.Lock()
		for _, o := range e.Ops {
			if o.Del {
				delete(d.m, string(o.K))
			} else {
				d.m[string(o.K)] = append([]byte{}, o.V...)
			}
		}
		d.mu.Unlock()
	}
}

// Dump returns the sorted content of the image at path as "hexkey=hexvalue" lines (diagnostics and
// differential self-tests).
func Dump(path string) []string {
	d := OpenImage(path)
	d.mu.RLock()
	defer d.mu.RUnlock()
	out := make([]string, 0, len(d.m))
	for k, v := range d.m {
		out = append(out, fmt.Sprintf("%x=%x", k, v))
	}
	sort.Strings(out)
	return out
}

// ---- kvdb.Database ---------------------------------------------------------------------------

func (d *MemDB) Open(path string, options map[string]interface{}) error { return nil }

func (d *MemDB) Put(k, v []byte) error {
	if err := admit(d.path, []KVOp{{K: k, V: v}}); err != nil {
		return err
	}
	d.mu.Lock()
	defer d.mu.Unlock()
	d.m[string(k)] = append([]byte{}, v...)
	return nil
}

func (d *MemDB) Get(k []byte) ([]byte, error) {
	d.mu.RLock()
	defer d.mu.RUnlock()
	v, ok := d.m[string(k)]
	if !ok {
		return nil, errors.New("leveldb: not found")
	}
	return append([]byte{}, v...), nil
}

func (d *MemDB) Has(k []byte) (bool, error) {
	d.mu.RLock()
	defer d.mu.RUnlock()
	_, ok := d.m[string(k)]
	return ok, nil
}

func (d *MemDB) Delete(k []byte) error {
	if err := admit(d.path, []KVOp{{Del: true, K: k}}); err != nil {
		return err
	}
	d.mu.Lock()
	defer d.mu.Unlock()
	delete(d.m, string(k))
	return nil
}

func (d *MemDB) Close() {}

func (d *MemDB) NewBatch() kvdb.Batch { return &memBatch{d: d, keys: map[string]bool{}} }

func (d *MemDB) NewIteratorWithRange(start, limit []byte) kvdb.Iterator {
	d.mu.RLock()
	defer d.mu.RUnlock()
	ks := []string{}
	for k := range d.m {
		if bytes.Compare([]byte(k), start) >= 0 && (limit == nil || bytes.Compare([]byte(k), limit) < 0) {
			ks = append(ks, k)
		}
	}
	sort.Strings(ks)
	vs := make([][]byte, len(ks))
	for i, k := range ks {
		vs[i] = append([]byte{}, d.m[k]...)
	}
	return &memIter{ks: ks, vs: vs, i: -1}
}

func (d *MemDB) NewIteratorWithPrefix(prefix []byte) kvdb.Iterator {
	var limit []byte
	for i := len(prefix) - 1; i >= 0; i-- {
		if prefix[i] < 0xff {
			limit = append([]byte{}, prefix[:i+1]...)
			limit[i]++
			break
		}
	}
	return d.NewIteratorWithRange(prefix, limit)
}

// memBatch mirrors the semantics of the leveldb wrapper's batch (PutIfAbsent fails on a key already
// put with PutIfAbsent in this batch; Write does not reset).
type memBatch struct {
	d    *MemDB
	ops  []KVOp
	size int
	keys map[string]bool
}

func (b *memBatch) ValueSize() int { return b.size }

func (b *memBatch) Write() error {
	if err := admit(b.d.path, b.ops); err != nil {
		return err
	}
	b.d.mu.Lock()
	defer b.d.mu.Unlock()
	for _, o := range b.ops {
		if o.Del {
			delete(b.d.m, string(o.K))
		} else {
			b.d.m[string(o.K)] = append([]byte{}, o.V...)
		}
	}
	return nil
}

func (b *memBatch) Reset() { b.ops = nil; b.size = 0; b.keys = map[string]bool{} }

func (b *memBatch) Put(k, v []byte) error {
	b.ops = append(b.ops, KVOp{K: append([]byte{}, k...), V: append([]byte{}, v...)})
	b.size += len(v)
	return nil
}

func (b *memBatch) Delete(k []byte) error {
	b.ops = append(b.ops, KVOp{Del: true, K: append([]byte{}, k...)})
	b.size += len(k)
	return nil
}

func (b *memBatch) PutIfAbsent(k, v []byte) error {
	if !b.keys[string(k)] {
		b.keys[string(k)] = true
		return b.Put(k, v)
	}
	return fmt.Errorf("duplicated key in batch, (HEX) %x", k)
}

func (b *memBatch) Exist(k []byte) bool { return b.keys[string(k)] }

type memIter struct {
	ks []string
	vs [][]byte
	i  int
}

func (it *memIter) Key() []byte {
	if it.i < 0 || it.i >= len(it.ks) {
		return nil
	}
	return []byte(it.ks[it.i])
}
func (it *memIter) Value() []byte {
	if it.i < 0 || it.i >= len(it.ks) {
		return nil
	}
	return it.vs[it.i]
}
func (it *memIter) Next() bool {
	if it.i < len(it.ks) {
		it.i++
	}
	return it.i < len(it.ks)
}
func (it *memIter) Prev() bool {
	if it.i >= 0 {
		it.i--
	}
	return it.i >= 0
}
func (it *memIter) Last() bool   { it.i = len(it.ks) - 1; return it.i >= 0 }
func (it *memIter) First() bool  { it.i = 0; return len(it.ks) > 0 }
func (it *memIter) Error() error { return nil }
func (it *memIter) Release()     {}
