// Package cbft holds what the C14 and C15 drivers share: deterministic validator keys, a silent
// logger, a network stub that swallows outgoing messages, an election stub and constructors for the
// real QCPendingTree / DefaultSaftyRules / Smr of kernel/consensus/base/driver/chained-bft.
package cbft

import (
	"container/list"
	"fmt"

	xctx "github.com/xuperchain/xupercore/kernel/common/xcontext"
	bft "github.com/xuperchain/xupercore/kernel/consensus/base/driver/chained-bft"
	bftcrypto "github.com/xuperchain/xupercore/kernel/consensus/base/driver/chained-bft/crypto"
	cctx "github.com/xuperchain/xupercore/kernel/consensus/context"
	nctx "github.com/xuperchain/xupercore/kernel/network/context"
	"github.com/xuperchain/xupercore/kernel/network/p2p"
	xpb "github.com/xuperchain/xupercore/protos"

	"verif/harness/fx"
)

// BCName is the chain name carried by every p2p message of the drivers.
const BCName = "xuper"

// NopLogger implements logs.Logger and discards everything.
type NopLogger struct{}

func (NopLogger) GetLogId() string                           { return "verif" }
func (NopLogger) SetCommField(key string, value interface{}) {}
func (NopLogger) SetInfoField(key string, value interface{}) {}
func (NopLogger) Error(msg string, ctx ...interface{})       {}
func (NopLogger) Warn(msg string, ctx ...interface{})        {}
func (NopLogger) Info(msg string, ctx ...interface{})        {}
func (NopLogger) Trace(msg string, ctx ...interface{})       {}
func (NopLogger) Debug(msg string, ctx ...interface{})       {}

// StubNet implements network.Network; outgoing messages are counted and dropped.
type StubNet struct {
	Sent    int
	Account string // reported by PeerInfo (the consensus plugins take their own address from it)
}

func (s *StubNet) Start() {}
func (s *StubNet) Stop()  {}
func (s *StubNet) SendMessage(xctx.XContext, *xpb.XuperMessage, ...p2p.OptionFunc) error {
	s.Sent++
	return nil
}
func (s *StubNet) SendMessageWithResponse(xctx.XContext, *xpb.XuperMessage, ...p2p.OptionFunc) ([]*xpb.XuperMessage, error) {
	s.Sent++
	return nil, nil
}
func (s *StubNet) NewSubscriber(xpb.XuperMessage_MessageType, interface{}, ...p2p.SubscriberOption) p2p.Subscriber {
	return nil
}
func (s *StubNet) Register(p2p.Subscriber) error   { return nil }
func (s *StubNet) UnRegister(p2p.Subscriber) error { return nil }
func (s *StubNet) Context() *nctx.NetCtx           { return nil }
func (s *StubNet) PeerInfo() xpb.PeerInfo          { return xpb.PeerInfo{Account: s.Account} }

// Election is a fixed validator set; no next leader is named, so a replica never sends its vote
// (the drivers deliver votes themselves).
type Election struct{ Validators []string }

func (e *Election) GetLeader(round int64) string       { return "" }
func (e *Election) GetValidators(round int64) []string { return e.Validators }
func (e *Election) GetIntAddress(a string) string      { return a }

// Member returns the key of validator i (1-based); Outsider(j) keys are never in a validator set.
func Member(i int) *fx.Key   { return fx.GetKey(fmt.Sprintf("cbft-member-%d", i)) }
func Outsider(j int) *fx.Key { return fx.GetKey(fmt.Sprintf("cbft-outsider-%d", j)) }

// Addresses of members 1..n.
func Addresses(n int) []string {
	out := make([]string, 0, n)
	for i := 1; i <= n; i++ {
		out = append(out, Member(i).Address)
	}
	return out
}

// Crypto builds the package's crypto wrapper around a harness key.
func Crypto(k *fx.Key) *bftcrypto.CBFTCrypto {
	a := &cctx.Address{Address: k.Address, PrivateKey: k.Priv, PrivateKeyStr: k.PrivStr, PublicKey: &k.Priv.PublicKey, PublicKeyStr: k.PubStr}
	return bftcrypto.NewCBFTCrypto(a, fx.Crypto)
}

// NewQC builds a certificate body without signatures.
func NewQC(id []byte, view int64, parent []byte, parentView int64) *bft.QuorumCert {
	return &bft.QuorumCert{VoteInfo: &bft.VoteInfo{ProposalId: id, ProposalView: view, ParentId: parent, ParentView: parentView},
		LedgerCommitInfo: &bft.LedgerCommitInfo{CommitStateId: id}}
}

// NewTree builds the pending tree the way common.InitQCTree does for a chain at its start height:
// one node that is Genesis, Root, HighQC and CommitQC.
func NewTree(rootID []byte, rootView int64) *bft.QCPendingTree {
	root := &bft.ProposalNode{In: &bft.QuorumCert{VoteInfo: &bft.VoteInfo{ProposalId: rootID, ProposalView: rootView},
		LedgerCommitInfo: &bft.LedgerCommitInfo{CommitStateId: rootID}}}
	return &bft.QCPendingTree{Genesis: root, Root: root, HighQC: root, CommitQC: root,
		OrphanList: list.New(), OrphanMap: map[string]bool{}, Log: NopLogger{}}
}

// Node is one replica: the real Smr with its real tree, safety rules and pacemaker.
type Node struct {
	Smr   *bft.Smr
	Tree  *bft.QCPendingTree
	Rules *bft.DefaultSaftyRules
	Pace  *bft.DefaultPaceMaker
	Net   *StubNet
	Self  *fx.Key
}

// NewNode builds a replica whose own key is self and whose validator set is validators.
func NewNode(self *fx.Key, validators []string, rootID []byte, rootView int64) *Node {
	tree := NewTree(rootID, rootView)
	cr := Crypto(self)
	rules := &bft.DefaultSaftyRules{Crypto: cr, QcTree: tree, Log: NopLogger{}}
	pace := &bft.DefaultPaceMaker{}
	net := &StubNet{}
	smr := bft.NewSmr(BCName, self.Address, NopLogger{}, net, cr, pace, rules, &Election{Validators: validators}, tree)
	return &Node{Smr: smr, Tree: tree, Rules: rules, Pace: pace, Net: net, Self: self}
}
