"""Replay generated behaviours on the real code and validate the recorded trace with TLC.

Shared by all checks whose trace specification is deterministic: a divergence record names the
first event no action of the specification explains, with expected vs actual observables."""
import json, os, shutil
import vp


def _norm_sets(o):
    """JSON arrays that stand for sets (fields utxo, pool, tips...) are compared order-insensitively."""
    if isinstance(o, dict):
        o = {k: _norm_sets(v) for k, v in o.items()}
        for k in ("utxo", "pool", "poold"):
            if isinstance(o.get(k), list):
                o[k] = sorted(o[k], key=lambda x: json.dumps(x))
        o.pop("poolseq", None)      # the yield order is judged by the trace specification's SeqOK, not compared
        return o
    if isinstance(o, list):
        return [_norm_sets(x) for x in o]
    return o


def diff_obs(exp, act, path=""):
    """Small structural diff between expected and actual observables."""
    if path == "":
        exp, act = _norm_sets(exp), _norm_sets(act)
        if exp == act and isinstance(act, dict):
            return ["no difference in the compared record (when the results agree too, a judgement outside the record failed: the order in which "
                    "the pool yields its transactions, a crash-point image, or a replica)"]
    out = []
    if isinstance(exp, dict) and isinstance(act, dict):
        for k in sorted(set(exp) | set(act)):
            if exp.get(k) != act.get(k):
                out += diff_obs(exp.get(k), act.get(k), path + "." + str(k))
    elif isinstance(exp, list) and isinstance(act, list) and len(exp) == len(act):
        for i, (a, b) in enumerate(zip(exp, act)):
            if a != b:
                out += diff_obs(a, b, path + "[%d]" % i)
    else:
        out.append("%s: expected %s actual %s" % (path, json.dumps(exp)[:300], json.dumps(act)[:300]))
    return out


def dump_behaviours(run, behs, name="behs"):
    d = run.sub(name)
    for f in os.listdir(d):
        os.remove(os.path.join(d, f))
    for i, b in enumerate(behs):
        with open(os.path.join(d, "b_%d.json" % i), "w") as f:
            json.dump(b, f)
    return d


def replay_and_validate(run, behs, driver, driver_args, trace_module, trace_cfg, name="t", consts=None,
                        kf_consts=None, kf_desc=None, dfs=False, batch=400):
    """behs: list of behaviours. Replays them in batches, validates each batch.
    kf_consts: cfg constant overrides enabling the ACTUAL(KF) deviations listed as known."""
    total_events = 0
    validated = 0
    for start in range(0, len(behs), batch):
        chunk = behs[start:start + batch]
        d = dump_behaviours(run, chunk, name + "_in")
        trace = os.path.join(run.work, "%s_%d.ndjson" % (name, start))
        out = run.harness([driver, "-in", d, "-out", trace] + list(driver_args))
        try:
            stats = json.loads(out.strip().splitlines()[-1])
        except Exception:
            stats = {}
        for k in ("ops", "cuts", "faults", "replicas", "pushes"):
            if k in stats:
                run.cov["real_" + k] = run.cov.get("real_" + k, 0) + stats[k]
        # One pass: with deviations listed as known the trace is validated against ACTUAL = IDEAL + those
        # deviations. The specifications record in `dev` every deviation that changed an outcome, so
        # "accepted with dev = {}" is exactly "accepted by IDEAL" (the specs are deterministic given the
        # constants). Without known deviations this is plain IDEAL validation.
        c2 = dict(consts or {})
        c2.update(kf_consts or {})
        res = run.tlc_validate(trace_module, trace_cfg, trace, name=name + "_val", consts=c2, dfs=dfs)
        total_events += res["len"]
        if res["hw"] == res["len"] + 1:
            validated += len(chunk)
            for k in res.get("dev", []) or []:
                if k == "outside-quantifier":
                    # the real node admitted a re-submission of a transaction that is already on its chain (the driver
                    # left the property's quantifier, e.g. because the real miner packed other transactions than the
                    # generator assumed): the rest of that behaviour was not judged; nothing to report
                    run.cov["behaviours_cut_short_outside_quantifier"] = run.cov.get("behaviours_cut_short_outside_quantifier", 0) + 1
                    continue
                d = (kf_desc or {}).get(k, k)
                if d is None:      # deviation outside this property: enabled silently
                    run.cov.setdefault("deviations_outside_property", [])
                    if k not in run.cov["deviations_outside_property"]:
                        run.cov["deviations_outside_property"].append(k)
                else:
                    run.known(d)
            os.remove(trace)
            continue
        div = res["div"]
        events = vp.read_ndjson(trace)
        if not div.get("at"):
            # no divergence record: the trace specification has no enabled action for line hw (a precondition of the
            # quantifier does not hold for the recorded operation). That is a mismatch between generator / driver and
            # specification, not a behaviour of the code that the specification refutes: undecided, never a violation.
            hw = res["hw"]
            ev = events[hw - 1] if 0 < hw <= len(events) else {}
            keep = os.path.join(vp.VERIF, ".work", "stuck-%s-%d.ndjson" % (run.pid, run.seed))
            shutil.copy(trace, keep)
            raise vp.Undecided("trace specification %s has no enabled action at line %d: %s (trace kept: %s)" % (
                trace_module, hw, json.dumps({k: v for k, v in ev.items() if k not in ("obs", "robs", "cuts", "replica")})[:400], keep))
        at = div.get("at", 0)
        ev = events[at - 1] if 0 < at <= len(events) else {}
        tr = ev.get("tr")
        prog = [e for e in events if e.get("tr") == tr and e.get("op") != "reset"]
        what = "trace %s event %s (op %s): expected result %s, actual %s; %s" % (
            tr, ev.get("i"), div.get("op"), div.get("expres"), div.get("actres"),
            "; ".join(diff_obs(div.get("exp"), div.get("act"))[:6]))
        run.violation(what, {"property": run.pid, "driver": driver, "driver_args": list(driver_args),
                             "trace_module": trace_module, "trace_cfg": trace_cfg, "consts": consts,
                             "program": [{k: v for k, v in e.items() if k not in ("obs", "robs")} for e in prog],
                             "first_unexplained_event": ev.get("i"), "expected": div.get("exp"),
                             "actual": div.get("act"), "expected_result": div.get("expres"),
                             "actual_result": div.get("actres")})
        os.remove(trace)
        break
    run.cov["traces_validated_against_impl"] = run.cov.get("traces_validated_against_impl", 0) + validated
    run.cov["trace_events"] = run.cov.get("trace_events", 0) + total_events
    return validated
