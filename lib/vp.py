"""Shared machinery of the /verif checks: scratch dirs, harness build, TLC runs (model check,
behaviour generation, trace validation), known findings, evidence, exit protocol.

Exit protocol of a check (see DESIGN.md section 10):
  0  property held on everything explored (KNOWN-FINDING lines allowed)
  1  at least one unexplained violation ("VIOLATION property=<id> replay=<path>" printed)
  2  could not decide (tool failure, timeout, vacuous run, unreproduced counterexample)
"""
import atexit
import json
import os
import re
import shutil
import subprocess
import sys
import time

VERIF = os.path.dirname(os.path.dirname(os.path.abspath(__file__)))
SPEC = os.path.join(VERIF, "spec")
HARNESS = os.path.join(VERIF, "harness")
EVID = os.path.join(VERIF, "evidence")
REPLAYS = os.path.join(VERIF, "replays")
REPO = os.environ.get("VERIF_REPO", "/repo")
KF_FILE = os.path.join(VERIF, "KNOWN_FINDINGS.txt")

GOENV = dict(os.environ, GOFLAGS="-mod=mod", GOPROXY="off", GOSUMDB="off", GOTOOLCHAIN="local",
             CGO_ENABLED=os.environ.get("CGO_ENABLED", "1"))


class Undecided(Exception):
    """The check could not decide (exit 2)."""


def log(*a):
    print(*a, flush=True)


class Run:
    """One invocation of one check."""

    def __init__(self, pid, tier, seed):
        self.pid = pid
        self.tier = tier
        self.seed = seed
        self.t0 = time.time()
        self.work = os.path.join(VERIF, ".work", "%s-%d" % (pid, os.getpid()))
        shutil.rmtree(self.work, ignore_errors=True)
        os.makedirs(self.work)
        if not os.environ.get("VERIF_KEEP"):
            atexit.register(lambda: shutil.rmtree(self.work, ignore_errors=True))
        self.cov = {}
        self.assumptions = []
        self.violations = []      # list of (what, replay path)
        self.known_hits = []      # list of known-finding descriptions hit
        self.samples = []
        self.vh = None

    # ---------------------------------------------------------------- paths
    def sub(self, name):
        d = os.path.join(self.work, name)
        os.makedirs(d, exist_ok=True)
        return d

    # ---------------------------------------------------------------- harness
    def build_harness(self, cmd="vh"):
        """Build a Go harness binary (harness/cmd/<cmd>) from /repo's current working tree with the verif tag."""
        out = os.path.join(self.work, cmd)
        gosum = os.path.join(HARNESS, "go.sum")
        if not os.path.exists(gosum):
            shutil.copy(os.path.join(REPO, "go.sum"), gosum)
        t = time.time()
        args = ["go", "build", "-tags", "verif", "-o", out]
        if os.path.realpath(REPO) != "/repo":
            # VERIF_REPO=<scratch worktree>: build against it through a generated go.mod (self-tests with
            # mutants never touch /repo)
            mod = open(os.path.join(HARNESS, "go.mod")).read().replace("=> /repo", "=> " + os.path.realpath(REPO))
            mf = os.path.join(self.work, "alt.go.mod")
            with open(mf, "w") as f:
                f.write(mod)
            shutil.copy(gosum, os.path.join(self.work, "alt.go.sum"))
            args += ["-modfile", mf]
        p = subprocess.run(args + ["./cmd/" + cmd], cwd=HARNESS, env=GOENV,
                           stdout=subprocess.PIPE, stderr=subprocess.STDOUT, text=True)
        if p.returncode != 0:
            log(p.stdout[-4000:])
            raise Undecided("harness build failed (does /repo still compile?)")
        self.cov["harness_build_s"] = round(time.time() - t, 1)
        self.vh = out
        return out

    def harness(self, args, timeout=1800, stdin=None, ok_codes=(0,)):
        """Run the harness binary; returns its stdout. A crash of the driver is exit 2, not a verdict."""
        env = dict(GOENV, VERIF_SEED=str(self.seed), VERIF_TIER=self.tier, VERIF_WORK=self.sub("go"))
        try:
            p = subprocess.run([self.vh] + [str(a) for a in args], cwd=self.work, env=env, input=stdin,
                               stdout=subprocess.PIPE, stderr=subprocess.PIPE, text=True, timeout=timeout)
        except subprocess.TimeoutExpired:
            raise Undecided("harness timed out: %s" % " ".join(map(str, args)))
        if p.returncode not in ok_codes:
            log(p.stdout[-3000:])
            log(p.stderr[-6000:])
            crash = real_code_panic(p.stderr)
            if crash:
                # The repository's own code panicked while executing an operation / query of the property's quantifier
                # (the drivers run the same deterministic inputs on which the unchanged tree does not panic): that is a
                # behaviour of the real code no specification explains.
                self.violation("the real code panicked in %s (%s) while the driver executed: %s" % (
                    crash["func"], crash["msg"], " ".join(map(str, args))),
                    {"property": self.pid, "driver_args": [str(a) for a in args], "panic": crash["msg"],
                     "stack": crash["stack"], "seed": self.seed, "tier": self.tier})
                self.finish()
            raise Undecided("harness driver failed (exit %d): %s" % (p.returncode, " ".join(map(str, args))))
        return p.stdout

    # ---------------------------------------------------------------- TLC
    def _tlc_dir(self, name, files):
        d = self.sub(name)
        for f in os.listdir(SPEC):
            if f.endswith(".tla"):
                shutil.copy(os.path.join(SPEC, f), d)
        for f in files:
            shutil.copy(f if os.path.isabs(f) else os.path.join(SPEC, f), d)
        return d

    def _tlc(self, d, args, timeout, extra_env=None):
        env = dict(os.environ)
        if extra_env:
            env.update(extra_env)
        cmd = ["timeout", str(timeout), "tlc", "-metadir", os.path.join(d, "meta")] + args
        t = time.time()
        p = subprocess.run(cmd, cwd=d, env=env, stdout=subprocess.PIPE, stderr=subprocess.STDOUT, text=True)
        shutil.rmtree(os.path.join(d, "meta"), ignore_errors=True)
        return p.returncode, p.stdout, time.time() - t

    def tlc_mc(self, module, cfg, name=None, workers=16, timeout=900, coverage=False):
        """Exhaustive model check of the IDEAL specification. Its verdict concerns the design only
        (it does not read /repo): a failure is a broken specification, hence Undecided."""
        name = name or ("mc_" + cfg.replace(".cfg", ""))
        d = self._tlc_dir(name, [cfg])
        args = ["-workers", str(workers), "-config", cfg]
        if coverage:
            args += ["-coverage", "1"]
        rc, out, dt = self._tlc(d, args + [module], timeout)
        with open(os.path.join(d, "out.txt"), "w") as f:
            f.write(out)
        m = re.search(r"(\d+) states generated, (\d+) distinct states found, (\d+) states left", out)
        dm = re.search(r"depth of the complete state graph search is (\d+)", out)
        if rc != 0 or not m or "Model checking completed. No error has been found" not in out:
            log(out[-5000:])
            raise Undecided("TLC model check of %s/%s did not complete cleanly (rc=%d): the IDEAL "
                            "specification itself is refuted or TLC failed" % (module, cfg, rc))
        res = {"module": module, "cfg": cfg, "generated": int(m.group(1)), "distinct": int(m.group(2)),
               "depth": int(dm.group(1)) if dm else None, "wall_s": round(dt, 1), "complete": int(m.group(3)) == 0}
        if coverage:
            res["zero_coverage"] = re.findall(r"^\s*(line .*): 0$", out, re.M)[:40]
        self.cov.setdefault("model_checks", []).append(res)
        self.cov["states"] = self.cov.get("states", 0) + res["distinct"]
        self.cov["transitions"] = self.cov.get("transitions", 0) + res["generated"]
        return res

    def apalache_inductive(self, module, inv="IndInv", init="Init", indinit="IndInit", timeout=240):
        """Unbounded-length safety of a small typed specification: apalache-mc discharges Init => inv (length 0) and
        inv /\\ Next => inv' (length 1 from indinit). A design-level result like tlc_mc: "Error" means the specification
        is refuted (Undecided, never a violation of the code); a missing tool or a timeout is recorded as skipped."""
        exe = shutil.which("apalache-mc")
        rec = {"module": module, "invariant": inv, "tool": "apalache-mc"}
        self.cov.setdefault("inductive_invariants", []).append(rec)
        if not exe:
            rec["result"] = "skipped: apalache-mc not on PATH"
            return rec
        d = os.path.join(self.work, "apa_" + module.replace(".tla", ""))
        os.makedirs(d, exist_ok=True)
        shutil.copy(os.path.join(SPEC, module), d)
        t = time.time()
        for step, args in (("base", ["--init=" + init, "--inv=" + inv, "--length=0"]),
                           ("step", ["--init=" + indinit, "--inv=" + inv, "--length=1"])):
            try:
                p = subprocess.run([exe, "check", "--out-dir=" + os.path.join(d, "out"), "--run-dir=" + os.path.join(d, "run-" + step)] + args + [module],
                                   cwd=d, stdout=subprocess.PIPE, stderr=subprocess.STDOUT, text=True, timeout=timeout)
            except subprocess.TimeoutExpired:
                rec["result"] = "skipped: timeout in the %s case" % step
                return rec
            if "The outcome is: NoError" in p.stdout:
                continue
            if "The outcome is: Error" in p.stdout:
                log(p.stdout[-3000:])
                raise Undecided("apalache-mc refutes the %s case of %s in %s: the specification itself is wrong" % (step, inv, module))
            rec["result"] = "skipped: apalache-mc failed in the %s case (rc=%d)" % (step, p.returncode)
            return rec
        rec["result"] = "inductive: Init => %s and %s /\\ Next => %s' discharged" % (inv, inv, inv)
        rec["wall_s"] = round(time.time() - t, 1)
        shutil.rmtree(d, ignore_errors=True)
        return rec

    def tlaps_proof(self, module, timeout=240):
        """Machine-checked proof (tlapm) of a theorem of a small specification with unbounded parameters. Supplementary:
        the result is recorded in the evidence and never decides (back-end provers can time out under load)."""
        exe = shutil.which("tlapm")
        rec = {"module": module, "tool": "tlapm"}
        self.cov.setdefault("proofs", []).append(rec)
        if not exe:
            rec["result"] = "skipped: tlapm not on PATH"
            return rec
        d = os.path.join(self.work, "tlaps_" + module.replace(".tla", ""))
        os.makedirs(d, exist_ok=True)
        shutil.copy(os.path.join(SPEC, module), d)
        t = time.time()
        try:
            p = subprocess.run([exe, "--threads", "8", module], cwd=d, stdout=subprocess.PIPE, stderr=subprocess.STDOUT, text=True, timeout=timeout)
            m = re.search(r"All (\d+) obligations proved", p.stdout)
            f = re.search(r"(\d+)/(\d+) obligations failed", p.stdout)
            rec["result"] = ("proved: all %s obligations" % m.group(1)) if m else \
                            ("unproved: %s of %s obligations" % (f.group(1), f.group(2))) if f else "skipped: tlapm failed (rc=%d)" % p.returncode
        except subprocess.TimeoutExpired:
            rec["result"] = "skipped: timeout"
        rec["wall_s"] = round(time.time() - t, 1)
        shutil.rmtree(d, ignore_errors=True)
        return rec

    def tlc_gen(self, module, cfg, num, depth, name="gen", seed=None, timeout=900, consts=None):
        """Simulate the specification; the cfg's CONSTRAINT dumps each behaviour's history as JSON into
        ./out/.  Returns the list of behaviours (each a list of op records)."""
        d = self._tlc_dir(name, [])
        cfgtxt = open(os.path.join(SPEC, cfg)).read()
        cfgtxt = _apply_consts(cfgtxt, consts)
        with open(os.path.join(d, cfg), "w") as f:
            f.write(cfgtxt)
        os.makedirs(os.path.join(d, "out"), exist_ok=True)
        seed = self.seed if seed is None else seed
        args = ["-workers", "1", "-simulate", "num=%d" % num, "-depth", str(depth), "-seed", str(seed),
                "-config", cfg, module]
        rc, out, dt = self._tlc(d, args, timeout)
        files = sorted(os.listdir(os.path.join(d, "out")))
        if not files:
            log(out[-4000:])
            raise Undecided("TLC generation produced no behaviours (%s/%s rc=%d)" % (module, cfg, rc))
        if "Error:" in out and "violated" in out:
            log(out[-4000:])
            raise Undecided("TLC simulation of the IDEAL spec reported an invariant violation")
        behs = []
        for fn in files:
            with open(os.path.join(d, "out", fn)) as f:
                behs.append(json.load(f))
        self.cov.setdefault("generation", []).append({"module": module, "cfg": cfg, "behaviours": len(behs),
                                                       "seed": seed, "wall_s": round(dt, 1)})
        return behs

    def tlc_validate(self, module, cfg, trace_file, name="val", timeout=1800, consts=None, dfs=False):
        """Validate an ndjson trace recorded from the real code against the trace specification.
        Returns the result record written by the spec's POSTCONDITION:
          {hw: highest line index explained + 1, len: number of lines, div: first divergence or NoDiv}."""
        d = self._tlc_dir(name, [])
        cfgtxt = open(os.path.join(SPEC, cfg)).read()
        cfgtxt = _apply_consts(cfgtxt, consts)
        with open(os.path.join(d, cfg), "w") as f:
            f.write(cfgtxt)
        shutil.copy(trace_file, os.path.join(d, "trace.ndjson"))
        env = {}
        if dfs:
            env["JAVA_TOOL_OPTIONS"] = "-Dtlc2.tool.queue.IStateQueue=StateDeque"
        rc, out, dt = self._tlc(d, ["-workers", "1", "-config", cfg, module], timeout, env)
        rf = os.path.join(d, "result.json")
        if not os.path.exists(rf):
            log(out[-6000:])
            raise Undecided("trace validation did not finish (%s rc=%d)" % (module, rc))
        with open(rf) as f:
            res = json.load(f)
        if isinstance(res, list):
            res = res[0]
        res["wall_s"] = round(dt, 1)
        m = re.search(r"(\d+) states generated, (\d+) distinct states found", out)
        if m:
            res["tlc_states"] = int(m.group(2))
        shutil.rmtree(d, ignore_errors=True)
        return res

    # ---------------------------------------------------------------- verdicts
    def violation(self, what, replay_obj):
        os.makedirs(REPLAYS, exist_ok=True)
        path = os.path.join(REPLAYS, "%s-%d-%d.json" % (self.pid, self.seed, len(self.violations)))
        with open(path, "w") as f:
            json.dump(replay_obj, f, indent=1, sort_keys=True)
        self.violations.append((what, path))
        log("VIOLATION property=%s replay=%s" % (self.pid, path))
        log("  " + what[:2000])

    def known(self, desc):
        if desc not in self.known_hits:
            self.known_hits.append(desc)
            log("KNOWN-FINDING: property=%s %s" % (self.pid, desc))

    def finish(self, level="model_checking", require=None):
        """Write evidence and exit. require: dict name -> (value, minimum) vacuity thresholds (R7)."""
        cov = dict(self.cov)
        cov.setdefault("states", 0)
        cov.setdefault("transitions", 0)
        cov.setdefault("traces_validated_against_impl", 0)
        cov["samples"] = self.samples[:5] if self.samples else ["(none)"]
        cov["known_findings_hit"] = self.known_hits
        vac = []
        for k, (v, mn) in (require or {}).items():
            cov.setdefault("exercise", {})[k] = v
            if v < mn:
                vac.append("%s=%s < %s" % (k, v, mn))
        ev = {"property_id": self.pid, "tier": self.tier, "seed": self.seed, "level": level, "coverage": cov,
              "assumptions": self.assumptions, "wall_s": round(time.time() - self.t0, 1),
              "violations": len(self.violations)}
        # evidence describes /repo itself: a self-test run against a scratch worktree (VERIF_REPO) writes elsewhere
        # ... and so does a --replay run (it covers one recorded case, not the check)
        evdir = EVID if REPO == "/repo" and not getattr(self, "replay", None) else os.path.join(VERIF, ".work", "evidence-scratch")
        os.makedirs(evdir, exist_ok=True)
        ev["repo"] = REPO
        with open(os.path.join(evdir, "%s.json" % self.pid), "w") as f:
            json.dump(ev, f, indent=1, sort_keys=True)
        if self.violations:
            sys.exit(1)
        if vac:
            log("UNDECIDED: run below its exercise thresholds (vacuous): " + "; ".join(vac))
            sys.exit(2)
        log("OK property=%s tier=%s seed=%d wall=%.1fs" % (self.pid, self.tier, self.seed, time.time() - self.t0))
        sys.exit(0)


def real_code_panic(stderr):
    """If stderr is a Go panic (or a fatal concurrent-map / mutex-misuse error) whose first frame outside the Go runtime lies in the
    repository's own packages (not in the harness), returns {msg, func, stack}; otherwise None."""
    m = re.search(r"(?m)^(panic: .*|fatal error: concurrent map .*|fatal error: sync: .*)$", stderr or "")
    if not m:
        return None
    tail = stderr[m.start():]
    g = re.search(r"(?m)^goroutine \d+ \[[^\]]*\]:\n", tail)
    if not g:
        return None
    frames = [l for l in tail[g.end():].split("\n\n")[0].splitlines() if l and not l.startswith("\t")]
    for f in frames:
        if f.startswith(("panic(", "runtime.", "runtime/", "sync.", "sync/", "internal/", "reflect.", "testing.")) or f.startswith("created by"):
            continue
        if f.startswith("github.com/xuperchain/xupercore/"):
            return {"msg": m.group(1)[:300], "func": f[:f.rfind("(")][:200], "stack": tail[:3000]}
        return None
    return None


def _apply_consts(cfgtxt, consts):
    """Constants of a cfg: `NAME = value` lines are rewritten; a value "<- Op" substitutes a definition of the module
    (`NAME <- Op`, added to the CONSTANTS section when the cfg does not mention NAME)."""
    for k, v in (consts or {}).items():
        v = str(v)
        if v.startswith("<-"):
            line = "  %s %s" % (k, v)
            if re.search(r"(?m)^\s*%s\s*(=|<-)" % re.escape(k), cfgtxt):
                cfgtxt = re.sub(r"(?m)^\s*%s\s*(=|<-).*$" % re.escape(k), line, cfgtxt)
            else:
                cfgtxt = re.sub(r"(?m)^(CONSTANTS?\s*)$", "\\1\n" + line, cfgtxt, count=1)
        else:
            cfgtxt = re.sub(r"(?m)^(\s*%s\s*=\s*).*$" % re.escape(k), r"\g<1>%s" % v, cfgtxt)
    return cfgtxt


# -------------------------------------------------------------------- known findings
def known_findings(pid):
    """Entries of KNOWN_FINDINGS.txt for a property: list of dicts {status, property, key, desc}.
    Lines:  known: property=C10 key=<deviation or case key> :: <what fails>
            fixed: property=C10 <commit> key=<...> :: <what failed>"""
    out = []
    if not os.path.exists(KF_FILE):
        return out
    for line in open(KF_FILE):
        line = line.strip()
        if not line or line.startswith("#"):
            continue
        m = re.match(r"(known|fixed):\s+property=(\S+)\s+(.*?)\s*::\s*(.*)$", line)
        if not m or m.group(2) != pid:
            continue
        km = re.search(r"key=(\S+)", m.group(3))
        out.append({"status": m.group(1), "property": m.group(2), "key": km.group(1) if km else "",
                    "desc": m.group(4)})
    return out


def known_keys(pid):
    return {k["key"]: k["desc"] for k in known_findings(pid) if k["status"] == "known"}


def write_ndjson(path, events):
    with open(path, "w") as f:
        for e in events:
            f.write(json.dumps(e, sort_keys=True, separators=(",", ":")) + "\n")


def read_ndjson(path):
    return [json.loads(l) for l in open(path) if l.strip()]


def main(fn, pid):
    """Entry used by checks/<id>.py: parses tier/seed, runs fn(run), maps exceptions to exit codes."""
    import argparse
    ap = argparse.ArgumentParser()
    ap.add_argument("--tier", default=os.environ.get("VERIF_TIER", "quick"), choices=["quick", "thorough"])
    ap.add_argument("--replay", default=None)
    a = ap.parse_args(sys.argv[2:] if len(sys.argv) > 1 and not sys.argv[1].startswith("-") else sys.argv[1:])
    seed = int(os.environ.get("VERIF_SEED", "1") or "1")
    run = Run(pid, a.tier, seed)
    run.replay = a.replay
    try:
        fn(run)
        run.finish()
    except Undecided as e:
        log("UNDECIDED property=%s: %s" % (pid, e))
        sys.exit(2)
    except SystemExit:
        raise
    except BaseException:
        import traceback
        traceback.print_exc()
        log("UNDECIDED property=%s: internal error of the check" % pid)
        sys.exit(2)
