#!/bin/sh
# Build the framework from files on disk only (offline): parse all specifications, build the harness.
set -e
cd "$(dirname "$0")"
export GOFLAGS=-mod=mod GOPROXY=off GOSUMDB=off GOTOOLCHAIN=local
[ -f harness/go.sum ] || cp /repo/go.sum harness/go.sum
mkdir -p .work/setup evidence replays
(cd harness && go build -tags verif -o ../.work/setup/vh ./cmd/vh)
cd spec
for f in *.tla; do
  tla-sany "$f" > ../.work/setup/sany.out 2>&1 || { tail -5 ../.work/setup/sany.out; echo "WARNING: SANY failed on $f (the checks using it will report undecided)"; }
done
cd ..
rm -rf .work/setup
echo "setup ok"
