#!/usr/bin/env python3
"""Mutation self-test of the C09 extension (cache-free readers, tamperings of the read / write LIST, contract outputs)
in the scratch worktree /tmp/wt_c09ext (never /repo):
    git -C /repo worktree add --detach /tmp/wt_c09ext HEAD
    python3 findings/C09-selftest-mutants-ext.py [name-prefix ...]
    git -C /repo worktree remove --force /tmp/wt_c09ext
Each mutant is a list of (file, old, new) replacements.  The two seeded changes of round 2 are applied with git apply:
    seeded/round2/C09-transient-offset.diff, seeded/round2/C09-equal-by-lookup.diff."""
import subprocess, sys, os, re
WT = "/tmp/wt_c09ext"
XM = "bcs/ledger/xledger/state/xmodel/xmodel.go"
DB = "bcs/ledger/xledger/state/xmodel/dbutils.go"
XV = "bcs/ledger/xledger/state/xmodel/xmodel_verify.go"
TV = "bcs/ledger/xledger/state/tx_verification.go"
M = {
 "A1_delete_keeps_live_entry": [(XM, "\t\t\tbatch.Delete(delKey)\n\t\t\tbatch.Put(putKey, []byte(valueVersion))\n\t\t\ts.logger.Trace(\"    xmodel put gc\"",
                                       "\t\t\tbatch.Put(putKey, []byte(valueVersion))\n\t\t\ts.logger.Trace(\"    xmodel put gc\"")],
 "A2_cache_entry_filtered_offset": [(XM, "func (s *XModel) updateExtUtxo(tx *pb.Transaction, batch kvdb.Batch) error {\n\tfor offset, txOut := range tx.TxOutputsExt {\n\t\tif txOut.Bucket == TransientBucket {\n\t\t\tcontinue\n\t\t}\n",
                                          "func (s *XModel) updateExtUtxo(tx *pb.Transaction, batch kvdb.Batch) error {\n\tskipped := 0\n\tfor offset, txOut := range tx.TxOutputsExt {\n\t\tif txOut.Bucket == TransientBucket {\n\t\t\tskipped++\n\t\t\tcontinue\n\t\t}\n"),
                                    (XM, "\t\t\tRefTxid:   tx.Txid,\n\t\t\tRefOffset: int32(offset),\n\t\t\tPureData: &kledger.PureData{\n\t\t\t\tKey:    txOut.Key,",
                                          "\t\t\tRefTxid:   tx.Txid,\n\t\t\tRefOffset: int32(offset - skipped),\n\t\t\tPureData: &kledger.PureData{\n\t\t\t\tKey:    txOut.Key,")],
 "A3_delete_version_filtered_offset": [(XM, "func (s *XModel) updateExtUtxo(tx *pb.Transaction, batch kvdb.Batch) error {\n\tfor offset, txOut := range tx.TxOutputsExt {\n\t\tif txOut.Bucket == TransientBucket {\n\t\t\tcontinue\n\t\t}\n",
                                          "func (s *XModel) updateExtUtxo(tx *pb.Transaction, batch kvdb.Batch) error {\n\tskipped := 0\n\tfor offset, txOut := range tx.TxOutputsExt {\n\t\tif txOut.Bucket == TransientBucket {\n\t\t\tskipped++\n\t\t\tcontinue\n\t\t}\n"),
                                       (XM, "\t\t\tbatch.Delete(delKey)\n\t\t\tbatch.Put(putKey, []byte(valueVersion))\n",
                                            "\t\t\tbatch.Delete(delKey)\n\t\t\tbatch.Put(putKey, []byte(MakeVersion(tx.Txid, int32(offset-skipped))))\n")],
 "A5_version_cache_keyed_by_txid": [(XM, "\tvalue, ok := s.bucketCacheGet(bucket, version)\n\tif ok {\n\t\treturn value, nil\n\t}\n\ttxid, offset, err := parseVersion(version)\n\tif err != nil {\n\t\treturn nil, err\n\t}\n",
                                         "\ttxid, offset, err := parseVersion(version)\n\tif err != nil {\n\t\treturn nil, err\n\t}\n\tvalue, ok := s.bucketCacheGet(bucket, string(txid))\n\tif ok {\n\t\treturn value, nil\n\t}\n"),
                                    (XM, "\ts.bucketCacheStore(bucket, version, value)\n\treturn value, nil", "\ts.bucketCacheStore(bucket, string(txid), value)\n\treturn value, nil")],
 "A6_cold_read_value_of_next_record": [(XM, "\ttxOutputs := tx.TxOutputsExt[offset]\n", "\ttxOutputs := tx.TxOutputsExt[offset]\n\tif offset+1 < len(tx.TxOutputsExt) && tx.TxOutputsExt[offset+1].Bucket == bucket && isDelFlag(txOutputs.Value) {\n\t\ttxOutputs = tx.TxOutputsExt[offset+1]\n\t}\n")],
 "B1_equal_no_length_check": [(DB, "\tif len(pd) != len(vpd) {\n\t\treturn false\n\t}\n\tpds := newPdSlice(pd)", "\tpds := newPdSlice(pd)"),
                              (DB, "\tfor i, v := range pds {\n\t\tif equal(v, vpds[i]) {", "\tfor i, v := range vpds {\n\t\tif i < len(pds) && equal(v, pds[i]) {")],
 "B4_equal_set_based": [(DB, "\tpds := newPdSlice(pd)\n\tvpds := newPdSlice(vpd)\n\tsort.Sort(pds)\n\tsort.Sort(vpds)\n",
                             "\tpds := newPdSlice(pd)\n\tvpds := newPdSlice(vpd)\n\tsort.Sort(pds)\n\tsort.Sort(vpds)\n\tdedupe := func(in pdSlice) pdSlice {\n\t\tout := pdSlice{}\n\t\tfor i, v := range in {\n\t\t\tif i == 0 || !equal(v, in[i-1]) {\n\t\t\t\tout = append(out, v)\n\t\t\t}\n\t\t}\n\t\treturn out\n\t}\n\tpds, vpds = dedupe(pds), dedupe(vpds)\n\tif len(pds) != len(vpds) {\n\t\treturn false\n\t}\n"),
                        (DB, "\tif len(pd) != len(vpd) {\n\t\treturn false\n\t}\n\tpds := newPdSlice(pd)", "\tpds := newPdSlice(pd)")],
 "B5_versions_compared_by_txid_only(2 sites)": [(TV, "\t\tif xmodel.GetVersion(verData) != GetVersion(txIn) {", "\t\tif !bytes.Equal(verData.RefTxid, txIn.RefTxid) {"),
                                       (XV, "\t\tif localVer != remoteVer {", "\t\tif string(verData.RefTxid) != string(txIn.RefTxid) {")],
 "B6_equal_ignores_record_order_of_duplicates(last wins map)": [(DB, "\tpds := newPdSlice(pd)\n\tvpds := newPdSlice(vpd)\n",
                             "\tlast := map[string]*kledger.PureData{}\n\tfor _, v := range pd {\n\t\tlast[string(makeRawKey(v.GetBucket(), v.GetKey()))] = v\n\t}\n\tif len(last) == len(vpd) {\n\t\tpd = pd[:0:0]\n\t\tfor _, v := range last {\n\t\t\tpd = append(pd, v)\n\t\t}\n\t}\n\tpds := newPdSlice(pd)\n\tvpds := newPdSlice(vpd)\n"),
                        (DB, "\tif len(pd) != len(vpd) {\n\t\treturn false\n\t}\n\tlast :=", "\tlast :=")],
 "B7_equal_declared_deduped_first_wins": [(DB, "\tif len(pd) != len(vpd) {\n\t\treturn false\n\t}\n\tpds := newPdSlice(pd)",
      "\tfirst := map[string]bool{}\n\tuniq := []*kledger.PureData{}\n\tfor _, v := range pd {\n\t\tk := string(makeRawKey(v.GetBucket(), v.GetKey()))\n\t\tif !first[k] {\n\t\t\tfirst[k] = true\n\t\t\tuniq = append(uniq, v)\n\t\t}\n\t}\n\tpd = uniq\n\tif len(pd) != len(vpd) {\n\t\treturn false\n\t}\n\tpds := newPdSlice(pd)")],
 "B8_equal_declared_deduped_last_wins(harmless)": [(DB, "\tif len(pd) != len(vpd) {\n\t\treturn false\n\t}\n\tpds := newPdSlice(pd)",
      "\tlast := map[string]int{}\n\tfor i, v := range pd {\n\t\tlast[string(makeRawKey(v.GetBucket(), v.GetKey()))] = i\n\t}\n\tuniq := []*kledger.PureData{}\n\tfor i, v := range pd {\n\t\tif last[string(makeRawKey(v.GetBucket(), v.GetKey()))] == i {\n\t\t\tuniq = append(uniq, v)\n\t\t}\n\t}\n\tpd = uniq\n\tif len(pd) != len(vpd) {\n\t\treturn false\n\t}\n\tpds := newPdSlice(pd)")],
 "E1_equal_ignores_bucket": [(DB, "func equal(pd, vpd *kledger.PureData) bool {\n\trawKeyI := makeRawKey(pd.GetBucket(), pd.GetKey())\n\trawKeyJ := makeRawKey(vpd.GetBucket(), vpd.GetKey())",
                                  "func equal(pd, vpd *kledger.PureData) bool {\n\trawKeyI := pd.GetKey()\n\trawKeyJ := vpd.GetKey()"),
                             (DB, "\trawKeyI := makeRawKey(pds[i].GetBucket(), pds[i].GetKey())\n\trawKeyJ := makeRawKey(pds[j].GetBucket(), pds[j].GetKey())",
                                  "\trawKeyI := pds[i].GetKey()\n\trawKeyJ := pds[j].GetKey()")],
 "E2_equal_compares_value_lengths": [(DB, "\treturn bytes.Equal(pd.GetValue(), vpd.GetValue())\n}", "\treturn len(pd.GetValue()) == len(vpd.GetValue())\n}")],
 "E3_inputs_of_a_paying_contract_account_need_no_signature": [(TV, "\t\tutxoKey := utxo.GenUtxoKey(addr, txid, offset)\n\t\tconUtxoInputsMap[utxoKey] = true\n", "\t\tconUtxoInputsMap[string(addr)] = true\n\t\t_, _ = txid, offset\n"),
                             (TV, "\t\tutxoKey := utxo.GenUtxoKey(addr, txid, offset)\n\t\tif conUtxoInputsMap[utxoKey] {", "\t\t_, _ = txid, offset\n\t\tif conUtxoInputsMap[string(addr)] {")],
 "C1_contract_outputs_compared_as_set": [(TV, "\t\toutputs[outKey(out)]--\n", "")],
 "C2_contract_outputs_compared_without_amount": [(TV, "return fmt.Sprintf(\"%s\\x00%s\\x00%d\", out.GetToAddr(), new(big.Int).SetBytes(out.GetAmount()).String(), out.GetFrozenHeight())",
                                                      "return fmt.Sprintf(\"%s\\x00%d\", out.GetToAddr(), out.GetFrozenHeight())")],
 "C4_contract_outputs_compared_without_frozen_height": [(TV, "return fmt.Sprintf(\"%s\\x00%s\\x00%d\", out.GetToAddr(), new(big.Int).SetBytes(out.GetAmount()).String(), out.GetFrozenHeight())",
                                                      "return fmt.Sprintf(\"%s\\x00%s\", out.GetToAddr(), new(big.Int).SetBytes(out.GetAmount()).String())")],
 "V1_verifyOutputs_accepts_undeclared_key": [(XV, "\t\tif !inputKeys[rawKey] {", "\t\tif false && !inputKeys[rawKey] {")],
 "V2_verifyInputs_first_record_per_key_only": [(XV, "\tfor _, txIn := range tx.TxInputsExt {\n\t\tverData, err := s.GetUncommited", "\tseen := map[string]bool{}\n\tfor _, txIn := range tx.TxInputsExt {\n\t\tif seen[string(makeRawKey(txIn.Bucket, txIn.Key))] {\n\t\t\tcontinue\n\t\t}\n\t\tseen[string(makeRawKey(txIn.Bucket, txIn.Key))] = true\n\t\tverData, err := s.GetUncommited")],
}
def sh(cmd, **kw):
    return subprocess.run(cmd, shell=True, stdout=subprocess.PIPE, stderr=subprocess.STDOUT, text=True, **kw)
names = sys.argv[1:] or list(M)
env = dict(os.environ, GOFLAGS="-mod=mod", GOPROXY="off", GOSUMDB="off", GOTOOLCHAIN="local", VERIF_REPO=WT, VERIF_C09_SKIP_MC="1")
for name in names:
    key = [k for k in M if k.startswith(name)][0]
    sh("git checkout -- .", cwd=WT)
    ok = True
    for f, old, new in M[key]:
        p = os.path.join(WT, f)
        s = open(p).read()
        if old not in s:
            print(key, "PATTERN NOT FOUND in", f); ok = False; break
        open(p, "w").write(s.replace(old, new, 1))
    if not ok:
        continue
    b = sh("go build ./bcs/ledger/xledger/state/...", cwd=WT, env=env)
    if b.returncode != 0:
        print(key, "DOES NOT BUILD:", b.stdout[-600:]); continue
    r = sh("./check C09", cwd="/verif", env=env)
    v = [l for l in r.stdout.splitlines() if "VIOLATION" in l or l.startswith("  case") or "UNDECIDED" in l or l.startswith("OK ") or "NOTE" in l]
    print("%-55s exit=%d  %s" % (key, r.returncode, " | ".join(x.strip()[:330] for x in v[:3])), flush=True)
sh("git checkout -- .", cwd=WT)
