#!/usr/bin/env python3
"""Mutation self-test of check C09 in the scratch worktree /tmp/wt_c09 (never /repo)."""
import subprocess, sys, os

WT = "/tmp/wt_c09"
TV = "bcs/ledger/xledger/state/tx_verification.go"
XM = "bcs/ledger/xledger/state/xmodel/xmodel.go"
XV = "bcs/ledger/xledger/state/xmodel/xmodel_verify.go"
DB = "bcs/ledger/xledger/state/xmodel/dbutils.go"
CH = "kernel/engines/xuperos/chain.go"
CI = "kernel/contract/bridge/context_impl.go"
XC = "kernel/contract/sandbox/xmcache.go"
MM = "kernel/contract/sandbox/mem_xmodel.go"
US = "bcs/ledger/xledger/state/utxo/utxo_sandbox.go"

MUTANTS = {
    "m01_wset_count_only": (TV, "	ok := xmodel.Equal(wset, RWSet.WSet)\n", "	ok := len(wset) == len(RWSet.WSet)\n"),
    "m02_commit_writes_transient": (XM, """	for offset, txOut := range tx.TxOutputsExt {
		if txOut.Bucket == TransientBucket {
			continue
		}
		bucketAndKey := makeRawKey(txOut.Bucket, txOut.Key)
		valueVersion := MakeVersion(tx.Txid, int32(offset))
		if isDelFlag(txOut.Value) {""", """	for offset, txOut := range tx.TxOutputsExt {
		bucketAndKey := makeRawKey(txOut.Bucket, txOut.Key)
		valueVersion := MakeVersion(tx.Txid, int32(offset))
		if isDelFlag(txOut.Value) {"""),
    "m03_gas_limit_from_request": (TV, """	gasLimit, err := getGasLimitFromTx(tx)
	if err != nil {
		return false, err
	}
""", """	gasLimit, err := getGasLimitFromTx(tx)
	if err != nil {
		return false, err
	}
	gasLimit = 0
	for _, r := range tx.GetContractRequests() {
		l := contract.FromPbLimits(r.GetResourceLimits())
		gasLimit += l.TotalGas(t.meta.Meta.GetGasPrice())
	}
"""),
    "m04_no_version_check_in_verify": (TV, "		if xmodel.GetVersion(verData) != GetVersion(txIn) {", "		if false && xmodel.GetVersion(verData) != GetVersion(txIn) {"),
    "m05_wset_equal_ignores_values": (DB, "	return bytes.Equal(pd.GetValue(), vpd.GetValue())\n}", "	return true\n}"),
    "m06_no_contract_amount_check": (TV, "	if amountOut.Cmp(amountCon) != 0 {", "	if false && amountOut.Cmp(amountCon) != 0 {"),
    "m07_verify_over_live_state": (TV, "	reader := sandbox.XMReaderFromRWSet(rwSet)\n", "	reader := sandbox.XMReaderFromRWSet(rwSet)\n	reader = t.xmodel\n"),
    "m08_no_written_key_must_be_read": (XV, "		if !inputKeys[rawKey] {", "		if false && !inputKeys[rawKey] {"),
    "m09_no_resource_limit_check": (CI, "	if v.ctx.ResourceUsed().Exceed(v.ctx.ResourceLimits) {", "	if false && v.ctx.ResourceUsed().Exceed(v.ctx.ResourceLimits) {"),
    "m10_events_not_in_write_set": (XC, "	return xc.Put(TransientBucket, contractEventKey, buf)\n", "	_ = buf\n	return nil\n"),
    "m11_no_stale_check_at_commit_and_verify": None,   # composed below: m04 + xmodel.verifyInputs disabled
    "m12_preexec_gas_without_roundup": (CH, "			gasUsed += resourceUsed.TotalGas(gasPrice)\n", "			gasUsed += resourceUsed.XFee\n			_ = gasPrice\n"),
    "m13_preexec_limits_not_returned": (CH, "		request.ResourceLimits = contract.ToPbLimits(resourceUsed)\n", "		request.ResourceLimits = contract.ToPbLimits(contract.Limits{})\n"),
    "m14_commit_skips_deletes": (XM, """		if isDelFlag(txOut.Value) {
			putKey := append([]byte(pb.ExtUtxoDelTablePrefix), bucketAndKey...)
			delKey := append([]byte(pb.ExtUtxoTablePrefix), bucketAndKey...)
			batch.Delete(delKey)
			batch.Put(putKey, []byte(valueVersion))""", """		if isDelFlag(txOut.Value) {
			putKey := append([]byte(pb.ExtUtxoDelTablePrefix), bucketAndKey...)
			delKey := append([]byte(pb.ExtUtxoTablePrefix), bucketAndKey...)
			_, _ = putKey, delKey"""),
    "m15_ext_required_without_requests": (TV, "		if tx.GetTxInputsExt() != nil || tx.GetTxOutputsExt() != nil {", "		if false {"),
    "m16_utxo_reader_ignores_declared_inputs": (TV, "	utxoReader := sandbox.NewUTXOReaderFromInput(utxoInput)\n", "	utxoReader := contract.UtxoReader(t.utxo)\n	_ = utxoInput\n"),
    "m17_fee_output_zero_accepted": (TV, "		if gasLimit <= 0 {", "		if gasLimit < 0 {"),
    "m18_change_goes_to_recipient": (US, "			ToAddr: []byte(from),\n", "			ToAddr: []byte(to),\n"),
    "m19_verify_skips_flush": (TV, """	err = sandBox.Flush()
	if err != nil {
		return false, err
	}

	RWSet := sandBox.RWSet()""", """	RWSet := sandBox.RWSet()"""),
    "m20_unread_key_reads_as_empty": (MM, """	v, ok := m.tree.Get(buKey)
	if !ok {
		return nil, ErrNotFound
	}""", """	v, ok := m.tree.Get(buKey)
	if !ok {
		return &ledger.VersionedData{PureData: &ledger.PureData{Bucket: bucket, Key: key}}, nil
	}"""),
}


def sh(cmd, **kw):
    return subprocess.run(cmd, shell=True, stdout=subprocess.PIPE, stderr=subprocess.STDOUT, text=True, **kw)


def apply(f, old, new):
    p = os.path.join(WT, f)
    s = open(p).read()
    if old not in s:
        raise SystemExit("mutant anchor not found in %s" % f)
    open(p, "w").write(s.replace(old, new, 1))


def main():
    names = sys.argv[1:] or sorted(MUTANTS)
    tier = os.environ.get("MUT_TIER", "quick")
    for name in names:
        sh("git -C %s checkout -- ." % WT)
        if name == "m11_no_stale_check_at_commit_and_verify":
            apply(*MUTANTS["m04_no_version_check_in_verify"])
            apply(XV, "		if localVer != remoteVer {", "		if false && localVer != remoteVer {")
        else:
            apply(*MUTANTS[name])
        b = sh("cd %s && GOFLAGS=-mod=mod GOPROXY=off GOSUMDB=off GOTOOLCHAIN=local go build ./bcs/... ./kernel/..." % WT)
        if b.returncode != 0:
            print("%-45s DOES NOT COMPILE\n%s" % (name, b.stdout[-600:]), flush=True)
            continue
        r = sh("cd /verif && VERIF_REPO=%s VERIF_C09_SKIP_MC=1 ./check C09 --tier %s" % (WT, tier))
        lines = [l for l in r.stdout.splitlines() if not l.startswith("KNOWN-FINDING")]
        viol = [l for l in lines if l.startswith("VIOLATION") or l.startswith("  case")]
        note = [l for l in lines if l.startswith("NOTE")]
        print("%-45s exit=%d %s" % (name, r.returncode, "CAUGHT" if r.returncode == 1 else "MISSED" if r.returncode == 0 else "UNDECIDED"), flush=True)
        for l in (viol + note)[:3]:
            print("      " + l[:260], flush=True)
        if r.returncode == 2:
            print("      " + "\n      ".join(lines[-6:]), flush=True)
    sh("git -C %s checkout -- ." % WT)
    sh("rm -f /verif/replays/C09-1-*.json")


main()
