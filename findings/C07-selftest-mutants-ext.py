#!/usr/bin/env python3
"""Mutation self-test of the C07 extension (repeated / aliasing signers and account rules, aggregated-signature form with
accounts, block-borne transactions via Walk / PlayAndRepost incl. the pool, Chain.SubmitTx) in the scratch worktree
/tmp/wt_c07ext (never /repo):
    git -C /repo worktree add --detach /tmp/wt_c07ext HEAD
    python3 findings/C07-selftest-mutants-ext.py [name-prefix ...]
    git -C /repo worktree remove --force /tmp/wt_c07ext
Each mutant is a list of (file, old, new) replacements; the three seeded changes of round 3 are applied with git apply.
Expected: exit 1 (VIOLATION) for every property-breaking mutant, exit 0 for the ones marked (harmless)."""
import subprocess, sys, os
WT = "/tmp/wt_c07ext"
TV = "bcs/ledger/xledger/state/tx_verification.go"
ST = "bcs/ledger/xledger/state/state.go"
CH = "kernel/engines/xuperos/chain.go"
SEEDED = {"E1_seeded_ptree_fast_path": "C07-E1.diff", "E3_seeded_walk_skips_rolled_back_ids": "C07-E3.diff", "E4_seeded_xsign_account_initiator_unbound": "C07-E4.diff"}
M = {
 # account rule evaluation inside VerifyTx
 "M1_owner_account_verified_when_named_in_a_signer_uri": [(TV,
    "\t\t\tif ok, err := aclu.IdentifyAccount(t.sctx.AclMgr, string(name), tx.AuthRequire); !ok {\n\t\t\t\tt.log.Warn(\"verifyUTXOPermission error, failed to IdentifyAccount\", \"error\", err)\n\t\t\t\treturn false, ErrACLNotEnough\n\t\t\t}\n",
    "\t\t\tnamed := false\n\t\t\tfor _, u := range tx.AuthRequire {\n\t\t\t\tif strings.HasPrefix(u, name+\"/\") {\n\t\t\t\t\tnamed = true\n\t\t\t\t}\n\t\t\t}\n\t\t\tif !named {\n\t\t\t\tif ok, err := aclu.IdentifyAccount(t.sctx.AclMgr, string(name), tx.AuthRequire); !ok {\n\t\t\t\t\tt.log.Warn(\"verifyUTXOPermission error, failed to IdentifyAccount\", \"error\", err)\n\t\t\t\t\treturn false, ErrACLNotEnough\n\t\t\t\t}\n\t\t\t}\n")],
 # duplicate / aliasing signers
 "M2_every_component_of_a_verified_signer_uri_counts_as_verified": [(TV,
    "\t\tverifiedAddr[addr] = true\n\t}\n\treturn true, verifiedAddr, nil\n",
    "\t\tfor _, p := range splitRes {\n\t\t\tverifiedAddr[p] = true\n\t\t}\n\t}\n\treturn true, verifiedAddr, nil\n")],
 "M3_account_initiator_two_signatures_suffice": [(TV,
    "\t\tok, err := aclu.IdentifyAccount(t.sctx.AclMgr, tx.Initiator, initiatorAddr)\n\t\tif !ok {\n",
    "\t\tok, err := aclu.IdentifyAccount(t.sctx.AclMgr, tx.Initiator, initiatorAddr)\n\t\tif !ok && len(initiatorAddr) >= 2 {\n\t\t\tok = true\n\t\t}\n\t\tif !ok {\n")],
 "M8_signature_of_an_already_verified_key_accepted_for_another_signer": [(TV,
    "\t\tif _, has := verifiedAddr[addr]; has {\n\t\t\tcontinue\n\t\t}\n\t\tok, err := aclu.IdentifyAK(addr, signInfo, digestHash)\n",
    "\t\tif _, has := verifiedAddr[addr]; has {\n\t\t\tcontinue\n\t\t}\n\t\tif len(tx.InitiatorSigns) > 0 && signInfo.PublicKey == tx.InitiatorSigns[0].PublicKey && bytes.Equal(signInfo.Sign, tx.InitiatorSigns[0].Sign) {\n\t\t\tverifiedAddr[addr] = true\n\t\t\tcontinue\n\t\t}\n\t\tok, err := aclu.IdentifyAK(addr, signInfo, digestHash)\n")],
 # verifyXuperSign bindings
 "M5_xsign_fewer_public_keys_than_addresses": [(TV,
    "\tif len(addrList) != len(tx.GetXuperSign().GetPublicKeys()) {\n", "\tif len(addrList) < len(tx.GetXuperSign().GetPublicKeys()) {\n"),
    (TV, "\tfor idx, addr := range addrList {\n\t\tok, _ := t.sctx.Crypt.VerifyAddressUsingPublicKey(addr, pubkeys[idx])\n",
         "\tfor idx, addr := range addrList {\n\t\tif idx >= len(pubkeys) {\n\t\t\tbreak\n\t\t}\n\t\tok, _ := t.sctx.Crypt.VerifyAddressUsingPublicKey(addr, pubkeys[idx])\n")],
 # PlayAndRepost: pool interplay / unconfirmToConfirm shortcut
 "M4_play_rival_of_a_pooled_tx_taken_as_confirmed": [(ST,
    "\t\t\tUTXOKeysInBlock[utxoKey] = true\n\t\t}\n\t\tfor txOutOffset, txOut := range tx.TxOutputsExt {\n\t\t\tvalueVersion := xmodel.MakeVersion(tx.Txid, int32(txOutOffset))",
    "\t\t\tUTXOKeysInBlock[utxoKey] = true\n\t\t\tspenderInBlock[utxoKey] = string(tx.Txid)\n\t\t}\n\t\tfor txOutOffset, txOut := range tx.TxOutputsExt {\n\t\t\tvalueVersion := xmodel.MakeVersion(tx.Txid, int32(txOutOffset))"),
    (ST, "\tkeysVersionInBlock := map[string]string{}\n\tfor _, tx := range block.Transactions {\n\t\ttxidsInBlock[string(tx.Txid)] = true\n",
         "\tkeysVersionInBlock := map[string]string{}\n\tspenderInBlock := map[string]string{}\n\trivals := map[string]bool{}\n\tfor _, tx := range block.Transactions {\n\t\ttxidsInBlock[string(tx.Txid)] = true\n"),
    (ST, "\t\t\t\tt.log.Warn(\"conflict, refuse double spent\", \"key\", utxoKey, \"txid\", utils.F(unconfirmTx.Txid))\n\t\t\t\thasConflict = true\n",
         "\t\t\t\tt.log.Warn(\"conflict, refuse double spent\", \"key\", utxoKey, \"txid\", utils.F(unconfirmTx.Txid))\n\t\t\t\thasConflict = true\n\t\t\t\trivals[spenderInBlock[utxoKey]] = true\n"),
    (ST, "\treturn unconfirmToConfirm, undoDone, nil\n}",
         "\tfor id := range rivals {\n\t\tunconfirmToConfirm[id] = true // \"seen locally\": verifyDAGTxs and the apply loop skip it\n\t}\n\treturn unconfirmToConfirm, undoDone, nil\n}")],
 "M9_play_entry_under_pooled_id_applied_unverified": [(ST,
    "\t\tif unconfirmToConfirm[txid] == false { // 本地没预执行过的Tx, 从block中收到的，需要Play执行\n",
    "\t\tif unconfirmToConfirm[txid] {\n\t\t\t// follow the block: replace the local copy's effects by the block's copy\n\t\t\tif q, _, qerr := t.xmodel.QueryTx([]byte(txid)); qerr == nil && q != nil {\n\t\t\t\tif uerr := t.undoTxInternal(q, batch); uerr != nil {\n\t\t\t\t\treturn uerr\n\t\t\t\t}\n\t\t\t}\n\t\t}\n\t\t{\n")],
 # Walk: verification of block entries
 "M7_walk_skips_identical_copy_of_a_rolled_back_pool_tx(harmless)": [
    (ST, "\terr = t.procTodoBlkForWalk(todoBlocks)\n", "\terr = t.procTodoBlkForWalk(todoBlocks, undoList)\n"),
    (ST, "func (t *State) procTodoBlkForWalk(todoBlocks []*pb.InternalBlock) (err error) {\n\tvar todoBlk *pb.InternalBlock\n",
         "func samePooledTx(a, b *pb.Transaction) bool {\n\tif a == nil || b == nil {\n\t\treturn false\n\t}\n\tx, y := proto.Clone(a).(*pb.Transaction), proto.Clone(b).(*pb.Transaction)\n\tx.Blockid, y.Blockid = nil, nil\n\tx.ReceivedTimestamp, y.ReceivedTimestamp = 0, 0\n\treturn proto.Equal(x, y)\n}\n\nfunc (t *State) procTodoBlkForWalk(todoBlocks []*pb.InternalBlock, undoList []*pb.Transaction) (err error) {\n\tpooled := map[string]*pb.Transaction{}\n\tfor _, u := range undoList {\n\t\tpooled[string(u.Txid)] = u\n\t}\n\tvar todoBlk *pb.InternalBlock\n"),
    (ST, "\t\t\tif !tx.Autogen && !tx.Coinbase {\n\t\t\t\tif ok, err := t.ImmediateVerifyTx(tx, false); !ok {\n\t\t\t\t\treturn fmt.Errorf(\"immediate verify tx error.txid:%s,err:%v\", showTxId, err)",
         "\t\t\tif !tx.Autogen && !tx.Coinbase && !samePooledTx(pooled[string(tx.Txid)], tx) {\n\t\t\t\tif ok, err := t.ImmediateVerifyTx(tx, false); !ok {\n\t\t\t\t\treturn fmt.Errorf(\"immediate verify tx error.txid:%s,err:%v\", showTxId, err)")],
 "M10_walk_verifies_signatures_only_of_the_first_entry_per_initiator": [(ST,
    "func (t *State) procTodoBlkForWalk(todoBlocks []*pb.InternalBlock) (err error) {\n\tvar todoBlk *pb.InternalBlock\n",
    "func (t *State) procTodoBlkForWalk(todoBlocks []*pb.InternalBlock) (err error) {\n\tseenInitiator := map[string]bool{}\n\tvar todoBlk *pb.InternalBlock\n"),
    (ST, "\t\t\tif !tx.Autogen && !tx.Coinbase {\n\t\t\t\tif ok, err := t.ImmediateVerifyTx(tx, false); !ok {\n\t\t\t\t\treturn fmt.Errorf(\"immediate verify tx error.txid:%s,err:%v\", showTxId, err)",
         "\t\t\tif !tx.Autogen && !tx.Coinbase && !(seenInitiator[tx.Initiator] || t.sctx.Ledger.IsTxInTrunk(tx.Txid) && len(tx.TxInputs) == 1 && tx.GetXuperSign() == nil && len(tx.AuthRequire) == 0) {\n\t\t\t\tseenInitiator[tx.Initiator] = true\n\t\t\t\tif ok, err := t.ImmediateVerifyTx(tx, false); !ok {\n\t\t\t\t\treturn fmt.Errorf(\"immediate verify tx error.txid:%s,err:%v\", showTxId, err)")],
 # Chain.SubmitTx error handling
 "M6_submit_tx_goes_on_after_acl_error": [(CH,
    "\t_, err := t.ctx.State.VerifyTx(tx)\n\tif err != nil {\n", "\t_, err := t.ctx.State.VerifyTx(tx)\n\tif err != nil && err != state.ErrACLNotEnough {\n")],
 "M11_submit_tx_trusts_the_boolean_only": [(CH,
    "\t_, err := t.ctx.State.VerifyTx(tx)\n\tif err != nil {\n", "\tvalid, err := t.ctx.State.VerifyTx(tx)\n\tif err != nil && (!valid && len(tx.AuthRequire) == 0) {\n")],
}
ALL = list(SEEDED) + list(M)


def sh(cmd, **kw):
    return subprocess.run(cmd, shell=True, stdout=subprocess.PIPE, stderr=subprocess.STDOUT, text=True, **kw)


names = sys.argv[1:] or ALL
env = dict(os.environ, GOFLAGS="-mod=mod", GOPROXY="off", GOSUMDB="off", GOTOOLCHAIN="local", VERIF_REPO=WT)
for name in names:
    key = [k for k in ALL if k.startswith(name)][0]
    sh("git checkout -- .", cwd=WT)
    ok = True
    if key in SEEDED:
        a = sh("git apply /verif/seeded/round3/" + SEEDED[key], cwd=WT)
        if a.returncode != 0:
            print(key, "DOES NOT APPLY:", a.stdout[-300:]); continue
    else:
        for f, old, new in M[key]:
            p = os.path.join(WT, f)
            s = open(p).read()
            if old not in s:
                print(key, "PATTERN NOT FOUND in", f, repr(old[:60])); ok = False; break
            open(p, "w").write(s.replace(old, new, 1))
    if not ok:
        continue
    b = sh("go build ./bcs/ledger/xledger/state/... ./kernel/engines/xuperos/ ./kernel/permission/...", cwd=WT, env=env)
    if b.returncode != 0:
        print(key, "DOES NOT BUILD:", b.stdout[-600:]); continue
    r = sh("./check C07", cwd="/verif", env=env)
    v = [l for l in r.stdout.splitlines() if "VIOLATION" in l or l.startswith("  ") or "UNDECIDED" in l or l.startswith("OK ")]
    print("%-72s exit=%d  %s" % (key, r.returncode, " | ".join(x.strip()[:260] for x in v[:2])), flush=True)
sh("git checkout -- .", cwd=WT)
