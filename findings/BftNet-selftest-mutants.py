#!/usr/bin/env python3
"""Mutation self-test of the multi-replica phase of C15 (spec/BftNet.tla, harness/cmd/bftnet).

usage: BftNet-selftest-mutants.py <worktree> <mutant>|list|reset
  git -C /repo worktree add --detach /tmp/wt_bftnet HEAD
  cp /repo/kernel/consensus/base/driver/chained-bft/export_bftnet_verif.go /tmp/wt_bftnet/kernel/consensus/base/driver/chained-bft/
  findings/BftNet-selftest-mutants.py /tmp/wt_bftnet m1 && VERIF_REPO=/tmp/wt_bftnet ./check C15     -> exit 1 + VIOLATION
Never touches /repo: every mutant is a textual edit of the scratch worktree's chained-bft package (reset = git checkout).
"""
import subprocess
import sys

PKG = "kernel/consensus/base/driver/chained-bft/"
MUTANTS = {
    # a replica votes again in a round it voted in, and in any lower round (vote uniqueness)
    "m1": ("vote twice / for any lower round: VoteProposal no longer compares with lastVoteRound", "saftyrules.go",
           "\tif proposalRound < s.lastVoteRound-3 {\n\t\treturn false\n\t}\n\tif parentQc", "\tif parentQc"),
    # the locking rule compares off by one
    "m2": ("locking rule off by one: VoteProposal refuses justify <= preferredRound-3", "saftyrules.go",
           "if parentQc.GetProposalView() < s.preferredRound-3 {", "if parentQc.GetProposalView() <= s.preferredRound-3 {"),
    # the lock is taken one round too low
    "m2b": ("lock one round too low: UpdatePreferredRound uses round-2", "saftyrules.go",
            "\tif round-1 > s.preferredRound {\n\t\ts.preferredRound = round - 1", "\tif round-2 > s.preferredRound {\n\t\ts.preferredRound = round - 2"),
    # a certificate forms with one vote less
    "m3": ("QC below quorum: CalVotesThreshold counts two for the collector", "saftyrules.go",
           "\treturn input+1 >= sum-f", "\treturn input+2 >= sum-f"),
    # the root moves to the grandparent of the justify (2-chain) instead of the great-grandparent
    "m4": ("commit rule 2-chain: updateCommit moves the root to the 2nd ancestor", "context.go",
           "\tt.Root = parentParentParent\n", "\tt.Root = parentParent\n"),
    # CommitQC is the 2nd ancestor of HighQC (same as LockedQC)
    "m4b": ("commit rule 2-chain: updateHighQC sets CommitQC to the 2nd ancestor", "context.go",
            "\tt.CommitQC = parentParentParent\n\tt.Log.Debug(\"QCPendingTree::updateHighQC\"", "\tt.CommitQC = parentParent\n\tt.Log.Debug(\"QCPendingTree::updateHighQC\""),
    # a proposal is accepted whatever its justify carries
    "m5": ("stale / empty justify accepted: CheckProposal no longer requires enough votes", "saftyrules.go",
           "\tif !s.CalVotesThreshold(validCnt, len(justifyValidators)) {\n\t\treturn NoEnoughVotes\n\t}", "\t_ = validCnt"),
    # a proposal whose justify is unknown and far from the root is accepted
    "m5b": ("proposal accepted although its justify is not in the tree and its view is outside the window", "saftyrules.go",
            "\t\t\treturn EmptyParentNode\n", "\t\t\t_ = parentNode\n"),
    # the pacemaker advances on every vote, not only on a full certificate
    "m6": ("pacemaker advances without a certificate: AdvanceView before the threshold test", "smr.go",
           "\tif !s.saftyrules.CalVotesThreshold(VoteLen, len(s.Election.GetValidators(voteQC.GetProposalView()))) {\n\t\treturn nil\n\t}\n",
           "\ts.pacemaker.AdvanceView(voteQC)\n\tif !s.saftyrules.CalVotesThreshold(VoteLen, len(s.Election.GetValidators(voteQC.GetProposalView()))) {\n\t\treturn nil\n\t}\n"),
    # the pacemaker advances on a justify that failed CheckProposal
    "m6b": ("pacemaker advances on an invalid justify: AdvanceView before CheckProposal", "smr.go",
            "\tisFirstJustify := bytes.Equal(s.qcTree.Genesis.In.GetProposalId(), parentQC.GetProposalId())\n",
            "\tisFirstJustify := bytes.Equal(s.qcTree.Genesis.In.GetProposalId(), parentQC.GetProposalId())\n\ts.pacemaker.AdvanceView(parentQC)\n"),
    # lastVoteRound is not raised by a vote
    "m7": ("lastVoteRound never raised", "saftyrules.go",
           "\ts.increaseLastVoteRound(proposalRound)\n\treturn true", "\treturn true"),
    # the same voter is counted twice
    "m8": ("votes not de-duplicated: the same signer is stored again", "smr.go",
           "\t\t\tif sign.Address == voteQC.SignInfos[0].Address || voteQC.SignInfos[0].Address == s.address {", "\t\t\tif sign == nil || voteQC.SignInfos[0].Address == s.address {"),
    # the vote goes to the leader of the current view instead of the next
    "m9": ("vote sent to the wrong leader (current view)", "smr.go",
           "nextLeader := s.Election.GetLeader(s.pacemaker.GetCurrentView() + 1)", "nextLeader := s.Election.GetLeader(s.pacemaker.GetCurrentView())"),
    # a new HighQC must be strictly higher (the code takes the newest of equal height)
    "m10": ("updateHighQC keeps the old HighQC on a tie", "context.go",
            "\tif node.In.GetProposalView() < t.GetHighQC().In.GetProposalView() {", "\tif node.In.GetProposalView() <= t.GetHighQC().In.GetProposalView() {"),
    # the justify sent with a proposal lacks the commit id
    "m11": ("proposals never carry a commit id", "smr.go",
            "\t\tcommitId = s.qcTree.GetCommitQC().In.GetProposalId()\n", "\t\tcommitId = nil\n"),
    # a vote is accepted for a proposal that is not in the tree
    "m12": ("votes counted for a proposal that is not in the tree", "smr.go",
            "\tif node := s.qcTree.DFSQueryNode(voteQC.GetProposalId()); node == nil {\n\t\ts.log.Debug(\"smr::handleReceivedVoteMsg::haven't finish proposal process, drop it.\")\n\t\treturn EmptyTarget\n\t}\n", ""),
    # the pacemaker window is one view wider
    "m13": ("CheckPacemaker accepts a proposal three views below the pacemaker", "saftyrules.go",
            "\tif pending <= local-3 {", "\tif pending <= local-4 {"),
    # CheckProposal accepts a proposal four views below the last vote
    "m14": ("CheckProposal window one view wider (lastVoteRound-4)", "saftyrules.go",
            "\tif proposal.GetProposalView() < s.lastVoteRound-3 {", "\tif proposal.GetProposalView() < s.lastVoteRound-4 {"),
    # the ledger gate is one view wider
    "m15": ("ledger gate one view wider (ledgerState+4)", "smr.go",
            "\tif s.ledgerState+3 < newVote.ProposalView {", "\tif s.ledgerState+4 < newVote.ProposalView {"),
    # CheckVote window at the collector one view wider
    "m16": ("CheckVote accepts a vote four views below the collector's last vote", "saftyrules.go",
            "\tif qc.GetProposalView() < s.lastVoteRound-3 {", "\tif qc.GetProposalView() < s.lastVoteRound-4 {"),
}


def main():
    if len(sys.argv) < 3:
        print(__doc__)
        sys.exit(64)
    wt, m = sys.argv[1], sys.argv[2]
    if m == "list":
        for k, v in MUTANTS.items():
            print(k, "-", v[0])
        return
    subprocess.check_call(["git", "-C", wt, "checkout", "--", PKG])
    if m == "reset":
        return
    desc, fn, old, new = MUTANTS[m]
    path = "%s/%s%s" % (wt, PKG, fn)
    s = open(path).read()
    if s.count(old) != 1:
        print("mutant %s does not apply (%d matches)" % (m, s.count(old)))
        sys.exit(3)
    open(path, "w").write(s.replace(old, new))
    print("applied %s: %s" % (m, desc))


main()
