----------------------------- MODULE Gen_Ledger -----------------------------
(* Behaviour generation: simulate Ledger and dump each behaviour's op history as JSON. *)
EXTENDS Ledger, Json
Dump == Len(hist) < MaxOps \/ (JsonSerialize("out/b_" \o ToString(TLCGet("stats").traces) \o ".json", hist) /\ FALSE)
=============================================================================
