SPECIFICATION TSpec
CONSTANTS
  MaxDev = 1
  FullOwners = FALSE
  KF_XuperSignSingleKey = FALSE
  KF_MarkedRefSoftAccept = FALSE
  KF_GhostAccountInitiator = FALSE
  KF_V1OmitsHDInfo = FALSE
  KF_V12OmitsEmpty = FALSE
  KF_MarkedFlagUncovered = FALSE
  KF_CoinbaseRider = FALSE
  KF_PlayPooledIdUnchecked = FALSE
CONSTRAINT Book
POSTCONDITION Post
CHECK_DEADLOCK FALSE
