\* every schedule (normal forms) of all scenarios of two requests
SPECIFICATION GenSpec
CONSTANTS
  KF_SharedLockRefCountRace = TRUE
  Sizes = {2}
  KvPool <- KvPoolFull
  TokPool <- TokPoolFull
  MixPool <- MixPoolFull
  Extra <- NoExtra
  GFirst = TRUE
  SelDet = TRUE
  RecSteps = FALSE
  LogOn = TRUE
  POR = TRUE
CONSTRAINT DumpAll
CHECK_DEADLOCK FALSE
