------------------------------- MODULE BftNet -------------------------------
(***************************************************************************)
(* A network of chained-BFT replicas.  Every replica is the Smr of         *)
(* kernel/consensus/base/driver/chained-bft (pending tree + five markers,  *)
(* pacemaker view, lastVoteRound / preferredRound, collected votes, local  *)
(* proposal table, ledger state) written LIKE THE CODE on top of the tree  *)
(* mutators of QCTree (InsertF / CertifyF / CommitF / EnforceF) and the    *)
(* handler structure of QCSmr; replicas exchange ProposalMsg / VoteMsg     *)
(* through a network that delivers in any order, any number of times       *)
(* (messages are never removed from the in-flight sets: a message that is  *)
(* never delivered is lost, one delivered twice is duplicated).            *)
(*                                                                         *)
(* One action per real call:                                               *)
(*   NPropose(r)          Smr.ProcessProposal (the plugin calls it for the *)
(*                        block it just produced on top of its HighQC)     *)
(*   NConfirm(r, p)       block p is confirmed in r's ledger:              *)
(*                        [CheckProposal of CheckMinerMatch, not for the   *)
(*                        producer], UpdateJustifyQcStatus(justify of p),  *)
(*                        UpdateQcStatus(p)                                *)
(*   NDeliverProp(to, p)  handleReceivedProposal                           *)
(*   NDeliverVote(to,p,v) handleReceivedVoteMsg                            *)
(*   NRollback(r, t)      EnforceUpdateHighQC                              *)
(*   NByzVote / NByzProp  (Byz # 0) the byzantine validator injects a vote *)
(*                        for any proposal to anybody / a proposal below   *)
(*                        any proposal with whatever signatures exist      *)
(*                                                                         *)
(* par (QCTree's variable) grows: proposal n+1 is created by NPropose with *)
(* parent = the producer's HighQC; a proposal's view is its height.        *)
(* The single-node variables of QCTree / QCSmr are not used (frozen).      *)
(*                                                                         *)
(* IDEAL (all KF_* FALSE) is the design in which the safety invariants     *)
(* hold; ACTUAL = what the code does:                                      *)
(*   KF_VoteWindow         VoteProposal refuses only proposalRound <       *)
(*                         lastVoteRound - 3: a replica votes for several  *)
(*                         proposals of one view and for lower views       *)
(*   KF_LockWindow         VoteProposal refuses only parentView <          *)
(*                         preferredRound - 3                              *)
(*   KF_ImplicitCollector  handleReceivedVoteMsg counts the collector      *)
(*                         itself (input+1) whether or not it voted        *)
(***************************************************************************)
EXTENDS QCSmr

CONSTANTS NR,            \* number of validators
          Live,          \* the honest replicas that take steps (real Smr instances in the conformance run)
          Byz,           \* 0, or the validator that is byzantine (not in Live)
          MaxProps,      \* model checking: number of proposals created
          MaxView,       \* model checking: highest view a proposal is created for
          AnyProposer,   \* TRUE: any live replica may produce a block; FALSE: only Leader(view)
          WithConfirm,   \* model checking: blocks are confirmed by other replicas than the producer
          WithRollback,  \* model checking: EnforceUpdateHighQC(GenericQC) steps
          OncePerHigh,   \* model checking: a replica builds at most one block on the same HighQC
          MaxLag,        \* model checking: only messages about proposals of the last MaxLag + 1 views are delivered
          LogOn,         \* the history variable is kept (FALSE for liveness checking)
          KF_VoteWindow, KF_LockWindow, KF_ImplicitCollector

VARIABLES rep,      \* replica -> its state (a record, see R0)
          pmsgs,    \* ProposalMsg in flight: [to, p] (content = pj[p])
          vmsgs,    \* VoteMsg in flight: [to, p, src]
          pj,       \* proposal -> [src, js, cf, own]: producer, signers of the justify, justify carries a commit id,
                    \*             the producer has confirmed its block
          voted,    \* ghost: replica -> proposals for which VoteProposal returned true
          certd,    \* ghost: proposals for which some collector reached the vote threshold
          lockb,    \* ghost: replica -> the node its preferredRound stands for
          enfr      \* ghost: the replica whose HighQC was moved by an explicit rollback in the last step (0: none)
nvars == <<svars, rep, pmsgs, vmsgs, pj, voted, certd, lockb, enfr>>
Frozen == UNCHANGED <<main, orph, oatt, omap, root, high, generic, locked, commit, wr, accepted, enf, pview,
                      lp, ledger, lastVote, pref, votes>>

Reps == 1..NR
Faulty == (NR - 1) \div 3
Quorum == NR - Faulty
Thr(len) == len + 1 >= Quorum                 \* DefaultSaftyRules.CalVotesThreshold(len, NR)
Leader(v) == (v % NR) + 1                     \* Election.GetLeader of the conformance driver
NProps == Len(par)

(* the deviations in force, and none *)
KAct == [vw |-> KF_VoteWindow, lw |-> KF_LockWindow, ic |-> KF_ImplicitCollector,
         st |-> KF_StaleMarkers, fm |-> KF_OrphanFirstMatchOnly]
KIdeal == [vw |-> FALSE, lw |-> FALSE, ic |-> FALSE, st |-> FALSE, fm |-> FALSE]

(* common.InitQCTree + NewSmr *)
R0 == [main |-> {0}, orph |-> <<>>, oatt |-> {}, omap |-> {}, root |-> 0, high |-> 0,
       generic |-> Nil, locked |-> Nil, commit |-> 0, w |-> {},
       lp |-> {0}, ledger |-> 0, lastVote |-> 0, pref |-> 0, votes |-> {}, pview |-> 0, conf |-> {0}]
VotesOf(s, p) == {m \in Reps : <<p, m>> \in s.votes}                 \* qcVoteMsgs[p] (signers)
AddVotes(s, p, S) == [s EXCEPT !.votes = @ \cup {<<p, m>> : m \in S}]
RPV(s) == IF s.root = 0 THEN 0 ELSE View(s.root) - 1                 \* Root.In.GetParentView()

-----------------------------------------------------------------------------
(* DefaultSaftyRules.CheckProposal(proposal p, justify signed by js) *)
CheckProposalOK(s, p, js, k) ==
  /\ View(p) >= s.lastVote - 3
  /\ (Par(p) \in s.main \/ (View(p) > RPV(s) /\ View(p) <= View(s.root) + 6))
  /\ IF k.ic THEN Thr(Cardinality(js \cap Reps))           \* the code adds one for the collector, unseen
     ELSE Cardinality(js \cap Reps) >= Quorum              \* IDEAL: the collector's own signature is in the justify

(* DefaultSaftyRules.VoteProposal refuses *)
VoteRefused(s, p, pf, k) ==
  \/ IF k.vw THEN View(p) < s.lastVote - 3 ELSE View(p) <= s.lastVote
  \/ IF k.lw THEN View(Par(p)) < pf - 3 ELSE View(Par(p)) < pf

(* Smr.ProcessProposal by replica r for a new block on its HighQC *)
ProposeRes(s) ==
  IF s.pview # 1 /\ s.locked # Nil /\ s.pview < View(s.locked) THEN "toolow"      \* TooLowNewProposal
  ELSE IF s.high # 0 /\ VotesOf(s, s.high) = {} THEN "novotes"                     \* JustifyVotesEmpty
  ELSE "ok"
JustifyOf(s, r, vs, k) ==                                                          \* reloadJustifyQC
  [js |-> IF s.high = 0 THEN {} ELSE VotesOf(s, s.high) \cup (IF ~k.ic /\ s.high \in vs THEN {r} ELSE {}),
   cf |-> s.high # 0 /\ s.commit # Nil]

(* handleReceivedProposal at replica self: proposal p with content j = pj[p].  Returns the new state, the
   messages sent and whether VoteProposal returned true.  The steps in the handler's order. *)
PropMsg(to, p) == [to |-> to, p |-> p]
VoteMsgRec(to, p, src) == [to |-> to, p |-> p, src |-> src]
HandleProp(s, self, p, j, k) ==
  IF p \in s.lp THEN [s |-> s, po |-> {}, vo |-> {}, v |-> FALSE, lk |-> FALSE]                \* LoadOrStore: seen before
  ELSE
  LET q == Par(p)
      s0 == [s EXCEPT !.lp = @ \cup {p}]
  IN IF (q # 0 /\ ~CheckProposalOK(s, p, j.js, k)) \/ s.ledger + 3 < View(p)                       \* 0. 1.
     THEN [s |-> s0, po |-> {}, vo |-> {}, v |-> FALSE, lk |-> FALSE]
     ELSE
     LET pv == Mx(s.pview, View(q) + 1)                                                        \* 2. AdvanceView(justify)
         echo == IF j.src # self THEN {PropMsg(j.src, p)} ELSE {}                              \*    "notify the leader"
         s1 == IF j.cf THEN CommitF(s0, q) ELSE s0                                             \* 3. updateCommit
         pf == IF j.cf THEN Mx(s.pref, View(q) - 1) ELSE s.pref                                \*    UpdatePreferredRound
         s2 == [s1 EXCEPT !.pview = pv, !.pref = pf]
     IN IF View(p) <= pv - 3 \/ VoteRefused(s, p, pf, k)                                       \* 4. CheckPacemaker, VoteProposal
        THEN [s |-> s2, po |-> echo, vo |-> {}, v |-> FALSE, lk |-> j.cf]
        ELSE LET s3 == InsertF([s2 EXCEPT !.lastVote = Mx(@, View(p))], p, k.fm, k.st)         \* 5. updateQcStatus
                 nl == Leader(pv + 1)                                                          \* 6. vote to the next leader
             IN [s |-> s3, po |-> echo, vo |-> IF nl # self THEN {VoteMsgRec(nl, p, self)} ELSE {},
                 v |-> TRUE, lk |-> j.cf]

(* handleReceivedVoteMsg at replica self: vote of v for p.  sv: self voted for p (used by IDEAL only) *)
HandleVote(s, self, p, v, sv, k) ==
  IF \/ v \notin Reps
     \/ View(p) < s.lastVote - 3 \/ View(Par(p)) < s.pref - 3          \* CheckVote: TooLowVoteView / TooLowVParentView
     \/ p \notin s.lp \/ p \notin s.main                                \* vote before proposal / not in the tree
  THEN [s |-> s, res |-> "reject", full |-> FALSE]
  ELSE LET cur == VotesOf(s, p)
           st == IF cur # {} /\ v = self THEN cur ELSE cur \cup {v}
           full == IF k.ic THEN Thr(Cardinality(st))
                   ELSE Cardinality(st \cup (IF sv THEN {self} ELSE {})) >= Quorum
           s1 == AddVotes(s, p, st)
       IN IF full THEN [s |-> CertifyF([s1 EXCEPT !.pview = Mx(@, View(p) + 1)], p, k.st), res |-> "ok", full |-> TRUE]
          ELSE [s |-> s1, res |-> "ok", full |-> FALSE]

(* block p confirmed in the ledger of replica r *)
ConfirmF(s, r, p, j, k) ==
  LET q == Par(p) IN
  IF r # j.src /\ q # 0 /\ ~CheckProposalOK(s, p, j.js, k) THEN [s |-> s, res |-> "refused"]      \* CheckMinerMatch
  ELSE LET s1 == IF j.js = {} THEN s ELSE CertifyF(AddVotes(s, q, j.js), q, k.st)            \* UpdateJustifyQcStatus
           s2 == InsertF([s1 EXCEPT !.ledger = Mx(@, View(p)), !.conf = @ \cup {p}], p, k.fm, k.st)   \* UpdateQcStatus
       IN [s |-> s2, res |-> "ok"]

-----------------------------------------------------------------------------
SetRep(r, s) == rep' = [rep EXCEPT ![r] = s]
NLog(e) == hist' = IF LogOn THEN Append(hist, e) ELSE hist
PSeq(S) == SetToSortSeq(S, LAMBDA a, b : a.to < b.to \/ (a.to = b.to /\ a.p < b.p))
VSeq(S) == SetToSortSeq(S, LAMBDA a, b : a.to < b.to \/ (a.to = b.to /\ (a.p < b.p \/ (a.p = b.p /\ a.src < b.src))))
(* what a ProposalMsg looks like on the wire *)
Wire(to, p, v, q, j) == [to |-> to, p |-> p, v |-> v, q |-> q, jv |-> View(q), src |-> j.src, js |-> SetToSortSeq(j.js, <), cf |-> j.cf]
VWire(m) == [to |-> m.to, p |-> m.p, v |-> View(m.p), q |-> Par(m.p), src |-> m.src]
VWires(S) == [i \in DOMAIN VSeq(S) |-> VWire(VSeq(S)[i])]

NPropose(r) ==
  /\ r \in Reps /\ Frozen
  /\ LET s == rep[r]  res == ProposeRes(s)  j == JustifyOf(s, r, voted[r], KAct)  p == NProps + 1 IN
     IF res # "ok"
     THEN /\ UNCHANGED <<par, rep, pmsgs, vmsgs, pj, voted, certd, lockb>> /\ enfr' = 0
          /\ NLog([op |-> "propose", r |-> r, res |-> res, sp |-> <<>>, sv |-> <<>>])
     ELSE /\ par' = Append(par, s.high)
          /\ pj' = Append(pj, [src |-> r, js |-> j.js, cf |-> j.cf, own |-> FALSE])
          /\ pmsgs' = pmsgs \cup {PropMsg(i, p) : i \in Reps \ {r}}
          /\ UNCHANGED <<rep, vmsgs, voted, certd, lockb>> /\ enfr' = 0
          /\ NLog([op |-> "propose", r |-> r, res |-> "ok", sv |-> <<>>,
                  sp |-> [i \in 1..(NR - 1) |-> Wire(IF i < r THEN i ELSE i + 1, p, View(s.high) + 1, s.high,
                                                        [src |-> r, js |-> j.js, cf |-> j.cf])]])

NConfirm(r, p) ==
  /\ r \in Reps /\ Frozen /\ UNCHANGED <<par, pmsgs, vmsgs, voted, certd, lockb>> /\ enfr' = 0
  /\ IF p \notin Props
     THEN UNCHANGED <<rep, pj>> /\ NLog([op |-> "confirm", r |-> r, p |-> p, res |-> "noblock", sp |-> <<>>, sv |-> <<>>])
     ELSE LET o == ConfirmF(rep[r], r, p, pj[p], KAct) IN
          /\ SetRep(r, o.s)
          /\ pj' = IF r = pj[p].src /\ o.res = "ok" THEN [pj EXCEPT ![p].own = TRUE] ELSE pj
          /\ NLog([op |-> "confirm", r |-> r, p |-> p, res |-> o.res, sp |-> <<>>, sv |-> <<>>])

NDeliverProp(to, p) ==
  /\ to \in Reps /\ Frozen /\ UNCHANGED <<par, pj, certd>> /\ enfr' = 0
  /\ IF p \notin Props \/ PropMsg(to, p) \notin pmsgs
     THEN /\ UNCHANGED <<rep, pmsgs, vmsgs, voted, lockb>>
          /\ NLog([op |-> "dprop", to |-> to, p |-> p, res |-> "nomsg", sp |-> <<>>, sv |-> <<>>])
     ELSE LET o == HandleProp(rep[to], to, p, pj[p], KAct)  q == Par(p) IN
          /\ SetRep(to, o.s)
          /\ pmsgs' = pmsgs \cup o.po /\ vmsgs' = vmsgs \cup o.vo
          /\ voted' = IF o.v THEN [voted EXCEPT ![to] = @ \cup {p}] ELSE voted
          /\ lockb' = IF o.lk /\ View(Par(q)) > View(lockb[to]) THEN [lockb EXCEPT ![to] = Par(q)] ELSE lockb
          /\ NLog([op |-> "dprop", to |-> to, p |-> p, res |-> "ok",
                  sp |-> [i \in DOMAIN PSeq(o.po) |-> Wire(PSeq(o.po)[i].to, p, View(p), q, pj[p])], sv |-> VWires(o.vo)])

NDeliverVote(to, p, v) ==
  /\ to \in Reps /\ Frozen /\ UNCHANGED <<par, pj, pmsgs, vmsgs, voted, lockb>> /\ enfr' = 0
  /\ IF p \notin Props \/ VoteMsgRec(to, p, v) \notin vmsgs
     THEN /\ UNCHANGED <<rep, certd>>
          /\ NLog([op |-> "dvote", to |-> to, p |-> p, src |-> v, res |-> "nomsg", sp |-> <<>>, sv |-> <<>>])
     ELSE LET o == HandleVote(rep[to], to, p, v, p \in voted[to], KAct) IN
          /\ SetRep(to, o.s)
          /\ certd' = IF o.full THEN certd \cup {p} ELSE certd
          /\ NLog([op |-> "dvote", to |-> to, p |-> p, src |-> v, res |-> o.res, sp |-> <<>>, sv |-> <<>>])

NRollback(r, t) ==
  /\ r \in Reps /\ Frozen /\ UNCHANGED <<par, pj, pmsgs, vmsgs, voted, certd, lockb>>
  /\ SetRep(r, EnforceF(rep[r], t))
  /\ enfr' = IF EnforceOk(rep[r], t) THEN r ELSE 0
  /\ NLog([op |-> "rollback", r |-> r, t |-> t, res |-> IF EnforceOk(rep[r], t) THEN "ok" ELSE "err", sp |-> <<>>, sv |-> <<>>])

(* the byzantine validator: a vote for any proposal to anybody (it signs as itself only) ... *)
NByzVote(to, p) ==
  /\ Byz # 0 /\ to \in Reps \ {Byz} /\ p \in Props /\ Frozen
  /\ vmsgs' = vmsgs \cup {VoteMsgRec(to, p, Byz)}
  /\ UNCHANGED <<par, rep, pmsgs, pj, voted, certd, lockb>> /\ enfr' = 0
  /\ NLog([op |-> "byzvote", byz |-> Byz, to |-> to, p |-> p, res |-> "ok", sp |-> <<>>, sv |-> <<>>])
(* ... and a block below any proposal q, justified by the signatures of the votes for q that exist in the network
   plus its own, sent to everybody; it never says whether a commit id is present in a consistent way: cf is free *)
SigsFor(q) == {m.src : m \in {x \in vmsgs : x.p = q}} \cup {Byz}
NByzProp(q, cf) ==
  /\ Byz # 0 /\ q \in Ids /\ Frozen
  /\ LET p == NProps + 1 IN
     /\ par' = Append(par, q)
     /\ pj' = Append(pj, [src |-> Byz, js |-> IF q = 0 THEN {} ELSE SigsFor(q), cf |-> cf /\ q # 0, own |-> TRUE])
     /\ pmsgs' = pmsgs \cup {PropMsg(i, p) : i \in Reps \ {Byz}}
     /\ UNCHANGED <<rep, vmsgs, voted, certd, lockb>> /\ enfr' = 0
     /\ NLog([op |-> "byzprop", byz |-> Byz, q |-> q, cf |-> cf /\ q # 0, js |-> SetToSortSeq(IF q = 0 THEN {} ELSE SigsFor(q), <),
             res |-> "ok", sp |-> <<>>, sv |-> <<>>])

NInit ==
  /\ par = <<>> /\ hist = <<>>
  /\ main = {0} /\ orph = <<>> /\ oatt = {} /\ omap = {} /\ root = 0 /\ high = 0 /\ generic = Nil /\ locked = Nil
  /\ commit = 0 /\ wr = {} /\ accepted = {} /\ enf = FALSE /\ pview = 0
  /\ lp = {0} /\ ledger = 0 /\ lastVote = 0 /\ pref = 0 /\ votes = <<>>
  /\ rep = [r \in Reps |-> R0] /\ pmsgs = {} /\ vmsgs = {} /\ pj = <<>>
  /\ voted = [r \in Reps |-> {}] /\ certd = {} /\ lockb = [r \in Reps |-> 0] /\ enfr = 0
NReset ==
  /\ Frozen /\ par' = <<>> /\ hist' = <<>>
  /\ rep' = [r \in Reps |-> R0] /\ pmsgs' = {} /\ vmsgs' = {} /\ pj' = <<>>
  /\ voted' = [r \in Reps |-> {}] /\ certd' = {} /\ lockb' = [r \in Reps |-> 0] /\ enfr' = 0

(* model checking: who may produce the next block, what may be confirmed; while a producer has not yet confirmed its
   own block nothing else happens (the plugin calls ProcessProposal and UpdateQcStatus back to back) *)
MayPropose(r) == /\ NProps < MaxProps /\ View(rep[r].high) + 1 <= MaxView
                 /\ (AnyProposer \/ Leader(View(rep[r].high) + 1) = r)
                 /\ (~OncePerHigh \/ ~\E p \in Props : Par(p) = rep[r].high /\ pj[p].src = r)
                 /\ ProposeRes(rep[r]) = "ok"
TopView == IF Props = {} THEN 0 ELSE View(CHOOSE p \in Props : \A x \in Props : View(x) <= View(p))
Timely(p) == View(p) + MaxLag >= TopView
OwnPending == {p \in Props : ~pj[p].own /\ pj[p].src \in Live}
NNext ==
  /\ Len(hist) < MaxOps
  /\ IF OwnPending # {} THEN \E p \in OwnPending : NConfirm(pj[p].src, p)
     ELSE \/ \E r \in Live : MayPropose(r) /\ NPropose(r)
          \/ \E m \in pmsgs : m.to \in Live /\ Timely(m.p) /\ NDeliverProp(m.to, m.p)
          \/ \E m \in vmsgs : m.to \in Live /\ Timely(m.p) /\ NDeliverVote(m.to, m.p, m.src)
          \/ WithConfirm /\ \E r \in Live, p \in Props : p \notin rep[r].conf /\ Par(p) \in rep[r].conf /\ NConfirm(r, p)
          \/ WithRollback /\ \E r \in Live : rep[r].generic # Nil /\ NRollback(r, rep[r].generic)
          \/ Byz # 0 /\ \E to \in Live, p \in Props : VoteMsgRec(to, p, Byz) \notin vmsgs /\ NByzVote(to, p)
          \/ Byz # 0 /\ NProps < MaxProps /\ \E q \in Ids : View(q) < MaxView /\ NByzProp(q, q # 0)
NSpec == NInit /\ [][NNext]_nvars

-----------------------------------------------------------------------------
(* observable projection of one replica, and of the network *)
RObs(s) == [ t |-> ObsOf(s, s.pview),
             known |-> [i \in Props |-> i \in s.lp],
             ledger |-> s.ledger,
             votes |-> [i \in Props |-> SetToSortSeq(VotesOf(s, i), <)],
             lastVote |-> s.lastVote, pref |-> s.pref ]
NObs == [r \in Reps |-> RObs(rep[r])]

-----------------------------------------------------------------------------
(* Properties (asserted on IDEAL) *)
Honest == Reps \ {Byz}
Comparable(a, b) == a \in Anc(b) \/ b \in Anc(a)
NTypeOK == /\ \A r \in Reps : /\ rep[r].main \subseteq Ids /\ rep[r].root \in rep[r].main /\ rep[r].high \in Ids
                              /\ rep[r].lp \subseteq Ids /\ rep[r].votes \subseteq (Ids \X Reps)
           /\ \A m \in pmsgs : m.to \in Reps /\ m.p \in Props
           /\ \A m \in vmsgs : m.to \in Reps /\ m.p \in Props /\ m.src \in Reps
           /\ Len(pj) = Len(par)
(* every replica's structure is a tree rooted at its root *)
TreesOK == \A r \in Live : LET s == rep[r] IN
              /\ \A x \in s.main \ {s.root} : Par(x) \in s.main
              /\ \A x \in s.main : s.root \in Anc(x)
              /\ s.main \cap LiveOrphOf(s) = {}
(* SAFETY: what honest replicas have decided (root = committed by updateCommit, CommitQC marker) lies on one chain *)
Decided(r) == {rep[r].root} \cup (IF rep[r].commit # Nil THEN {rep[r].commit} ELSE {})
CommitSafety == \A r1, r2 \in Live : \A a \in Decided(r1), b \in Decided(r2) : Comparable(a, b)
(* a replica votes at most once per view *)
VoteOnce == \A r \in Live : \A a, b \in voted[r] : a # b => View(a) # View(b)
(* a certificate exists only with a quorum of distinct validators that voted (the collector counts if it voted itself) *)
Voters4(p) == {r \in Honest : p \in voted[r]} \cup (IF Byz # 0 THEN {Byz} ELSE {})
QuorumBacked == \A p \in certd : Cardinality(Voters4(p)) >= Quorum
(* whatever a replica holds as certified (HighQC, unless put there by a rollback; justify of every known block) is
   backed by a quorum of voters *)
Backed(p) == p = 0 \/ Cardinality(Voters4(p)) >= Quorum
(* at most one certified proposal per view *)
OneQCPerView == \A a, b \in certd : a # b => View(a) # View(b)
(* locking: preferredRound is the view of the ghost lock block *)
LockIsPref == \A r \in Live : rep[r].pref = View(lockb[r])

(* with view = height the pacemaker is never behind the last vote and two views ahead of the lock: CheckPacemaker
   (view > pview - 3) refuses everything VoteProposal's two comparisons would refuse - they are dead code *)
WindowsShadowed == \A r \in Live : rep[r].pview >= rep[r].lastVote /\ (rep[r].pref > 0 => rep[r].pview >= rep[r].pref + 2)

(* action properties *)
NHighMonotone == [][\A r \in Live : enfr' = r \/ View(rep'[r].high) >= View(rep[r].high)]_nvars
NRootMoves == [][\A r \in Live : rep'[r].root # rep[r].root => (rep[r].root \in Anc(rep'[r].root) /\ rep'[r].root \in rep[r].main)]_nvars
NCommitStable == [][\A r \in Live : (rep[r].commit # Nil /\ rep'[r].commit # Nil) => Comparable(rep[r].commit, rep'[r].commit)]_nvars
NPaceMonotone == [][\A r \in Live : rep'[r].pview >= rep[r].pview]_nvars
NVotesRise == [][\A r \in Live : \A p \in voted'[r] \ voted[r] : \A a \in voted[r] : View(p) > View(a)]_nvars
(* the locking rule: a replica votes for p only if p extends its lock block or p's justify is above the lock *)
NLockSafe == [][\A r \in Live : \A p \in voted'[r] \ voted[r] :
                  lockb'[r] \in Anc(p) \/ View(Par(p)) > View(lockb'[r])]_nvars
(* a HighQC that moves by anything but a rollback moves to a backed proposal *)
NHighBacked == [][\A r \in Live : (rep'[r].high # rep[r].high /\ enfr' # r) => Backed(rep[r].high)']_nvars

(* reachability probes (expected to be VIOLATED: a commit / a root move is reachable in the configuration) *)
NeverCommits == \A r \in Live : rep[r].commit \in {0, Nil}
NeverRootMoves == \A r \in Live : rep[r].root = 0

NViewRep(s) == [s EXCEPT !.w = {}]
NView == <<par, [r \in Reps |-> NViewRep(rep[r])], pmsgs, vmsgs, pj, voted, certd, lockb, enfr>>
=============================================================================
