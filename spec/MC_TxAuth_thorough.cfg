SPECIFICATION Spec
CONSTANTS
  MaxDev = 2
  FullOwners = TRUE
  KF_XuperSignSingleKey = FALSE
  KF_MarkedRefSoftAccept = FALSE
  KF_GhostAccountInitiator = FALSE
  KF_V1OmitsHDInfo = FALSE
  KF_V12OmitsEmpty = FALSE
  KF_MarkedFlagUncovered = FALSE
  KF_CoinbaseRider = FALSE
  KF_PlayPooledIdUnchecked = FALSE
INVARIANTS TypeOK Sound SubmitSound HonestAccepted Conforms EveryFormHonest DistinctMembers BlockSound MutationRejected CoverageOK CoinbaseClean Injective
VIEW View
CHECK_DEADLOCK FALSE
