\* every schedule (normal forms) of selected scenarios of three requests
SPECIFICATION GenSpec
CONSTANTS
  KF_SharedLockRefCountRace = TRUE
  Sizes = {}
  KvPool <- KvPoolFull
  TokPool <- TokPoolFull
  MixPool <- MixPoolFull
  Extra <- Three
  GFirst = TRUE
  SelDet = TRUE
  RecSteps = FALSE
  LogOn = TRUE
  POR = TRUE
CONSTRAINT DumpAll
CHECK_DEADLOCK FALSE
