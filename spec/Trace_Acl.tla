----------------------------- MODULE Trace_Acl -----------------------------
(* Case-table validation of verdicts recorded from the real code.  One ndjson line per (slice,       *)
(* environment): {"op":"column","sl":s,"e":i,"env":{rules},"srcs":[names],"cols":[[0/1 per multiset]]} *)
(* with the multisets in the canonical order of Acl!Enum.  A line is explained iff the environment   *)
(* is the one the specification numbers (sl, e) and every recorded column equals the column of Sat.  *)
(* With KF_IntermediateAKCounts = TRUE (ACTUAL) the deviation is recorded in dev when the line       *)
(* contains a case on which ACTUAL and IDEAL differ.                                                 *)
EXTENDS Acl, Json
VARIABLES l, div, dev
Trace == ndJsonDeserialize("trace.ndjson")
NoDiv == [at |-> 0]
tvars == <<vars, l, div, dev>>

TInit == /\ sl = 1 /\ e = 1 /\ sg = <<>> /\ hist = <<>>
         /\ l = 1 /\ div = NoDiv /\ dev = {}
         /\ TLCSet(1, 1) /\ TLCSet(2, NoDiv) /\ TLCSet(3, {})

Min(S) == CHOOSE x \in S : \A y \in S : x <= y

ColumnStep(ev) ==
  /\ ev.sl \in DOMAIN Slices /\ ev.e \in DOMAIN Slices[ev.sl].envs
  /\ Install(ev.sl, ev.e)
  /\ LET exp == Column(KF_IntermediateAKCounts, ev.sl, ev.e)
         ms == MultisetsOf[ev.sl]
         envOK == ev.env = EnvOf(ev.sl, ev.e)
         badCols == {j \in DOMAIN ev.cols : Len(ev.cols[j]) # Len(exp) \/ \E k \in DOMAIN exp : ev.cols[j][k] # exp[k]}
     IN /\ div' = IF envOK /\ badCols = {} THEN NoDiv
                  ELSE IF ~envOK THEN [at |-> l, tr |-> ev.tr, op |-> ev.op, sl |-> ev.sl, e |-> ev.e, expres |-> "same environment",
                                       actres |-> "environment differs", exp |-> EnvOf(ev.sl, ev.e), act |-> ev.env]
                  ELSE LET j == Min(badCols) IN
                       IF Len(ev.cols[j]) # Len(exp)
                       THEN [at |-> l, tr |-> ev.tr, op |-> ev.op, sl |-> ev.sl, e |-> ev.e, expres |-> "column length", actres |-> "differs",
                             exp |-> Len(exp), act |-> Len(ev.cols[j])]
                       ELSE LET bad == {x \in DOMAIN exp : ev.cols[j][x] # exp[x]}      \* report a shortest signer list
                                k == CHOOSE x \in bad : \A y \in bad : Len(ms[x]) < Len(ms[y]) \/ (Len(ms[x]) = Len(ms[y]) /\ x <= y) IN
                            [at |-> l, tr |-> ev.tr, op |-> ev.op, sl |-> ev.sl, e |-> ev.e, src |-> ev.srcs[j], k |-> k,
                             signers |-> Paths(ev.sl, ms[k]), target |-> Slices[ev.sl].tgt, rules |-> EnvOf(ev.sl, ev.e),
                             expres |-> Cls(exp[k] = 1), actres |-> Cls(ev.cols[j][k] = 1),
                             exp |-> [v |-> exp[k]], act |-> [v |-> ev.cols[j][k]]]
        \* the deviation is used iff IDEAL answers differently on some case of the line; by Acl!DeviationExact
        \* (model-checked) only multisets with a key as non-final URI component can differ
        /\ dev' = IF KF_IntermediateAKCounts
                     /\ \E k \in DOMAIN ms : /\ ~NoInnerKey(Paths(ev.sl, ms[k]))
                                               /\ exp[k] # (IF Sat(FALSE, EnvOf(ev.sl, ev.e), Slices[ev.sl].tgt, Paths(ev.sl, ms[k])) THEN 1 ELSE 0)
                  THEN dev \cup {"KF_IntermediateAKCounts"} ELSE dev

TStep ==
  /\ l <= Len(Trace) /\ div = NoDiv
  /\ LET ev == Trace[l] IN
       IF ev.op = "reset" THEN UNCHANGED <<vars, div, dev>> ELSE ColumnStep(ev)
  /\ l' = l + 1
TSpec == TInit /\ [][TStep]_tvars

Book ==
  /\ (div = NoDiv /\ l > TLCGet(1)) => TLCSet(1, l)
  /\ (div # NoDiv /\ (TLCGet(2) = NoDiv \/ TLCGet(2).at < div.at)) => TLCSet(2, div)
  /\ (div = NoDiv /\ dev # TLCGet(3)) => TLCSet(3, dev \cup TLCGet(3))
RECURSIVE SetAsSeq(_)
SetAsSeq(S) == IF S = {} THEN <<>> ELSE LET x == CHOOSE y \in S : TRUE IN <<x>> \o SetAsSeq(S \ {x})
Post == JsonSerialize("result.json", <<[hw |-> TLCGet(1), len |-> Len(Trace), div |-> TLCGet(2), dev |-> SetAsSeq(TLCGet(3))]>>)
=============================================================================
