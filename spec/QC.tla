--------------------------------- MODULE QC ---------------------------------
(***************************************************************************)
(* Quorum certificates of the chained-BFT driver                           *)
(* (kernel/consensus/base/driver/chained-bft: saftyrules.go, crypto.go,    *)
(* smr.go).  The decision procedures are written like the code:            *)
(*   CalVotesThreshold     saftyrules.go:102                               *)
(*   VerifyVoteMsgSign     crypto/crypto.go:83   (operator VerifyRes)      *)
(*   CheckProposal         saftyrules.go:117     (CheckProposal,           *)
(*                                                JustifyLoop)             *)
(*   CheckVote             saftyrules.go:67                                *)
(*   handleReceivedVoteMsg smr.go:457            (VoteStep, action VoteMsg)*)
(* The property C14 is stated independently of them (Need, ValidMember,    *)
(* Quorum) and related to them by the invariants at the end.               *)
(*                                                                         *)
(* A certificate is assembled entry by entry (action Add; in canonical     *)
(* order, so that every multiset of entries is exactly one state) and is   *)
(* submitted to the pure checks; votes are collected message by message    *)
(* (action VoteMsg).                                                       *)
(*                                                                         *)
(* The validator set in force is a function of the view (TDPoS term change, *)
(* XPoA validator update): a certificate is judged by the set in force for  *)
(* the CERTIFIED view, which need not be the set of the view of the         *)
(* proposal / block that carries it.  The pure checks above take the set    *)
(* as an argument; handleReceivedProposal (smr.go:312, operator             *)
(* ReceiveProposal, action SubmitReceive) and the plugins' CheckMinerMatch  *)
(* look it up.  For that action the identities 1..n are the validators of   *)
(* SOME view; vc (certified view) and vp (the carrying proposal's view) are *)
(* arbitrary non-empty subsets, differing in membership and size.           *)
(*                                                                         *)
(* Identities: members of the validator set are 1..n, 0 is an outsider,    *)
(* -1 (traces only) an unparsable public key.  A signature entry is        *)
(* [a |-> claimed address, k |-> attached public key, s |-> signature]:    *)
(*   s = "good"       valid under key k over the certified id              *)
(*   s = "other"      valid under key k over ANOTHER id                    *)
(*   s = "bad"        corrupted, still well-formed (verification fails)    *)
(*   s = "malformed"  corrupted, unparsable (verification errors; traces   *)
(*                    only: a refinement of "bad" chosen by the concretiser)*)
(***************************************************************************)
EXTENDS Integers, Sequences, FiniteSets, TLC, SequencesExt

CONSTANTS MaxN,        \* validator-set sizes 1..MaxN
          Extra,       \* an assembled certificate has at most n + Extra entries ...
          MaxEntries,  \* ... and at most MaxEntries
          MaxMsgs,     \* a vote collection sees at most n + MaxMsgs messages
          MaxSigs,     \* signatures carried by one vote message: 0..MaxSigs
          MaxOps,      \* bound on the length of a generated behaviour
          ThrMax,      \* the threshold function is called on 0..ThrMax x 0..ThrMax
          Canon,       \* TRUE: certificates are assembled in canonical (sorted) order - one state per multiset
          \* ACTUAL instantiation = IDEAL + named deviations (all FALSE: IDEAL)
          KF_RepeatedSignerCounts,      \* CheckProposal counts every verified member entry, not distinct members
          KF_VoteAcceptsFailedVerify,   \* CheckVote returns the verifier's error, which is nil when a well-formed
                                        \* signature simply does not verify
          KF_UnverifiedExtraVoteSigns   \* the first vote message's whole signature list is stored, only its
                                        \* first entry was checked

VARIABLES n,        \* size of the validator set in force
          mode,     \* "idle" | "assemble" | "collect"
          qc,       \* certificate being assembled: sequence of kind indices (non-decreasing if Canon)
          store,    \* collection: signatures stored for the proposal (qcVoteMsgs[id])
          started,  \* collection: qcVoteMsgs has an entry for the proposal
          cert,     \* collection: the proposal has become HighQC (quorum event)
          view,     \* collection: pacemaker view
          nm,       \* collection: vote messages handled so far
          hist      \* executed operations [op, args, res] (hidden by VIEW)
vars == <<n, mode, qc, store, started, cert, view, nm, hist>>

Self == 1             \* the collector's own address is member 1
PView == 1            \* view of the proposal under collection (its parent, the root, has view 0)
Members(m) == 1..m

-----------------------------------------------------------------------------
(* Entry kinds, in canonical order.  1, 2: outsider entries; then four per member. *)
NumKinds(m) == 2 + 4 * m
KindOf(j) ==
  IF j = 1 THEN [a |-> 0, k |-> 0, s |-> "good"]          \* non-member, valid under its own key
  ELSE IF j = 2 THEN [a |-> 0, k |-> 1, s |-> "good"]     \* non-member address with member 1's key
  ELSE LET i == ((j - 3) \div 4) + 1
           t == (j - 3) % 4
       IN CASE t = 0 -> [a |-> i, k |-> i, s |-> "good"]   \* valid member i (again, if it recurs)
            [] t = 1 -> [a |-> i, k |-> i, s |-> "other"]  \* member i signed another id
            [] t = 2 -> [a |-> i, k |-> i, s |-> "bad"]    \* corrupted signature
            [] t = 3 -> [a |-> i, k |-> 0, s |-> "good"]   \* member i's address, somebody else's key
Decode(q) == [x \in DOMAIN q |-> KindOf(q[x])]
(* printed once per TLC run: the check reads the kind table from here instead of re-implementing KindOf *)
ASSUME PrintT(<<"KINDTABLE", [j \in 1..NumKinds(10) |-> KindOf(j)]>>)

-----------------------------------------------------------------------------
(* The property's vocabulary (independent of the procedures) *)
Need(m) == m - ((m - 1) \div 3) - 1                         \* n - floor((n-1)/3) - 1
(* S: the validator set in force for the certified view (a set of identities) *)
ValidMemberS(e, S) == e.a \in S /\ e.k = e.a /\ e.s = "good"
ValidSignersS(signs, S) == {i \in S : \E x \in DOMAIN signs : signs[x].a = i /\ ValidMemberS(signs[x], S)}
QuorumS(signs, S) == Cardinality(ValidSignersS(signs, S)) >= Need(Cardinality(S))
(* ... which is 1..m wherever one fixed set is in force *)
ValidMember(e, m) == ValidMemberS(e, Members(m))
ValidSigners(signs, m) == ValidSignersS(signs, Members(m))
Quorum(signs, m) == QuorumS(signs, Members(m))

-----------------------------------------------------------------------------
(* The code's procedures *)
GoDiv(a, b) == IF a >= 0 THEN a \div b ELSE 0 - ((0 - a) \div b)     \* Go's truncating division
CalVotesThreshold(input, sum) ==
  LET f == GoDiv(sum - 1, 3) IN
  IF f < 0 THEN FALSE
  ELSE IF f = 0 THEN input + 1 >= sum
  ELSE input + 1 >= sum - f

(* crypto.VerifyVoteMsgSign returns (ok, err): parse the attached key (error), derive its address and
   compare with the claimed one (error), parse the signature (error), verify it over the id (ok or not) *)
VerifyRes(e) ==
  IF e.k = -1 THEN "err"
  ELSE IF e.k # e.a THEN "err"
  ELSE IF e.s = "malformed" THEN "err"
  ELSE IF e.s = "good" THEN "ok" ELSE "fail"

(* the loop over justifySigns (`if ok, _ := Verify...; !ok`): non-members are skipped, a member entry
   that does not verify rejects the whole certificate, every other member entry is counted *)
RECURSIVE JustifyLoop(_, _, _, _, _)
JustifyLoop(signs, S, x, cnt, seen) ==          \* S = justifyValidators
  IF x > Len(signs) THEN [ok |-> TRUE, cnt |-> cnt, seen |-> seen]
  ELSE LET v == signs[x] IN
       IF v.a \notin S THEN JustifyLoop(signs, S, x + 1, cnt, seen)
       ELSE IF VerifyRes(v) # "ok" THEN [ok |-> FALSE, cnt |-> cnt, seen |-> seen]
       ELSE JustifyLoop(signs, S, x + 1, cnt + 1, seen \cup {v.a})

(* frames: the checks of CheckProposal that precede the signature loop
   "std"         parent in the local tree, validators given
   "lowview"     proposal view < lastVoteRound - 3
   "nilvals"     justifyValidators == nil
   "nilpid"      parent.GetProposalId() == nil
   "orphan_near" parent unknown, proposal view within (root.parentView, root.view + 6]
   "orphan_far"  parent unknown, proposal view outside that window
   "highqc"      the certified id is the node's own HighQC (the root after a start): no local knowledge replaces the
                 signatures, the certificate is judged like any other *)
Frames == {"std", "lowview", "nilvals", "nilpid", "orphan_near", "orphan_far", "highqc"}
CheckProposalS(frame, S, signs) ==
  IF frame = "lowview" THEN [res |-> "reject", why |-> "TooLowProposalView", dev |-> FALSE]
  ELSE IF frame = "nilvals" THEN [res |-> "reject", why |-> "EmptyValidators", dev |-> FALSE]
  ELSE IF frame = "nilpid" THEN [res |-> "reject", why |-> "EmptyParentQC", dev |-> FALSE]
  ELSE IF frame = "orphan_far" THEN [res |-> "reject", why |-> "EmptyParentNode", dev |-> FALSE]
  ELSE LET r == JustifyLoop(signs, S, 1, 0, {})
           m == Cardinality(S)
           ideal == Cardinality(r.seen)             \* distinct verified members
           validCnt == IF KF_RepeatedSignerCounts THEN r.cnt ELSE ideal
       IN IF ~r.ok THEN [res |-> "reject", why |-> "InvalidVoteSign", dev |-> FALSE]
          ELSE IF ~CalVotesThreshold(validCnt, m) THEN [res |-> "reject", why |-> "NoEnoughVotes", dev |-> FALSE]
          ELSE [res |-> "accept", why |-> "", dev |-> ~CalVotesThreshold(ideal, m)]
CheckProposal(frame, m, signs) == CheckProposalS(frame, Members(m), signs)

(* smr.go handleReceivedProposal: a received proposal (its parent known locally) is stored and voted for only if its
   justify passes CheckProposal with the validators the election names for the view the JUSTIFY certifies
   (s.Election.GetValidators(parentQC.GetProposalView())); vc = that set, vp = the set in force for the view of the
   proposal itself, which plays no part.  The plugins' CheckMinerMatch do the same for a block: the set of the
   previous block's height judges the justify, the set of the block's own height names its producer. *)
ReceiveProposal(vc, vp, signs) == CheckProposalS("std", vc, signs)

(* CheckVote: only the first signature of the vote is examined (`if ok, err := Verify...; !ok {return err}`) *)
CheckVote(m, signs) ==
  IF Len(signs) = 0 THEN [res |-> "reject", why |-> "EmptyVoteSignErr", dev |-> FALSE]
  ELSE IF signs[1].a \notin Members(m) THEN [res |-> "reject", why |-> "InvalidVoteAddr", dev |-> FALSE]
  ELSE LET v == VerifyRes(signs[1]) IN
       IF v = "err" THEN [res |-> "reject", why |-> "verify error", dev |-> FALSE]
       ELSE IF v = "fail" /\ ~KF_VoteAcceptsFailedVerify THEN [res |-> "reject", why |-> "InvalidVoteSign", dev |-> FALSE]
       ELSE [res |-> "accept", why |-> "", dev |-> v = "fail"]

(* handleReceivedVoteMsg for a vote message carrying the signature list signs, as a function of the
   collector's state c = [store, started, cert, view]; the result adds res and the deviations exercised *)
VoteStep(m, c, signs) ==
  LET cv == CheckVote(m, signs) IN
  IF cv.res = "reject"
  THEN [store |-> c.store, started |-> c.started, cert |-> c.cert, view |-> c.view, res |-> "reject", dev |-> {}]
  ELSE LET first == ~c.started
           \* LoadOrStore(id, voteQC.SignInfos): the first message's list becomes the stored list
           dup == \E x \in DOMAIN c.store : c.store[x].a = signs[1].a \/ signs[1].a = Self
           st == IF first THEN (IF KF_UnverifiedExtraVoteSigns THEN signs ELSE <<signs[1]>>)
                 ELSE IF dup THEN c.store ELSE Append(c.store, signs[1])
           voteLen == IF first THEN 1 ELSE Len(st)
           full == CalVotesThreshold(voteLen, m)
       IN [store |-> st, started |-> TRUE, cert |-> (c.cert \/ full),
           view |-> (IF full /\ PView + 1 > c.view THEN PView + 1 ELSE c.view), res |-> "ok",
           dev |-> (IF cv.dev THEN {"KF_VoteAcceptsFailedVerify"} ELSE {})
                   \cup (IF first /\ KF_UnverifiedExtraVoteSigns /\ Len(signs) > 1 THEN {"KF_UnverifiedExtraVoteSigns"} ELSE {})]

-----------------------------------------------------------------------------
Init == /\ n = 1 /\ mode = "idle" /\ qc = <<>> /\ store = <<>> /\ started = FALSE
        /\ cert = FALSE /\ view = 0 /\ nm = 0 /\ hist = <<>>
Reset == /\ n' = 1 /\ mode' = "idle" /\ qc' = <<>> /\ store' = <<>> /\ started' = FALSE
         /\ cert' = FALSE /\ view' = 0 /\ nm' = 0 /\ hist' = <<>>
Log(e) == hist' = Append(hist, e)
Same == UNCHANGED <<n, mode, qc, store, started, cert, view, nm>>

(* a validator set of size m comes into force (a fresh safety-rules instance) *)
Setup(m) ==
  /\ mode = "idle" /\ m \in 1..MaxN
  /\ n' = m /\ UNCHANGED <<mode, qc, store, started, cert, view, nm>>
  /\ Log([op |-> "setup", n |-> m, res |-> "ok"])

(* the adversary adds one more entry to the certificate *)
Add(j) ==
  /\ mode \in {"idle", "assemble"} /\ j \in 1..NumKinds(n)
  /\ Len(qc) < n + Extra /\ Len(qc) < MaxEntries /\ (Canon /\ qc # <<>> => j >= qc[Len(qc)])
  /\ qc' = Append(qc, j) /\ mode' = "assemble"
  /\ UNCHANGED <<n, store, started, cert, view, nm, hist>>
Discard ==
  /\ mode = "assemble" /\ qc' = <<>> /\ mode' = "idle"
  /\ UNCHANGED <<n, store, started, cert, view, nm, hist>>

(* the assembled certificate is the justify of a proposal / the signature list of a vote *)
SubmitProposal(frame) ==
  /\ frame \in Frames /\ mode \in {"idle", "assemble"} /\ Same
  /\ Log([op |-> "proposal", n |-> n, frame |-> frame, signs |-> Decode(qc),
          res |-> CheckProposal(frame, n, Decode(qc)).res])
(* ... or arrives as the justify of a proposal of the next view while the validator set changes from vc to vp *)
SetSeq(S) == SetToSortSeq(S, <)
SubmitReceive(vc, vp) ==
  /\ mode \in {"idle", "assemble"} /\ Same
  /\ vc # {} /\ vp # {} /\ vc \subseteq Members(n) /\ vp \subseteq Members(n)
  /\ Log([op |-> "receive", n |-> n, vc |-> SetSeq(vc), vp |-> SetSeq(vp), signs |-> Decode(qc),
          res |-> ReceiveProposal(vc, vp, Decode(qc)).res])
SubmitVote ==
  /\ mode \in {"idle", "assemble"} /\ Same
  /\ Log([op |-> "vote", n |-> n, signs |-> Decode(qc), res |-> CheckVote(n, Decode(qc)).res])
Threshold(input, sum) ==
  /\ mode = "idle" /\ Same
  /\ Log([op |-> "thr", input |-> input, sum |-> sum, res |-> IF CalVotesThreshold(input, sum) THEN "accept" ELSE "reject"])

(* a leader with validator set 1..n has received the proposal (view PView, child of the root) and
   starts collecting votes for it; receiving the proposal moved the pacemaker to the parent's view + 1 *)
StartCollect ==
  /\ mode = "idle"
  /\ mode' = "collect" /\ store' = <<>> /\ started' = FALSE /\ cert' = FALSE /\ view' = PView /\ nm' = 0
  /\ UNCHANGED <<n, qc>>
  /\ Log([op |-> "collect", n |-> n, res |-> "ok"])

Collector == [store |-> store, started |-> started, cert |-> cert, view |-> view]
VoteMsg(signs) ==
  /\ mode = "collect" /\ nm < n + MaxMsgs
  /\ nm' = nm + 1 /\ UNCHANGED <<n, mode, qc>>
  /\ LET r == VoteStep(n, Collector, signs) IN
     /\ store' = r.store /\ started' = r.started /\ cert' = r.cert /\ view' = r.view
     /\ Log([op |-> "votemsg", n |-> n, signs |-> signs, res |-> r.res])
EndCollect ==
  /\ mode = "collect" /\ mode' = "idle" /\ store' = <<>> /\ started' = FALSE /\ cert' = FALSE /\ view' = 0 /\ nm' = 0
  /\ UNCHANGED <<n, qc, hist>>

Msgs(m) == UNION {[1..len -> {KindOf(j) : j \in 1..NumKinds(m)}] : len \in 0..MaxSigs}

Next ==
  /\ Len(hist) < MaxOps
  /\ \/ \E m \in 1..MaxN : Setup(m)
     \/ \E j \in 1..NumKinds(n) : Add(j)
     \/ Discard
     \/ \E f \in Frames : SubmitProposal(f)
     \/ SubmitVote
     \* SubmitReceive(vc, vp), a pure call with (2^n - 1)^2 arguments per certificate, is not explored as a transition (it
     \* changes nothing but hist): its verdict for every argument is checked in every state by the invariant ReceiveOK;
     \* Gen_QC draws it.
     \/ \E input \in 0..ThrMax, sum \in 0..ThrMax : Threshold(input, sum)
     \/ StartCollect
     \/ \E signs \in Msgs(n) : VoteMsg(signs)
     \/ EndCollect
Spec == Init /\ [][Next]_vars

-----------------------------------------------------------------------------
(* Observable projection (collection): the quorum event, the pacemaker view, the stored certificate,
   and the certificate the instance would attach to its next proposal (GetCompleteHighQC) *)
ObsOf(c) == [cert |-> c.cert, view |-> c.view, qc |-> c.store, hq |-> IF c.cert THEN c.store ELSE <<>>]
Obs == ObsOf(Collector)

-----------------------------------------------------------------------------
(* Property C14 (asserted on the IDEAL instantiation: all KF constants FALSE) *)
(* the threshold function is the property's bound, for every (input, sum) in 0..12 x 1..12 *)
ASSUME ThresholdOK == \A sum \in 1..12, input \in 0..12 : CalVotesThreshold(input, sum) <=> input >= Need(sum)
(* an accepted certificate carries valid signatures of a quorum of distinct members *)
ProposalOK == \A f \in Frames : CheckProposal(f, n, Decode(qc)).res = "accept" => Quorum(Decode(qc), n)
(* a received proposal is accepted only if its justify carries a quorum of the set in force for the CERTIFIED view,
   whatever set is in force for the proposal's own view *)
ReceiveOK == mode # "collect" =>        \* (collector states carry no certificate)
             \A vc \in (SUBSET Members(n)) \ {{}} :
               LET ok == QuorumS(Decode(qc), vc) IN
               \* the carrying view's set: the same, everybody, exactly the others (ReceiveProposal does not read it; all
               \* (2^n - 1) sets would cost a factor 2^n / 3 for nothing)
               \A vp \in {vc, Members(n)} \cup (IF vc = Members(n) THEN {} ELSE {Members(n) \ vc}) :
                  ReceiveProposal(vc, vp, Decode(qc)).res = "accept" => ok
(* an accepted vote is signed by a member, validly, over the voted id *)
VoteOK == CheckVote(n, Decode(qc)).res = "accept" => ValidMember(Decode(qc)[1], n)
(* the collector certifies a proposal only when it holds such a quorum *)
CollectOK == cert => Quorum(store, n)
(* nothing but verified member signatures is ever stored *)
StoreClean == \A x \in DOMAIN store : ValidMember(store[x], n)
TypeOK == n \in 1..MaxN /\ mode \in {"idle", "assemble", "collect"} /\ Len(qc) <= n + Extra

View == <<n, mode, qc, store, started, cert, view, nm>>
=============================================================================
