SPECIFICATION MCSpec
CONSTANTS
  N1 = 3
  N2 = 1
  NT = 1
  Vals = {"p"}
  Limits = {1, 2, 9}
  NU = 0
  LookAhead = 99
  MaxOps = 1000000
  KeepHist = FALSE
  EdgeBounds = FALSE
  KF_ScanYieldsOwnDelete = FALSE
  KF_ScanYieldsReadMissingKey = FALSE
  KF_ScanInvertedRangePanics = FALSE
  KF_ScanOpenEndSkipsBacking = FALSE
INVARIANTS TypeOK ReadSetSound ReplayReproduces UtxoBalanced
PROPERTIES ReadYourWrites ScanExact ScanRefusesInverted ScanReadsWhatItSaw
CONSTRAINT Feasible
VIEW View
CHECK_DEADLOCK FALSE
