SPECIFICATION TSpec
CONSTANTS
  KF_IntermediateAKCounts = FALSE
  MaxSigners = 3
  NestedChoices = 2
  WithNegative = FALSE
  MaxOps = 100000
CONSTRAINT Book
POSTCONDITION Post
CHECK_DEADLOCK FALSE
