---------------------------- MODULE Gen_LockTable ----------------------------
(* random call sequences of three clients on one lock table (-simulate); each behaviour's history is dumped *)
EXTENDS LockTable, Json
Dump == Len(hist) < MaxOps \/ (JsonSerialize("out/b_" \o ToString(TLCGet("stats").traces) \o ".json", hist) /\ FALSE)
=============================================================================
