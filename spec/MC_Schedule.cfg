SPECIFICATION Spec
CONSTANTS
  Kinds = {"tdpos", "xpoa", "single"}
  Periods = {1, 2, 3}
  BlockNums = {1, 2, 3}
  ProposerNums = {1, 2, 3}
  MaxAlt = 3
  MaxTermInt = 4
  XpoaNs = {1, 2, 3, 4}
  InitMs = 3
  InitRems = {0}
  NTerms = 3
  KeepHist = FALSE
  KF_TdposPreInit = FALSE
  KF_XpoaNegativeTs = FALSE
INVARIANTS TypeOK OneProducer NothingBeforeOrigin FirstSlot SlotOrder SlotContiguous TurnAdjacent SlotLength SlotSpacing FirstSlotEnd TurnComplete TermComplete TermPeriodic Shares OneMsPeriod SingleOK
VIEW View
CHECK_DEADLOCK FALSE
