\* IDEAL lock protocol, all scenarios of 2 and 3 requests over the full request pools plus hand-picked scenarios
\* of 4 requests and scenarios with a play AND a walk.
SPECIFICATION Spec
CONSTANTS
  KF_SharedLockRefCountRace = FALSE
  Sizes = {2, 3}
  KvPool <- KvPoolFull
  TokPool <- TokPoolFull
  MixPool <- MixPoolFull
  Extra <- FourProcTwoExcl
  GFirst = TRUE
  SelDet = FALSE
  RecSteps = TRUE
  LogOn = TRUE
VIEW View
INVARIANT TypeOK
INVARIANT Exclusion
INVARIANT ConflictFree
INVARIANT SelectorsDisjoint
INVARIANT SelHeld
INVARIANT Serialisable
INVARIANT Quiescent
INVARIANT TableMatchesHeld
CHECK_DEADLOCK TRUE
