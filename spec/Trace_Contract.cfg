SPECIFICATION TSpec
CONSTANTS
  NK = 3
  NU = 2
  MaxSteps = 100
  Vals = {"p", "q"}
  XferAmts = {1, 3}
  UseAmts = {1, 2}
  StepOps = {"get", "put", "del", "scan", "call", "xfer", "emit", "use", "fail", "fail500"}
  TamperKinds = {"none"}
  Amts = {0, 1}
  KeepHist = FALSE
  KF_ContractUtxoUnbound = FALSE
  KF_FailedStatusAccepted = FALSE
  KF_NestedUseUncounted = FALSE
CONSTRAINT Book
POSTCONDITION Post
CHECK_DEADLOCK FALSE
