SPECIFICATION TSpec
CONSTANTS
  MaxN = 10
  Extra = 4
  MaxEntries = 100
  MaxMsgs = 100
  MaxSigs = 3
  MaxOps = 100000000
  Canon = TRUE
  ThrMax = 12
  KF_RepeatedSignerCounts = FALSE
  KF_VoteAcceptsFailedVerify = FALSE
  KF_UnverifiedExtraVoteSigns = FALSE
CONSTRAINT Book
POSTCONDITION Post
CHECK_DEADLOCK FALSE
