----------------------------- MODULE Trace_Net -----------------------------
(* Trace validation of a network of real engines against Net.tla.  Every line is one action; the projections of ALL
   nodes recorded after it are judged one step later on the unprimed state (large expressions are not evaluated under
   a prime).                                                                                                        *)
EXTENDS Net, Json
VARIABLES l, div, pend
Trace == ndJsonDeserialize("trace.ndjson")
NoDiv == [at |-> 0]
tnvars == <<nvars, l, div, pend>>
Has(ev, f) == f \in DOMAIN ev
(* the read-before-overwrite half of the pool's order is part of C13's statement only: that check substitutes
   JudgePoolAntiDep <- Yes; for every other property a wrong order counts once a mined block carries it *)
Yes == TRUE
JudgePoolAntiDep == FALSE
(* poolseq (the order in which the pool yields its transactions) is not part of the compared record: it is judged by
   SeqOK - every transaction comes after the pending transactions whose outputs or key versions it consumes, and
   (unless the known deviation is switched on) a pure reader of a key version before the pending writer superseding it *)
Norm(o) == [f \in DOMAIN o \ {"poolseq"} |-> IF f \in {"utxo", "pool", "poold"} THEN Range(o[f]) ELSE o[f]]
SeqOK(o) == "poolseq" \notin DOMAIN o \/ \A i, j \in DOMAIN o.poolseq :
               (i < j /\ o.poolseq[i] \in AllTxs /\ o.poolseq[j] \in AllTxs) => ~DependsOn(o.poolseq[i], o.poolseq[j])
                  /\ (~JudgePoolAntiDep \/ KF_PoolOrderAntiDep \/ ~AntiDep(o.poolseq[j], o.poolseq[i]))
NodeSeq == SetToSortSeq(Nodes, <)
TInit == NInit /\ l = 1 /\ div = NoDiv /\ pend = "" /\ TLCSet(1, 1) /\ TLCSet(2, NoDiv) /\ TLCSet(3, {})

BMsg(ev) == [to |-> ev.to, from |-> ev.from, b |-> ev.b]
TMsg(ev) == [to |-> ev.to, from |-> ev.from, t |-> ev.t]
(* the first node whose recorded projection differs from the specification's *)
BadNodes(ev) == {k \in DOMAIN ev.obs : Norm(ev.obs[k]) # NObs(NodeSeq[k]) \/ ~SeqOK(ev.obs[k])}
Judge(ev, r) == IF r = ev.res /\ BadNodes(ev) = {} THEN NoDiv
                ELSE LET k == IF BadNodes(ev) = {} THEN 1 ELSE CHOOSE k \in BadNodes(ev) : TRUE IN
                     [at |-> l, tr |-> ev.tr, op |-> ev.op, expres |-> r, actres |-> ev.res, node |-> NodeSeq[k],
                      exp |-> NObs(NodeSeq[k]), act |-> ev.obs[k], which |-> "net"]
(* a recorded mining round whose block the specification cannot explain (transactions that are not pending on that node
   or do not apply in that order) is reported as result "badpack" *)
MineAny(i, seq) == IF PackOK(i, seq) THEN NMine(i, seq)
                   ELSE UNCHANGED <<blk, n, known, tip, npool, nInsH, nInsB, bmsgs, tmsgs, lost>> /\ Unused
                        /\ Log([op |-> "nmine", i |-> i, txs |-> seq, res |-> "badpack"])
Step ==
  /\ l <= Len(Trace) /\ div = NoDiv
  /\ LET ev == Trace[l] IN
     IF pend # "" THEN
        /\ div' = Judge(ev, pend) /\ pend' = "" /\ l' = l + 1 /\ UNCHANGED nvars
     ELSE IF ev.op = "reset" THEN
        /\ NReset /\ l' = l + 1 /\ UNCHANGED <<div, pend>>
     ELSE
        /\ CASE ev.op = "ndeliverblk" /\ ev.b \notin 1..n ->      \* names a block nobody has: nothing happens
                  (UNCHANGED <<blk, n, known, tip, npool, nInsH, nInsB, bmsgs, tmsgs, lost>> /\ Unused /\ Log([op |-> ev.op, res |-> "noblock"]))
             [] ev.op = "nsubmit"     -> NSubmit(ev.i, ev.t, ev.res)
             [] ev.op = "ndelivertx"  -> NDeliverTxX(TMsg(ev), ev.res, FALSE)
             [] ev.op = "ndroptx"     -> NDropTx(TMsg(ev))
             [] ev.op = "nmine"       -> MineAny(ev.i, ev.txs)
             [] ev.op = "ndeliverblk" -> NDeliverBlkX(BMsg(ev), Range(ev.obs[CHOOSE k \in DOMAIN NodeSeq : NodeSeq[k] = ev.to].pool), FALSE)
             [] ev.op = "ndropblk"    -> NDropBlk(BMsg(ev))
             [] ev.op = "nrestart"    -> NRestart(ev.i)
        /\ pend' = hist'[Len(hist')].res
        /\ UNCHANGED <<l, div>>
TSpec == TInit /\ [][Step]_tnvars
Book ==
  /\ (div = NoDiv /\ l > TLCGet(1)) => TLCSet(1, l)
  /\ (div # NoDiv /\ (TLCGet(2) = NoDiv \/ TLCGet(2).at < div.at)) => TLCSet(2, div)
Post == JsonSerialize("result.json", <<[hw |-> TLCGet(1), len |-> Len(Trace), div |-> TLCGet(2), dev |-> TLCGet(3)]>>)
=============================================================================
