------------------------------ MODULE BlockId ------------------------------
(***************************************************************************)
(* C08 - block integrity: id, merkle root and proposer signature bind      *)
(* header and body.                                                        *)
(*                                                                         *)
(* Written like bcs/ledger/xledger/ledger: formatBlock, MakeMerkleTree,     *)
(* VerifyMerkle, MakeBlockID, VerifyBlock, and the id / signature checks    *)
(* repeated by single.CheckMinerMatch and pow.CheckMinerMatch.              *)
(*                                                                         *)
(* Hashes are uninterpreted and injective:                                 *)
(*  - a merkle node is the string "(" l "." r ")" of its children, so two   *)
(*    transaction lists have the same root iff the trees are the same term  *)
(*    (a collision TLC finds is structural, never cryptographic);           *)
(*  - a block id is kept symbolically as the header snapshot it was         *)
(*    computed from (H(x) = H(y) <=> Enc(x) = Enc(y)); Enc is either the     *)
(*    injective encoding of the field vector (IDEAL) or what MakeBlockID    *)
(*    writes (deviation KF_HeaderConcat: the parts of the failed-tx map and *)
(*    of the quorum certificate are concatenated without length prefix);    *)
(*  - a signature is the pair (key, signed value); an address is "A:" key.  *)
(*                                                                         *)
(* IDEAL = all KF_* constants FALSE: the property invariants hold.          *)
(* ACTUAL(KF) = IDEAL plus the named deviations (what the code does         *)
(* instead, each in one identified situation).                             *)
(***************************************************************************)
EXTENDS Integers, Sequences, FiniteSets, TLC, SequencesExt

CONSTANTS MaxTx,      \* base blocks carry the lists <<t1..tn>>, n \in 0..MaxTx (non-powers of two included)
          RepTx,      \* ... and every list over {t1,t2} of length 1..RepTx (repeated transactions)
          Full,       \* TRUE: every tx list x every header variant; FALSE: every tx list on a plain header + every header variant once
          Rich,       \* TRUE: larger value alphabet for the variable-length parts
          KF_MerkleDupLastTx,      \* VerifyMerkle never compares tx_count with the length of the body
          KF_MerkleTreeUnchecked,  \* VerifyBlock never reads the merkle_tree array (QueryBlock rebuilds the body from it)
          KF_EmptyBlockRejected,   \* VerifyMerkle refuses a block without transactions, although formatBlock produces it
          KF_HeaderConcat          \* MakeBlockID concatenates variable-length parts of one field without length prefix

VARIABLES phase,    \* "init" -> "formatted" -> "verified" -> "mutated" -> "done"
          orig,     \* the block as formatted (Format), kept for Mutate and for the invariants
          blk,      \* the block under verification
          mut,      \* the mutation applied ([m, st]) or NoMut
          verdict,  \* last verdicts [v: Ledger.VerifyBlock, s: single.CheckMinerMatch, w: pow.CheckMinerMatch]
          hist      \* history of [op, args, res] (generation / evidence; hidden by VIEW)
vars == <<phase, orig, blk, mut, verdict, hist>>

-----------------------------------------------------------------------------
(* The field table: every field of the InternalBlock protobuf schema (and of the messages       *)
(* reachable from it except Transaction, which is C07's subject) with its role.  The Go driver   *)
(* walks the real schema by reflection: a field missing here (or a stale entry) is exit 2.       *)
(*   hashed   : written into the id pre-image by MakeBlockID                                     *)
(*   id       : the claimed id, compared with the recomputed one                                 *)
(*   sig      : the proposer's signature over the id                                             *)
(*   body     : the ordered transaction list (bound through the merkle root, by txid)            *)
(*   derived  : must equal MakeMerkleTree(body) (read back as the body by QueryBlock)            *)
(*   unhashed : not covered by id or signature (set locally by ConfirmBlock)                     *)
FieldTable == <<
  [name |-> "InternalBlock.version",      class |-> "hashed"],
  [name |-> "InternalBlock.nonce",        class |-> "hashed"],
  [name |-> "InternalBlock.blockid",      class |-> "id"],
  [name |-> "InternalBlock.pre_hash",     class |-> "hashed"],
  [name |-> "InternalBlock.proposer",     class |-> "hashed"],
  [name |-> "InternalBlock.sign",         class |-> "sig"],
  [name |-> "InternalBlock.pubkey",       class |-> "hashed"],
  [name |-> "InternalBlock.merkle_root",  class |-> "hashed"],
  [name |-> "InternalBlock.height",       class |-> "unhashed"],
  [name |-> "InternalBlock.timestamp",    class |-> "hashed"],
  [name |-> "InternalBlock.transactions", class |-> "body"],
  [name |-> "InternalBlock.tx_count",     class |-> "hashed"],
  [name |-> "InternalBlock.merkle_tree",  class |-> "derived"],
  [name |-> "InternalBlock.curTerm",      class |-> "hashed"],
  [name |-> "InternalBlock.curBlockNum",  class |-> "hashed"],
  [name |-> "InternalBlock.failed_txs",   class |-> "hashed"],   \* the messages in key order; the keys themselves are not written
  [name |-> "InternalBlock.targetBits",   class |-> "hashed"],   \* only when positive
  [name |-> "InternalBlock.Justify",      class |-> "hashed"],
  [name |-> "InternalBlock.in_trunk",     class |-> "unhashed"],
  [name |-> "InternalBlock.next_hash",    class |-> "unhashed"],
  [name |-> "QuorumCert.ProposalId",      class |-> "hashed"],
  [name |-> "QuorumCert.ProposalMsg",     class |-> "hashed"],
  [name |-> "QuorumCert.Type",            class |-> "hashed"],
  [name |-> "QuorumCert.ViewNumber",      class |-> "hashed"],
  [name |-> "QuorumCert.SignInfos",       class |-> "hashed"],
  [name |-> "QCSignInfos.QCSignInfos",    class |-> "hashed"],
  [name |-> "SignInfo.Address",           class |-> "hashed"],
  [name |-> "SignInfo.PublicKey",         class |-> "hashed"],
  [name |-> "SignInfo.Sign",              class |-> "hashed"] >>

-----------------------------------------------------------------------------
(* Values *)
Keys == {"k1", "k2"}                \* k1: the node's (miner's) key, k2: somebody else's
Addr(k) == "A:" \o k                \* address = hash of the public key (injective)
PowBits == 1                        \* target bits of the PoW fixture chain
Chars == {"x", "y"}                 \* "bytes" of the variable-length parts
Vals == IF Rich THEN {<<>>, <<"x">>, <<"y">>, <<"x", "y">>, <<"y", "x">>, <<"x", "x">>}
        ELSE {<<>>, <<"x">>, <<"x", "y">>}
TxName(i) == "t" \o ToString(i)
Fresh == "tz"                       \* a transaction that is in no base block
Canon(n) == [i \in 1..n |-> TxName(i)]
TxLists == {Canon(n) : n \in 0..MaxTx} \cup UNION {[1..n -> {"t1", "t2"}] : n \in 1..RepTx}

(* header variants *)
F0 == <<>>
F1 == <<[k |-> 2, m |-> <<"x">>]>>
F2 == <<[k |-> 2, m |-> <<"x", "y">>], [k |-> 4, m |-> <<"y">>]>>
J0 == <<>>
J1 == <<[pid |-> <<"x">>, pmsg |-> <<>>, type |-> "0", view |-> "0", signs |-> <<>>]>>
J2 == <<[pid |-> <<"x", "y">>, pmsg |-> <<"y">>, type |-> "1", view |-> "1",
         signs |-> <<[a |-> <<"x">>, p |-> <<"y", "x">>, s |-> <<"x">>], [a |-> <<"y">>, p |-> <<>>, s |-> <<"y", "y">>]>>]>>
FailedVariants == {F0, F1, F2}
JustVariants == {J0, J1, J2}
JVar(i) == IF i = 1 THEN J1 ELSE J2
SEmpty == [a |-> <<>>, p |-> <<>>, s |-> <<>>]
SOne == [a |-> <<"x">>, p |-> <<"y">>, s |-> <<"x">>]
SVar(j) == IF j = 0 THEN SEmpty ELSE SOne

Prof(t, f, j, b) == [txs |-> t, failed |-> f, just |-> j, tbits |-> b]
Profiles ==
  IF Full THEN {Prof(t, f, j, b) : t \in TxLists, f \in FailedVariants, j \in JustVariants, b \in {0, PowBits}}
  ELSE LET c3 == Canon(IF MaxTx < 3 THEN MaxTx ELSE 3)
           c5 == Canon(IF MaxTx < 5 THEN MaxTx ELSE 5) IN
       {Prof(t, F0, J0, 0) : t \in TxLists}                       \* every tx list on a plain header
       \cup {Prof(c3, F0, J0, PowBits), Prof(c3, F1, J0, 0), Prof(c3, F2, J0, 0), Prof(c3, F0, J1, 0), Prof(c3, F0, J2, PowBits),
             Prof(c5, F2, J2, PowBits), Prof(Canon(0), F1, J1, 0)}  \* every header variant once

-----------------------------------------------------------------------------
(* MakeMerkleTree, as the loop is written: complete tree over LeafSize(n) leaves stored as an   *)
(* array (leaves first), missing leaves are nil (""), a node whose left child is nil is nil, a   *)
(* node whose right child is nil hashes the left child with itself.                             *)
Nil == ""
H(l, r) == "(" \o l \o "." \o r \o ")"
RECURSIVE Pow2Above(_, _)
Pow2Above(n, p) == IF p >= n THEN p ELSE Pow2Above(n, 2 * p)
LeafSize(n) == Pow2Above(n, 1)            \* getLeafSize
RECURSIVE NodeAt(_, _, _)
NodeAt(txs, L, j) ==                       \* 0-based array index j
  IF j < L THEN (IF j < Len(txs) THEN txs[j + 1] ELSE Nil)
  ELSE LET l == NodeAt(txs, L, 2 * (j - L))
           r == NodeAt(txs, L, 2 * (j - L) + 1)
       IN IF l = Nil THEN Nil ELSE IF r = Nil THEN H(l, l) ELSE H(l, r)
MakeTree(txs) == IF txs = <<>> THEN <<>>
                 ELSE LET L == LeafSize(Len(txs)) IN [q \in 1..(2 * L - 1) |-> NodeAt(txs, L, q - 1)]
RootOf(tree) == IF tree = <<>> THEN Nil ELSE tree[Len(tree)]

(* The same root stated independently of the array layout (what "the merkle root of the ordered *)
(* list" means): pair up level by level, an odd last node is paired with itself.                *)
RECURSIVE Up(_)
Up(level) == IF Len(level) = 1 THEN level[1]
             ELSE Up([i \in 1..((Len(level) + 1) \div 2) |->
                        IF 2 * i <= Len(level) THEN H(level[2 * i - 1], level[2 * i]) ELSE H(level[2 * i - 1], level[2 * i - 1])])
SemRoot(txs) == IF txs = <<>> THEN Nil ELSE Up(txs)

-----------------------------------------------------------------------------
(* Header snapshot = the values MakeBlockID reads, in its order.  Keys of the failed-tx map are  *)
(* not written (only the messages, in key order); target bits are written only when positive     *)
(* (0 stands for every non-positive value).                                                      *)
Hdr(b) == [version |-> b.version, nonce |-> b.nonce, txcount |-> b.txcount, proposer |-> b.proposer,
           timestamp |-> b.timestamp, pubkey |-> b.pubkey, prehash |-> b.prehash, root |-> b.root,
           failed |-> [i \in DOMAIN b.failed |-> b.failed[i].m], term |-> b.term, num |-> b.num,
           tbits |-> b.tbits, just |-> b.just]
RECURSIVE Flat(_)
Flat(ss) == IF ss = <<>> THEN <<>> ELSE Head(ss) \o Flat(Tail(ss))
JFlat(j) == IF j = <<>> THEN <<>>
            ELSE <<"J">> \o j[1].pid \o j[1].pmsg \o <<"T" \o j[1].type, "V" \o j[1].view>>
                 \o Flat([i \in DOMAIN j[1].signs |-> j[1].signs[i].a \o j[1].signs[i].p \o j[1].signs[i].s])
(* what MakeBlockID writes for the two compound fields *)
CEnc(h) == [h EXCEPT !.failed = Flat(h.failed), !.just = JFlat(h.just)]

K0 == [dup |-> FALSE, tree |-> FALSE, empty |-> FALSE, concat |-> FALSE]          \* IDEAL
KC == [dup |-> KF_MerkleDupLastTx, tree |-> KF_MerkleTreeUnchecked, empty |-> KF_EmptyBlockRejected,
       concat |-> KF_HeaderConcat]                                                  \* this instantiation
KFName == [dup |-> "KF_MerkleDupLastTx", tree |-> "KF_MerkleTreeUnchecked", empty |-> "KF_EmptyBlockRejected",
           concat |-> "KF_HeaderConcat"]

PreImageEq(K, h1, h2) == IF K.concat THEN CEnc(h1) = CEnc(h2) ELSE h1 = h2
MkId(b) == [src |-> Hdr(b), flip |-> FALSE]
IdValEq(K, x, y) == x.flip = y.flip /\ PreImageEq(K, x.src, y.src)

(* formatBlock (needSign, non-empty pre_hash) *)
FormatBlock(p) ==
  LET tree == MakeTree(p.txs)
      b0 == [version |-> "0", nonce |-> "0", txcount |-> Len(p.txs), proposer |-> Addr("k1"), timestamp |-> "0",
             pubkey |-> "k1", prehash |-> "p", root |-> RootOf(tree), failed |-> p.failed, term |-> "0", num |-> "0",
             tbits |-> p.tbits, just |-> p.just, junk |-> FALSE, txs |-> p.txs, tree |-> tree]
      id == MkId(b0)
  IN b0 @@ [id |-> id, sign |-> [key |-> "k1", t |-> "id", id |-> id]]

-----------------------------------------------------------------------------
(* The conjuncts of VerifyBlock.  K selects IDEAL (K0) or this instantiation (KC).               *)
IdOK(K, b)     == ~b.id.flip /\ PreImageEq(K, b.id.src, Hdr(b))              \* MakeBlockID(block) = block.Blockid
NonEmptyOK(K, b) == K.empty => b.txs # <<>>                                   \* "can not make merkle tree"
RootOK(b)      == RootOf(MakeTree(b.txs)) = b.root                           \* VerifyMerkle: tree rebuilt from the body
CountOK(K, b)  == K.dup \/ Len(b.txs) = b.txcount                            \* the header's count is the body's length
TreeOK(K, b)   == K.tree \/ b.tree = MakeTree(b.txs)                         \* the stored tree array is the body's tree
AddrOK(b)      == b.pubkey \in Keys /\ Addr(b.pubkey) = b.proposer            \* VerifyAddressUsingPublicKey
SigOver(K, b, idv) == b.sign.t = "id" /\ b.sign.key = b.pubkey /\ IdValEq(K, b.sign.id, idv)   \* VerifyECDSA(pubkey, sign, id)
SigOK(K, b)    == b.pubkey \in Keys /\ SigOver(K, b, b.id)

Core(K, b)  == IdOK(K, b) /\ NonEmptyOK(K, b) /\ RootOK(b) /\ CountOK(K, b) /\ TreeOK(K, b) /\ AddrOK(b) /\ SigOK(K, b)
(* single.CheckMinerMatch recomputes the id through BlockAgent.MakeBlockId, which also overwrites  *)
(* the claimed id: what remains is address <-> key and the signature over the recomputed id.       *)
SCore(K, b) == AddrOK(b) /\ SigOver(K, b, MkId(b))
(* pow.CheckMinerMatch: id, address <-> key, signature (besides difficulty / timestamp rules, C16) *)
WCore(K, b) == IdOK(K, b) /\ AddrOK(b) /\ SigOK(K, b)

(* Strict where C08 speaks, permissive elsewhere (DESIGN R2): a block whose binding is broken must  *)
(* be refused; a block that is what a node formats must be accepted; a block that binds but       *)
(* carries alterations outside id and signature (junk: height, in_trunk, next_hash, failed-tx     *)
(* keys, non-positive target bits, tx content under an unchanged txid) may go either way.         *)
AllowedV(K, b) == IF ~Core(K, b) THEN {"rej"} ELSE IF b.junk THEN {"ok", "rej"} ELSE {"ok"}
AllowedS(K, b) == IF ~SCore(K, b) THEN {"rej"}
                  ELSE IF IdOK(K, b) /\ b.proposer = Addr("k1") /\ ~b.junk THEN {"ok"} ELSE {"ok", "rej"}
AllowedW(K, b, o) == IF ~WCore(K, b) THEN {"rej"}
                     ELSE IF Hdr(b) = Hdr(o) /\ o.tbits = PowBits /\ ~b.junk THEN {"ok"} ELSE {"ok", "rej"}
Allowed(K, b, o) == [v : AllowedV(K, b), s : AllowedS(K, b), w : AllowedW(K, b, o)]

(* what the public primitives answer for a block (observed by the driver after Format / Mutate)  *)
ObsOf(K, b) == [idok |-> IdOK(K, b), rootok |-> RootOK(b), cntok |-> Len(b.txs) = b.txcount,
                treeok |-> b.tree = MakeTree(b.txs), addrok |-> AddrOK(b), sigok |-> SigOK(K, b)]
(* deviations whose conjunct evaluates differently on b *)
DevOf(K, b) == {KFName[g] : g \in {f \in DOMAIN K : K[f] /\
                   CASE f = "dup" -> CountOK(K0, b) # CountOK(K, b)
                     [] f = "tree" -> TreeOK(K0, b) # TreeOK(K, b)
                     [] f = "empty" -> NonEmptyOK(K0, b) # NonEmptyOK(K, b)
                     [] f = "concat" -> (IdOK(K0, b) # IdOK(K, b)) \/ (SigOK(K0, b) # SigOK(K, b))
                                        \/ (SigOver(K0, b, MkId(b)) # SigOver(K, b, MkId(b)))}}

-----------------------------------------------------------------------------
(* Single mutations.  m = [k, f, i, j, v, w] (uniform shape: v string, w char sequence).           *)
M(k, f, i, j, v, w) == [k |-> k, f |-> f, i |-> i, j |-> j, v |-> v, w |-> w]
Ins(s, i, e) == SubSeq(s, 1, i - 1) \o <<e>> \o SubSeq(s, i, Len(s))
Del(s, i) == SubSeq(s, 1, i - 1) \o SubSeq(s, i + 1, Len(s))

HdrMuts(b) ==
  {M("set", f, 0, 0, "1", <<>>) : f \in {"version", "nonce", "timestamp", "term", "num"}}
  \cup {M("set", "prehash", 0, 0, "q", <<>>)}
  \cup {M("set", "proposer", 0, 0, v, <<>>) : v \in {Addr("k2"), "A:junk"}}
  \cup {M("set", "pubkey", 0, 0, v, <<>>) : v \in {"k2", "junk"}}
  \cup {M("set", "root", 0, 0, v, <<>>) : v \in {"junk", SemRoot(<<Fresh>>)} \ {b.root}}
  \cup {M("seti", "txcount", i, 0, "", <<>>) : i \in {b.txcount - 1, b.txcount + 1} \ {-1}}
  \cup {M("seti", "tbits", i, 0, "", <<>>) : i \in {0, 1, 2} \ {b.tbits}}
  \cup {M("junk", f, 0, 0, "", <<>>) : f \in {"height", "in_trunk", "next_hash"}}
  \cup (IF b.tbits = 0 THEN {M("junk", "tbits_nonpos", 0, 0, "", <<>>)} ELSE {})
  \cup {M("id", "", 0, 0, "", <<>>)}
  \cup {M("sig", "", 0, 0, v, <<>>) : v \in {"k2", "k1again", "k1root", "junk", "none"}}
FailedMuts(b) ==
  LET n == Len(b.failed) IN
  {M("fadd", "", i, 0, "", w) : i \in 1..(n + 1), w \in Vals}
  \cup {M("fdrop", "", i, 0, "", <<>>) : i \in 1..n}
  \cup ({M("fmsg", "", i, 0, "", w) : i \in 1..n, w \in Vals} \ {M("fmsg", "", i, 0, "", b.failed[i].m) : i \in 1..n})
  \cup {M("fswap", "", i, 0, "", <<>>) : i \in 1..(n - 1)}
  \cup {M("fshift", "", i, 0, "", <<>>) : i \in {i \in 1..(n - 1) : b.failed[i].m # <<>>}}
  \cup {M("junk", "failed_key", i, 0, "", <<>>) : i \in 1..n}
JustMuts(b) ==
  IF b.just = <<>> THEN {M("jadd", "", i, 0, "", <<>>) : i \in {1, 2}}
  ELSE LET q == b.just[1]
           n == Len(q.signs) IN
  {M("jdrop", "", 0, 0, "", <<>>)}
  \cup ({M("jset", f, 0, 0, "", w) : f \in {"pid", "pmsg"}, w \in Vals} \ {M("jset", "pid", 0, 0, "", q.pid), M("jset", "pmsg", 0, 0, "", q.pmsg)})
  \cup {M("jset", "type", 0, 0, IF q.type = "0" THEN "1" ELSE "0", <<>>), M("jset", "view", 0, 0, IF q.view = "0" THEN "1" ELSE "0", <<>>)}
  \cup (IF q.pid # <<>> THEN {M("jshift", "pid", 0, 0, "", <<>>)} ELSE {})
  \cup {M("jsadd", "", i, j, "", <<>>) : i \in 1..(n + 1), j \in {0, 1}}
  \cup {M("jsdrop", "", i, 0, "", <<>>) : i \in 1..n}
  \cup ({M("jsset", f, i, 0, "", w) : f \in {"a", "p", "s"}, i \in 1..n, w \in Vals}
        \ {M("jsset", f, i, 0, "", q.signs[i][f]) : f \in {"a", "p", "s"}, i \in 1..n})
  \cup {M("jsshift", pr[1], pr[2], 0, "", <<>>) : pr \in {pr \in {"a", "p"} \X (1..n) : q.signs[pr[2]][pr[1]] # <<>>}}
  \cup {M("jsshift", "s", i, 0, "", <<>>) : i \in {i \in 1..(n - 1) : q.signs[i].s # <<>>}}
TxMuts(b) ==
  LET n == Len(b.txs)
      ids == Range(b.txs) \cup {Fresh} IN
  {M("tadd", "", i, 0, v, <<>>) : i \in 1..(n + 1), v \in ids}
  \cup {M("tdrop", "", i, 0, "", <<>>) : i \in 1..n}
  \cup {M("tswap", "", pr[1], pr[2], "", <<>>) : pr \in {pr \in (1..n) \X (1..n) : pr[1] < pr[2]}}
  \cup ({M("talt", "", i, 0, v, <<>>) : i \in 1..n, v \in ids} \ {M("talt", "", i, 0, b.txs[i], <<>>) : i \in 1..n})
  \cup {M("tdup", "", i, 0, "", <<>>) : i \in 1..n}            \* the last i transactions appended again
  \cup {M("junk", "tx_content", i, 0, "", <<>>) : i \in 1..n}
TreeMuts(b) ==
  LET n == Len(b.tree) IN
  {M("mset", "", i, 0, "junk", <<>>) : i \in 1..n}
  \cup {M("mcopy", "", pr[1], pr[2], "", <<>>) : pr \in {pr \in (1..n) \X (1..n) : pr[2] \in {pr[1] - 1, pr[1] + 1}}}
  \cup (IF n > 0 THEN {M("mdrop", "", 0, 0, "", <<>>), M("mclear", "", 0, 0, "", <<>>)} ELSE {})
  \cup {M("madd", "", 0, 0, "junk", <<>>)}
Muts(b) == HdrMuts(b) \cup FailedMuts(b) \cup JustMuts(b) \cup TxMuts(b) \cup TreeMuts(b)

SignBy(k, b) == [key |-> k, t |-> "id", id |-> b.id]
Apply(b, m) ==
  LET q == IF b.just = <<>> THEN J1[1] ELSE b.just[1] IN
  CASE m.k = "set" -> [b EXCEPT ![m.f] = m.v]
    [] m.k = "seti" -> [b EXCEPT ![m.f] = m.i]
    [] m.k = "junk" -> [b EXCEPT !.junk = TRUE]
    [] m.k = "id" -> [b EXCEPT !.id.flip = TRUE]
    [] m.k = "sig" -> [b EXCEPT !.sign = CASE m.v = "k2" -> SignBy("k2", b)
                                         [] m.v = "k1again" -> SignBy("k1", b)
                                         [] m.v = "k1root" -> [key |-> "k1", t |-> "root", id |-> b.id]
                                         [] m.v = "junk" -> [key |-> "k1", t |-> "junk", id |-> b.id]
                                         [] m.v = "none" -> [key |-> "k1", t |-> "none", id |-> b.id]]
    [] m.k = "fadd" -> [b EXCEPT !.failed = Ins(b.failed, m.i, [k |-> 2 * m.i - 1, m |-> m.w])]
    [] m.k = "fdrop" -> [b EXCEPT !.failed = Del(b.failed, m.i)]
    [] m.k = "fmsg" -> [b EXCEPT !.failed[m.i].m = m.w]
    [] m.k = "fswap" -> [b EXCEPT !.failed[m.i].m = b.failed[m.i + 1].m, !.failed[m.i + 1].m = b.failed[m.i].m]
    [] m.k = "fshift" -> [b EXCEPT !.failed[m.i].m = Front(b.failed[m.i].m),
                                   !.failed[m.i + 1].m = <<Last(b.failed[m.i].m)>> \o b.failed[m.i + 1].m]
    [] m.k = "jadd" -> [b EXCEPT !.just = JVar(m.i)]
    [] m.k = "jdrop" -> [b EXCEPT !.just = <<>>]
    [] m.k = "jset" -> [b EXCEPT !.just = <<IF m.f \in {"pid", "pmsg"} THEN [q EXCEPT ![m.f] = m.w] ELSE [q EXCEPT ![m.f] = m.v]>>]
    [] m.k = "jshift" -> [b EXCEPT !.just = <<[q EXCEPT !.pid = Front(q.pid), !.pmsg = <<Last(q.pid)>> \o q.pmsg]>>]
    [] m.k = "jsadd" -> [b EXCEPT !.just = <<[q EXCEPT !.signs = Ins(q.signs, m.i, SVar(m.j))]>>]
    [] m.k = "jsdrop" -> [b EXCEPT !.just = <<[q EXCEPT !.signs = Del(q.signs, m.i)]>>]
    [] m.k = "jsset" -> [b EXCEPT !.just = <<[q EXCEPT !.signs[m.i][m.f] = m.w]>>]
    [] m.k = "jsshift" ->
         [b EXCEPT !.just = <<CASE m.f = "a" -> [q EXCEPT !.signs[m.i].a = Front(q.signs[m.i].a), !.signs[m.i].p = <<Last(q.signs[m.i].a)>> \o q.signs[m.i].p]
                                [] m.f = "p" -> [q EXCEPT !.signs[m.i].p = Front(q.signs[m.i].p), !.signs[m.i].s = <<Last(q.signs[m.i].p)>> \o q.signs[m.i].s]
                                [] m.f = "s" -> [q EXCEPT !.signs[m.i].s = Front(q.signs[m.i].s), !.signs[m.i + 1].a = <<Last(q.signs[m.i].s)>> \o q.signs[m.i + 1].a]>>]
    [] m.k = "tadd" -> [b EXCEPT !.txs = Ins(b.txs, m.i, m.v)]
    [] m.k = "tdrop" -> [b EXCEPT !.txs = Del(b.txs, m.i)]
    [] m.k = "tswap" -> [b EXCEPT !.txs[m.i] = b.txs[m.j], !.txs[m.j] = b.txs[m.i]]
    [] m.k = "talt" -> [b EXCEPT !.txs[m.i] = m.v]
    [] m.k = "tdup" -> [b EXCEPT !.txs = b.txs \o SubSeq(b.txs, Len(b.txs) - m.i + 1, Len(b.txs))]
    [] m.k = "mset" -> [b EXCEPT !.tree[m.i] = m.v]
    [] m.k = "mcopy" -> [b EXCEPT !.tree[m.i] = b.tree[m.j]]
    [] m.k = "mdrop" -> [b EXCEPT !.tree = Front(b.tree)]
    [] m.k = "mclear" -> [b EXCEPT !.tree = <<>>]
    [] m.k = "madd" -> [b EXCEPT !.tree = Append(b.tree, m.v)]

(* What somebody who alters a block in transit can recompute afterwards ("all1": the proposer   *)
(* itself formats the altered content again; "all2full": another node formats it as its own).   *)
Strategies == {"none", "root", "tree", "id", "rootid", "all2", "all2pk", "all2full", "all1"}
FixTree(b) == [b EXCEPT !.tree = MakeTree(b.txs)]      \* only the (unsigned, unhashed) tree array; the header keeps its root
FixRoot(b) == [b EXCEPT !.tree = MakeTree(b.txs), !.root = RootOf(MakeTree(b.txs))]
FixCount(b) == [b EXCEPT !.txcount = Len(b.txs)]
FixId(b) == [b EXCEPT !.id = MkId(b)]
Resign(b, k) == [b EXCEPT !.sign = SignBy(k, b)]
Repair(b, st) ==
  CASE st = "none" -> b
    [] st = "root" -> FixRoot(b)
    [] st = "tree" -> FixTree(b)
    [] st = "id" -> FixId(b)
    [] st = "rootid" -> FixId(FixRoot(b))
    [] st = "all2" -> Resign(FixId(FixRoot(FixCount(b))), "k2")
    [] st = "all2pk" -> Resign(FixId([FixRoot(FixCount(b)) EXCEPT !.pubkey = "k2"]), "k2")
    [] st = "all2full" -> Resign(FixId([FixRoot(FixCount(b)) EXCEPT !.pubkey = "k2", !.proposer = Addr("k2")]), "k2")
    [] st = "all1" -> Resign(FixId(FixRoot(FixCount(b))), "k1")
Mutated(b, m, st) == Repair(Apply(b, m), st)

-----------------------------------------------------------------------------
NoMut == [m |-> M("none", "", 0, 0, "", <<>>), st |-> "none"]
NoVerdict == [v |-> "-", s |-> "-", w |-> "-"]
B0 == FormatBlock(Prof(<<>>, F0, J0, 0))

Init == phase = "init" /\ orig = B0 /\ blk = B0 /\ mut = NoMut /\ verdict = NoVerdict /\ hist = <<>>
Reset == phase' = "init" /\ orig' = B0 /\ blk' = B0 /\ mut' = NoMut /\ verdict' = NoVerdict /\ hist' = <<>>
Log(e) == hist' = Append(hist, e)

(* Ledger.FormatMinerBlock by the node itself (key k1, non-empty pre_hash) *)
Format(p) ==
  /\ phase = "init"
  /\ blk' = FormatBlock(p) /\ orig' = blk' /\ phase' = "formatted"
  /\ Log([op |-> "format", p |-> p])
  /\ UNCHANGED <<mut, verdict>>

(* the three verifiers answer; r is one of the answers the instantiation allows (IDEAL answers stay allowed) *)
VerifyWith(r) ==
  /\ phase \in {"formatted", "mutated"}
  /\ verdict' = r
  /\ phase' = IF phase = "formatted" THEN "verified" ELSE "done"
  /\ Log([op |-> "verify", res |-> r])
  /\ UNCHANGED <<orig, blk, mut>>
Verify == \E r \in Allowed(K0, blk, orig) \cup Allowed(KC, blk, orig) : VerifyWith(r)

(* one single mutation of a block that verified, followed by what the mutator can recompute *)
(* (From "done" the verifier is handed the pristine block again: Mutate always starts from orig.  *)
(* Next takes it from "verified" only - single mutations; trace validation uses both.)           *)
Mutate(m, st) ==
  /\ (phase = "verified" /\ verdict.v = "ok") \/ phase = "done"
  /\ blk' = Mutated(orig, m, st) /\ mut' = [m |-> m, st |-> st] /\ phase' = "mutated"
  /\ hist' = Append(IF phase = "done" THEN SubSeq(hist, 1, 2) ELSE hist, [op |-> "mut", m |-> m, st |-> st])
  /\ UNCHANGED <<orig, verdict>>

Next == \/ (phase = "init" /\ \E p \in Profiles : Format(p))
        \/ Verify
        \/ (phase = "verified" /\ \E m \in Muts(orig), st \in Strategies : Mutate(m, st))
Spec == Init /\ [][Next]_vars
View == <<phase, orig, blk, mut, verdict>>
Obs == ObsOf(KC, blk)

-----------------------------------------------------------------------------
(* Invariants (asserted on IDEAL) *)
TypeOK == /\ phase \in {"init", "formatted", "verified", "mutated", "done"}
          /\ verdict \in [v : {"ok", "rej", "-"}, s : {"ok", "rej", "-"}, w : {"ok", "rej", "-"}]
          /\ blk.txcount \in Int /\ blk.tbits \in Nat /\ blk.junk \in BOOLEAN
          /\ mut.st \in Strategies

(* a block formatted by the node itself always verifies (VerifyBlock, and both consensus checks *)
(* where they apply)                                                                            *)
FormatVerifies == phase = "verified" =>
     verdict.v = "ok" /\ verdict.s = "ok" /\ (orig.tbits = PowBits => verdict.w = "ok")

(* Verify(b) => id = H(header fields) /\ root = MerkleRoot(exactly the ordered tx list) /\ the   *)
(* stored tree array yields that list /\ the signer's key hashes to the proposer                 *)
BodyFromTree(b) == IF b.txcount \in 0..Len(b.tree) THEN SubSeq(b.tree, 1, b.txcount) ELSE <<"out-of-range">>   \* QueryBlock: merkle_tree[:tx_count]
SemBound(b) ==
  /\ ~b.id.flip /\ b.id.src = Hdr(b)
  /\ b.root = SemRoot(b.txs) /\ Len(b.txs) = b.txcount
  /\ BodyFromTree(b) = b.txs
  /\ \E k \in Keys : Addr(k) = b.proposer /\ b.pubkey = k /\ b.sign = [key |-> k, t |-> "id", id |-> b.id]
Binding == (phase \in {"verified", "done"} /\ verdict.v = "ok") => SemBound(blk)
(* the repeated checks of the consensus plugins: signature by the proposer's key over H(header) *)
SigBound(b) == \E k \in Keys : Addr(k) = b.proposer /\ b.pubkey = k /\ b.sign = [key |-> k, t |-> "id", id |-> MkId(b)]
ConsensusBinding == (phase \in {"verified", "done"}) =>
     /\ (verdict.s = "ok" => SigBound(blk))
     /\ (verdict.w = "ok" => SigBound(blk) /\ blk.id = MkId(blk))

(* every single mutation that changes hashed header content, the body, the tree array, the id or  *)
(* the signature is rejected - unless the stated proposer's key signed the new id afterwards      *)
Differs(a, b) == Hdr(a) # Hdr(b) \/ a.txs # b.txs \/ a.tree # b.tree \/ a.id # b.id \/ a.sign # b.sign
NewlySigned(o, b) == b.sign # o.sign /\ b.sign.t = "id" /\ b.sign.id = MkId(b) /\ Addr(b.sign.key) = b.proposer
MutationRejected == (phase = "done" /\ Differs(orig, blk) /\ verdict.v = "ok") => NewlySigned(orig, blk)
MutationRejectedByConsensus == (phase = "done" /\ Hdr(orig) # Hdr(blk) /\ (verdict.s = "ok" \/ verdict.w = "ok")) => NewlySigned(orig, blk)

(* merkle lemmas over all lists of <= 6 entries over 3 ids (evaluated once, in the initial state): *)
(* the array construction and the level-wise definition agree; lists of equal length never share  *)
(* a root (so count + root determine the list).                                                   *)
ListsOfLen(n) == [1..n -> {"t1", "t2", "t3"}]
MerkleLemma == phase = "init" =>
     \A n \in 0..6 : LET S == ListsOfLen(n) IN
        /\ \A l \in S : RootOf(MakeTree(l)) = SemRoot(l)
        /\ Cardinality({SemRoot(l) : l \in S}) = Cardinality(S)
(* Lists of different length do share roots (the padding).  Not an invariant: checking it makes   *)
(* TLC report the structural collision, e.g. <<t1,t2,t3>> / <<t1,t2,t3,t3>>.                       *)
NoRootCollision == phase = "init" =>
     \A l1, l2 \in UNION {ListsOfLen(n) : n \in 0..4} : SemRoot(l1) = SemRoot(l2) => l1 = l2
=============================================================================
