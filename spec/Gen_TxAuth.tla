---------------------------- MODULE Gen_TxAuth ----------------------------
(* Case enumeration for the driver (harness/cmd/c07).  Run with -simulate num=1: the single step writes  *)
(*   out/b_0.json  the field table (compared with the reflection walk over the real schema); the block   *)
(*                 plans (pool x via x height of the block relative to the effective height of a mark)    *)
(*                 the check combines with cases and mutations; the mutations of the marked family         *)
(*   out/b_1.json  every abstract case of part (a)                                                       *)
(*   out/b_2.json  every single-field mutation of every rich base of part (b)                            *)
(*   out/b_3.json  part (c): per version the grammar of the code (all deviations on), the structures of  *)
(*                 every section, whole-transaction structures for the token-stream binding              *)
EXTENDS TxAuth, Json
CaseSeq == SetToSeq(CaseIds)
MutSeq == SetToSeq(UNION {{[op |-> "mut", t |-> t, m |-> m] : m \in MutsFor(t)} : t \in RichBases})
CbSeq == SetToSeq({[op |-> "cb", r |-> r] : r \in Riders})
(* sections with many patterns are enumerated with one item only *)
NItems(sec) == IF Cardinality(ItemPats(sec)) > 8 THEN 1 ELSE 2
SecDump(v, sec) == [name |-> sec.name, list |-> sec.list, f |-> sec.f, signs |-> sec.signs,
                    slots |-> [i \in DOMAIN sec.slots |-> [f |-> sec.slots[i].f, ty |-> sec.slots[i].ty, opt |-> sec.slots[i].opt]],
                    structs |-> SetToSeq(SecStructs(sec, NItems(sec))),
                    amb |-> Cardinality(AmbPairs(KA, v, sec, NItems(sec))) \div 2]     \* ambiguous structure pairs TLC finds
FullItem(sec) == [i \in 1..Len(sec.slots) |-> 1]
EmptyItem(sec) == [i \in 1..Len(sec.slots) |-> IF Flex(sec.slots[i].ty) THEN 0 ELSE 1]
Names(v) == {s.name : s \in Rng(Gram(KA, v))}
BaseFull(v) == [n \in Names(v) |-> <<FullItem(SecByName(KA, v, n))>>]
BaseEmpty(v) == [n \in Names(v) |-> IF SecByName(KA, v, n).list THEN <<>> ELSE <<EmptyItem(SecByName(KA, v, n))>>]
Wholes(v) == UNION {UNION {{[b EXCEPT ![s.name] = st] : st \in SecStructs(s, 1)} : s \in Rng(Gram(KA, v))} : b \in {BaseFull(v), BaseEmpty(v)}}
GramDump(v) == [v |-> v, secs |-> [i \in DOMAIN Gram(KA, v) |-> SecDump(v, Gram(KA, v)[i])], wholes |-> SetToSeq(Wholes(v))]
DumpAll == /\ JsonSerialize("out/b_0.json", <<[op |-> "schema", fields |-> FieldTable, nomut |-> NoMut, pools |-> SetToSeq(Pools), vias |-> SetToSeq(Vias),
                                                mhs |-> SetToSeq(MarkHeights), mkmuts |-> SetToSeq(MkMuts)]>>)
           /\ JsonSerialize("out/b_1.json", [i \in DOMAIN CaseSeq |-> LET t == CaseOf(CaseSeq[i]) IN [op |-> "case", t |-> t, hon |-> Honest(t), mk |-> RefMarked(t), acc |-> VerifyCode(K0, t) = "ok"]])
           /\ JsonSerialize("out/b_2.json", MutSeq \o CbSeq)
           /\ JsonSerialize("out/b_3.json", <<GramDump(1), GramDump(2), GramDump(3)>>)
GNext == phase = "init" /\ DumpAll /\ phase' = "dumped" /\ UNCHANGED <<tx, orig, mut, verdict, subm, blk, hist>>
GSpec == Init /\ [][GNext]_vars
=============================================================================
