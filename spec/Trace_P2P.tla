----------------------------- MODULE Trace_P2P -----------------------------
(* Trace validation for C20.  The ndjson trace recorded from the real code drives the actions of    *)
(* P2P:                                                                                            *)
(*   codec / resp lines (deterministic): the recorded result must equal the specification's;       *)
(*     a mismatch is kept in div (expected vs actual);                                             *)
(*   dispatcher events inv / dlv / ret (what is visible at the API: call start, handler call,      *)
(*     call end, totally ordered by a global stamp): Call / Handle / Ret; all other steps of the   *)
(*     goroutines (lock, unlock, table access, cache access) are invisible and are interleaved     *)
(*     nondeterministically between the events (linearisation points are chosen by TLC, R3);       *)
(*     the trace is accepted iff SOME interleaving explains every event (hw = len + 1);            *)
(*   race lines: an unsynchronised access pair on the subscriber table reported by the race        *)
(*     detector; explained by no IDEAL action.                                                     *)
EXTENDS P2P, Json
VARIABLES l, div
Trace == ndJsonDeserialize("trace.ndjson")
NoDiv == [at |-> 0]
tvars == <<vars, l, div>>

TInit == Init /\ l = 1 /\ div = NoDiv /\ TLCSet(1, 1) /\ TLCSet(2, NoDiv) /\ TLCSet(3, {})

MkCall(ev) == IF ev.call = "disp" THEN [op |-> "disp", s |-> NoSub, m |-> ev.m]
              ELSE [op |-> ev.call, s |-> ev.s, m |-> NoMsg]

(* one codec case: k = "none": the uncorrupted message; otherwise `tried` concrete corruptions of   *)
(* kind k of which `delivered` were decoded without error and `vcpass` passed VerifyChecksum         *)
CodecMatches(ev, exp) ==
  IF ev.k = "none" THEN ev.dec = exp.dec.c /\ ev.vc = exp.vc /\ (exp.dec.c = "same" => ev.hdr)
  ELSE (exp.dec.c = "error" => ev.delivered = 0) /\ (~exp.vc => ev.vcpass = 0)
CodecLine(ev) ==
  LET m == [typ |-> ev.m.typ, opts |-> Range(ev.m.opts), comp |-> ev.m.comp, tr |-> ev.m.tr, pc |-> ev.m.pc]
      ideal == Outcome(m, ev.k, FALSE)
      act   == Outcome(m, ev.k, TRUE)
  IN /\ IF CodecMatches(ev, ideal) THEN div' = NoDiv /\ UNCHANGED dev
        ELSE IF KF_EmptyPayloadUndecodable /\ CodecMatches(ev, act)
             THEN div' = NoDiv /\ dev' = dev \cup {"KF_EmptyPayloadUndecodable"}
        ELSE /\ div' = [at |-> l, tr |-> ev.tr, op |-> "codec", expres |-> ideal.dec.c,
                        actres |-> IF ev.k = "none" THEN ev.dec ELSE "delivered",
                        exp |-> [dec |-> ideal.dec.c, vc |-> ideal.vc], act |-> ev]
             /\ UNCHANGED dev
     /\ UNCHANGED <<dvars, cd, hist>>
RespLine(ev) ==
  /\ div' = IF RespOK(ev.name, ev.hasres, ev.resp) THEN NoDiv
            ELSE [at |-> l, tr |-> ev.tr, op |-> "resp", expres |-> ev.name \o "_RES", actres |-> ev.resp,
                  exp |-> [resp |-> ev.name \o "_RES"], act |-> ev]
  /\ UNCHANGED vars

Consume(ev) ==
  CASE ev.op = "reset" -> Reset /\ div' = NoDiv
    [] ev.op = "inv"   -> Call(ev.g, MkCall(ev)) /\ div' = NoDiv
    [] ev.op = "dlv"   -> Handle(ev.g, ev.s) /\ div' = NoDiv
    [] ev.op = "ret"   -> /\ cur[ev.g].op = "disp" \/ res[ev.g] = ev.res    \* Dispatch's error value is not pinned
                          /\ \E mk \in BOOLEAN : Ret(ev.g, mk)
                          /\ div' = NoDiv
    [] ev.op = "race"  -> RaceObserved(ev.rd, ev.site, ev.wr, ev.tbl) /\ div' = NoDiv
    [] ev.op = "codec" -> CodecLine(ev)
    [] ev.op = "resp"  -> RespLine(ev)

TStep ==
  /\ l <= Len(Trace) /\ div = NoDiv
  /\ \/ Consume(Trace[l]) /\ l' = l + 1
     \/ /\ Trace[l].op \in {"dlv", "ret"}
        /\ \E p \in Procs : Internal(p)
        /\ UNCHANGED <<l, div>>
TSpec == TInit /\ [][TStep]_tvars

(* bookkeeping in TLC registers (needs -workers 1): 1 = highest line index reached, 2 = divergence *)
(* with the longest explained prefix, 3 = deviations used by an accepting behaviour                *)
Book ==
  /\ (div = NoDiv /\ l > TLCGet(1)) => TLCSet(1, l)
  /\ (div # NoDiv /\ (TLCGet(2) = NoDiv \/ TLCGet(2).at < div.at)) => TLCSet(2, div)
  /\ (div = NoDiv /\ l = Len(Trace) + 1) => TLCSet(3, dev)
Post == JsonSerialize("result.json", <<[hw |-> TLCGet(1), len |-> Len(Trace), div |-> TLCGet(2),
                                        dev |-> SetToSeq(TLCGet(3))]>>)
TView == <<View, dev, l, div>>
=============================================================================
