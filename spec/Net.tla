-------------------------------- MODULE Net --------------------------------
(***************************************************************************)
(* A network of engines.  Every node runs the pipeline of Engine.tla       *)
(* (Miner.mining, Miner.ProcBlock / trySyncBlock / batchConfirmBlock,      *)
(* Chain.SubmitTx) over its own ledger and state machine; nodes exchange   *)
(* the blocks they mine and the transactions they admit through messages   *)
(* that are delivered in any order, duplicated by nobody, possibly lost.   *)
(*                                                                         *)
(* By C01 the state of a node is a function of its ledger tip's chain and  *)
(* its pool, so a node is modelled by (stored blocks, tip, pool, in-sync   *)
(* target) and its observables are DERIVED with the operators of XState    *)
(* (Replay, Apply, ObsOf); the block store blk / n of XState is the global *)
(* set of blocks ever produced.  XState's single-node variables are not    *)
(* used.  This module goes beyond the listed properties: it states C01,    *)
(* C02, C03, C13 for every node of a network and adds convergence.         *)
(***************************************************************************)
EXTENDS XState

CONSTANTS Nodes            \* e.g. {1, 2, 3}

VARIABLES known,    \* node -> set of blocks stored in its ledger
          tip,      \* node -> ledger tip (= state pointer whenever the node is idle: all blocks are valid)
          npool,    \* node -> pending transactions
          nInsH,    \* node -> Miner.inSyncTargetHeight
          nInsB,    \* node -> Miner.inSyncTargetBlockId (0 none, -1 a block that was not stored)
          bmsgs,    \* block announcements in flight: [to, from, b]
          tmsgs,    \* transactions in flight: [to, from, t]
          lost      \* a block announcement was dropped
nvars == <<vars, known, tip, npool, nInsH, nInsB, bmsgs, tmsgs, lost>>
Unused == UNCHANGED <<ltip, ptr, utxo, zu, zd, total, irr, pool, dev, applied, pruned>>

NInit == /\ Init
         /\ known = [i \in Nodes |-> {1}] /\ tip = [i \in Nodes |-> 1] /\ npool = [i \in Nodes |-> {}]
         /\ nInsH = [i \in Nodes |-> 0] /\ nInsB = [i \in Nodes |-> 0]
         /\ bmsgs = {} /\ tmsgs = {} /\ lost = FALSE
NReset == /\ Reset
          /\ known' = [i \in Nodes |-> {1}] /\ tip' = [i \in Nodes |-> 1] /\ npool' = [i \in Nodes |-> {}]
          /\ nInsH' = [i \in Nodes |-> 0] /\ nInsB' = [i \in Nodes |-> 0]
          /\ bmsgs' = {} /\ tmsgs' = {} /\ lost' = FALSE

(* ---- derived node state ----------------------------------------------------------------------- *)
ChainS(b) == Replay(b).s                                   \* every block of the network is valid on its chain (AllBlocksReplay)
NodeS(i) == ApplySeq(ChainS(tip[i]), TopoOrder(npool[i]))
NodeRec(i) == Rec(NodeS(i), tip[i], 0, npool[i])
NObs(i) == ObsOf(NodeRec(i), tip[i])
OnTip(t, i) == OnChain(t, tip[i])
Others(i) == Nodes \ {i}
NodeUnch == UNCHANGED <<known, tip, npool, nInsH, nInsB>>

(* ---- a client submits t to node i: Chain.SubmitTx, then the transaction is sent to the peers ---- *)
NSubmit(i, t, obsres) ==
  /\ t \in Txs
  /\ UNCHANGED <<blk, n, known, tip, nInsH, nInsB, bmsgs, lost>> /\ Unused
  /\ IF obsres # "other" /\ ~OnTip(t, i) /\ t \notin npool[i] /\ Valid(NodeS(i), t, Height(tip[i]))
     THEN /\ npool' = [npool EXCEPT ![i] = @ \cup {t}]
          /\ tmsgs' = tmsgs \cup {[to |-> j, from |-> i, t |-> t] : j \in Others(i)}
          /\ Log([op |-> "nsubmit", i |-> i, t |-> t, res |-> "admit"])
     ELSE /\ UNCHANGED <<npool, tmsgs>>
          /\ Log([op |-> "nsubmit", i |-> i, t |-> t, res |-> IF obsres = "other" THEN "other" ELSE "stale"])

(* a transaction message reaches its destination: SubmitTx there, no further forwarding *)
(* strict: the message is in flight (generation, model checking).  In trace validation a delivery is executed whether or
   not the specification has the message (a submission the engine refused for a reason of its own - class "other" - was
   not forwarded in the specification, yet the driver delivers what the generated schedule says): same semantics. *)
NDeliverTxX(m, obsres, strict) ==
  /\ (strict => m \in tmsgs) /\ tmsgs' = tmsgs \ {m}
  /\ UNCHANGED <<blk, n, known, tip, nInsH, nInsB, bmsgs, lost>> /\ Unused
  /\ LET j == m.to  t == m.t IN
     IF obsres # "other" /\ ~OnTip(t, j) /\ t \notin npool[j] /\ Valid(NodeS(j), t, Height(tip[j]))
     THEN /\ npool' = [npool EXCEPT ![j] = @ \cup {t}]
          /\ Log([op |-> "ndelivertx", to |-> j, from |-> m.from, t |-> t, res |-> "admit"])
     ELSE /\ UNCHANGED npool
          /\ Log([op |-> "ndelivertx", to |-> j, from |-> m.from, t |-> t, res |-> IF obsres = "other" THEN "other" ELSE "stale"])
NDeliverTx(m, obsres) == NDeliverTxX(m, obsres, TRUE)

(* ---- node i mines: packs its pool in the order seq, confirms, PlayForMiner, announces the block -- *)
PackOK(i, seq) == /\ Range(seq) \subseteq npool[i] /\ NoDupSeq(seq)
                  /\ PlayTxs(ChainS(tip[i]), seq, {}, Height(tip[i]) + 1).ok
NMine(i, seq) ==
  /\ n < MaxBlocks /\ PackOK(i, seq)
  /\ LET b == n + 1 IN
     /\ blk' = blk @@ (b :> [parent |-> tip[i], height |-> Height(tip[i]) + 1, txs |-> seq]) /\ n' = b
     /\ known' = [known EXCEPT ![i] = @ \cup {b}] /\ tip' = [tip EXCEPT ![i] = b]
     /\ npool' = [npool EXCEPT ![i] = @ \ Range(seq)]
     /\ bmsgs' = bmsgs \cup {[to |-> j, from |-> i, b |-> b] : j \in Others(i)}
     /\ UNCHANGED <<nInsH, nInsB, tmsgs, lost>> /\ Unused
     /\ Log([op |-> "nmine", i |-> i, txs |-> seq, res |-> "ok"])

(* ---- a block announcement reaches node j: Miner.ProcBlock(b) with the sender answering GET_BLOCK --
   (Engine.tla PushBegin .. PushEnd in one step: every block of the network is valid, so no batch stops half way) *)
(* what stays pending after the state walked to b: P when it was observed (any subset of the old pool that applies is
   allowed, R3), else the largest such subset found greedily *)
Candidates(j, b) == {t \in npool[j] : ~OnChain(t, b)}
GreedyPool(j, b) ==
  FoldLeft(LAMBDA acc, t : IF Valid(acc.s, t, Height(b)) THEN [s |-> Apply(acc.s, t), P |-> acc.P \cup {t}] ELSE acc,
           [s |-> ChainS(b), P |-> {}], GoodOrder(Candidates(j, b))).P
PoolAfter(j, b, P) ==
  IF P # {"*"} /\ P \subseteq Candidates(j, b) /\ AllApply(ChainS(b), GoodOrder(P), Height(b)) THEN P ELSE GreedyPool(j, b)
NDeliverBlkX(m, P, strict) ==
  /\ (strict => m \in bmsgs) /\ m.b \in 1..n /\ bmsgs' = bmsgs \ {m}
  /\ UNCHANGED <<blk, n, tmsgs, lost>> /\ Unused
  /\ LET j == m.to  b == m.b  ht == Height(m.b)
         ev(r) == [op |-> "ndeliverblk", to |-> j, from |-> m.from, b |-> b, res |-> r] IN
     IF ht < nInsH[j] \/ b = nInsB[j] THEN NodeUnch /\ Log(ev("forbidden"))
     ELSE IF b \in known[j] THEN NodeUnch /\ Log(ev("ok"))
     ELSE IF ht < Height(tip[j]) THEN          \* lower than the trunk: ignored, but it becomes the in-sync target
          /\ nInsH' = [nInsH EXCEPT ![j] = ht] /\ nInsB' = [nInsB EXCEPT ![j] = -1]
          /\ UNCHANGED <<known, tip, npool>> /\ Log(ev("ok"))
     ELSE /\ known' = [known EXCEPT ![j] = @ \cup Anc(b)]
          /\ nInsH' = [nInsH EXCEPT ![j] = ht] /\ nInsB' = [nInsB EXCEPT ![j] = b]
          /\ IF ht > Height(tip[j])
             THEN tip' = [tip EXCEPT ![j] = b] /\ npool' = [npool EXCEPT ![j] = PoolAfter(j, b, P)]
             ELSE UNCHANGED <<tip, npool>>                       \* a tie: stored as a side block
          /\ Log(ev("ok"))

NDeliverBlk(m, P) == NDeliverBlkX(m, P, TRUE)

NDropBlk(m) == /\ bmsgs' = bmsgs \ {m} /\ lost' = TRUE
               /\ UNCHANGED <<blk, n, tmsgs>> /\ NodeUnch /\ Unused
               /\ Log([op |-> "ndropblk", to |-> m.to, from |-> m.from, b |-> m.b, res |-> "-"])
NDropTx(m) == /\ tmsgs' = tmsgs \ {m}
              /\ UNCHANGED <<blk, n, bmsgs, lost>> /\ NodeUnch /\ Unused
              /\ Log([op |-> "ndroptx", to |-> m.to, from |-> m.from, t |-> m.t, res |-> "-"])
NRestart(i) == /\ nInsH' = [nInsH EXCEPT ![i] = 0] /\ nInsB' = [nInsB EXCEPT ![i] = 0]
               /\ UNCHANGED <<blk, n, known, tip, npool, bmsgs, tmsgs, lost>> /\ Unused
               /\ Log([op |-> "nrestart", i |-> i, res |-> "ok"])

NNext ==
  /\ Len(hist) < MaxOps
  /\ \/ \E i \in Nodes, t \in Txs : NSubmit(i, t, "*")
     \/ \E m \in tmsgs : NDeliverTx(m, "*") \/ NDropTx(m)
     \/ \E i \in Nodes : NMine(i, PrefixFits(GoodOrder(npool[i])))
     \/ \E m \in bmsgs : NDeliverBlk(m, {"*"}) \/ NDropBlk(m)
     \/ \E i \in Nodes : NRestart(i)
NSpec == NInit /\ [][NNext]_nvars

-----------------------------------------------------------------------------
NTypeOK == \A i \in Nodes : tip[i] \in known[i] /\ known[i] \subseteq 1..n
(* every ledger is closed under parents and its tip is a highest stored block (C04 per node) *)
LedgersClosed == \A i \in Nodes : \A b \in known[i] : Anc(b) \subseteq known[i]
TipsMax == \A i \in Nodes : \A b \in known[i] : Height(b) <= Height(tip[i])
(* C13 for the network: every block any node produced replays on a fresh node *)
AllBlocksReplay == \A b \in 1..n : Replay(b).ok
(* C03 per node: pending transactions are not on the chain, apply on it, and nothing is consumed twice *)
PoolsApply == \A i \in Nodes : /\ \A t \in npool[i] : ~OnTip(t, i)
                               /\ AllApply(ChainS(tip[i]), GoodOrder(npool[i]), Height(tip[i]))
NodeAdmitted(i) == npool[i] \cup UNION {TxsOf(a) : a \in Anc(tip[i])}
NoDoubleSpendNet == \A i \in Nodes : \A t, u \in NodeAdmitted(i) : t # u =>
                       /\ TX[t].ins \cap TX[u].ins = {}
                       /\ \A k \in Keys : ~(Supersedes(t, k) /\ Supersedes(u, k) /\ TX[t].reads[k] = TX[u].reads[k])
(* C02 per node *)
ConservationNet == \A i \in Nodes : LET s == NodeS(i) IN
                      /\ SumAmt(s.utxo) + SumAmt(UNION {FeeU(t) : t \in npool[i]}) = s.total
                      /\ s.total = GenesisTotal + AwardsUpTo(Height(tip[i]))
(* convergence: once every announcement has been delivered and none was lost all nodes are at the same height and
   every node stores every other node's tip *)
Quiet == bmsgs = {} /\ ~lost
Convergence == Quiet => \A i, j \in Nodes : Height(tip[i]) = Height(tip[j]) /\ tip[i] \in known[j]
(* a tip only ever moves to a strictly higher block (C04's tie rule, network-wide) *)
TipsOnlyRise == [][\A i \in Nodes : tip'[i] # tip[i] => blk'[tip'[i]].height > blk[tip[i]].height]_nvars
(* a stored block is never forgotten *)
KnownGrows == [][\A i \in Nodes : known[i] \subseteq known'[i]]_nvars
NView == <<blk, n, known, tip, npool, nInsH, nInsB, bmsgs, tmsgs, lost>>
=============================================================================
