SPECIFICATION GSpec
CONSTANTS
  MaxTx = 6
  RepTx = 0
  Full = FALSE
  Rich = FALSE
  KF_MerkleDupLastTx = FALSE
  KF_MerkleTreeUnchecked = FALSE
  KF_EmptyBlockRejected = FALSE
  KF_HeaderConcat = FALSE
CHECK_DEADLOCK FALSE
