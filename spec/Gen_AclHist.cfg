SPECIFICATION Spec
CONSTANTS
  KF_IntermediateAKCounts = TRUE
  KF_UnconfirmedAccountOpen = TRUE
  MaxOps = 12
CONSTRAINT Dump
CHECK_DEADLOCK FALSE
