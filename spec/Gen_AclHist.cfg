SPECIFICATION Spec
CONSTANTS
  KF_IntermediateAKCounts = FALSE
  KF_UnconfirmedAccountOpen = FALSE
  MaxOps = 12
CONSTRAINT Dump
CHECK_DEADLOCK FALSE
