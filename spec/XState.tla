------------------------------- MODULE XState -------------------------------
(***************************************************************************)
(* The state machine of bcs/ledger/xledger/state over a block tree:        *)
(* UTXO set, versioned key/value tables (live table ZU and recycle table   *)
(* ZD kept separately, as xmodel keeps them), total supply, irreversible   *)
(* height, pool of unconfirmed transactions, pointer (latest block).       *)
(* Actions follow the code: Submit (VerifyTx + DoTx), MkBlock (format +    *)
(* ledger ConfirmBlock), Play (PlayAndRepost incl. processUnconfirmTxs),   *)
(* Mine (pack from pool + ConfirmBlock + PlayForMiner), Walk               *)
(* (RollBackUnconfirmedTx, undo newest-first, todo oldest-first, one batch *)
(* per block, recoverUnconfirmedTx), Restart.                              *)
(*                                                                         *)
(* Transactions come from a catalogue (constant function TX): the          *)
(* exhaustive space is block tree x operation order, not transaction       *)
(* shapes.  Versions of a key are the names of the writing transactions.   *)
(***************************************************************************)
EXTENDS Integers, Sequences, FiniteSets, TLC, SequencesExt, FiniteSetsExt

CONSTANTS MaxBlocks,       \* bound on block ids handed out
          MaxTxPerBlock,
          MaxOps,
          Window,          \* irreversible slide window w (0 = off)
          ActiveTxs,       \* subset of the catalogue used by this configuration
          BlockBudget,     \* size budget of a block's pool transactions, in units of 100 KB (a "big" tx weighs 3)
          KF_PoolMasksBlockOrder, \* known deviation: a block that lists a consumer before its producer plays on
                                  \* a node whose pool already holds both (pool members are skipped)
          KF_PlayKeepsStaleReader, \* known deviation: see Play
          KF_PoolOrderAntiDep,    \* known deviation: the pool's order ignores read-before-overwrite (anti-dependency)
          KF_FrozenLedgerHeight  \* known deviation: a block's frozen-output check uses the node's ledger
                                 \* height at play time instead of the block's own height

None == "none"
Del  == "DEL"
NoRd == "-"
Keys == {"k1", "k2"}
KeySeq == <<"k1", "k2">>                 \* Keys in key order
Addrs == <<"a", "b", "c", "m">>          \* m = block proposer
AddrSet == {"a", "b", "c", "m"}
Fee == "$"
Miner == "m"
(* The award schedule of the chain (genesis "award" / "award_decay"): base amount, multiplied by num / den every gap
   blocks and rounded half up, as Ledger.CalcAward rounds (gap 0 = no decay).  Configurations that exercise the decay
   substitute DecaySched for AwardSched. *)
AwardSched == [base |-> 1, gap |-> 0, num |-> 1, den |-> 1]
DecaySched == [base |-> 1000, gap |-> 2, num |-> 3, den |-> 4]
RECURSIVE IPow(_, _)
IPow(a, k) == IF k = 0 THEN 1 ELSE a * IPow(a, k - 1)
AwardAt(h) == IF AwardSched.gap = 0 THEN AwardSched.base
              ELSE LET k == h \div AwardSched.gap IN
                   (2 * AwardSched.base * IPow(AwardSched.num, k) + IPow(AwardSched.den, k)) \div (2 * IPow(AwardSched.den, k))
AwardsUpTo(h) == FoldLeft(LAMBDA acc, i : acc + AwardAt(i), 0, [i \in 1..h |-> i])     \* awards of the blocks at heights 1..h
FrozenAt == 3

(* ---- transaction catalogue ------------------------------------------------------------------ *)
(* ins: set of <<tx, offset>> (offsets from 0, as in the code); outs: sequence of [to, amt, fz]   *)
(* reads: key -> version | None | NoRd (not read); writes: key -> value | Del | NoRd (not written) *)
O(to, amt) == [to |-> to, amt |-> amt, fz |-> 0]
OF(to, amt, fz) == [to |-> to, amt |-> amt, fz |-> fz]
NoKV == [k \in Keys |-> NoRd]
(* bad: "" = honest; "amount" = every input cites one unit less than the output it spends really holds (outputs sum
   to the cited total): such a transaction is never current (CheckInputEqualOutput compares cited and stored amount);
   "sum" = inputs and outputs of different sums; "dupin" / "dupfar" = the same output listed twice as input (adjacent / with another input in between); "coinbase" = the
   spend is folded into the coinbase of the block that lists it; "blind" = a key is written that is not among the
   declared reads; "mbsum" = "sum" plus an empty modify_block annotation (covered by neither id nor digest).  None of these is ever admissible. *)
(* big: the transaction carries a 300 KB description (block size limit, C13) *)
Tok(ins, outs) == [ins |-> ins, outs |-> outs, reads |-> NoKV, writes |-> NoKV, bad |-> "", big |-> FALSE]
TokBad(ins, outs, bad) == [ins |-> ins, outs |-> outs, reads |-> NoKV, writes |-> NoKV, bad |-> bad, big |-> FALSE]
KV(reads, writes) == [ins |-> {}, outs |-> <<>>, reads |-> reads, writes |-> writes, bad |-> "", big |-> FALSE]
KVBig(reads, writes) == [ins |-> {}, outs |-> <<>>, reads |-> reads, writes |-> writes, bad |-> "", big |-> TRUE]
R1(v) == [k \in Keys |-> IF k = "k1" THEN v ELSE NoRd]
R2(v) == [k \in Keys |-> IF k = "k2" THEN v ELSE NoRd]
TX == [
  t1 |-> Tok({<<"g", 0>>}, <<O("b", 4), O("a", 5), O(Fee, 1)>>),      \* transfer with fee
  t2 |-> Tok({<<"t1", 0>>}, <<O("c", 4)>>),                           \* spends t1's output
  t3 |-> Tok({<<"g", 0>>}, <<O("c", 10)>>),                           \* double spend of g.0
  t4 |-> Tok({<<"g", 1>>}, <<O("a", 2), O("c", 0), OF("b", 4, FrozenAt)>>),  \* zero-value and frozen output
  t5 |-> Tok({<<"t4", 2>>}, <<O("a", 4)>>),                           \* spends the frozen output
  t6 |-> Tok({<<"t1", 1>>, <<"t4", 0>>}, <<O("c", 6), O(Fee, 1)>>),   \* two parents, fee
  t7 |-> Tok({<<"t2", 0>>}, <<O("a", 4)>>),                           \* chain of depth 3
  t8 |-> Tok({<<"g", 1>>}, <<O("c", 4), O(Fee, 1), O(Fee, 1)>>),         \* two fee outputs
  p1 |-> KV(R1(None), R1("v1")),                                      \* create k1
  p2 |-> KV(R1("p1"), R1("v2")),                                      \* overwrite
  p3 |-> KV(R1("p1"), R1(Del)),                                       \* delete (conflicts with p2)
  p4 |-> KV(R1("p3"), R1("v3")),                                      \* re-create after delete
  p5 |-> KV(R1("p1"), NoKV),                                          \* read without write
  p6 |-> KV(R2(None), R2(Del)),                                       \* delete of a never-written key
  p7 |-> KV(R2(None), R2("w1")),                                      \* create k2 (conflicts with p6)
  p8 |-> KV([k \in Keys |-> IF k = "k1" THEN "p2" ELSE "p7"], R2("w2")),  \* reads two keys, writes one
  p9 |-> KV([k \in Keys |-> None], [k \in Keys |-> IF k = "k1" THEN "x1" ELSE "x2"]),   \* creates both keys (k2 is its 2nd write)
  p10 |-> KV(R2("p9"), R2("x3")),                                      \* overwrites k2 (written at another offset by p9)
  x1 |-> [ins |-> {<<"g", 1>>}, outs |-> <<O("c", 6)>>, reads |-> R1("p1"), writes |-> R1("m1"), bad |-> "", big |-> FALSE],   \* transfer AND key write in one tx
  x2 |-> [ins |-> {<<"t1", 0>>}, outs |-> <<O("a", 4)>>, reads |-> R2(None), writes |-> R2("m2"), bad |-> "", big |-> FALSE], \* spends t1's output and creates k2
  p12 |-> [ins |-> {}, outs |-> <<>>, reads |-> R1("p1"), writes |-> R1("v9"), bad |-> "", big |-> FALSE, alias |-> TRUE],   \* overwrites k1; ALSO
        \* (first in its read / write lists) touches a key of another bucket whose bucket + key concatenation equals k1's
  p11 |-> [KV(NoKV, R1("z1")) EXCEPT !.bad = "blind"],                 \* writes k1 without declaring a read of it (xmodel verifyOutputs)
  w1 |-> TokBad({<<"g", 0>>}, <<O("c", 10)>>, "amount"),              \* cites 9 for g.0, which holds 10 (outputs = what it really holds)
  w2 |-> TokBad({<<"g", 1>>}, <<O("c", 7)>>, "sum"),                   \* outputs (7) exceed the input (g.1 holds 6): creates a token
  w3 |-> TokBad({<<"g", 1>>}, <<O("c", 12)>>, "dupin"),                \* lists g.1 twice (cites 6 + 6, outputs 12)
  w5 |-> TokBad({<<"g", 0>>, <<"g", 1>>}, <<O("c", 26)>>, "dupfar"),   \* inputs g.0, g.1, g.0 again (cites 10 + 6 + 10): the repetition is not adjacent
  w6 |-> TokBad({<<"g", 1>>}, <<O("c", 7)>>, "mbsum"),                 \* outputs exceed the input AND an empty, unmarked modify_block annotation is attached
  w4 |-> TokBad({<<"g", 1>>}, <<O("c", 5)>>, "sum"),                   \* outputs (5) below the input and no fee output: destroys a token
  c1 |-> TokBad({<<"g", 1>>}, <<O("c", 5)>>, "coinbase"),              \* not a transaction of its own: the block's coinbase spends g.1 (6) and
                                                                       \* pays award (1) + 5; a coinbase carries no signature and counts as new supply
  b1 |-> KVBig(NoKV, NoKV),                                           \* big, touches nothing
  b2 |-> KVBig(NoKV, NoKV),
  b3 |-> KVBig(R2(None), R2("y1")),                                   \* big, creates k2
  s4 |-> KV(R2("b3"), R2("y2"))                                       \* small, depends on b3
]
AllTxs == DOMAIN TX
Txs == ActiveTxs
GenesisOuts == <<O("a", 10), O("b", 6)>>
GenesisTotal == 16
OutsOf(t) == IF t = "g" THEN GenesisOuts ELSE TX[t].outs

VARIABLES blk,     \* id -> [parent, height, txs]  (1 = root; award tx of block b is implicit)
          n,       \* ids handed out
          ltip,    \* ledger tip (main chain = ancestors of ltip)
          ptr,     \* state machine's latest block
          utxo, zu, zd, total, irr,
          pool,    \* set of pending transactions
          dev,     \* names of known deviations that changed an outcome so far (history)
          applied, \* blocks ever applied by this state machine (history, C17)
          pruned,  \* a pruning walk has happened (history, C17)
          hist
vars == <<blk, n, ltip, ptr, utxo, zu, zd, total, irr, pool, dev, applied, pruned, hist>>

Parent(b) == blk[b].parent
Height(b) == blk[b].height
RECURSIVE Anc(_)
Anc(b) == IF b = 0 THEN {} ELSE {b} \cup Anc(Parent(b))
TxsOf(b) == Range(blk[b].txs)
OnChain(t, b) == \E a \in Anc(b) : t \in TxsOf(a)
Confirmed(v) == \E b \in Anc(ltip) : v \in TxsOf(b)           \* on the ledger's main chain
TxHeight(v) == Height(CHOOSE b \in Anc(ltip) : v \in TxsOf(b))

(* ---- pure state functions -------------------------------------------------------------------- *)
St == [utxo |-> utxo, zu |-> zu, zd |-> zd, total |-> total]
S0 == [utxo |-> {[ad |-> GenesisOuts[i].to, t |-> "g", o |-> i - 1, amt |-> GenesisOuts[i].amt, fz |-> 0] : i \in DOMAIN GenesisOuts},
       zu |-> [k \in Keys |-> None], zd |-> [k \in Keys |-> None], total |-> GenesisTotal]
Cur(s, k) == IF s.zu[k] # None THEN s.zu[k] ELSE s.zd[k]       \* xmodel.Get: live table, else recycle table
ValueOf(ver, k) == IF ver = None THEN None ELSE TX[ver].writes[k]
InUtxo(s, i) == \E u \in s.utxo : u.t = i[1] /\ u.o = i[2]
UtxoOf(s, i) == CHOOSE u \in s.utxo : u.t = i[1] /\ u.o = i[2]

(* input currency, as CheckInputEqualOutput + xmodel.verifyInputs see it; lh = ledger trunk height *)
TokenOK(s, t, lh) == TX[t].bad = "" /\ \A i \in TX[t].ins : InUtxo(s, i) /\ UtxoOf(s, i).fz <= lh
ReadsOK(s, t) == \A k \in Keys : TX[t].reads[k] # NoRd => Cur(s, k) = TX[t].reads[k]
Valid(s, t, lh) == TokenOK(s, t, lh) /\ ReadsOK(s, t)

RealOuts(t) == {i \in DOMAIN OutsOf(t) : OutsOf(t)[i].to # Fee /\ OutsOf(t)[i].amt > 0}
FeeOuts(t) == {i \in DOMAIN OutsOf(t) : OutsOf(t)[i].to = Fee /\ OutsOf(t)[i].amt > 0}
MkU(ad, t, i) == [ad |-> ad, t |-> t, o |-> i - 1, amt |-> OutsOf(t)[i].amt, fz |-> OutsOf(t)[i].fz]
(* doTxInternal *)
Apply(s, t) ==
  [utxo |-> (s.utxo \ {u \in s.utxo : <<u.t, u.o>> \in TX[t].ins}) \cup {MkU(OutsOf(t)[i].to, t, i) : i \in RealOuts(t)},
   zu |-> [k \in Keys |-> IF TX[t].writes[k] = NoRd THEN s.zu[k] ELSE IF TX[t].writes[k] = Del THEN None ELSE t],
   zd |-> [k \in Keys |-> IF TX[t].writes[k] = Del THEN t ELSE s.zd[k]],
   total |-> s.total]
(* undoTxInternal: inputs restored from what the tx cites; key moved back to the version the tx cites *)
InU(i) == MkU(OutsOf(i[1])[i[2] + 1].to, i[1], i[2] + 1)
Unapply(s, t) ==
  [utxo |-> (s.utxo \ {MkU(OutsOf(t)[i].to, t, i) : i \in RealOuts(t)}) \cup {InU(i) : i \in TX[t].ins},
   zu |-> [k \in Keys |-> IF TX[t].writes[k] = NoRd THEN s.zu[k]
                          ELSE LET pv == TX[t].reads[k] IN
                               IF pv = None THEN None ELSE IF ValueOf(pv, k) = Del THEN None ELSE pv],
   zd |-> [k \in Keys |-> IF TX[t].writes[k] = NoRd THEN s.zd[k]
                          ELSE LET pv == TX[t].reads[k] IN
                               IF pv = None THEN (IF TX[t].writes[k] = Del THEN None ELSE s.zd[k])
                               ELSE IF ValueOf(pv, k) = Del THEN pv
                               ELSE IF TX[t].writes[k] = Del THEN None ELSE s.zd[k]],
   total |-> s.total]
FeeU(t) == {MkU(Miner, t, i) : i \in FeeOuts(t)}                   \* payFee / undoPayFee
AwardName(b) == "aw" \o ToString(b)
AwardUH(b, h) == [ad |-> Miner, t |-> AwardName(b), o |-> 0, amt |-> AwardAt(h), fz |-> 0]
AwardU(b) == AwardUH(b, blk[b].height)

(* dependency order inside a set of mutually conflict-free transactions *)
DependsOn(t, u) == (\E i \in TX[t].ins : i[1] = u) \/ (\E k \in Keys : TX[t].reads[k] = u)
(* Iteration is written with FoldLeft / FoldSet (evaluated eagerly by TLC's Java overrides): TLC does not cache
   lazily evaluated operator arguments while it evaluates an action, so deep recursion over derived values
   would be re-evaluated exponentially often. *)
Idx(k) == [i \in 1..k |-> i]
TopoOrder(S) ==                 \* some order in which producers come first
  FoldLeft(LAMBDA acc, i : LET c == CHOOSE c \in acc.rest : ~\E u \in acc.rest \ {c} : DependsOn(c, u) IN
                           [rest |-> acc.rest \ {c}, seq |-> Append(acc.seq, c)],
           [rest |-> S, seq |-> <<>>], Idx(Cardinality(S))).seq
ApplySeq(s, seq) == FoldLeft(LAMBDA acc, t : Apply(acc, t), s, seq)
UnapplySeq(s, seq) == FoldLeft(LAMBDA acc, t : Unapply(acc, t), s, Reverse(seq))      \* newest first
UndoSet(s, S) == UnapplySeq(s, TopoOrder(S))

(* play the transactions of block b over s; txs in `skip` are already applied (pool members) *)
PlayTxs(s, seq, skip, lh) ==
  FoldLeft(LAMBDA acc, t :
             IF ~acc.ok THEN acc
             ELSE IF t \in skip THEN [ok |-> TRUE, s |-> [acc.s EXCEPT !.utxo = @ \cup FeeU(t)]]
             ELSE IF ~Valid(acc.s, t, lh) THEN [ok |-> FALSE, s |-> acc.s]
             ELSE [ok |-> TRUE, s |-> [Apply(acc.s, t) EXCEPT !.utxo = @ \cup FeeU(t)]],
           [ok |-> TRUE, s |-> s], seq)
PlayBlock(s, b, skip, lh) ==
  PlayTxs([s EXCEPT !.utxo = @ \cup {AwardU(b)}, !.total = @ + AwardAt(blk[b].height)], blk[b].txs, skip, lh)
UndoTxs(s, seq) == FoldLeft(LAMBDA acc, t : [Unapply(acc, t) EXCEPT !.utxo = @ \ FeeU(t)], s, Reverse(seq))
UndoBlock(s, b) == LET s1 == UndoTxs(s, blk[b].txs) IN [s1 EXCEPT !.utxo = @ \ {AwardU(b)}, !.total = @ - AwardAt(blk[b].height)]

(* what a fresh node obtains by playing genesis..b in order (frozen check against each block's own
   height - 1 = the ledger height a node extending its chain sees) *)
RECURSIVE BlocksTo(_)            \* the blocks after the root up to b, oldest first
BlocksTo(b) == IF b <= 1 THEN <<>> ELSE Append(BlocksTo(Parent(b)), b)
Replay(b) == FoldLeft(LAMBDA acc, x : IF ~acc.ok THEN acc
                                      ELSE LET r == PlayBlock(acc.s, x, {}, Height(x)) IN
                                           IF r.ok THEN r ELSE [ok |-> FALSE, s |-> acc.s],
                      [ok |-> TRUE, s |-> S0], BlocksTo(b))
(* the same fold without validity checks (equals Replay where Replay succeeds) *)
ForceTxs(s, seq) == FoldLeft(LAMBDA acc, t : [Apply(acc, t) EXCEPT !.utxo = @ \cup FeeU(t)], s, seq)
ForceReplay(b) == FoldLeft(LAMBDA acc, x : ForceTxs([acc EXCEPT !.utxo = @ \cup {AwardU(x)}, !.total = @ + AwardAt(blk[x].height)], blk[x].txs),
                           S0, BlocksTo(b))
NextIrr(cur, h) == IF Window = 0 THEN cur ELSE IF h - Window > cur THEN h - Window ELSE cur

LHeight == Height(ltip)

Init ==
  /\ blk = [i \in {1} |-> [parent |-> 0, height |-> 0, txs |-> <<>>]] /\ n = 1 /\ ltip = 1 /\ ptr = 1
  /\ utxo = S0.utxo /\ zu = S0.zu /\ zd = S0.zd /\ total = S0.total /\ irr = 0
  /\ pool = {} /\ dev = {} /\ applied = {1} /\ pruned = FALSE /\ hist = <<>>
Reset ==
  /\ blk' = [i \in {1} |-> [parent |-> 0, height |-> 0, txs |-> <<>>]] /\ n' = 1 /\ ltip' = 1 /\ ptr' = 1
  /\ utxo' = S0.utxo /\ zu' = S0.zu /\ zd' = S0.zd /\ total' = S0.total /\ irr' = 0
  /\ pool' = {} /\ dev' = {} /\ applied' = {1} /\ pruned' = FALSE /\ hist' = <<>>
Set(s) == utxo' = s.utxo /\ zu' = s.zu /\ zd' = s.zd /\ total' = s.total
Log(e) == hist' = Append(hist, e)

(* ---- Submit: Chain.SubmitTx = VerifyTx then DoTx ---------------------------------------------- *)
(* Precondition (quantifier of C03 / C13): a transaction that is already confirmed on the pointer's chain or on the
   ledger's main chain is not submitted again (the engine's SubmitTx keeps a txid cache and, on chains with fees,
   every transaction consumes token inputs, so such a re-submission is refused as stale anyway). *)
(* obsres: the result class observed on the real node (trace validation) or "*".  R2: a refusal for a reason that has
   nothing to do with input currency (class "other": tightened unrelated validation) is always allowed and changes
   nothing; what the property constrains is admission of a non-current transaction and refusal *as stale* of a
   current one. *)
Submit(t, obsres) ==
  /\ t \in Txs /\ ~OnChain(t, ptr) /\ ~Confirmed(t)
  /\ IF obsres = "other" THEN UNCHANGED <<utxo, zu, zd, total, pool>> /\ Log([op |-> "submit", t |-> t, res |-> "other"])
     ELSE IF t \in pool THEN UNCHANGED <<utxo, zu, zd, total, pool>> /\ Log([op |-> "submit", t |-> t, res |-> "stale"])
     ELSE IF Valid(St, t, LHeight) THEN Set(Apply(St, t)) /\ pool' = pool \cup {t} /\ Log([op |-> "submit", t |-> t, res |-> "admit"])
     ELSE UNCHANGED <<utxo, zu, zd, total, pool>> /\ Log([op |-> "submit", t |-> t, res |-> "stale"])
  /\ UNCHANGED <<blk, n, ltip, ptr, irr, dev, applied, pruned>>

(* Trace validation: a submission outside the quantifier (the transaction is already on the pointer's chain or on the
   main chain - it arises when the real miner packed other transactions than the generator assumed) is not judged: a
   refusal changes nothing; after an admission the rest of the behaviour is not judged (marker in dev). *)
SubmitAny(t, obsres) ==
  IF ~OnChain(t, ptr) /\ ~Confirmed(t) THEN Submit(t, obsres)
  ELSE /\ t \in Txs
       /\ UNCHANGED <<blk, n, ltip, ptr, utxo, zu, zd, total, irr, pool, applied, pruned>>
       /\ dev' = IF obsres = "admit" THEN dev \cup {"outside-quantifier"} ELSE dev
       /\ Log([op |-> "submit", t |-> t, res |-> obsres])

(* ---- MkBlock: a peer's block is formatted and confirmed by the ledger -------------------------- *)
NoDupSeq(s) == \A i, j \in DOMAIN s : i # j => s[i] # s[j]
TxSeqs == UNION {{s \in [1..k -> Txs] : NoDupSeq(s)} : k \in 0..MaxTxPerBlock}
(* the transactions are valid, in this order, on the chain of p (frozen outputs judged at the new
   block's own height) *)
SeqValidOn(p, seq) == LET r == Replay(p) IN
   r.ok /\ PlayTxs(r.s, seq, {}, Height(p) + 1).ok /\ \A i \in DOMAIN seq : ~OnChain(seq[i], p)
NewBlockDev(p, seq, d) ==
  /\ blk' = blk @@ ((n + 1) :> [parent |-> p, height |-> Height(p) + 1, txs |-> seq]) /\ n' = n + 1
  /\ ltip' = IF Height(p) + 1 > LHeight THEN n + 1 ELSE ltip
  /\ Log([op |-> "mkblock", p |-> p, txs |-> seq, res |-> "ok"])
  /\ dev' = d
  /\ UNCHANGED <<ptr, utxo, zu, zd, total, irr, pool, applied, pruned>>
NewBlock(p, seq) == NewBlockDev(p, seq, dev)
MkBlock(p, seq) == n < MaxBlocks /\ p \in 1..n /\ SeqValidOn(p, seq) /\ NewBlock(p, seq)
(* a block the ledger stores but whose transactions do not apply on its chain (C05: failed play) *)
MkBadBlock(p, seq) ==
  /\ n < MaxBlocks /\ p \in 1..n /\ seq # <<>> /\ ~SeqValidOn(p, seq) /\ Replay(p).ok
  /\ \A i \in DOMAIN seq : ~OnChain(seq[i], p)
  /\ NewBlock(p, seq)
(* trace validation: whatever block the driver built *)
MkAnyBlockX(p, seq, mined) ==
  /\ p \in 1..n
  /\ IF p = ltip /\ \E i \in DOMAIN seq : Confirmed(seq[i])      \* the ledger refuses a tx that is already on the trunk
     THEN UNCHANGED <<blk, n, ltip, ptr, utxo, zu, zd, total, irr, pool, dev, applied, pruned>>
          /\ Log([op |-> "mkblock", p |-> p, txs |-> seq, res |-> "fail"])
     ELSE \* a block that repeats a transaction of its own chain is outside the quantifier (it arises in trace validation when
          \* the real miner packed other transactions than the generator assumed): the rest of the behaviour is not judged
          \* (not for a block the node mined itself: packing a confirmed transaction is what C13 forbids)
          NewBlockDev(p, seq, IF ~mined /\ \E i \in DOMAIN seq : OnChain(seq[i], p) THEN dev \cup {"outside-quantifier"} ELSE dev)
MkAnyBlock(p, seq) == MkAnyBlockX(p, seq, FALSE)

(* ledger height against which a block's frozen inputs are judged *)
BlockLH(b) == IF KF_FrozenLedgerHeight THEN LHeight ELSE Height(b)
DevFrozen(differs) == IF KF_FrozenLedgerHeight /\ differs THEN dev \cup {"KF_FrozenLedgerHeight"} ELSE dev

(* ---- Mine: the node packs its own pool (in the order seq), confirms and PlayForMiner ----------- *)
Packable == {t \in pool : ~Confirmed(t)}       \* the miner skips pending txs that are already on the main chain
Size(t) == IF TX[t].big THEN 3 ELSE 0
SizeOf(seq) == FoldLeft(LAMBDA acc, t : acc + Size(t), 0, seq)
(* packBlock takes the pool's order and stops at the first transaction that does not fit any more *)
PrefixFits(seq) == FoldLeft(LAMBDA acc, t : IF acc.open /\ acc.sum + Size(t) <= BlockBudget
                                            THEN [open |-> TRUE, sum |-> acc.sum + Size(t), seq |-> Append(acc.seq, t)]
                                            ELSE [acc EXCEPT !.open = FALSE],
                            [open |-> TRUE, sum |-> 0, seq |-> <<>>], seq).seq
Mine(seq) ==         \* seq = the transactions packed, in order
  /\ n < MaxBlocks /\ ptr = ltip /\ Range(seq) \subseteq Packable /\ NoDupSeq(seq)
  /\ LET b == n + 1 IN
     /\ blk' = blk @@ (b :> [parent |-> ptr, height |-> Height(ptr) + 1, txs |-> seq]) /\ n' = b /\ ltip' = b
     /\ ptr' = b /\ pool' = pool \ Range(seq)
     /\ utxo' = utxo \cup {AwardUH(b, Height(ptr) + 1)} \cup UNION {FeeU(t) : t \in Range(seq)} /\ total' = total + AwardAt(Height(ptr) + 1)
     /\ UNCHANGED <<zu, zd, dev, pruned>>
     /\ applied' = applied \cup {b}
     /\ irr' = NextIrr(irr, Height(ptr) + 1)
     /\ Log([op |-> "mine", txs |-> seq, res |-> "ok"])

(* ---- Walk ------------------------------------------------------------------------------------- *)
(* A walk is a sequence of atomic storage writes: one batch that rolls the whole pool back, one batch
   per undone block (newest first), one per redone block (oldest first), each moving the pointer, and
   then one batch per re-admitted pool transaction (recoverUnconfirmedTx).  WalkSteps returns the
   persisted state after each of these writes, so that the final state (Walk), the state after a
   crash or a failing write between any two of them (C06, C05) are all read off the same definition. *)
RECURSIVE PathUp(_, _)          \* blocks after `from` up to `to`, oldest first (from is an ancestor of to)
PathUp(from, to) == IF to = from THEN <<>> ELSE Append(PathUp(from, Parent(to)), to)
LCA(a, b) == CHOOSE c \in Anc(a) \cap Anc(b) : \A d \in Anc(a) \cap Anc(b) : Height(d) <= Height(c)
PruneIrr(h, ir) == IF Window = 0 THEN ir ELSE IF h - Window <= 0 THEN 0 ELSE h - Window
Rec(s, p, ir, pl) == [s |-> s, ptr |-> p, irr |-> ir, pool |-> pl]
CurRec == Rec(St, ptr, irr, pool)
Force(x) == CHOOSE y \in {x} : TRUE        \* evaluate once
LastOr(seq, dflt) == IF seq = <<>> THEN dflt ELSE seq[Len(seq)]
(* undo newest-first from b down to (excluding) stop; refuses at or below the irreversible height unless pruning *)
UndoSteps(s, b, stop, prune, ir) ==
  LET r == FoldLeft(LAMBDA acc, x :
                      IF ~acc.ok THEN acc
                      ELSE IF ~prune /\ Height(x) <= acc.ir THEN [acc EXCEPT !.ok = FALSE]
                      ELSE LET s2 == UndoBlock(acc.s, x)
                               ir2 == IF prune /\ Window > 0 THEN PruneIrr(Height(x), acc.ir) ELSE acc.ir IN
                           [ok |-> TRUE, s |-> s2, ir |-> ir2, seq |-> Append(acc.seq, Rec(s2, Parent(x), ir2, {}))],
                    [ok |-> TRUE, s |-> s, ir |-> ir, seq |-> <<>>], Reverse(PathUp(stop, b))) IN
  [ok |-> r.ok, seq |-> r.seq]
RedoSteps(s, seq, ir, ideal) ==       \* ideal: frozen inputs judged at the block's own height
  LET r == FoldLeft(LAMBDA acc, b :
                      IF ~acc.ok THEN acc
                      ELSE LET pr == PlayBlock(acc.s, b, {}, IF ideal THEN Height(b) ELSE BlockLH(b)) IN
                           IF ~pr.ok THEN [acc EXCEPT !.ok = FALSE]
                           ELSE LET ir2 == NextIrr(acc.ir, Height(b)) IN
                                [ok |-> TRUE, s |-> pr.s, ir |-> ir2, seq |-> Append(acc.seq, Rec(pr.s, b, ir2, {}))],
                    [ok |-> TRUE, s |-> s, ir |-> ir, seq |-> <<>>], seq) IN
  [ok |-> r.ok, seq |-> r.seq]
(* recoverUnconfirmedTx: rolled-back pool members are re-admitted in the given order when still valid *)
ReadmitStepsX(rec, seq, lh, skipConfirmed) ==
  FoldLeft(LAMBDA acc, t :
             IF ~(skipConfirmed /\ Confirmed(t)) /\ Valid(acc.rec.s, t, lh)
             THEN LET r2 == Rec(Apply(acc.rec.s, t), acc.rec.ptr, acc.rec.irr, acc.rec.pool \cup {t}) IN
                  [rec |-> r2, seq |-> Append(acc.seq, r2)]
             ELSE acc,
           [rec |-> rec, seq |-> <<>>], seq).seq
ReadmitSteps(rec, seq, lh) == ReadmitStepsX(rec, seq, lh, TRUE)   \* a tx that is on the main chain by now is not re-admitted
WalkSteps(rec, d, prune, order, ideal) ==
  LET w1 == Rec(UndoSet(rec.s, rec.pool), rec.ptr, rec.irr, {})     \* the whole pool is rolled back first
      c == LCA(rec.ptr, d)
      u == UndoSteps(w1.s, rec.ptr, c, prune, rec.irr)
      afterU == LastOr(u.seq, w1)
      r == IF u.ok THEN RedoSteps(afterU.s, PathUp(c, d), afterU.irr, ideal) ELSE [ok |-> FALSE, seq |-> <<>>]
      afterR == LastOr(r.seq, afterU)
      ok == u.ok /\ r.ok
      ra == IF ok THEN ReadmitSteps(afterR, order, LHeight) ELSE <<>> IN   \* a failed walk returns before re-admission
  [ok |-> ok, steps |-> <<w1>> \o u.seq \o r.seq \o ra, lca |-> c, undoOk |-> u.ok]
Fin(w) == w.steps[Len(w.steps)]
(* every order of S in which producers precede consumers *)
RECURSIVE TopoOrders(_)
TopoOrders(S) == IF S = {} THEN {<<>>}
                 ELSE UNION {{<<c>> \o q : q \in TopoOrders(S \ {c})} : c \in {c \in S : ~\E u \in S \ {c} : DependsOn(c, u)}}
(* P = the pool observed after the walk (trace validation) or {"*"} (generation, model checking).  The
   code neither fixes the order in which independent rolled-back transactions are re-admitted (map
   iteration) nor does any property demand that the re-admitted set is maximal: any subset of the old
   pool that can be applied in some dependency-respecting order is allowed (DESIGN R3). *)
WalkChoice(d, prune, P, RO) ==      \* RO: the order of re-admission when it was observed (else <<>>)
  LET canon == WalkSteps(CurRec, d, prune, TopoOrder(pool), FALSE)
      obsd == WalkSteps(CurRec, d, prune, RO, FALSE)
      full(o) == LET w == WalkSteps(CurRec, d, prune, o, FALSE) IN Fin(w).pool = P
      ords == {o \in TopoOrders(P) : full(o)} IN
  IF P = {"*"} \/ ~canon.ok \/ ~(P \subseteq pool) THEN canon
  ELSE IF RO # <<>> /\ Range(RO) = P /\ Fin(obsd).pool = P THEN obsd
  ELSE IF Fin(canon).pool = P THEN canon
  ELSE IF ords = {} THEN canon ELSE WalkSteps(CurRec, d, prune, CHOOSE o \in ords : TRUE, FALSE)
Walk(d, prune, P, RO) ==
  /\ d \in 1..n
  /\ \E w \in {WalkChoice(d, prune, P, RO)} : \E wi \in {WalkSteps(CurRec, d, prune, TopoOrder(pool), TRUE)} :
     \E f \in {Fin(w)} :          \* (singleton quantifiers: each value is computed once)
     /\ Set(f.s) /\ ptr' = f.ptr /\ pool' = f.pool /\ irr' = f.irr
     /\ dev' = DevFrozen(w.ok # wi.ok \/ f.ptr # Fin(wi).ptr)
     /\ applied' = IF w.undoOk THEN applied \cup {x \in Range(PathUp(w.lca, d)) : Height(x) <= Height(f.ptr)} ELSE applied
     /\ pruned' = (pruned \/ (prune /\ ptr # w.lca))
     /\ Log([op |-> "walk", d |-> d, prune |-> prune, res |-> IF w.ok THEN "ok" ELSE "fail"])
  /\ UNCHANGED <<blk, n, ltip>>
(* C06: the process dies after the j-th storage write of a walk and restarts: what is persisted then *)
WalkCrash(d, j) ==
  /\ d \in 1..n
  /\ LET w == WalkSteps(CurRec, d, FALSE, TopoOrder(pool), FALSE) IN
     /\ j \in 1..Len(w.steps)
     /\ LET f == w.steps[j] IN
        /\ Set(f.s) /\ ptr' = f.ptr /\ pool' = f.pool /\ irr' = f.irr
        /\ applied' = applied \cup {f.ptr}
        /\ Log([op |-> "walkcrash", d |-> d, j |-> j, res |-> "ok"])
  /\ UNCHANGED <<blk, n, ltip, dev, pruned>>

(* C05: the (j+1)-th storage write of a walk fails (j < number of writes of its block phase): the walk reports
   failure and the node is left with what the first j writes persisted (nothing for j = 0) *)
WalkFault(d, prune, j) ==
  /\ d \in 1..n
  /\ \E w \in {WalkSteps(CurRec, d, prune, <<>>, FALSE)} :
     /\ j < Len(w.steps)
     /\ IF j = 0 THEN UNCHANGED <<ptr, utxo, zu, zd, total, irr, pool, applied, pruned>>
        ELSE \E f \in {w.steps[j]} :
             /\ Set(f.s) /\ ptr' = f.ptr /\ pool' = f.pool /\ irr' = f.irr
             /\ applied' = applied \cup {w.steps[i].ptr : i \in 1..j}
             /\ pruned' = (pruned \/ (prune /\ ptr # f.ptr))
     /\ Log([op |-> "walk", d |-> d, prune |-> prune, fault |-> j, res |-> "fail"])
  /\ UNCHANGED <<blk, n, ltip, dev>>
WalkBlockWrites(d, prune) == Len(WalkSteps(CurRec, d, prune, <<>>, FALSE).steps)
(* the single write of any other operation fails: nothing changes *)
OpFault(o, r) == UNCHANGED <<blk, n, ltip, ptr, utxo, zu, zd, total, irr, pool, dev, applied, pruned>> /\ Log([op |-> o, fault |-> 0, res |-> r])

(* ---- C13: the order in which the pool yields its transactions, and what a replica makes of the block -- *)
(* producers first; a transaction that only read a key version comes before the one that supersedes it *)
AntiDep(r, w) == r # w /\ \E k \in Keys : /\ TX[w].writes[k] # NoRd /\ TX[r].writes[k] = NoRd
                                            /\ TX[r].reads[k] # NoRd /\ TX[r].reads[k] = TX[w].reads[k]
PoolOrderOK(seq) == \A i, j \in DOMAIN seq : i < j => ~DependsOn(seq[i], seq[j]) /\ ~AntiDep(seq[j], seq[i])
(* what packBlock may produce from the pool (the pool's own order is not observable, only the packed prefix is): an
   admissible order of a dependency-closed subset that fits the budget and is maximal: either everything packable is
   packed, or some transaction that could come next does not fit *)
Producers(t) == {u \in Packable : DependsOn(t, u)}
PackedOK(seq) ==
  /\ Range(seq) \subseteq Packable /\ NoDupSeq(seq) /\ PoolOrderOK(seq)
  /\ \A i \in DOMAIN seq : Producers(seq[i]) \subseteq {seq[j] : j \in 1..(i - 1)}
  /\ SizeOf(seq) <= BlockBudget
  /\ \/ Range(seq) = Packable
     \/ \E t \in Packable \ Range(seq) : Producers(t) \subseteq Range(seq) /\ SizeOf(seq) + Size(t) > BlockBudget
GoodOrder(S) ==               \* one admissible order, built greedily (exists for every conflict-free pool)
  FoldLeft(LAMBDA acc, i : LET ok == {c \in acc.rest : ~\E u \in acc.rest \ {c} : DependsOn(c, u) \/ AntiDep(u, c)}
                               c == IF ok = {} THEN CHOOSE x \in acc.rest : TRUE ELSE CHOOSE x \in ok : TRUE IN
                           [rest |-> acc.rest \ {c}, seq |-> Append(acc.seq, c)],
           [rest |-> S, seq |-> <<>>], Idx(Cardinality(S))).seq
(* a node that never saw the transactions confirms the chain of b and walks to it *)
ReplicaObs(b) ==
  LET w == Force(WalkSteps(Rec(S0, 1, 0, {}), b, FALSE, <<>>, TRUE)) IN
  [res |-> IF w.ok THEN "ok" ELSE "fail", rec |-> Fin(w)]

(* ---- Play: PlayAndRepost of a block whose parent is the pointer ------------------------------- *)
Descendants(S) == LET RECURSIVE D(_)
                      D(X) == LET Y == X \cup {t \in pool : \E u \in X : DependsOn(t, u)} IN IF Y = X THEN X ELSE D(Y)
                  IN D(S)
(* processUnconfirmTxs: pool members that conflict with the block *)
BlockVersion(b, k) ==    \* version the block leaves for key k (NoRd if it does not write k)
  LET ws == {i \in DOMAIN blk[b].txs : TX[blk[b].txs[i]].writes[k] # NoRd} IN
  IF ws = {} THEN NoRd ELSE blk[b].txs[Max(ws)]
Conflicts(b) ==
  LET inb == TxsOf(b)
      binputs == UNION {TX[t].ins : t \in inb} IN
  {u \in pool \ inb :
     \/ TX[u].ins \cap binputs # {}
     \/ \E k \in Keys : /\ BlockVersion(b, k) # NoRd /\ BlockVersion(b, k) \notin pool
                        /\ \/ (TX[u].reads[k] # NoRd /\ TX[u].reads[k] # BlockVersion(b, k))
                           \/ (TX[u].writes[k] # NoRd /\ u # BlockVersion(b, k))}
(* processUnconfirmTxs after fix 835b00b, transcribed: besides Conflicts, a pending transaction is undone when a block
   transaction read AND overwrote a key version it read (whether or not that block transaction was pending here);
   descendants follow.  PlayRuleExact (design check, model-checked on the key-value and mixed families): on every
   reachable state, for every block on the pointer that a node without this pool would play, the transcribed rule
   leaves exactly the pool that IDEAL Play leaves (= what can be re-applied on the new chain state). *)
Superseded(b) == {u \in pool \ TxsOf(b) : \E k \in Keys : /\ TX[u].reads[k] # NoRd
                     /\ \E t \in TxsOf(b) : TX[t].writes[k] # NoRd /\ TX[t].reads[k] = TX[u].reads[k]}
CodeUndone(b) == Descendants(Conflicts(b) \cup Superseded(b))
IdealPoolAfterPlay(b) ==
  LET undone == Descendants(Conflicts(b))
      keep == pool \cap TxsOf(b)
      base == UndoSet(St, undone)
      r  == PlayBlock(base, b, keep, Height(b))
      pool1 == (pool \ undone) \ keep
      again == ReadmitStepsX(Rec(UndoSet(r.s, pool1), b, irr, {}), GoodOrder(pool1), LHeight, FALSE) IN
  IF again = <<>> THEN {} ELSE again[Len(again)].pool
PlayRuleExact ==
  \A b \in 2..n : (Parent(b) = ptr /\ PlayBlock(UndoSet(St, pool), b, {}, Height(b)).ok
                     /\ PlayBlock(UndoSet(St, Descendants(Conflicts(b))), b, pool \cap TxsOf(b), Height(b)).ok)
                    => IdealPoolAfterPlay(b) = (pool \ CodeUndone(b)) \ TxsOf(b)
(* obsres: the result observed on the real node ("ok" / "fail"; trace validation) or "*" (generation, MC).
   Known deviation KF_PoolMasksBlockOrder: PlayAndRepost validates the block's transactions against the
   stored state, which still contains the effects of the node's own pending transactions (those it
   undoes as conflicting are only undone in the batch). When the node's pool is not empty and a node
   without that pool would refuse the block, the outcome on the real node is therefore not determined
   by the design: the deviation accepts whatever was observed and the rest of the behaviour is not judged. *)
Play(b, obsres) ==
  /\ b \in 2..n
  /\ IF Parent(b) # ptr
     THEN UNCHANGED <<ptr, utxo, zu, zd, total, irr, pool, dev, applied>> /\ Log([op |-> "play", b |-> b, res |-> "fail"])
     ELSE LET undone == Descendants(Conflicts(b))
              keep == pool \cap TxsOf(b)
              base == UndoSet(St, undone)
              r  == PlayBlock(base, b, keep, BlockLH(b))
              ri == PlayBlock(base, b, keep, Height(b))
              fresh == PlayBlock(UndoSet(St, pool), b, {}, Height(b)).ok   \* would a node without this pool play it?
              masked == KF_PoolMasksBlockOrder /\ pool # {} /\ ~fresh
              ok == IF masked THEN (IF obsres = "*" THEN r.ok ELSE obsres = "ok") ELSE r.ok /\ fresh
              s2 == IF r.ok THEN r.s ELSE ForceTxs([base EXCEPT !.utxo = @ \cup {AwardU(b)}, !.total = @ + AwardAt(blk[b].height)], blk[b].txs)
              pool1 == (pool \ undone) \ keep            \* what processUnconfirmTxs leaves pending
              (* Known deviation KF_PlayKeepsStaleReader: a pending transaction that only READ a key version which the
                 block supersedes is not recognised as conflicting when the superseding transaction was itself pending
                 on this node; it stays in the pool although its input is no longer current. IDEAL: what stays pending
                 is what can be re-applied on top of the new chain state. *)
              again == ReadmitStepsX(Rec(UndoSet(s2, pool1), b, irr, {}), GoodOrder(pool1), LHeight, FALSE)
              pool2 == IF again = <<>> THEN {} ELSE again[Len(again)].pool
              s3 == IF again = <<>> THEN UndoSet(s2, pool1) ELSE again[Len(again)].s
              keepStale == KF_PlayKeepsStaleReader \/ masked IN
          /\ dev' = (DevFrozen(r.ok # ri.ok) \cup (IF masked /\ ok THEN {"KF_PoolMasksBlockOrder"} ELSE {})
                                            \cup (IF ok /\ ~masked /\ KF_PlayKeepsStaleReader /\ pool2 # pool1 THEN {"KF_PlayKeepsStaleReader"} ELSE {}))
          /\ IF ok THEN /\ Set(IF keepStale THEN s2 ELSE s3) /\ ptr' = b /\ pool' = (IF keepStale THEN pool1 ELSE pool2)
                         /\ irr' = NextIrr(irr, Height(b))
                         /\ applied' = applied \cup {b}
                         /\ Log([op |-> "play", b |-> b, res |-> "ok"])
             ELSE UNCHANGED <<ptr, utxo, zu, zd, total, irr, pool, applied>> /\ Log([op |-> "play", b |-> b, res |-> "fail"])
  /\ UNCHANGED <<blk, n, ltip, pruned>>

(* ---- PlayForMiner: second half of Mine as a step of its own (the first half is a block confirmation);
   the harness records a mined block as these two events, so that the crash point between the two
   storage writes of Mine is an ordinary state of the specification ---------------------------------- *)
PlayForMiner(b) ==
  /\ b \in 2..n
  /\ IF Parent(b) # ptr
     THEN UNCHANGED <<ptr, utxo, zu, zd, total, irr, pool, applied>> /\ Log([op |-> "pfm", b |-> b, res |-> "fail"])
     ELSE /\ ptr' = b /\ pool' = pool \ TxsOf(b)
          /\ utxo' = utxo \cup {AwardU(b)} \cup UNION {FeeU(t) : t \in TxsOf(b)} /\ total' = total + AwardAt(blk[b].height)
          /\ UNCHANGED <<zu, zd>>
          /\ applied' = applied \cup {b}
          /\ irr' = NextIrr(irr, Height(b))
          /\ Log([op |-> "pfm", b |-> b, res |-> "ok"])
  /\ UNCHANGED <<blk, n, ltip, dev, pruned>>

(* ---- Restart: close and reopen on the same data ------------------------------------------------ *)
Restart == UNCHANGED <<blk, n, ltip, ptr, utxo, zu, zd, total, irr, pool, dev, applied, pruned>> /\ Log([op |-> "restart", res |-> "ok"])

Next ==
  /\ Len(hist) < MaxOps
  /\ \/ \E t \in Txs : Submit(t, "*")
     \/ \E p \in 1..n, seq \in TxSeqs : MkBlock(p, seq)
     \/ \E b \in 2..n : Play(b, "*")
     \/ Mine(PrefixFits(GoodOrder(Packable)))
     \/ \E d \in 1..n : Walk(d, FALSE, {"*"}, <<>>)
     \/ Restart
Spec == Init /\ [][Next]_vars
(* C06: the same design with crashes between the storage writes of a walk (a mined block's two writes are
   already two separate steps: MkBlock on the pointer, then nothing / a later Walk) *)
CrashNext == Next \/ (Len(hist) < MaxOps /\ \E d \in 1..n, j \in 1..(2 * MaxBlocks) : WalkCrash(d, j))
CrashSpec == Init /\ [][CrashNext]_vars

-----------------------------------------------------------------------------
(* Observable projection (compared with the real state machine after every step) *)
KeyObs(s, k) == [ver |-> Cur(s, k), val |-> IF Cur(s, k) = None THEN None ELSE ValueOf(Cur(s, k), k)]
UtxoRow(u) == <<u.ad, u.t, u.o, u.amt, u.fz>>
SumAmt(S) == FoldSet(LAMBDA u, acc : acc + u.amt, 0, S)
Balance(s, a) == SumAmt({u \in s.utxo : u.ad = a})
PendingFees == SumAmt(UNION {FeeU(t) : t \in pool})
ChainSeq(b) == PathUp(0, b)       \* root..b, oldest first  (PathUp(0, b) walks to parent 0)
ObsOf(rec, lt) ==
       [ ptr  |-> rec.ptr,
         ltip |-> lt,
         irr  |-> rec.irr,
         total |-> ToString(rec.s.total),
         bal  |-> [i \in 1..Len(Addrs) |-> ToString(Balance(rec.s, Addrs[i]))],
         utxo |-> {UtxoRow(u) : u \in rec.s.utxo},
         keys |-> [k \in Keys |-> KeyObs(rec.s, k)],
         pool |-> rec.pool,
         \* GetUnconfirmedTx(true): what the miner is offered (pending and not yet on the ledger's main chain)
         poold |-> {t \in rec.pool : ~\E b \in Anc(lt) : t \in TxsOf(b)},
         \* GetBalanceDetail: <<unfrozen, frozen>> per address, frozen = frozen height above the ledger's trunk height
         bald |-> [i \in 1..Len(Addrs) |-> <<ToString(SumAmt({u \in rec.s.utxo : u.ad = Addrs[i] /\ u.fz <= Height(lt)})),
                                             ToString(SumAmt({u \in rec.s.utxo : u.ad = Addrs[i] /\ u.fz > Height(lt)}))>>],
         \* XMReader.Select over the whole bucket: the live keys in key order with their versions
         scan |-> FoldLeft(LAMBDA acc, k : IF rec.s.zu[k] # None THEN Append(acc, <<k, rec.s.zu[k]>>) ELSE acc, <<>>, KeySeq),
         \* chain-governed parameters: no transaction of this version changes them
         params |-> "genesis",
         \* C18: snapshots at every block of the chain (only while the state is on the ledger's main chain)
         snap |-> IF rec.ptr \in Anc(lt)
                  THEN [i \in 1..Len(ChainSeq(rec.ptr)) |-> [k \in Keys |-> KeyObs(ForceReplay(ChainSeq(rec.ptr)[i]), k)]]
                  ELSE <<>> ]
Obs == ObsOf(CurRec, ltip)
(* C06: what the node answers after "sync to the ledger tip" (Walk(ltip)) followed by a roll-back of the pool,
   started from the persisted state rec *)
SyncObs(rec) ==
  LET w == Force(WalkSteps(rec, ltip, FALSE, TopoOrder(rec.pool), FALSE))
      f == Force(Fin(w))
      back == Force(Rec(UndoSet(f.s, f.pool), f.ptr, f.irr, {})) IN
  [res |-> IF w.ok THEN "ok" ELSE "fail", obs |-> ObsOf(back, ltip)]

-----------------------------------------------------------------------------
(* C01: the state minus pool effects is what a fresh node obtains by replaying the pointer's chain *)
Core(s) == [utxo |-> s.utxo, keys |-> [k \in Keys |-> KeyObs(s, k)], total |-> s.total]
PureFn == LET r == Replay(ptr) IN r.ok /\ Core(UndoSet(St, pool)) = Core(r.s)
(* C02: conservation *)
Conservation == /\ SumAmt(utxo) + PendingFees = total
                /\ total = GenesisTotal + AwardsUpTo(Height(ptr))
(* C03: no two admitted transactions (main chain of ptr or pool) consume the same output or key version *)
Admitted == pool \cup UNION {TxsOf(a) : a \in Anc(ptr)}
Supersedes(t, k) == TX[t].writes[k] # NoRd
NoDoubleSpend == \A t, u \in Admitted : t # u =>
                    /\ TX[t].ins \cap TX[u].ins = {}
                    /\ \A k \in Keys : ~(Supersedes(t, k) /\ Supersedes(u, k) /\ TX[t].reads[k] = TX[u].reads[k])
AllApply(s, seq, lh) == FoldLeft(LAMBDA acc, t : IF acc.ok /\ Valid(acc.s, t, lh) THEN [ok |-> TRUE, s |-> Apply(acc.s, t)]
                                                  ELSE [ok |-> FALSE, s |-> acc.s],
                                 [ok |-> TRUE, s |-> s], seq).ok
PoolValid == /\ \A t \in pool : \A i \in TX[t].ins : ~InUtxo(St, i)        \* inputs of pending txs are consumed
             /\ AllApply(UndoSet(St, pool), GoodOrder(pool), LHeight)        \* and all of them apply on the chain state
(* C17: with window w > 0 the irreversible height is max(0, max over blocks ever applied of height - w);
   it never decreases and the pointer's chain keeps every applied block at or below it (pruning aside) *)
MaxApplied == Max({Height(b) : b \in applied})
IrrDef == pruned \/ irr = (IF Window = 0 \/ MaxApplied - Window < 0 THEN 0 ELSE MaxApplied - Window)
IrrMonotone == [][pruned' \/ irr' >= irr]_vars
IrrKept == [][pruned' \/ \A b \in Anc(ptr) : Height(b) <= irr => b \in Anc(ptr)']_vars
(* C18: the snapshot reader, written like xModSnapshot.Get: start from the newest version (pending writes
   included), follow each writer's own input reference backwards, skip unconfirmed writers, stop at the
   first writer confirmed at a height <= the snapshot block's *)
RECURSIVE SnapWalk(_, _, _)
SnapWalk(v, k, h) == IF v = None THEN None
                     ELSE IF v \notin pool /\ Confirmed(v) /\ TxHeight(v) <= h THEN v
                     ELSE SnapWalk(TX[v].reads[k], k, h)
SnapGet(B, k) == SnapWalk(Cur(St, k), k, Height(B))
SnapshotOK == ptr \in Anc(ltip) => \A B \in Anc(ptr), k \in Keys : Replay(B).ok => SnapGet(B, k) = Cur(Replay(B).s, k)
TypeOK == ptr \in 1..n /\ ltip \in 1..n
(* C13 (design level): a block packed from the pool in ANY admissible order is valid on its chain *)
MinedBlocksValid == ptr = ltip => \A o \in TopoOrders(Packable) : PoolOrderOK(o) => SeqValidOn(ptr, PrefixFits(o))

View == <<blk, n, ltip, ptr, utxo, zu, zd, total, irr, pool, dev>>
ViewIrr == <<blk, n, ltip, ptr, utxo, zu, zd, total, irr, pool, dev, applied, pruned>>
=============================================================================
