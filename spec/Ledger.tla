------------------------------- MODULE Ledger -------------------------------
(***************************************************************************)
(* The ledger's block tree, written like bcs/ledger/xledger/ledger:        *)
(* ConfirmBlock (extend / side branch / trunk switch via handleFork),      *)
(* duplicate and invalid submissions, Truncate, and every query as an      *)
(* operator.  The persisted flags (in-trunk flag, next link, height index, *)
(* tx -> block table, branch-tip table) are separate variables so that the *)
(* C04 invariants relate what the code persists to the structural truth    *)
(* (the parent links).                                                     *)
(*                                                                         *)
(* Block ids are naturals handed out in arrival order (1 = root).          *)
(***************************************************************************)
EXTENDS Integers, Sequences, FiniteSets, TLC, SequencesExt

CONSTANTS MaxBlocks,      \* bound on the number of block ids handed out
          NTx,            \* transaction ids are 1..NTx; the same id may recur on different branches
          MaxTxPerBlock,
          MaxOps          \* bound on the number of operations of a behaviour (generation)

VARIABLES blk,      \* id -> [parent, height, txs]
          n,        \* number of block ids handed out so far
          alive,    \* ids currently stored (Truncate removes)
          tip, theight,   \* meta
          flag,     \* id -> persisted in-trunk flag
          nxt,      \* id -> persisted next link (0 = none)
          hidx,     \* height -> id (0 = none): the height index table
          txb,      \* tx -> block id recorded in the confirmed-tx table (0 = none)
          tips,     \* the branch-tip table (set of ids)
          hist      \* history of [op, args, res] (generation / evidence; hidden by VIEW)
vars == <<blk, n, alive, tip, theight, flag, nxt, hidx, txb, tips, hist>>

Null == 0
TxIds == 1..NTx
Heights == 0..MaxBlocks
TxSeqs == UNION {[1..k -> TxIds] : k \in 0..MaxTxPerBlock}
NoDupSeq(s) == \A i, j \in DOMAIN s : i # j => s[i] # s[j]

Parent(b) == blk[b].parent
Height(b) == blk[b].height
TxsOf(b) == Range(blk[b].txs)
RECURSIVE Anc(_)                 \* ancestors-or-self of b
Anc(b) == IF b = Null THEN {} ELSE {b} \cup Anc(Parent(b))
Chain(b) == Anc(b)
Children(b) == {c \in alive : Parent(c) = b}
Leaves == {b \in alive : Children(b) = {}}

S0 == [blk |-> [i \in {1} |-> [parent |-> Null, height |-> 0, txs |-> <<>>]],
       flag |-> [i \in {1} |-> TRUE], nxt |-> [i \in {1} |-> Null],
       hidx |-> [h \in Heights |-> IF h = 0 THEN 1 ELSE Null],
       txb |-> [t \in TxIds |-> Null]]
Init ==
  /\ blk = S0.blk /\ n = 1 /\ alive = {1} /\ tip = 1 /\ theight = 0
  /\ flag = S0.flag /\ nxt = S0.nxt /\ hidx = S0.hidx /\ txb = S0.txb
  /\ tips = {1}
  /\ hist = <<>>
(* back to the initial state: separates concatenated traces in trace validation *)
Reset ==
  /\ blk' = S0.blk /\ n' = 1 /\ alive' = {1} /\ tip' = 1 /\ theight' = 0
  /\ flag' = S0.flag /\ nxt' = S0.nxt /\ hidx' = S0.hidx /\ txb' = S0.txb
  /\ tips' = {1}
  /\ hist' = <<>>

Unchanged == UNCHANGED <<blk, n, alive, tip, theight, flag, nxt, hidx, txb, tips>>
Log(e) == hist' = Append(hist, e)

(* handleFork, as the loop is written: old tip p and new parent q walk down in lock step; every  *)
(* p leaves the trunk, every q joins it; saveBlock(q) rewrites the height index.                 *)
RECURSIVE Fork(_, _, _, _, _, _)
Fork(p, q, nh, f, nx, hx) ==
  IF p = q THEN [ok |-> TRUE, split |-> q, f |-> [f EXCEPT ![q] = TRUE], nx |-> [nx EXCEPT ![q] = nh],
                 hx |-> [hx EXCEPT ![Height(q)] = q]]
  ELSE IF p = Null \/ q = Null THEN [ok |-> FALSE]
  ELSE Fork(Parent(p), Parent(q), q,
            [f EXCEPT ![p] = FALSE, ![q] = TRUE],
            [nx EXCEPT ![p] = Null, ![q] = nh],
            [hx EXCEPT ![Height(q)] = q])

(* correctTxsBlockid along the adopted branch (blocks above the split point) *)
Remap(tb, newBranch) == [t \in TxIds |->
     IF \E b \in newBranch : t \in TxsOf(b) THEN CHOOSE b \in newBranch : t \in TxsOf(b) ELSE tb[t]]

(* The tx -> block table entry of t names a stored trunk block at height <= sh *)
DupBelow(t, f, sh) == txb[t] # Null /\ txb[t] \in alive /\ f[txb[t]] /\ Height(txb[t]) <= sh

(* ConfirmBlock of a new, well-formed block with parent p and user transactions txs.            *)
(* Generator precondition: a transaction is repeated on a path only where the ledger is in charge of refusing it - the  *)
(* block joins the main chain (it extends the tip or switches the trunk) and the earlier occurrence is in a block that  *)
(* is on the main chain already (C03: "a transaction already on the main chain cannot be confirmed again below the fork *)
(* point").  Repetitions inside a side branch are only met when the state machine plays the block.                      *)
Confirm(p, txs) ==
  /\ n < MaxBlocks /\ p \in alive /\ NoDupSeq(txs)
  /\ \A i \in DOMAIN txs : \A a \in Anc(p) : txs[i] \in TxsOf(a) => (flag[a] /\ (p = tip \/ Height(p) + 1 > theight))
  /\ LET b  == n + 1
         h  == Height(p) + 1
         nb == [parent |-> p, height |-> h, txs |-> txs]
         T  == Range(txs)
         ev(r) == [op |-> "confirm", p |-> p, txs |-> txs, res |-> r]
     IN
     IF p = tip THEN
        IF \E t \in T : DupBelow(t, flag, theight) THEN Unchanged /\ Log(ev("fail"))
        ELSE
        /\ blk' = blk @@ (b :> nb) /\ n' = b /\ alive' = alive \cup {b}
        /\ tip' = b /\ theight' = h
        /\ flag' = flag @@ (b :> TRUE) /\ nxt' = [nxt EXCEPT ![p] = b] @@ (b :> Null)
        /\ hidx' = [hidx EXCEPT ![h] = b]
        /\ txb' = [t \in TxIds |-> IF t \in T THEN b ELSE txb[t]]
        /\ tips' = (tips \ {p}) \cup {b}
        /\ Log(ev("ok"))
     ELSE IF h > theight THEN
        LET r == Fork(tip, p, b, flag, nxt, hidx) IN
        IF ~r.ok THEN Unchanged /\ Log(ev("fail"))
        ELSE
        LET sh == Height(r.split)
            newBranch == {x \in Anc(p) : Height(x) > sh}
            tb1 == Remap(txb, newBranch)
        IN
        \* the duplicate check reads the flags as stored BEFORE the switch batch is written
        IF \E t \in T : DupBelow(t, flag, sh) THEN Unchanged /\ Log(ev("fail"))
        ELSE
        /\ blk' = blk @@ (b :> nb) /\ n' = b /\ alive' = alive \cup {b}
        /\ tip' = b /\ theight' = h
        /\ flag' = r.f @@ (b :> TRUE) /\ nxt' = r.nx @@ (b :> Null)
        /\ hidx' = [r.hx EXCEPT ![h] = b]
        /\ txb' = [t \in TxIds |-> IF t \in T THEN b ELSE tb1[t]]
        /\ tips' = (tips \ {p}) \cup {b}
        /\ Log(ev("ok_switch"))
     ELSE
        /\ blk' = blk @@ (b :> nb) /\ n' = b /\ alive' = alive \cup {b}
        /\ UNCHANGED <<tip, theight, hidx>>
        /\ flag' = flag @@ (b :> FALSE) /\ nxt' = nxt @@ (b :> Null)
        /\ txb' = [t \in TxIds |-> IF t \in T /\ (txb[t] = Null \/ txb[t] \notin alive) THEN b ELSE txb[t]]
        /\ tips' = (tips \ {p}) \cup {b}
        /\ Log(ev("ok_side"))

(* Submissions that must be refused and leave no trace (C04 "duplicates, invalid blocks", C05). *)
ConfirmDuplicate(b) ==      \* a block that is already stored is submitted again
  /\ b \in alive /\ b # 1 /\ Unchanged /\ Log([op |-> "confirm_dup", b |-> b, res |-> "fail"])
ConfirmBadParent ==         \* parent unknown
  /\ Unchanged /\ Log([op |-> "confirm_badparent", res |-> "fail"])
ConfirmTwoCoinbase(p) ==    \* a second coinbase transaction in the block
  /\ p \in alive /\ Unchanged /\ Log([op |-> "confirm_twocb", p |-> p, res |-> "fail"])
ConfirmOnRemoved(b) ==      \* parent was removed by a truncation
  /\ b \in 1..n /\ b \notin alive /\ Unchanged /\ Log([op |-> "confirm_removed", p |-> b, res |-> "fail"])

(* Truncate to a main-chain block t: every block above t's height on every branch is removed,   *)
(* t becomes the tip.  The branch-tip table afterwards names exactly the leaves.                *)
Truncate(t) ==
  /\ t \in alive /\ flag[t] /\ t \in Chain(tip)
  /\ LET gone == {y \in alive : Height(y) > Height(t)} IN
     /\ alive' = alive \ gone
     /\ tip' = t /\ theight' = Height(t)
     /\ hidx' = [h \in Heights |-> IF h > Height(t) THEN Null ELSE hidx[h]]
     /\ tips' = {x \in alive \ gone : ~\E c \in alive \ gone : Parent(c) = x}
     /\ nxt' = [nxt EXCEPT ![t] = Null]
     /\ UNCHANGED <<blk, n, flag, txb>>
     /\ Log([op |-> "truncate", t |-> t, res |-> "ok"])

(* the ledger is closed and opened again on the same data: everything it answers afterwards comes from what is stored *)
Restart == Unchanged /\ Log([op |-> "restart", res |-> "ok"])

Next ==
  /\ Len(hist) < MaxOps
  /\ \/ \E p \in alive, txs \in TxSeqs : Confirm(p, txs)
     \/ \E b \in alive : ConfirmDuplicate(b)
     \/ ConfirmBadParent
     \/ \E p \in alive : ConfirmTwoCoinbase(p)
     \/ \E b \in 1..n : ConfirmOnRemoved(b)
     \/ \E t \in alive : Truncate(t)
     \/ Restart

Spec == Init /\ [][Next]_vars

-----------------------------------------------------------------------------
(* Queries, as operators over the persisted state *)
RECURSIVE PathDown(_, _)         \* blocks from b down to (excluding) stop, newest first
PathDown(b, stop) == IF b = stop \/ b = Null THEN <<>> ELSE <<b>> \o PathDown(Parent(b), stop)
LCA(a, b) == CHOOSE c \in Anc(a) \cap Anc(b) : \A d \in Anc(a) \cap Anc(b) : Height(d) <= Height(c)
FindUndoTodo(a, b) == [u |-> PathDown(a, LCA(a, b)), t |-> PathDown(b, LCA(a, b))]

TxOnChain(t) == \E b \in Chain(tip) : t \in TxsOf(b)
ChainBlockOf(t) == CHOOSE b \in Chain(tip) : t \in TxsOf(b)

(* The observable projection compared with the real ledger after every step *)
NoBlock == [ex |-> FALSE, trunk |-> FALSE, next |-> 0, h |-> 0, par |-> 0]
BlockRows == [b \in 1..n |-> IF b \in alive
                        THEN [ex |-> TRUE, trunk |-> flag[b], next |-> nxt[b], h |-> Height(b), par |-> Parent(b)]
                        ELSE NoBlock]
Obs == [ tip   |-> tip,
         th    |-> theight,
         blocks  |-> BlockRows,     \* QueryBlock (cached path)
         hblocks |-> BlockRows,     \* QueryBlockHeader (storage path)
         byh   |-> [i \in 1..n |-> hidx[i - 1]],
         txs   |-> [t \in TxIds |-> IF TxOnChain(t) THEN [trunk |-> TRUE, blk |-> ChainBlockOf(t)]
                                    ELSE [trunk |-> FALSE, blk |-> 0]],
         tips  |-> SetToSortSeq(tips, <),
         paths |-> [a \in 1..n |-> [b \in 1..n |->
                        IF a \in alive /\ b \in alive THEN FindUndoTodo(a, b) ELSE [u |-> <<>>, t |-> <<>>]]],
         \* GetCommonParentBlockid; Dump(): per height 0..trunk height the stored blocks with their in-trunk flag
         lca   |-> [a \in 1..n |-> [b \in 1..n |-> IF a \in alive /\ b \in alive THEN LCA(a, b) ELSE 0]],
         dump  |-> [i \in 1..(theight + 1) |->
                        LET ids == SetToSortSeq({b \in alive : Height(b) = i - 1}, <) IN
                        [j \in 1..Len(ids) |-> <<ids[j], flag[ids[j]]>>]] ]

-----------------------------------------------------------------------------
(* Property C04 as invariants over the persisted flags and indices *)
Trunk == {b \in alive : flag[b]}
MainChainIsPath   == Trunk = Chain(tip) /\ Chain(tip) \subseteq alive
TipMaxHeight      == theight = Height(tip) /\ \A b \in alive : Height(b) <= theight
(* earlier-confirmed wins ties: no stored block of the tip's height has a smaller id, unless the tip
   was chosen by a truncation (then the tip is the chosen target) *)
HeightIndexOK     == \A h \in Heights : IF h <= theight THEN hidx[h] \in Chain(tip) /\ Height(hidx[h]) = h
                                        ELSE hidx[h] = Null
NextOK            == /\ \A b \in Chain(tip) \ {tip} : nxt[b] \in Chain(tip) /\ Parent(nxt[b]) = b
                     /\ nxt[tip] = Null
                     /\ \A b \in alive \ Chain(tip) : nxt[b] = Null
TxMapOK           == \A t \in TxIds : TxOnChain(t) => (txb[t] \in Chain(tip) /\ t \in TxsOf(txb[t]))
TxTrunkAnswerOK   == \A t \in TxIds : TxOnChain(t) <=> (txb[t] # Null /\ txb[t] \in alive /\ flag[txb[t]])
TipsAreLeaves     == tips = Leaves
ParentsStored     == \A b \in alive \ {1} : Parent(b) \in alive
TypeOK            == tip \in alive /\ n <= MaxBlocks

(* Action property: a confirmation never switches the trunk on a height tie *)
NoSwitchOnTie == [][ (tip' # tip /\ n' = n + 1) => (theight' > theight) ]_vars

View == <<blk, n, alive, tip, theight, flag, nxt, hidx, txb, tips>>
=============================================================================
