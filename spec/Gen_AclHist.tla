---------------------------- MODULE Gen_AclHist ----------------------------
(* Behaviour generation: simulate AclHist and dump each behaviour's op history as JSON. *)
EXTENDS AclHist, Json
Dump == Len(hist) < MaxOps \/ (JsonSerialize("out/b_" \o ToString(TLCGet("stats").traces) \o ".json", hist) /\ FALSE)
=============================================================================
