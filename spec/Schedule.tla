------------------------------ MODULE Schedule ------------------------------
(***************************************************************************)
(* C16 - only the entitled producer's block is accepted (slot schedules of *)
(* TDPoS and XPoA, the single-miner plugin).  PoW is in SchedulePow.tla.   *)
(*                                                                         *)
(* The schedule functions are written like the code                        *)
(*   bcs/consensus/tdpos/schedule.go  minerScheduling  (+ tdpos.go         *)
(*                                     CheckMinerMatch, step 1)            *)
(*   bcs/consensus/xpoa/schedule.go   minerScheduling, GetLocalLeader      *)
(*   bcs/consensus/single/single.go   CheckMinerMatch                      *)
(* (same arithmetic, same case analysis, same order of tests).  The        *)
(* property is stated independently, over what an observer of the          *)
(* acceptance function sees while a clock walks through every sampled      *)
(* instant: who is accepted, when a slot starts and ends.                  *)
(*                                                                         *)
(* Time is in nanoseconds as in the code (block timestamps); the clock     *)
(* visits, for every millisecond, its first and last nanosecond (and the   *)
(* two nanoseconds around a non-aligned init timestamp).                   *)
(* Validators are numbers 1..u (u = size of the universe of addresses that *)
(* occur in any validator set of the configuration); the configured        *)
(* initial set is <<1, ..., n>> in this order; candidate proposer 0 is the *)
(* empty proposer field, u+1 an address outside every validator set.       *)
(*                                                                         *)
(* The validator set IN FORCE for a candidate block is a dimension of the  *)
(* model: it is read from the chain the verifying node holds (XPoA: the    *)
(* set recorded in the contract storage as of the block four below the     *)
(* candidate, the configured initial set during the first three heights    *)
(* of the consensus instance - xpoaSchedule.GetLocalValidates /            *)
(* getValidates; TDPoS: see below).  It may differ from the initial set    *)
(* and from the verifying node's own current set (field node) in size,     *)
(* membership and order; entitlement and tiling are stated over the set    *)
(* in force, and the node's own set never matters.                         *)
(***************************************************************************)
EXTENDS Integers, Sequences, FiniteSets, TLC, SequencesExt

CONSTANTS Kinds,          \* subset of {"tdpos", "xpoa", "single"} explored
          Periods, BlockNums, ProposerNums,   \* TDPoS box (alternate in period..MaxAlt, term interval in alternate..MaxTermInt)
          MaxAlt, MaxTermInt,
          XpoaNs,         \* XPoA validator-set sizes (periods and block numbers as for TDPoS)
          InitMs, InitRems,   \* TDPoS init timestamp = InitMs ms + a remainder (ns) from InitRems
          NTerms,         \* the clock covers this many terms
          KeepHist,       \* TRUE: record the history (generation, trace validation); FALSE: model checking
          KF_TdposPreInit,    \* known-finding deviations: TRUE lets trace validation accept, besides the IDEAL
          KF_XpoaNegativeTs   \* observation, what the code is known to do instead (ACTUAL = IDEAL + these disjuncts)

VARIABLES cfg,      \* the configuration under which the clock runs
          now,      \* the instant (ns) currently observed
          last,     \* the most recent instant strictly before now at which somebody was entitled: slot key, its ms, the ms its slot started
          prevEnd,  \* the slot completed before last's slot: key and the ms of its last instant
          sidx,     \* single: number of candidate cases evaluated so far
          hist
vars == <<cfg, now, last, prevEnd, sidx, hist>>

Ms == 1000000

(* Go's integer division truncates toward zero *)
TDiv(a, b) == IF a >= 0 THEN a \div b ELSE -((-a) \div b)

-----------------------------------------------------------------------------
(* TDPoS: tdposSchedule.minerScheduling, line by line *)
TdposSchedCode(c, ts) ==
  IF ts < c.init THEN [term |-> 0, pos |-> 0, bp |-> 0]            \* "if timestamp < s.initTimestamp { return }"
  ELSE
  LET T        == ts \div Ms
      initT    == c.init \div Ms
      termTime == c.termInt + (c.blockNum - 1) * c.n * c.period + (c.n - 1) * c.alt
      term     == (T - initT) \div termTime + 1
      termBegin == initT + (term - 1) * termTime + c.termInt - c.alt
  IN IF termBegin >= T THEN [term |-> term, pos |-> 0, bp |-> -1]
     ELSE
     LET posTime == c.alt + c.period * (c.blockNum - 1)
         pos     == (T - termBegin) \div posTime
         proposerBegin == termBegin + pos * posTime + c.alt - c.period
     IN IF proposerBegin >= T THEN [term |-> term, pos |-> pos, bp |-> -1]
        ELSE [term |-> term, pos |-> pos, bp |-> (T - proposerBegin) \div c.period]

(* IDEAL: nobody is scheduled before the schedule's origin.  The code returns the zero triple,     *)
(* which CheckMinerMatch reads as slot 0 of validator 1 (deviation KF_TdposPreInit).              *)
(* dv = "known deviations in force": FALSE everywhere except in the ACTUAL alternative of trace   *)
(* validation, so model checking and generation always concern IDEAL.                             *)
TdposSched(c, ts, dv) ==
  IF ts < c.init /\ ~(dv /\ KF_TdposPreInit) THEN [term |-> 0, pos |-> 0, bp |-> -1] ELSE TdposSchedCode(c, ts)

(* tdposConsensus.CheckMinerMatch step 1: "blockPos < 0 || blockPos >= blockNum || pos >= proposerNum" *)
TdposValid(c, s) == ~(s.bp < 0 \/ s.bp >= c.blockNum \/ s.pos >= c.n)
(* ... then wantProposers[pos] must be the block's proposer (validator set = the configured one)   *)
TdposClass(c, v, ts, dv) ==
  LET s == TdposSched(c, ts, dv) IN
  IF ~TdposValid(c, s) THEN "rej" ELSE IF s.pos + 1 = v THEN "ok" ELSE "rej"

-----------------------------------------------------------------------------
(* XPoA: xpoaSchedule.minerScheduling(timestamp, length) *)
XpoaSchedCode(c, ts) ==
  LET T        == TDiv(ts, Ms)
      termTime == c.period * c.n * c.blockNum
      posTime  == c.period * c.blockNum
      term     == TDiv(T, termTime) + 1
      res      == T - (term - 1) * termTime
      pos      == TDiv(res, posTime)
      res2     == res - TDiv(res, posTime) * posTime
  IN [term |-> term, pos |-> pos, bp |-> TDiv(res2, c.period) + 1]

(* IDEAL: the schedule starts at the epoch; a negative timestamp entitles nobody.  The code's       *)
(* truncating division mirrors the schedule around 0 (deviation KF_XpoaNegativeTs).               *)
XpoaSched(c, ts, dv) ==
  IF ts < 0 /\ ~(dv /\ KF_XpoaNegativeTs) THEN [term |-> 0, pos |-> 0, bp |-> -1] ELSE XpoaSchedCode(c, ts)

(* GetLocalLeader: "blockPos < 0 || blockPos > blockNum || pos >= len(validators)" -> "" *)
XpoaValid(c, s) == ~(s.bp < 0 \/ s.bp > c.blockNum \/ s.pos >= c.n)
(* CheckMinerMatch: leader (possibly "") must equal the proposer field; validators[pos] with a     *)
(* negative pos is an index-out-of-range panic                                                    *)
XpoaClass(c, v, ts, dv) ==
  LET s == XpoaSched(c, ts, dv) IN
  IF ts < 0 /\ ~(dv /\ KF_XpoaNegativeTs) THEN "rej"
  ELSE IF ~XpoaValid(c, s) THEN (IF v = 0 THEN "ok" ELSE "rej")
  ELSE IF s.pos < 0 THEN "panic"
  ELSE IF s.pos + 1 = v THEN "ok" ELSE "rej"

-----------------------------------------------------------------------------
(* single: SingleConsensus.CheckMinerMatch.  A candidate is described by                           *)
(*   idok   - the id it carries equals the recomputed header hash                                  *)
(*   prop   - proposer field: "miner" (the configured one) or "other"                              *)
(*   pk     - the public key it carries belongs to "miner" / "other" / is "garbage"                *)
(*   signer - whose private key made the signature ("miner" / "other"), or "garbage" bytes         *)
(*   over   - what was signed: the block id ("id") or something else ("else")                      *)
SingleCaseSet == [idok : BOOLEAN, prop : {"miner", "other"}, pk : {"miner", "other", "garbage"},
                  signer : {"miner", "other", "garbage"}, over : {"id", "else"}]
SingleSeq == SetToSeq(SingleCaseSet)
SingleClass(k) ==
  IF ~k.idok THEN "rej"                      \* MakeBlockId() # GetBlockid()
  ELSE IF k.prop # "miner" THEN "rej"        \* proposer # config.Miner
  ELSE IF k.pk = "garbage" THEN "rej"        \* public key does not parse
  ELSE IF k.pk # k.prop THEN "rej"           \* address of the public key # proposer
  ELSE IF k.signer = k.pk /\ k.over = "id" THEN "ok" ELSE "rej"    \* VerifyECDSA(pk, sign, blockid)

-----------------------------------------------------------------------------
(* The configurations explored *)
Cfg(kind, p, b, n, a, t, i) == [kind |-> kind, period |-> p, blockNum |-> b, n |-> n, alt |-> a, termInt |-> t, init |-> i]
TdposBox == {Cfg("tdpos", p, b, n, a, t, InitMs * Ms + r) :
               p \in Periods, b \in BlockNums, n \in ProposerNums, a \in 1..MaxAlt, t \in 1..MaxTermInt, r \in InitRems}
XpoaBox  == {Cfg("xpoa", p, b, n, 0, 0, 0) : p \in Periods, b \in BlockNums, n \in XpoaNs}
SingleBox == {Cfg("single", 0, 0, 1, 0, 0, 0)}
(* precondition written in schedule.go: alternateInterval >= period && termInterval >= alternateInterval *)
Box == (IF "tdpos" \in Kinds THEN {c \in TdposBox : c.alt >= c.period /\ c.termInt >= c.alt} ELSE {})
       \cup (IF "xpoa" \in Kinds THEN XpoaBox ELSE {})
       \cup (IF "single" \in Kinds THEN SingleBox ELSE {})

Timed(c) == c.kind \in {"tdpos", "xpoa"}
SchedW(c, ts, dv) == IF c.kind = "tdpos" THEN TdposSched(c, ts, dv) ELSE XpoaSched(c, ts, dv)
Sched(c, ts) == SchedW(c, ts, FALSE)
Valid(c, s)  == IF c.kind = "tdpos" THEN TdposValid(c, s) ELSE XpoaValid(c, s) /\ s.pos >= 0
ClassW(c, v, ts, dv) == IF c.kind = "tdpos" THEN TdposClass(c, v, ts, dv) ELSE XpoaClass(c, v, ts, dv)
Class(c, v, ts) == ClassW(c, v, ts, FALSE)
Cands(c) == 0..(c.n + 1)
Key(s) == <<s.term, s.pos, s.bp>>

(* configured length of a term (ms) and the schedule's origin (ns) *)
TermTime(c) == IF c.kind = "tdpos" THEN c.termInt + (c.blockNum - 1) * c.n * c.period + (c.n - 1) * c.alt
               ELSE c.period * c.n * c.blockNum
Origin(c) == c.init
(* the clock: two ms before the origin (XPoA: one term and one ms before the epoch) ... NTerms terms after it *)
StartNs(c) == IF c.kind = "tdpos" THEN ((c.init \div Ms) - 2) * Ms ELSE (0 - TermTime(c) - 1) * Ms
EndNs(c)   == ((c.init \div Ms) + NTerms * TermTime(c) + 1) * Ms + (Ms - 1)
Offs(c) == LET r == c.init % Ms IN IF r = 0 THEN <<0, Ms - 1>> ELSE <<0, r - 1, r, Ms - 1>>
NextSample(c, ts) ==
  LET o == ts % Ms
      os == Offs(c)
      j == CHOOSE i \in 1..Len(os) : os[i] = o
  IN IF j < Len(os) THEN (ts - o) + os[j + 1] ELSE (ts - o) + Ms

(* what is observed at an instant: the schedule triple - compared only where the property speaks,  *)
(* i.e. when somebody is scheduled, at or after the origin; the triple the code computes for an   *)
(* unassigned instant is its own business - and the result class of CheckMinerMatch for a         *)
(* candidate block of every proposer carrying this timestamp                                      *)
NotCompared == <<-1, -1, -1>>
Norm(c, s, ts) == IF ts >= Origin(c) /\ Valid(c, s) THEN Key(s) ELSE NotCompared
ObsAtW(c, ts, dv) == [sched |-> Norm(c, SchedW(c, ts, dv), ts), acc |-> [i \in 1..(c.n + 2) |-> ClassW(c, i - 1, ts, dv)]]
ObsAt(c, ts) == ObsAtW(c, ts, FALSE)
AtEvent(c, ts) == [op |-> "at", ts |-> ts, sched |-> ObsAt(c, ts).sched, acc |-> ObsAt(c, ts).acc]
CfgEvent(c) == [op |-> "cfg", cfg |-> c]
Log(e) == hist' = IF KeepHist THEN Append(hist, e) ELSE hist

NoSlot == [def |-> FALSE, key |-> <<0, 0, 0>>, ms |-> 0, start |-> 0]
NoEnd  == [def |-> FALSE, key |-> <<0, 0, 0>>, ms |-> 0]

Start(c) ==
  /\ cfg' = c /\ now' = (IF Timed(c) THEN StartNs(c) ELSE 0) /\ last' = NoSlot /\ prevEnd' = NoEnd /\ sidx' = 0
Init ==
  /\ cfg \in Box /\ now = (IF Timed(cfg) THEN StartNs(cfg) ELSE 0) /\ last = NoSlot /\ prevEnd = NoEnd /\ sidx = 0
  /\ hist = IF ~KeepHist THEN <<>> ELSE IF Timed(cfg) THEN <<CfgEvent(cfg), AtEvent(cfg, now)>> ELSE <<CfgEvent(cfg)>>

(* the clock moves to the next sampled instant; the bookkeeping variables record what was seen at *)
(* the instant being left (observation only, no judgement)                                        *)
Tick ==
  /\ Timed(cfg) /\ now < EndNs(cfg)
  /\ LET s == Sched(cfg, now)
         T == now \div Ms
     IN IF ~Valid(cfg, s) THEN UNCHANGED <<last, prevEnd>>
        ELSE IF last.def /\ last.key = Key(s) THEN last' = [last EXCEPT !.ms = T] /\ UNCHANGED prevEnd
        ELSE /\ last' = [def |-> TRUE, key |-> Key(s), ms |-> T, start |-> T]
             /\ prevEnd' = IF last.def THEN [def |-> TRUE, key |-> last.key, ms |-> last.ms] ELSE prevEnd
  /\ now' = NextSample(cfg, now)
  /\ Log(AtEvent(cfg, now'))
  /\ UNCHANGED <<cfg, sidx>>

(* single: the next candidate case *)
SingleEvent(k) == [op |-> "single", c |-> k, res |-> SingleClass(k)]
SingleStep ==
  /\ cfg.kind = "single" /\ sidx < Len(SingleSeq)
  /\ sidx' = sidx + 1
  /\ Log(SingleEvent(SingleSeq[sidx + 1]))
  /\ UNCHANGED <<cfg, now, last, prevEnd>>

Next == Tick \/ SingleStep
Spec == Init /\ [][Next]_vars
Done == IF Timed(cfg) THEN now >= EndNs(cfg) ELSE sidx = Len(SingleSeq)

(* actions driven by a recorded trace (Trace_Schedule): set the configuration, observe an instant, *)
(* evaluate one single-miner candidate                                                            *)
SetCfg(c) == Start(c) /\ Log(CfgEvent(c))
At(ts) == /\ Timed(cfg) /\ now' = ts /\ Log(AtEvent(cfg, ts)) /\ UNCHANGED <<cfg, last, prevEnd, sidx>>
Single(k) == /\ cfg.kind = "single" /\ sidx' = sidx + 1 /\ Log(SingleEvent(k)) /\ UNCHANGED <<cfg, now, last, prevEnd>>
Reset == Start(Cfg("single", 0, 0, 1, 0, 0, 0)) /\ hist' = <<>>

-----------------------------------------------------------------------------
(* The property, stated over observations (IDEAL instantiation: all KF_ constants FALSE).          *)
S == Sched(cfg, now)
K == Key(S)
T == now \div Ms
V == Timed(cfg) /\ Valid(cfg, S)            \* somebody is scheduled now
MinBp == IF cfg.kind = "tdpos" THEN 0 ELSE 1
MaxBp == IF cfg.kind = "tdpos" THEN cfg.blockNum - 1 ELSE cfg.blockNum
SlotIdx(k) == ((k[1] - 1) * cfg.n + k[2]) * cfg.blockNum + (k[3] - MinBp)
SameTurn(k1, k2) == k1[1] = k2[1] /\ k1[2] = k2[2]
NewSlot == V /\ last.def /\ K # last.key   \* a slot has just begun; last describes the completed one
(* The millisecond resolution of the TDPoS schedule needs period >= 2 ms: the first ms of a turn    *)
(* (T = proposerBegin) is not assigned, so with period = 1 ms a turn's slot 0 is empty.  The tiling *)
(* statements are asserted for period >= 2; OneMsPeriod states what happens for period = 1.       *)
Regular == cfg.kind = "xpoa" \/ cfg.period >= 2

Accepted == {v \in Cands(cfg) : Class(cfg, v, now) = "ok"}
(* at most one producer is entitled at any instant, it is a validator, and it is the one the slot names *)
OneProducer == Timed(cfg) =>
  /\ Cardinality(Accepted) <= 1
  /\ Accepted \subseteq 1..cfg.n
  /\ (Accepted # {}) <=> V
  /\ V => Accepted = {S.pos + 1}
  /\ \A v \in Cands(cfg) : Class(cfg, v, now) \in {"ok", "rej"}
(* nobody is entitled before the schedule's origin *)
NothingBeforeOrigin == (Timed(cfg) /\ now < Origin(cfg)) => ~V
(* the first slot ever is slot 0 of validator 1 in term 1 *)
FirstSlot == (V /\ ~last.def /\ Regular) => K = <<1, 0, MinBp>>
(* slots are visited in order, none is skipped, time never returns to an earlier slot *)
SlotOrder == (V /\ last.def) => IF Regular THEN SlotIdx(K) \in {SlotIdx(last.key), SlotIdx(last.key) + 1}
                                 ELSE SlotIdx(K) >= SlotIdx(last.key)
(* a slot is an interval: no instant inside it is unassigned or assigned to another slot *)
SlotContiguous == (V /\ last.def /\ K = last.key) => last.ms >= T - 1
(* consecutive slots of one producer follow each other without a gap *)
TurnAdjacent == (NewSlot /\ SameTurn(K, last.key)) => last.ms = T - 1
(* every slot lasts `period` ms (TDPoS: the first slot of a turn lacks its first millisecond) *)
SlotLength == (NewSlot /\ Regular) =>
  LET len == last.ms - last.start + 1 IN
  IF cfg.kind = "tdpos" /\ last.key[3] = 0 THEN len = cfg.period - 1 ELSE len = cfg.period
(* the ends of successive slots are apart by the configured interval: period within a turn,       *)
(* alternate_interval at a hand-over, term_interval at a term change (XPoA: always period)        *)
EndGap(k1, k2) == IF SameTurn(k1, k2) \/ cfg.kind = "xpoa" THEN cfg.period
                  ELSE IF k1[1] = k2[1] THEN cfg.alt ELSE cfg.termInt
SlotSpacing == (NewSlot /\ Regular /\ prevEnd.def) => last.ms - prevEnd.ms = EndGap(prevEnd.key, last.key)
(* the first slot of term 1 ends term_interval (XPoA: period) after the origin *)
FirstSlotEnd == (NewSlot /\ Regular /\ ~prevEnd.def) =>
  last.ms + 1 = (Origin(cfg) \div Ms) + (IF cfg.kind = "tdpos" THEN cfg.termInt ELSE cfg.period)
(* a turn consists of slots MinBp..MaxBp; a term of the turns of validators 1..n in order *)
TurnComplete == (NewSlot /\ Regular /\ ~SameTurn(K, last.key)) => last.key[3] = MaxBp /\ K[3] = MinBp
TermComplete == (NewSlot /\ ~SameTurn(K, last.key)) =>
  IF K[1] = last.key[1] THEN K[2] = last.key[2] + 1
  ELSE K[1] = last.key[1] + 1 /\ K[2] = 0 /\ last.key[2] = cfg.n - 1
(* the schedule repeats with the configured term length *)
TermPeriodic == (Timed(cfg) /\ now >= Origin(cfg)) =>
  LET s2 == Sched(cfg, now + TermTime(cfg) * Ms) IN
  /\ Valid(cfg, s2) = V
  /\ s2.term = S.term + 1
  /\ V => (s2.pos = S.pos /\ s2.bp = S.bp)
(* direct statement of the shares, evaluated once per configuration (at the clock's first instant):  *)
(* in every term every validator owns exactly block_num slots and nobody else owns any            *)
SlotsOf(t, v) == {Key(Sched(cfg, m * Ms)) : m \in {x \in (Origin(cfg) \div Ms)..(EndNs(cfg) \div Ms) :
                       LET s == Sched(cfg, x * Ms) IN Valid(cfg, s) /\ s.term = t /\ s.pos + 1 = v}}
Shares == (Timed(cfg) /\ now = StartNs(cfg)) =>
  \A t \in 1..NTerms : \A v \in 1..cfg.n :
      Cardinality(SlotsOf(t, v)) = IF Regular THEN cfg.blockNum ELSE cfg.blockNum - 1
(* period = 1 ms (TDPoS): slot 0 of every turn is empty, everything else as above *)
OneMsPeriod == (V /\ ~Regular) => K[3] >= 1

(* single: accepted only from the configured miner, with the miner's key and a signature of the id *)
SingleOK == (cfg.kind = "single" /\ sidx > 0) =>
  LET k == SingleSeq[sidx] IN
  SingleClass(k) = "ok" <=> (k.idok /\ k.prop = "miner" /\ k.pk = "miner" /\ k.signer = "miner" /\ k.over = "id")

TypeOK == cfg \in Box /\ sidx \in 0..Len(SingleSeq)
View == <<cfg, now, last, prevEnd, sidx>>
=============================================================================
