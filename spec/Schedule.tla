------------------------------ MODULE Schedule ------------------------------
(***************************************************************************)
(* C16 - only the entitled producer's block is accepted (slot schedules of *)
(* TDPoS and XPoA, the single-miner plugin).  PoW is in SchedulePow.tla.   *)
(*                                                                         *)
(* The schedule functions are written like the code                        *)
(*   bcs/consensus/tdpos/schedule.go  minerScheduling  (+ tdpos.go         *)
(*                                     CheckMinerMatch, step 1)            *)
(*   bcs/consensus/xpoa/schedule.go   minerScheduling, GetLocalLeader      *)
(*   bcs/consensus/single/single.go   CheckMinerMatch                      *)
(* (same arithmetic, same case analysis, same order of tests).  The        *)
(* property is stated independently, over what an observer of the          *)
(* acceptance function sees while a clock walks through every sampled      *)
(* instant: who is accepted, when a slot starts and ends.                  *)
(*                                                                         *)
(* Time is in nanoseconds as in the code (block timestamps); the clock     *)
(* visits, for every millisecond, its first and last nanosecond (and the   *)
(* two nanoseconds around a non-aligned init timestamp).                   *)
(* Validators are numbers 1..u (u = size of the universe of addresses that *)
(* occur in any validator set of the configuration); the configured        *)
(* initial set is <<1, ..., n>> in this order; candidate proposer 0 is the *)
(* empty proposer field, u+1 an address outside every validator set.       *)
(*                                                                         *)
(* The validator set IN FORCE for a candidate block is a dimension of the  *)
(* model: it is read from the chain the verifying node holds (XPoA: the    *)
(* set recorded in the contract storage as of the block four below the     *)
(* candidate, the configured initial set during the first three heights    *)
(* of the consensus instance - xpoaSchedule.GetLocalValidates /            *)
(* getValidates; TDPoS: see below).  It may differ from the initial set    *)
(* and from the verifying node's own current set (field node) in size,     *)
(* membership and order; entitlement and tiling are stated over the set    *)
(* in force, and the node's own set never matters.                         *)
(***************************************************************************)
EXTENDS Integers, Sequences, FiniteSets, TLC, SequencesExt

CONSTANTS Kinds,          \* subset of {"tdpos", "xpoa", "single"} explored
          Periods, BlockNums, ProposerNums,   \* TDPoS box (alternate in period..MaxAlt, term interval in alternate..MaxTermInt)
          MaxAlt, MaxTermInt,
          XpoaNs,         \* XPoA validator-set sizes (periods and block numbers as for TDPoS)
          InitMs, InitRems,   \* TDPoS init timestamp = InitMs ms + a remainder (ns) from InitRems
          NTerms,         \* the clock covers this many terms
          ChainPeriods,   \* validator-set scenarios (chains that record validator sets) are explored for these periods,
          ChainTermInts,  \* these term intervals (TDPoS),
          Starts,         \* these start heights of the consensus instance ({} = no scenarios),
          NodeAts,        \* and the verifying node constructed on the genesis block ("genesis") / on the whole chain ("tip")
          KeepHist,       \* TRUE: record the history (generation, trace validation); FALSE: model checking
          KF_TdposPreInit,    \* known-finding deviations: TRUE lets trace validation accept, besides the IDEAL
          KF_XpoaNegativeTs,  \* observation, what the code is known to do instead (ACTUAL = IDEAL + these disjuncts)
          KF_TdposTermSetOffset

VARIABLES cfg,      \* the configuration under which the clock runs
          now,      \* the instant (ns) currently observed
          last,     \* the most recent instant strictly before now at which somebody was entitled: slot key, its ms, the ms its slot started
          prevEnd,  \* the slot completed before last's slot: key and the ms of its last instant
          sidx,     \* single: number of candidate cases evaluated so far
          hist
vars == <<cfg, now, last, prevEnd, sidx, hist>>

Ms == 1000000

(* Go's integer division truncates toward zero *)
TDiv(a, b) == IF a >= 0 THEN a \div b ELSE -((-a) \div b)

-----------------------------------------------------------------------------
(* Validator sets are duplicate-free sequences of validator numbers; the configured initial set is   *)
(* <<1..n>>.  c.rec[h+1] is the set recorded in the contract storage as of the block of height h    *)
(* (what a snapshot at that block reads; <<>> = nothing recorded yet), for h = 0..tip of the chain   *)
(* the verifying node holds.  c.hgt is the height of the candidate block, c.start the start height  *)
(* of the consensus instance, c.nodeAt the tip height at which the verifying node was constructed   *)
(* (which fixes the node's own current set - never consulted by the IDEAL acceptance).              *)
Iota(n) == [i \in 1..n |-> i]
Members(f) == {f[i] : i \in DOMAIN f}
OnChain(c, h) == h >= 0 /\ h < Len(c.rec)
RecOrInit(c, h) == IF OnChain(c, h) /\ c.rec[h + 1] # <<>> THEN c.rec[h + 1] ELSE Iota(c.n)

-----------------------------------------------------------------------------
(* TDPoS: tdposSchedule.minerScheduling, line by line *)
TdposSchedCode(c, ts) ==
  IF ts < c.init THEN [term |-> 0, pos |-> 0, bp |-> 0]            \* "if timestamp < s.initTimestamp { return }"
  ELSE
  LET T        == ts \div Ms
      initT    == c.init \div Ms
      termTime == c.termInt + (c.blockNum - 1) * c.n * c.period + (c.n - 1) * c.alt
      term     == (T - initT) \div termTime + 1
      termBegin == initT + (term - 1) * termTime + c.termInt - c.alt
  IN IF termBegin >= T THEN [term |-> term, pos |-> 0, bp |-> -1]
     ELSE
     LET posTime == c.alt + c.period * (c.blockNum - 1)
         pos     == (T - termBegin) \div posTime
         proposerBegin == termBegin + pos * posTime + c.alt - c.period
     IN IF proposerBegin >= T THEN [term |-> term, pos |-> pos, bp |-> -1]
        ELSE [term |-> term, pos |-> pos, bp |-> (T - proposerBegin) \div c.period]

(* IDEAL: nobody is scheduled before the schedule's origin.  The code returns the zero triple,     *)
(* which CheckMinerMatch reads as slot 0 of validator 1 (deviation KF_TdposPreInit).              *)
(* dv = "known deviations in force": FALSE everywhere except in the ACTUAL alternative of trace   *)
(* validation, so model checking and generation always concern IDEAL.                             *)
TdposSched(c, ts, dv) ==
  IF ts < c.init /\ ~(dv /\ KF_TdposPreInit) THEN [term |-> 0, pos |-> 0, bp |-> -1] ELSE TdposSchedCode(c, ts)

(* tdposConsensus.CheckMinerMatch step 1: "blockPos < 0 || blockPos >= blockNum || pos >= proposerNum" *)
TdposValid(c, s) == ~(s.bp < 0 \/ s.bp >= c.blockNum \/ s.pos >= c.n)

(* The validators of a term (tdposSchedule.CalOldProposers for a candidate block on top of the tip). *)
(* c.bts[k] is the timestamp of the stored block of height k (1..tip); a stored block carries the    *)
(* term of its timestamp in its consensus storage.  The set of a term is the election result (top   *)
(* proposer_num of the votes; here: the recorded sequence) as of three blocks below the tip the      *)
(* chain had when the term began (CompeteMaster: UpdateProposers(tip height) at the first instant   *)
(* of a term, kept for the whole term), the initial set while that tip is below start + 3.          *)
TipH(c) == Len(c.bts)
BlkTerm(c, k) == TdposSchedCode(c, c.bts[k]).term
TipTerm(c) == BlkTerm(c, TipH(c))
(* calTopKNominator(x): "height < startHeight+3 -> initValidators", else the snapshot of block x-3 *)
TopKAt(c, x) == IF x < c.start + 3 THEN Iota(c.n) ELSE RecOrInit(c, x - 3)
FirstOfTerm(c, t) == CHOOSE k \in 1..TipH(c) : BlkTerm(c, k) = t /\ \A j \in 1..(k - 1) : BlkTerm(c, j) # t
(* The property is silent about a candidate whose timestamp lies in a term before the term of the   *)
(* block it extends (the code judges it by the newest election result); such instants are not       *)
(* compared.                                                                                        *)
Silent(c, ts) == c.kind = "tdpos" /\ TipH(c) > 0 /\ ts >= c.init /\ TdposSchedCode(c, ts).term < TipTerm(c)
(* IDEAL: a candidate in the tip's term t is judged by the set of t: the tip when t began was the    *)
(* block below the first block of t.  The code (calHisValidators) takes the snapshot three below    *)
(* the first block of t itself, i.e. one block later than the producers of t did (deviation         *)
(* KF_TdposTermSetOffset).  A candidate in a later term begins that term on the current tip.         *)
TdposVS(c, ts, dv) ==
  IF c.hgt < c.start + 3 \/ TipH(c) = 0 THEN Iota(c.n)               \* "height < s.startHeight+3"
  ELSE IF TdposSched(c, ts, dv).term = TipTerm(c)
       THEN LET f == FirstOfTerm(c, TipTerm(c)) IN
            IF dv /\ KF_TdposTermSetOffset THEN TopKAt(c, f) ELSE TopKAt(c, f - 1)
       ELSE TopKAt(c, TipH(c))
(* ... then wantProposers[pos] must be the block's proposer                                          *)
(* the producer entitled at an instant (-1: nobody) *)
TdposOwner(c, ts, dv) ==
  LET s == TdposSched(c, ts, dv) IN IF TdposValid(c, s) THEN TdposVS(c, ts, dv)[s.pos + 1] ELSE -1
TdposClass(c, v, ts, dv) == IF TdposOwner(c, ts, dv) = v THEN "ok" ELSE "rej"
(* the classes of the candidates 0..u+1 at one instant (TdposClass with the owner evaluated once) *)
TdposAcc(c, ts, dv) ==
  CHOOSE a \in {[i \in 1..(c.u + 2) |-> IF o = i - 1 THEN "ok" ELSE "rej"] : o \in {TdposOwner(c, ts, dv)}} : TRUE

-----------------------------------------------------------------------------
(* XPoA: the validator set in force for a candidate block of height c.hgt                           *)
(*   GetLocalValidates: "targetHeight := round - 1; if targetHeight <= 3 { return initValidators }"  *)
(*   getValidates:      "if height < startHeight+3 { return initValidators }" ... QueryBlockByHeight *)
(*                       (height - 3), snapshot at that block, nothing recorded -> initValidators    *)
(* <<>> = the block whose snapshot is needed is not on the node's chain: no set, nobody is accepted *)
XpoaVS(c) ==
  IF c.hgt - 1 <= 3 \/ c.hgt - 1 < c.start + 3 THEN Iota(c.n)
  ELSE IF ~OnChain(c, c.hgt - 4) THEN <<>>
  ELSE RecOrInit(c, c.hgt - 4)
XN(c) == Len(XpoaVS(c))

(* xpoaSchedule.minerScheduling(timestamp, length), length = size of the set in force *)
XpoaSchedCode(c, ts) ==
  LET T        == TDiv(ts, Ms)
      termTime == c.period * XN(c) * c.blockNum
      posTime  == c.period * c.blockNum
      term     == TDiv(T, termTime) + 1
      res      == T - (term - 1) * termTime
      pos      == TDiv(res, posTime)
      res2     == res - TDiv(res, posTime) * posTime
  IN [term |-> term, pos |-> pos, bp |-> TDiv(res2, c.period) + 1]

(* IDEAL: the schedule starts at the epoch; a negative timestamp entitles nobody.  The code's       *)
(* truncating division mirrors the schedule around 0 (deviation KF_XpoaNegativeTs).               *)
XpoaSched(c, ts, dv) ==
  IF XN(c) = 0 \/ (ts < 0 /\ ~(dv /\ KF_XpoaNegativeTs)) THEN [term |-> 0, pos |-> 0, bp |-> -1] ELSE XpoaSchedCode(c, ts)

(* GetLocalLeader: "blockPos < 0 || blockPos > blockNum || pos >= len(validators)" -> "" *)
XpoaValid(c, s) == ~(s.bp < 0 \/ s.bp > c.blockNum \/ s.pos >= XN(c))
(* CheckMinerMatch: leader (possibly "") must equal the proposer field; validators[pos] with a     *)
(* negative pos is an index-out-of-range panic                                                    *)
XpoaClass(c, v, ts, dv) ==
  LET s == XpoaSched(c, ts, dv) IN
  IF XN(c) = 0 THEN "rej"
  ELSE IF ts < 0 /\ ~(dv /\ KF_XpoaNegativeTs) THEN "rej"
  ELSE IF ~XpoaValid(c, s) THEN (IF v = 0 THEN "ok" ELSE "rej")
  ELSE IF s.pos < 0 THEN "panic"
  ELSE IF XpoaVS(c)[s.pos + 1] = v THEN "ok" ELSE "rej"

-----------------------------------------------------------------------------
(* single: SingleConsensus.CheckMinerMatch.  A candidate is described by                           *)
(*   idok   - the id it carries equals the recomputed header hash                                  *)
(*   prop   - proposer field: "miner" (the configured one) or "other"                              *)
(*   pk     - the public key it carries belongs to "miner" / "other" / is "garbage"                *)
(*   signer - whose private key made the signature ("miner" / "other"), or "garbage" bytes         *)
(*   over   - what was signed: the block id ("id") or something else ("else")                      *)
(*   hf     - the height FIELD the candidate carries: its real height, 0, or far above the tip.  The field is not   *)
(*            covered by the block id (the ledger overwrites it from the parent), so it must not matter.          *)
SingleCaseSet == [idok : BOOLEAN, prop : {"miner", "other"}, pk : {"miner", "other", "garbage"},
                  signer : {"miner", "other", "garbage"}, over : {"id", "else"}, hf : {"real", "zero", "far"}]
SingleSeq == SetToSeq(SingleCaseSet)
SingleClass(k) ==
  IF ~k.idok THEN "rej"                      \* MakeBlockId() # GetBlockid()
  ELSE IF k.prop # "miner" THEN "rej"        \* proposer # config.Miner
  ELSE IF k.pk = "garbage" THEN "rej"        \* public key does not parse
  ELSE IF k.pk # k.prop THEN "rej"           \* address of the public key # proposer
  ELSE IF k.signer = k.pk /\ k.over = "id" THEN "ok" ELSE "rej"    \* VerifyECDSA(pk, sign, blockid)

-----------------------------------------------------------------------------
(* The configurations explored *)
(* A basic configuration: candidate blocks of height 2 on a chain that consists of the genesis block *)
(* (nothing recorded: the configured initial set is in force).                                      *)
Cfg(kind, p, b, n, a, t, i) ==
  [kind |-> kind, period |-> p, blockNum |-> b, n |-> n, alt |-> a, termInt |-> t, init |-> i,
   u |-> n, start |-> 1, hgt |-> 2, rec |-> <<>>, bts |-> <<>>, nodeAt |-> 0, sid |-> 0]
(* precondition written in schedule.go: alternateInterval >= period && termInterval >= alternateInterval *)
TdposBox == {c \in {Cfg("tdpos", p, b, n, a, t, InitMs * Ms + r) :
                      p \in Periods, b \in BlockNums, n \in ProposerNums, a \in 1..MaxAlt, t \in 1..MaxTermInt, r \in InitRems} :
               c.alt >= c.period /\ c.termInt >= c.alt}
XpoaBox  == {Cfg("xpoa", p, b, n, 0, 0, 0) : p \in Periods, b \in BlockNums, n \in XpoaNs}
SingleBox == {Cfg("single", 0, 0, 1, 0, 0, 0)}

Tup(f) == SubSeq(f, 1, Len(f))
NodeHeights(tip) == (IF "genesis" \in NodeAts THEN {0} ELSE {}) \cup (IF "tip" \in NodeAts THEN {tip} ELSE {})

(* XPoA validator-set scenarios.  Alternatives to the initial set <<1..n>> over the universe 1..n+1: *)
(* last member dropped / a member added at the end (size), reversed (order), 2..n+1 (membership),    *)
(* first member dropped / a member added in front (size and order).  The chain records a different  *)
(* one at every height start, start+1, ... (and, for start > 1, one below the start height, which    *)
(* must never come into force); the candidate heights are the last two bootstrap heights and every  *)
(* height whose set is one of the recorded ones, so that any error in the height of the snapshot    *)
(* or in the bootstrap threshold changes the set in force.                                          *)
XAlt(n) == SelectSeq(<< Tup([i \in 1..(n - 1) |-> i]), Tup([i \in 1..(n + 1) |-> i]), Tup([i \in 1..n |-> n + 1 - i]),
                        Tup([i \in 1..n |-> i + 1]), Tup([i \in 1..(n - 1) |-> i + 1]),
                        Tup([i \in 1..(n + 1) |-> IF i = 1 THEN n + 1 ELSE i - 1]) >>,
                     LAMBDA x : x # <<>> /\ x # Tup(Iota(n)))
XTip(n, st) == st + Len(XAlt(n)) + 2
XRec(n, st) ==
  LET A == XAlt(n)
      k == Len(A)
  IN Tup([j \in 1..(XTip(n, st) + 1) |->
            LET h == j - 1 IN
            IF h < st - 1 \/ h = 0 THEN <<>> ELSE IF h = st - 1 THEN A[k] ELSE IF h - st + 1 <= k THEN A[h - st + 1] ELSE A[k]])
XpoaChainBox == UNION {
  {[c EXCEPT !.u = c.n + 1, !.start = st, !.rec = XRec(c.n, st), !.hgt = h, !.nodeAt = na, !.sid = 1] :
     h \in (st + 2)..(XTip(c.n, st) + 1), na \in NodeHeights(XTip(c.n, st))} :
  c \in {x \in XpoaBox : x.period \in ChainPeriods}, st \in Starts}

(* TDPoS validator-set scenarios.  Election results (sequences of proposer_num validators over the   *)
(* universe 1..n+2, different from the initial set and from their neighbours) are recorded at every *)
(* height from start - 1 on (none on the genesis block).  The chain: k1 blocks, one in the first     *)
(* slot of each of the terms 1..k1, then k2 blocks in the first slots of term k1 + 1; the candidate  *)
(* extends the tip.  The clock covers the tip's term (judged by the set of that term) and the two   *)
(* following terms (the candidate would begin a term).  Scenarios are built on the configurations    *)
(* with period >= 2 ms (a one-millisecond period has no slot 0, see OneMsPeriod) and an init          *)
(* timestamp on a millisecond boundary.                                                             *)
TAlt(n) == IF n = 1 THEN << <<2>>, <<3>> >>
           ELSE << Tup([i \in 1..n |-> i + 1]), Tup([i \in 1..n |-> i + 2]), Tup([i \in 1..n |-> n + 1 - i]),
                   Tup([i \in 1..n |-> IF i = 1 THEN n + 1 ELSE i - 1]) >>
TRec(n, st, tip) ==
  LET A == TAlt(n)
      k == Len(A)
  IN Tup([j \in 1..(tip + 1) |-> LET h == j - 1 IN IF h < st - 1 \/ h = 0 THEN <<>> ELSE A[((h - st + 1) % k) + 1]])
SPT(c) == c.n * c.blockNum          \* slots per term
(* the last millisecond of the slot number idx (0, 1, ... from the origin) *)
SlotMs(c, idx) ==
  LET term == idx \div SPT(c) + 1
      r    == idx % SPT(c)
      pos  == r \div c.blockNum
      bp   == r % c.blockNum
      termTime == c.termInt + (c.blockNum - 1) * c.n * c.period + (c.n - 1) * c.alt
      termBegin == (c.init \div Ms) + (term - 1) * termTime + c.termInt - c.alt
      proposerBegin == termBegin + pos * (c.alt + c.period * (c.blockNum - 1)) + c.alt - c.period
  IN proposerBegin + bp * c.period + c.period - 1
TBts(c, k1, k2) == Tup([j \in 1..(k1 + k2) |-> Ms * (IF j <= k1 THEN SlotMs(c, (j - 1) * SPT(c))
                                                       ELSE SlotMs(c, k1 * SPT(c) + (j - k1 - 1)))])
TShapes(c, st) == {<<1, 1>>} \cup {<<k1, k2>> \in ((st + 1)..(st + 4)) \X {1, 2} : k2 <= SPT(c)}
TdposChain(c, st, sh) ==
  {[c EXCEPT !.u = c.n + 2, !.start = st, !.rec = TRec(c.n, st, sh[1] + sh[2]), !.bts = TBts(c, sh[1], sh[2]),
             !.hgt = sh[1] + sh[2] + 1, !.nodeAt = na, !.sid = 10 * sh[1] + sh[2]] : na \in NodeHeights(sh[1] + sh[2])}
TdposChainBox == UNION {UNION {TdposChain(c, st, sh) : sh \in TShapes(c, st)} :
                          c \in {x \in TdposBox : x.period \in ChainPeriods /\ x.period >= 2 /\ x.termInt \in ChainTermInts /\ x.init % Ms = 0},
                          st \in Starts}

Box == (IF "tdpos" \in Kinds THEN TdposBox \cup TdposChainBox ELSE {})
       \cup (IF "xpoa" \in Kinds THEN XpoaBox \cup XpoaChainBox ELSE {})
       \cup (IF "single" \in Kinds THEN SingleBox ELSE {})

Timed(c) == c.kind \in {"tdpos", "xpoa"}
SchedW(c, ts, dv) == IF c.kind = "tdpos" THEN TdposSched(c, ts, dv) ELSE XpoaSched(c, ts, dv)
Sched(c, ts) == SchedW(c, ts, FALSE)
Valid(c, s)  == IF c.kind = "tdpos" THEN TdposValid(c, s) ELSE XpoaValid(c, s) /\ s.pos >= 0
Class(c, v, ts) == IF c.kind = "tdpos" THEN TdposClass(c, v, ts, FALSE) ELSE XpoaClass(c, v, ts, FALSE)
(* the validator set in force for a candidate block of height c.hgt carrying timestamp ts *)
VSW(c, ts, dv) == IF c.kind = "tdpos" THEN TdposVS(c, ts, dv) ELSE XpoaVS(c)
VS(c, ts) == VSW(c, ts, FALSE)
(* number of validators over which the slots of a term are laid out *)
NV(c) == IF c.kind = "tdpos" THEN c.n ELSE XN(c)
Cands(c) == 0..(c.u + 1)
Key(s) == <<s.term, s.pos, s.bp>>

(* configured length of a term (ms) and the schedule's origin (ns) *)
TermTime(c) == IF c.kind = "tdpos" THEN c.termInt + (c.blockNum - 1) * c.n * c.period + (c.n - 1) * c.alt
               ELSE c.period * NV(c) * c.blockNum
Origin(c) == c.init
(* the first term the clock visits: the tip's term if the chain has timestamped blocks (TDPoS scenarios) *)
Term0(c) == IF c.kind = "tdpos" /\ TipH(c) > 0 THEN TipTerm(c) ELSE 1
(* the clock: two ms before the first term visited (XPoA: one term and one ms before the epoch) ... NTerms terms *)
StartNs(c) == IF c.kind = "tdpos" THEN ((c.init \div Ms) + (Term0(c) - 1) * TermTime(c) - 2) * Ms ELSE (0 - TermTime(c) - 1) * Ms
EndNs(c)   == ((c.init \div Ms) + (Term0(c) - 1 + NTerms) * TermTime(c) + 1) * Ms + (Ms - 1)
Offs(c) == LET r == c.init % Ms IN IF r = 0 THEN <<0, Ms - 1>> ELSE <<0, r - 1, r, Ms - 1>>
NextSample(c, ts) ==
  LET o == ts % Ms
      os == Offs(c)
      j == CHOOSE i \in 1..Len(os) : os[i] = o
  IN IF j < Len(os) THEN (ts - o) + os[j + 1] ELSE (ts - o) + Ms

(* what is observed at an instant: the schedule triple - compared only where the property speaks,  *)
(* i.e. when somebody is scheduled, at or after the origin; the triple the code computes for an   *)
(* unassigned instant is its own business - and the result class of CheckMinerMatch for a         *)
(* candidate block of every proposer carrying this timestamp ("nc": not compared, Silent)         *)
NotCompared == <<-1, -1, -1>>
Norm(c, s, ts) == IF ts >= Origin(c) /\ ~Silent(c, ts) /\ Valid(c, s) THEN Key(s) ELSE NotCompared
ObsAtW(c, ts, dv) ==
  IF Silent(c, ts) THEN [sched |-> NotCompared, acc |-> [i \in 1..(c.u + 2) |-> "nc"]]
  ELSE [sched |-> Norm(c, SchedW(c, ts, dv), ts),
        acc |-> IF c.kind = "tdpos" THEN TdposAcc(c, ts, dv) ELSE [i \in 1..(c.u + 2) |-> XpoaClass(c, i - 1, ts, dv)]]
ObsAt(c, ts) == ObsAtW(c, ts, FALSE)
(* vs: the set in force (its size is the length the driver passes to the exported xpoa minerScheduling) *)
AtEvent(c, ts) == [op |-> "at", ts |-> ts, vs |-> Tup(VS(c, ts)), sched |-> ObsAt(c, ts).sched, acc |-> ObsAt(c, ts).acc]
CfgEvent(c) == [op |-> "cfg", cfg |-> c]
Log(e) == hist' = IF KeepHist THEN Append(hist, e) ELSE hist

NoSlot == [def |-> FALSE, key |-> <<0, 0, 0>>, ms |-> 0, start |-> 0]
NoEnd  == [def |-> FALSE, key |-> <<0, 0, 0>>, ms |-> 0]

Start(c) ==
  /\ cfg' = c /\ now' = (IF Timed(c) THEN StartNs(c) ELSE 0) /\ last' = NoSlot /\ prevEnd' = NoEnd /\ sidx' = 0
Init ==
  /\ cfg \in Box /\ now = (IF Timed(cfg) THEN StartNs(cfg) ELSE 0) /\ last = NoSlot /\ prevEnd = NoEnd /\ sidx = 0
  /\ hist = IF ~KeepHist THEN <<>> ELSE IF Timed(cfg) THEN <<CfgEvent(cfg), AtEvent(cfg, now)>> ELSE <<CfgEvent(cfg)>>

(* the clock moves to the next sampled instant; the bookkeeping variables record what was seen at *)
(* the instant being left (observation only, no judgement)                                        *)
Tick ==
  /\ Timed(cfg) /\ now < EndNs(cfg)
  /\ LET s == Sched(cfg, now)
         T == now \div Ms
     IN IF Silent(cfg, now) \/ ~Valid(cfg, s) THEN UNCHANGED <<last, prevEnd>>
        ELSE IF last.def /\ last.key = Key(s) THEN last' = [last EXCEPT !.ms = T] /\ UNCHANGED prevEnd
        ELSE /\ last' = [def |-> TRUE, key |-> Key(s), ms |-> T, start |-> T]
             /\ prevEnd' = IF last.def THEN [def |-> TRUE, key |-> last.key, ms |-> last.ms] ELSE prevEnd
  /\ now' = NextSample(cfg, now)
  /\ Log(AtEvent(cfg, now'))
  /\ UNCHANGED <<cfg, sidx>>

(* single: the next candidate case *)
SingleEvent(k) == [op |-> "single", c |-> k, res |-> SingleClass(k)]
SingleStep ==
  /\ cfg.kind = "single" /\ sidx < Len(SingleSeq)
  /\ sidx' = sidx + 1
  /\ Log(SingleEvent(SingleSeq[sidx + 1]))
  /\ UNCHANGED <<cfg, now, last, prevEnd>>

Next == Tick \/ SingleStep
Spec == Init /\ [][Next]_vars
Done == IF Timed(cfg) THEN now >= EndNs(cfg) ELSE sidx = Len(SingleSeq)

(* actions driven by a recorded trace (Trace_Schedule): set the configuration, observe an instant, *)
(* evaluate one single-miner candidate                                                            *)
SetCfg(c) == Start(c) /\ Log(CfgEvent(c))
At(ts) == /\ Timed(cfg) /\ now' = ts /\ Log(AtEvent(cfg, ts)) /\ UNCHANGED <<cfg, last, prevEnd, sidx>>
Single(k) == /\ cfg.kind = "single" /\ sidx' = sidx + 1 /\ Log(SingleEvent(k)) /\ UNCHANGED <<cfg, now, last, prevEnd>>
Reset == Start(Cfg("single", 0, 0, 1, 0, 0, 0)) /\ hist' = <<>>

-----------------------------------------------------------------------------
(* The property, stated over observations (IDEAL instantiation: all KF_ constants FALSE).          *)
S == Sched(cfg, now)
K == Key(S)
T == now \div Ms
V == Timed(cfg) /\ ~Silent(cfg, now) /\ Valid(cfg, S)            \* somebody is scheduled now
MinBp == IF cfg.kind = "tdpos" THEN 0 ELSE 1
MaxBp == IF cfg.kind = "tdpos" THEN cfg.blockNum - 1 ELSE cfg.blockNum
SlotIdx(k) == ((k[1] - 1) * NV(cfg) + k[2]) * cfg.blockNum + (k[3] - MinBp)
SameTurn(k1, k2) == k1[1] = k2[1] /\ k1[2] = k2[2]
NewSlot == V /\ last.def /\ K # last.key   \* a slot has just begun; last describes the completed one
(* The millisecond resolution of the TDPoS schedule needs period >= 2 ms: the first ms of a turn    *)
(* (T = proposerBegin) is not assigned, so with period = 1 ms a turn's slot 0 is empty.  The tiling *)
(* statements are asserted for period >= 2; OneMsPeriod states what happens for period = 1.       *)
Regular == cfg.kind = "xpoa" \/ cfg.period >= 2

(* the candidates accepted at an instant, {v \in Cands(c) : Class(c, v, ts) = "ok"} (TDPoS: with the owner evaluated once) *)
AcceptedAt(c, ts) == IF c.kind = "tdpos" THEN UNION {{v \in Cands(c) : v = o} : o \in {TdposOwner(c, ts, FALSE)}}
                     ELSE {v \in Cands(c) : XpoaClass(c, v, ts, FALSE) = "ok"}
Accepted == AcceptedAt(cfg, now)
(* at most one producer is entitled at any instant, it is a member of the validator set in force  *)
(* for the candidate block, and it is the one the slot names in that set                          *)
OneProducer == (Timed(cfg) /\ ~Silent(cfg, now)) =>
  \A acc \in {Accepted}, vs \in {VS(cfg, now)} :
    /\ Cardinality(acc) <= 1
    /\ acc \subseteq Members(vs)
    /\ (acc # {}) <=> V
    /\ V => acc = {vs[S.pos + 1]}
    /\ \A v \in Cands(cfg) \ acc : Class(cfg, v, now) = "rej"
(* a validator set in force is a duplicate-free sequence over the universe; TDPoS: of proposer_num  *)
(* members; XPoA: empty only if the block whose snapshot is needed is not on the chain             *)
SetInForce == Timed(cfg) =>
  LET vs == VS(cfg, now) IN
  /\ Members(vs) \subseteq 1..cfg.u
  /\ Cardinality(Members(vs)) = Len(vs)
  /\ cfg.kind = "tdpos" => Len(vs) = cfg.n
  /\ cfg.kind = "xpoa" => (vs = <<>>) = (cfg.hgt > 4 /\ cfg.hgt - 1 >= cfg.start + 3 /\ ~OnChain(cfg, cfg.hgt - 4))
(* bootstrap: during the first three heights of the consensus instance the configured initial set  *)
(* is in force whatever the chain records; XPoA above them: the set recorded four blocks below     *)
Bootstrap == Timed(cfg) =>
  /\ cfg.hgt < cfg.start + 3 => VS(cfg, now) = Iota(cfg.n)
  /\ (cfg.kind = "xpoa" /\ cfg.hgt = cfg.start + 3) => VS(cfg, now) = Iota(cfg.n)
  /\ (cfg.kind = "xpoa" /\ cfg.hgt > cfg.start + 3 /\ cfg.hgt > 4 /\ OnChain(cfg, cfg.hgt - 4)) => VS(cfg, now) = RecOrInit(cfg, cfg.hgt - 4)
(* nobody is entitled before the schedule's origin *)
NothingBeforeOrigin == (Timed(cfg) /\ now < Origin(cfg)) => ~V
(* the first slot ever (of the first term the clock visits) is slot 0 of the first validator *)
FirstSlot == (V /\ ~last.def /\ Regular) => K = <<Term0(cfg), 0, MinBp>>
(* slots are visited in order, none is skipped, time never returns to an earlier slot *)
SlotOrder == (V /\ last.def) => IF Regular THEN SlotIdx(K) \in {SlotIdx(last.key), SlotIdx(last.key) + 1}
                                 ELSE SlotIdx(K) >= SlotIdx(last.key)
(* a slot is an interval: no instant inside it is unassigned or assigned to another slot *)
SlotContiguous == (V /\ last.def /\ K = last.key) => last.ms >= T - 1
(* consecutive slots of one producer follow each other without a gap *)
TurnAdjacent == (NewSlot /\ SameTurn(K, last.key)) => last.ms = T - 1
(* every slot lasts `period` ms (TDPoS: the first slot of a turn lacks its first millisecond) *)
SlotLength == (NewSlot /\ Regular) =>
  LET len == last.ms - last.start + 1 IN
  IF cfg.kind = "tdpos" /\ last.key[3] = 0 THEN len = cfg.period - 1 ELSE len = cfg.period
(* the ends of successive slots are apart by the configured interval: period within a turn,       *)
(* alternate_interval at a hand-over, term_interval at a term change (XPoA: always period)        *)
EndGap(k1, k2) == IF SameTurn(k1, k2) \/ cfg.kind = "xpoa" THEN cfg.period
                  ELSE IF k1[1] = k2[1] THEN cfg.alt ELSE cfg.termInt
SlotSpacing == (NewSlot /\ Regular /\ prevEnd.def) => last.ms - prevEnd.ms = EndGap(prevEnd.key, last.key)
(* the first slot of the first term visited ends term_interval (XPoA: period) after the term's begin *)
FirstSlotEnd == (NewSlot /\ Regular /\ ~prevEnd.def) =>
  last.ms + 1 = (Origin(cfg) \div Ms) + (Term0(cfg) - 1) * TermTime(cfg) + (IF cfg.kind = "tdpos" THEN cfg.termInt ELSE cfg.period)
(* a turn consists of slots MinBp..MaxBp; a term of the turns of the validators in force, in order *)
TurnComplete == (NewSlot /\ Regular /\ ~SameTurn(K, last.key)) => last.key[3] = MaxBp /\ K[3] = MinBp
TermComplete == (NewSlot /\ ~SameTurn(K, last.key)) =>
  IF K[1] = last.key[1] THEN K[2] = last.key[2] + 1
  ELSE K[1] = last.key[1] + 1 /\ K[2] = 0 /\ last.key[2] = NV(cfg) - 1
(* the schedule repeats with the configured term length *)
TermPeriodic == (Timed(cfg) /\ now >= Origin(cfg) /\ NV(cfg) > 0) =>
  LET s2 == Sched(cfg, now + TermTime(cfg) * Ms) IN
  /\ Valid(cfg, s2) = Valid(cfg, S)
  /\ s2.term = S.term + 1
  /\ Valid(cfg, S) => (s2.pos = S.pos /\ s2.bp = S.bp)
(* direct statement of the shares, evaluated once per configuration (at the clock's first instant):  *)
(* in every term the clock visits one validator set is in force, every member of it owns exactly    *)
(* block_num slots - those of its position in the set - and nobody else owns any                   *)
WalkMs == (StartNs(cfg) \div Ms + 2)..(EndNs(cfg) \div Ms)
(* one row per millisecond at which somebody is scheduled: the slot, the set in force, who is accepted *)
SlotTab == {[key |-> Key(Sched(cfg, m * Ms)), vs |-> VS(cfg, m * Ms), acc |-> AcceptedAt(cfg, m * Ms)] :
              m \in {x \in WalkMs : x * Ms >= Origin(cfg) /\ ~Silent(cfg, x * Ms) /\ Valid(cfg, Sched(cfg, x * Ms))}}
Shares == (Timed(cfg) /\ now = StartNs(cfg) /\ NV(cfg) > 0) =>
  \A tab \in {SlotTab} :
    \A t \in Term0(cfg)..(Term0(cfg) + NTerms - 1) :
      \A rows \in {{r \in tab : r.key[1] = t}} :
        /\ Regular => rows # {}
        /\ Cardinality({r.vs : r \in rows}) <= 1
        /\ \A vs \in {r.vs : r \in rows} :
             \A v \in Cands(cfg) :
               \A mine \in {{r.key : r \in {x \in rows : v \in x.acc}}} :
                 /\ v \in Members(vs) => /\ Cardinality(mine) = IF Regular THEN cfg.blockNum ELSE cfg.blockNum - 1
                                         /\ \A k \in mine : vs[k[2] + 1] = v
                 /\ v \notin Members(vs) => mine = {}
(* period = 1 ms (TDPoS): slot 0 of every turn is empty, everything else as above *)
OneMsPeriod == (V /\ ~Regular) => K[3] >= 1

(* single: accepted only from the configured miner, with the miner's key and a signature of the id *)
SingleOK == (cfg.kind = "single" /\ sidx > 0) =>
  LET k == SingleSeq[sidx] IN
  SingleClass(k) = "ok" <=> (k.idok /\ k.prop = "miner" /\ k.pk = "miner" /\ k.signer = "miner" /\ k.over = "id")

TypeOK == cfg \in Box /\ sidx \in 0..Len(SingleSeq)
View == <<cfg, now, last, prevEnd, sidx>>
=============================================================================
