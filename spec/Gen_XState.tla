----------------------------- MODULE Gen_XState -----------------------------
(* Behaviour generation: simulate XState and dump each behaviour's op history as JSON; the   *)
(* transaction catalogue is exported once so that the Go concretiser has no copy of its own. *)
EXTENDS XState, Json, Randomization
ASSUME JsonSerialize("catalog.json", <<[tx |-> TX, genesis |-> GenesisOuts, award |-> AwardSched, awards |-> [h \in 1..16 |-> AwardAt(h)],
                                        keys |-> SetToSeq(Keys), addrs |-> Addrs]>>)
Dump == Len(hist) < MaxOps \/ (JsonSerialize("out/b_" \o ToString(TLCGet("stats").traces) \o ".json", hist) /\ FALSE)
(* Generation is biased towards operations that do something: TLC's simulator picks uniformly among
   successor states, so the trivially refused ones (stale submissions, plays of blocks that do not
   extend the pointer) are thinned out with RandomSubset. Bad blocks (transactions that do not apply
   on the chain: failed plays) and all walks are produced as well. *)
V1(s, lh, skip) == {t \in Txs \ skip : Valid(s, t, lh)}
ValidSeqs(p) ==
  LET r == Replay(p)
      lh == Height(p) + 1
      on == {t \in Txs : OnChain(t, p)} IN
  IF ~r.ok THEN {}
  ELSE {<<>>} \cup {<<t>> : t \in V1(r.s, lh, on)}
       \cup (IF MaxTxPerBlock < 2 THEN {}
             ELSE UNION {{<<t, u>> : u \in V1(Apply(r.s, t), lh, on \cup {t})} : t \in V1(r.s, lh, on)})
(* blocks with two transactions that are each valid on the parent's chain but consume the same output or supersede the
   same key version (the block-level double spend the state machine must refuse, by Play and by Walk) *)
Clash(t, u) == t # u /\ (TX[t].ins \cap TX[u].ins # {} \/ \E k \in Keys : Supersedes(t, k) /\ Supersedes(u, k) /\ TX[t].reads[k] = TX[u].reads[k])
ClashSeqs(p) == LET r == Replay(p) on == {t \in Txs : OnChain(t, p)} IN
                IF ~r.ok \/ MaxTxPerBlock < 2 THEN {}
                ELSE LET S == V1(r.s, Height(p) + 1, on) IN UNION {{<<t, u>> : u \in {x \in S : Clash(t, x)}} : t \in S}
GenNext ==
  /\ Len(hist) < MaxOps
  /\ \/ \E t \in {t \in Txs : t \notin pool /\ Valid(St, t, LHeight)} : Submit(t, "*")
     \/ LET S == {t \in Txs : ~OnChain(t, ptr) /\ ~Confirmed(t)} IN
        \E t \in RandomSubset(IF Cardinality(S) < 2 THEN Cardinality(S) ELSE 2, S) : Submit(t, "*")
     \/ \E p \in 1..n : \E seq \in RandomSubset(3, ValidSeqs(p)) : n < MaxBlocks /\ NewBlock(p, seq)
     \/ \E p \in RandomSubset(1, 1..n) : \E seq \in RandomSubset(1, {q \in TxSeqs : q # <<>>}) : MkBadBlock(p, seq)
     \/ \E p \in RandomSubset(1, 1..n) : \E seq \in RandomSubset(1, ClashSeqs(p)) : MkBadBlock(p, seq)
     \/ \E b \in {c \in 2..n : Parent(c) = ptr} : Play(b, "*")
     \/ \E b \in RandomSubset(1, 2..n) : Play(b, "*")
     \/ (pool # {} /\ Mine(PrefixFits(GoodOrder(Packable))))
     \/ \E b \in RandomSubset(1, {0}) : Mine(PrefixFits(GoodOrder(Packable)))
     \/ \E d \in 1..n : Walk(d, FALSE, {"*"}, <<>>)
     \/ \E d \in RandomSubset(1, 1..n) : Walk(d, TRUE, {"*"}, <<>>)      \* pruning walk
     \/ Restart
GenSpec == Init /\ [][GenNext]_vars
(* C13 profile: fill the pool (all currently valid submissions), mine, occasionally restart / walk / peer block *)
MinerNext ==
  /\ Len(hist) < MaxOps
  /\ \/ \E t \in {t \in Txs : t \notin pool /\ Valid(St, t, LHeight)} : Submit(t, "*")
     \/ \E t \in {t \in Txs : t \notin pool /\ Valid(St, t, LHeight)} : Submit(t, "*")
     \/ (pool # {} /\ Mine(PrefixFits(GoodOrder(Packable))))
     \/ (Cardinality(pool) >= 3 /\ Mine(PrefixFits(GoodOrder(Packable))))
     \/ \E b \in RandomSubset(1, {0}) : Mine(PrefixFits(GoodOrder(Packable)))
     \/ \E p \in RandomSubset(1, 1..n) : \E seq \in RandomSubset(1, ValidSeqs(p)) : n < MaxBlocks /\ NewBlock(p, seq)
     \/ \E d \in RandomSubset(1, 1..n) : Walk(d, FALSE, {"*"}, <<>>)
     \/ \E d \in {ltip} : ptr # ltip /\ Walk(d, FALSE, {"*"}, <<>>)
     \/ \E b \in RandomSubset(1, {0}) : Restart
MinerSpec == Init /\ [][MinerNext]_vars
(* C17 profile: grow a chain well beyond the window, fork it within the last Window + 1 blocks, walk between the
   branches (also to lower side blocks, across the irreversible height, with the prune flag) and restart *)
NearTip == {p \in Anc(ltip) : Height(p) + Window + 1 >= LHeight}
FinNext ==
  /\ Len(hist) < MaxOps
  /\ \/ \E x \in {0, 1} : n < MaxBlocks /\ \E seq \in RandomSubset(1, ValidSeqs(ltip)) : NewBlock(ltip, seq)
     \/ (ptr # ltip /\ Walk(ltip, FALSE, {"*"}, <<>>))
     \/ (ptr # ltip /\ Walk(ltip, FALSE, {"*"}, <<>>))
     \/ \E b \in {c \in 2..n : Parent(c) = ptr} : Play(b, "*")
     \/ (ptr = ltip /\ Mine(PrefixFits(GoodOrder(Packable))))
     \/ \E t \in RandomSubset(1, {t \in Txs : t \notin pool /\ Valid(St, t, LHeight)}) : Submit(t, "*")
     \/ (LHeight >= Window + 1 /\ n < MaxBlocks /\ \E p \in RandomSubset(1, NearTip) : \E seq \in RandomSubset(1, ValidSeqs(p)) : NewBlock(p, seq))
     \/ (LHeight >= Window + 1 /\ \E d \in RandomSubset(2, 1..n) : Walk(d, FALSE, {"*"}, <<>>))
     \/ (LHeight >= Window + 2 /\ \E d \in RandomSubset(1, 1..n) : Walk(d, TRUE, {"*"}, <<>>))
     \/ \E x \in RandomSubset(1, {0}) : Restart
     \/ (n < MaxBlocks /\ \E x \in RandomSubset(1, {0, 1, 2}) : x = 0 /\ \E seq \in RandomSubset(1, {q \in TxSeqs : q # <<>>}) : MkBadBlock(ltip, seq))
FinSpec == Init /\ [][FinNext]_vars
=============================================================================
