--------------------------- MODULE Trace_AclHist ---------------------------
(* Trace validation: the recorded ndjson trace of real transactions (State.VerifyTx / DoTx / blocks) *)
(* drives the actions of AclHist; after every step the recorded result class and the projection of   *)
(* the rule tables (confirmed and pending) must equal the specification's.                           *)
EXTENDS AclHist, Json
VARIABLES l, div, dev
Trace == ndJsonDeserialize("trace.ndjson")
NoDiv == [at |-> 0]
tvars == <<vars, l, div, dev>>

TInit == Init /\ l = 1 /\ div = NoDiv /\ dev = {} /\ TLCSet(1, 1) /\ TLCSet(2, NoDiv) /\ TLCSet(3, {})

Act(ev) ==
  CASE ev.op = "reset" -> Reset
    [] ev.op = "new"   -> New(ev.a, ev.r, ev.k)
    [] ev.op = "set"   -> Set(ev.a, ev.r, ev.k, ev.via)
    [] ev.op = "bind"  -> Bind(ev.k)
    [] ev.op = "setm"  -> SetM(ev.r, ev.k, ev.via)
    [] ev.op = "setm2" -> SetM2(ev.r, ev.k, ev.via, ev.ord)
    [] ev.op = "call"  -> Call(ev.k)
    [] ev.op = "spend" -> Spend(ev.a, ev.k, ev.via)
    [] ev.op = "mine"  -> Mine

(* which deviation an admitted step needed: the IDEAL admission fails and the named one explains it *)
DevAcc(ev, a, uri) ==
  IF Authorised(FALSE, a, uri) THEN {}
  ELSE (IF conf[a] = 0 /\ KF_UnconfirmedAccountOpen /\ ev.op # "spend" THEN {"KF_UnconfirmedAccountOpen"} ELSE {})
       \cup (IF conf[a] # 0 /\ KF_IntermediateAKCounts /\ Authorised(TRUE, a, uri) THEN {"KF_IntermediateAKCounts"} ELSE {})
DevOf(ev) ==
  IF ev.op \notin {"set", "setm", "setm2", "spend"} \/ ev.res # "accept" THEN {}
  ELSE IF ev.op = "setm2" THEN DevAcc(ev, "A1", Uri(Owner, ev.k, ev.via)) \cup DevAcc(ev, "A2", Uri(Owner, ev.k, ev.via))
  ELSE LET a == IF ev.op = "setm" THEN Owner ELSE ev.a IN DevAcc(ev, a, Uri(a, ev.k, ev.via))

TStep ==
  /\ l <= Len(Trace) /\ div = NoDiv
  /\ LET ev == Trace[l] IN
     /\ Act(ev)
     /\ div' = IF ev.op = "reset" THEN NoDiv
               ELSE LET r == hist'[Len(hist')].res IN
                    IF r = ev.res /\ Obs' = ev.obs THEN NoDiv
                    ELSE [at |-> l, tr |-> ev.tr, op |-> ev.op, expres |-> r, actres |-> ev.res, exp |-> Obs', act |-> ev.obs]
     /\ dev' = IF ev.op = "reset" THEN dev ELSE dev \cup DevOf(ev)
  /\ l' = l + 1
TSpec == TInit /\ [][TStep]_tvars

Book ==
  /\ (div = NoDiv /\ l > TLCGet(1)) => TLCSet(1, l)
  /\ (div # NoDiv /\ (TLCGet(2) = NoDiv \/ TLCGet(2).at < div.at)) => TLCSet(2, div)
  /\ (div = NoDiv /\ dev # TLCGet(3)) => TLCSet(3, dev \cup TLCGet(3))
RECURSIVE SetAsSeq(_)
SetAsSeq(S) == IF S = {} THEN <<>> ELSE LET x == CHOOSE y \in S : TRUE IN <<x>> \o SetAsSeq(S \ {x})
Post == JsonSerialize("result.json", <<[hw |-> TLCGet(1), len |-> Len(Trace), div |-> TLCGet(2), dev |-> SetAsSeq(TLCGet(3))]>>)
=============================================================================
