------------------------------ MODULE Trace_QC ------------------------------
(* Trace validation for C14: the recorded verdicts of the real DefaultSaftyRules / Smr drive the     *)
(* operators of QC.  An event is explained                                                           *)
(*   - by the property-level action (strict where the property speaks, DESIGN R2/R6): a rejection is *)
(*     always possible ("an invalid member entry may cause rejection", other validation may be       *)
(*     tightened), an acceptance only if the certificate carries a quorum of distinct valid member   *)
(*     signatures / the vote is validly signed by a member / the collector's stored certificate has   *)
(*     such a quorum;                                                                                *)
(*   - or, with a KF_ constant enabled, by the ACTUAL procedure reproducing exactly the recorded       *)
(*     outcome through the named deviation (recorded in dev).                                         *)
(* Events whose outcome differs from the transcribed procedure's prediction but are explained at the *)
(* property level are counted in inexact (reported in the evidence, never a violation); the          *)
(* collector state then follows the recorded one.                                                    *)
EXTENDS QC, Json
VARIABLES l, div, dev, inexact, pend
Trace == ndJsonDeserialize("trace.ndjson")
NoDiv == [at |-> 0]
tvars == <<vars, l, div, dev, inexact, pend>>   \* pend: deviations exercised so far in the current collection

TInit == Init /\ l = 1 /\ div = NoDiv /\ dev = {} /\ inexact = 0 /\ pend = {}
         /\ TLCSet(1, 1) /\ TLCSet(2, NoDiv) /\ TLCSet(3, {}) /\ TLCSet(4, 0)

Bool(r) == IF r THEN "accept" ELSE "reject"
Div(ev, expres, exp, act) == [at |-> l, tr |-> ev.tr, op |-> ev.op, expres |-> expres, actres |-> ev.res, exp |-> exp, act |-> act]

(* pure calls: the state does not change *)
Pure(ev, pred, allowed, isdev, devname) ==
  /\ UNCHANGED vars /\ pend' = pend
  /\ inexact' = IF pred = ev.res THEN inexact ELSE inexact + 1
  /\ IF ev.res = "reject" \/ allowed THEN div' = NoDiv /\ dev' = dev
     ELSE IF isdev /\ pred = ev.res THEN div' = NoDiv /\ dev' = dev \cup {devname}
     ELSE div' = Div(ev, pred, [res |-> pred], [res |-> ev.res]) /\ dev' = dev

CollectorOK(ev) == /\ ev.obs.cert => Quorum(ev.obs.qc, ev.n)
                   /\ ev.obs.hq # <<>> => Quorum(ev.obs.hq, ev.n)

TStep ==
  /\ l <= Len(Trace) /\ div = NoDiv
  /\ l' = l + 1
  /\ LET ev == Trace[l] IN
     CASE ev.op = "reset" -> Reset /\ div' = NoDiv /\ pend' = {} /\ UNCHANGED <<dev, inexact>>
       [] ev.op = "setup" ->
            /\ n' = ev.n /\ UNCHANGED <<mode, qc, store, started, cert, view, nm, hist>>
            /\ div' = NoDiv /\ UNCHANGED <<dev, inexact, pend>>
       [] ev.op = "proposal" ->
            LET r == CheckProposal(ev.frame, ev.n, ev.signs) IN
            Pure(ev, r.res, Quorum(ev.signs, ev.n), r.dev, "KF_RepeatedSignerCounts")
       [] ev.op = "receive" ->
            \* accepted only with a quorum of the set in force for the CERTIFIED view (ev.vc); the set of the carrying
            \* proposal's view (ev.vp) gives nothing
            LET vc == {ev.vc[x] : x \in DOMAIN ev.vc}
                vp == {ev.vp[x] : x \in DOMAIN ev.vp}
                r  == ReceiveProposal(vc, vp, ev.signs)
            IN Pure(ev, r.res, QuorumS(ev.signs, vc), r.dev, "KF_RepeatedSignerCounts")
       [] ev.op = "vote" ->
            LET r == CheckVote(ev.n, ev.signs) IN
            Pure(ev, r.res, Len(ev.signs) > 0 /\ ValidMember(ev.signs[1], ev.n), r.dev, "KF_VoteAcceptsFailedVerify")
       [] ev.op = "thr" ->
            Pure(ev, Bool(CalVotesThreshold(ev.input, ev.sum)), ev.sum < 1 \/ ev.input >= Need(ev.sum), FALSE, "")
       [] ev.op = "collect" ->
            /\ n' = ev.n /\ mode' = "collect" /\ store' = <<>> /\ started' = FALSE /\ cert' = FALSE
            /\ view' = PView /\ nm' = 0 /\ UNCHANGED <<qc, hist>>
            /\ inexact' = IF Obs' = ev.obs THEN inexact ELSE inexact + 1
            /\ dev' = dev /\ pend' = {}
            /\ div' = IF CollectorOK(ev) THEN NoDiv ELSE Div(ev, "ok", Obs', ev.obs)
       [] ev.op = "votemsg" ->
            LET p == VoteStep(n, Collector, ev.signs)
                exact == p.res = ev.res /\ ObsOf(p) = ev.obs
            IN /\ UNCHANGED <<n, mode, qc, hist>> /\ nm' = nm + 1
               /\ IF exact THEN store' = p.store /\ started' = p.started /\ cert' = p.cert /\ view' = p.view
                  ELSE store' = ev.obs.qc /\ started' = (started \/ ev.res = "ok") /\ cert' = ev.obs.cert /\ view' = ev.obs.view
               /\ inexact' = IF exact THEN inexact ELSE inexact + 1
               /\ pend' = IF exact THEN pend \cup p.dev ELSE pend
               /\ IF CollectorOK(ev) THEN div' = NoDiv /\ dev' = dev
                  \* a certificate without a quorum: explained only by the ACTUAL procedure reproducing the
                  \* recorded state exactly through deviations exercised in this collection
                  ELSE IF exact /\ pend' # {} THEN div' = NoDiv /\ dev' = dev \cup pend'
                  ELSE div' = Div(ev, p.res, ObsOf(p), ev.obs) /\ dev' = dev
TSpec == TInit /\ [][TStep]_tvars

(* bookkeeping in TLC registers (needs -workers 1): 1 = highest line index reached without divergence,
   2 = divergence with the longest explained prefix, 3 = deviations used, 4 = inexact events *)
Book ==
  /\ (div = NoDiv /\ l > TLCGet(1)) => TLCSet(1, l)
  /\ (div # NoDiv /\ (TLCGet(2) = NoDiv \/ TLCGet(2).at < div.at)) => TLCSet(2, div)
  /\ TLCSet(3, TLCGet(3) \cup dev)
  /\ (inexact > TLCGet(4)) => TLCSet(4, inexact)
Post == JsonSerialize("result.json", <<[hw |-> TLCGet(1), len |-> Len(Trace), div |-> TLCGet(2),
                                        dev |-> SetToSeq(TLCGet(3)), inexact |-> TLCGet(4)]>>)
=============================================================================
