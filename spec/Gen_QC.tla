------------------------------- MODULE Gen_QC -------------------------------
(* Behaviour generation: simulate QC and dump each behaviour's op history as JSON.                  *)
(* The next-state relation is QC's, with the parameters of each action drawn by RandomElement (one  *)
(* successor per disjunct instead of one per parameter value: ~15 instead of ~500 successors per    *)
(* step), and with extra weight on valid member entries and the standard frame so that accepted     *)
(* certificates are frequent for large validator sets as well.                                      *)
EXTENDS QC, Json, Randomization
Ok(i) == 3 + 4 * (i - 1)
AnyKind == RandomElement(1..NumKinds(n))
AnyEntry == KindOf(AnyKind)
GenNext ==
  /\ Len(hist) < MaxOps
  /\ \/ Setup(RandomElement(1..MaxN))
     \/ Add(AnyKind)
     \/ \E b \in 1..3 : Add(Ok(RandomElement(1..n)))
     \/ Discard
     \/ SubmitProposal(RandomElement(Frames))
     \/ \E b \in 1..2 : SubmitProposal("std")
     \/ SubmitVote
     \* the certificate as the justify of a received proposal at a validator-set change: any two non-empty sets
     \/ SubmitReceive(RandomSubset(RandomElement(1..n), Members(n)), RandomSubset(RandomElement(1..n), Members(n)))
     \/ Threshold(RandomElement(0..ThrMax), RandomElement(0..ThrMax))
     \/ StartCollect
     \/ VoteMsg(<<AnyEntry>>)
     \/ \E b \in 1..3 : VoteMsg(<<KindOf(Ok(RandomElement(1..n)))>>)
     \/ (MaxSigs >= 2 /\ VoteMsg(<<AnyEntry, AnyEntry>>))
     \/ (MaxSigs >= 2 /\ VoteMsg(<<KindOf(Ok(RandomElement(1..n))), AnyEntry>>))
     \/ (MaxSigs >= 3 /\ VoteMsg(<<KindOf(Ok(RandomElement(1..n))), AnyEntry, AnyEntry>>))
     \/ VoteMsg(<<>>)
     \/ EndCollect
GenInit == /\ n \in 1..MaxN /\ mode = "idle" /\ qc = <<>> /\ store = <<>> /\ started = FALSE
           /\ cert = FALSE /\ view = 0 /\ nm = 0 /\ hist = <<>>
GenSpec == GenInit /\ [][GenNext]_vars
Dump == Len(hist) < MaxOps \/ (JsonSerialize("out/b_" \o ToString(TLCGet("stats").traces) \o ".json", hist) /\ FALSE)
=============================================================================
