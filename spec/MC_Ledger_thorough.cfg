SPECIFICATION Spec
CONSTANTS
  MaxBlocks = 7
  NTx = 2
  MaxTxPerBlock = 1
  MaxOps = 100000
INVARIANTS TypeOK MainChainIsPath TipMaxHeight HeightIndexOK NextOK TxMapOK TxTrunkAnswerOK TipsAreLeaves ParentsStored
PROPERTIES NoSwitchOnTie
VIEW View
CHECK_DEADLOCK FALSE
