SPECIFICATION Spec
CONSTANTS
  MaxN = 5
  Extra = 1
  MaxEntries = 5
  MaxMsgs = 0
  MaxSigs = 2
  MaxOps = 100000000
  Canon = TRUE
  ThrMax = 12
  KF_RepeatedSignerCounts = FALSE
  KF_VoteAcceptsFailedVerify = FALSE
  KF_UnverifiedExtraVoteSigns = FALSE
INVARIANTS TypeOK ProposalOK ReceiveOK
VIEW View
CHECK_DEADLOCK FALSE
