---------------------------- MODULE Trace_Engine ----------------------------
(* Trace validation of the engine pipeline: a "push" line is explained by PushBegin, the silent micro-steps of the
   specification (they do not consume a line) and PushEnd, at which the recorded result and projection are judged. *)
EXTENDS Engine, Json
VARIABLES l, div, taint, devAll
Trace == ndJsonDeserialize("trace.ndjson")
NoDiv == [at |-> 0]
tevars == <<evars, l, div, taint, devAll>>
Has(ev, f) == f \in DOMAIN ev
Norm(o) == [o EXCEPT !.utxo = Range(@), !.pool = Range(@)]
TInit == EInit /\ l = 1 /\ div = NoDiv /\ taint = FALSE /\ devAll = {} /\ TLCSet(1, 1) /\ TLCSet(2, NoDiv) /\ TLCSet(3, {})

Judge(ev, r) == IF taint THEN NoDiv
                ELSE IF r = ev.res /\ Norm(ev.obs) = Obs THEN NoDiv
                ELSE [at |-> l, tr |-> ev.tr, op |-> ev.op, expres |-> r, actres |-> ev.res, exp |-> Obs, act |-> ev.obs, which |-> "engine"]
(* simple operations: one action, judged one step later on the unprimed state (pending) *)
VARIABLE pend      \* "" or the expected result of the line being judged
tv2 == <<tevars, pend>>
Step ==
  /\ l <= Len(Trace) /\ div = NoDiv
  /\ LET ev == Trace[l] IN
     IF pend # "" THEN      \* judge the line whose action was taken in the previous step
        /\ div' = Judge(ev, pend) /\ pend' = "" /\ l' = l + 1
        /\ UNCHANGED <<evars, taint, devAll>>
     ELSE IF ev.op = "reset" THEN
        /\ EReset /\ l' = l + 1 /\ taint' = FALSE /\ UNCHANGED <<div, devAll, pend>>
     ELSE IF taint THEN
        /\ l' = l + 1 /\ UNCHANGED <<evars, div, taint, devAll, pend>>
     ELSE IF ev.op = "push" /\ eres = "" THEN
        /\ PushBegin(ev.p, ev.seqs, ev.kind) /\ UNCHANGED <<l, div, taint, devAll, pend>>
     ELSE IF ev.op = "repush" /\ eres = "" THEN
        /\ RePush(ev.b) /\ UNCHANGED <<l, div, taint, devAll, pend>>
     ELSE IF ev.op = "minetrunc" /\ eres = "" /\ ptr # ltip THEN      \* the round first walks the state to the ledger tip
        /\ Tick /\ UNCHANGED <<l, div, pend>> /\ devAll' = devAll \cup dev' /\ taint' = (dev' # {})
     ELSE IF ev.op = "minetrunc" /\ eres = "" THEN
        /\ ETruncBegin(ev.d, IF ev.res = "ok" THEN ev.txs ELSE <<"*">>, Range(ev.obs.pool) \cup Range(ev.txs))
        /\ UNCHANGED <<l, div, taint, devAll, pend>>
     ELSE IF ev.op \in {"push", "repush", "minetrunc"} /\ eres # "" /\ todo # <<>> THEN
        /\ Micro /\ UNCHANGED <<l, div, pend>> /\ devAll' = devAll \cup dev' /\ taint' = (dev' # {})
     ELSE IF ev.op \in {"push", "repush", "minetrunc"} /\ eres # "" THEN
        /\ PushEnd /\ pend' = eres /\ UNCHANGED <<l, div, taint, devAll>>
     ELSE IF ev.op \in {"push", "repush", "minetrunc"} THEN      \* after PushEnd: unreachable (pend is set)
        /\ FALSE
     ELSE IF ev.op = "mine" /\ ptr # ltip THEN
        \* the miner first walks the state to the ledger tip (a silent step when it succeeds; a failed walk fails the round)
        /\ Tick
        /\ pend' = (IF hist'[Len(hist')].res = "ok" THEN "" ELSE "fail")
        /\ devAll' = devAll \cup dev' /\ taint' = (dev' # {})
        /\ UNCHANGED <<l, div>>
     ELSE
        /\ CASE ev.op = "submit"  -> (eres = "" /\ SubmitAny(ev.t, ev.res) /\ UNCHANGED <<insH, insB, todo, eres>>)
             [] ev.op = "mine"    -> (eres = "" /\ Mine(IF Range(ev.txs) \subseteq Packable /\ NoDupSeq(ev.txs) THEN ev.txs ELSE PrefixFits(GoodOrder(Packable))) /\ UNCHANGED <<insH, insB, todo, eres>>)
             [] ev.op = "tick"    -> Tick
             [] ev.op = "restart" -> ERestart
        /\ pend' = hist'[Len(hist')].res
        /\ devAll' = devAll \cup dev' /\ taint' = (dev' # {})
        /\ UNCHANGED <<l, div>>
TSpec == TInit /\ pend = "" /\ [][Step]_tv2
Book ==
  /\ (div = NoDiv /\ l > TLCGet(1)) => (TLCSet(1, l) /\ TLCSet(3, devAll))
  /\ (div # NoDiv /\ (TLCGet(2) = NoDiv \/ TLCGet(2).at < div.at)) => TLCSet(2, div)
Post == JsonSerialize("result.json", <<[hw |-> TLCGet(1), len |-> Len(Trace), div |-> TLCGet(2), dev |-> TLCGet(3)]>>)
=============================================================================
