---------------------------- MODULE Trace_Engine ----------------------------
(* Trace validation of the engine pipeline: a "push" line is explained by PushBegin, the silent micro-steps of the
   specification (they do not consume a line) and PushEnd, at which the recorded result and projection are judged. *)
EXTENDS Engine, Json
VARIABLES l, div, taint, devAll
Trace == ndJsonDeserialize("trace.ndjson")
NoDiv == [at |-> 0]
tevars == <<evars, l, div, taint, devAll>>
Has(ev, f) == f \in DOMAIN ev
(* the read-before-overwrite half of the pool's order is part of C13's statement only: that check substitutes
   JudgePoolAntiDep <- Yes; for every other property a wrong order counts once a mined block carries it *)
Yes == TRUE
JudgePoolAntiDep == FALSE
(* poolseq (the order in which the pool yields its transactions) is not part of the compared record: it is judged by
   SeqOK - every transaction comes after the pending transactions whose outputs or key versions it consumes, and
   (unless the known deviation is switched on) a pure reader of a key version before the pending writer superseding it *)
Norm(o) == [f \in DOMAIN o \ {"poolseq"} |-> IF f \in {"utxo", "pool", "poold"} THEN Range(o[f]) ELSE o[f]]
SeqOK(o) == "poolseq" \notin DOMAIN o \/ \A i, j \in DOMAIN o.poolseq :
               (i < j /\ o.poolseq[i] \in AllTxs /\ o.poolseq[j] \in AllTxs) => ~DependsOn(o.poolseq[i], o.poolseq[j])
                  /\ (~JudgePoolAntiDep \/ KF_PoolOrderAntiDep \/ ~AntiDep(o.poolseq[j], o.poolseq[i]))
TInit == EInit /\ l = 1 /\ div = NoDiv /\ taint = FALSE /\ devAll = {} /\ TLCSet(1, 1) /\ TLCSet(2, NoDiv) /\ TLCSet(3, {})

(* R3 at engine level: the walks inside a push / a mining round / a tick re-admit rolled-back transactions in map order
   and no property demands that the re-admitted set is maximal.  When the recorded pool is another conflict-free subset
   of what was pending before the operation (or is pending in the specification now) that applies on the chain state,
   the specification adopts it before the line is judged. *)
VARIABLE poolPrev      \* the specification's pool before the operation being judged
ChainSt == UndoSet(St, pool)
CanAdopt(P) == /\ P # pool /\ P \subseteq (poolPrev \cup pool) /\ \A t \in P : ~OnChain(t, ptr)
               /\ AllApply(ChainSt, GoodOrder(P), LHeight)
Adopt(P) == /\ Set(ApplySeq(ChainSt, GoodOrder(P))) /\ pool' = P
            /\ UNCHANGED <<blk, n, ltip, ptr, irr, dev, applied, pruned, hist, insH, insB, todo, eres>>
NoBlkE(ev) == \/ (Has(ev, "p") /\ ev.p \notin 1..n) \/ (Has(ev, "b") /\ ev.b \notin 1..n) \/ (Has(ev, "d") /\ ev.d \notin 1..n)
Judge(ev, r) == IF taint THEN NoDiv
                ELSE IF r = ev.res /\ Norm(ev.obs) = Obs /\ SeqOK(ev.obs) THEN NoDiv
                ELSE [at |-> l, tr |-> ev.tr, op |-> ev.op, expres |-> r, actres |-> ev.res, exp |-> Obs, act |-> ev.obs, which |-> "engine"]
(* simple operations: one action, judged one step later on the unprimed state (pending) *)
VARIABLE pend      \* "" or the expected result of the line being judged
tv2 == <<tevars, pend, poolPrev>>
Step ==
  /\ l <= Len(Trace) /\ div = NoDiv
  /\ LET ev == Trace[l] IN
     IF pend # "" /\ ~taint /\ ev.op \in {"push", "repush", "tick", "mine", "minetrunc"} /\ CanAdopt(Range(ev.obs.pool)) THEN
        /\ Adopt(Range(ev.obs.pool)) /\ UNCHANGED <<l, div, taint, devAll, pend, poolPrev>>
     ELSE IF pend # "" THEN      \* judge the line whose action was taken in the previous step
        /\ div' = Judge(ev, pend) /\ pend' = "" /\ l' = l + 1 /\ poolPrev' = {}
        /\ UNCHANGED <<evars, taint, devAll>>
     ELSE IF ev.op # "reset" /\ eres = "" /\ NoBlkE(ev) THEN      \* names a block nobody has: nothing happens
        /\ UNCHANGED <<sv, insH, insB, todo, eres>> /\ Log([op |-> ev.op, res |-> "noblock"])
        /\ pend' = "noblock" /\ UNCHANGED <<l, div, taint, devAll, poolPrev>>
     ELSE IF ev.op = "reset" THEN
        /\ EReset /\ l' = l + 1 /\ taint' = FALSE /\ poolPrev' = {} /\ UNCHANGED <<div, devAll, pend>>
     ELSE IF taint THEN
        /\ l' = l + 1 /\ UNCHANGED <<evars, div, taint, devAll, pend, poolPrev>>
     ELSE IF ev.op = "push" /\ eres = "" THEN
        /\ PushBegin(ev.p, ev.seqs, ev.kind) /\ poolPrev' = poolPrev \cup pool /\ UNCHANGED <<l, div, taint, devAll, pend>>
     ELSE IF ev.op = "repush" /\ eres = "" THEN
        /\ RePush(ev.b) /\ poolPrev' = poolPrev \cup pool /\ UNCHANGED <<l, div, taint, devAll, pend>>
     ELSE IF ev.op = "minetrunc" /\ eres = "" /\ ptr # ltip THEN      \* the round first walks the state to the ledger tip
        \* (when that walk fails the round fails: "mining walk failed")
        /\ Tick /\ poolPrev' = poolPrev \cup pool /\ UNCHANGED <<l, div>> /\ devAll' = devAll \cup dev' /\ taint' = (dev' # {})
        /\ pend' = (IF hist'[Len(hist')].res = "ok" THEN "" ELSE "fail")
     ELSE IF ev.op = "minetrunc" /\ eres = "" THEN
        /\ ETruncBegin(ev.d, IF ev.res = "ok" THEN ev.txs ELSE <<"*">>, Range(ev.obs.pool) \cup Range(ev.txs))
        /\ poolPrev' = poolPrev \cup pool /\ UNCHANGED <<l, div, taint, devAll, pend>>
     ELSE IF ev.op \in {"push", "repush", "minetrunc"} /\ eres # "" /\ todo # <<>> THEN
        /\ Micro /\ UNCHANGED <<l, div, pend, poolPrev>> /\ devAll' = devAll \cup dev' /\ taint' = (dev' # {})
     ELSE IF ev.op \in {"push", "repush", "minetrunc"} /\ eres # "" THEN
        /\ PushEnd /\ pend' = eres /\ UNCHANGED <<l, div, taint, devAll, poolPrev>>
     ELSE IF ev.op \in {"push", "repush", "minetrunc"} THEN      \* after PushEnd: unreachable (pend is set)
        /\ FALSE
     ELSE IF ev.op = "mine" /\ ptr # ltip THEN
        \* the miner first walks the state to the ledger tip (a silent step when it succeeds; a failed walk fails the round)
        /\ Tick
        /\ pend' = (IF hist'[Len(hist')].res = "ok" THEN "" ELSE "fail")
        /\ devAll' = devAll \cup dev' /\ taint' = (dev' # {}) /\ poolPrev' = poolPrev \cup pool
        /\ UNCHANGED <<l, div>>
     ELSE
        /\ CASE ev.op = "submit"  -> (eres = "" /\ SubmitAny(ev.t, ev.res) /\ UNCHANGED <<insH, insB, todo, eres>>)
             [] ev.op = "mine"    -> (eres = "" /\ Mine(IF Range(ev.txs) \subseteq Packable /\ NoDupSeq(ev.txs) THEN ev.txs ELSE PrefixFits(GoodOrder(Packable))) /\ UNCHANGED <<insH, insB, todo, eres>>)
             [] ev.op = "tick"    -> Tick
             [] ev.op = "restart" -> ERestart
        /\ pend' = hist'[Len(hist')].res
        /\ devAll' = devAll \cup dev' /\ taint' = (dev' # {}) /\ poolPrev' = poolPrev \cup pool
        /\ UNCHANGED <<l, div>>
TSpec == TInit /\ pend = "" /\ poolPrev = {} /\ [][Step]_tv2
Book ==
  /\ (div = NoDiv /\ l > TLCGet(1)) => (TLCSet(1, l) /\ TLCSet(3, devAll))
  /\ (div # NoDiv /\ (TLCGet(2) = NoDiv \/ TLCGet(2).at < div.at)) => TLCSet(2, div)
Post == JsonSerialize("result.json", <<[hw |-> TLCGet(1), len |-> Len(Trace), div |-> TLCGet(2), dev |-> TLCGet(3)]>>)
=============================================================================
