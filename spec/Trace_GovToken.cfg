SPECIFICATION TSpec
CONSTANTS
  Amounts = {0, 500, 1000, 2500}
  TAmounts = {0}
  Cands = {"a"}
  ProposeLock = 1000
  MaxProps = 3
  StopDeltas = {0}
  TrigDeltas = {0}
  Pcts = {51}
  Toks = {"ok", "bad"}
  MaxOps = 1000000
  MaxH = 1000000
  LowAcc = {}
  KF_SelfTransferMints = FALSE
  KF_TransferResetsReceiverLocks = FALSE
  KF_UnlockSkipsLowercaseAddr = FALSE
CONSTRAINT Book
POSTCONDITION Post
CHECK_DEADLOCK FALSE
