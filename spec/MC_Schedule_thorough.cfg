SPECIFICATION Spec
CONSTANTS
  Kinds = {"tdpos", "xpoa", "single"}
  Periods = {1, 2, 3, 4}
  BlockNums = {1, 2, 3, 4}
  ProposerNums = {1, 2, 3, 4}
  MaxAlt = 5
  MaxTermInt = 6
  XpoaNs = {1, 2, 3, 4, 5}
  InitMs = 3
  InitRems = {0, 500000}
  NTerms = 3
  ChainPeriods = {2, 3}
  ChainTermInts = {6}
  Starts = {1, 2}
  NodeAts = {"genesis", "tip"}
  KeepHist = FALSE
  KF_TdposPreInit = FALSE
  KF_XpoaNegativeTs = FALSE
  KF_TdposTermSetOffset = FALSE
INVARIANTS TypeOK OneProducer SetInForce Bootstrap NothingBeforeOrigin FirstSlot SlotOrder SlotContiguous TurnAdjacent SlotLength SlotSpacing FirstSlotEnd TurnComplete TermComplete TermPeriodic Shares OneMsPeriod SingleOK
VIEW View
CHECK_DEADLOCK FALSE
