------------------------------ MODULE Gen_P2P ------------------------------
(* Behaviour generation: simulate the dispatcher part of P2P and dump each finished behaviour's    *)
(* step history as JSON (out/b_<n>.json); enumerate the codec cases (codec_cases.json).            *)
EXTENDS P2P, Json
Dump == ~AllDone \/ (JsonSerialize("out/b_" \o ToString(TLCGet("stats").traces) \o ".json", hist) /\ FALSE)

(* every (message, corruption kind) case of the codec part; the exhaustive run of CodecSpec visits  *)
(* exactly these and checks RoundTrip / CorruptionDetected on each                                  *)
CodecCases == {c \in [m : CMsgs, k : CKinds] : c.k = "none" \/ Corruptible(c.m)}
DumpCodec == TLCGet("distinct") >= 0 /\ JsonSerialize("codec_cases.json", SetToSeq(CodecCases))
=============================================================================
