SPECIFICATION Spec
CONSTANTS
  Amounts = {0, 500, 1000, 2500}
  TAmounts = {0, 500, 1000}
  Cands = {"a", "b"}
  ProposeLock = 1000
  MaxProps = 2
  StopDeltas = {1, 3}
  TrigDeltas = {0, 1}
  Pcts = {51, 100}
  Toks = {"ok", "bad"}
  MaxOps = 1000000
  MaxH = 5
  LowAcc = {}
  KF_SelfTransferMints = FALSE
  KF_TransferResetsReceiverLocks = FALSE
  KF_UnlockSkipsLowercaseAddr = FALSE
INVARIANTS TypeOK Conservation LocksBind NonNegative LockAccounting NoRecordsWithoutAccount
PROPERTIES LocksOnlyByLockUnlock CallerRestriction TransferRespectsLocks
VIEW View
CHECK_DEADLOCK FALSE
