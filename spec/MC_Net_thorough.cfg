SPECIFICATION NSpec
CONSTANTS
  Nodes = {1, 2}
  MaxBlocks = 4
  MaxTxPerBlock = 2
  MaxOps = 10
  Window = 0
  BlockBudget = 1000
  ActiveTxs = {"t1", "t3", "p1"}
  KF_FrozenLedgerHeight = FALSE
  KF_PlayKeepsStaleReader = FALSE
  KF_PoolOrderAntiDep = FALSE
  KF_PoolMasksBlockOrder = FALSE
INVARIANTS NTypeOK LedgersClosed TipsMax AllBlocksReplay PoolsApply NoDoubleSpendNet ConservationNet Convergence
PROPERTIES TipsOnlyRise KnownGrows
VIEW NView
CHECK_DEADLOCK FALSE
