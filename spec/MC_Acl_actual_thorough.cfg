SPECIFICATION Spec
CONSTANTS
  KF_IntermediateAKCounts = TRUE
  MaxSigners = 4
  NestedChoices = 3
  WithNegative = TRUE
  MaxOps = 100
INVARIANTS TypeOK EvalEqSat
VIEW View
CHECK_DEADLOCK FALSE
