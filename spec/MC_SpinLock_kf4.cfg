\* ACTUAL lock protocol, two sharers and two writers of one key version: TLC is expected to find a complete
\* run whose outcome is not serialisable (both writers admitted).
SPECIFICATION Spec
CONSTANTS
  KF_SharedLockRefCountRace = TRUE
  Sizes = {}
  KvPool <- KvPoolSmall
  TokPool <- TokPoolSmall
  MixPool <- MixPoolSmall
  Extra <- Race4
  GFirst = TRUE
  SelDet = FALSE
  RecSteps = FALSE
  LogOn = TRUE
VIEW View
INVARIANT NotBad
CHECK_DEADLOCK TRUE
