--------------------------- MODULE Trace_LockTable ---------------------------
(* Validation of call sequences executed on the real utxo.SpinLock (harness/cmd/c12 unit): one line per call       *)
(*   {op: reset | try | unlock, c, rd, wr, res: {ok, n}, obs: [IsLocked(a), IsLocked(b), IsLocked(c)]}.            *)
(* A call is explained iff its result is the specification's (success iff every key could be taken; on failure any *)
(* number of the keys taken so far may be handed back) and IsLocked of every key equals the table's.               *)
EXTENDS LockTable, Json
VARIABLES l, div
Trace == ndJsonDeserialize("trace.ndjson")
NoDiv == [at |-> 0]
tvars == <<vars, l, div>>
TInit == Init /\ l = 1 /\ div = NoDiv /\ TLCSet(1, 1) /\ TLCSet(2, NoDiv)
ReqOf(ev) == [rd |-> ToSet(ev.rd), wr |-> ToSet(ev.wr)]
(* the specification's step for the event; when the reported result is impossible the step is taken with the
   specification's own choice, so that the divergence record shows expected vs actual *)
Act(ev) == CASE ev.op = "reset" -> Reset
             [] ev.op = "try" -> LET L == KeysOf(ReqOf(ev))
                                     pl == PrefixLen(L)
                                     n == IF pl = Len(L) THEN pl ELSE IF ev.res.n \in 0..pl THEN ev.res.n ELSE pl IN
                                 TryLock(ev.c, ReqOf(ev), n)
             [] ev.op = "unlock" -> Unlock(ev.c)
TStep ==
  /\ l <= Len(Trace) /\ div = NoDiv
  /\ LET ev == Trace[l] IN
     /\ Act(ev)
     /\ div' = IF ev.op = "reset" \/ (hist'[Len(hist')].res = ev.res /\ Obs' = ev.obs) THEN NoDiv
               ELSE [at |-> l, tr |-> ev.tr, op |-> ev.op, expres |-> hist'[Len(hist')].res, actres |-> ev.res,
                     exp |-> Obs', act |-> ev.obs]
  /\ l' = l + 1
TSpec == TInit /\ [][TStep]_tvars
Book == /\ (div = NoDiv /\ l > TLCGet(1)) => TLCSet(1, l)
        /\ (div # NoDiv /\ (TLCGet(2) = NoDiv \/ TLCGet(2).at < div.at)) => TLCSet(2, div)
Post == JsonSerialize("result.json", <<[hw |-> TLCGet(1), len |-> Len(Trace), div |-> TLCGet(2)]>>)
=============================================================================
