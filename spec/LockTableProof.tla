--------------------------- MODULE LockTableProof ---------------------------
(***************************************************************************)
(* C12: the lock table of LockTable.tla / LockTableInd.tla for ANY set of  *)
(* clients and ANY set of integer keys, with a machine-checked proof       *)
(* (TLAPS) that Exclusive and IdleHoldNothing are invariants.              *)
(* Same actions as LockTableInd.tla; Clients and KeySet are parameters.    *)
(***************************************************************************)
EXTENDS Integers, TLAPS

CONSTANTS Clients, KeySet
ASSUME KeysAreInts == KeySet \subseteq Int

VARIABLES held, busy
vars == <<held, busy>>

LK == [k : KeySet, m : {"S", "X"}]
Holders(k, m) == {c \in Clients : [k |-> k, m |-> m] \in held[c]}
Mode(k) == IF Holders(k, "X") # {} THEN "X" ELSE IF Holders(k, "S") # {} THEN "S" ELSE "none"
CanLock(k, m) == Mode(k) = "none" \/ (Mode(k) = "S" /\ m = "S")

Init == held = [c \in Clients |-> {}] /\ busy = {}

ModeOf(k, wr) == IF k \in wr THEN "X" ELSE "S"
Bad(rd, wr) == {k \in rd \cup wr : ~CanLock(k, ModeOf(k, wr))}
Taken(rd, wr) == {k \in rd \cup wr : \A b \in Bad(rd, wr) : k < b}
TryLock(c, rd, wr) ==
  /\ c \notin busy
  /\ rd \cap wr = {} /\ rd \cup wr # {}
  /\ held' = [held EXCEPT ![c] = {[k |-> k, m |-> ModeOf(k, wr)] : k \in Taken(rd, wr)}]
  /\ busy' = busy \cup {c}
Unlock(c) ==
  /\ c \in busy
  /\ held' = [held EXCEPT ![c] = {}]
  /\ busy' = busy \ {c}

Next == \/ \E c \in Clients, rd \in SUBSET KeySet, wr \in SUBSET KeySet : TryLock(c, rd, wr)
        \/ \E c \in Clients : Unlock(c)
Spec == Init /\ [][Next]_vars

TypeOK == /\ held \in [Clients -> SUBSET LK]
          /\ busy \in SUBSET Clients
Exclusive == \A k \in KeySet : /\ \A c, d \in Holders(k, "X") : c = d
                              /\ (Holders(k, "X") # {} => Holders(k, "S") = {})
IdleHoldNothing == \A c \in Clients \ busy : held[c] = {}
IndInv == TypeOK /\ Exclusive /\ IdleHoldNothing

LEMMA InitInv == Init => IndInv
  BY DEF Init, IndInv, TypeOK, Exclusive, IdleHoldNothing, Holders

LEMMA UnlockInv == ASSUME IndInv, NEW c \in Clients, Unlock(c) PROVE IndInv'
  BY DEF IndInv, TypeOK, Exclusive, IdleHoldNothing, Holders, Unlock, LK

LEMMA TryLockInv == ASSUME IndInv, NEW c \in Clients, NEW rd \in SUBSET KeySet, NEW wr \in SUBSET KeySet, TryLock(c, rd, wr)
                    PROVE IndInv'
<1> DEFINE new == {[k |-> k, m |-> ModeOf(k, wr)] : k \in Taken(rd, wr)}
<1>1. held[c] = {} /\ c \notin busy
  BY DEF IndInv, IdleHoldNothing, TryLock
<1>2. held' = [held EXCEPT ![c] = new] /\ busy' = busy \cup {c}
  BY DEF TryLock
<1>3. new \in SUBSET LK
  BY DEF LK, ModeOf, Taken
<1>4. TypeOK'
  BY <1>2, <1>3 DEF IndInv, TypeOK
<1>5. IdleHoldNothing'
  BY <1>2 DEF IndInv, TypeOK, IdleHoldNothing
<1>6. \A k \in Taken(rd, wr) : CanLock(k, ModeOf(k, wr))
  BY KeysAreInts DEF Taken, Bad
<1>7. \A d \in Clients : d # c => held'[d] = held[d]
  BY <1>2 DEF IndInv, TypeOK
<1>8. held'[c] = new
  BY <1>2 DEF IndInv, TypeOK
<1>9. \A k \in KeySet, m \in {"S", "X"} : [k |-> k, m |-> m] \in new <=> (k \in Taken(rd, wr) /\ m = ModeOf(k, wr))
  OBVIOUS
<1>10. Exclusive'
  <2> SUFFICES ASSUME NEW k \in KeySet
               PROVE /\ \A a, b \in Holders(k, "X")' : a = b
                     /\ (Holders(k, "X")' # {} => Holders(k, "S")' = {})
    BY DEF Exclusive
  <2>1. \A d \in Clients \ {c}, m \in {"S", "X"} : d \in Holders(k, m)' <=> d \in Holders(k, m)
    BY <1>7 DEF Holders
  <2>2. \A m \in {"S", "X"} : c \notin Holders(k, m)
    BY <1>1 DEF Holders
  <2>3. \A m \in {"S", "X"} : c \in Holders(k, m)' <=> (k \in Taken(rd, wr) /\ m = ModeOf(k, wr))
    BY <1>8, <1>9 DEF Holders
  <2>4. CASE k \notin Taken(rd, wr)
    BY <2>1, <2>2, <2>3, <2>4 DEF IndInv, Exclusive, Holders
  <2>5. CASE k \in Taken(rd, wr) /\ ModeOf(k, wr) = "X"
    <3>1. Holders(k, "X") = {} /\ Holders(k, "S") = {}
      BY <1>6, <2>5 DEF CanLock, Mode
    <3> QED BY <3>1, <2>1, <2>3, <2>5 DEF Holders
  <2>6. CASE k \in Taken(rd, wr) /\ ModeOf(k, wr) = "S"
    <3>1. Holders(k, "X") = {}
      BY <1>6, <2>6 DEF CanLock, Mode
    <3> QED BY <3>1, <2>1, <2>3, <2>6 DEF Holders
  <2> QED BY <2>4, <2>5, <2>6 DEF ModeOf
<1> QED BY <1>4, <1>5, <1>10 DEF IndInv

THEOREM Safety == Spec => [](Exclusive /\ IdleHoldNothing)
<1>1. Init => IndInv
  BY InitInv
<1>2. IndInv /\ [Next]_vars => IndInv'
  <2> SUFFICES ASSUME IndInv, [Next]_vars PROVE IndInv'
    OBVIOUS
  <2>1. CASE UNCHANGED vars
    BY <2>1 DEF vars, IndInv, TypeOK, Exclusive, IdleHoldNothing, Holders
  <2>2. CASE Next
    BY <2>2, UnlockInv, TryLockInv DEF Next
  <2> QED BY <2>1, <2>2
<1>3. IndInv => Exclusive /\ IdleHoldNothing
  BY DEF IndInv
<1> QED BY <1>1, <1>2, <1>3, PTL DEF Spec
=============================================================================
