----------------------------- MODULE Gen_QCTree -----------------------------
(* Behaviour generation: simulate QCTree and dump each behaviour's op history as JSON.  The first record
   of hist carries the parent links of the behaviour's proposals.  The parameters of each action are drawn
   by RandomElement (one successor per disjunct), submissions are weighted up. *)
EXTENDS QCTree, Json
(* parent of i: i - 1 with probability about 1/2 (deep chains are needed for commits), else uniform *)
Pick(i) == LET r == RandomElement(0..(2 * i - 1)) IN IF r >= i THEN i - 1 ELSE r
GenInit == InitWith([i \in 1..NP |-> Pick(i)])
AnyP == RandomElement(Props)
Or(S) == IF S = {} THEN AnyP ELSE RandomElement(S)
Frontier == {p \in Props : p \notin main /\ Par(p) \in main}       \* proposals whose parent is in the tree
Deep == {p \in main : View(p) >= View(root) + 4}                     \* nodes whose commit moves the root
GenNext ==
  /\ Len(hist) < MaxOps
  /\ \/ \E b \in 1..3 : Insert(AnyP)
     \/ \E b \in 1..2 : Insert(Or(Frontier))
     \/ Certify(RandomElement(Ids))
     \/ \E b \in 1..2 : Certify(Or(main))
     \/ Enforce(RandomElement(Ids))
     \/ Commit(RandomElement(Ids))
     \/ Commit(Or(Deep))
     \/ Advance(RandomElement(Ids))
GenSpec == GenInit /\ [][GenNext]_vars
Dump == Len(hist) < MaxOps \/ (JsonSerialize("out/b_" \o ToString(TLCGet("stats").traces) \o ".json", hist) /\ FALSE)
=============================================================================
