SPECIFICATION GSpec
CONSTANTS
  KF_IntermediateAKCounts = FALSE
  MaxSigners = 3
  NestedChoices = 2
  WithNegative = TRUE
  MaxOps = 100
CONSTRAINT Dump
CHECK_DEADLOCK FALSE
