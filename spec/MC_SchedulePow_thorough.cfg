SPECIFICATION Spec
CONSTANTS
  Modes = {"btc", "legacy", "compact"}
  Gaps = {2, 3, 4}
  ExtraLen = 2
  Seed = 1
  NRand = 200
  KeepHist = FALSE
  KF_PowGrandparentBits = FALSE
INVARIANTS TypeOK ChainPrescribed RetargetOnlyAtGap RetargetBounded RetargetBoundedLegacy RetargetDirection AcceptOnlyEntitled CompactRoundTrip
VIEW View
CHECK_DEADLOCK FALSE
