----------------------------- MODULE Gen_BftNet -----------------------------
(* Schedule generation for the network of replicas: simulate BftNet with a next-state relation that draws ONE    *)
(* step per state (category by weight, parameters by RandomElement; deterministic under -seed).  Two mixes:      *)
(*   "wide"  forks (a second block in a view, a producer that is not the leader), re-deliveries (duplicates),    *)
(*           stale deliveries, confirmations out of order, rollbacks                                            *)
(*   "deep"  the pipeline makes progress (the leader builds on its certificate, the newest messages first) so    *)
(*           that views reach 8 .. 12: root moves, CommitQC, the - 3 windows of the safety rules are met from     *)
(*           both sides by the occasional old message; one replica may lag                                      *)
(* With a byzantine validator: injected votes and blocks.  A message that is never chosen is lost.               *)
EXTENDS BftNet, Json
CONSTANT GenMode
LiveP == {m \in pmsgs : m.to \in Live}
LiveV == {m \in vmsgs : m.to \in Live}
FreshP == {m \in LiveP : m.p \notin rep[m.to].lp}                         \* proposals not yet seen by their destination
FreshV == {m \in LiveV : <<m.p, m.src>> \notin rep[m.to].votes}           \* votes not yet stored by their destination
Newest(S) == {m \in S : \A x \in S : View(x.p) <= View(m.p)}
Leaders == {r \in Live : Leader(View(rep[r].high) + 1) = r /\ ProposeRes(rep[r]) = "ok"
                         /\ ~\E p \in Props : Par(p) = rep[r].high /\ pj[p].src = r}   \* has not yet built on its HighQC
Frontier == {x \in Live \X Props : x[2] \notin rep[x[1]].conf /\ Par(x[2]) \in rep[x[1]].conf}
(* (a LET would draw anew at every use: bind the drawn value with a singleton quantifier) *)
DP(S) == \E m \in {RandomElement(S)} : NDeliverProp(m.to, m.p)
DV(S) == \E m \in {RandomElement(S)} : NDeliverVote(m.to, m.p, m.src)
CanMake == NProps < MaxProps
Wide == GenMode = "wide"
(* cumulative weights of the categories (per cent) *)
W == IF Wide THEN [lead |-> 10, any |-> 15, fp |-> 40, fv |-> 64, dupp |-> 69, dupv |-> 74, front |-> 86, conf |-> 90, roll |-> 93, byzv |-> 98, byzp |-> 100]
     ELSE         [lead |-> 20, any |-> 21, fp |-> 48, fv |-> 78, dupp |-> 80, dupv |-> 82, front |-> 90, conf |-> 91, roll |-> 92, byzv |-> 97, byzp |-> 100]
UsefulV == {m \in FreshV : m.p \in rep[m.to].lp /\ m.p \in rep[m.to].main}   \* ... and their proposal is in the collector's tree
In(c, lo, hi) == c > lo /\ c <= hi
Fallback ==
  IF LiveP # {} THEN DP(LiveP)
  ELSE \E r \in {RandomElement(Live)} : IF CanMake THEN NPropose(r) ELSE NRollback(r, 0)
(* a step that makes progress (taken when the drawn category is not enabled) *)
Productive ==
  IF UsefulV # {} THEN DV(Newest(UsefulV))
  ELSE IF FreshP # {} THEN DP(Newest(FreshP))
  ELSE IF CanMake /\ Leaders # {} THEN NPropose(RandomElement(Leaders))
  ELSE IF FreshV # {} THEN DV(FreshV)
  ELSE Fallback
New == IF Wide THEN 40 ELSE 85                                                \* how often the newest message is preferred
Step(c, d) ==
  IF OwnPending # {} /\ c > 6                                                 \* the producer confirms its block (mostly at once)
  THEN \E p \in {RandomElement(OwnPending)} : NConfirm(pj[p].src, p)
  ELSE IF In(c, 0, W.lead) /\ CanMake /\ Leaders # {} THEN NPropose(RandomElement(Leaders))
  ELSE IF In(c, W.lead, W.any) /\ CanMake THEN NPropose(RandomElement(Live))  \* anybody: forks, refusals
  ELSE IF In(c, W.any, W.fp) /\ FreshP # {} THEN DP(IF d <= New THEN Newest(FreshP) ELSE FreshP)
  ELSE IF In(c, W.fp, W.fv) /\ FreshV # {} THEN DV(IF d <= New /\ UsefulV # {} THEN Newest(UsefulV) ELSE FreshV)
  ELSE IF In(c, W.fv, W.dupp) /\ LiveP # {} THEN DP(LiveP)                    \* mostly a duplicate
  ELSE IF In(c, W.dupp, W.dupv) /\ LiveV # {} THEN DV(LiveV)
  ELSE IF In(c, W.dupv, W.front) /\ Frontier # {} THEN \E x \in {RandomElement(Frontier)} : NConfirm(x[1], x[2])
  ELSE IF In(c, W.front, W.conf) /\ Props # {} THEN NConfirm(RandomElement(Live), RandomElement(Props))     \* out of order / repeated / refused
  ELSE IF In(c, W.conf, W.roll)
       THEN \E r \in {RandomElement(Live)} : NRollback(r, IF rep[r].generic # Nil /\ d > 25 THEN rep[r].generic ELSE RandomElement(Ids))
  ELSE IF In(c, W.roll, W.byzv) /\ Byz # 0 /\ Props # {}
       THEN NByzVote(RandomElement(Live), RandomElement(IF d <= 70 THEN Newest([p : Props]) ELSE [p : Props]).p)
  ELSE IF In(c, W.byzv, W.byzp) /\ Byz # 0 /\ CanMake
       THEN NByzProp(IF d <= 65 /\ Props # {} THEN RandomElement(Newest([p : Props])).p ELSE RandomElement(Ids), d % 2 = 0)
  ELSE Productive
GenNext ==
  /\ Len(hist) < MaxOps
  /\ \E c \in {RandomElement(1..100)}, d \in {RandomElement(1..100)} : Step(c, d)
GenSpec == NInit /\ [][GenNext]_nvars
Dump == Len(hist) < MaxOps \/ (JsonSerialize("out/b_" \o ToString(TLCGet("stats").traces) \o ".json", hist) /\ FALSE)
=============================================================================
