------------------------------ MODULE GovToken ------------------------------
(***************************************************************************)
(* Governance tokens of xupercore, written like the kernel contracts:      *)
(*   $govern_token  kernel/contract/proposal/govern_token/govern_token_contract.go *)
(*                  Init, Transfer, Lock, UnLock (Query / TotalSupply = Obs)       *)
(*   $proposal      kernel/contract/proposal/propose/propose_contract.go           *)
(*                  Propose, Vote, Thaw, CheckVoteResult, Trigger                  *)
(*   $timer_task    kernel/contract/proposal/timer/timer_task_contract.go (Do)     *)
(*   $tdpos         bcs/consensus/tdpos/kernel_contract.go: nominateCandidate,     *)
(*                  revokeNominate, voteCandidate, revokeVote (lock type "tdpos")  *)
(* Same checks in the same order, same arithmetic (integers, no clamping).         *)
(*                                                                                 *)
(* The chain around the contracts is a single-miner node: a call that succeeds in  *)
(* pre-execution becomes one transaction in its own block; the block of height h   *)
(* also carries the timer transaction of h ($timer_task.Do(h), generated after the *)
(* call's effects like Miner.packBlock does).  A refused call leaves no trace.     *)
(*                                                                                 *)
(* IDEAL = all KF_* constants FALSE: the C19 invariants below hold (TLC).          *)
(* ACTUAL = IDEAL + deviations, each guarded by a KF_* constant and describing     *)
(* what the pinned code does instead (DESIGN section 4).                           *)
(***************************************************************************)
EXTENDS Integers, Sequences, FiniteSets, TLC

CONSTANTS Amounts,        \* amounts offered to Transfer / Vote
          TAmounts,       \* amounts offered to the tdpos calls (nominate, vote, revoke vote)
          Cands,          \* accounts offered as candidate of a tdpos vote / revoke
          ProposeLock,    \* the amount Propose locks (the code's constant "1000")
          MaxProps,       \* bound on the number of proposals of a behaviour
          StopDeltas,     \* Propose: stop_vote_height = current height + d
          TrigDeltas,     \* Propose: trigger height = 0 (none) if d = 0, else stop_vote_height + d
          Pcts,           \* Propose: min_vote_percent values offered (valid: 51..100)
          Toks,           \* Propose: trigger targets offered: "ok" = existing kernel method, "bad" = a method that fails
          MaxOps,         \* bound on the length of a behaviour (generation)
          MaxH,           \* bound on the ledger height = number of successful calls of a behaviour
          LowAcc,         \* accounts whose concrete address starts with a byte >= '`' (lowercase base58 letter)
          KF_SelfTransferMints,            \* Transfer to oneself credits the amount without debiting it
          KF_TransferResetsReceiverLocks,  \* Transfer rewrites the receiver's record with zero locked amounts
          KF_UnlockSkipsLowercaseAddr      \* the unlock scan of a finished proposal ends at "lock_<id>_`"

VARIABLES st,     \* the contract state (record, see S0)
          hist    \* history of [op, args.., res, kf, tch] (generation / trace validation / action properties)
vars == <<st, hist>>

Acc      == {"a", "b", "c"}
AccSeq   == <<"a", "b", "c">>
Predist  == <<"a", "b">>                         \* genesis predistribution, in order; "c" is fresh
InitBal  == [a \in Acc |-> CASE a = "a" -> 3500 [] a = "b" -> 1000 [] OTHER -> 0]   \* genesis quotas (harness: -bal-a / -bal-b)
LT       == {"ordinary", "tdpos"}                \* utils.GovernTokenTypeOrdinary / TDPOS
ZeroLk   == [t \in LT |-> 0]
PIds     == 1..MaxProps
LockCallers == {"$proposal", "$tdpos", "$xpos"}  \* who may call Lock / UnLock
DirectAmt == 500

NoProp == [st |-> "", votes |-> 0, by |-> "", stop |-> 0, trig |-> 0, pct |-> 0, tok |-> ""]
S0 == [inited |-> FALSE,
       ex     |-> [a \in Acc |-> FALSE],         \* balance record exists (balanceOf_<account>)
       bal    |-> [a \in Acc |-> 0],             \* total_balance
       lk     |-> [a \in Acc |-> ZeroLk],        \* locked_balances[lock type]
       supply |-> -1,                            \* totalSupply key (-1: not written yet)
       np     |-> 0,                             \* latest proposal id
       prop   |-> [p \in PIds |-> NoProp],       \* proposals (status, vote_amount, proposer, args, trigger)
       rec    |-> [p \in PIds |-> [a \in Acc |-> 0]],   \* lock_<id>_<account> records of $proposal
       nom    |-> [a \in Acc |-> 0],             \* $tdpos nominate record: candidate a nominated itself with this ballot (0: not nominated)
       tv     |-> [c \in Acc |-> [v \in Acc |-> -1]],  \* $tdpos vote_<candidate> records: ballot of voter v (-1: no entry)
       h      |-> 0,                             \* ledger height (timer)
       tch    |-> {}]                            \* accounts on which Lock / UnLock ran in the current step

KFs == (IF KF_SelfTransferMints THEN {"KF_SelfTransferMints"} ELSE {})
       \cup (IF KF_TransferResetsReceiverLocks THEN {"KF_TransferResetsReceiverLocks"} ELSE {})
       \cup (IF KF_UnlockSkipsLowercaseAddr THEN {"KF_UnlockSkipsLowercaseAddr"} ELSE {})

Init == st = S0 /\ hist = <<>>
Reset == st' = S0 /\ hist' = <<>>       \* separates concatenated traces in trace validation

Fail(S) == [ok |-> FALSE, s |-> S]
Ok(S)   == [ok |-> TRUE, s |-> S]

-----------------------------------------------------------------------------
(* $govern_token.Lock / UnLock (LockGovernTokens / UnLockGovernTokens)      *)
LockOp(S, caller, acct, amt, lt) ==
  IF caller \notin LockCallers THEN Fail(S)                    \* "no authority to LockGovernTokens"
  ELSE IF ~S.ex[acct] THEN Fail(S)                             \* balanceOf: no record
  ELSE IF S.bal[acct] - S.lk[acct][lt] < amt THEN Fail(S)      \* available balance insufficient
  ELSE Ok([S EXCEPT !.lk[acct][lt] = @ + amt, !.tch = @ \cup {acct}])

UnLockOp(S, caller, acct, amt, lt) ==
  IF caller \notin LockCallers THEN Fail(S)
  ELSE IF ~S.ex[acct] THEN Fail(S)
  ELSE Ok([S EXCEPT !.lk[acct][lt] = @ - amt, !.tch = @ \cup {acct}])   \* no lower bound in the code

(* $proposal.unlockGovernTokensForProposal: every lock record of the proposal is unlocked (errors skipped). *)
(* Deviation: the range scan [lock_<id>_, lock_<id>_`) misses accounts whose address starts with a byte   *)
(* >= '`', i.e. with a lowercase letter (LowAcc).                                                          *)
RECURSIVE UnlockAll(_, _, _, _)
UnlockAll(S, p, i, d) ==
  IF i > Len(AccSeq) THEN S
  ELSE LET a == AccSeq[i] IN
       IF S.rec[p][a] = 0 \/ ("KF_UnlockSkipsLowercaseAddr" \in d /\ a \in LowAcc) THEN UnlockAll(S, p, i + 1, d)
       ELSE UnlockAll(UnLockOp(S, "$proposal", a, S.rec[p][a], "ordinary").s, p, i + 1, d)

(* $proposal.CheckVoteResult, called by the timer at stop_vote_height *)
CheckVote(S, p, d) ==
  LET P == S.prop[p]
      threshold == (S.supply * P.pct) \div 100
  IN IF P.st # "voting" THEN S
     ELSE IF P.votes < threshold
          THEN [UnlockAll(S, p, 1, d) EXCEPT !.prop[p].st = "rejected"]
          ELSE [S EXCEPT !.prop[p].st = "passed"]               \* + timer task "Trigger" at P.trig

(* $proposal.Trigger, called by the timer at the trigger height of a passed proposal *)
TriggerP(S, p, d) ==
  LET P == S.prop[p] IN
  IF P.st # "passed" THEN S
  ELSE [UnlockAll(S, p, 1, d) EXCEPT !.prop[p].st = IF P.tok = "ok" THEN "completed_success" ELSE "completed_failure"]

(* $timer_task.Do(h): the tasks registered at height h *)
RECURSIVE Timer(_, _, _)
Timer(S, p, d) ==
  IF p > S.np THEN S
  ELSE LET P == S.prop[p]
           S1 == IF P.stop = S.h THEN CheckVote(S, p, d) ELSE S
           S2 == IF P.trig = S.h /\ P.trig # 0 /\ P.stop # S.h THEN TriggerP(S1, p, d) ELSE S1
       IN Timer(S2, p + 1, d)

(* the call's transaction is packed into the next block together with that height's timer transaction *)
Mine(S, d) == Timer([S EXCEPT !.h = @ + 1], 1, d)

-----------------------------------------------------------------------------
(* Effects of the public calls: [ok, s].  d = set of deviations in force for this step. *)

InitEff(S, d) ==
  IF S.inited THEN Fail(S)                                     \* "Govern tokens has been initialized."
  ELSE Ok([S EXCEPT !.inited = TRUE,
                    !.ex  = [a \in Acc |-> \E i \in DOMAIN Predist : Predist[i] = a],
                    !.bal = [a \in Acc |-> IF \E i \in DOMAIN Predist : Predist[i] = a THEN InitBal[a] ELSE 0],
                    !.lk  = [a \in Acc |-> ZeroLk],
                    !.supply = InitBal["a"] + InitBal["b"]])

(* TransferGovernTokens *)
TransferEff(S, from, to, amt, d) ==
  IF amt < 0 THEN Fail(S)
  ELSE IF ~S.ex[from] THEN Fail(S)                             \* query sender balance error
  ELSE IF \E t \in LT : S.bal[from] - S.lk[from][t] < amt THEN Fail(S)   \* sender's insufficient balance
  ELSE LET mint == "KF_SelfTransferMints" \in d
           reset == "KF_TransferResetsReceiverLocks" \in d
           \* the sender's record is written first, the receiver's record (computed from the balance
           \* read BEFORE the sender's write) second
           S1 == [S EXCEPT !.bal[from] = @ - amt]
           rbal == IF from = to /\ mint THEN S.bal[to] + amt ELSE S1.bal[to] + amt
       IN Ok([S1 EXCEPT !.ex[to] = TRUE, !.bal[to] = rbal,
                        !.lk[to] = IF reset THEN ZeroLk ELSE @])

(* Propose: timer task at stop, Lock(initiator, "1000", ordinary), lock record, proposal *)
ProposeEff(S, by, stop, trig, pct, tok, d) ==
  IF pct > 100 \/ pct < 51 THEN Fail(S)                        \* checkVoteThread
  ELSE IF trig # 0 /\ ~(trig > stop) THEN Fail(S)              \* trigger_height must be bigger than stop_vote_height
  ELSE LET id == S.np + 1
           L == LockOp(S, "$proposal", by, ProposeLock, "ordinary")
       IN IF ~L.ok THEN Fail(S)
          ELSE Ok([L.s EXCEPT !.np = id,
                              !.rec[id][by] = ProposeLock,
                              !.prop[id] = [st |-> "voting", votes |-> 0, by |-> by, stop |-> stop,
                                            trig |-> trig, pct |-> pct, tok |-> tok]])

VoteEff(S, by, p, amt, d) ==
  IF amt < 0 THEN Fail(S)
  ELSE IF p > S.np THEN Fail(S)                                \* no proposal found
  ELSE IF S.prop[p].st # "voting" THEN Fail(S)
  ELSE LET L == LockOp(S, "$proposal", by, amt, "ordinary") IN
       IF ~L.ok THEN Fail(S)
       ELSE Ok([L.s EXCEPT !.rec[p][by] = @ + amt, !.prop[p].votes = @ + amt])

ThawEff(S, by, p, d) ==
  IF p > S.np THEN Fail(S)
  ELSE LET P == S.prop[p] IN
       IF P.by # by THEN Fail(S)                               \* no authority to thaw
       ELSE IF P.votes > 0 THEN Fail(S)                        \* some one has voted
       ELSE IF P.st # "voting" THEN Fail(S)
       ELSE LET U == UnLockOp([S EXCEPT !.prop[p].st = "cancelled"], "$proposal", by, S.rec[p][by], "ordinary")
            IN IF U.ok THEN Ok(U.s) ELSE Fail(S)

(* $tdpos kernel contract.  checkArgs: the snapshot height passed by the client (the current tip) must be  *)
(* above the consensus start height 0, so nothing works before the first block.  Every method locks /    *)
(* unlocks FIRST and validates against its election records afterwards; a failed validation fails the    *)
(* whole call (nothing is committed).                                                                     *)
(* runNominateCandidate (candidate = initiator) *)
TNomEff(S, by, amt, d) ==
  IF S.h = 0 THEN Fail(S)
  ELSE IF amt <= 0 THEN Fail(S)
  ELSE LET L == LockOp(S, "$tdpos", by, amt, "tdpos") IN
       IF ~L.ok THEN Fail(S)
       ELSE IF S.nom[by] # 0 THEN Fail(S)                      \* The candidate had been nominate.
       ELSE Ok([L.s EXCEPT !.nom[by] = amt])

(* runRevokeCandidate (candidate = initiator): UnLock of the nomination ballot, record deleted *)
TRevNomEff(S, by, d) ==
  IF S.h = 0 THEN Fail(S)
  ELSE IF S.nom[by] = 0 THEN Fail(S)                           \* No valid candidate key when revoke.
  ELSE LET U == UnLockOp(S, "$tdpos", by, S.nom[by], "tdpos") IN
       IF ~U.ok THEN Fail(S) ELSE Ok([U.s EXCEPT !.nom[by] = 0])

(* runVote *)
TVoteEff(S, by, cand, amt, d) ==
  IF S.h = 0 THEN Fail(S)
  ELSE IF amt <= 0 THEN Fail(S)
  ELSE LET L == LockOp(S, "$tdpos", by, amt, "tdpos") IN
       IF ~L.ok THEN Fail(S)
       ELSE IF S.nom[cand] = 0 THEN Fail(S)                    \* Addr in vote candidate hasn't been nominated.
       ELSE Ok([L.s EXCEPT !.tv[cand][by] = IF @ = -1 THEN amt ELSE @ + amt])

(* runRevokeVote: UnLock first, then the ballot check (no check that the candidate is still nominated) *)
TRevokeEff(S, by, cand, amt, d) ==
  IF S.h = 0 THEN Fail(S)
  ELSE IF amt <= 0 THEN Fail(S)
  ELSE LET U == UnLockOp(S, "$tdpos", by, amt, "tdpos") IN
       IF ~U.ok THEN Fail(S)
       ELSE IF S.tv[cand][by] = -1 THEN Fail(S)                \* no vote record / no entry of the voter
       ELSE IF S.tv[cand][by] < amt THEN Fail(S)               \* Your vote amount is less than have.
       ELSE Ok([U.s EXCEPT !.tv[cand][by] = @ - amt])

-----------------------------------------------------------------------------
(* Step scaffolding.  Eff(d) = [ok, s] under deviation set d.  A successful call is mined; a     *)
(* refused call leaves the state as it was.  A deviation set is used only if no proper subset    *)
(* gives the same result (so IDEAL and ACTUAL successors never duplicate).                        *)
Out(E, d) == IF E.ok THEN [res |-> "ok", s |-> Mine(E.s, d)] ELSE [res |-> "fail", s |-> st]

Fire(ev, Eff(_)) ==
  \E d \in SUBSET KFs :
    LET R == Out(Eff(d), d) IN
    /\ \A d2 \in (SUBSET d) \ {d} : Out(Eff(d2), d2) # R
    /\ st' = [R.s EXCEPT !.tch = {}]
    /\ hist' = Append(hist, ev @@ [res |-> R.res, kf |-> d, tch |-> R.s.tch])

InitTokens(by) ==
  LET Eff(d) == InitEff(st, d) IN Fire([op |-> "init", by |-> by], Eff)

Transfer(by, to, amt) ==
  LET Eff(d) == TransferEff(st, by, to, amt, d) IN
  \/ Fire([op |-> "transfer", by |-> by, to |-> to, amt |-> amt], Eff)
  \* the property does not say whether a transfer to oneself is a no-op or refused: both are IDEAL
  \/ /\ by = to /\ Eff({}).ok
     /\ st' = st
     /\ hist' = Append(hist, [op |-> "transfer", by |-> by, to |-> to, amt |-> amt, res |-> "fail", kf |-> {}, tch |-> {}])

(* Lock / UnLock / CheckVoteResult / Trigger invoked directly by a user transaction: Caller is empty *)
DirectLock(by, acct, amt, lt) ==
  LET Eff(d) == LockOp(st, "", acct, amt, lt) IN
  Fire([op |-> "lock", by |-> by, acct |-> acct, amt |-> amt, lt |-> lt], Eff)
DirectUnLock(by, acct, amt, lt) ==
  LET Eff(d) == UnLockOp(st, "", acct, amt, lt) IN
  Fire([op |-> "unlock", by |-> by, acct |-> acct, amt |-> amt, lt |-> lt], Eff)
DirectCheck(by, p) ==        \* "caller no authority to CheckVoteResult" (only $timer_task)
  LET Eff(d) == Fail(st) IN Fire([op |-> "check", by |-> by, pid |-> p], Eff)
DirectTrigger(by, p) ==
  LET Eff(d) == Fail(st) IN Fire([op |-> "trigger", by |-> by, pid |-> p], Eff)

Propose(by, stop, trig, pct, tok) ==
  LET Eff(d) == ProposeEff(st, by, stop, trig, pct, tok, d) IN
  Fire([op |-> "propose", by |-> by, stop |-> stop, trig |-> trig, pct |-> pct, tok |-> tok], Eff)

Vote(by, p, amt) ==
  LET Eff(d) == VoteEff(st, by, p, amt, d) IN Fire([op |-> "vote", by |-> by, pid |-> p, amt |-> amt], Eff)
Thaw(by, p) ==
  LET Eff(d) == ThawEff(st, by, p, d) IN Fire([op |-> "thaw", by |-> by, pid |-> p], Eff)
TNom(by, amt) ==
  LET Eff(d) == TNomEff(st, by, amt, d) IN Fire([op |-> "tnom", by |-> by, amt |-> amt], Eff)
TRevNom(by) ==
  LET Eff(d) == TRevNomEff(st, by, d) IN Fire([op |-> "trevnom", by |-> by], Eff)
TVote(by, cand, amt) ==
  LET Eff(d) == TVoteEff(st, by, cand, amt, d) IN Fire([op |-> "tvote", by |-> by, cand |-> cand, amt |-> amt], Eff)
TRevoke(by, cand, amt) ==
  LET Eff(d) == TRevokeEff(st, by, cand, amt, d) IN Fire([op |-> "trevoke", by |-> by, cand |-> cand, amt |-> amt], Eff)
Tick ==                      \* an empty block: only the timer transaction
  LET Eff(d) == Ok(st) IN Fire([op |-> "tick", by |-> "a"], Eff)

TrigOf(stop, td) == IF td = 0 THEN 0 ELSE stop + td

Next ==
  /\ Len(hist) < MaxOps /\ st.h < MaxH
  /\ \/ \E by \in Acc : InitTokens(by)
     \/ \E by \in Acc, to \in Acc, amt \in Amounts : Transfer(by, to, amt)
     \/ \E by \in Acc, acct \in Acc, lt \in LT : DirectLock(by, acct, DirectAmt, lt) \/ DirectUnLock(by, acct, DirectAmt, lt)
     \/ \E p \in PIds : DirectCheck("a", p) \/ DirectTrigger("a", p)
     \/ /\ st.np < MaxProps                                   \* bound: at most MaxProps proposals
        /\ \E by \in Acc, sd \in StopDeltas, td \in TrigDeltas, pct \in Pcts, tok \in Toks :
               Propose(by, st.h + sd, TrigOf(st.h + sd, td), pct, tok)
     \/ \E by \in Acc, p \in PIds, amt \in Amounts : Vote(by, p, amt)
     \/ \E by \in Acc, p \in PIds : Thaw(by, p)
     \/ \E by \in Acc, amt \in TAmounts : TNom(by, amt)
     \/ \E by \in Acc : TRevNom(by)
     \/ \E by \in Acc, cand \in Cands, amt \in TAmounts : TVote(by, cand, amt) \/ TRevoke(by, cand, amt)
     \/ Tick

Spec == Init /\ [][Next]_vars

-----------------------------------------------------------------------------
(* The observable projection: $govern_token.TotalSupply / Query per account, GovManager.           *)
(* GetGovTokenBalance (gb), $proposal.Query per proposal id, ledger height.                         *)
Obs == [h  |-> st.h,
        ts |-> st.supply,
        acc |-> [i \in 1..Len(AccSeq) |-> LET a == AccSeq[i] IN
                   [ex |-> st.ex[a], bal |-> st.bal[a], lo |-> st.lk[a]["ordinary"], lt |-> st.lk[a]["tdpos"],
                    gb |-> IF st.ex[a] THEN st.bal[a] ELSE -1]],
        props |-> [p \in PIds |-> IF p <= st.np
                     THEN [ex |-> TRUE, st |-> st.prop[p].st, votes |-> st.prop[p].votes, by |-> st.prop[p].by]
                     ELSE [ex |-> FALSE, st |-> "", votes |-> 0, by |-> ""]]]

-----------------------------------------------------------------------------
(* Property C19 (asserted on IDEAL) *)
RECURSIVE SumBal(_)
SumBal(i) == IF i = 0 THEN 0 ELSE st.bal[AccSeq[i]] + SumBal(i - 1)
(* the sum of all balances equals the total supply fixed at initialisation *)
Conservation == /\ st.inited => (SumBal(Len(AccSeq)) = st.supply /\ st.supply = InitBal["a"] + InitBal["b"])
                /\ ~st.inited => (SumBal(Len(AccSeq)) = 0 /\ st.supply = -1)
(* locks bind: no balance is below any of its locked amounts; nothing is negative *)
LocksBind   == \A a \in Acc, t \in LT : st.lk[a][t] <= st.bal[a]
NonNegative == \A a \in Acc : st.bal[a] >= 0 /\ \A t \in LT : st.lk[a][t] >= 0
(* lock accounting: what is locked is exactly what unfinished proposals / tdpos nominations and ballots hold *)
Active(p) == p <= st.np /\ st.prop[p].st \in {"voting", "passed"}
RECURSIVE SumRec(_, _)
SumRec(a, p) == IF p = 0 THEN 0 ELSE (IF Active(p) THEN st.rec[p][a] ELSE 0) + SumRec(a, p - 1)
RECURSIVE SumTv(_, _)
SumTv(a, i) == IF i = 0 THEN 0 ELSE (IF st.tv[AccSeq[i]][a] > 0 THEN st.tv[AccSeq[i]][a] ELSE 0) + SumTv(a, i - 1)
LockAccounting == \A a \in Acc : /\ st.lk[a]["ordinary"] = SumRec(a, MaxProps)
                                  /\ st.lk[a]["tdpos"] = st.nom[a] + SumTv(a, Len(AccSeq))
NoRecordsWithoutAccount == \A a \in Acc : ~st.ex[a] => (st.bal[a] = 0 /\ st.lk[a] = ZeroLk)
TypeOK == st.np \in 0..MaxProps /\ st.tch = {}

Last == hist'[Len(hist')]
Stepped == Len(hist') = Len(hist) + 1
(* an account's locked amounts change only in steps that ran Lock / UnLock on that account *)
LocksOnlyByLockUnlock == [][Stepped => \A a \in Acc : st'.lk[a] # st.lk[a] => a \in Last.tch]_vars
(* Lock / UnLock run only below $proposal / $tdpos calls (and the timer's proposal callbacks); a   *)
(* direct call is refused and changes nothing *)
CallerRestriction == [][Stepped =>
      (Last.op \in {"lock", "unlock", "check", "trigger"} => (Last.res = "fail" /\ st' = st))]_vars
(* no successful Transfer leaves the sender's balance below any of its locked amounts, and a refused *)
(* call changes nothing *)
TransferRespectsLocks == [][Stepped =>
      /\ (Last.op = "transfer" /\ Last.res = "ok") => \A t \in LT : st'.bal[Last.by] >= st'.lk[Last.by][t]
      /\ Last.res = "fail" => st' = st]_vars

(* Every successful call is mined, so st.h counts the successful calls of the behaviour; refused calls
   leave st unchanged (self-loops under this view).  MC with MaxH = n therefore covers all call sequences
   with at most n successful calls and any number of refused calls in between. *)
View == st
=============================================================================
