SPECIFICATION GenSpec
CONSTANTS
  NP = 1
  MaxOps = 70
  Pace = TRUE
  MaxLevel = 1000000
  NVoters = 3
  NR = 4
  Live = {1, 2, 3, 4}
  Byz = 0
  MaxProps = 9
  MaxView = 1000
  AnyProposer = TRUE
  WithConfirm = TRUE
  WithRollback = TRUE
  OncePerHigh = FALSE
  MaxLag = 1000
  LogOn = TRUE
  GenMode = "wide"
  KF_OrphanFirstMatchOnly = FALSE
  KF_StaleMarkers = FALSE
  KF_VoteWindow = FALSE
  KF_LockWindow = FALSE
  KF_ImplicitCollector = FALSE
CONSTRAINT Dump
CHECK_DEADLOCK FALSE
