SPECIFICATION Spec
CONSTANTS
  MaxBlocks = 4
  MaxTxPerBlock = 2
  MaxOps = 100000
  Window = 0
  BlockBudget = 1000
  ActiveTxs = {"t1", "t2", "t4", "t6"}
  KF_FrozenLedgerHeight = FALSE
  KF_PlayKeepsStaleReader = FALSE
  KF_PoolOrderAntiDep = FALSE
  KF_PoolMasksBlockOrder = FALSE
INVARIANTS TypeOK PureFn Conservation NoDoubleSpend PoolValid
VIEW View
CHECK_DEADLOCK FALSE
