SPECIFICATION TSpec
CONSTANTS
  MaxBlocks = 16
  NTx = 3
  MaxTxPerBlock = 2
  MaxOps = 100000
CONSTRAINT Book
POSTCONDITION Post
CHECK_DEADLOCK FALSE
