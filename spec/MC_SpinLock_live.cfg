\* IDEAL lock protocol, liveness: under weak fairness every request returns (no state constraint, no VIEW:
\* the schedule is not recorded). Deadlock check on.
SPECIFICATION FairSpec
CONSTANTS
  KF_SharedLockRefCountRace = FALSE
  Sizes = {2, 3}
  KvPool <- KvPoolSmall
  TokPool <- TokPoolSmall
  MixPool <- MixPoolSmall
  Extra <- NoExtra
  GFirst = TRUE
  SelDet = FALSE
  RecSteps = TRUE
  LogOn = FALSE
PROPERTY Termination
CHECK_DEADLOCK TRUE
