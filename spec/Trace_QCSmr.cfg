SPECIFICATION TSpec
CONSTANTS
  NP = 1
  MaxOps = 100000000
  Pace = TRUE
  MaxLevel = 1000000
  NVoters = 3
  KF_OrphanFirstMatchOnly = FALSE
  KF_StaleMarkers = FALSE
CONSTRAINT Book
POSTCONDITION Post
CHECK_DEADLOCK FALSE
