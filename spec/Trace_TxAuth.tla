--------------------------- MODULE Trace_TxAuth ---------------------------
(* Trace validation: every ndjson line recorded from the real code (harness/cmd/c07) is one independent   *)
(* question; the answer must be what IDEAL allows, or what this instantiation (the KF_* constants set to  *)
(* TRUE) allows - then the deviations that explain it are recorded in dev.                                *)
(*   case  : abstract transaction t concretised on the fixture chain, res = class of State.VerifyTx,      *)
(*           sub = class of the engine entry Chain.SubmitTx ("-": not asked)                              *)
(*   mut   : accepted base t, field mutation m applied to the real protobuf, res / sub likewise           *)
(*   blk   : the transaction (t, or t changed by m) inside a peer block at a node whose pool is empty /   *)
(*           holds t, applied via State.Walk / State.PlayAndRepost: res and the contents fl the state      *)
(*           afterwards is consistent with (entry, pooled, nothing); same: the entry claims the pooled    *)
(*           transaction's id; samec: it is the pooled transaction (real protobufs equal up to block id   *)
(*           and reception time); mh: where the entry refers to a marked transaction, the block's height   *)
(*           is above / at / below the effective height of the mark - the judgement is by content and does   *)
(*           not depend on it                                                                               *)
(*   fixture : the access-control rules read back from the fixture chain                      (binding)   *)
(*   cb    : a peer block whose coinbase transaction carries rider r is confirmed and played               *)
(*   pair  : two structures a # b of one encoder section, concretised with position-assigned values:     *)
(*           deq / ideq = the real signing digests / ids are equal                                        *)
(*   shift : one byte moved across the boundary of two adjacent variable-length fields                    *)
(*   tok   : token types of the real v1/v2 pre-image of a whole-transaction structure   (binding)         *)
(*   ref   : the pre-image the v3 grammar describes hashes to the real digest / id       (binding)         *)
(* inex counts case lines whose answer is allowed but differs from the transcription VerifyCode.          *)
EXTENDS TxAuth, Json
VARIABLES l, div, dev, inex
Trace == ndJsonDeserialize("trace.ndjson")
NoDiv == [at |-> 0]
tvars == <<vars, l, div, dev, inex>>

TInit == Init /\ l = 1 /\ div = NoDiv /\ dev = {} /\ inex = 0 /\ TLCSet(1, 1) /\ TLCSet(2, NoDiv) /\ TLCSet(3, {}) /\ TLCSet(4, 0)

R(ok, d, exp, act) == [ok |-> ok, dev |-> d, exp |-> exp, act |-> act]
SubOK(S, sb) == sb = "-" \/ sb \in {IF v = "soft" THEN "ok" ELSE v : v \in S}
RuleOf(a) == [a |-> a, kind |-> RuleKind(a), acc |-> IF RuleKind(a) = "thr" THEN Accept(a) ELSE 0,
              w |-> [i \in DOMAIN KeySeq |-> Weight(a, KeySeq[i])]]
Explain(ev) ==
  CASE ev.op = "case" ->
         LET ok(K) == ev.res \in AllowedK(K, ev.t) /\ SubOK(AllowedK(K, ev.t), ev.sub)
             i == ok(K0)
             a == ok(KC) IN
         R(i \/ a, IF i THEN {} ELSE {KFName[g] : g \in {h \in Flags : KC[h] /\ ok(Only(h))}}, SetToSeq(AllowedK(KC, ev.t)), <<ev.res, ev.sub>>)
    [] ev.op = "mut" ->
         IF ~ev.applied THEN R(TRUE, {}, "-", "-")
         ELSE LET ok(K) == ev.res \in MutAllowedK(K, ev.t, ev.m) /\ SubOK(MutAllowedK(K, ev.t, ev.m), ev.sub)
                  i == ok(K0)
                  a == ok(KC) IN
              R(i \/ a, IF i THEN {} ELSE {KFName[g] : g \in {h \in Flags : KC[h] /\ ok(Only(h))}}, SetToSeq(MutAllowedK(KC, ev.t, ev.m)), <<ev.res, ev.sub>>)
    [] ev.op = "blk" ->
         LET fl == Rng(ev.fl) IN
         IF ~ev.applied THEN R(TRUE, {}, "-", "-")
         ELSE IF ev.pooled = "refused" THEN R(~Honest(ev.t), {}, "the honest transaction is admitted to the pool", "refused by Chain.SubmitTx")
         ELSE LET i == BlkAllowedK(K0, ev.t, ev.m, ev.pool, ev.via, ev.same, ev.samec, ev.res, fl)
                  a == BlkAllowedK(KC, ev.t, ev.m, ev.pool, ev.via, ev.same, ev.samec, ev.res, fl) IN
              R(i \/ a, IF i THEN {} ELSE DevBlk(KC, ev.t, ev.m, ev.pool, ev.via, ev.same, ev.samec, ev.res, fl),
                [res |-> SetToSeq(BlkVerdicts(KC, ev.t, ev.m)), rule |-> "ok: the entry's content in effect; rej: not"], [res |-> ev.res, fl |-> ev.fl])
    [] ev.op = "fixture" ->
         R(/\ {r.a : r \in Rng(ev.rules)} = {x \in Accts : HasRule(x)}
           /\ \A r \in Rng(ev.rules) : [a |-> r.a, kind |-> r.kind, acc |-> r.acc, w |-> r.w] = RuleOf(r.a) /\ {Rng(ks) : ks \in Rng(r.sets)} = KeySets(r.a)
           /\ ev.norule = <<"G">>,
           {}, "the rules of spec/TxAuth.tla", "other rules on the fixture chain")
    [] ev.op = "cb" ->
         R(ev.res \in {CoinbaseVerdict(K0, ev.r), CoinbaseVerdict(KC, ev.r)},
           IF ev.res = CoinbaseVerdict(K0, ev.r) THEN {} ELSE {KFName.cb}, CoinbaseVerdict(KC, ev.r), ev.res)
    [] ev.op = "pair" ->
         LET sec == SecByName(KA, ev.v, ev.sec)
             same(K) == SecToks(K, ev.v, sec, ev.a) = SecToks(K, ev.v, sec, ev.b)
             eq == IF sec.signs THEN ev.ideq ELSE ev.deq
             cons == sec.signs \/ ev.deq = ev.ideq
             i == cons /\ ~eq
             a == cons /\ (eq => same(KC)) IN
         R(i \/ a, IF i THEN {} ELSE {KFName.omit}, IF same(KC) THEN "equal-or-distinct" ELSE "distinct", IF eq THEN "equal" ELSE "distinct")
    [] ev.op = "shift" ->
         LET sec == SecByName(KA, ev.v, ev.sec)
             eq == IF sec.signs THEN ev.ideq ELSE (ev.deq \/ ev.ideq) IN
         R(~eq, {}, "distinct", IF eq THEN "equal" ELSE "distinct")
    [] ev.op = "tok" -> R(ev.toks = TxToks(KA, ev.v, ev.signs, ev.st), {}, TxToks(KA, ev.v, ev.signs, ev.st), ev.toks)
    [] ev.op = "ref" -> R(ev.eq, {}, "equal", IF ev.eq THEN "equal" ELSE "different")

TStep ==
  /\ l <= Len(Trace) /\ div = NoDiv
  /\ LET ev == Trace[l]
         x == Explain(ev) IN
     /\ dev' = dev \cup x.dev
     /\ div' = IF x.ok THEN NoDiv ELSE [at |-> l, op |-> ev.op, exp |-> x.exp, act |-> x.act]
     /\ inex' = IF ev.op = "case" /\ x.ok /\ ev.res # VerifyCode(KC, ev.t) THEN inex + 1 ELSE inex
  /\ l' = l + 1
  /\ UNCHANGED vars
TSpec == TInit /\ [][TStep]_tvars

Book ==
  /\ (div = NoDiv /\ l > TLCGet(1)) => (TLCSet(1, l) /\ TLCSet(3, dev) /\ TLCSet(4, inex))
  /\ (div # NoDiv /\ (TLCGet(2) = NoDiv \/ TLCGet(2).at < div.at)) => TLCSet(2, div)
Post == JsonSerialize("result.json", <<[hw |-> TLCGet(1), len |-> Len(Trace), div |-> TLCGet(2), dev |-> SetToSeq(TLCGet(3)), inexact |-> TLCGet(4)]>>)
=============================================================================
