SPECIFICATION Spec
CONSTANTS
  KF_IntermediateAKCounts = FALSE
  MaxSigners = 2
  NestedChoices = 2
  WithNegative = FALSE
  MaxOps = 100
INVARIANTS Soundness
VIEW View
CHECK_DEADLOCK FALSE
