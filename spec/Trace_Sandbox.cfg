SPECIFICATION TSpec
CONSTANTS
  N1 = 3
  N2 = 1
  NT = 1
  Vals = {"p", "q"}
  Limits = {0, 1, 2, 9}
  NU = 1000
  MaxOps = 100000
  KeepHist = FALSE
  EdgeBounds = TRUE
  KF_ScanYieldsOwnDelete = FALSE
  KF_ScanYieldsReadMissingKey = FALSE
  KF_ScanInvertedRangePanics = FALSE
  KF_ScanOpenEndSkipsBacking = FALSE
CONSTRAINT Book
POSTCONDITION Post
CHECK_DEADLOCK FALSE
