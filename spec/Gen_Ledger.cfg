SPECIFICATION Spec
CONSTANTS
  MaxBlocks = 8
  NTx = 3
  MaxTxPerBlock = 2
  MaxOps = 14
CONSTRAINT Dump
CHECK_DEADLOCK FALSE
