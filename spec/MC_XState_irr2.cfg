SPECIFICATION Spec
CONSTANTS
  MaxBlocks = 6
  MaxTxPerBlock = 1
  MaxOps = 100000
  Window = 2
  BlockBudget = 1000
  ActiveTxs = {"t1"}
  KF_FrozenLedgerHeight = FALSE
  KF_PlayKeepsStaleReader = FALSE
  KF_PoolOrderAntiDep = FALSE
  KF_PoolMasksBlockOrder = FALSE
INVARIANTS TypeOK PureFn Conservation IrrDef
PROPERTIES IrrMonotone IrrKept
VIEW ViewIrr
CHECK_DEADLOCK FALSE
