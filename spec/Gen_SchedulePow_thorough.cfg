SPECIFICATION GenSpec
CONSTANTS
  Modes = {"btc", "legacy", "compact"}
  Gaps = {2, 3}
  ExtraLen = 3
  Seed = 1
  NRand = 200
  KeepHist = TRUE
  KF_PowGrandparentBits = FALSE
  Sides = {}
CONSTRAINT Dump
VIEW View
CHECK_DEADLOCK FALSE
