SPECIFICATION Spec
CONSTANTS
  Clients = {1, 2, 3}
  MaxOps = 40
CONSTRAINT Dump
CHECK_DEADLOCK FALSE
