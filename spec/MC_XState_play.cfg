SPECIFICATION Spec
CONSTANTS
  MaxBlocks = 4
  MaxTxPerBlock = 2
  MaxOps = 100000
  Window = 0
  BlockBudget = 1000
  ActiveTxs = {"p1", "p2", "p3", "p5", "p12", "x1", "t1"}
  KF_FrozenLedgerHeight = FALSE
  KF_PlayKeepsStaleReader = FALSE
  KF_PoolOrderAntiDep = FALSE
  KF_PoolMasksBlockOrder = FALSE
INVARIANTS TypeOK NoDoubleSpend PoolValid PlayRuleExact
VIEW View
CHECK_DEADLOCK FALSE
