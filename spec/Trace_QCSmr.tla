----------------------------- MODULE Trace_QCSmr -----------------------------
(* Trace validation for C15 at the Smr level: the recorded trace of the real Smr handlers (real signed  *)
(* messages) drives the actions of QCSmr.  Same comparison rules as Trace_QCTree.                       *)
EXTENDS QCSmr, Json
VARIABLES l, div, dev
Trace == ndJsonDeserialize("trace.ndjson")
NoDiv == [at |-> 0]
tvars == <<svars, l, div, dev>>

TInit == /\ InitWith(Trace[1].par) /\ lp = {0} /\ ledger = 0 /\ lastVote = 0 /\ pref = 0
         /\ votes = [p \in DOMAIN Trace[1].par |-> {}]
         /\ l = 1 /\ div = NoDiv /\ dev = {} /\ TLCSet(1, 1) /\ TLCSet(2, NoDiv) /\ TLCSet(3, {})

InitVal(k) == IF k = "commit" THEN 0 ELSE Nil
Match(o, a, w) ==
  /\ o.root = a.root /\ o.high = a.high /\ o.tree = a.tree /\ o.oroots = a.oroots /\ o.otree = a.otree
  /\ o.cnt = a.cnt /\ o.pview = a.pview
  /\ \A k \in {"generic", "locked", "commit"} : IF k \in w THEN o[k] = a[k] ELSE a[k] \in {Nil, InitVal(k)}
SMatch(o, a, w) == Match(o.t, a.t, w) /\ o.known = a.known /\ o.ledger = a.ledger /\ o.nvotes = a.nvotes

Act(ev) ==
  CASE ev.op = "tree"     -> SResetTo(ev.par)
    [] ev.op = "confirm"  -> Confirm(ev.p)
    [] ev.op = "propose"  -> Propose(ev.p, ev.cf)
    [] ev.op = "vote"     -> Vote(ev.p, ev.m)
    [] ev.op = "justify"  -> Justify(ev.p)
    [] ev.op = "rollback" -> Rollback(ev.p)

(* deviations exercised: the step's successor differs observably from the one the IDEAL mutators give.
   Computed by comparing the two instantiations of the tree mutators the step uses. *)
MarksDiffer(a, b) == \E k \in {"generic", "locked", "commit"} \cap a.w : a[k] # b[k]
InsertBase(ev) == IF ev.op = "propose" /\ ev.cf THEN CommitF(St, Par(ev.p)) ELSE St
Used(ev) ==
  (IF KF_OrphanFirstMatchOnly /\ ev.op \in {"confirm", "propose"} /\
      ObsOf(InsertF(InsertBase(ev), ev.p, TRUE, KF_StaleMarkers), 0) # ObsOf(InsertF(InsertBase(ev), ev.p, FALSE, KF_StaleMarkers), 0)
   THEN {"KF_OrphanFirstMatchOnly"} ELSE {})
  \cup
  (IF KF_StaleMarkers /\
      \/ ev.op \in {"confirm", "propose"} /\ MarksDiffer(InsertF(InsertBase(ev), ev.p, KF_OrphanFirstMatchOnly, TRUE),
                                                        InsertF(InsertBase(ev), ev.p, KF_OrphanFirstMatchOnly, FALSE))
      \/ ev.op \in {"vote", "justify"} /\ MarksDiffer(CertifyF(St, ev.p, TRUE), CertifyF(St, ev.p, FALSE))
   THEN {"KF_StaleMarkers"} ELSE {})

TStep ==
  /\ l <= Len(Trace) /\ div = NoDiv
  /\ LET ev == Trace[l] IN
     /\ Act(ev)
     /\ dev' = dev \cup Used(ev)
     /\ div' = LET r == hist'[Len(hist')].res IN
              IF r = ev.res /\ SMatch(SObs', ev.obs, wr') THEN NoDiv
              ELSE [at |-> l, tr |-> ev.tr, op |-> ev.op, expres |-> r, actres |-> ev.res, exp |-> SObs', act |-> ev.obs]
  /\ l' = l + 1
TSpec == TInit /\ [][TStep]_tvars

Book ==
  /\ (div = NoDiv /\ l > TLCGet(1)) => TLCSet(1, l)
  /\ (div # NoDiv /\ (TLCGet(2) = NoDiv \/ TLCGet(2).at < div.at)) => TLCSet(2, div)
  /\ TLCSet(3, TLCGet(3) \cup dev)
Post == JsonSerialize("result.json", <<[hw |-> TLCGet(1), len |-> Len(Trace), div |-> TLCGet(2), dev |-> SetToSeq(TLCGet(3))]>>)
=============================================================================
