------------------------------ MODULE Gen_Acl ------------------------------
(* Case generation: TLC writes the universe of Acl (per slice: target, signer URI table, every rule  *)
(* environment, number of signer multisets) as one JSON file; the Go driver evaluates every           *)
(* (environment, multiset) pair on the real code in the canonical order of Acl!Enum.                  *)
EXTENDS Acl, Json
GInit == sl = 1 /\ e = 1 /\ sg = <<>> /\ hist = <<>>
GSpec == GInit /\ [][UNCHANGED vars]_vars
Universe == [s \in DOMAIN Slices |->
               [op |-> "slice", sl |-> s, name |-> Slices[s].name, tgt |-> Slices[s].tgt, uris |-> Slices[s].uris,
                envs |-> Slices[s].envs, nms |-> Len(MultisetsOf[s]), max |-> MaxSigners]]
Dump == JsonSerialize("out/b_0.json", Universe) /\ FALSE
=============================================================================
