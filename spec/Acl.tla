-------------------------------- MODULE Acl --------------------------------
(***************************************************************************)
(* C11 - access-control evaluation (kernel/permission/acl).                *)
(*                                                                         *)
(* Two definitions of "the signer URIs satisfy the rule of a target        *)
(* (account or contract method)":                                          *)
(*                                                                         *)
(*   Eval  the code's algorithm, transcribed step by step:                 *)
(*         ptree.buildPermTree (one node per distinct name below a parent, *)
(*         FindChild = per-node de-duplication), ptree.GetPermTreeList     *)
(*         (BFS), utils.validatePermTree (reverse BFS = leaves first, the  *)
(*         Status field of every node), rule.ThresholdValidator and        *)
(*         rule.AKSetsValidator exactly as written.                        *)
(*   Sat   the semantic definition of the property statement: the distinct *)
(*         verified signers that are members reach the threshold, or some  *)
(*         listed key set is wholly contained in them; a member account    *)
(*         counts iff the signers acting through it satisfy its own rule.  *)
(*                                                                         *)
(* A signer URI is a path n1/n2/.../nk.  Only the LAST component is a      *)
(* verified signer (State.verifySignatures / IdentifyAK verify exactly     *)
(* that address); every other component is a name the sender wrote.        *)
(*                                                                         *)
(* IDEAL vs ACTUAL.  KF_IntermediateAKCounts = FALSE is the design in      *)
(* which the property holds: a key counts only where it terminates a URI.  *)
(* KF_IntermediateAKCounts = TRUE describes what the code does instead: a  *)
(* key node of the permission tree is given Status = Success no matter     *)
(* whether it is the end of a URI, so the key K1 of "A/K1/K2" counts for   *)
(* A although only K2 signed.  EvalEqSat holds in both instantiations, so  *)
(* the deviation is characterised exactly; Soundness (Eval of the code =   *)
(* IDEAL Sat) is what the code violates (MC_Acl_find.cfg).                 *)
(*                                                                         *)
(* Weights are integers standing for halves: 0,1,2,4 = 0, 1/2, 1, 2 and    *)
(* accept values 1,2,4,6 = 1/2, 1, 2, 3 (exact in float64).                *)
(*                                                                         *)
(* R6 choice: a name of account form that has no rule on the chain is      *)
(* "open" (the code: "empty ACL means everyone could pass"); the property  *)
(* statement is silent about it, so Sat follows the code's documented      *)
(* reading: such a member is held by whoever signs through it.             *)
(***************************************************************************)
EXTENDS Integers, Sequences, FiniteSets, TLC

CONSTANTS KF_IntermediateAKCounts,  \* BOOLEAN: ACTUAL deviation (see above)
          MaxSigners,               \* signer URI multisets of size 0..MaxSigners
          NestedChoices,            \* how many rules of the nested accounts are combined with every root rule
          WithNegative,             \* BOOLEAN: add a slice of threshold rules with a negative weight (no monotonicity claim)
          MaxOps                    \* bound on hist (generation)

VARIABLES sl,      \* slice of the universe (index into Slices)
          e,       \* rule environment (index into Slices[sl].envs): the rules in force on the chain
          sg,      \* signer URIs presented (AuthRequire): indices into Slices[sl].uris, non-decreasing
          hist     \* [op, args, res] per step (hidden by VIEW)
vars == <<sl, e, sg, hist>>

-----------------------------------------------------------------------------
(* Names.  Keys K1..K3 (addresses), accounts A1..A3 (may have a rule), AX (account form, never has a *)
(* rule: "unknown account"), M (the contract method whose rule is evaluated by CheckContractMethodPerm). *)
KeyNames  == {"K1", "K2", "K3"}
AcctNames == {"A1", "A2", "A3", "AX"}
IsAcct(n) == n \in AcctNames           \* utils.IsAccount(name) = 1
IsKey(n)  == n \in KeyNames            \* utils.IsAccount(name) = 0

Range(s) == {s[i] : i \in DOMAIN s}
Pow(b, k) == IF k = 0 THEN 1 ELSE IF k = 1 THEN b ELSE IF k = 2 THEN b * b ELSE IF k = 3 THEN b * b * b ELSE b * b * b * b
Digit(c, base, pos) == (c \div Pow(base, pos)) % base
IdxOf(seq, x) == CHOOSE i \in DOMAIN seq : seq[i] = x
RECURSIVE SumOver(_, _)
SumOver(f, S) == IF S = {} THEN 0 ELSE LET x == CHOOSE y \in S : TRUE IN f[x] + SumOver(f, S \ {x})

-----------------------------------------------------------------------------
(* Rules.  [kind |-> "N"] no rule stored; [kind |-> "T", acc, w] threshold; [kind |-> "S", sets] key sets. *)
NoRule == [kind |-> "N"]
TRule(acc, w) == [kind |-> "T", acc |-> acc, w |-> w]
SRule(sets) == [kind |-> "S", sets |-> sets]

Weights == <<0, 1, 2, 4>>
WeightsNeg == <<-1, 1, 2>>
Accepts == <<1, 2, 4, 6>>

(* all threshold rules over the member list mem, numbered 0 .. |W|^n * |A| - 1 *)
NumT(mem, W) == Pow(Len(W), Len(mem)) * Len(Accepts)
ThresholdRule(mem, W, c) ==
  TRule(Accepts[(c \div Pow(Len(W), Len(mem))) + 1],
        [m \in Range(mem) |-> W[Digit(c, Len(W), IdxOf(mem, m) - 1) + 1]])
(* the sub-list of mem selected by the bits of c *)
SubOf(mem, c) == LET pick == {i \in DOMAIN mem : Digit(c, 2, i - 1) = 1}
                     RECURSIVE Take(_)
                     Take(i) == IF i > Len(mem) THEN <<>> ELSE (IF i \in pick THEN <<mem[i]>> ELSE <<>>) \o Take(i + 1)
                 IN Take(1)
(* all key-set rules with at most two sets (each any subset of mem, the empty one included) *)
SetLists(mem) == LET n == Pow(2, Len(mem)) IN
  <<<<>>>> \o [c \in 1..n |-> <<SubOf(mem, c - 1)>>]
           \o LET RECURSIVE Pairs(_, _)
                  Pairs(c, d) == IF c >= n THEN <<>>
                                 ELSE IF d >= n THEN Pairs(c + 1, c + 2)
                                 ELSE <<<<SubOf(mem, c), SubOf(mem, d)>>>> \o Pairs(c, d + 1)
              IN Pairs(0, 1)
AllRules(mem, W) ==
  [c \in 1..NumT(mem, W) |-> ThresholdRule(mem, W, c - 1)]
    \o [i \in 1..Len(SetLists(mem)) |-> SRule(SetLists(mem)[i])]
    \o <<NoRule>>

-----------------------------------------------------------------------------
(* The universe: slices, each with a target, a table of signer URIs and a list of rule environments. *)
Env(a1, a2, a3, m) == [A1 |-> a1, A2 |-> a2, A3 |-> a3, M |-> m]
AnyKey == TRule(2, [k \in KeyNames |-> 2])          \* every key alone satisfies it
(* rules given to a nested account (members are keys; nesting depth 2) *)
NestedRules == << TRule(2, [k \in {"K1", "K2"} |-> 1]),          \* K1 and K2 together
                  NoRule,                                        \* named by the root rule but never created
                  SRule(<< <<"K1">>, <<"K2", "K3">> >>),         \* K1, or K2 with K3
                  TRule(2, [k \in {"K1", "K2"} |-> 2]),          \* K1 or K2
                  SRule(<< <<"K1", "K2">> >>),
                  TRule(4, [k \in KeyNames |-> IF k = "K3" THEN 4 ELSE 1]) >>
NC == IF NestedChoices > Len(NestedRules) THEN Len(NestedRules) ELSE NestedChoices

FlatMembers   == <<"K1", "K2", "K3">>
NestedMembers == <<"K1", "A2", "A3">>
MethodMembers == <<"K1", "K2", "A2">>

FlatUris == << <<"K1">>,                                   \* plain key: not addressed to the account
               <<"A1", "K1">>, <<"A1", "K2">>, <<"A1", "K3">>,   \* well-formed
               <<"A2", "K1">>, <<"A2", "K2">>,             \* member keys listed under another account
               <<"AX", "K1">>,                             \* unknown account
               <<"A2", "A1", "K1">>,                       \* the target as an inner component
               <<"A1", "K1", "K2">>, <<"A1", "K2", "K1">>, <<"A1", "K2", "K3">>, <<"A1", "K3", "K3">> >>  \* key as intermediate component
NestedUris == << <<"A1", "K1">>, <<"A1", "K2">>,
                 <<"A1", "A2", "K1">>, <<"A1", "A2", "K2">>,    \* through another account
                 <<"A1", "A3", "K1">>, <<"A1", "A3", "K3">>,
                 <<"A2", "K1">>,                                \* signer of the other account only
                 <<"A1", "AX", "K2">>,                          \* through an unknown account
                 <<"A1", "A2", "K1", "K2">> >>                  \* key as intermediate component below a nested account
MethodUris == << <<"K1">>, <<"K2">>, <<"K3">>,
                 <<"A2", "K1">>, <<"A2", "K2">>,
                 <<"AX", "K1">>,
                 <<"K1", "K2">>,                                \* key as intermediate component
                 <<"A2", "K1", "K2">> >>

FlatEnvs == LET R == AllRules(FlatMembers, Weights) IN
  [i \in 1..Len(R) |-> Env(R[i], AnyKey, NoRule, NoRule)]
(* "arbitrary weights": all threshold rules over the keys with weights from {-1/2, 1/2, 1} *)
NegEnvs == [c \in 1..NumT(FlatMembers, WeightsNeg) |-> Env(ThresholdRule(FlatMembers, WeightsNeg, c - 1), AnyKey, NoRule, NoRule)]
NestedEnvs == LET R == AllRules(NestedMembers, Weights) IN
  [i \in 1..(Len(R) * NC) |->
     LET r == ((i - 1) \div NC) + 1
         c == ((i - 1) % NC) + 1
     IN Env(R[r], NestedRules[c], NestedRules[((c + r) % NC) + 1], NoRule)]
MethodEnvs == LET R == AllRules(MethodMembers, Weights) IN
  [i \in 1..(Len(R) * NC) |->
     LET r == ((i - 1) \div NC) + 1
         c == ((i - 1) % NC) + 1
     IN Env(AnyKey, NestedRules[c], NoRule, R[r])]

Slices == << [name |-> "flat",   tgt |-> "A1", uris |-> FlatUris,   envs |-> FlatEnvs],
             [name |-> "nested", tgt |-> "A1", uris |-> NestedUris, envs |-> NestedEnvs],
             [name |-> "method", tgt |-> "M",  uris |-> MethodUris, envs |-> MethodEnvs] >>
          \o (IF WithNegative THEN << [name |-> "negative", tgt |-> "A1", uris |-> FlatUris, envs |-> NegEnvs] >> ELSE << >>)

EnvOf(s, i) == Slices[s].envs[i]
Paths(s, idx) == [k \in DOMAIN idx |-> Slices[s].uris[idx[k]]]
RuleOf(env, n) == IF n \in DOMAIN env THEN env[n] ELSE NoRule     \* AclManager.GetAccountACL / GetContractMethodACL

-----------------------------------------------------------------------------
(* (1) Eval: the code.                                                      *)
(* A tree is a sequence of nodes [name, acl, kids (node ids in insertion order), term]; node 1 is the root.  *)
(* term is a ghost flag (the node ends some URI, i.e. its signature was verified); the code has no such     *)
(* field, which is the defect: kf = TRUE ignores it.                                                        *)
NewPermNode(nm, acl) == [name |-> nm, acl |-> acl, kids |-> <<>>, term |-> FALSE]

(* PermNode.FindChild: first child with that name, 0 if none *)
FindChild(tree, p, nm) ==
  LET hits == SelectSeq(tree[p].kids, LAMBDA c : tree[c].name = nm) IN IF hits = <<>> THEN 0 ELSE hits[1]

(* the inner loop of buildPermTree over aklist[currentIdx..] *)
RECURSIVE InsertPath(_, _, _, _, _)
InsertPath(env, tree, p, path, i) ==
  IF i > Len(path) THEN [tree EXCEPT ![p].term = TRUE]
  ELSE LET c == FindChild(tree, p, path[i]) IN
       IF c # 0 THEN InsertPath(env, tree, c, path, i + 1)
       ELSE LET n == Len(tree) + 1
                t2 == Append([tree EXCEPT ![p].kids = Append(@, n)], NewPermNode(path[i], RuleOf(env, path[i])))
            IN InsertPath(env, t2, n, path, i + 1)

(* the outer loop of buildPermTree *)
RECURSIVE BuildFrom(_, _, _, _, _)
BuildFrom(env, tree, uris, k, rootIsAccount) ==
  IF k > Len(uris) THEN tree
  ELSE LET u == uris[k] IN
       IF rootIsAccount /\ (Len(u) < 2 \/ u[1] # tree[1].name)
       THEN BuildFrom(env, tree, uris, k + 1, rootIsAccount)          \* "continue"
       ELSE BuildFrom(env, InsertPath(env, tree, 1, u, IF rootIsAccount THEN 2 ELSE 1), uris, k + 1, rootIsAccount)

BuildPermTree(env, tgt, uris) ==       \* BuildAccountPermTree / BuildMethodPermTree
  BuildFrom(env, <<NewPermNode(tgt, RuleOf(env, tgt))>>, uris, 1, IsAcct(tgt))

(* GetPermTreeList: BFS *)
RECURSIVE Bfs(_, _, _)
Bfs(tree, nlist, pn) == IF pn > Len(nlist) THEN nlist ELSE Bfs(tree, nlist \o tree[nlist[pn]].kids, pn + 1)
PermTreeList(tree) == Bfs(tree, <<1>>, 1)

(* ThresholdValidator.Validate: sum over the children whose Status is Success *)
RECURSIVE WeightSum(_, _, _, _)
WeightSum(tree, st, nd, k) ==
  IF k > Len(tree[nd].kids) THEN 0
  ELSE LET c == tree[nd].kids[k]
           w == tree[nd].acl.w
       IN (IF st[c] # "Success" THEN 0                               \* "continue"
           ELSE IF tree[c].name \in DOMAIN w THEN w[tree[c].name] ELSE 0)   \* findWeightInACL
          + WeightSum(tree, st, nd, k + 1)
ThresholdValidate(tree, st, nd) == WeightSum(tree, st, nd, 1) >= tree[nd].acl.acc

(* AKSetsValidator.Validate / validateAkSet / findAkInNodeList *)
ValidateAkSet(tree, st, nd, set) ==
  IF Len(set) = 0 \/ Len(tree[nd].kids) = 0 THEN FALSE
  ELSE \A j \in DOMAIN set :
         LET c == FindChild(tree, nd, set[j]) IN c # 0 /\ st[c] = "Success"
AKSetsValidate(tree, st, nd) ==
  LET sets == tree[nd].acl.sets IN
  IF Len(sets) = 0 THEN FALSE ELSE \E i \in DOMAIN sets : ValidateAkSet(tree, st, nd, sets[i])

(* validatePermTree: for i := listlen-1 .. 0 *)
RECURSIVE ValidateFrom(_, _, _, _, _, _)
ValidateFrom(kf, tree, plist, i, st, isAccount) ==
  IF i = 0 THEN st
  ELSE LET nd == plist[i]
           nameCheck == IF i = 1 /\ ~isAccount THEN 1 ELSE IF IsAcct(tree[nd].name) THEN 1 ELSE 0
           checkResult ==
             IF nameCheck = 0 THEN (kf \/ tree[nd].term)     \* code: "signature should be validated before" => true
             ELSE IF tree[nd].acl.kind = "N" THEN TRUE        \* "empty ACL means everyone could pass"
             ELSE IF tree[nd].acl.kind = "T" THEN ThresholdValidate(tree, st, nd)
             ELSE AKSetsValidate(tree, st, nd)
       IN ValidateFrom(kf, tree, plist, i - 1, [st EXCEPT ![nd] = IF checkResult THEN "Success" ELSE "Failed"], isAccount)

(* the statuses after validation and the weight the root's threshold validator summed *)
Run(kf, env, tgt, uris) ==
  LET tree == BuildPermTree(env, tgt, uris)
      plist == PermTreeList(tree)
      st == ValidateFrom(kf, tree, plist, Len(plist), [n \in DOMAIN tree |-> "NotVerified"], IsAcct(tgt))
  IN [ok |-> st[1] = "Success", sum |-> IF tree[1].acl.kind = "T" THEN WeightSum(tree, st, 1, 1) ELSE 0]

(* IdentifyAccount(tgt, uris) for an account, CheckContractMethodPerm for the method *)
Eval(kf, env, tgt, uris) == Run(kf, env, tgt, uris).ok
(* the weight the root's threshold validator summed (once-only counting) *)
EvalRootSum(kf, env, tgt, uris) == Run(kf, env, tgt, uris).sum

-----------------------------------------------------------------------------
(* (2) Sat: the property statement.  P is a SET of paths (who signed, acting for whom).              *)
PathsVia(P, b) == {Tail(p) : p \in {q \in P : Len(q) >= 2 /\ q[1] = b}}
RECURSIVE SatRule(_, _, _, _), Holders(_, _, _)
(* the names the verified signers of P hold: a key that signed directly; an account whose own rule is *)
(* satisfied by the signers acting through it.  (ACTUAL: also a key merely named on the way.)         *)
Holders(kf, env, P) ==
  {p[1] : p \in {q \in P : IsKey(q[1]) /\ (Len(q) = 1 \/ kf)}}
    \cup {b \in {p[1] : p \in {q \in P : Len(q) >= 2 /\ IsAcct(q[1])}} : SatRule(kf, env, RuleOf(env, b), PathsVia(P, b))}
SatSum(kf, env, r, P) == SumOver(r.w, Holders(kf, env, P) \cap DOMAIN r.w)
SatRule(kf, env, r, P) ==
  CASE r.kind = "N" -> TRUE
    [] r.kind = "T" -> SatSum(kf, env, r, P) >= r.acc
    [] r.kind = "S" -> \E i \in DOMAIN r.sets : r.sets[i] # <<>> /\ Range(r.sets[i]) \subseteq Holders(kf, env, P)
Addressed(tgt, uris) == IF IsAcct(tgt) THEN PathsVia(Range(uris), tgt) ELSE Range(uris)
Sat(kf, env, tgt, uris) == SatRule(kf, env, RuleOf(env, tgt), Addressed(tgt, uris))

-----------------------------------------------------------------------------
(* State machine: the rules in force are installed, then signer URIs are presented one by one.       *)
Tgt == Slices[sl].tgt
CurEnv == EnvOf(sl, e)
CurUris == Paths(sl, sg)
Verdict == Sat(KF_IntermediateAKCounts, CurEnv, Tgt, CurUris)
Obs == [v |-> Verdict]
Cls(b) == IF b THEN "accept" ELSE "reject"

Init == /\ sl \in DOMAIN Slices
        /\ e \in DOMAIN Slices[sl].envs
        /\ sg = <<>>
        /\ hist = <<[op |-> "install", sl |-> sl, e |-> e, res |-> Cls(Sat(KF_IntermediateAKCounts, EnvOf(sl, e), Slices[sl].tgt, <<>>))]>>
(* SetAccountAcl / SetMethodAcl of all rules of an environment, confirmed *)
Install(s, i) == /\ sl' = s /\ e' = i /\ sg' = <<>>
                 /\ hist' = <<[op |-> "install", sl |-> s, e |-> i, res |-> Cls(Sat(KF_IntermediateAKCounts, EnvOf(s, i), Slices[s].tgt, <<>>))]>>
Reset == \E s \in DOMAIN Slices : \E i \in DOMAIN Slices[s].envs : Install(s, i)
(* one more AuthRequire entry (canonical order: the evaluation must not depend on the order, see OrderFree) *)
AddSigner(u) == /\ Len(sg) < MaxSigners /\ Len(hist) < MaxOps
                /\ u \in DOMAIN Slices[sl].uris
                /\ (IF sg = <<>> THEN TRUE ELSE u >= sg[Len(sg)])
                /\ sg' = Append(sg, u)
                /\ UNCHANGED <<sl, e>>
                /\ hist' = Append(hist, [op |-> "sign", u |-> u,
                                         res |-> Cls(Sat(KF_IntermediateAKCounts, CurEnv, Tgt, Paths(sl, Append(sg, u))))])
Next == \E u \in DOMAIN Slices[sl].uris : AddSigner(u)
Spec == Init /\ [][Next]_vars
View == <<sl, e, sg>>

-----------------------------------------------------------------------------
(* Invariants *)
TypeOK == /\ sl \in DOMAIN Slices /\ e \in DOMAIN Slices[sl].envs
          /\ Len(sg) <= MaxSigners /\ \A k \in DOMAIN sg : sg[k] \in DOMAIN Slices[sl].uris

(* the algorithm computes the semantic definition (in IDEAL and in ACTUAL) *)
EvalEqSat == Eval(KF_IntermediateAKCounts, CurEnv, Tgt, CurUris) = Sat(KF_IntermediateAKCounts, CurEnv, Tgt, CurUris)

NonNeg(r) == r.kind = "T" => \A m \in DOMAIN r.w : r.w[m] >= 0
RemoveAt(s, i) == SubSeq(s, 1, i - 1) \o SubSeq(s, i + 1, Len(s))
(* adding a signer never turns acceptance into rejection (non-negative weights).  Stated on Sat; as every   *)
(* sub-multiset is itself a state on which EvalEqSat is checked, the same follows for the algorithm.       *)
Monotone == (\A n \in DOMAIN CurEnv : NonNeg(CurEnv[n])) =>
  \A i \in DOMAIN sg : Sat(KF_IntermediateAKCounts, CurEnv, Tgt, Paths(sl, RemoveAt(sg, i))) => Verdict

Reverse(s) == [i \in DOMAIN s |-> s[Len(s) + 1 - i]]
(* each signer counts once: repeating every entry changes nothing, the order is irrelevant, and the  *)
(* weight the root validator adds up is the sum over the DISTINCT members held                       *)
OnceOnly == LET r == Run(KF_IntermediateAKCounts, CurEnv, Tgt, CurUris) IN
            /\ Eval(KF_IntermediateAKCounts, CurEnv, Tgt, CurUris \o CurUris) = r.ok
            /\ Eval(KF_IntermediateAKCounts, CurEnv, Tgt, Reverse(CurUris)) = r.ok
            /\ RuleOf(CurEnv, Tgt).kind = "T" =>
                 r.sum = SatSum(KF_IntermediateAKCounts, CurEnv, RuleOf(CurEnv, Tgt), Addressed(Tgt, CurUris))

(* what the code violates: its algorithm against the IDEAL semantics (MC_Acl_find.cfg) *)
Soundness == Eval(TRUE, CurEnv, Tgt, CurUris) = Sat(FALSE, CurEnv, Tgt, CurUris)
(* the deviation is exactly "a key named as a non-final component": without such URIs ACTUAL = IDEAL *)
NoInnerKey(uris) == \A k \in DOMAIN uris : \A j \in 1..(Len(uris[k]) - 1) : ~IsKey(uris[k][j])
DeviationExact == NoInnerKey(CurUris) => (Sat(TRUE, CurEnv, Tgt, CurUris) = Sat(FALSE, CurEnv, Tgt, CurUris))

-----------------------------------------------------------------------------
(* Case table: all signer multisets of a slice in the canonical order (depth-first, prefix before its *)
(* extensions, next entry >= last entry); the Go driver enumerates in the same order.                 *)
RECURSIVE Enum(_, _, _), EnumFrom(_, _, _, _)
EnumFrom(prefix, u, n, max) == IF u > n THEN <<>> ELSE Enum(Append(prefix, u), n, max) \o EnumFrom(prefix, u + 1, n, max)
Enum(prefix, n, max) == <<prefix>> \o (IF Len(prefix) = max THEN <<>>
                                        ELSE EnumFrom(prefix, IF prefix = <<>> THEN 1 ELSE prefix[Len(prefix)], n, max))
MultisetsOf == [s \in DOMAIN Slices |-> Enum(<<>>, Len(Slices[s].uris), MaxSigners)]
(* the verdict column of one (slice, environment) *)
Column(kf, s, i) == LET ms == MultisetsOf[s] IN
  [k \in DOMAIN ms |-> IF Sat(kf, EnvOf(s, i), Slices[s].tgt, Paths(s, ms[k])) THEN 1 ELSE 0]
=============================================================================
