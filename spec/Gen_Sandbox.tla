----------------------------- MODULE Gen_Sandbox -----------------------------
(* Behaviour generation: simulate Sandbox (a backing state, then MaxOps calls) and dump each        *)
(* behaviour's history as JSON: hist[1] = the backing state and the utxo pool, hist[2..] = the      *)
(* calls.                                                                                           *)
(* TLC's simulator first draws one of the syntactic sub-actions of the next-state relation, so the  *)
(* transfers (one sub-action in Sandbox!Step) are rare among the key/value calls.  TW > 0 adds TW    *)
(* further transfer sub-actions, each with one randomly drawn (sender, recipient, amount) -          *)
(* RandomElement is deterministic under -seed and keeps the number of successors built per step      *)
(* small: transfer-heavy programs with several failing and succeeding transfers of all senders in    *)
(* one execution.  Two of three draws take a holding sender, every other one a small amount, so that *)
(* successes are not drowned by failures (the unknown sender, zero and too large amounts stay in).   *)
EXTENDS Sandbox, Json
CONSTANT TW
GenNext == \/ Next
           \/ \E w \in 1..TW :
                 LET f   == RandomElement(IF w % 3 = 0 THEN Froms ELSE {"a", "b"})
                     to  == RandomElement(Tos)
                     amt == RandomElement(IF w % 2 = 0 THEN 1..2 ELSE 0..MaxAmt(NU))
                 IN NU > 0 /\ Transfer(f, to, amt, InOrderSel, FALSE)
GenSpec == Init /\ [][GenNext]_vars
Dump == nops < MaxOps \/ (JsonSerialize("out/b_" \o ToString(TLCGet("stats").traces) \o ".json", hist) /\ FALSE)
=============================================================================
