----------------------------- MODULE Gen_Sandbox -----------------------------
(* Behaviour generation: simulate Sandbox (a backing state, then MaxOps calls) and dump each        *)
(* behaviour's history as JSON: hist[1] = the backing state, hist[2..] = the calls.                 *)
EXTENDS Sandbox, Json
Dump == nops < MaxOps \/ (JsonSerialize("out/b_" \o ToString(TLCGet("stats").traces) \o ".json", hist) /\ FALSE)
=============================================================================
