SPECIFICATION GenSpec
CONSTANTS
  NP = 10
  MaxOps = 45
  Pace = TRUE
  MaxLevel = 1000000
  NVoters = 3
  KF_OrphanFirstMatchOnly = FALSE
  KF_StaleMarkers = FALSE
CONSTRAINT Dump
CHECK_DEADLOCK FALSE
