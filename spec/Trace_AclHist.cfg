SPECIFICATION TSpec
CONSTANTS
  KF_IntermediateAKCounts = FALSE
  KF_UnconfirmedAccountOpen = FALSE
  MaxOps = 100000
CONSTRAINT Book
POSTCONDITION Post
CHECK_DEADLOCK FALSE
