SPECIFICATION DispSpec
CONSTANTS
  NP = 3
  MaxCalls = 2
  NFull = 2
  MaxOps = 100000
  LogOn = FALSE
  U = "mc2"
  KF_DispatchReadsTableUnlocked = FALSE
  KF_EmptyPayloadUndecodable = FALSE
  KF_KeyConcatAmbiguous = FALSE
INVARIANTS TypeOK MutualExclusion NoTableAccessWithoutLock ExactDelivery RepeatDropped
VIEW View
