SPECIFICATION CodecSpec
CONSTANTS
  NP = 1
  MaxCalls = 0
  NFull = 4
  MaxOps = 100000
  LogOn = FALSE
  U = "mc2"
  KF_DispatchReadsTableUnlocked = FALSE
  KF_EmptyPayloadUndecodable = FALSE
  KF_KeyConcatAmbiguous = FALSE
INVARIANTS RoundTrip CorruptionDetected
POSTCONDITION DumpCodec
VIEW View
CHECK_DEADLOCK FALSE
