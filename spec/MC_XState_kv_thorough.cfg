SPECIFICATION Spec
CONSTANTS
  MaxBlocks = 5
  MaxTxPerBlock = 2
  MaxOps = 100000
  Window = 0
  BlockBudget = 1000
  ActiveTxs = {"p1", "p2", "p3", "p4", "p6", "p7"}
  KF_FrozenLedgerHeight = FALSE
  KF_PlayKeepsStaleReader = FALSE
  KF_PoolOrderAntiDep = FALSE
  KF_PoolMasksBlockOrder = FALSE
INVARIANTS TypeOK PureFn Conservation NoDoubleSpend PoolValid SnapshotOK
VIEW View
CHECK_DEADLOCK FALSE
