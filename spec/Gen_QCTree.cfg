SPECIFICATION GenSpec
CONSTANTS
  NP = 12
  MaxOps = 40
  Pace = TRUE
  KF_OrphanFirstMatchOnly = FALSE
  KF_StaleMarkers = FALSE
CONSTRAINT Dump
CHECK_DEADLOCK FALSE
