--------------------------- MODULE Trace_GovToken ---------------------------
(* Trace validation: the ndjson trace recorded from the real kernel contracts drives the actions  *)
(* of GovToken; after every call the recorded result class and the answers of the public queries  *)
(* must equal the specification's.  With KF_* constants TRUE the named deviations are additional  *)
(* successors; the deviations used on the accepted path are collected in dev.                     *)
EXTENDS GovToken, Json
VARIABLES l, div, dev
Trace == ndJsonDeserialize("trace.ndjson")
NoDiv == [at |-> 0]
tvars == <<vars, l, div, dev>>

TInit == Init /\ l = 1 /\ div = NoDiv /\ dev = {} /\ TLCSet(1, 1) /\ TLCSet(2, NoDiv) /\ TLCSet(3, {})

Act(ev) ==
  CASE ev.op = "reset"    -> Reset
    [] ev.op = "init"     -> InitTokens(ev.by)
    [] ev.op = "transfer" -> Transfer(ev.by, ev.to, ev.amt)
    [] ev.op = "lock"     -> DirectLock(ev.by, ev.acct, ev.amt, ev.lt)
    [] ev.op = "unlock"   -> DirectUnLock(ev.by, ev.acct, ev.amt, ev.lt)
    [] ev.op = "check"    -> DirectCheck(ev.by, ev.pid)
    [] ev.op = "trigger"  -> DirectTrigger(ev.by, ev.pid)
    [] ev.op = "propose"  -> Propose(ev.by, ev.stop, ev.trig, ev.pct, ev.tok)
    [] ev.op = "vote"     -> Vote(ev.by, ev.pid, ev.amt)
    [] ev.op = "thaw"     -> Thaw(ev.by, ev.pid)
    [] ev.op = "tnom"     -> TNom(ev.by, ev.amt)
    [] ev.op = "trevnom"  -> TRevNom(ev.by)
    [] ev.op = "tvote"    -> TVote(ev.by, ev.cand, ev.amt)
    [] ev.op = "trevoke"  -> TRevoke(ev.by, ev.cand, ev.amt)
    [] ev.op = "tick"     -> Tick

TStep ==
  /\ l <= Len(Trace) /\ div = NoDiv
  /\ LET ev == Trace[l] IN
     /\ Act(ev)
     /\ dev' = IF ev.op = "reset" THEN dev ELSE dev \cup hist'[Len(hist')].kf
     /\ div' = IF ev.op = "reset" THEN NoDiv
               ELSE LET r == hist'[Len(hist')].res IN
                    IF r = ev.res /\ Obs' = ev.obs THEN NoDiv
                    ELSE [at |-> l, tr |-> ev.tr, op |-> ev.op, expres |-> r, actres |-> ev.res, exp |-> Obs', act |-> ev.obs]
  /\ l' = l + 1
TSpec == TInit /\ [][TStep]_tvars

(* bookkeeping in TLC registers (needs -workers 1): 1 = highest line index reached without
   divergence, 2 = divergence with the longest explained prefix, 3 = deviations used on that path *)
Book ==
  /\ (div = NoDiv /\ l > TLCGet(1)) => (TLCSet(1, l) /\ TLCSet(3, dev))
  /\ (div # NoDiv /\ (TLCGet(2) = NoDiv \/ TLCGet(2).at < div.at)) => TLCSet(2, div)
Post == JsonSerialize("result.json", <<[hw |-> TLCGet(1), len |-> Len(Trace), div |-> TLCGet(2), dev |-> TLCGet(3)]>>)
=============================================================================
