---------------------------- MODULE Trace_Ledger ----------------------------
(* Trace validation: the recorded ndjson trace of the real ledger drives the actions of Ledger;  *)
(* after every step the recorded result class and projection must equal the specification's.     *)
EXTENDS Ledger, Json
VARIABLES l, div
Trace == ndJsonDeserialize("trace.ndjson")
NoDiv == [at |-> 0]
tvars == <<vars, l, div>>

TInit == Init /\ l = 1 /\ div = NoDiv /\ TLCSet(1, 1) /\ TLCSet(2, NoDiv)

Act(ev) ==
  CASE "fault" \in DOMAIN ev        -> (Unchanged /\ Log([op |-> ev.op, res |-> "fail"]))   \* the operation's storage write failed: no trace
    [] ev.op = "reset"             -> Reset
    [] ev.op = "confirm"           -> Confirm(ev.p, ev.txs)
    [] ev.op = "confirm_dup"       -> ConfirmDuplicate(ev.b)
    [] ev.op = "confirm_badparent" -> ConfirmBadParent
    [] ev.op = "confirm_twocb"     -> ConfirmTwoCoinbase(ev.p)
    [] ev.op = "confirm_removed"   -> ConfirmOnRemoved(ev.p)
    [] ev.op = "truncate"          -> Truncate(ev.t)
    [] ev.op = "restart"           -> Restart

(* C06: a ledger reopened on the image after any prefix of the operation's storage writes answers either like the
   ledger before the operation (projected over the blocks known then) or like the ledger after it: every ledger
   operation is atomic with respect to crashes *)
CutsOK(ev) == ~("cuts" \in DOMAIN ev) \/ \A i \in DOMAIN ev.cuts : ev.cuts[i].pre = Obs \/ ev.cuts[i].post = Obs'
BadCut(ev) == LET i == CHOOSE i \in DOMAIN ev.cuts : ~(ev.cuts[i].pre = Obs \/ ev.cuts[i].post = Obs') IN ev.cuts[i].post
TStep ==
  /\ l <= Len(Trace) /\ div = NoDiv
  /\ LET ev == Trace[l] IN
     /\ Act(ev)
     /\ div' = IF ev.op = "reset" THEN NoDiv
               ELSE LET r == hist'[Len(hist')].res IN
                    IF r = ev.res /\ Obs' = ev.obs /\ CutsOK(ev) /\ ("robs" \in DOMAIN ev => ev.robs = Obs') THEN NoDiv
                    ELSE [at |-> l, tr |-> ev.tr, op |-> ev.op, expres |-> r, actres |-> ev.res, exp |-> Obs',
                          act |-> IF r = ev.res /\ Obs' = ev.obs /\ ~CutsOK(ev) THEN BadCut(ev)
                                  ELSE IF r = ev.res /\ Obs' = ev.obs THEN ev.robs ELSE ev.obs]
  /\ l' = l + 1
TSpec == TInit /\ [][TStep]_tvars

(* bookkeeping in TLC registers (needs -workers 1): 1 = highest line index reached without
   divergence, 2 = divergence with the longest explained prefix *)
Book ==
  /\ (div = NoDiv /\ l > TLCGet(1)) => TLCSet(1, l)
  /\ (div # NoDiv /\ (TLCGet(2) = NoDiv \/ TLCGet(2).at < div.at)) => TLCSet(2, div)
Post == JsonSerialize("result.json", <<[hw |-> TLCGet(1), len |-> Len(Trace), div |-> TLCGet(2)]>>)
=============================================================================
