SPECIFICATION Spec
CONSTANTS
  KF_IntermediateAKCounts = FALSE
  KF_UnconfirmedAccountOpen = FALSE
  MaxOps = 9
INVARIANTS TypeOK ChangesAuthorised NoDisappear
PROPERTIES ConfirmedFromPool
VIEW View
CHECK_DEADLOCK FALSE
