SPECIFICATION Spec
CONSTANTS
  KF_IntermediateAKCounts = FALSE
  KF_UnconfirmedAccountOpen = FALSE
  MaxOps = 1000
INVARIANTS TypeOK ChangesAuthorised NoDisappear
PROPERTIES ConfirmedFromPool
VIEW View
CHECK_DEADLOCK FALSE
