---------------------------- MODULE Trace_QCTree ----------------------------
(* Trace validation for C15: the recorded ndjson trace of the real QCPendingTree drives the mutators of   *)
(* QCTree; after every step the recorded result class and projection must equal the specification's.     *)
(* generic / locked / commit are compared once the specification has assigned them (the property speaks  *)
(* about them "whenever they are set"); before that the real marker must be unset or at its              *)
(* initialisation value.  With KF_ constants enabled the run records in dev the deviations a step        *)
(* actually exercised (the ACTUAL successor is observably different from the IDEAL one).                 *)
EXTENDS QCTree, Json
VARIABLES l, div, dev
Trace == ndJsonDeserialize("trace.ndjson")
NoDiv == [at |-> 0]
tvars == <<vars, l, div, dev>>

TInit == InitWith(Trace[1].par) /\ l = 1 /\ div = NoDiv /\ dev = {} /\ TLCSet(1, 1) /\ TLCSet(2, NoDiv) /\ TLCSet(3, {})

InitVal(k) == IF k = "commit" THEN 0 ELSE Nil
Match(o, a, w) ==
  /\ o.root = a.root /\ o.high = a.high /\ o.tree = a.tree /\ o.oroots = a.oroots /\ o.otree = a.otree
  /\ o.cnt = a.cnt /\ o.pview = a.pview
  /\ \A k \in {"generic", "locked", "commit"} : IF k \in w THEN o[k] = a[k] ELSE a[k] \in {Nil, InitVal(k)}

Act(ev) ==
  CASE ev.op = "tree"    -> ResetTo(ev.par)
    [] ev.op = "insert"  -> Insert(ev.p)
    [] ev.op = "certify" -> Certify(ev.p)
    [] ev.op = "enforce" -> Enforce(ev.p)
    [] ev.op = "commit"  -> Commit(ev.p)
    [] ev.op = "advance" -> Advance(ev.p)

(* deviations exercised by this step: the successor computed with the deviation is observably different
   from the one computed without it *)
MarksDiffer(a, b) == \E k \in {"generic", "locked", "commit"} \cap a.w : a[k] # b[k]
Used(ev) ==
  (IF KF_OrphanFirstMatchOnly /\ ev.op = "insert" /\
      ObsOf(InsertF(St, ev.p, TRUE, KF_StaleMarkers), 0) # ObsOf(InsertF(St, ev.p, FALSE, KF_StaleMarkers), 0)
   THEN {"KF_OrphanFirstMatchOnly"} ELSE {})
  \cup
  (IF KF_StaleMarkers /\
      \/ ev.op = "insert" /\ MarksDiffer(InsertF(St, ev.p, KF_OrphanFirstMatchOnly, TRUE), InsertF(St, ev.p, KF_OrphanFirstMatchOnly, FALSE))
      \/ ev.op = "certify" /\ MarksDiffer(CertifyF(St, ev.p, TRUE), CertifyF(St, ev.p, FALSE))
   THEN {"KF_StaleMarkers"} ELSE {})

TStep ==
  /\ l <= Len(Trace) /\ div = NoDiv
  /\ LET ev == Trace[l] IN
     /\ Act(ev)
     /\ dev' = dev \cup Used(ev)
     /\ div' = LET r == hist'[Len(hist')].res IN
              IF r = ev.res /\ Match(Obs', ev.obs, wr') THEN NoDiv
              ELSE [at |-> l, tr |-> ev.tr, op |-> ev.op, expres |-> r, actres |-> ev.res, exp |-> Obs', act |-> ev.obs]
  /\ l' = l + 1
TSpec == TInit /\ [][TStep]_tvars

(* bookkeeping in TLC registers (needs -workers 1): 1 = highest line index reached without divergence,
   2 = divergence with the longest explained prefix, 3 = deviations exercised *)
Book ==
  /\ (div = NoDiv /\ l > TLCGet(1)) => TLCSet(1, l)
  /\ (div # NoDiv /\ (TLCGet(2) = NoDiv \/ TLCGet(2).at < div.at)) => TLCSet(2, div)
  /\ TLCSet(3, TLCGet(3) \cup dev)
Post == JsonSerialize("result.json", <<[hw |-> TLCGet(1), len |-> Len(Trace), div |-> TLCGet(2), dev |-> SetToSeq(TLCGet(3))]>>)
=============================================================================
