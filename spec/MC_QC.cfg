SPECIFICATION Spec
CONSTANTS
  MaxN = 4
  Extra = 2
  MaxEntries = 6
  MaxMsgs = 2
  MaxSigs = 2
  MaxOps = 100000000
  Canon = TRUE
  ThrMax = 12
  KF_RepeatedSignerCounts = FALSE
  KF_VoteAcceptsFailedVerify = FALSE
  KF_UnverifiedExtraVoteSigns = FALSE
INVARIANTS TypeOK ProposalOK VoteOK CollectOK StoreClean
VIEW View
CHECK_DEADLOCK FALSE
