---------------------------- MODULE Gen_GovToken ----------------------------
(* Behaviour generation: simulate GovToken and dump each behaviour's op history as JSON.          *)
(* TLC's simulator picks uniformly among the successor states, so the mix of calls is set by the  *)
(* number of argument combinations offered here (same actions as GovToken!Next, fewer redundant   *)
(* argument combinations of Propose and of the always-refused direct calls).  Before Init nearly  *)
(* every call is refused, so the start of a behaviour is biased towards Init.                     *)
EXTENDS GovToken, Json
(* At most MaxProps Propose calls per behaviour, whatever their result: the bound must not depend on the
   generator's (IDEAL) state, which may differ from the real one once a known deviation has occurred. *)
ProposeCalls == Cardinality({i \in DOMAIN hist : hist[i].op = "propose"})
(* proposal ids worth addressing: the existing ones and one that does not exist (yet) *)
KnownP == {p \in PIds : p <= st.np + 1}
GNext ==
  /\ Len(hist) < MaxOps
  /\ IF ~st.inited
     THEN \/ \E by \in Acc : InitTokens(by)
          \/ Transfer("a", "b", 500) \/ TNom("a", 500) \/ Vote("b", 1, 0) \/ Tick
     ELSE \/ InitTokens("c")
          \/ \E by \in Acc, to \in Acc, amt \in Amounts : Transfer(by, to, amt)
          \/ \E by \in Acc, lt \in LT : DirectLock(by, by, DirectAmt, lt) \/ DirectUnLock(by, by, DirectAmt, lt)
          \/ DirectLock("c", "a", DirectAmt, "ordinary") \/ DirectUnLock("b", "a", DirectAmt, "ordinary")
          \/ \E p \in PIds : DirectCheck("a", p) \/ DirectTrigger("b", p)
          \/ /\ ProposeCalls < MaxProps
             /\ \/ \E by \in Acc, sd \in StopDeltas, td \in TrigDeltas, pct \in Pcts :
                      Propose(by, st.h + sd, TrigOf(st.h + sd, td), pct, IF td = 1 THEN "bad" ELSE "ok")
                \/ Propose("a", st.h + 2, 0, 50, "ok")              \* invalid min_vote_percent
                \/ Propose("b", st.h + 2, st.h + 1, 51, "ok")       \* trigger height not above stop height
          \/ \E by \in Acc, p \in KnownP, amt \in Amounts : Vote(by, p, amt)
          \/ \E by \in Acc, p \in KnownP : Thaw(by, p)
          \/ \E by \in Acc, amt \in TAmounts : TNom(by, amt)
          \/ \E by \in Acc : TRevNom(by)
          \/ \E by \in Acc, cand \in Cands, amt \in TAmounts : TVote(by, cand, amt) \/ TRevoke(by, cand, amt)
          \/ Tick
          \* extra weight (the simulator counts duplicate successors) for calls that move a proposal, a nomination
          \* or a ballot forward; the arguments are chosen by looking at the generator's own state, the calls
          \* themselves are ordinary calls of the actions above
          \/ \E k \in 1..6, p \in PIds : p <= st.np /\ st.prop[p].st = "voting" /\ (Vote("a", p, 2500) \/ Vote("b", p, 500) \/ Vote("a", p, 1000))
          \/ \E k \in 1..3, p \in PIds : p <= st.np /\ st.prop[p].st \in {"voting", "passed"} /\ Tick
          \/ \E k \in 1..3, by \in Acc, cand \in Cands : st.nom[cand] > 0 /\ TVote(by, cand, 500)
          \/ \E k \in 1..2, by \in Acc, cand \in Cands : st.tv[cand][by] > 0 /\ TRevoke(by, cand, st.tv[cand][by])
          \/ \E by \in Acc : st.nom[by] > 0 /\ TRevNom(by)
GSpec == Init /\ [][GNext]_vars
Dump == Len(hist) < MaxOps \/ (JsonSerialize("out/b_" \o ToString(TLCGet("stats").traces) \o ".json", hist) /\ FALSE)
=============================================================================
