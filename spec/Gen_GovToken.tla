---------------------------- MODULE Gen_GovToken ----------------------------
(* Behaviour generation: simulate GovToken and dump each behaviour's op history as JSON.          *)
(* Same actions as GovToken!Next.  Enumerating every argument combination of every action at      *)
(* every step (~300 successors) costs ~20 ms per step, so the arguments of each offered call are   *)
(* drawn with TLC's RandomElement (seeded by -seed, reproducible): ~25 successors per step, the    *)
(* mix of calls is set by the number of draws per action.  Some draws are aimed (by looking at the *)
(* generator's own state) at calls that move a proposal, a nomination or a ballot forward; they    *)
(* are ordinary calls of the same actions.  Before Init nearly every call is refused, so the start *)
(* of a behaviour is biased towards Init.                                                          *)
EXTENDS GovToken, Json
R(S) == RandomElement(S)
(* At most MaxProps Propose calls per behaviour, whatever their result: the bound must not depend on the
   generator's (IDEAL) state, which may differ from the real one once a known deviation has occurred. *)
ProposeCalls == Cardinality({i \in DOMAIN hist : hist[i].op = "propose"})
(* proposal ids worth addressing: the existing ones and one that does not exist (yet) *)
KnownP == {p \in PIds : p <= st.np + 1}
Voting == {p \in PIds : p <= st.np /\ st.prop[p].st = "voting"}
Open   == {p \in PIds : p <= st.np /\ st.prop[p].st \in {"voting", "passed"}}
Nominated == {c \in Cands : st.nom[c] > 0}
Ballots == {<<v, c>> \in Acc \X Cands : st.tv[c][v] > 0}
GNext ==
  /\ Len(hist) < MaxOps
  /\ IF ~st.inited
     THEN \/ \E by \in Acc : InitTokens(by)
          \/ Transfer("a", "b", 500) \/ TNom("a", 500) \/ Vote("b", 1, 0) \/ Tick
     ELSE \/ \E k \in 1..5 : Transfer(R(Acc), R(Acc), R(Amounts))
          \/ DirectLock(R(Acc), R(Acc), DirectAmt, R(LT))
          \/ DirectUnLock(R(Acc), R(Acc), DirectAmt, R(LT))
          \/ (IF R(1..2) = 1 THEN DirectCheck(R(Acc), R(PIds)) ELSE DirectTrigger(R(Acc), R(PIds)))
          \/ /\ ProposeCalls < MaxProps
             /\ \/ \E k \in 1..4 : LET sd == R(StopDeltas) td == R(TrigDeltas) IN
                      Propose(R(Acc), st.h + sd, TrigOf(st.h + sd, td), R(Pcts), R(Toks))
                \/ (R(1..8) = 1 /\ Propose("a", st.h + 2, 0, 50, "ok"))              \* invalid min_vote_percent
                \/ (R(1..8) = 1 /\ Propose("b", st.h + 2, st.h + 1, 51, "ok"))       \* trigger height not above stop height
          \/ \E k \in 1..2 : Vote(R(Acc), R(KnownP), R(Amounts))
          \/ Thaw(R(Acc), R(KnownP))
          \/ TNom(R(Acc), R(TAmounts))
          \/ TRevNom(R(Acc))
          \/ \E k \in 1..2 : TVote(R(Acc), R(Cands), R(TAmounts))
          \/ TRevoke(R(Acc), R(Cands), R(TAmounts))
          \/ Tick
          \/ (R(1..6) = 1 /\ InitTokens(R(Acc)))
          \* aimed draws
          \/ (Voting # {} /\ \E k \in 1..6 : Vote(R({"a", "b"}), R(Voting), R({500, 1000, 2500})))
          \/ (Voting # {} /\ R(1..4) = 1 /\ LET p == R(Voting) IN Thaw(st.prop[p].by, p))
          \/ (Open # {} /\ \E k \in 1..3 : Tick)
          \/ (Nominated # {} /\ \E k \in 1..2 : TVote(R(Acc), R(Nominated), R({500, 1000})))
          \/ (Nominated # {} /\ R(1..3) = 1 /\ TRevNom(R(Nominated)))
          \/ (Ballots # {} /\ LET b == R(Ballots) v == st.tv[b[2]][b[1]] IN TRevoke(b[1], b[2], R({500, v, v, v + 500})))
          \/ (Nominated # {} /\ R(1..3) = 1 /\ TNom(R(Nominated), 500))           \* nominated twice
GSpec == Init /\ [][GNext]_vars
Dump == Len(hist) < MaxOps \/ (JsonSerialize("out/b_" \o ToString(TLCGet("stats").traces) \o ".json", hist) /\ FALSE)
=============================================================================
