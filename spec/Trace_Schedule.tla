--------------------------- MODULE Trace_Schedule ---------------------------
(* Trace validation: the ndjson trace recorded from the real plugins drives the actions of         *)
(* Schedule; after every step the recorded schedule triple (normalised) and the recorded result    *)
(* classes of CheckMinerMatch must equal the specification's.  dev collects the known-finding      *)
(* deviations that were needed (only those enabled by the KF_ constants can be used).              *)
EXTENDS Schedule, Json
VARIABLES l, div, dev
Trace == ndJsonDeserialize("trace.ndjson")
NoDiv == [at |-> 0]
tvars == <<vars, l, div, dev>>

TInit == Init /\ l = 1 /\ div = NoDiv /\ dev = {} /\ TLCSet(1, 1) /\ TLCSet(2, NoDiv) /\ TLCSet(3, {})

Act(ev) ==
  CASE ev.op = "reset"  -> Reset
    [] ev.op = "cfg"    -> SetCfg(ev.cfg)
    [] ev.op = "at"     -> At(ev.ts)
    [] ev.op = "single" -> Single(ev.c)

(* the known deviation applicable at the observed instant (at most one), if enabled *)
DevAt(ev) ==
  IF ev.op # "at" THEN {}
  ELSE (IF KF_TdposPreInit /\ cfg.kind = "tdpos" /\ ev.ts < cfg.init THEN {"tdpos-pre-init-slot"} ELSE {})
       \cup (IF KF_XpoaNegativeTs /\ cfg.kind = "xpoa" /\ ev.ts < 0 THEN {"xpoa-negative-timestamp"} ELSE {})
       \cup (IF KF_TdposTermSetOffset /\ cfg.kind = "tdpos" /\ TipH(cfg) > 0 /\ ev.ts >= cfg.init
                 /\ TdposSchedCode(cfg, ev.ts).term = TipTerm(cfg) THEN {"tdpos-term-set-offset"} ELSE {})

Tup2Rec(t) == [term |-> t[1], pos |-> t[2], bp |-> t[3]]
(* expected observation: IDEAL (dv = FALSE) or the ACTUAL alternative (dv = TRUE) *)
Expected(c, ev, dv) == CASE ev.op = "at" -> ObsAtW(c, ev.ts, dv)
                         [] ev.op = "single" -> [res |-> SingleClass(ev.c)]
                         [] OTHER -> [none |-> 0]
Actual(c, ev) == CASE ev.op = "at" -> [sched |-> Norm(c, Tup2Rec(ev.sched), ev.ts),
                                       acc |-> IF Silent(c, ev.ts) THEN [i \in 1..Len(ev.acc) |-> "nc"] ELSE ev.acc]
                   [] ev.op = "single" -> [res |-> ev.res]
                   [] OTHER -> [none |-> 0]

TStep ==
  /\ l <= Len(Trace) /\ div = NoDiv
  /\ LET ev == Trace[l] IN
     /\ Act(ev)
     /\ \E exp \in {Expected(cfg', ev, FALSE)}, act \in {Actual(cfg', ev)} :
          IF act = exp THEN div' = NoDiv /\ dev' = dev
          ELSE \E expA \in {Expected(cfg', ev, TRUE)} :
                 /\ div' = IF act = expA THEN NoDiv
                           ELSE [at |-> l, tr |-> ev.tr, op |-> ev.op, expres |-> "see expected", actres |-> "see actual",
                                 exp |-> exp, act |-> act]
                 /\ dev' = IF act = expA THEN dev \cup DevAt(ev) ELSE dev
  /\ l' = l + 1
TSpec == TInit /\ [][TStep]_tvars

Book ==
  /\ (div = NoDiv /\ l > TLCGet(1)) => (TLCSet(1, l) /\ TLCSet(3, dev))
  /\ (div # NoDiv /\ (TLCGet(2) = NoDiv \/ TLCGet(2).at < div.at)) => TLCSet(2, div)
Post == JsonSerialize("result.json", <<[hw |-> TLCGet(1), len |-> Len(Trace), div |-> TLCGet(2),
                                        dev |-> SetToSeq(TLCGet(3))]>>)
=============================================================================
