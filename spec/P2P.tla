-------------------------------- MODULE P2P --------------------------------
(***************************************************************************)
(* C20 - p2p codec and dispatcher (kernel/network/p2p).                    *)
(*                                                                         *)
(* Part A, codec (message.go): an abstract message is sent (Encode =       *)
(* marshal, optional snappy, checksum over the ENCODED payload), optionally*)
(* corrupted in the encoded payload (single bit / burst <= 32 bits) and    *)
(* received (Decode = verify checksum, decompress, unmarshal).             *)
(* Requirement: Decode(Encode(m)) = m, Decode(Corrupt(Encode(m))) = error. *)
(* The checksum is an uninterpreted injective function of the encoded      *)
(* payload (CRC-32 mathematics assumed, DESIGN section 8); header fields   *)
(* are outside the checksum and outside the property.                      *)
(*                                                                         *)
(* Part B, dispatcher (dispatcher.go, subscriber.go): the subscriber table *)
(* (outer map type -> inner set), the handled-message cache, the RWMutex,  *)
(* and per-goroutine program counters at the granularity of the code's     *)
(* lock / unlock / table access / Match / handler call steps.              *)
(*                                                                         *)
(* IDEAL = all KF_* constants FALSE (the property invariants hold).        *)
(* ACTUAL = IDEAL plus the deviation disjuncts guarded by KF_* constants.  *)
(***************************************************************************)
EXTENDS Integers, Sequences, FiniteSets, TLC, SequencesExt

CONSTANTS
  NP,            \* number of goroutines
  MaxCalls,      \* calls per goroutine (bound of the exhaustive run) ...
  NFull,         \* ... for goroutines 1..NFull; the others make one call
  MaxOps,        \* bound on Len(hist) (behaviour generation)
  LogOn,         \* TRUE: every step is appended to hist (generation); FALSE: hist stays empty
  U,             \* name of the universe of subscribers / messages (see Subs, Msgs below)
  KF_DispatchReadsTableUnlocked,   \* Dispatch looks the type up in the table before taking the lock
  KF_EmptyPayloadUndecodable,      \* an empty payload that crossed the wire (nil bytes) is refused by Decompress
  KF_KeyConcatAmbiguous            \* the handled-cache key concatenates type, bcname, from, logid without separators

VARIABLES
  keys,      \* types that have an entry in the outer map (entries are never removed)
  tab,       \* type -> set of registered subscribers (inner maps)
  handled,   \* handled-message cache (keys); expiry is not modelled: no claim after the window
  wlock,     \* 0 or the goroutine holding mu for writing
  rlock,     \* goroutines holding mu for reading
  pc, cur, res,    \* per goroutine: program counter, current call, result class of the current call
  vis, sp, dl,     \* per dispatching goroutine: subscribers visited by the iteration, handlers spawned, handlers run
  ncall,           \* calls completed per goroutine
  lin, mustDrop, done,   \* ghosts: matching subscribers at the linearisation point; repeat-after-return flag; returned keys
  cd,        \* codec: the message in flight
  dev,       \* deviations (KF names) used by this behaviour
  hist       \* history of steps [p, a, ...] (generation / evidence; hidden by VIEW)

dvars == <<keys, tab, handled, wlock, rlock, pc, cur, res, vis, sp, dl, ncall, lin, mustDrop, done>>
vars  == <<keys, tab, handled, wlock, rlock, pc, cur, res, vis, sp, dl, ncall, lin, mustDrop, done, cd, dev, hist>>

Procs == 1..NP
CallBound(p) == IF p <= NFull THEN MaxCalls ELSE 1
Log(e) == hist' = IF LogOn THEN Append(hist, e) ELSE hist

-----------------------------------------------------------------------------
(* Universes.  A subscriber object is [k, typ, bc, from]: k distinguishes objects with equal      *)
(* attributes, typ 0 = MSG_TYPE_NONE, "" = filter not set.  A message is [typ, bc, from, id]: id   *)
(* abstracts (logid, checksum).  The strings are chosen so that "a" \o "bx" = "ab" \o "x".         *)
S(k, t, b, f) == [k |-> k, typ |-> t, bc |-> b, from |-> f]
M(t, b, f, i) == [typ |-> t, bc |-> b, from |-> f, id |-> i]
AllSubs(ks, ts, bs, fs) == [k : ks, typ : ts, bc : bs \cup {""}, from : fs \cup {""}]
AllMsgs(ts, bs, fs, is) == [typ : ts, bc : bs, from : fs, id : is]
Subs ==
  CASE U = "mc2"   -> {S(1, 1, "", ""), S(1, 1, "a", "x")}
    [] U = "mc3"   -> {S(1, 1, "", ""), S(1, 1, "a", "x"), S(1, 2, "", "y")}
    [] U = "gen"   -> AllSubs({1}, {1, 2}, {"a"}, {"x"}) \cup {S(2, 1, "", ""), S(1, 0, "", ""), S(1, 1, "b", ""), S(1, 2, "", "y")}
    [] U = "gen2"  -> {S(1, 1, "", ""), S(2, 1, "", ""), S(1, 1, "a", ""), S(1, 1, "", "x"), S(1, 1, "b", "y")}
    [] U = "col"   -> {S(1, 1, "", ""), S(1, 1, "ab", ""), S(1, 1, "", "bx")}
    [] U = "small" -> {S(1, 1, "", ""), S(1, 1, "a", ""), S(1, 2, "", "x")}
    [] U = "trace" -> AllSubs({1, 2}, {0, 1, 2}, {"a", "ab", "b"}, {"x", "bx", "y"})
Msgs ==
  CASE U = "mc2"   -> {M(1, "a", "x", 1), M(1, "b", "x", 1)}
    [] U = "mc3"   -> {M(1, "a", "x", 1), M(1, "b", "x", 1), M(2, "a", "y", 1)}
    [] U = "gen"   -> AllMsgs({1, 2}, {"a", "b"}, {"x", "y"}, {1})
    [] U = "gen2"  -> AllMsgs({1}, {"a", "b"}, {"x", "y"}, {1}) \cup {M(1, "a", "x", 2), M(2, "a", "x", 1)}
    [] U = "col"   -> {M(1, "a", "bx", 1), M(1, "ab", "x", 1), M(1, "a", "x", 1)}
    [] U = "small" -> {M(1, "a", "x", 1), M(1, "b", "x", 1), M(2, "a", "x", 1)}
    [] U = "trace" -> AllMsgs({0, 1, 2}, {"a", "ab", "b"}, {"x", "bx", "y"}, {1, 2})
CTypes == 0..25                                       \* codec: all members of XuperMessage.MessageType
COpts  == {"bc", "logid", "ver", "err", "from"}       \* codec: header fields that may be set (from: stamped by the transport)

-----------------------------------------------------------------------------
(*                              Part A: codec                              *)
-----------------------------------------------------------------------------
PClasses == {"empty", "small", "incompressible", "large"}
CKinds   == {"none", "bit", "burst"}            \* corruption of the encoded payload
CTrans   == {"mem", "wire"}                     \* receiver gets the object / the protobuf wire form of it
CMsgs    == [typ : CTypes, opts : SUBSET COpts, comp : BOOLEAN, tr : CTrans, pc : PClasses]

(* NewMessage: marshal; Compress (skipped for a zero-length encoding and by senders that do not    *)
(* compress); checksum over the bytes that travel (Data.MsgInfo AFTER compression).                *)
Body(m)     == [pc |-> m.pc, enc |-> IF m.comp /\ m.pc # "empty" THEN "snappy" ELSE "raw", dmg |-> "none"]
Sum(body)   == body                      \* injective: distinguishes the encoding from every corruption considered
Encode(m)   == [hdr |-> [typ |-> m.typ, opts |-> m.opts], tr |-> m.tr, body |-> Body(m), sum |-> Sum(Body(m))]
Corrupt(e, k) == [e EXCEPT !.body.dmg = k]     \* flips bits of the encoded payload only (header untouched)
Corruptible(m) == m.pc # "empty"               \* a zero-length payload has no bit to flip

(* Unmarshal: VerifyChecksum, Decompress, proto.Unmarshal.  Result classes:                         *)
(*   [c |-> "same", hdr]  decoded payload identical to the one sent;  [c |-> "error"]  refused.      *)
Decode(e, kf) ==
  IF e.sum # Sum(e.body) THEN [c |-> "error", hdr |-> e.hdr]
  ELSE IF kf /\ e.body.pc = "empty" /\ e.tr = "wire" THEN [c |-> "error", hdr |-> e.hdr]   \* KF_EmptyPayloadUndecodable
  ELSE [c |-> "same", hdr |-> e.hdr]
VerifySum(e) == e.sum = Sum(e.body)

Outcome(m, k, kf) == LET e == IF k = "none" THEN Encode(m) ELSE Corrupt(Encode(m), k) IN
                     [dec |-> Decode(e, kf), vc |-> VerifySum(e)]

CIdle == [ph |-> "idle"]
CSend(m) ==
  /\ cd.ph = "idle" /\ m \in CMsgs
  /\ cd' = [ph |-> "sent", m |-> m, k |-> "none", e |-> Encode(m)]
  /\ UNCHANGED <<dvars, dev, hist>>
CCorrupt(k) ==
  /\ cd.ph = "sent" /\ cd.k = "none" /\ k \in CKinds \ {"none"} /\ Corruptible(cd.m)
  /\ cd' = [cd EXCEPT !.k = k, !.e = Corrupt(cd.e, k)]
  /\ UNCHANGED <<dvars, dev, hist>>
CRecv ==       \* ACTUAL: either the IDEAL outcome or the deviation's
  /\ cd.ph = "sent"
  /\ \E kf \in {FALSE, KF_EmptyPayloadUndecodable} :
       /\ cd' = [ph |-> "recv", m |-> cd.m, k |-> cd.k, out |-> Decode(cd.e, kf), vc |-> VerifySum(cd.e)]
       /\ dev' = IF Decode(cd.e, kf) # Decode(cd.e, FALSE) THEN dev \cup {"KF_EmptyPayloadUndecodable"} ELSE dev
       /\ Log([a |-> "codec", m |-> cd.m, k |-> cd.k, dec |-> Decode(cd.e, kf).c, vc |-> VerifySum(cd.e)])
  /\ UNCHANGED dvars
CodecNext == (cd.ph = "idle" /\ \E m \in CMsgs : CSend(m)) \/ (\E k \in CKinds : CCorrupt(k)) \/ CRecv

(* C20, first sentence *)
RoundTrip          == (cd.ph = "recv" /\ cd.k = "none") => (cd.out.c = "same" /\ cd.out.hdr = Encode(cd.m).hdr /\ cd.vc)
CorruptionDetected == (cd.ph = "recv" /\ cd.k # "none") => (cd.out.c = "error" /\ ~cd.vc)

(* request -> response type map: the response type of request X is the enum member named X_RES *)
RespOK(name, hasres, resp) == hasres => resp = name \o "_RES"

-----------------------------------------------------------------------------
(*                            Part B: dispatcher                           *)
-----------------------------------------------------------------------------
NoSub == [k |-> 0, typ |-> 0, bc |-> "", from |-> ""]
NoMsg == [typ |-> 0, bc |-> "", from |-> "", id |-> 0]
Types == {s.typ : s \in Subs} \cup {m.typ : m \in Msgs}
Calls == [op : {"reg", "unreg"}, s : Subs, m : {NoMsg}] \cup [op : {"disp"}, s : {NoSub}, m : Msgs]
NoCall == [op |-> "none", s |-> NoSub, m |-> NoMsg]

(* subscriber.Match: a filter is either unset ("") or must equal the header field *)
Match(s, m) == (s.from = "" \/ s.from = m.from) /\ (s.bc = "" \/ s.bc = m.bc)

(* MessageKey: identity of a message for de-duplication = (type, bcname, from, logid, checksum);    *)
(* a message record is its own key.  The code hashes the plain concatenation                        *)
(* type.String() + bcname + from + logid + checksum, so two different (bcname, from) splits of the  *)
(* same string share a cache entry (KF_KeyConcatAmbiguous).                                         *)
CKey(m) == <<m.typ, m.bc \o m.from, m.id>>
Collides(m) == KF_KeyConcatAmbiguous /\ \E k \in handled : CKey(k) = CKey(m)     \* another message's entry answers for m

WriterCS == {"r1", "r2", "r3", "r4", "u1", "u2", "u3", "w_unlock"}       \* program counters inside mu.Lock()
ReaderCS == {"d_chk2", "d_iter", "d_runlock"}                            \* program counters inside mu.RLock()
TableWritePCs == {"r2", "r4", "u3"}
TableReadPCs  == {"r1", "r3", "u1", "u2", "d_peek", "d_chk2", "d_iter"}

DInit ==
  /\ keys = {} /\ tab = [t \in Types |-> {}] /\ handled = {} /\ wlock = 0 /\ rlock = {}
  /\ pc = [p \in Procs |-> "idle"] /\ cur = [p \in Procs |-> NoCall] /\ res = [p \in Procs |-> ""]
  /\ vis = [p \in Procs |-> {}] /\ sp = [p \in Procs |-> {}] /\ dl = [p \in Procs |-> {}]
  /\ ncall = [p \in Procs |-> 0]
  /\ lin = [p \in Procs |-> {}] /\ mustDrop = [p \in Procs |-> FALSE] /\ done = {}
Init == DInit /\ cd = CIdle /\ dev = {} /\ hist = <<>>

(* back to the initial state: separates concatenated traces in trace validation *)
Reset ==
  /\ keys' = {} /\ tab' = [t \in Types |-> {}] /\ handled' = {} /\ wlock' = 0 /\ rlock' = {}
  /\ pc' = [p \in Procs |-> "idle"] /\ cur' = [p \in Procs |-> NoCall] /\ res' = [p \in Procs |-> ""]
  /\ vis' = [p \in Procs |-> {}] /\ sp' = [p \in Procs |-> {}] /\ dl' = [p \in Procs |-> {}]
  /\ ncall' = [p \in Procs |-> 0]
  /\ lin' = [p \in Procs |-> {}] /\ mustDrop' = [p \in Procs |-> FALSE] /\ done' = {}
  /\ cd' = CIdle /\ hist' = <<>> /\ UNCHANGED dev

Goto(p, l)      == pc' = [pc EXCEPT ![p] = l]
SetRes(p, r)    == res' = [res EXCEPT ![p] = r]
Typ(p)          == IF cur[p].op = "disp" THEN cur[p].m.typ ELSE cur[p].s.typ
Same(v)         == UNCHANGED v
Step(p, a)      == Log([p |-> p, a |-> a])

(* ---- a goroutine starts a call ------------------------------------------------------------- *)
Call(p, c) ==
  /\ pc[p] = "idle" /\ ncall[p] < CallBound(p) /\ c \in Calls
  /\ cur' = [cur EXCEPT ![p] = c]
  /\ Goto(p, CASE c.op = "reg" -> "r0" [] c.op = "unreg" -> "u0" [] c.op = "disp" -> "d_chk")
  /\ SetRes(p, "")
  /\ vis' = [vis EXCEPT ![p] = {}] /\ sp' = [sp EXCEPT ![p] = {}] /\ dl' = [dl EXCEPT ![p] = {}]
  /\ lin' = [lin EXCEPT ![p] = {}]
  /\ mustDrop' = [mustDrop EXCEPT ![p] = (c.op = "disp" /\ c.m \in done)]
  /\ Log([p |-> p, a |-> "call", op |-> c.op, s |-> c.s, m |-> c.m])
  /\ UNCHANGED <<keys, tab, handled, wlock, rlock, ncall, done, cd, dev>>

(* ---- Register (dispatcher.go:67) ----------------------------------------------------------- *)
R0(p) ==        \* sub.GetMessageType() == MSG_TYPE_NONE -> ErrSubscriber (before the lock)
  /\ pc[p] \in {"r0", "u0"}
  /\ IF Typ(p) = 0 THEN Goto(p, "ret") /\ SetRes(p, "errsub")
     ELSE Goto(p, IF pc[p] = "r0" THEN "r_lock" ELSE "u_lock") /\ Same(res)
  /\ Step(p, "t0")
  /\ UNCHANGED <<keys, tab, handled, wlock, rlock, cur, vis, sp, dl, ncall, lin, mustDrop, done, cd, dev>>
WLock(p) ==     \* d.mu.Lock()
  /\ pc[p] \in {"r_lock", "u_lock"} /\ wlock = 0 /\ rlock = {}
  /\ wlock' = p /\ Goto(p, IF pc[p] = "r_lock" THEN "r1" ELSE "u1")
  /\ Step(p, "wlock")
  /\ UNCHANGED <<keys, tab, handled, rlock, cur, res, vis, sp, dl, ncall, lin, mustDrop, done, cd, dev>>
R1(p) ==        \* if _, ok := d.mc[typ]; !ok
  /\ pc[p] = "r1" /\ Goto(p, IF Typ(p) \in keys THEN "r3" ELSE "r2")
  /\ Step(p, "r1")
  /\ UNCHANGED <<keys, tab, handled, wlock, rlock, cur, res, vis, sp, dl, ncall, lin, mustDrop, done, cd, dev>>
R2(p) ==        \* d.mc[typ] = make(...)                       (write of the outer map)
  /\ pc[p] = "r2" /\ keys' = keys \cup {Typ(p)} /\ Goto(p, "r3")
  /\ Step(p, "r2")
  /\ UNCHANGED <<tab, handled, wlock, rlock, cur, res, vis, sp, dl, ncall, lin, mustDrop, done, cd, dev>>
R3(p) ==        \* if _, ok := d.mc[typ][sub]; ok -> ErrRegistered
  /\ pc[p] = "r3"
  /\ IF cur[p].s \in tab[Typ(p)] THEN Goto(p, "w_unlock") /\ SetRes(p, "dup") ELSE Goto(p, "r4") /\ Same(res)
  /\ Step(p, "r3")
  /\ UNCHANGED <<keys, tab, handled, wlock, rlock, cur, vis, sp, dl, ncall, lin, mustDrop, done, cd, dev>>
R4(p) ==        \* d.mc[typ][sub] = struct{}{}                  (write of the inner map)
  /\ pc[p] = "r4" /\ tab' = [tab EXCEPT ![Typ(p)] = @ \cup {cur[p].s}]
  /\ Goto(p, "w_unlock") /\ SetRes(p, "ok")
  /\ Step(p, "r4")
  /\ UNCHANGED <<keys, handled, wlock, rlock, cur, vis, sp, dl, ncall, lin, mustDrop, done, cd, dev>>

(* ---- UnRegister (dispatcher.go:86) ---------------------------------------------------------- *)
U1(p) ==
  /\ pc[p] = "u1"
  /\ IF Typ(p) \in keys THEN Goto(p, "u2") /\ Same(res) ELSE Goto(p, "w_unlock") /\ SetRes(p, "notreg")
  /\ Step(p, "u1")
  /\ UNCHANGED <<keys, tab, handled, wlock, rlock, cur, vis, sp, dl, ncall, lin, mustDrop, done, cd, dev>>
U2(p) ==
  /\ pc[p] = "u2"
  /\ IF cur[p].s \in tab[Typ(p)] THEN Goto(p, "u3") /\ Same(res) ELSE Goto(p, "w_unlock") /\ SetRes(p, "notreg")
  /\ Step(p, "u2")
  /\ UNCHANGED <<keys, tab, handled, wlock, rlock, cur, vis, sp, dl, ncall, lin, mustDrop, done, cd, dev>>
U3(p) ==        \* delete(d.mc[typ], sub)
  /\ pc[p] = "u3" /\ tab' = [tab EXCEPT ![Typ(p)] = @ \ {cur[p].s}]
  /\ Goto(p, "w_unlock") /\ SetRes(p, "ok")
  /\ Step(p, "u3")
  /\ UNCHANGED <<keys, handled, wlock, rlock, cur, vis, sp, dl, ncall, lin, mustDrop, done, cd, dev>>
WUnlock(p) ==   \* deferred d.mu.Unlock()
  /\ pc[p] = "w_unlock" /\ wlock = p /\ wlock' = 0 /\ Goto(p, "ret")
  /\ Step(p, "wunlock")
  /\ UNCHANGED <<keys, tab, handled, rlock, cur, res, vis, sp, dl, ncall, lin, mustDrop, done, cd, dev>>

(* ---- Dispatch (dispatcher.go:105) ----------------------------------------------------------- *)
DChk(p) ==      \* if d.IsHandled(msg) return nil
  /\ pc[p] = "d_chk"
  /\ \E h \in (IF cur[p].m \in handled THEN {TRUE} ELSE IF Collides(cur[p].m) THEN {TRUE, FALSE} ELSE {FALSE}) :
       /\ IF h THEN Goto(p, "ret") /\ SetRes(p, "dropped")
          ELSE Goto(p, IF KF_DispatchReadsTableUnlocked THEN "d_peek" ELSE "d_rlock") /\ Same(res)
       /\ dev' = IF h /\ cur[p].m \notin handled THEN dev \cup {"KF_KeyConcatAmbiguous"} ELSE dev
  /\ Step(p, "d_chk")
  /\ UNCHANGED <<keys, tab, handled, wlock, rlock, cur, vis, sp, dl, ncall, lin, mustDrop, done, cd>>
DPeek(p) ==     \* KF: if _, ok := d.mc[typ]; !ok return ErrNotRegister        -- WITHOUT the lock
  /\ pc[p] = "d_peek"
  /\ IF Typ(p) \in keys THEN Goto(p, "d_rlock") /\ Same(res) ELSE Goto(p, "ret") /\ SetRes(p, "notreg")
  /\ Step(p, "d_peek")
  /\ UNCHANGED <<keys, tab, handled, wlock, rlock, cur, vis, sp, dl, ncall, lin, mustDrop, done, cd, dev>>
DRLock(p) ==    \* d.mu.RLock(): the linearisation point of an accepted Dispatch
  /\ pc[p] = "d_rlock" /\ wlock = 0
  /\ rlock' = rlock \cup {p} /\ Goto(p, "d_chk2")
  /\ lin' = [lin EXCEPT ![p] = {s \in tab[Typ(p)] : Match(s, cur[p].m)}]
  /\ Step(p, "rlock")
  /\ UNCHANGED <<keys, tab, handled, wlock, cur, res, vis, sp, dl, ncall, mustDrop, done, cd, dev>>
DChk2(p) ==     \* under the lock: if _, ok := d.mc[typ]; !ok -> ErrNotRegister
  /\ pc[p] = "d_chk2"
  /\ IF Typ(p) \in keys THEN Goto(p, "d_iter") /\ Same(res) ELSE Goto(p, "d_runlock") /\ SetRes(p, "notreg")
  /\ Step(p, "d_chk2")
  /\ UNCHANGED <<keys, tab, handled, wlock, rlock, cur, vis, sp, dl, ncall, lin, mustDrop, done, cd, dev>>
DIter(p, s) ==  \* one iteration of: for sub := range d.mc[typ] { if !sub.Match(msg) continue; go handle }
  /\ pc[p] = "d_iter" /\ s \in tab[Typ(p)] \ vis[p]
  /\ vis' = [vis EXCEPT ![p] = @ \cup {s}]
  /\ sp' = IF Match(s, cur[p].m) THEN [sp EXCEPT ![p] = @ \cup {s}] ELSE sp
  /\ Log([p |-> p, a |-> "iter", s |-> s])
  /\ UNCHANGED <<keys, tab, handled, wlock, rlock, pc, cur, res, dl, ncall, lin, mustDrop, done, cd, dev>>
DIterEnd(p) ==
  /\ pc[p] = "d_iter" /\ tab[Typ(p)] \ vis[p] = {}
  /\ Goto(p, "d_runlock") /\ SetRes(p, "ok")
  /\ Step(p, "iter_end")
  /\ UNCHANGED <<keys, tab, handled, wlock, rlock, cur, vis, sp, dl, ncall, lin, mustDrop, done, cd, dev>>
DRUnlock(p) ==  \* d.mu.RUnlock()
  /\ pc[p] = "d_runlock" /\ p \in rlock
  /\ rlock' = rlock \ {p} /\ Goto(p, IF res[p] = "notreg" THEN "ret" ELSE "d_wait")
  /\ Step(p, "runlock")
  /\ UNCHANGED <<keys, tab, handled, wlock, cur, res, vis, sp, dl, ncall, lin, mustDrop, done, cd, dev>>
Handle(p, s) == \* the handler goroutine of subscriber s runs: sub.HandleMessage(ctx, msg, stream)
  /\ pc[p] \in {"d_iter", "d_runlock", "d_wait"} /\ s \in sp[p] \ dl[p]
  /\ dl' = [dl EXCEPT ![p] = @ \cup {s}]
  /\ Log([p |-> p, a |-> "dlv", s |-> s])
  /\ UNCHANGED <<keys, tab, handled, wlock, rlock, pc, cur, res, vis, sp, ncall, lin, mustDrop, done, cd, dev>>
DWait(p) ==     \* wg.Wait()
  /\ pc[p] = "d_wait" /\ sp[p] = dl[p] /\ Goto(p, "d_mark")
  /\ Step(p, "wait")
  /\ UNCHANGED <<keys, tab, handled, wlock, rlock, cur, res, vis, sp, dl, ncall, lin, mustDrop, done, cd, dev>>
DMark(p) ==     \* d.MaskHandled(msg)
  /\ pc[p] = "d_mark" /\ handled' = handled \cup {cur[p].m} /\ Goto(p, "ret")
  /\ Step(p, "mark")
  /\ UNCHANGED <<keys, tab, wlock, rlock, cur, res, vis, sp, dl, ncall, lin, mustDrop, done, cd, dev>>

(* ---- the call returns ------------------------------------------------------------------------ *)
(* A Dispatch that found no entry for the type returns an error; the property does not say       *)
(* whether such a message counts as handled, so both are allowed (R2/R3).                        *)
Ret(p, mark) ==
  /\ pc[p] = "ret"
  /\ mark \in BOOLEAN /\ (mark => (cur[p].op = "disp" /\ res[p] = "notreg"))
  /\ handled' = IF mark THEN handled \cup {cur[p].m} ELSE handled
  /\ done' = IF cur[p].op = "disp" /\ res[p] \in {"ok", "dropped"} THEN done \cup {cur[p].m} ELSE done
  /\ Goto(p, "idle") /\ ncall' = [ncall EXCEPT ![p] = @ + 1]
  /\ Log([p |-> p, a |-> "ret", op |-> cur[p].op, res |-> res[p], dl |-> SetToSeq(dl[p])])
  /\ UNCHANGED <<keys, tab, wlock, rlock, cur, res, vis, sp, dl, lin, mustDrop, cd, dev>>

(* ---- sensors ------------------------------------------------------------------------------- *)
(* The race detector (or the runtime's "concurrent map read and map write" check) reported an   *)
(* unsynchronised pair of accesses to the subscriber table: a read in function rd (site: before  *)
(* mu.RLock() is taken - "prelock" - or after - "locked" - when rd is Dispatch, else "na"), a     *)
(* write in function wr ("unknown" when the runtime's crash dump no longer shows the writer),     *)
(* both on the outer map (type -> inner map) or not (tbl = "outer" / "inner" / "mixed").         *)
(* IDEAL has no such pair (NoTableAccessWithoutLock); the only pair ACTUAL has is the unlocked    *)
(* look-up of the outer map in Dispatch (d_peek reads keys) against the outer-map write in       *)
(* Register (r2 writes keys).                                                                    *)
RaceObserved(rd, site, wr, tbl) ==
  /\ KF_DispatchReadsTableUnlocked
  /\ rd = "Dispatch" /\ site = "prelock" /\ wr \in {"Register", "unknown"} /\ tbl = "outer"
  /\ dev' = dev \cup {"KF_DispatchReadsTableUnlocked"}
  /\ UNCHANGED <<dvars, cd, hist>>

(* every step of goroutine p that is not Call / Handle / Ret (invisible at the API) *)
Internal(p) ==
  \/ R0(p) \/ WLock(p) \/ R1(p) \/ R2(p) \/ R3(p) \/ R4(p) \/ U1(p) \/ U2(p) \/ U3(p) \/ WUnlock(p)
  \/ DChk(p) \/ DPeek(p) \/ DRLock(p) \/ DChk2(p) \/ (pc[p] = "d_iter" /\ \E s \in tab[Typ(p)] : DIter(p, s)) \/ DIterEnd(p)
  \/ DRUnlock(p) \/ DWait(p) \/ DMark(p)

AllDone == \A p \in Procs : pc[p] = "idle" /\ ncall[p] = CallBound(p)
DispNext ==
  \/ /\ Len(hist) < MaxOps
     /\ \E p \in Procs :
          \/ \E c \in Calls : Call(p, c)
          \/ Internal(p)
          \/ \E s \in sp[p] : Handle(p, s)
          \/ \E mark \in BOOLEAN : Ret(p, mark)
  \/ AllDone /\ UNCHANGED vars           \* termination is not a deadlock

DispSpec  == Init /\ [][DispNext]_vars
CodecSpec == Init /\ [][CodecNext]_vars
Next == DispNext \/ CodecNext
Spec == Init /\ [][Next]_vars

-----------------------------------------------------------------------------
(* Observable projection of a goroutine's current call: the result class and the deliveries *)
Obs(p) == [res |-> res[p], dl |-> dl[p]]

(* C20, second sentence, as invariants *)
MutualExclusion ==
  /\ wlock # 0 => rlock = {}
  /\ \A p \in Procs : (pc[p] \in WriterCS <=> wlock = p) /\ (pc[p] \in ReaderCS <=> p \in rlock)
(* no table access without the lock while a writer may run *)
NoTableAccessWithoutLock ==
  \A p \in Procs :
    /\ pc[p] \in TableWritePCs => wlock = p
    /\ pc[p] \in TableReadPCs => (wlock = p \/ p \in rlock \/ ~\E q \in Procs \ {p} : pc[q] \in WriterCS)
(* an accepted message is handed exactly once to every matching subscriber registered at the
   linearisation point (handlers are a set: at most once by Handle's guard) and to no other *)
ExactDelivery ==
  \A p \in Procs : cur[p].op = "disp" =>
    /\ dl[p] \subseteq sp[p] /\ sp[p] \subseteq lin[p]
    /\ \A s \in dl[p] : s.typ = cur[p].m.typ /\ Match(s, cur[p].m)
    /\ (pc[p] = "ret" /\ res[p] = "ok") => dl[p] = lin[p]
    /\ (pc[p] = "ret" /\ res[p] # "ok") => dl[p] = {}
(* a repeat dispatched after a dispatch of the same message returned is dropped *)
RepeatDropped == \A p \in Procs : mustDrop[p] => (sp[p] = {} /\ dl[p] = {} /\ (pc[p] = "ret" => res[p] = "dropped"))
TypeOK ==
  /\ keys \subseteq Types /\ wlock \in 0..NP /\ rlock \subseteq Procs
  /\ \A t \in Types : tab[t] \subseteq {s \in Subs : s.typ = t} /\ (tab[t] # {} => t \in keys)
  /\ \A p \in Procs : ncall[p] \in 0..CallBound(p) /\ dl[p] \subseteq Subs /\ sp[p] \subseteq Subs
  /\ handled \subseteq Msgs /\ done \subseteq Msgs

View == <<keys, tab, handled, wlock, rlock, pc, cur, res, vis, sp, dl, ncall, lin, mustDrop, done, cd>>

-----------------------------------------------------------------------------
=============================================================================
