SPECIFICATION DispSpec
CONSTANTS
  NP = 3
  MaxCalls = 1
  NFull = 4
  MaxOps = 100000
  LogOn = FALSE
  U = "mc3"
  KF_DispatchReadsTableUnlocked = FALSE
  KF_EmptyPayloadUndecodable = FALSE
  KF_KeyConcatAmbiguous = FALSE
INVARIANTS TypeOK MutualExclusion NoTableAccessWithoutLock ExactDelivery RepeatDropped
VIEW View
