---------------------------- MODULE Gen_Schedule ----------------------------
(* Case generation: TLC walks the clock of every configuration of the box (exhaustively, breadth   *)
(* first - every behaviour is one configuration's linear walk) and writes the walk's history (the   *)
(* configuration, every sampled instant with the expected observation, every single-miner case)   *)
(* to out/b_<n>.json when the walk is complete.                                                    *)
EXTENDS Schedule, Json
CfgId(c) == ToString(IF c.kind = "tdpos" THEN 1 ELSE IF c.kind = "xpoa" THEN 2 ELSE 3) \o
            ToString(c.period) \o ToString(c.blockNum) \o ToString(c.n) \o ToString(c.alt) \o ToString(c.termInt) \o
            ToString(c.init % Ms) \o ToString(c.sid) \o ToString(c.start) \o ToString(c.hgt) \o ToString(c.nodeAt)
Dump == Done => JsonSerialize("out/b_" \o CfgId(cfg) \o ".json", hist)
=============================================================================
