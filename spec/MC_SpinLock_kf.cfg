\* ACTUAL lock protocol (the code's two steps per shared key): TLC is expected to REFUTE Exclusion on the
\* scenario of two sharers and one writer of a key (DESIGN section 9 #10). Used as a "find" configuration:
\* the counterexample is the schedule replayed on the real goroutines.
SPECIFICATION Spec
CONSTANTS
  KF_SharedLockRefCountRace = TRUE
  Sizes = {}
  KvPool <- KvPoolSmall
  TokPool <- TokPoolSmall
  MixPool <- MixPoolSmall
  Extra <- Race3
  GFirst = TRUE
  SelDet = FALSE
  RecSteps = FALSE
  LogOn = TRUE
VIEW View
INVARIANT Exclusion
CHECK_DEADLOCK TRUE
