-------------------------------- MODULE QCSmr --------------------------------
(***************************************************************************)
(* The Smr handlers around the pending-proposal tree                       *)
(* (kernel/consensus/base/driver/chained-bft/smr.go), written like the     *)
(* code on top of the tree mutators of QCTree:                             *)
(*   Confirm   Smr.UpdateQcStatus          (a block was confirmed)         *)
(*   Propose   handleReceivedProposal      (a signed ProposalMsg arrives)  *)
(*   Vote      handleReceivedVoteMsg       (a signed VoteMsg arrives)      *)
(*   Justify   Smr.UpdateJustifyQcStatus   (the justify of a block)        *)
(*   Rollback  Smr.EnforceUpdateHighQC                                     *)
(* Validators are members 1..4, the node is member 1; every certificate    *)
(* carried by a message is validly signed by members 2..4 (what happens    *)
(* otherwise is C14's subject).                                            *)
(***************************************************************************)
EXTENDS QCTree

CONSTANT NVoters

VARIABLES lp,        \* localProposal: ids of proposals seen as p2p messages (and the initial root)
          ledger,    \* ledgerState
          lastVote,  \* DefaultSaftyRules.lastVoteRound
          pref,      \* DefaultSaftyRules.preferredRound
          votes      \* qcVoteMsgs: proposal -> set of members whose signature is stored
svars == <<vars, lp, ledger, lastVote, pref, votes>>

Voters == 2..(1 + NVoters)      \* members whose votes arrive (the certificates of messages are always signed by 2..4)
JustifySigners == IF NVoters >= 3 THEN 2..4 ELSE Voters   \* (model checking with 2 voters: their two signatures)
Mx(a, b) == IF a > b THEN a ELSE b
(* CalVotesThreshold(len, 4) *)
Full(len) == len + 1 >= 4 - 1
RootParentView == IF root = 0 THEN 0 ELSE View(root) - 1

SInitWith(f) == InitWith(f) /\ lp = {0} /\ ledger = 0 /\ lastVote = 0 /\ pref = 0 /\ votes = [p \in DOMAIN f |-> {}]
(* model checking at this level: the chain and one fork (every tree shape is covered at the tree level) *)
SInitMC == \E f \in {[i \in 1..NP |-> i - 1], [i \in 1..NP |-> IF i = NP THEN 1 ELSE i - 1]} : SInitWith(f)
SInit == Init /\ lp = {0} /\ ledger = 0 /\ lastVote = 0 /\ pref = 0 /\ votes = [p \in Props |-> {}]
SResetTo(f) == /\ ResetTo(f) /\ lp' = {0} /\ ledger' = 0 /\ lastVote' = 0 /\ pref' = 0
               /\ votes' = [p \in DOMAIN f |-> {}]

TreeSame == UNCHANGED <<main, orph, oatt, omap, root, high, generic, locked, commit, wr>>

(* Smr.UpdateQcStatus(node): ledgerState follows, then the tree's updateQcStatus *)
Confirm(p) ==
  /\ p \in Props
  /\ ledger' = Mx(ledger, View(p))
  /\ Apply(InsertF(St, p, KF_OrphanFirstMatchOnly, KF_StaleMarkers))
  /\ accepted' = accepted \cup {p} /\ enf' = FALSE
  /\ UNCHANGED <<par, pview, lp, lastVote, pref, votes>>
  /\ Log([op |-> "confirm", p |-> p, res |-> "ok"])

(* handleReceivedProposal: proposal p, justify = certificate of its parent q, cf = the justify carries a
   commit id.  The steps in the handler's order; a failing check ends the handler where it stands. *)
Propose(p, cf) ==
  /\ p \in Props /\ UNCHANGED <<par, ledger, votes>> /\ enf' = FALSE
  /\ Log([op |-> "propose", p |-> p, cf |-> cf, res |-> "ok"])
  /\ IF p \in lp THEN TreeSame /\ UNCHANGED <<lp, pview, lastVote, pref, accepted>>       \* LoadOrStore: seen before
     ELSE
     /\ lp' = lp \cup {p}
     /\ LET q == Par(p)
            \* 0. CheckProposal unless the justify is the genesis certificate
            cpOK == \/ q = 0
                    \/ /\ View(p) >= lastVote - 3
                       /\ (q \in main \/ (View(p) > RootParentView /\ View(p) <= View(root) + 6))
        IN IF ~cpOK \/ ledger + 3 < View(p)                                              \* 1. ledger state
           THEN TreeSame /\ UNCHANGED <<pview, lastVote, pref, accepted>>
           ELSE LET pv == Mx(pview, View(q) + 1)                                        \* 2. pacemaker.AdvanceView(parentQC)
                    s1 == IF cf THEN CommitF(St, q) ELSE St                              \* 3. UpdatePreferredRound, updateCommit
                    pf == IF cf THEN Mx(pref, View(q) - 1) ELSE pref
                IN /\ pview' = pv /\ pref' = pf
                   /\ IF View(p) <= pv - 3                                                 \* 4. CheckPacemaker
                         \/ View(p) < lastVote - 3 \/ View(q) < pf - 3                      \*    VoteProposal
                      THEN Apply(s1) /\ UNCHANGED <<lastVote, accepted>>
                      ELSE /\ lastVote' = Mx(lastVote, View(p))
                           /\ Apply(InsertF(s1, p, KF_OrphanFirstMatchOnly, KF_StaleMarkers))   \* 5. updateQcStatus
                           /\ accepted' = accepted \cup {p}

(* handleReceivedVoteMsg: a valid vote of member m for proposal p *)
Vote(p, m) ==
  /\ p \in Props /\ m \in Voters
  /\ UNCHANGED <<par, lp, ledger, lastVote, pref, accepted>> /\ enf' = FALSE
  /\ IF View(p) < lastVote - 3 \/ View(p) - 1 < pref - 3         \* CheckVote: TooLowVoteView / TooLowVParentView
        \/ p \notin lp \/ p \notin main                          \* vote before proposal / proposal not in the tree
     THEN /\ TreeSame /\ UNCHANGED <<pview, votes>>
          /\ Log([op |-> "vote", p |-> p, m |-> m, res |-> "reject"])
     ELSE LET st == votes[p] \cup {m}
              len == IF votes[p] = {} THEN 1 ELSE Cardinality(st)
          IN /\ votes' = [votes EXCEPT ![p] = st]
             /\ IF Full(len)
                THEN pview' = Mx(pview, View(p) + 1) /\ Apply(CertifyF(St, p, KF_StaleMarkers))
                ELSE TreeSame /\ UNCHANGED pview
             /\ Log([op |-> "vote", p |-> p, m |-> m, res |-> "ok"])

(* Smr.UpdateJustifyQcStatus(certificate of p signed by members 2..4) *)
Justify(p) ==
  /\ p \in Props
  /\ votes' = [votes EXCEPT ![p] = @ \cup JustifySigners]
  /\ Apply(CertifyF(St, p, KF_StaleMarkers))
  /\ enf' = FALSE /\ UNCHANGED <<par, pview, lp, ledger, lastVote, pref, accepted>>
  /\ Log([op |-> "justify", p |-> p, res |-> "ok"])

(* Smr.EnforceUpdateHighQC *)
Rollback(p) ==
  /\ p \in Ids
  /\ Apply(EnforceF(St, p))
  /\ enf' = EnforceOk(St, p) /\ UNCHANGED <<par, pview, lp, ledger, lastVote, pref, votes, accepted>>
  /\ Log([op |-> "rollback", p |-> p, res |-> IF EnforceOk(St, p) THEN "ok" ELSE "err"])

SNext ==
  /\ Len(hist) < MaxOps
  /\ \/ \E p \in Props : Confirm(p)
     \/ \E p \in Props, cf \in BOOLEAN : Propose(p, cf)
     \/ \E p \in Props, m \in Voters : Vote(p, m)
     \/ \E p \in Props : Justify(p)
     \/ \E p \in Ids : Rollback(p)
SSpec == SInit /\ [][SNext]_svars
SSpecMC == SInitMC /\ [][SNext]_svars
(* ... explored breadth-first to a bounded number of handler calls *)
CONSTANT MaxLevel
LevelBound == TLCGet("level") <= MaxLevel

(* observable projection: the tree's, plus what the Smr exposes *)
SObs == [ t |-> Obs,
          known |-> [i \in Props |-> i \in lp],
          ledger |-> ledger,
          nvotes |-> [i \in Props |-> Cardinality(votes[i])] ]

SHighMonotone == [][enf' \/ View(high') >= View(high)]_svars
SRootMoves == [][root' # root => (root \in Anc(root') /\ root' \in main)]_svars
SPaceMonotone == [][pview' >= pview]_svars
SViewVars == <<ViewVars, lp, ledger, lastVote, pref, votes>>
=============================================================================
