SPECIFICATION Spec
CONSTANTS
  MaxBlocks = 5
  MaxTxPerBlock = 1
  MaxOps = 100000
  Window = 1
  BlockBudget = 1000
  ActiveTxs = {"t1", "t3"}
  KF_FrozenLedgerHeight = FALSE
  KF_PlayKeepsStaleReader = FALSE
  KF_PoolOrderAntiDep = FALSE
  KF_PoolMasksBlockOrder = FALSE
INVARIANTS TypeOK PureFn Conservation IrrDef
PROPERTIES IrrMonotone IrrKept
VIEW ViewIrr
CHECK_DEADLOCK FALSE
