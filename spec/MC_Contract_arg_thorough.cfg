SPECIFICATION Spec
CONSTANTS
  NK = 3
  NU = 2
  MaxSteps = 2
  Vals = {"p"}
  XferAmts = {1, 3}
  UseAmts = {1, 2}
  StepOps = {"get", "put", "del", "scan", "call", "xfer", "emit", "use", "fail", "fail500"}
  TamperKinds = {"none", "read_ver", "read_drop", "read_add", "write_drop", "write_add", "write_val", "write_dup", "write_swap", "write_app", "write_bucket", "write_rep", "read_dup", "arg", "limit_below", "limit_above", "fee_below", "fee_above", "amt_req", "amt_out", "ev_alter", "ev_drop", "ctr_alter", "redirect", "cout_drop", "cout_less", "cout_freeze", "cin_omit", "cin_steal", "cin_extra", "req_drop", "req2_paid", "req2_unpaid"}
  Amts = {0, 1}
  KeepHist = FALSE
  KF_ContractUtxoUnbound = FALSE
  KF_FailedStatusAccepted = FALSE
  KF_NestedUseUncounted = FALSE
INVARIANTS TypeOK HonestAccepted CommitExact TamperRejected StaleRejected AdmittedSound RejectedChangesNothing
VIEW View
CHECK_DEADLOCK FALSE
