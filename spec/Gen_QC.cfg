SPECIFICATION GenSpec
CONSTANTS
  MaxN = 10
  Extra = 2
  MaxEntries = 14
  MaxMsgs = 6
  MaxSigs = 1
  MaxOps = 40
  Canon = FALSE
  ThrMax = 12
  KF_RepeatedSignerCounts = FALSE
  KF_VoteAcceptsFailedVerify = FALSE
  KF_UnverifiedExtraVoteSigns = FALSE
CONSTRAINT Dump
CHECK_DEADLOCK FALSE
