SPECIFICATION MCSpec
CONSTANTS
  N1 = 1
  N2 = 0
  NT = 1
  Vals = {"p"}
  Limits = {9}
  NU = 2
  LookAhead = 1
  MaxOps = 1000000
  KeepHist = FALSE
  EdgeBounds = FALSE
  KF_ScanYieldsOwnDelete = FALSE
  KF_ScanYieldsReadMissingKey = FALSE
  KF_ScanInvertedRangePanics = FALSE
  KF_ScanOpenEndSkipsBacking = FALSE
INVARIANTS TypeOK ReadSetSound ReplayReproduces UtxoBalanced
PROPERTIES ReadYourWrites ScanExact ScanRefusesInverted ScanReadsWhatItSaw
CONSTRAINT Feasible
VIEW View
CHECK_DEADLOCK FALSE
