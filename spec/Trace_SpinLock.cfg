SPECIFICATION TSpec
CONSTANTS
  KF_SharedLockRefCountRace = FALSE
  Sizes = {}
  KvPool <- KvPoolSmall
  TokPool <- TokPoolSmall
  MixPool <- MixPoolSmall
  Extra <- NoExtra
  GFirst = TRUE
  SelDet = TRUE
  RecSteps = FALSE
  LogOn = TRUE
CONSTRAINT Book
POSTCONDITION Post
CHECK_DEADLOCK FALSE
