SPECIFICATION GSpec
CONSTANTS
  Amounts = {0, 500, 1000, 2500}
  TAmounts = {0, 500, 1000}
  Cands = {"a", "b"}
  ProposeLock = 1000
  MaxProps = 3
  StopDeltas = {0, 1, 2, 4, 6}
  TrigDeltas = {0, 1, 3}
  Pcts = {51, 100}
  Toks = {"ok", "bad"}
  MaxOps = 14
  MaxH = 1000000
  LowAcc = {}
  KF_SelfTransferMints = FALSE
  KF_TransferResetsReceiverLocks = FALSE
  KF_UnlockSkipsLowercaseAddr = FALSE
CONSTRAINT Dump
CHECK_DEADLOCK FALSE
