\* IDEAL lock protocol (atomic LoadOrStore+Add / Release+Delete), all scenarios of 2 and 3 requests over the
\* reduced request pools: every invariant of C12 must hold, no deadlock.
SPECIFICATION Spec
CONSTANTS
  KF_SharedLockRefCountRace = FALSE
  Sizes = {2, 3}
  KvPool <- KvPoolSmall
  TokPool <- TokPoolSmall
  MixPool <- MixPoolSmall
  Extra <- NoExtra
  GFirst = TRUE
  SelDet = FALSE
  RecSteps = TRUE
  LogOn = TRUE
VIEW View
INVARIANT TypeOK
INVARIANT Exclusion
INVARIANT ConflictFree
INVARIANT SelectorsDisjoint
INVARIANT SelHeld
INVARIANT Serialisable
INVARIANT Quiescent
INVARIANT TableMatchesHeld
CHECK_DEADLOCK TRUE
