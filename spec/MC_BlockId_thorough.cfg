SPECIFICATION Spec
CONSTANTS
  MaxTx = 6
  RepTx = 3
  Full = TRUE
  Rich = TRUE
  KF_MerkleDupLastTx = FALSE
  KF_MerkleTreeUnchecked = FALSE
  KF_EmptyBlockRejected = FALSE
  KF_HeaderConcat = FALSE
INVARIANTS TypeOK FormatVerifies Binding ConsensusBinding MutationRejected MutationRejectedByConsensus MerkleLemma
VIEW View
CHECK_DEADLOCK FALSE
