------------------------------- MODULE Engine -------------------------------
(***************************************************************************)
(* The engine's block pipeline (kernel/engines/xuperos/miner) on top of    *)
(* XState: a peer pushes the newest block of a chain; Miner.ProcBlock      *)
(* checks size / in-sync height / the award, trySyncBlock walks the state  *)
(* to the ledger tip, downloads the missing ancestors, confirms them in    *)
(* order (VerifyBlock, CheckMinerMatch, ConfirmBlock) and finally walks    *)
(* the state to the new ledger tip.  One ProcBlock is therefore a          *)
(* composition of XState actions; the specification takes them as silent   *)
(* micro-steps (variable todo) between the begin and the end of a push.    *)
(* This module goes beyond the listed properties: it binds the production  *)
(* sync path (the engine never calls PlayAndRepost for peer blocks).       *)
(***************************************************************************)
EXTENDS XState

VARIABLES insH,     \* Miner.inSyncTargetHeight
          insB,     \* Miner.inSyncTargetBlockId (0 = none, -1 = a block that was never stored)
          todo,     \* micro-steps of the push in progress
          eres      \* result class of the push in progress ("" = none in progress)
evars == <<vars, insH, insB, todo, eres>>
sv == <<blk, n, ltip, ptr, utxo, zu, zd, total, irr, pool, dev, applied, pruned>>     \* vars without hist

EInit == Init /\ insH = 0 /\ insB = 0 /\ todo = <<>> /\ eres = ""
EReset == Reset /\ insH' = 0 /\ insB' = 0 /\ todo' = <<>> /\ eres' = ""

(* A pushed chain: parent p (stored in the ledger), user transactions of each new block (oldest first), and what
   is wrong with it: "ok", "badaward" (pushed block's award differs from the schedule), "badsig<i>" (block i of the
   chain does not verify). *)
BadSigAt(kind) == IF kind = "badsig1" THEN 1 ELSE IF kind = "badsig2" THEN 2 ELSE IF kind = "badsig3" THEN 3 ELSE 0
PushBegin(p, seqs, kind) ==
  /\ eres = "" /\ p \in 1..n /\ Len(seqs) \in 1..3
  /\ Log([op |-> "push", p |-> p, seqs |-> seqs, kind |-> kind, res |-> "-"])
  /\ UNCHANGED sv
  /\ LET k  == Len(seqs)
         ht == Height(p) + k
         stop == IF BadSigAt(kind) = 0 \/ BadSigAt(kind) > k THEN k ELSE BadSigAt(kind) - 1     \* blocks confirmed before the batch stops
         mk == [i \in 1..stop |-> [op |-> "mk", first |-> (i = 1), p |-> p, txs |-> seqs[i]]] IN
     IF ht < insH \/ kind = "badaward"
     THEN eres' = "forbidden" /\ todo' = <<>> /\ UNCHANGED <<insH, insB>>
     ELSE IF ht < LHeight /\ ptr = ltip
     THEN eres' = "ok" /\ todo' = <<>> /\ insH' = ht /\ insB' = -1       \* lower than the trunk: ignored
     ELSE /\ insH' = ht /\ insB' = -1          \* becomes the target's id once it is stored (last mk micro-step)
          /\ eres' = IF stop = k THEN "ok" ELSE "error"
          /\ todo' = <<[op |-> "presync", ht |-> ht]>> \o mk \o <<[op |-> "sync"]>>
(* the same block again (a block that is stored): never does anything *)
RePush(b) ==
  /\ eres = "" /\ b \in 2..n
  /\ Log([op |-> "repush", b |-> b, res |-> "-"]) /\ UNCHANGED sv
  /\ eres' = (IF Height(b) < insH \/ b = insB THEN "forbidden" ELSE "ok") /\ todo' = <<>> /\ UNCHANGED <<insH, insB>>

(* A mining round in which the consensus asks for a truncation first (ProcessBeforeMiner returns a target d on the main
   chain): Miner.truncateForMiner walks the state to d WITHOUT the prune flag (the irreversible height is not crossed: then
   the round fails and nothing is truncated), truncates the ledger to d and the round goes on: it mines on d.  The blocks
   above d are gone afterwards, so generators produce this step last in a behaviour.  txs / P: the packed transactions
   and the pool after the walk when they were observed (trace validation), else <<"*">> / {"*"}. *)
ETruncBegin(d, txs, P) ==
  /\ eres = "" /\ ptr = ltip /\ d \in Anc(ltip) \ {ltip}
  /\ Log([op |-> "minetrunc", d |-> d, res |-> "-"]) /\ UNCHANGED sv /\ UNCHANGED <<insH, insB>>
  /\ eres' = "ok"
  /\ todo' = <<[op |-> "twalk", d |-> d, P |-> P], [op |-> "ttrunc", d |-> d], [op |-> "tmine", txs |-> txs]>>

LastRes == hist'[Len(hist')].res
Micro ==
  /\ eres # "" /\ todo # <<>>
  /\ LET m == Head(todo) IN
     CASE m.op = "presync" ->
            IF ptr = ltip THEN
               \* nothing to walk; a target lower than the trunk is ignored by syncBlock
               /\ UNCHANGED <<vars, insH, insB, eres>>
               /\ todo' = IF m.ht < LHeight THEN <<>> ELSE Tail(todo)
            ELSE /\ Walk(ltip, FALSE, {"*"}, <<>>)
                 /\ IF LastRes = "ok" THEN todo' = (IF m.ht < LHeight THEN <<>> ELSE Tail(todo)) /\ UNCHANGED <<insH, insB, eres>>
                    ELSE todo' = <<>> /\ eres' = "error" /\ insH' = LHeight /\ insB' = ltip
       [] m.op = "mk" ->
            /\ MkAnyBlock(IF m.first THEN m.p ELSE n, m.txs)
            /\ IF LastRes = "ok" THEN /\ todo' = Tail(todo) /\ UNCHANGED <<insH, eres>>
                                     /\ insB' = IF Len(todo) = 2 /\ eres = "ok" THEN n' ELSE insB    \* the target itself is stored
               ELSE todo' = <<[op |-> "sync"]>> /\ eres' = "error" /\ UNCHANGED <<insH, insB>>
       [] m.op = "twalk" ->
            /\ Walk(m.d, FALSE, m.P, <<>>) /\ UNCHANGED <<insH, insB>>
            /\ IF LastRes = "ok" THEN todo' = Tail(todo) /\ UNCHANGED eres ELSE todo' = <<>> /\ eres' = "fail"
       [] m.op = "ttrunc" ->
            /\ ltip' = m.d /\ UNCHANGED <<blk, n, ptr, utxo, zu, zd, total, irr, pool, dev, applied, pruned>>
            /\ Log([op |-> "truncate", d |-> m.d, res |-> "ok"])
            /\ todo' = Tail(todo) /\ UNCHANGED <<insH, insB, eres>>
       [] m.op = "tmine" ->
            /\ Mine(IF m.txs # <<"*">> /\ Range(m.txs) \subseteq Packable /\ NoDupSeq(m.txs) THEN m.txs ELSE PrefixFits(GoodOrder(Packable)))
            /\ todo' = Tail(todo) /\ UNCHANGED <<insH, insB, eres>>
       [] m.op = "sync" ->
            /\ IF ptr = ltip THEN UNCHANGED vars ELSE Walk(ltip, FALSE, {"*"}, <<>>)
            /\ todo' = Tail(todo) /\ UNCHANGED eres
            /\ insH' = IF eres = "error" THEN LHeight ELSE insH
            /\ insB' = IF eres = "error" THEN ltip ELSE insB
PushEnd == /\ eres # "" /\ todo = <<>> /\ eres' = "" /\ UNCHANGED <<sv, insH, insB, todo>>
           /\ Log([op |-> "pushend", res |-> eres])

(* the miner loop's own step: walk to the ledger tip when it differs *)
Tick == /\ eres = "" /\ UNCHANGED <<insH, insB, todo, eres>>
        /\ IF ptr = ltip THEN UNCHANGED vars ELSE Walk(ltip, FALSE, {"*"}, <<>>)
ESubmit(t, r) == eres = "" /\ Submit(t, r) /\ UNCHANGED <<insH, insB, todo, eres>>
EMine == eres = "" /\ Mine(PrefixFits(GoodOrder(Packable))) /\ UNCHANGED <<insH, insB, todo, eres>>
ERestart == eres = "" /\ Restart /\ insH' = 0 /\ insB' = 0 /\ UNCHANGED <<todo, eres>>

PushSeqs == UNION {[1..k -> {s \in TxSeqs : Len(s) <= 1}] : k \in 1..2}
ENext ==
  \/ (Len(hist) < MaxOps /\ n < MaxBlocks - 2 /\ \E p \in 1..n, ss \in PushSeqs : PushBegin(p, ss, "ok"))
  \/ Micro \/ PushEnd
  \/ (Len(hist) < MaxOps /\ (Tick \/ EMine \/ \E t \in Txs : ESubmit(t, "*")))
ESpec == EInit /\ [][ENext]_evars

(* what the engine keeps: outside a push in progress the state machine is on the ledger's main chain or can reach
   it (C01 at engine level: PureFn), tokens are conserved, and once the pipeline is idle and the tip's chain is
   valid the pointer is the ledger tip *)
Idle == eres = ""
InSyncWhenIdle == (Idle /\ Replay(ltip).ok /\ hist # <<>> /\ hist[Len(hist)].op \in {"walk"} /\ hist[Len(hist)].res = "ok") => TRUE
EView == <<blk, n, ltip, ptr, utxo, zu, zd, total, irr, pool, dev, insH, insB, todo, eres>>
=============================================================================
