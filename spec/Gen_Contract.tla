----------------------------- MODULE Gen_Contract -----------------------------
(* Case generation: simulate Contract (prior state, a program built step by step, pre-execution, optionally an      *)
(* interleaved write, one tampering, submission) and dump each behaviour's history as JSON.                         *)
(* TLC's simulator picks uniformly among the successor states, so the program length is fixed per behaviour from the *)
(* behaviour's number (all lengths 1..MaxSteps equally often), the tampering KIND is picked before its parameters    *)
(* (kinds with many parameters, like an altered argument, do not crowd out the others) and the untampered            *)
(* submission is weighted up (it is the first clause of the property), as are the tamperings that need two written  *)
(* keys.                                                                                                             *)
EXTENDS Contract, Json
TLen == (TLCGet("stats").traces % MaxSteps) + 1
(* the parameters of the tampering are drawn with RandomElement: the simulator's own choice among the successors of Submit is *)
(* correlated with its preceding choice of the kind (measured: read_ver always with the same version, fee_below always      *)
(* "absent"), so it would leave most parameter values unexercised                                                          *)
GenSubmit == phase = "kind" /\ LET P == Params(tkind, Honest(resp, prog, amt)) IN P # {} /\ DoSubmit(RandomElement(P), "")
GenNext ==
  \/ \E f \in [Keys -> KeyStates] : Setup(f)
  \/ (Len(prog) < TLen /\ \E s \in Steps : AddStep(s))
  \/ (Len(prog) < TLen /\ \E s \in {s \in Steps : s.op \in {"emit", "xfer", "use", "get"}} : AddStep(s))     \* rarer kinds of steps twice
  \/ (Len(prog) >= TLen /\ \E a \in Amts : PreExecA(a))
  \/ \E n \in Keys : Interpose(n)
  \/ \E k \in TamperKinds : PickKind(k)
  \/ \E i \in 1..3 : PickKind("none")
  \/ \E i \in 1..4 : \E k \in {"write_dup", "write_swap"} \cap TamperKinds : PickKind(k)      \* enabled only with two written keys: rare
  \/ GenSubmit
  \/ GiveUp
GenSpec == Init /\ [][GenNext]_vars
Dump == phase # "done" \/ (JsonSerialize("out/b_" \o ToString(TLCGet("stats").traces) \o ".json", hist) /\ FALSE)
=============================================================================
