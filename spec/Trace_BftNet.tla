---------------------------- MODULE Trace_BftNet ----------------------------
(* Trace validation of a network of real Smr instances against BftNet.tla.  Every line is one step of a schedule  *)
(* (one handler call on one replica, or an injection of the byzantine validator); the line carries the result     *)
(* class, the messages the acting replica sent (as abstract records) and the projection of EVERY replica after    *)
(* the step.  The specification is deterministic given the line, so a divergence names expected vs recorded.      *)
(* dev collects the named deviations KF_xxx that changed    the outcome of a step: the handler applied with the      *)
(* deviation switched off gives another successor or other messages.                                              *)
EXTENDS BftNet, Json
VARIABLES l, div, dev
Trace == ndJsonDeserialize("trace.ndjson")
NoDiv == [at |-> 0]
tvars == <<nvars, l, div, dev>>
TInit == NInit /\ l = 1 /\ div = NoDiv /\ dev = {} /\ TLCSet(1, 1) /\ TLCSet(2, NoDiv) /\ TLCSet(3, {})

Act(ev) ==
  CASE ev.op = "init"     -> NReset
    [] ev.op = "propose"  -> NPropose(ev.r)
    [] ev.op = "confirm"  -> NConfirm(ev.r, ev.p)
    [] ev.op = "dprop"    -> NDeliverProp(ev.to, ev.p)
    [] ev.op = "dvote"    -> NDeliverVote(ev.to, ev.p, ev.src)
    [] ev.op = "rollback" -> NRollback(ev.r, ev.t)
    [] ev.op = "byzvote"  -> NByzVote(ev.to, ev.p)
    [] ev.op = "byzprop"  -> NByzProp(ev.q, ev.cf)

(* the deviations in force with one switched off *)
Off(n) == [KAct EXCEPT ![n] = FALSE]
Differs(ev, k) ==
  CASE ev.op = "propose" /\ ev.r \in Reps ->
         JustifyOf(rep[ev.r], ev.r, voted[ev.r], KAct) # JustifyOf(rep[ev.r], ev.r, voted[ev.r], k)
    [] ev.op = "confirm" /\ ev.r \in Reps /\ ev.p \in Props ->
         ConfirmF(rep[ev.r], ev.r, ev.p, pj[ev.p], KAct) # ConfirmF(rep[ev.r], ev.r, ev.p, pj[ev.p], k)
    [] ev.op = "dprop" /\ ev.to \in Reps /\ ev.p \in Props /\ PropMsg(ev.to, ev.p) \in pmsgs ->
         HandleProp(rep[ev.to], ev.to, ev.p, pj[ev.p], KAct) # HandleProp(rep[ev.to], ev.to, ev.p, pj[ev.p], k)
    [] ev.op = "dvote" /\ ev.to \in Reps /\ ev.p \in Props /\ VoteMsgRec(ev.to, ev.p, ev.src) \in vmsgs ->
         HandleVote(rep[ev.to], ev.to, ev.p, ev.src, ev.p \in voted[ev.to], KAct)
           # HandleVote(rep[ev.to], ev.to, ev.p, ev.src, ev.p \in voted[ev.to], k)
    [] OTHER -> FALSE
KFNames == [vw |-> "KF_VoteWindow", lw |-> "KF_LockWindow", ic |-> "KF_ImplicitCollector",
            st |-> "KF_StaleMarkers", fm |-> "KF_OrphanFirstMatchOnly"]
Used(ev) == {KFNames[n] : n \in {n \in DOMAIN KAct : KAct[n] /\ Differs(ev, Off(n))}}

BadReps(ev) == {r \in Reps : ev.obs[r] # NObs'[r]}
TStep ==
  /\ l <= Len(Trace) /\ div = NoDiv
  /\ LET ev == Trace[l] IN
     /\ Act(ev)
     /\ dev' = IF ev.op = "init" THEN dev ELSE dev \cup Used(ev)
     /\ div' = IF ev.op = "init"
               THEN IF BadReps(ev) = {} THEN NoDiv
                    ELSE [at |-> l, tr |-> ev.tr, op |-> ev.op, expres |-> "ok", actres |-> ev.res, which |-> "obs",
                          node |-> CHOOSE r \in BadReps(ev) : TRUE, exp |-> NObs'[CHOOSE r \in BadReps(ev) : TRUE],
                          act |-> ev.obs[CHOOSE r \in BadReps(ev) : TRUE]]
               ELSE LET h == hist'[Len(hist')] IN
                    IF h.res # ev.res
                    THEN [at |-> l, tr |-> ev.tr, op |-> ev.op, expres |-> h.res, actres |-> ev.res, which |-> "res",
                          node |-> 0, exp |-> [res |-> h.res], act |-> [res |-> ev.res]]
                    ELSE IF h.sp # ev.sp \/ h.sv # ev.sv
                    THEN [at |-> l, tr |-> ev.tr, op |-> ev.op, expres |-> h.res, actres |-> ev.res, which |-> "sent",
                          node |-> 0, exp |-> [sp |-> h.sp, sv |-> h.sv], act |-> [sp |-> ev.sp, sv |-> ev.sv]]
                    ELSE IF BadReps(ev) # {}
                    THEN LET r == CHOOSE r \in BadReps(ev) : TRUE IN
                         [at |-> l, tr |-> ev.tr, op |-> ev.op, expres |-> h.res, actres |-> ev.res, which |-> "obs",
                          node |-> r, exp |-> NObs'[r], act |-> ev.obs[r]]
                    ELSE NoDiv
  /\ l' = l + 1
TSpec == TInit /\ [][TStep]_tvars

Book ==
  /\ (div = NoDiv /\ l > TLCGet(1)) => TLCSet(1, l)
  /\ (div # NoDiv /\ (TLCGet(2) = NoDiv \/ TLCGet(2).at < div.at)) => TLCSet(2, div)
  /\ TLCSet(3, TLCGet(3) \cup dev)
Post == JsonSerialize("result.json", <<[hw |-> TLCGet(1), len |-> Len(Trace), div |-> TLCGet(2), dev |-> SetToSeq(TLCGet(3))]>>)
=============================================================================
