SPECIFICATION NSpec
CONSTANTS
  NP = 1
  MaxOps = 100000000
  Pace = TRUE
  MaxLevel = 1000000
  NVoters = 3
  NR = 4
  Live = {1, 2, 3}
  Byz = 0
  MaxProps = 2
  MaxView = 2
  AnyProposer = TRUE
  WithConfirm = TRUE
  WithRollback = TRUE
  OncePerHigh = FALSE
  MaxLag = 1000
  LogOn = TRUE
  KF_OrphanFirstMatchOnly = FALSE
  KF_StaleMarkers = FALSE
  KF_VoteWindow = FALSE
  KF_LockWindow = FALSE
  KF_ImplicitCollector = FALSE
INVARIANTS NTypeOK TreesOK CommitSafety VoteOnce QuorumBacked OneQCPerView LockIsPref WindowsShadowed
PROPERTIES NHighMonotone NRootMoves NCommitStable NPaceMonotone NVotesRise NLockSafe NHighBacked
VIEW NView
CHECK_DEADLOCK FALSE
