------------------------------ MODULE SpinLock ------------------------------
(***************************************************************************)
(* C12: concurrent State.DoTx / SelectUtxos / PlayAndRepost calls at the   *)
(* granularity of the lock protocol's atomic steps.                        *)
(*                                                                         *)
(*  - per-key try-locks of utxo/spin_lock.go: TryLock = per key            *)
(*    LoadOrStore, then (shared keys) refCounter.Add; Unlock = per key     *)
(*    (reverse order) Delete, or (shared keys) refCounter.Release and,     *)
(*    when the count reached 0, Delete;                                    *)
(*  - doTxSync of state/state.go: RLock, ExtractLockKeys, TryLock          *)
(*    all-or-fail, pool check, doTxInternal (validate against the stored   *)
(*    state, fill the batch), batch write, publish, Unlock, RUnlock;       *)
(*  - SelectUtxos of utxo/utxo.go: per candidate output tryLockKey under   *)
(*    MutexMem, release of the taken locks when the amount is not reached; *)
(*  - PlayAndRepost: utxo.Mutex.Lock (waits for the readers, bars new      *)
(*    ones), the whole play, Unlock.                                       *)
(*                                                                         *)
(* A process label is the hook site (/repo build tag verif: utxo.VerifYield,*)
(* state.VerifHook, plus the harness's own "begin" / "verified" / "done")  *)
(* at which the real goroutine is parked; one step = release the goroutine *)
(* until it parks again.  hist is the schedule: <<process, site, key>>.    *)
(*                                                                         *)
(* KF_SharedLockRefCountRace = TRUE : the code's two-step protocol         *)
(* (ACTUAL); FALSE: LoadOrStore+Add and Release+Delete are atomic (IDEAL,  *)
(* the sites *_before_add / *_before_delete do not exist).                 *)
(***************************************************************************)
EXTENDS Integers, Sequences, FiniteSets, TLC, SequencesExt, FiniteSetsExt

CONSTANTS KF_SharedLockRefCountRace,
          Sizes,       \* numbers of concurrent requests, e.g. {2, 3}
          KvPool,      \* requests of family "kv"  (sequence of request names)
          TokPool,     \* requests of family "tok"
          Extra,       \* additional hand-picked scenarios (set of sequences of request names)
          GFirst,      \* lock keys of genesis outputs sort before those of other transactions (raw txid order)
          SelDet,      \* selectors visit candidate outputs in one fixed order (generation) / any order (MC)
          LogOn        \* record the schedule in hist (off for liveness checking, which cannot use a VIEW)

None == "none"
NoRd == "-"
Keys == {"k1", "k2", "k3"}
KeySeq == <<"k1", "k2", "k3">>
Addrs == <<"a", "b", "c", "m">>
NoKV == [k \in Keys |-> NoRd]

(* ---- transaction catalogue (exported to the Go concretiser by Gen_SpinLock) ------------------- *)
Out(to, amt) == [to |-> to, amt |-> amt]
Tok(ins, outs) == [ins |-> ins, outs |-> outs, reads |-> NoKV, writes |-> NoKV]
KV(r, w) == [ins |-> {}, outs |-> <<>>, reads |-> r @@ NoKV, writes |-> w @@ NoKV]
TX == [
  t0  |-> Tok({<<"g", 1>>}, <<Out("a", 2), Out("a", 4)>>),                 \* prelude of family tok: a owns g.0, t0.0, t0.1
  t1  |-> Tok({<<"g", 0>>}, <<Out("b", 4), Out("a", 6)>>),
  t2  |-> Tok({<<"t1", 0>>}, <<Out("c", 4)>>),                           \* child of t1 (its input key is t1's output key)
  t3  |-> Tok({<<"g", 0>>}, <<Out("c", 10)>>),                           \* same output as t1
  t4  |-> Tok({<<"t0", 1>>}, <<Out("c", 4)>>),                           \* independent of t1 / t3
  t8  |-> Tok({<<"g", 0>>, <<"t0", 1>>}, <<Out("c", 14)>>),              \* two inputs: partial-lock patterns
  p1  |-> KV("k1" :> None, "k1" :> "v1"),                              \* prelude of family kv: creates k1
  p2  |-> KV("k1" :> "p1", "k1" :> "v2"),                              \* writer of k1
  p3  |-> KV("k1" :> "p1", "k1" :> "v3"),                              \* second writer of the same version
  p5  |-> KV("k1" :> "p1", NoKV),                                      \* read-only sharer of k1
  p6  |-> KV("k1" :> "p1", NoKV),                                      \* second sharer
  p7  |-> KV("k2" :> None, "k2" :> "w1"),                              \* independent key
  p8  |-> KV(("k1" :> "p1") @@ ("k2" :> None), "k2" :> "w2"),          \* shares k1, writes k2
  p9  |-> KV(("k1" :> "p1") @@ ("k2" :> None), "k1" :> "v9"),          \* writes k1, shares k2 (write skew with p8)
  p10 |-> KV(("k1" :> "p1") @@ ("k2" :> None) @@ ("k3" :> None), "k3" :> "x1")   \* three keys: S, S, X
]
GenesisOuts == <<Out("a", 10), Out("b", 6)>>
GenesisTotal == 16
Award == 1
OutsOf(t) == IF t = "g" THEN GenesisOuts ELSE IF t = "aw2" THEN <<Out("m", Award)>> ELSE TX[t].outs
OutIds(t) == {<<t, i - 1>> : i \in DOMAIN OutsOf(t)}
AllOuts == UNION {OutIds(t) : t \in DOMAIN TX \cup {"g", "aw2"}}
Owner(u) == OutsOf(u[1])[u[2] + 1].to
Amt(u) == OutsOf(u[1])[u[2] + 1].amt
SumAmt(S) == FoldSet(LAMBDA u, acc : acc + Amt(u), 0, S)

(* ---- requests ---------------------------------------------------------------------------------- *)
DoReq(t) == [ty |-> "dotx", t |-> t, a |-> "-", need |-> 0, lk |-> FALSE, b |-> <<>>]
SelReq(a, need, lk) == [ty |-> "sel", t |-> "-", a |-> a, need |-> need, lk |-> lk, b |-> <<>>]
PlayReq(b) == [ty |-> "play", t |-> "-", a |-> "-", need |-> 0, lk |-> FALSE, b |-> b]
ReqDef == [t \in DOMAIN TX |-> DoReq(t)] @@
  [ sa10 |-> SelReq("a", 10, TRUE),        \* a owns 10 + 2 + 4
    sa4  |-> SelReq("a", 4, TRUE),
    sa16 |-> SelReq("a", 16, TRUE),
    sn4  |-> SelReq("a", 4, FALSE),        \* without locking: skips locked outputs
    play3 |-> PlayReq(<<"t3">>) ]          \* peer block 2 = [award, t3] on the root block
Fam == [kv |-> [pre |-> <<"p1">>], tok |-> [pre |-> <<"t0">>]]
KvPoolFull  == <<"p2", "p3", "p5", "p6", "p7", "p8", "p9", "p10">>
TokPoolFull == <<"t1", "t2", "t3", "t4", "t8", "sa10", "sa4", "sa16", "sn4", "play3">>
KvPoolSmall  == <<"p2", "p3", "p5", "p6", "p8", "p9">>
TokPoolSmall == <<"t1", "t2", "t3", "t8", "sa10", "sa4", "play3">>
KvNames == Range(KvPoolFull)
FamOf(scn) == IF scn[1] \in KvNames THEN "kv" ELSE "tok"
(* all multisets (non-decreasing index sequences) of n requests of one pool, at most one play *)
Multisets(pool, n) ==
  {[i \in 1..n |-> pool[f[i]]] : f \in {g \in [1..n -> 1..Len(pool)] : \A i \in 1..(n - 1) : g[i] <= g[i + 1]}}
OnePlay(scn) == Cardinality({i \in DOMAIN scn : ReqDef[scn[i]].ty = "play"}) <= 1
Scenarios == {s \in UNION {Multisets(KvPool, n) \cup Multisets(TokPool, n) : n \in Sizes} : OnePlay(s)} \cup Extra
NoExtra == {}
Race3 == {<<"p2", "p5", "p6">>}
Race4 == {<<"p2", "p3", "p5", "p6">>}
Three == {<<"p2", "p5", "p6">>, <<"p2", "p8", "p9">>, <<"p3", "p5", "p10">>, <<"t1", "t3", "t8">>, <<"t1", "t2", "play3">>, <<"t3", "t8", "sa10">>, <<"sa10", "sa4", "sa16">>}
FourProc == {<<"p2", "p3", "p5", "p6">>, <<"p2", "p5", "p8", "p9">>, <<"p5", "p6", "p8", "p10">>, <<"p2", "p7", "p8", "p9">>,
             <<"t1", "t2", "t3", "sa10">>, <<"t1", "t8", "sa4", "play3">>, <<"t3", "sa10", "sa16", "play3">>,
             <<"t1", "t3", "t4", "t8">>, <<"sa10", "sa4", "sa16", "sn4">>}

(* ---- lock keys: ExtractLockKeys ------------------------------------------------------------------ *)
(* inputs and own outputs exclusive; keys only read shared; keys written exclusive; sorted by the raw  *)
(* key string (the concretiser signs until the raw txids are ordered like the ranks below)             *)
TxRank == [g |-> IF GFirst THEN 0 ELSE 90, t0 |-> 1, t1 |-> 2, t2 |-> 3, t3 |-> 4, t4 |-> 5, t8 |-> 6]
KeyIdx == [k1 |-> 1, k2 |-> 2, k3 |-> 3]
UKey(u) == [k |-> u[1] \o "_" \o ToString(u[2]), m |-> "X", r |-> TxRank[u[1]] * 10 + u[2]]
LockSet(t) ==
  {UKey(u) : u \in TX[t].ins \cup OutIds(t)} \cup
  {[k |-> k, m |-> IF TX[t].writes[k] # NoRd THEN "X" ELSE "S", r |-> 1000 + KeyIdx[k]] :
      k \in {k \in Keys : TX[t].reads[k] # NoRd \/ TX[t].writes[k] # NoRd}}
LK == [t \in DOMAIN TX |-> SetToSortSeq(LockSet(t), LAMBDA x, y : x.r < y.r)]
LockNames == UNION {{x.k : x \in LockSet(t)} : t \in DOMAIN TX}
LockConflict(t, u) == \E x \in LockSet(t), y \in LockSet(u) : x.k = y.k /\ (x.m = "X" \/ y.m = "X")

(* ---- one-at-a-time semantics (what a serial execution does; cf. XState.tla Valid / Apply / Play) -- *)
S0 == [utxo |-> OutIds("g"), ver |-> [k \in Keys |-> None], pool |-> {}, total |-> GenesisTotal, ptr |-> 1]
TokenOK(s, t) == TX[t].ins \subseteq s.utxo
ReadsOKW(s, t, waived) == \A k \in Keys : TX[t].reads[k] # NoRd => (s.ver[k] = TX[t].reads[k] \/ k \in waived)
ReadsOK(s, t) == ReadsOKW(s, t, {})
Valid(s, t) == TokenOK(s, t) /\ ReadsOK(s, t)
RealOuts(t) == {u \in OutIds(t) : Amt(u) > 0}
(* the batch of doTxInternal depends on the transaction only *)
Write(s, t) == [s EXCEPT !.utxo = (@ \ TX[t].ins) \cup RealOuts(t),
                         !.ver = [k \in Keys |-> IF TX[t].writes[k] # NoRd THEN t ELSE @[k]]]
Apply(s, t) == [Write(s, t) EXCEPT !.pool = @ \cup {t}]
Unapply(s, t) == [s EXCEPT !.utxo = (@ \ RealOuts(t)) \cup TX[t].ins,
                           !.ver = [k \in Keys |-> IF TX[t].writes[k] # NoRd THEN TX[t].reads[k] ELSE @[k]],
                           !.pool = @ \ {t}]
ApplySeq(s, seq) == FoldLeft(LAMBDA acc, t : Apply(acc, t), s, seq)
Start(fam) == ApplySeq(S0, Fam[fam].pre)
DependsOn(t, u) == (\E i \in TX[t].ins : i[1] = u) \/ (\E k \in Keys : TX[t].reads[k] = u)
Idx(n) == [i \in 1..n |-> i]
(* consumers first *)
UndoOrder(S) ==
  FoldLeft(LAMBDA acc, i : LET c == CHOOSE c \in acc.rest : ~\E u \in acc.rest \ {c} : DependsOn(u, c) IN
                           [rest |-> acc.rest \ {c}, seq |-> Append(acc.seq, c)],
           [rest |-> S, seq |-> <<>>], Idx(Cardinality(S))).seq
UndoSet(s, S) == FoldLeft(LAMBDA acc, t : Unapply(acc, t), s, UndoOrder(S))
Closure(s, S) == FoldLeft(LAMBDA acc, i : acc \cup {t \in s.pool : \E u \in acc : DependsOn(t, u)}, S, Idx(Cardinality(s.pool)))
(* PlayAndRepost of block 2 = [award, bt] on the root: pending transactions that spend an input of the block are
   undone together with their descendants (the selection locks of the outputs they had spent are released: the
   outputs are free again), block transactions that are pending are confirmed, the others applied *)
PlaySeq(s, bt) ==
  IF s.ptr # 1 THEN [ok |-> FALSE, s |-> s, rel |-> {}]
  ELSE LET inb == Range(bt)
           bins == UNION {TX[t].ins : t \in inb}
           undone == Closure(s, {u \in s.pool \ inb : TX[u].ins \cap bins # {}})
           keep == s.pool \cap inb
           base == UndoSet(s, undone)
           r == FoldLeft(LAMBDA acc, t : IF ~acc.ok \/ t \in keep THEN acc
                                         ELSE IF Valid(acc.s, t) THEN [ok |-> TRUE, s |-> Write(acc.s, t)]
                                         ELSE [ok |-> FALSE, s |-> acc.s],
                         [ok |-> TRUE, s |-> base], bt) IN
       IF ~r.ok THEN [ok |-> FALSE, s |-> s, rel |-> {}]
       ELSE [ok |-> TRUE, s |-> [r.s EXCEPT !.utxo = @ \cup OutIds("aw2"), !.total = @ + Award, !.ptr = 2, !.pool = @ \ keep],
             rel |-> UNION {TX[u].ins : u \in undone}]       \* undoTxInternal: UnlockKey of every restored input

(* ---- the step model ------------------------------------------------------------------------------ *)
VARIABLES sc,      \* the scenario: process p executes request sc[p]
          pc,      \* process -> site at which it is parked
          ki,      \* process -> index of the lock key in work (TryLock: in LK, Unlock: in held)
          held,    \* process -> succLockKeys
          lm, ref, \* SpinLock.m (key -> none / S / X), refCounter
          rwR, rwWait, \* utxo.Mutex: processes holding the read lock; writers that have called Lock()
          sel,     \* utxo.lockKeys: output -> selector holding it (0 = not locked)
          scan,    \* selector -> [vis, got, acc]
          db,      \* the stored state incl. the published pool (UnconfirmTxInMem)
          res,     \* process -> [c |-> result class, outs |-> selected outputs]
          released, \* outputs whose selection lock was released by an undo (history)
          hist
vars == <<sc, pc, ki, held, lm, ref, rwR, rwWait, sel, scan, db, res, released, hist>>
Procs == DOMAIN sc
Req(p) == ReqDef[sc[p]]
T(p) == Req(p).t
NK(p) == Len(LK[T(p)])
NoRes == [c |-> "-", outs |-> {}]

InitFor(scn) ==
  /\ sc = scn
  /\ pc = [p \in DOMAIN scn |-> "begin"] /\ ki = [p \in DOMAIN scn |-> 0] /\ held = [p \in DOMAIN scn |-> <<>>]
  /\ lm = [k \in LockNames |-> None] /\ ref = [k \in LockNames |-> 0]
  /\ rwR = {} /\ rwWait = {}
  /\ sel = [u \in AllOuts |-> 0]
  /\ scan = [p \in DOMAIN scn |-> [vis |-> {}, got |-> {}, acc |-> 0]]
  /\ db = Start(FamOf(scn))
  /\ res = [p \in DOMAIN scn |-> NoRes]
  /\ released = {}
  /\ hist = <<>>
Init == \E scn \in Scenarios : InitFor(scn)

Goto(p, l) == pc' = [pc EXCEPT ![p] = l]
SetRes(p, c) == res' = [res EXCEPT ![p] = [c |-> c, outs |-> {}]]
Two == KF_SharedLockRefCountRace

(* VerifyTx (outside every lock): the versions a contract transaction read must be the stored ones *)
Verify(p) ==
  /\ pc[p] = "begin" /\ Req(p).ty = "dotx"
  /\ IF ReadsOK(db, T(p)) THEN Goto(p, "verified") /\ UNCHANGED res
     ELSE Goto(p, "done") /\ SetRes(p, "stale")
  /\ UNCHANGED <<sc, ki, held, lm, ref, rwR, rwWait, sel, scan, db, released>>
(* DoTx: RLock (not granted while a writer holds or waits for the mutex), ExtractLockKeys *)
AcquireR(p) ==
  /\ pc[p] = "verified" /\ rwWait = {}
  /\ rwR' = rwR \cup {p} /\ Goto(p, "dotx_before_trylock")
  /\ UNCHANGED <<sc, ki, held, lm, ref, rwWait, sel, scan, db, res, released>>
EnterTryLock(p) ==
  /\ pc[p] = "dotx_before_trylock"
  /\ IF NK(p) = 0 THEN Goto(p, "dotx_locked") /\ UNCHANGED ki ELSE Goto(p, "trylock_key") /\ ki' = [ki EXCEPT ![p] = 1]
  /\ UNCHANGED <<sc, held, lm, ref, rwR, rwWait, sel, scan, db, res, released>>
(* key i is locked: next key, or TryLock returns true *)
Advance(p, i, L) ==
  /\ held' = [held EXCEPT ![p] = Append(@, L)]
  /\ IF i < NK(p) THEN Goto(p, "trylock_key") /\ ki' = [ki EXCEPT ![p] = i + 1] ELSE Goto(p, "dotx_locked") /\ UNCHANGED ki
TryKey(p) ==
  /\ pc[p] = "trylock_key"
  /\ LET i == ki[p]
         L == LK[T(p)][i]
         cur == lm[L.k] IN
     IF cur = None
     THEN /\ lm' = [lm EXCEPT ![L.k] = L.m]                                   \* LoadOrStore stored
          /\ IF Two /\ L.m = "S" THEN Goto(p, "trylock_first_before_add") /\ UNCHANGED <<ref, held, ki>>
             ELSE ref' = (IF L.m = "S" THEN [ref EXCEPT ![L.k] = @ + 1] ELSE ref) /\ Advance(p, i, L)
          /\ UNCHANGED res
     ELSE IF cur = "S" /\ L.m = "S"
     THEN /\ IF Two THEN Goto(p, "trylock_shared_before_add") /\ UNCHANGED <<ref, held, ki>>
             ELSE ref' = [ref EXCEPT ![L.k] = @ + 1] /\ Advance(p, i, L)
          /\ UNCHANGED <<lm, res>>
     ELSE Goto(p, "dotx_before_unlock") /\ SetRes(p, "busy") /\ UNCHANGED <<lm, ref, held, ki>>   \* TryLock returns false
  /\ UNCHANGED <<sc, rwR, rwWait, sel, scan, db, released>>
RefAdd(p) ==
  /\ pc[p] \in {"trylock_first_before_add", "trylock_shared_before_add"}
  /\ LET L == LK[T(p)][ki[p]] IN ref' = [ref EXCEPT ![L.k] = @ + 1] /\ Advance(p, ki[p], L)
  /\ UNCHANGED <<sc, lm, rwR, rwWait, sel, scan, db, res, released>>
(* critical section *)
CheckPool(p) ==
  /\ pc[p] = "dotx_locked"
  /\ IF T(p) \in db.pool THEN Goto(p, "dotx_before_unlock") /\ SetRes(p, "stale") ELSE Goto(p, "dotx_before_apply") /\ UNCHANGED res
  /\ UNCHANGED <<sc, ki, held, lm, ref, rwR, rwWait, sel, scan, db, released>>
VerifyAndApply(p) ==
  /\ pc[p] = "dotx_before_apply"
  /\ IF Valid(db, T(p)) THEN Goto(p, "dotx_before_write") /\ UNCHANGED res ELSE Goto(p, "dotx_before_unlock") /\ SetRes(p, "stale")
  /\ UNCHANGED <<sc, ki, held, lm, ref, rwR, rwWait, sel, scan, db, released>>
BatchWrite(p) ==
  /\ pc[p] = "dotx_before_write"
  /\ db' = Write(db, T(p)) /\ Goto(p, "dotx_after_write")
  /\ UNCHANGED <<sc, ki, held, lm, ref, rwR, rwWait, sel, scan, res, released>>
Publish(p) ==
  /\ pc[p] = "dotx_after_write"
  /\ db' = [db EXCEPT !.pool = @ \cup {T(p)}] /\ SetRes(p, "admit") /\ Goto(p, "dotx_before_unlock")
  /\ UNCHANGED <<sc, ki, held, lm, ref, rwR, rwWait, sel, scan, released>>
(* Unlock (reverse order), then RUnlock and return *)
Finish(p) == Goto(p, "done") /\ rwR' = rwR \ {p}
NextU(p, j) == IF j > 1 THEN Goto(p, "unlock_key") /\ ki' = [ki EXCEPT ![p] = j - 1] /\ UNCHANGED rwR ELSE Finish(p) /\ UNCHANGED ki
EnterUnlock(p) ==
  /\ pc[p] = "dotx_before_unlock"
  /\ IF held[p] = <<>> THEN Finish(p) /\ UNCHANGED ki
     ELSE Goto(p, "unlock_key") /\ ki' = [ki EXCEPT ![p] = Len(held[p])] /\ UNCHANGED rwR
  /\ UNCHANGED <<sc, held, lm, ref, rwWait, sel, scan, db, res, released>>
UnlockKey(p) ==
  /\ pc[p] = "unlock_key"
  /\ LET j == ki[p]
         L == held[p][j] IN
     IF L.m = "X" THEN lm' = [lm EXCEPT ![L.k] = None] /\ UNCHANGED ref /\ NextU(p, j)
     ELSE /\ ref' = [ref EXCEPT ![L.k] = @ - 1]                                \* Release
          /\ IF ref[L.k] - 1 # 0 THEN UNCHANGED lm /\ NextU(p, j)
             ELSE IF Two THEN Goto(p, "unlock_shared_before_delete") /\ UNCHANGED <<lm, ki, rwR>>
             ELSE lm' = [lm EXCEPT ![L.k] = None] /\ NextU(p, j)
  /\ UNCHANGED <<sc, held, rwWait, sel, scan, db, res, released>>
DeleteKey(p) ==
  /\ pc[p] = "unlock_shared_before_delete"
  /\ LET L == held[p][ki[p]] IN lm' = [lm EXCEPT ![L.k] = None] /\ NextU(p, ki[p])
  /\ UNCHANGED <<sc, held, ref, rwWait, sel, scan, db, res, released>>

(* SelectUtxos: one candidate output per step (tryLockKey / isLocked under MutexMem) *)
Cand(p) == {u \in db.utxo : Owner(u) = Req(p).a} \ scan[p].vis
First(S) == CHOOSE u \in S : \A v \in S : TxRank[u[1]] * 10 + u[2] <= TxRank[v[1]] * 10 + v[2]
SelScan(p) ==
  /\ pc[p] \in {"begin", "sel_scan"} /\ Req(p).ty = "sel"
  /\ IF Cand(p) = {}
     THEN /\ IF Req(p).lk /\ scan[p].got # {} THEN Goto(p, "sel_unlock") /\ UNCHANGED res
             ELSE Goto(p, "done") /\ SetRes(p, "nomoney")
          /\ UNCHANGED <<sel, scan>>
     ELSE \E u \in (IF SelDet THEN {First(Cand(p))} ELSE Cand(p)) :
          IF sel[u] # 0
          THEN scan' = [scan EXCEPT ![p].vis = @ \cup {u}] /\ Goto(p, "sel_scan") /\ UNCHANGED <<sel, res>>
          ELSE /\ sel' = IF Req(p).lk THEN [sel EXCEPT ![u] = p] ELSE sel
               /\ scan' = [scan EXCEPT ![p] = [vis |-> @.vis \cup {u}, got |-> @.got \cup {u}, acc |-> @.acc + Amt(u)]]
               /\ IF scan[p].acc + Amt(u) >= Req(p).need
                  THEN Goto(p, "done") /\ res' = [res EXCEPT ![p] = [c |-> "ok", outs |-> scan[p].got \cup {u}]]
                  ELSE Goto(p, "sel_scan") /\ UNCHANGED res
  /\ UNCHANGED <<sc, ki, held, lm, ref, rwR, rwWait, db, released>>
SelUnlock(p) ==
  /\ pc[p] = "sel_unlock"
  /\ LET u == First(scan[p].got) IN
     /\ sel' = [sel EXCEPT ![u] = 0] /\ scan' = [scan EXCEPT ![p].got = @ \ {u}]
     /\ IF scan[p].got = {u} THEN Goto(p, "done") /\ SetRes(p, "nomoney") ELSE UNCHANGED <<pc, res>>
  /\ UNCHANGED <<sc, ki, held, lm, ref, rwR, rwWait, db, released>>

(* PlayAndRepost: Lock() waits until the readers have left and bars new readers meanwhile; the play itself has
   no yield point (one step) *)
DoPlay(p) == LET r == PlaySeq(db, Req(p).b) IN
             /\ db' = r.s /\ SetRes(p, IF r.ok THEN "ok" ELSE "fail") /\ Goto(p, "done")
             /\ sel' = [u \in AllOuts |-> IF u \in r.rel THEN 0 ELSE sel[u]]
             /\ released' = released \cup r.rel
PlayBegin(p) ==
  /\ pc[p] = "begin" /\ Req(p).ty = "play"
  /\ IF rwR = {} /\ rwWait = {} THEN DoPlay(p) /\ UNCHANGED rwWait
     ELSE rwWait' = rwWait \cup {p} /\ Goto(p, "wlock") /\ UNCHANGED <<db, res, sel, released>>
  /\ UNCHANGED <<sc, ki, held, lm, ref, rwR, scan>>
WAcquire(p) ==
  /\ pc[p] = "wlock" /\ rwR = {}
  /\ DoPlay(p) /\ rwWait' = rwWait \ {p}
  /\ UNCHANGED <<sc, ki, held, lm, ref, rwR, scan>>

Step(p) == \/ Verify(p) \/ AcquireR(p) \/ EnterTryLock(p) \/ TryKey(p) \/ RefAdd(p) \/ CheckPool(p) \/ VerifyAndApply(p)
           \/ BatchWrite(p) \/ Publish(p) \/ EnterUnlock(p) \/ UnlockKey(p) \/ DeleteKey(p)
           \/ SelScan(p) \/ SelUnlock(p) \/ PlayBegin(p) \/ WAcquire(p)
(* the key a parked process is about to work on (part of the label) *)
KeyAt(p) == IF pc[p] \in {"trylock_key", "trylock_first_before_add", "trylock_shared_before_add"} THEN LK[T(p)][ki[p]].k
            ELSE IF pc[p] \in {"unlock_key", "unlock_shared_before_delete"} THEN held[p][ki[p]].k ELSE ""
AllDone == \A p \in Procs : pc[p] = "done"
(* a writer whose Lock() has just been granted is already running *)
Granted == {p \in Procs : pc[p] = "wlock" /\ rwR = {}}
Movers == IF Granted # {} THEN Granted ELSE Procs
Log(p) == hist' = IF LogOn THEN Append(hist, <<p, pc'[p], KeyAt(p)'>>) ELSE hist
Next == \/ \E p \in Movers : Step(p) /\ Log(p)
        \/ AllDone /\ UNCHANGED vars
Spec == Init /\ [][Next]_vars
FairSpec == Spec /\ WF_vars(Next)

-----------------------------------------------------------------------------
(* ---- outcome of a run: result classes and final observables -------------------------------------- *)
ObsOfDb(s) == [utxo |-> s.utxo, ver |-> s.ver, pool |-> s.pool, total |-> s.total, ptr |-> s.ptr]
Bal(s, a) == SumAmt({u \in s.utxo : Owner(u) = a})
RECURSIVE PermSeqs(_)
PermSeqs(S) == IF S = {} THEN {<<>>} ELSE UNION {{<<x>> \o q : q \in PermSeqs(S \ {x})} : x \in S}
Sharers(scn, k) == {p \in DOMAIN scn : ReqDef[scn[p]].ty = "dotx" /\ \E x \in LockSet(ReqDef[scn[p]].t) : x.k = k /\ x.m = "S"}
Writers(scn, k) == {p \in DOMAIN scn : ReqDef[scn[p]].ty = "dotx" /\ \E x \in LockSet(ReqDef[scn[p]].t) : x.k = k /\ x.m = "X"}
(* keys on which the reference-count protocol can break at all: two sharers and a writer among the requests *)
RaceKeys(scn) == {k \in Keys : Cardinality(Sharers(scn, k)) >= 2 /\ Writers(scn, k) # {}}

(* The outcome (R: process -> [c, outs], O: final observables) equals the result of SOME one-at-a-time order:
   the requests with an effect (admitted transactions, successful plays) applied in some order give exactly O;
   every refused request is refused in at least one of the states on the way (it has no effect, so it can be
   placed there).  Weaker reading (R6) for the try-lock: a transaction may be refused as "busy" (ErrDoubleSpent
   from TryLock) whenever another request of the run asks for a conflicting lock key, and a selection may fail
   or skip outputs while another selector of the same address is in flight (its locks are released again).
   waived: keys whose version check is not demanded (known deviation only). *)
OutcomeOK(scn, R, O, waived) ==
  LET P == DOMAIN scn
      rq(p) == ReqDef[scn[p]]
      (* the same transaction submitted twice: a transaction without any exclusive key (it only reads: no input, no
         output, no write) changes nothing, its submissions share every lock and may both pass the pool check; the
         second "admit" is then accepted like the refusal as a duplicate (the effect is the same: pending once) *)
      dupAdmit(p) == /\ rq(p).ty = "dotx" /\ R[p].c = "admit" /\ \A x \in LockSet(rq(p).t) : x.m = "S"
                     /\ \E q \in P : q < p /\ scn[q] = scn[p] /\ R[q].c = "admit"
      Eff == {p \in P : (rq(p).ty = "dotx" /\ R[p].c = "admit" /\ ~dupAdmit(p)) \/ (rq(p).ty = "play" /\ R[p].c = "ok")}
      exec(s, p) == IF rq(p).ty = "play" THEN PlaySeq(s, rq(p).b)
                    ELSE IF rq(p).t \notin s.pool /\ TokenOK(s, rq(p).t) /\ ReadsOKW(s, rq(p).t, waived)
                         THEN [ok |-> TRUE, s |-> Apply(s, rq(p).t)] ELSE [ok |-> FALSE, s |-> s]
      run(pi) == FoldLeft(LAMBDA acc, p : IF ~acc.ok THEN acc
                                          ELSE LET r == exec(acc.sts[Len(acc.sts)], p) IN
                                               IF r.ok THEN [ok |-> TRUE, sts |-> Append(acc.sts, r.s)] ELSE [acc EXCEPT !.ok = FALSE],
                          [ok |-> TRUE, sts |-> <<Start(FamOf(scn))>>], pi)
      refusedOK(sts, p) ==
        CASE R[p].c \in {"hang", "panic", "-"} -> FALSE
          [] R[p].c = "other" -> TRUE
          [] rq(p).ty = "dotx" /\ R[p].c = "stale" -> \E i \in DOMAIN sts : rq(p).t \in sts[i].pool \/ ~Valid(sts[i], rq(p).t)
          [] rq(p).ty = "dotx" /\ R[p].c = "busy" -> \E q \in P \ {p} : rq(q).ty = "dotx" /\ LockConflict(rq(p).t, rq(q).t)
          [] rq(p).ty = "play" /\ R[p].c = "fail" -> \E i \in DOMAIN sts : ~PlaySeq(sts[i], rq(p).b).ok
          [] rq(p).ty = "sel" ->
               LET others == {q \in P \ {p} : rq(q).ty = "sel" /\ rq(q).lk /\ rq(q).a = rq(p).a}
                   (* an undo (play) releases the selection locks of the outputs the undone transaction had spent *)
                   free == IF \E q \in P : rq(q).ty = "play" THEN UNION {TX[rq(q).t].ins : q \in {q \in P : rq(q).ty = "dotx"}} ELSE {}
                   ever == UNION {sts[i].utxo : i \in DOMAIN sts}
                   always == {u \in ever : \A i \in DOMAIN sts : u \in sts[i].utxo} IN
               IF R[p].c = "ok"
               THEN /\ R[p].outs \subseteq {u \in ever : Owner(u) = rq(p).a}
                    /\ SumAmt(R[p].outs) >= rq(p).need
                    /\ \E u \in R[p].outs : SumAmt(R[p].outs) - Amt(u) < rq(p).need
                    /\ rq(p).lk => \A q \in others : R[q].c = "ok" => R[q].outs \cap R[p].outs \subseteq free
               ELSE R[p].c = "nomoney" /\ (others # {} \/ SumAmt({u \in always : Owner(u) = rq(p).a}) < rq(p).need)
          [] OTHER -> p \in Eff \/ dupAdmit(p) IN
  \E pi \in PermSeqs(Eff) : \E r \in {run(pi)} :
     /\ r.ok
     /\ ObsOfDb(r.sts[Len(r.sts)]) = O
     /\ \A p \in P : refusedOK(r.sts, p)

(* after the run every DoTx request is issued once more, one at a time (State.DoTx directly): none may be refused
   for a lock (a lock that was not released), each behaves as on the final state *)
EpilogueOK(scn, O, E, O2) ==
  LET dos == SelectSeq(Idx(Len(scn)), LAMBDA p : ReqDef[scn[p]].ty = "dotx")
      r == FoldLeft(LAMBDA acc, i :
                      LET t == ReqDef[scn[dos[i]]].t
                          exp == IF t \notin acc.s.pool /\ Valid(acc.s, t) THEN "admit" ELSE "stale" IN
                      IF E[i] = "other" THEN acc
                      ELSE IF E[i] # exp THEN [acc EXCEPT !.ok = FALSE]
                      ELSE IF exp = "admit" THEN [acc EXCEPT !.s = Apply(acc.s, t)] ELSE acc,
                    [ok |-> TRUE, s |-> O], Idx(Len(dos))) IN
  Len(E) = Len(dos) /\ r.ok /\ r.s = O2

(* ---- what the parked goroutines show (sequence of <<process, site, key>> actually reached) ---------- *)
ConflictKeys(t, u) == {x.k : x \in {x \in LockSet(t) : \E y \in LockSet(u) : x.k = y.k /\ (x.m = "X" \/ y.m = "X")}}
(* keys on which two processes were inside the critical window (between dotx_locked and the first unlock) at the
   same time with conflicting lock modes *)
OverlapKeys(scn, steps) ==
  FoldLeft(LAMBDA acc, e :
             LET p == e[1] IN
             IF e[2] = "dotx_locked"
             THEN [in |-> acc.in \cup {p},
                   bad |-> acc.bad \cup UNION {ConflictKeys(ReqDef[scn[p]].t, ReqDef[scn[q]].t) : q \in acc.in \ {p}}]
             ELSE IF e[2] \in {"unlock_key", "done"} THEN [acc EXCEPT !.in = @ \ {p}] ELSE acc,
           [in |-> {}, bad |-> {}], steps).bad
(* keys on which the window of the reference-count protocol was hit: one process parked between LoadOrStore and
   refCounter.Add while another is parked between refCounter.Release (= 0) and Delete *)
RaceWindowKeys(scn, steps) ==
  FoldLeft(LAMBDA acc, e :
             LET at2 == [acc.at EXCEPT ![e[1]] = <<e[2], e[3]>>]
                 hit == {k \in Keys : \E p, q \in DOMAIN scn :
                            /\ at2[p] \in {<<"trylock_shared_before_add", k>>, <<"trylock_first_before_add", k>>}
                            /\ at2[q] = <<"unlock_shared_before_delete", k>>} IN
             [at |-> at2, keys |-> acc.keys \cup hit],
           [at |-> [p \in DOMAIN scn |-> <<"begin", "">>], keys |-> {}], steps).keys

(* ---- invariants ------------------------------------------------------------------------------------ *)
CSSites == {"dotx_locked", "dotx_before_apply", "dotx_before_write", "dotx_after_write", "dotx_before_unlock"}
InCS(p) == pc[p] \in CSSites /\ res[p].c # "busy"
(* shared / exclusive exclusion per key while in the critical section *)
Exclusion == \A p, q \in Procs : (p # q /\ InCS(p) /\ InCS(q)) => ~LockConflict(T(p), T(q))
(* the admitted set is conflict-free: no two admitted transactions spend the same output or supersede the same
   key version (C03) *)
Admitted == db.pool \cup (IF db.ptr = 2 THEN {"t3"} ELSE {})
ConflictFree == \A t, u \in Admitted : t # u =>
                   /\ TX[t].ins \cap TX[u].ins = {}
                   /\ \A k \in Keys : ~(TX[t].writes[k] # NoRd /\ TX[u].writes[k] # NoRd /\ TX[t].reads[k] = TX[u].reads[k])
(* an output selected with locking is held by at most one selector *)
LockSel(p) == Req(p).ty = "sel" /\ Req(p).lk
SelectorsDisjoint == \A p, q \in Procs : (p # q /\ LockSel(p) /\ LockSel(q)) =>
                        (scan[p].got \cup res[p].outs) \cap (scan[q].got \cup res[q].outs) \subseteq released
SelHeld == \A p \in Procs : LockSel(p) => \A u \in scan[p].got : sel[u] = p \/ u \in released
(* the final observable state equals the result of some serial order of the same requests *)
Serialisable == AllDone => OutcomeOK(sc, res, ObsOfDb(db), {})
(* nothing stays locked *)
Quiescent == AllDone => /\ \A k \in LockNames : lm[k] = None /\ ref[k] = 0
                        /\ rwR = {} /\ rwWait = {}
                        /\ \A u \in AllOuts : sel[u] # 0 => (res[sel[u]].c = "ok" /\ u \in res[sel[u]].outs)
                        /\ \A p \in Procs : (LockSel(p) /\ res[p].c = "ok") => \A u \in res[p].outs : sel[u] = p \/ u \in released
TypeOK == /\ \A k \in LockNames : lm[k] \in {None, "S", "X"} /\ ref[k] \in 0..Cardinality(Procs)
          /\ rwR \subseteq Procs /\ rwWait \subseteq Procs
(* liveness (config without state constraint): every request returns *)
Termination == <>AllDone
(* used by the "find" configurations: stop at the first complete run whose outcome is not serialisable *)
NotBad == ~(AllDone /\ ~OutcomeOK(sc, res, ObsOfDb(db), {}))

View == <<sc, pc, ki, held, lm, ref, rwR, rwWait, sel, scan, db, res, released>>

-----------------------------------------------------------------------------
(* ---- footprints (generation only): which adjacent steps commute ----------------------------------- *)
(* r: objects read, w: objects written, a: objects updated commutatively (reader count of the mutex) *)
DbObjs(t) == {<<"u", x[1], x[2]>> : x \in TX[t].ins \cup OutIds(t)} \cup {<<"k", k, 0>> : k \in {k \in Keys : TX[t].writes[k] # NoRd}}
             \cup {<<"a", Owner(x), 0>> : x \in TX[t].ins \cup OutIds(t)}
DbReads(t) == {<<"u", x[1], x[2]>> : x \in TX[t].ins} \cup {<<"k", k, 0>> : k \in {k \in Keys : TX[t].reads[k] # NoRd}}
NoFoot == [r |-> {}, w |-> {}, a |-> {}, all |-> FALSE]
Foot(p) ==
  LET t == T(p)
      lastKey == (pc[p] = "dotx_before_unlock" /\ held[p] = <<>>) \/ (pc[p] \in {"unlock_key", "unlock_shared_before_delete"} /\ ki[p] = 1)
      rel == IF lastKey THEN {<<"rwr", "", 0>>} ELSE {} IN
  CASE Req(p).ty = "play" -> [NoFoot EXCEPT !.all = TRUE]
    [] Req(p).ty = "sel" -> [NoFoot EXCEPT !.r = {<<"a", Req(p).a, 0>>}, !.w = {<<"sel", "", 0>>}]
    [] pc[p] = "begin" -> [NoFoot EXCEPT !.r = DbReads(t)]
    [] pc[p] = "verified" -> [NoFoot EXCEPT !.r = {<<"rww", "", 0>>}, !.a = {<<"rwr", "", 0>>}]
    [] pc[p] \in {"trylock_key", "trylock_first_before_add", "trylock_shared_before_add", "unlock_key", "unlock_shared_before_delete"} ->
         [NoFoot EXCEPT !.w = {<<"lk", KeyAt(p), 0>>}, !.a = rel]
    [] pc[p] = "dotx_locked" -> [NoFoot EXCEPT !.r = {<<"p", t, 0>>}]
    [] pc[p] = "dotx_before_apply" -> [NoFoot EXCEPT !.r = DbReads(t)]
    [] pc[p] = "dotx_before_write" -> [NoFoot EXCEPT !.w = DbObjs(t)]
    [] pc[p] = "dotx_after_write" -> [NoFoot EXCEPT !.w = {<<"p", t, 0>>} \cup {<<"a", Owner(x), 0>> : x \in OutIds(t)}]
    [] pc[p] = "dotx_before_unlock" -> [NoFoot EXCEPT !.a = rel]
    [] OTHER -> NoFoot
Dependent(f, g) == \/ f.all \/ g.all
                   \/ f.w \cap (g.r \cup g.w \cup g.a) # {}
                   \/ g.w \cap (f.r \cup f.w \cup f.a) # {}
=============================================================================
